#!/bin/bash
# One-time (idempotent) build of the framework, offline: regenerate the Lean files extracted
# from /repo, then build the Lean library and the model driver.
set -e
HERE="$(cd "$(dirname "${BASH_SOURCE[0]}")" && pwd)"
cd "$HERE"
export SKFEM_VERIF=1 PYTHONPATH="$HERE/harness:${SKV_REPO:-/repo}" PYTHONDONTWRITEBYTECODE=1
/venv/bin/python -m skv.gen || echo "generation reported problems (checks will report them)" >&2
cd lean
lake build 2>&1 | tail -40
test -x .lake/build/bin/driver
