import SkfemVerif.Model.Cache
/-
Lemmas about the memo machine, the byte serialisation and the closure machine (property C15).
-/
namespace Skv.Cache

section memo
variable {A K V : Type} [DecidableEq K]

theorem lookup_mem {s : Store K V} {k : K} {v : V} (h : lookup s k = some v) : (k, v) ∈ s := by
  induction s with
  | nil => simp [lookup] at h
  | cons e r ih =>
    obtain ⟨k', v'⟩ := e
    unfold lookup at h
    by_cases hk : k' = k
    · simp [hk] at h
      subst hk; subst h
      exact List.mem_cons_self
    · simp [hk] at h
      exact List.mem_cons_of_mem _ (ih h)

/-- every stored value is the value of `f` at some admissible argument with that key -/
def Consistent (f : A → V) (κ : A → K) (P : A → Prop) (s : Store K V) : Prop :=
  ∀ k v, (k, v) ∈ s → ∃ a, P a ∧ κ a = k ∧ f a = v

omit [DecidableEq K] in
theorem consistent_nil (f : A → V) (κ : A → K) (P : A → Prop) : Consistent f κ P [] := by
  intro k v h; simp at h

/-- sufficiency, from any consistent (warm) store -/
theorem run_sound (f : A → V) (κ : A → K) (keep : Store K V → Store K V) (P : A → Prop)
    (hsub : ∀ s e, e ∈ keep s → e ∈ s)
    (sep : ∀ a b, P a → P b → κ a = κ b → f a = f b) :
    ∀ (h : List A) (s : Store K V), Consistent f κ P s → (∀ a ∈ h, P a) →
      (run f κ keep s h).2 = h.map f ∧ Consistent f κ P (run f κ keep s h).1 := by
  intro h
  induction h with
  | nil => intro s hs _; exact ⟨rfl, hs⟩
  | cons a h ih =>
    intro s hs hP
    have hPa : P a := hP a List.mem_cons_self
    have hPh : ∀ b ∈ h, P b := fun b hb => hP b (List.mem_cons_of_mem _ hb)
    simp only [run, step, List.map_cons]
    cases hl : lookup s (κ a) with
    | some v =>
      obtain ⟨a', hPa', hκ, hf⟩ := hs _ _ (lookup_mem hl)
      have hv : v = f a := by rw [← hf]; exact sep a' a hPa' hPa hκ
      have := ih s hs hPh
      simp only [hv]
      exact ⟨by rw [this.1], this.2⟩
    | none =>
      have hs' : Consistent f κ P (keep ((κ a, f a) :: s)) := by
        intro k v hm
        have := hsub _ _ hm
        rcases List.mem_cons.mp this with he | he
        · have h1 : k = κ a := congrArg Prod.fst he
          have h2 : v = f a := congrArg Prod.snd he
          exact ⟨a, hPa, h1.symm, h2.symm⟩
        · exact hs k v he
      have := ih _ hs' hPh
      exact ⟨by simp only []; rw [this.1], this.2⟩

/-- the two-call history `[a, b]` with colliding keys returns `f a` twice -/
theorem outputs_pair_collision (f : A → V) (κ : A → K) (keep : Store K V → Store K V)
    (hnew : ∀ e : K × V, keep [e] = [e]) (a b : A) (hκ : κ a = κ b) :
    outputs f κ keep [a, b] = [f a, f a] := by
  simp [outputs, run, step, lookup, hnew, hκ]

omit [DecidableEq K] in
theorem Policy.keep_sub (p : Policy) (s : Store K V) (e : K × V) (h : e ∈ p.keep s) : e ∈ s := by
  cases p with
  | all => exact h
  | last => exact List.mem_of_mem_take h

omit [DecidableEq K] in
theorem Policy.keep_new (p : Policy) (e : K × V) : p.keep [e] = [e] := by
  cases p <;> rfl

end memo

/-! ### bytes -/

theorem length_leBytes (w v : Nat) : (leBytes w v).length = w := by
  induction w generalizing v with
  | zero => rfl
  | succ w ih => simp [leBytes, ih]

theorem ofLe_leBytes (w v : Nat) : ofLeBytes (leBytes w v) = v % 256 ^ w := by
  induction w generalizing v with
  | zero => simp [leBytes, ofLeBytes, Nat.mod_one]
  | succ w ih =>
    simp only [leBytes, ofLeBytes, ih]
    rw [Nat.pow_succ', Nat.mod_mul]

theorem leBytes_inj {w v v' : Nat} (hv : v < 256 ^ w) (hv' : v' < 256 ^ w)
    (h : leBytes w v = leBytes w v') : v = v' := by
  have := congrArg ofLeBytes h
  rw [ofLe_leBytes, ofLe_leBytes, Nat.mod_eq_of_lt hv, Nat.mod_eq_of_lt hv'] at this
  exact this

theorem flatten_leBytes_inj {w : Nat} (hw : 0 < w) :
    ∀ (l1 l2 : List Nat), (∀ v ∈ l1, v < 256 ^ w) → (∀ v ∈ l2, v < 256 ^ w) →
      (l1.map (leBytes w)).flatten = (l2.map (leBytes w)).flatten → l1 = l2 := by
  intro l1
  induction l1 with
  | nil =>
    intro l2 _ _ h
    cases l2 with
    | nil => rfl
    | cons v r =>
      have := congrArg List.length h
      simp [length_leBytes] at this
      omega
  | cons v1 r1 ih =>
    intro l2 h1 h2 h
    cases l2 with
    | nil =>
      have := congrArg List.length h
      simp [length_leBytes] at this
      omega
    | cons v2 r2 =>
      simp only [List.map_cons, List.flatten_cons] at h
      have hl : (leBytes w v1).length = (leBytes w v2).length := by
        rw [length_leBytes, length_leBytes]
      obtain ⟨ha, hb⟩ := List.append_inj h hl
      have hv : v1 = v2 :=
        leBytes_inj (h1 v1 List.mem_cons_self) (h2 v2 List.mem_cons_self) ha
      have hr : r1 = r2 :=
        ih r2 (fun v hv => h1 v (List.mem_cons_of_mem _ hv))
          (fun v hv => h2 v (List.mem_cons_of_mem _ hv)) hb
      rw [hv, hr]

/-- the repaired key of one array, (shape, dtype, bytes), determines the array -/
theorem arrKey_inj {a b : NpArr} (ha : a.Valid) (hb : b.Valid)
    (h : (a.shape, a.kind, a.width, a.tobytes) = (b.shape, b.kind, b.width, b.tobytes)) : a = b := by
  obtain ⟨ak, aw, ash, av⟩ := a
  obtain ⟨bk, bw, bsh, bv⟩ := b
  simp only [Prod.mk.injEq] at h
  obtain ⟨h1, h2, h3, h4⟩ := h
  subst h1; subst h2; subst h3
  have : av = bv := flatten_leBytes_inj ha.1 av bv ha.2 hb.2 h4
  rw [this]

/-- pointwise transfer along `List.map` -/
theorem map_transfer {α β γ : Type} (g : α → β) (k : α → γ) (Q : α → Prop)
    (hgk : ∀ x y, Q x → Q y → g x = g y → k x = k y) :
    ∀ (l1 l2 : List α), (∀ x ∈ l1, Q x) → (∀ x ∈ l2, Q x) → l1.map g = l2.map g →
      l1.map k = l2.map k := by
  intro l1
  induction l1 with
  | nil => intro l2 _ _ h; cases l2 with
    | nil => rfl
    | cons _ _ => simp at h
  | cons x r ih =>
    intro l2 h1 h2 h
    cases l2 with
    | nil => simp at h
    | cons y s =>
      simp only [List.map_cons, List.cons.injEq] at h ⊢
      exact ⟨hgk x y (h1 x List.mem_cons_self) (h2 y List.mem_cons_self) h.1,
        ih s (fun z hz => h1 z (List.mem_cons_of_mem _ hz))
          (fun z hz => h2 z (List.mem_cons_of_mem _ hz)) h.2⟩

theorem ofNat_cons_inj {a b : Nat} {l m : List Int}
    (h : (a : Int) :: l = (b : Int) :: m) : a = b ∧ l = m := by
  simp only [List.cons.injEq] at h
  exact ⟨Int.ofNat.inj h.1, h.2⟩

theorem optArr_transfer (x y : Option NpArr) (hx : optValid x) (hy : optValid y)
    (h : x.map (fun z => (z.shape, z.kind, z.width, z.tobytes))
       = y.map (fun z => (z.shape, z.kind, z.width, z.tobytes))) : x = y := by
  cases x with
  | none => cases y with
    | none => rfl
    | some _ => simp at h
  | some a => cases y with
    | none => simp at h
    | some b =>
      simp only [Option.map_some, Option.some.injEq] at h
      rw [arrKey_inj hx hy h]


end Skv.Cache
