import SkfemVerif.Model.Blocks
import SkfemVerif.Lemmas.Dofs
import SkfemVerif.Lemmas.Assembly
import Mathlib.Tactic.Ring
import Mathlib.Data.List.Induction
import Mathlib.Tactic.IntervalCases
/-
Helper lemmas for C19 (vector / composite / block structures).
-/
namespace Skv.Blocks

/-! ### ranges of products and sums -/

theorem range_mul_map {β : Type} (m d : Nat) (h : Nat → β) :
    (List.range (m * d)).map h
      = (List.range m).flatMap (fun a => (List.range d).map (fun n => h (a * d + n))) := by
  induction m with
  | zero => simp
  | succ m ih =>
    rw [Nat.succ_mul, List.range_add, List.map_append, ih, List.range_succ, List.flatMap_append]
    simp [List.map_map, Function.comp_def]

theorem range_add_map {β : Type} (a b : Nat) (h : Nat → β) :
    (List.range (a + b)).map h = (List.range a).map h ++ (List.range b).map (fun i => h (a + i)) := by
  rw [List.range_add, List.map_append, List.map_map]
  rfl

/-! ### ElementVector: the per-cell table -/

/-- the rows an `ElementVector` makes of one row of the scalar element's table -/
def vecRows (dim : Nat) (row : List Nat) : List (List Nat) :=
  (List.range dim).map (fun n => row.map (fun d => dim * d + n))

theorem gatherRows_vec (dim count off : Nat) (conn : List (List Nat)) :
    gatherRows (count * dim) (off * dim) conn = (gatherRows count off conn).flatMap (vecRows dim) := by
  unfold gatherRows
  rw [List.flatMap_assoc]
  congr 1
  funext row
  rw [range_mul_map, List.flatMap_map]
  congr 1
  funext a
  unfold vecRows
  apply List.map_congr_left
  intro n _
  rw [List.map_map]
  apply List.map_congr_left
  intro e _
  simp only [Function.comp, dofNumber]
  ring

theorem dofTable_vec (dim count n off : Nat) :
    dofTable (count * dim) n (off * dim) = (dofTable count n off).flatMap (vecRows dim) := by
  unfold dofTable
  rw [range_mul_map, List.flatMap_map]
  congr 1
  funext a
  unfold vecRows
  apply List.map_congr_left
  intro m _
  rw [List.map_map]
  apply List.map_congr_left
  intro e _
  simp only [Function.comp, dofNumber]
  ring

theorem mul_pos_iff_left (a dim : Nat) (hd : 0 < dim) : (a * dim > 0) = (a > 0) := by
  apply propext
  constructor
  · intro h
    rcases Nat.eq_zero_or_pos a with h0 | h0
    · simp [h0] at h
    · exact h0
  · intro h; exact Nat.mul_pos h hd

theorem useEdges_vec (dim : Nat) (hd : 0 < dim) (c : DofCounts) (tp : Topo) :
    useEdges (vecCounts dim c) tp = useEdges c tp := by
  unfold useEdges vecCounts
  simp only [mul_pos_iff_left c.edge dim hd]

theorem useFacets_vec (dim : Nat) (hd : 0 < dim) (c : DofCounts) :
    useFacets (vecCounts dim c) = useFacets c := by
  unfold useFacets vecCounts
  simp only [mul_pos_iff_left c.facet dim hd]

theorem offEdge_vec (dim : Nat) (c : DofCounts) (tp : Topo) :
    offEdge (vecCounts dim c) tp = offEdge c tp * dim := by
  simp only [offEdge, vecCounts]; ring

theorem offFacet_vec (dim : Nat) (hd : 0 < dim) (c : DofCounts) (tp : Topo) :
    offFacet (vecCounts dim c) tp = offFacet c tp * dim := by
  unfold offFacet
  rw [useEdges_vec dim hd, offEdge_vec]
  by_cases h : useEdges c tp = true
  · simp only [h, if_true, vecCounts]; ring
  · simp only [h]; simp

theorem offInterior_vec (dim : Nat) (hd : 0 < dim) (c : DofCounts) (tp : Topo) :
    offInterior (vecCounts dim c) tp = offInterior c tp * dim := by
  unfold offInterior
  rw [useFacets_vec dim hd, offFacet_vec dim hd]
  by_cases h : useFacets c = true
  · simp only [h, if_true, vecCounts]; ring
  · simp only [h]; simp

theorem elementDofs_vec (dim : Nat) (hd : 0 < dim) (c : DofCounts) (tp : Topo) :
    elementDofs (vecCounts dim c) tp = (elementDofs c tp).flatMap (vecRows dim) := by
  unfold elementDofs interiorDofs
  rw [useEdges_vec dim hd, useFacets_vec dim hd, offEdge_vec, offFacet_vec dim hd,
    offInterior_vec dim hd]
  simp only [List.flatMap_append]
  have h0 : gatherRows (vecCounts dim c).nodal 0 tp.t
      = (gatherRows c.nodal 0 tp.t).flatMap (vecRows dim) := by
    have := gatherRows_vec dim c.nodal 0 tp.t
    simpa [vecCounts] using this
  rw [h0]
  congr 1
  congr 1
  congr 1
  · by_cases h : useEdges c tp = true
    · simp only [h, if_true]; exact gatherRows_vec dim c.edge _ tp.t2e
    · simp [h]
  · by_cases h : (decide (tp.dim ≥ 2) && useFacets c) = true
    · simp only [h, if_true]; exact gatherRows_vec dim c.facet _ tp.t2f
    · simp [h]
  · exact dofTable_vec dim c.interior tp.nt _

theorem dofsTotal_vec (dim : Nat) (hd : 0 < dim) (c : DofCounts) (tp : Topo) :
    dofsTotal (vecCounts dim c) tp = dofsTotal c tp * dim := by
  unfold dofsTotal
  rw [offInterior_vec dim hd]
  simp only [vecCounts]; ring

/-! ### flatten('F') of row selections of a DOF table -/

/-- the F-order flattening of `cnt` rows `a ↦ (e ↦ g a e)` of width `N` -/
theorem flattenF_rows (cnt N : Nat) (g : Nat → Nat → Nat) :
    flattenF ((List.range cnt).map (fun a => (List.range N).map (g a)))
      = (List.range N).flatMap (fun e => (List.range cnt).map (fun a => g a e)) := by
  unfold flattenF
  rcases Nat.eq_zero_or_pos cnt with h | h
  · subst h; simp
  · have hl : (((List.range cnt).map (fun a => (List.range N).map (g a))).headD []).length = N := by
      obtain ⟨c', rfl⟩ : ∃ c', cnt = c' + 1 := ⟨cnt - 1, by omega⟩
      simp [List.range_succ_eq_map]
    rw [hl]
    apply List.flatMap_congr
    intro e he
    rw [List.map_map]
    apply List.map_congr_left
    intro a _
    simp only [List.mem_range] at he
    simp [Function.comp, List.getD_eq_getElem?_getD, he]

theorem dofTable_getD_row (count n off a : Nat) (ha : a < count) :
    (dofTable count n off).getD a [] = (List.range n).map (fun e => dofNumber count off a e) := by
  simp [dofTable, List.getD_eq_getElem?_getD, ha]

theorem dofTable_length (count n off : Nat) : (dofTable count n off).length = count := by
  simp [dofTable]

/-- `table[o:o+cnt]` of a DOF table -/
theorem sliceRows_dofTable (C N OFF o cnt : Nat) (h : o + cnt ≤ C) :
    sliceRows (dofTable C N OFF) o cnt
      = (List.range cnt).map (fun a => (List.range N).map (fun e => dofNumber C OFF (o + a) e)) := by
  unfold sliceRows
  apply List.ext_getElem?
  intro i
  by_cases hi : i < cnt
  · rw [List.getElem?_take_of_lt hi, List.getElem?_drop]
    have h1 : o + i < C := by omega
    simp [dofTable, h1, hi]
  · have hi' : cnt ≤ i := Nat.le_of_not_lt hi
    rw [List.getElem?_eq_none (by simp; omega), List.getElem?_eq_none (by simp; omega)]

/-- `table[n::dim]` of the table of an `ElementVector` -/
theorem strideRows_dofTable (cnt dim N OFF n : Nat) (hn : n < dim) :
    strideRows (dofTable (cnt * dim) N OFF) n dim
      = (List.range cnt).map (fun a => (List.range N).map
          (fun e => dofNumber (cnt * dim) OFF (n + a * dim) e)) := by
  unfold strideRows
  rw [dofTable_length]
  have hc : (cnt * dim - n + dim - 1) / dim = cnt := by
    apply Nat.div_eq_of_lt_le
    · rcases Nat.eq_zero_or_pos cnt with h | h
      · subst h; simp
      · have : dim ≤ cnt * dim := Nat.le_mul_of_pos_left dim h
        omega
    · rw [Nat.succ_mul]
      rcases Nat.eq_zero_or_pos cnt with h | h
      · subst h; simp; omega
      · have : dim ≤ cnt * dim := Nat.le_mul_of_pos_left dim h
        omega
  rw [hc]
  apply List.map_congr_left
  intro a ha
  simp only [List.mem_range] at ha
  apply dofTable_getD_row
  have : (a + 1) * dim ≤ cnt * dim := Nat.mul_le_mul_right dim ha
  rw [Nat.succ_mul] at this
  omega

theorem strideRows_nil (n dim : Nat) (hd : 0 < dim) : strideRows [] n dim = [] := by
  unfold strideRows
  have : ([] : List (List Nat)).length - n + dim - 1 = dim - 1 := by simp
  rw [this, Nat.div_eq_of_lt (by omega)]
  rfl

theorem flattenF_nil : flattenF [] = [] := by simp [flattenF]

/-- one table of the wrapper restricted to the rows of one component (closed form) -/
def splitBlock (C OFF N o cnt : Nat) : List Nat :=
  (List.range N).flatMap (fun e => (List.range cnt).map (fun a => dofNumber C OFF (o + a) e))

theorem flattenF_slice_dofTable (C N OFF o cnt : Nat) (h : o + cnt ≤ C) :
    flattenF (sliceRows (dofTable C N OFF) o cnt) = splitBlock C OFF N o cnt := by
  rw [sliceRows_dofTable C N OFF o cnt h, flattenF_rows]
  rfl

theorem splitBlock_length (C OFF N o cnt : Nat) : (splitBlock C OFF N o cnt).length = N * cnt := by
  unfold splitBlock
  exact length_flatMap_range N cnt _ (fun e _ => by simp)

theorem splitBlock_getElem? (C OFF N o cnt a e : Nat) (ha : a < cnt) (he : e < N) :
    (splitBlock C OFF N o cnt)[e * cnt + a]? = some (dofNumber C OFF (o + a) e) := by
  unfold splitBlock
  rw [getElem?_flatMap_range N cnt _ (fun e _ => by simp) e a he ha]
  simp [ha]

/-- the stride selection of an `ElementVector` table, flattened: position `p` (the scalar
    element's own numbering inside this table) holds `dim * (off + p) + n` -/
theorem flattenF_stride_dofTable (cnt dim N off n : Nat) (hn : n < dim) :
    flattenF (strideRows (dofTable (cnt * dim) N (off * dim)) n dim)
      = (List.range (cnt * N)).map (fun p => dim * (off + p) + n) := by
  rw [strideRows_dofTable cnt dim N _ n hn, flattenF_rows, Nat.mul_comm cnt N, range_mul_map]
  apply List.flatMap_congr
  intro e _
  apply List.map_congr_left
  intro a _
  simp only [dofNumber]
  ring

/-! ### split_indices: closed forms -/

theorem splitIndicesVector_eq (dim : Nat) (hd : 0 < dim) (c : DofCounts) (tp : Topo) (n : Nat)
    (hn : n < dim) :
    splitIndicesVector dim c tp n = (List.range (dofsTotal c tp)).map (fun d => dim * d + n) := by
  have b0 : flattenF (strideRows (nodalDofs (vecCounts dim c) tp) n dim)
      = (List.range (c.nodal * tp.nverts)).map (fun p => dim * (0 + p) + n) := by
    have := flattenF_stride_dofTable c.nodal dim tp.nverts 0 n hn
    simpa [nodalDofs, vecCounts] using this
  have b1 : flattenF (strideRows (edgeDofs (vecCounts dim c) tp) n dim)
      = (List.range (if useEdges c tp then c.edge * tp.nedges else 0)).map
          (fun p => dim * (offEdge c tp + p) + n) := by
    unfold edgeDofs
    rw [useEdges_vec dim hd, offEdge_vec]
    by_cases h : useEdges c tp = true
    · simp only [h, if_true]
      exact flattenF_stride_dofTable c.edge dim tp.nedges _ n hn
    · simp only [h]
      simp [strideRows_nil n dim hd, flattenF_nil]
  have b2 : flattenF (strideRows (facetDofs (vecCounts dim c) tp) n dim)
      = (List.range (if useFacets c then c.facet * tp.nfacets else 0)).map
          (fun p => dim * (offFacet c tp + p) + n) := by
    unfold facetDofs
    rw [useFacets_vec dim hd, offFacet_vec dim hd]
    by_cases h : useFacets c = true
    · simp only [h, if_true]
      exact flattenF_stride_dofTable c.facet dim tp.nfacets _ n hn
    · simp only [h]
      simp [strideRows_nil n dim hd, flattenF_nil]
  have b3 : flattenF (strideRows (interiorDofs (vecCounts dim c) tp) n dim)
      = (List.range (c.interior * tp.nt)).map (fun p => dim * (offInterior c tp + p) + n) := by
    unfold interiorDofs
    rw [offInterior_vec dim hd]
    exact flattenF_stride_dofTable c.interior dim tp.nt _ n hn
  unfold splitIndicesVector
  simp only [b0, b1, b2, b3]
  have e : dofsTotal c tp = c.nodal * tp.nverts + (if useEdges c tp then c.edge * tp.nedges else 0)
      + (if useFacets c then c.facet * tp.nfacets else 0) + c.interior * tp.nt := by
    simp only [dofsTotal, offInterior, offFacet, offEdge]
  rw [e, range_add_map, range_add_map, range_add_map]
  simp only [offInterior, offFacet, offEdge, Nat.zero_add]


theorem get_sumCounts (cs : List DofCounts) (t : Nat) :
    (sumCounts cs).get t = (cs.map (fun c => c.get t)).sum := by
  unfold sumCounts DofCounts.get
  split <;> rfl

theorem take_sum_add_le (l : List Nat) (k : Nat) (hk : k < l.length) :
    (l.take k).sum + l[k] ≤ l.sum := by
  induction l generalizing k with
  | nil => simp at hk
  | cons x xs ih =>
    cases k with
    | zero => simp
    | succ k =>
      simp only [List.take_succ_cons, List.sum_cons, List.getElem_cons_succ]
      have := ih k (by simpa using hk)
      omega

theorem compOffsets_get (cs : List DofCounts) (k t : Nat) :
    (compOffsets cs k).get t = ((cs.map (fun c => c.get t)).take k).sum := by
  unfold compOffsets
  rw [get_sumCounts, List.map_take]

/-- the rows of component `k` lie inside the wrapper's table -/
theorem comp_rows_le (cs : List DofCounts) (k t : Nat) (hk : k < cs.length) :
    (compOffsets cs k).get t + (cs[k]).get t ≤ (sumCounts cs).get t := by
  rw [compOffsets_get, get_sumCounts]
  have := take_sum_add_le (cs.map (fun c => c.get t)) k (by simpa using hk)
  simpa using this

theorem splitIndicesComposite_eq (cs : List DofCounts) (tp : Topo) (k : Nat) (hk : k < cs.length) :
    splitIndicesComposite cs tp k
      = splitBlock (sumCounts cs).nodal 0 tp.nverts (compOffsets cs k).nodal (cs[k]).nodal
        ++ (if useEdges (sumCounts cs) tp then
              splitBlock (sumCounts cs).edge (offEdge (sumCounts cs) tp) tp.nedges
                (compOffsets cs k).edge (cs[k]).edge else [])
        ++ (if useFacets (sumCounts cs) then
              splitBlock (sumCounts cs).facet (offFacet (sumCounts cs) tp) tp.nfacets
                (compOffsets cs k).facet (cs[k]).facet else [])
        ++ splitBlock (sumCounts cs).interior (offInterior (sumCounts cs) tp) tp.nt
            (compOffsets cs k).interior (cs[k]).interior := by
  have hg : cs.getD k ⟨0, 0, 0, 0⟩ = cs[k] := by simp [List.getD_eq_getElem?_getD, hk]
  have h0 := comp_rows_le cs k 0 hk
  have h1 := comp_rows_le cs k 1 hk
  have h2 := comp_rows_le cs k 2 hk
  have h3 := comp_rows_le cs k 3 hk
  simp only [DofCounts.get] at h0 h1 h2 h3
  unfold splitIndicesComposite
  simp only [hg]
  unfold nodalDofs edgeDofs facetDofs interiorDofs
  rw [flattenF_slice_dofTable _ _ _ _ _ h0, flattenF_slice_dofTable _ _ _ _ _ h3]
  congr 1
  congr 1
  congr 1
  · by_cases h : useEdges (sumCounts cs) tp = true
    · simp only [h, if_true]; exact flattenF_slice_dofTable _ _ _ _ _ h1
    · simp [h, sliceRows, flattenF_nil]
  · by_cases h : useFacets (sumCounts cs) = true
    · simp only [h, if_true]; exact flattenF_slice_dofTable _ _ _ _ _ h2
    · simp [h, sliceRows, flattenF_nil]


/-! ### split_indices of a composite: entries -/

theorem getElem?_app4_0 {α : Type} (A B C D : List α) (i : Nat) (h : i < A.length) :
    (A ++ B ++ C ++ D)[i]? = A[i]? := by
  rw [List.getElem?_append_left (by simp; omega), List.getElem?_append_left (by simp; omega),
    List.getElem?_append_left h]

theorem getElem?_app4_1 {α : Type} (A B C D : List α) (i : Nat) (h : i < B.length) :
    (A ++ B ++ C ++ D)[A.length + i]? = B[i]? := by
  rw [List.getElem?_append_left (by simp; omega), List.getElem?_append_left (by simp; omega),
    List.getElem?_append_right (by omega)]
  simp

theorem getElem?_app4_2 {α : Type} (A B C D : List α) (i : Nat) (h : i < C.length) :
    (A ++ B ++ C ++ D)[A.length + B.length + i]? = C[i]? := by
  rw [List.getElem?_append_left (by simp; omega), List.getElem?_append_right (by simp)]
  simp

theorem getElem?_app4_3 {α : Type} (A B C D : List α) (i : Nat) :
    (A ++ B ++ C ++ D)[A.length + B.length + C.length + i]? = D[i]? := by
  rw [List.getElem?_append_right (by simp; omega)]
  congr 1
  simp
  omega

theorem useEdges_of_le (c C : DofCounts) (tp : Topo) (hle : c.edge ≤ C.edge) (hpos : 0 < c.edge) :
    useEdges C tp = useEdges c tp := by
  unfold useEdges
  have h1 : decide (C.edge > 0) = true := by simp; omega
  have h2 : decide (c.edge > 0) = true := by simp; omega
  rw [h1, h2]

theorem useFacets_of_le (c C : DofCounts) (hle : c.facet ≤ C.facet) (hpos : 0 < c.facet) :
    useFacets C = useFacets c := by
  unfold useFacets
  have h1 : decide (C.facet > 0) = true := by simp; omega
  have h2 : decide (c.facet > 0) = true := by simp; omega
  rw [h1, h2]

section Entries
variable (cs : List DofCounts) (tp : Topo) (k : Nat) (hk : k < cs.length)

/-- length of the edge part of `split_indices()[k]` = size of the component's own edge table -/
theorem split_edge_len :
    (if useEdges (sumCounts cs) tp then
        splitBlock (sumCounts cs).edge (offEdge (sumCounts cs) tp) tp.nedges
          (compOffsets cs k).edge (cs[k]).edge else []).length
      = (if useEdges (cs[k]) tp then (cs[k]).edge * tp.nedges else 0) := by
  have hle := comp_rows_le cs k 1 hk
  simp only [DofCounts.get] at hle
  rcases Nat.eq_zero_or_pos (cs[k]).edge with h0 | h0
  · have hr : (if useEdges (cs[k]) tp then (cs[k]).edge * tp.nedges else 0) = 0 := by simp [h0]
    rw [hr]
    by_cases h : useEdges (sumCounts cs) tp = true
    · rw [if_pos h, splitBlock_length, h0]; simp
    · rw [if_neg h]; rfl
  · rw [useEdges_of_le (cs[k]) (sumCounts cs) tp (by omega) h0]
    by_cases h : useEdges (cs[k]) tp = true
    · simp [h, splitBlock_length, Nat.mul_comm]
    · simp [h]

theorem split_facet_len :
    (if useFacets (sumCounts cs) then
        splitBlock (sumCounts cs).facet (offFacet (sumCounts cs) tp) tp.nfacets
          (compOffsets cs k).facet (cs[k]).facet else []).length
      = (if useFacets (cs[k]) then (cs[k]).facet * tp.nfacets else 0) := by
  have hle := comp_rows_le cs k 2 hk
  simp only [DofCounts.get] at hle
  rcases Nat.eq_zero_or_pos (cs[k]).facet with h0 | h0
  · have hr : (if useFacets (cs[k]) then (cs[k]).facet * tp.nfacets else 0) = 0 := by simp [h0]
    rw [hr]
    by_cases h : useFacets (sumCounts cs) = true
    · rw [if_pos h, splitBlock_length, h0]; simp
    · rw [if_neg h]; rfl
  · rw [useFacets_of_le (cs[k]) (sumCounts cs) (by omega) h0]
    by_cases h : useFacets (cs[k]) = true
    · simp [h, splitBlock_length, Nat.mul_comm]
    · simp [h]

theorem splitIndicesComposite_length :
    (splitIndicesComposite cs tp k).length = dofsTotal (cs[k]) tp := by
  rw [splitIndicesComposite_eq cs tp k hk]
  simp only [List.length_append]
  rw [split_edge_len cs tp k hk, split_facet_len cs tp k hk, splitBlock_length, splitBlock_length]
  simp only [dofsTotal, offInterior, offFacet, offEdge]
  rw [Nat.mul_comm tp.nverts, Nat.mul_comm tp.nt]

theorem split_nodal_entry (a v : Nat) (ha : a < (cs[k]).nodal) (hv : v < tp.nverts) :
    (splitIndicesComposite cs tp k)[dofNumber (cs[k]).nodal 0 a v]?
      = some (dofNumber (sumCounts cs).nodal 0 ((compOffsets cs k).nodal + a) v) := by
  rw [splitIndicesComposite_eq cs tp k hk]
  have hi : dofNumber (cs[k]).nodal 0 a v = v * (cs[k]).nodal + a := by
    unfold dofNumber; ring
  have hlt : v * (cs[k]).nodal + a < tp.nverts * (cs[k]).nodal := by
    have := Nat.mul_le_mul_right (cs[k]).nodal (Nat.succ_le_of_lt hv)
    rw [Nat.succ_mul] at this
    omega
  rw [hi, getElem?_app4_0 _ _ _ _ _ (by rw [splitBlock_length]; exact hlt),
    splitBlock_getElem? _ _ _ _ _ a v ha hv]

theorem split_edge_entry (hu : useEdges (cs[k]) tp = true) (b e : Nat) (hb : b < (cs[k]).edge)
    (he : e < tp.nedges) :
    (splitIndicesComposite cs tp k)[dofNumber (cs[k]).edge (offEdge (cs[k]) tp) b e]?
      = some (dofNumber (sumCounts cs).edge (offEdge (sumCounts cs) tp)
          ((compOffsets cs k).edge + b) e) := by
  rw [splitIndicesComposite_eq cs tp k hk]
  have hle := comp_rows_le cs k 1 hk
  simp only [DofCounts.get] at hle
  have hU : useEdges (sumCounts cs) tp = true := by
    rw [useEdges_of_le (cs[k]) (sumCounts cs) tp (by omega) (by omega)]; exact hu
  simp only [hU, if_true]
  have hi : dofNumber (cs[k]).edge (offEdge (cs[k]) tp) b e
      = (splitBlock (sumCounts cs).nodal 0 tp.nverts (compOffsets cs k).nodal (cs[k]).nodal).length
        + (e * (cs[k]).edge + b) := by
    rw [splitBlock_length]; unfold dofNumber offEdge; ring
  have hlt : e * (cs[k]).edge + b < tp.nedges * (cs[k]).edge := by
    have := Nat.mul_le_mul_right (cs[k]).edge (Nat.succ_le_of_lt he)
    rw [Nat.succ_mul] at this
    omega
  rw [hi, getElem?_app4_1 _ _ _ _ _ (by rw [splitBlock_length]; exact hlt),
    splitBlock_getElem? _ _ _ _ _ b e hb he]

theorem split_facet_entry (hu : useFacets (cs[k]) = true) (d f : Nat) (hd : d < (cs[k]).facet)
    (hf : f < tp.nfacets) :
    (splitIndicesComposite cs tp k)[dofNumber (cs[k]).facet (offFacet (cs[k]) tp) d f]?
      = some (dofNumber (sumCounts cs).facet (offFacet (sumCounts cs) tp)
          ((compOffsets cs k).facet + d) f) := by
  rw [splitIndicesComposite_eq cs tp k hk]
  have hle := comp_rows_le cs k 2 hk
  simp only [DofCounts.get] at hle
  have hU : useFacets (sumCounts cs) = true := by
    rw [useFacets_of_le (cs[k]) (sumCounts cs) (by omega) (by omega)]; exact hu
  have hl1 := split_edge_len cs tp k hk
  simp only [hU, if_true] at hl1 ⊢
  have hi : dofNumber (cs[k]).facet (offFacet (cs[k]) tp) d f
      = (splitBlock (sumCounts cs).nodal 0 tp.nverts (compOffsets cs k).nodal (cs[k]).nodal).length
        + (if useEdges (sumCounts cs) tp then
            splitBlock (sumCounts cs).edge (offEdge (sumCounts cs) tp) tp.nedges
              (compOffsets cs k).edge (cs[k]).edge else []).length
        + (f * (cs[k]).facet + d) := by
    rw [hl1, splitBlock_length]; unfold dofNumber offFacet offEdge; ring
  have hlt : f * (cs[k]).facet + d < tp.nfacets * (cs[k]).facet := by
    have := Nat.mul_le_mul_right (cs[k]).facet (Nat.succ_le_of_lt hf)
    rw [Nat.succ_mul] at this
    omega
  rw [hi, getElem?_app4_2 _ _ _ _ _ (by rw [splitBlock_length]; exact hlt),
    splitBlock_getElem? _ _ _ _ _ d f hd hf]

theorem split_interior_entry (g c : Nat) (hg : g < (cs[k]).interior) (hc : c < tp.nt) :
    (splitIndicesComposite cs tp k)[dofNumber (cs[k]).interior (offInterior (cs[k]) tp) g c]?
      = some (dofNumber (sumCounts cs).interior (offInterior (sumCounts cs) tp)
          ((compOffsets cs k).interior + g) c) := by
  rw [splitIndicesComposite_eq cs tp k hk]
  have hl1 := split_edge_len cs tp k hk
  have hl2 := split_facet_len cs tp k hk
  have hi : dofNumber (cs[k]).interior (offInterior (cs[k]) tp) g c
      = (splitBlock (sumCounts cs).nodal 0 tp.nverts (compOffsets cs k).nodal (cs[k]).nodal).length
        + (if useEdges (sumCounts cs) tp then
            splitBlock (sumCounts cs).edge (offEdge (sumCounts cs) tp) tp.nedges
              (compOffsets cs k).edge (cs[k]).edge else []).length
        + (if useFacets (sumCounts cs) then
            splitBlock (sumCounts cs).facet (offFacet (sumCounts cs) tp) tp.nfacets
              (compOffsets cs k).facet (cs[k]).facet else []).length
        + (c * (cs[k]).interior + g) := by
    rw [hl1, hl2, splitBlock_length]; unfold dofNumber offInterior offFacet offEdge; ring
  rw [hi, getElem?_app4_3, splitBlock_getElem? _ _ _ _ _ g c hg hc]

end Entries


/-! ### blocks of unequal length -/

theorem flatMap_range_split {β : Type} (K n : Nat) (hn : n < K) (g : Nat → List β) :
    (List.range K).flatMap g
      = (List.range n).flatMap g
        ++ (g n ++ (List.range (K - n - 1)).flatMap (fun i => g (n + 1 + i))) := by
  have e : K = n + (1 + (K - n - 1)) := by omega
  conv_lhs => rw [e]
  rw [List.range_add, List.flatMap_append, List.range_add, List.map_append, List.flatMap_append]
  simp [List.flatMap_map, Nat.add_assoc]

theorem take_mid {β : Type} (pre blk post : List β) (s : Nat) (hs : s ≤ blk.length) :
    (pre ++ (blk ++ post)).take (pre.length + s) = pre ++ blk.take s := by
  rw [List.take_append, List.take_append]
  simp [Nat.sub_eq_zero_of_le hs]

theorem getElem?_mid {β : Type} (pre blk post : List β) (s : Nat) (hs : s < blk.length) :
    (pre ++ (blk ++ post))[pre.length + s]? = blk[s]? := by
  rw [List.getElem?_append_right (by omega)]
  simp [List.getElem?_append_left hs]

theorem sum_getD_range (l : List Nat) (n : Nat) (hn : n ≤ l.length) :
    ((List.range n).map (fun j => l.getD j 0)).sum = (l.take n).sum := by
  induction n with
  | zero => simp
  | succ n ih =>
    have hlt : n < l.length := by omega
    rw [List.range_succ, List.map_append, List.sum_append, ih (by omega), List.take_add_one]
    simp [List.getD_eq_getElem?_getD, hlt]

theorem length_flatMap_range_sum {β : Type} (n : Nat) (g : Nat → List β) :
    ((List.range n).flatMap g).length = ((List.range n).map (fun j => (g j).length)).sum := by
  simp [List.length_flatMap]

/-! ### the pattern `[j] * cnt_j` -/

theorem kindPattern_prefix_length (cnts : List Nat) (n : Nat) (hn : n ≤ cnts.length) :
    ((List.range n).flatMap (fun j => List.replicate (cnts.getD j 0) j)).length
      = (cnts.take n).sum := by
  rw [length_flatMap_range_sum]
  simp only [List.length_replicate]
  exact sum_getD_range cnts n hn

theorem kindPattern_length (cnts : List Nat) : (kindPattern cnts).length = cnts.sum := by
  unfold kindPattern
  rw [kindPattern_prefix_length cnts cnts.length (Nat.le_refl _), List.take_length]

theorem kindPattern_split (cnts : List Nat) (n : Nat) (hn : n < cnts.length) :
    kindPattern cnts
      = (List.range n).flatMap (fun j => List.replicate (cnts.getD j 0) j)
        ++ (List.replicate cnts[n] n
          ++ (List.range (cnts.length - n - 1)).flatMap
              (fun i => List.replicate (cnts.getD (n + 1 + i) 0) (n + 1 + i))) := by
  unfold kindPattern
  rw [flatMap_range_split cnts.length n hn]
  simp [List.getD_eq_getElem?_getD, hn]

theorem count_prefix_zero (cnts : List Nat) (n : Nat) :
    ((List.range n).flatMap (fun j => List.replicate (cnts.getD j 0) j)).count n = 0 := by
  rw [List.count_eq_zero]
  intro h
  simp only [List.mem_flatMap, List.mem_range, List.mem_replicate] at h
  obtain ⟨j, hj, _, he⟩ := h
  omega

theorem count_suffix_zero (cnts : List Nat) (n m : Nat) :
    ((List.range m).flatMap
      (fun i => List.replicate (cnts.getD (n + 1 + i) 0) (n + 1 + i))).count n = 0 := by
  rw [List.count_eq_zero]
  intro h
  simp only [List.mem_flatMap, List.mem_range, List.mem_replicate] at h
  obtain ⟨j, _, _, he⟩ := h
  omega

theorem kindPattern_getElem? (cnts : List Nat) (n a : Nat) (hn : n < cnts.length)
    (ha : a < cnts[n]) : (kindPattern cnts)[(cnts.take n).sum + a]? = some n := by
  rw [kindPattern_split cnts n hn, ← kindPattern_prefix_length cnts n (by omega),
    getElem?_mid _ _ _ _ (by simpa using ha)]
  simp [ha]

theorem kindPattern_count_take (cnts : List Nat) (n a : Nat) (hn : n < cnts.length)
    (ha : a ≤ cnts[n]) : ((kindPattern cnts).take ((cnts.take n).sum + a)).count n = a := by
  rw [kindPattern_split cnts n hn, ← kindPattern_prefix_length cnts n (by omega),
    take_mid _ _ _ _ (by simpa using ha), List.count_append, count_prefix_zero]
  simp [List.take_replicate, Nat.min_eq_left ha]

theorem kindPattern_count (cnts : List Nat) (n : Nat) (hn : n < cnts.length) :
    (kindPattern cnts).count n = cnts[n] := by
  rw [kindPattern_split cnts n hn, List.count_append, List.count_append, count_prefix_zero,
    count_suffix_zero]
  simp

/-! ### the pattern repeated once per entity -/

theorem flatten_replicate_length {β : Type} (m : Nat) (P : List β) :
    (List.replicate m P).flatten.length = m * P.length := by
  induction m with
  | zero => simp
  | succ m ih => rw [List.replicate_succ, List.flatten_cons, List.length_append, ih]; ring

theorem flatten_replicate_count (m : Nat) (P : List Nat) (n : Nat) :
    (List.replicate m P).flatten.count n = m * P.count n := by
  induction m with
  | zero => simp
  | succ m ih => rw [List.replicate_succ, List.flatten_cons, List.count_append, ih]; ring

theorem flatten_replicate_split {β : Type} (m itr : Nat) (h : itr < m) (P : List β) :
    (List.replicate m P).flatten
      = (List.replicate itr P).flatten ++ (P ++ (List.replicate (m - itr - 1) P).flatten) := by
  have e : m = itr + (1 + (m - itr - 1)) := by omega
  conv_lhs => rw [e]
  rw [List.replicate_add, List.flatten_append, List.replicate_add, List.flatten_append]
  simp

theorem kindBlock_eq (cnts : List Nat) (nent : Nat) :
    kindBlock cnts (cnts.sum * nent) = (List.replicate nent (kindPattern cnts)).flatten := by
  unfold kindBlock
  rcases Nat.eq_zero_or_pos cnts.sum with h | h
  · have hP : kindPattern cnts = [] := by
      apply List.eq_nil_of_length_eq_zero; rw [kindPattern_length, h]
    simp [h, hP]
  · rcases Nat.eq_zero_or_pos nent with h' | h'
    · subst h'; simp
    · have : cnts.sum * nent > 0 := Nat.mul_pos h h'
      rw [if_pos this, kindPattern_length, Nat.mul_div_cancel_left nent h]


/-! ### `_deduce_bfun` -/

/-- the block of kind `t` in `ns` -/
def nsBlock (cs : List DofCounts) (r : RefCounts) (t : Nat) : List Nat :=
  kindBlock (cs.map (fun c => c.get t)) ((cs.map (fun c => c.get t * r.get t)).sum)

theorem sum_map_mul_right (l : List Nat) (m : Nat) : (l.map (fun x => x * m)).sum = l.sum * m := by
  induction l with
  | nil => simp
  | cons x xs ih => simp [ih, Nat.add_mul]

theorem nsBlock_eq (cs : List DofCounts) (r : RefCounts) (t : Nat) :
    nsBlock cs r t
      = (List.replicate (r.get t) (kindPattern (cs.map (fun c => c.get t)))).flatten := by
  unfold nsBlock
  have : (cs.map (fun c => c.get t * r.get t)).sum = (cs.map (fun c => c.get t)).sum * r.get t := by
    rw [← sum_map_mul_right, List.map_map]; rfl
  rw [this, kindBlock_eq]

theorem nsBlock_length (cs : List DofCounts) (r : RefCounts) (t : Nat) :
    (nsBlock cs r t).length = (sumCounts cs).get t * r.get t := by
  rw [nsBlock_eq, flatten_replicate_length, kindPattern_length, get_sumCounts, Nat.mul_comm]

theorem nsBlock_count (cs : List DofCounts) (r : RefCounts) (t n : Nat) (hn : n < cs.length) :
    (nsBlock cs r t).count n = (cs[n]).get t * r.get t := by
  rw [nsBlock_eq, flatten_replicate_count, kindPattern_count _ n (by simpa using hn), Nat.mul_comm]
  simp

theorem bfunNs_split (cs : List DofCounts) (r : RefCounts) (t : Nat) (ht : t < 4) :
    bfunNs cs r = (List.range t).flatMap (nsBlock cs r)
      ++ (nsBlock cs r t ++ (List.range (4 - t - 1)).flatMap (fun i => nsBlock cs r (t + 1 + i))) := by
  unfold bfunNs
  exact flatMap_range_split 4 t ht (nsBlock cs r)

theorem nsPrefix_length (cs : List DofCounts) (r : RefCounts) (t : Nat) :
    ((List.range t).flatMap (nsBlock cs r)).length = rowBase (sumCounts cs) r t := by
  rw [length_flatMap_range_sum]
  unfold rowBase
  congr 1
  apply List.map_congr_left
  intro s _
  exact nsBlock_length cs r s

theorem nsPrefix_count (cs : List DofCounts) (r : RefCounts) (t n : Nat) (hn : n < cs.length) :
    ((List.range t).flatMap (nsBlock cs r)).count n = rowBase (cs[n]) r t := by
  rw [List.count_flatMap]
  unfold rowBase
  congr 1
  apply List.map_congr_left
  intro s _
  exact nsBlock_count cs r s n hn

/-- **closed form of `_deduce_bfun`** -/
theorem deduceBfun_closed (cs : List DofCounts) (r : RefCounts) (t itr n a : Nat) (ht : t < 4)
    (hitr : itr < r.get t) (hn : n < cs.length) (ha : a < (cs[n]).get t) :
    deduceBfun cs r (rowBase (sumCounts cs) r t
        + (itr * (sumCounts cs).get t + ((compOffsets cs n).get t + a)))
      = (n, rowBase (cs[n]) r t + (itr * (cs[n]).get t + a)) := by
  set cnts := cs.map (fun c => c.get t) with hcnts
  have hnl : n < cnts.length := by simpa [hcnts] using hn
  have hcn : cnts[n] = (cs[n]).get t := by simp [hcnts]
  have hP : (kindPattern cnts).length = (sumCounts cs).get t := by
    rw [kindPattern_length, get_sumCounts]
  have ho : (compOffsets cs n).get t = (cnts.take n).sum := by rw [compOffsets_get]
  have hs : (compOffsets cs n).get t + a < (kindPattern cnts).length := by
    rw [hP]
    have := comp_rows_le cs n t hn
    omega
  -- the block of kind t and the position inside it
  have hblk : nsBlock cs r t
      = (List.replicate itr (kindPattern cnts)).flatten
        ++ (kindPattern cnts ++ (List.replicate (r.get t - itr - 1) (kindPattern cnts)).flatten) := by
    rw [nsBlock_eq]; exact flatten_replicate_split _ itr hitr _
  have hpre : (List.replicate itr (kindPattern cnts)).flatten.length = itr * (sumCounts cs).get t := by
    rw [flatten_replicate_length, hP]
  have hposlt : itr * (sumCounts cs).get t + ((compOffsets cs n).get t + a)
      < (nsBlock cs r t).length := by
    rw [hblk]; simp only [List.length_append]; rw [hpre]; omega
  unfold deduceBfun rankAt
  have hget : (bfunNs cs r)[rowBase (sumCounts cs) r t
        + (itr * (sumCounts cs).get t + ((compOffsets cs n).get t + a))]? = some n := by
    rw [bfunNs_split cs r t ht, ← nsPrefix_length cs r t, getElem?_mid _ _ _ _ hposlt, hblk, ← hpre,
      getElem?_mid _ _ _ _ hs, ho]
    exact kindPattern_getElem? cnts n a hnl (by rw [hcn]; exact ha)
  have hgetD : (bfunNs cs r).getD (rowBase (sumCounts cs) r t
        + (itr * (sumCounts cs).get t + ((compOffsets cs n).get t + a))) 0 = n := by
    rw [List.getD_eq_getElem?_getD, hget]; rfl
  rw [hgetD]
  congr 1
  rw [bfunNs_split cs r t ht, ← nsPrefix_length cs r t, take_mid _ _ _ _ (Nat.le_of_lt hposlt),
    List.count_append, nsPrefix_count cs r t n hn, hblk, ← hpre, take_mid _ _ _ _ (Nat.le_of_lt hs),
    List.count_append, flatten_replicate_count, kindPattern_count cnts n hnl, ho,
    kindPattern_count_take cnts n a hnl (by rw [hcn]; omega), hcn]


/-! ### the per-cell table by kind -/

/-- offset of the table of kind `t` -/
def offOf (c : DofCounts) (tp : Topo) : Nat → Nat
  | 0 => 0
  | 1 => offEdge c tp
  | 2 => offFacet c tp
  | _ => offInterior c tp

/-- connectivity of kind `t` (every cell is its own "interior entity") -/
def connOf (tp : Topo) : Nat → List (List Nat)
  | 0 => tp.t
  | 1 => tp.t2e
  | 2 => tp.t2f
  | _ => [List.range tp.nt]

/-- number of entities of kind `t` in the mesh -/
def nentOf (tp : Topo) : Nat → Nat
  | 0 => tp.nverts
  | 1 => tp.nedges
  | 2 => tp.nfacets
  | _ => tp.nt

/-- the element's DOF kinds fit the dimension: edge DOFs only in 3-D, facet DOFs only from 2-D -/
structure WellFormed (c : DofCounts) (tp : Topo) : Prop where
  edge3 : c.edge > 0 → tp.dim = 3
  facet2 : c.facet > 0 → tp.dim ≥ 2

/-- the connectivity tables have one row per entity of the reference cell -/
structure Compatible (tp : Topo) (r : RefCounts) : Prop where
  nodes : tp.t.length = r.nnodes
  edges : tp.t2e.length = r.nedges
  facets : tp.t2f.length = r.nfacets

theorem connOf_length (tp : Topo) (r : RefCounts) (h : Compatible tp r) (t : Nat) :
    (connOf tp t).length = r.get t := by
  match t with
  | 0 => exact h.nodes
  | 1 => exact h.edges
  | 2 => exact h.facets
  | _ + 3 => rfl

theorem gatherRows_zero (off : Nat) (conn : List (List Nat)) : gatherRows 0 off conn = [] := by
  simp [gatherRows]

theorem elementDofs_blocks (c : DofCounts) (tp : Topo) (h : WellFormed c tp) :
    elementDofs c tp
      = (List.range 4).flatMap (fun t => gatherRows (c.get t) (offOf c tp t) (connOf tp t)) := by
  have e4 : List.range 4 = [0, 1, 2, 3] := by decide
  rw [e4]
  simp only [List.flatMap_cons, List.flatMap_nil, List.append_nil, DofCounts.get, offOf, connOf]
  unfold elementDofs
  have h1 : (if useEdges c tp then gatherRows c.edge (offEdge c tp) tp.t2e else [])
      = gatherRows c.edge (offEdge c tp) tp.t2e := by
    rcases Nat.eq_zero_or_pos c.edge with h0 | h0
    · rw [h0, gatherRows_zero]; simp
    · have : useEdges c tp = true := by simp [useEdges, h.edge3 h0, h0]
      rw [if_pos this]
  have h2 : (if (decide (tp.dim ≥ 2) && useFacets c) = true then
        gatherRows c.facet (offFacet c tp) tp.t2f else [])
      = gatherRows c.facet (offFacet c tp) tp.t2f := by
    rcases Nat.eq_zero_or_pos c.facet with h0 | h0
    · rw [h0, gatherRows_zero]; simp
    · have : (decide (tp.dim ≥ 2) && useFacets c) = true := by
        simp [useFacets, h.facet2 h0, h0]
      rw [if_pos this]
  have h3 : interiorDofs c tp = gatherRows c.interior (offInterior c tp) [List.range tp.nt] := by
    simp [interiorDofs, dofTable, gatherRows]
  rw [h1, h2, h3]
  simp [List.append_assoc]

theorem elementDofs_prefix_length (c : DofCounts) (tp : Topo) (r : RefCounts)
    (hc : Compatible tp r) (t : Nat) :
    ((List.range t).flatMap
      (fun s => gatherRows (c.get s) (offOf c tp s) (connOf tp s))).length = rowBase c r t := by
  rw [length_flatMap_range_sum]
  unfold rowBase
  congr 1
  apply List.map_congr_left
  intro s _
  rw [gatherRows_length, connOf_length tp r hc, Nat.mul_comm]

/-- row of the per-cell table for kind `t`, local entity `itr`, DOF `a` of the entity -/
theorem elementDofs_row (c : DofCounts) (tp : Topo) (r : RefCounts) (hw : WellFormed c tp)
    (hc : Compatible tp r) (t itr a : Nat) (ht : t < 4) (hitr : itr < r.get t) (ha : a < c.get t) :
    (elementDofs c tp)[rowBase c r t + (itr * c.get t + a)]?
      = ((connOf tp t)[itr]?).map (fun row => row.map (fun e => dofNumber (c.get t) (offOf c tp t) a e)) := by
  have hitr' : itr < (connOf tp t).length := by rw [connOf_length tp r hc]; exact hitr
  obtain ⟨h1, h2⟩ := gatherRows_getElem (c.get t) (offOf c tp t) (connOf tp t) itr a hitr' ha
  rw [elementDofs_blocks c tp hw, flatMap_range_split 4 t ht, ← elementDofs_prefix_length c tp r hc t,
    getElem?_mid _ _ _ _ h1, List.getElem?_eq_getElem h1, h2, List.getElem?_eq_getElem hitr']
  rfl


/-! ### `_deduce_bfun`, `split_indices` and the per-cell table together -/

theorem wellFormed_comp (cs : List DofCounts) (tp : Topo) (k : Nat) (hk : k < cs.length)
    (hw : WellFormed (sumCounts cs) tp) : WellFormed (cs[k]) tp := by
  have h1 := comp_rows_le cs k 1 hk
  have h2 := comp_rows_le cs k 2 hk
  simp only [DofCounts.get] at h1 h2
  exact ⟨fun h => hw.edge3 (by omega), fun h => hw.facet2 (by omega)⟩

/-- **`split_indices()[k]` read at the component's own number of a DOF is the wrapper's number
    of that DOF**, for each of the four kinds -/
theorem split_entry (cs : List DofCounts) (tp : Topo) (k : Nat) (hk : k < cs.length)
    (hw : WellFormed (sumCounts cs) tp) (t a e : Nat) (ht : t < 4) (ha : a < (cs[k]).get t)
    (he : e < nentOf tp t) :
    (splitIndicesComposite cs tp k)[dofNumber ((cs[k]).get t) (offOf (cs[k]) tp t) a e]?
      = some (dofNumber ((sumCounts cs).get t) (offOf (sumCounts cs) tp t)
          ((compOffsets cs k).get t + a) e) := by
  have hwk := wellFormed_comp cs tp k hk hw
  match t, ht with
  | 0, _ => exact split_nodal_entry cs tp k hk a e ha he
  | 1, _ =>
    have hpos : (cs[k]).edge > 0 := by simp only [DofCounts.get] at ha; omega
    have hu : useEdges (cs[k]) tp = true := by simp [useEdges, hwk.edge3 hpos, hpos]
    exact split_edge_entry cs tp k hk hu a e ha he
  | 2, _ =>
    have hpos : (cs[k]).facet > 0 := by simp only [DofCounts.get] at ha; omega
    have hu : useFacets (cs[k]) = true := by simp [useFacets, hpos]
    exact split_facet_entry cs tp k hk hu a e ha he
  | 3, _ => exact split_interior_entry cs tp k hk a e ha he

/-- **`_deduce_bfun` agrees with the per-cell layout** -/
theorem deduce_layout (cs : List DofCounts) (tp : Topo) (r : RefCounts)
    (hw : WellFormed (sumCounts cs) tp) (hc : Compatible tp r)
    (hconn : ∀ t < 4, ∀ row ∈ connOf tp t, ∀ e ∈ row, e < nentOf tp t)
    (t itr n a : Nat) (ht : t < 4) (hitr : itr < r.get t) (hn : n < cs.length)
    (ha : a < (cs[n]).get t) :
    (elementDofs (sumCounts cs) tp)[rowBase (sumCounts cs) r t
        + (itr * (sumCounts cs).get t + ((compOffsets cs n).get t + a))]?
      = ((elementDofs (cs[n]) tp)[rowBase (cs[n]) r t + (itr * (cs[n]).get t + a)]?).map
          (List.map (fun d => (splitIndicesComposite cs tp n).getD d 0)) := by
  have hle := comp_rows_le cs n t hn
  have hwn := wellFormed_comp cs tp n hn hw
  have hitr' : itr < (connOf tp t).length := by rw [connOf_length tp r hc]; exact hitr
  rw [elementDofs_row (sumCounts cs) tp r hw hc t itr _ ht hitr (by omega),
    elementDofs_row (cs[n]) tp r hwn hc t itr a ht hitr ha, List.getElem?_eq_getElem hitr']
  simp only [Option.map_some, List.map_map]
  congr 1
  apply List.map_congr_left
  intro e he
  have helt : e < nentOf tp t := hconn t ht _ (List.getElem_mem hitr') e he
  simp only [Function.comp, List.getD_eq_getElem?_getD,
    split_entry cs tp n hn hw t a e ht ha helt, Option.getD_some]


/-! ### reindexing sums over local functions by (component, function) -/

section Reindex
variable {M : Type} [AddCommMonoid M]

/-- sum over the positions of a list of component numbers, each with its rank, is the double
    sum over (component, rank) -/
theorem sum_rank_reindex (L : List Nat) (K : Nat) (hL : ∀ x ∈ L, x < K) (G : Nat → Nat → M) :
    ∑ i ∈ Finset.range L.length, G (L.getD i 0) (rankAt L i)
      = ∑ n ∈ Finset.range K, ∑ p ∈ Finset.range (L.count n), G n p := by
  induction L using List.reverseRecOn with
  | nil => simp
  | append_singleton l x ih =>
    have hx : x < K := hL x (by simp)
    have ih' := ih (fun y hy => hL y (by simp [hy]))
    rw [List.length_append, List.length_singleton, Finset.sum_range_succ]
    have h1 : ∀ i ∈ Finset.range l.length,
        G ((l ++ [x]).getD i 0) (rankAt (l ++ [x]) i) = G (l.getD i 0) (rankAt l i) := by
      intro i hi
      have hi' : i < l.length := Finset.mem_range.1 hi
      have e1 : (l ++ [x]).getD i 0 = l.getD i 0 := by
        simp [List.getD_eq_getElem?_getD, List.getElem?_append_left hi']
      have e2 : (l ++ [x]).take i = l.take i := by
        rw [List.take_append_of_le_length (Nat.le_of_lt hi')]
      unfold rankAt
      rw [e1, e2]
    rw [Finset.sum_congr rfl h1, ih']
    have e3 : (l ++ [x]).getD l.length 0 = x := by
      simp [List.getD_eq_getElem?_getD]
    have e4 : rankAt (l ++ [x]) l.length = l.count x := by
      unfold rankAt
      rw [e3]
      simp
    rw [e3, e4]
    have h2 : ∀ n ∈ Finset.range K, ∑ p ∈ Finset.range ((l ++ [x]).count n), G n p
        = ∑ p ∈ Finset.range (l.count n), G n p + (if x = n then G n (l.count n) else 0) := by
      intro n _
      by_cases hxn : x = n
      · subst hxn
        simp [List.count_append, Finset.sum_range_succ]
      · have : ([x] : List Nat).count n = 0 := by
          rw [List.count_eq_zero]; simp; exact fun h => hxn h.symm
        simp [List.count_append, this, hxn]
    rw [Finset.sum_congr rfl h2, Finset.sum_add_distrib, Finset.sum_ite_eq]
    simp [hx]

theorem sum_vec_reindex (dim Nb : Nat) (hd : 0 < dim) (G : Nat → Nat → M) :
    ∑ i ∈ Finset.range (Nb * dim), G (vecDecode dim i).1 (vecDecode dim i).2
      = ∑ n ∈ Finset.range dim, ∑ p ∈ Finset.range Nb, G n p := by
  rw [Finset.sum_comm, ← sum_map_range, range_mul_map, ← List.map_id' (List.flatMap _ _),
    sum_map_flatMap_range]
  · apply Finset.sum_congr rfl
    intro a _
    rw [List.map_id', sum_map_range]
    apply Finset.sum_congr rfl
    intro n hn
    have hn' : n < dim := Finset.mem_range.1 hn
    have e1 : (a * dim + n) / dim = a := by
      rw [Nat.mul_comm, Nat.mul_add_div hd, Nat.div_eq_of_lt hn']; simp
    unfold vecDecode
    rw [e1]
    have e2 : a * dim + n - dim * a = n := by rw [Nat.mul_comm]; omega
    rw [e2]

end Reindex


section Reindex
variable {M : Type} [AddCommMonoid M]

theorem sum_stack_reindex (nbs : List Nat) (G : Nat → Nat → M) :
    ∑ r ∈ Finset.range nbs.sum, G (stackDecode nbs r).1 (stackDecode nbs r).2
      = ∑ n ∈ Finset.range nbs.length, ∑ p ∈ Finset.range (nbs.getD n 0), G n p := by
  induction nbs generalizing G with
  | nil => simp
  | cons nb rest ih =>
    rw [List.sum_cons, Finset.sum_range_add, List.length_cons, Finset.sum_range_succ']
    have h1 : ∀ r ∈ Finset.range nb,
        G (stackDecode (nb :: rest) r).1 (stackDecode (nb :: rest) r).2 = G 0 r := by
      intro r hr
      have : r < nb := Finset.mem_range.1 hr
      simp [stackDecode, this]
    have h2 : ∀ r ∈ Finset.range rest.sum,
        G (stackDecode (nb :: rest) (nb + r)).1 (stackDecode (nb :: rest) (nb + r)).2
          = G ((stackDecode rest r).1 + 1) (stackDecode rest r).2 := by
      intro r _
      have : ¬ (nb + r < nb) := by omega
      simp [stackDecode, this]
    rw [Finset.sum_congr rfl h1, Finset.sum_congr rfl h2, ih (fun n p => G (n + 1) p), add_comm]
    simp

end Reindex

theorem mem_kindPattern {cnts : List Nat} {x : Nat} (h : x ∈ kindPattern cnts) : x < cnts.length := by
  unfold kindPattern at h
  simp only [List.mem_flatMap, List.mem_range, List.mem_replicate] at h
  obtain ⟨j, hj, _, rfl⟩ := h
  exact hj

theorem mem_bfunNs {cs : List DofCounts} {r : RefCounts} {x : Nat} (h : x ∈ bfunNs cs r) :
    x < cs.length := by
  unfold bfunNs at h
  simp only [List.mem_flatMap, List.mem_range] at h
  obtain ⟨t, _, hx⟩ := h
  have hx' : x ∈ nsBlock cs r t := hx
  rw [nsBlock_eq] at hx'
  simp only [List.mem_flatten, List.mem_replicate] at hx'
  obtain ⟨l, ⟨_, rfl⟩, hxl⟩ := hx'
  simpa using mem_kindPattern hxl

theorem bfunNs_length (cs : List DofCounts) (r : RefCounts) :
    (bfunNs cs r).length = nbfun (sumCounts cs) r := by
  exact nsPrefix_length cs r 4

theorem bfunNs_count (cs : List DofCounts) (r : RefCounts) (n : Nat) (hn : n < cs.length) :
    (bfunNs cs r).count n = nbfun (cs[n]) r := by
  exact nsPrefix_count cs r 4 n hn


/-! ### COO bookkeeping -/

section Coo
variable {K : Type} [CommRing K]

theorem mem_bilinearTriplets {Nu Nv nt nq : Nat} {f : Sample K → Sample K → Sample K → K}
    {ub vb : BasisData K} {w : Nat → Nat → Sample K} {dx : Nat → Nat → K}
    {udofs vdofs : Nat → Nat → Nat} {t : Nat × Nat × K}
    (h : t ∈ bilinearTriplets Nu Nv nt nq f ub vb w dx udofs vdofs) :
    ∃ j < Nu, ∃ i < Nv, ∃ k < nt, t = (vdofs i k, udofs j k, kernelBil nq f ub vb w dx j i k) := by
  unfold bilinearTriplets at h
  simp only [List.mem_flatMap, List.mem_map, List.mem_range] at h
  obtain ⟨j, hj, i, hi, k, hk, rfl⟩ := h
  exact ⟨j, hj, i, hi, k, hk, rfl⟩

theorem actionBil_congr (T : List (Nat × Nat × K)) (u u' v v' : Nat → K)
    (h : ∀ t ∈ T, u t.2.1 = u' t.2.1 ∧ v t.1 = v' t.1) : actionBil T u v = actionBil T u' v' := by
  unfold actionBil
  congr 1
  apply List.map_congr_left
  intro t ht
  rw [(h t ht).1, (h t ht).2]

theorem actionBil_zero_left (T : List (Nat × Nat × K)) (u v : Nat → K)
    (h : ∀ t ∈ T, u t.2.1 = 0) : actionBil T u v = 0 := by
  unfold actionBil
  apply List.sum_eq_zero
  intro x hx
  simp only [List.mem_map] at hx
  obtain ⟨t, ht, rfl⟩ := hx
  rw [h t ht, mul_zero]

theorem actionBil_zero_right (T : List (Nat × Nat × K)) (u v : Nat → K)
    (h : ∀ t ∈ T, v t.1 = 0) : actionBil T u v = 0 := by
  unfold actionBil
  apply List.sum_eq_zero
  intro x hx
  simp only [List.mem_map] at hx
  obtain ⟨t, ht, rfl⟩ := hx
  rw [h t ht, zero_mul, zero_mul]

/-- a dense entry is the action on two unit vectors -/
theorem actionBil_unit (T : List (Nat × Nat × K)) (r c : Nat) :
    actionBil T (fun x => if x = c then 1 else 0) (fun x => if x = r then 1 else 0)
      = denseEntry T r c := by
  induction T with
  | nil => simp [actionBil, denseEntry]
  | cons t T ih =>
    rw [actionBil_cons, denseEntry_cons, ih]
    congr 1
    by_cases h1 : t.1 = r <;> by_cases h2 : t.2.1 = c <;> simp [h1, h2]

theorem denseEntry_append (T1 T2 : List (Nat × Nat × K)) (r c : Nat) :
    denseEntry (T1 ++ T2) r c = denseEntry T1 r c + denseEntry T2 r c := by
  induction T1 with
  | nil => simp [denseEntry_nil]
  | cons t T ih => rw [List.cons_append, denseEntry_cons, denseEntry_cons, ih, add_assoc]

theorem denseEntry_flatten (Ts : List (List (Nat × Nat × K))) (r c : Nat) :
    denseEntry Ts.flatten r c = (Ts.map (fun T => denseEntry T r c)).sum := by
  induction Ts with
  | nil => simp [denseEntry_nil]
  | cons T Ts ih => rw [List.flatten_cons, denseEntry_append, ih]; simp

theorem cooDot_cons (t : Nat × Nat × K) (T : List (Nat × Nat × K)) (x : Nat → K) (r : Nat) :
    cooDot (t :: T) x r = (if t.1 = r then t.2.2 * x t.2.1 else 0) + cooDot T x r := by
  unfold cooDot
  by_cases h : t.1 = r
  · simp [h]
  · have h' : (t.1 == r) = false := by simpa using h
    simp [h, h']

theorem cooDot_append (T1 T2 : List (Nat × Nat × K)) (x : Nat → K) (r : Nat) :
    cooDot (T1 ++ T2) x r = cooDot T1 x r + cooDot T2 x r := by
  induction T1 with
  | nil => simp [cooDot]
  | cons t T ih => rw [List.cons_append, cooDot_cons, cooDot_cons, ih, add_assoc]

/-- `dot` is the dense matrix-vector product -/
theorem cooDot_eq_dense (T : List (Nat × Nat × K)) (Nc : Nat) (hT : ∀ t ∈ T, t.2.1 < Nc)
    (x : Nat → K) (r : Nat) :
    cooDot T x r = ∑ c ∈ Finset.range Nc, denseEntry T r c * x c := by
  induction T with
  | nil => simp [cooDot, denseEntry_nil]
  | cons t T ih =>
    have ht := hT t (by simp)
    rw [cooDot_cons, ih (fun t' h' => hT t' (by simp [h']))]
    simp only [denseEntry_cons, add_mul, Finset.sum_add_distrib]
    congr 1
    by_cases h : t.1 = r
    · simp only [h, true_and, if_true]
      rw [Finset.sum_eq_single t.2.1]
      · simp
      · intro c _ hc; simp [Ne.symm hc]
      · intro hn; exact absurd (Finset.mem_range.2 ht) hn
    · simp [h]

/-- a dense entry of the assembled matrix as a sum over local index pairs and cells -/
theorem denseEntry_eq_sum_ite (T : List (Nat × Nat × K)) (r c : Nat) :
    denseEntry T r c = (T.map (fun t => if t.1 = r ∧ t.2.1 = c then t.2.2 else 0)).sum := by
  induction T with
  | nil => simp [denseEntry_nil]
  | cons t T ih => rw [denseEntry_cons, ih]; simp

end Coo


/-! ### dense entries cell by cell -/

section More
variable {K : Type} [CommRing K]

theorem range_mul_flatMap {β : Type} (m d : Nat) (F : Nat → List β) :
    (List.range (m * d)).flatMap F
      = (List.range m).flatMap (fun a => (List.range d).flatMap (fun n => F (a * d + n))) := by
  induction m with
  | zero => simp
  | succ m ih =>
    rw [Nat.succ_mul, List.range_add, List.flatMap_append, ih, List.range_succ, List.flatMap_append]
    simp [List.flatMap_map]

theorem map_getD_range {β γ : Type} (l : List β) (d : β) (g : β → γ) :
    (List.range l.length).map (fun k => g (l.getD k d)) = l.map g := by
  apply List.ext_getElem?
  intro i
  by_cases hi : i < l.length
  · simp [hi, List.getD_eq_getElem?_getD]
  · simp [hi]

/-- contribution of cell `k` to the dense entry `(r, c)` -/
def cellEntry (Nu Nv nq : Nat) (f : Sample K → Sample K → Sample K → K) (ub vb : BasisData K)
    (w : Nat → Nat → Sample K) (dx : Nat → Nat → K) (udofs vdofs : Nat → Nat → Nat) (r c k : Nat) : K :=
  ∑ j ∈ Finset.range Nu, ∑ i ∈ Finset.range Nv,
    if vdofs i k = r ∧ udofs j k = c then kernelBil nq f ub vb w dx j i k else 0

theorem denseEntry_bilinearTriplets (Nu Nv nt nq : Nat) (f : Sample K → Sample K → Sample K → K)
    (ub vb : BasisData K) (w : Nat → Nat → Sample K) (dx : Nat → Nat → K)
    (udofs vdofs : Nat → Nat → Nat) (r c : Nat) :
    denseEntry (bilinearTriplets Nu Nv nt nq f ub vb w dx udofs vdofs) r c
      = ∑ k ∈ Finset.range nt, cellEntry Nu Nv nq f ub vb w dx udofs vdofs r c k := by
  rw [denseEntry_eq_sum_ite]
  unfold bilinearTriplets cellEntry
  rw [sum_map_flatMap_range]
  rw [Finset.sum_comm]
  apply Finset.sum_congr rfl
  intro j _
  rw [sum_map_flatMap_range, Finset.sum_comm]
  apply Finset.sum_congr rfl
  intro i _
  rw [List.map_map, sum_map_range]
  rfl

theorem denseEntry_bilinearTripletsOn (cells : List Nat) (Nu Nv nq : Nat)
    (f : Sample K → Sample K → Sample K → K)
    (ub vb : BasisData K) (w : Nat → Nat → Sample K) (dx : Nat → Nat → K)
    (udofs vdofs : Nat → Nat → Nat) (r c : Nat) :
    denseEntry (bilinearTripletsOn cells Nu Nv nq f ub vb w dx udofs vdofs) r c
      = (cells.map (cellEntry Nu Nv nq f ub vb w dx udofs vdofs r c)).sum := by
  unfold bilinearTripletsOn
  rw [denseEntry_bilinearTriplets, ← sum_map_range,
    ← map_getD_range cells 0 (cellEntry Nu Nv nq f ub vb w dx udofs vdofs r c)]
  rfl

theorem sum_map_flatten {β : Type} (Ls : List (List β)) (g : β → K) :
    (Ls.flatten.map g).sum = (Ls.map (fun l => (l.map g).sum)).sum := by
  induction Ls with
  | nil => simp
  | cons l Ls ih =>
    rw [List.flatten_cons, List.map_append, List.sum_append, ih, List.map_cons, List.sum_cons]

end More


/-! ### decomposition of DOF numbers; uniqueness of the component -/

theorem offOf_succ (c : DofCounts) (tp : Topo) (hw : WellFormed c tp) (t : Nat) (ht : t < 3) :
    offOf c tp (t + 1) = offOf c tp t + c.get t * nentOf tp t := by
  match t, ht with
  | 0, _ => simp [offOf, DofCounts.get, nentOf, offEdge]
  | 1, _ =>
    simp only [offOf, DofCounts.get, nentOf, offFacet]
    rcases Nat.eq_zero_or_pos c.edge with h0 | h0
    · simp [h0]
    · have : useEdges c tp = true := by simp [useEdges, hw.edge3 h0, h0]
      simp [this]
  | 2, _ =>
    simp only [offOf, DofCounts.get, nentOf, offInterior]
    rcases Nat.eq_zero_or_pos c.facet with h0 | h0
    · simp [h0]
    · have : useFacets c = true := by simp [useFacets, h0]
      simp [this]

theorem dofsTotal_eq (c : DofCounts) (tp : Topo) :
    dofsTotal c tp = offOf c tp 3 + c.get 3 * nentOf tp 3 := rfl

theorem offOf_block_le (c : DofCounts) (tp : Topo) (hw : WellFormed c tp) (t t' : Nat)
    (h : t < t') (ht' : t' < 4) : offOf c tp t + c.get t * nentOf tp t ≤ offOf c tp t' := by
  have s0 : offOf c tp 1 = offOf c tp 0 + c.get 0 * nentOf tp 0 := offOf_succ c tp hw 0 (by omega)
  have s1 : offOf c tp 2 = offOf c tp 1 + c.get 1 * nentOf tp 1 := offOf_succ c tp hw 1 (by omega)
  have s2 : offOf c tp 3 = offOf c tp 2 + c.get 2 * nentOf tp 2 := offOf_succ c tp hw 2 (by omega)
  interval_cases t' <;> interval_cases t <;> omega

/-- every DOF number of an element is (kind, DOF of the entity, entity) -/
theorem dof_decompose (c : DofCounts) (tp : Topo) (hw : WellFormed c tp) (d : Nat)
    (hd : d < dofsTotal c tp) :
    ∃ t < 4, ∃ a < c.get t, ∃ e < nentOf tp t, d = dofNumber (c.get t) (offOf c tp t) a e := by
  have s0 : offOf c tp 1 = offOf c tp 0 + c.get 0 * nentOf tp 0 := offOf_succ c tp hw 0 (by omega)
  have s1 : offOf c tp 2 = offOf c tp 1 + c.get 1 * nentOf tp 1 := offOf_succ c tp hw 1 (by omega)
  have s2 : offOf c tp 3 = offOf c tp 2 + c.get 2 * nentOf tp 2 := offOf_succ c tp hw 2 (by omega)
  have z : offOf c tp 0 = 0 := rfl
  rw [dofsTotal_eq] at hd
  have key : ∀ t < 4, offOf c tp t ≤ d → d < offOf c tp t + c.get t * nentOf tp t →
      ∃ t < 4, ∃ a < c.get t, ∃ e < nentOf tp t, d = dofNumber (c.get t) (offOf c tp t) a e := by
    intro t ht h1 h2
    obtain ⟨a, e, ha, he, hx⟩ := dofNumber_surj (c.get t) (nentOf tp t) (offOf c tp t) d h1 h2
    exact ⟨t, ht, a, ha, e, he, hx.symm⟩
  by_cases c1 : d < offOf c tp 1
  · exact key 0 (by omega) (by omega) (by omega)
  by_cases c2 : d < offOf c tp 2
  · exact key 1 (by omega) (by omega) (by omega)
  by_cases c3 : d < offOf c tp 3
  · exact key 2 (by omega) (by omega) (by omega)
  · exact key 3 (by omega) (by omega) (by omega)

theorem take_sum_mono (l : List Nat) (k k' : Nat) (h : k ≤ k') : (l.take k).sum ≤ (l.take k').sum := by
  induction l generalizing k k' with
  | nil => simp
  | cons x xs ih =>
    cases k with
    | zero => simp
    | succ k =>
      cases k' with
      | zero => omega
      | succ k' =>
        simp only [List.take_succ_cons, List.sum_cons]
        have := ih k k' (by omega)
        omega

theorem prefix_unique (l : List Nat) (k k' a a' : Nat) (hk : k < l.length) (hk' : k' < l.length)
    (ha : a < l[k]) (ha' : a' < l[k'])
    (h : (l.take k).sum + a = (l.take k').sum + a') : k = k' ∧ a = a' := by
  have step : ∀ k k' a a', ∀ (hk : k < l.length) (hk' : k' < l.length), a < l[k] → a' < l[k'] →
      (l.take k).sum + a = (l.take k').sum + a' → ¬ k < k' := by
    intro k k' a a' hk hk' ha ha' h hlt
    have h1 := take_sum_mono l (k + 1) k' (by omega)
    rw [List.take_add_one] at h1
    simp [hk] at h1
    omega
  have n1 := step k k' a a' hk hk' ha ha' h
  have n2 := step k' k a' a hk' hk ha' ha h.symm
  have : k = k' := by omega
  subst this
  exact ⟨rfl, by omega⟩


/-! ### misc -/

theorem zip3_of_maps {α β γ : Type} (T : List (α × β × γ)) :
    List.zip (T.map (·.1)) (List.zip (T.map (·.2.1)) (T.map (·.2.2))) = T := by
  induction T with
  | nil => rfl
  | cons t T ih => simp [ih]


section Dot
variable {K : Type} [CommRing K]

theorem cooDot_eq_sum_ite (T : List (Nat × Nat × K)) (x : Nat → K) (r : Nat) :
    cooDot T x r = (T.map (fun t => if t.1 = r then t.2.2 * x t.2.1 else 0)).sum := by
  induction T with
  | nil => simp [cooDot]
  | cons t T ih => rw [cooDot_cons, ih]; simp


end Dot

theorem bmat_foldl (l : List Nat) (st : Nat × List Nat) :
    l.foldl (bmatStep false) st
      = (st.1 + l.sum, st.2 ++ (List.range l.length).map (fun j => st.1 + (l.take (j + 1)).sum)) := by
  induction l generalizing st with
  | nil => simp
  | cons x xs ih =>
    rw [List.foldl_cons, ih]
    simp only [bmatStep, Bool.false_eq_true, if_false, List.sum_cons, List.length_cons]
    rw [List.range_succ_eq_map]
    simp only [List.map_cons, List.map_map, List.take_succ_cons, List.sum_cons, List.take_zero,
      List.sum_nil, List.append_assoc, List.singleton_append]
    refine Prod.ext (by simp; omega) ?_
    simp only
    congr 2
    · omega
    · apply List.map_congr_left
      intro j _
      simp only [Function.comp, Nat.succ_eq_add_one]
      omega


theorem dofsTotal_wellFormed (c : DofCounts) (tp : Topo) (hw : WellFormed c tp) :
    dofsTotal c tp = c.nodal * tp.nverts + c.edge * tp.nedges + c.facet * tp.nfacets
      + c.interior * tp.nt := by
  have s0 : offOf c tp 1 = offOf c tp 0 + c.get 0 * nentOf tp 0 := offOf_succ c tp hw 0 (by omega)
  have s1 : offOf c tp 2 = offOf c tp 1 + c.get 1 * nentOf tp 1 := offOf_succ c tp hw 1 (by omega)
  have s2 : offOf c tp 3 = offOf c tp 2 + c.get 2 * nentOf tp 2 := offOf_succ c tp hw 2 (by omega)
  have z : offOf c tp 0 = 0 := rfl
  rw [dofsTotal_eq, s2, s1, s0, z]
  simp [DofCounts.get, nentOf]

theorem sum_weighted (cs : List DofCounts) (a b c d : Nat) :
    (cs.map (fun x => x.nodal * a + x.edge * b + x.facet * c + x.interior * d)).sum
      = (sumCounts cs).nodal * a + (sumCounts cs).edge * b + (sumCounts cs).facet * c
        + (sumCounts cs).interior * d := by
  induction cs with
  | nil => simp [sumCounts]
  | cons x xs ih =>
    simp only [List.map_cons, List.sum_cons, ih, sumCounts]
    ring


end Skv.Blocks
