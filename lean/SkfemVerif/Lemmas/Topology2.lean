import SkfemVerif.Lemmas.Topology
/-
Helper lemmas for the facet-to-cell table (`firstCell`, `lastCell`, `buildInverse`), core Lean
only: first / last occurrence of a value in a list, the decomposition of a flat position of the
C-order flattened slot table into (slot, cell), and the "at most two occurrences" analysis.
-/
namespace Skv

/-! ### first and last occurrence -/

/-- split of a list at a position -/
theorem split_at_pos (e : List Nat) (c : Nat) (hc : c < e.length) :
    e = e.take c ++ e[c] :: e.drop (c + 1) := by
  rw [List.getElem_cons_drop hc, List.take_append_drop]

/-- the position of the last occurrence, as computed by `lastCell`, is in range and holds `f` -/
theorem lastPos_spec (e : List Nat) (f : Nat) (hf : f ∈ e) :
    ∃ h : e.length - 1 - e.reverse.idxOf f < e.length,
      e[e.length - 1 - e.reverse.idxOf f] = f := by
  have hj : e.reverse.idxOf f < e.reverse.length :=
    List.idxOf_lt_length_of_mem (List.mem_reverse.mpr hf)
  have hget : e.reverse[e.reverse.idxOf f] = f := List.getElem_idxOf hj
  rw [List.getElem_reverse] at hget
  have hpos : e.length - 1 - e.reverse.idxOf f < e.length := by
    rw [List.length_reverse] at hj; omega
  exact ⟨hpos, hget⟩

/-- a position holding `f` with no `f` before it is the first occurrence -/
theorem idxOf_eq_of_not_mem_take (e : List Nat) (f c : Nat) (hc : c < e.length)
    (h : e[c] = f) (hn : f ∉ e.take c) : e.idxOf f = c := by
  have hs := split_at_pos e c hc
  rw [h] at hs
  rw [hs, List.idxOf_append, if_neg hn, List.idxOf_cons_self, List.length_take]
  omega

/-- a position holding `f` with no `f` after it is the last occurrence -/
theorem lastPos_eq_of_not_mem_drop (e : List Nat) (f c : Nat) (hc : c < e.length)
    (h : e[c] = f) (hn : f ∉ e.drop (c + 1)) :
    e.length - 1 - e.reverse.idxOf f = c := by
  have hs := split_at_pos e c hc
  rw [h] at hs
  have hr : e.reverse = (e.drop (c + 1)).reverse ++ f :: (e.take c).reverse := by
    conv => lhs; rw [hs]
    simp [List.reverse_append, List.reverse_cons, List.append_assoc]
  have hn' : f ∉ (e.drop (c + 1)).reverse := by
    rw [List.mem_reverse]; exact hn
  rw [hr, List.idxOf_append, if_neg hn', List.idxOf_cons_self, List.length_reverse,
    List.length_drop]
  omega

/-- **at most two occurrences**: every position holding `f` is the first or the last one -/
theorem pos_first_or_last (e : List Nat) (f c : Nat) (hc : c < e.length) (h : e[c] = f)
    (htwo : e.count f ≤ 2) :
    c = e.idxOf f ∨ c = e.length - 1 - e.reverse.idxOf f := by
  have hs := split_at_pos e c hc
  rw [h] at hs
  have hcount : e.count f = (e.take c).count f + ((e.drop (c + 1)).count f + 1) := by
    conv => lhs; rw [hs]
    rw [List.count_append, List.count_cons_self]
  rcases Nat.eq_zero_or_pos ((e.take c).count f) with h0 | h0
  · left
    exact (idxOf_eq_of_not_mem_take e f c hc h (List.count_eq_zero.mp h0)).symm
  · right
    have h1 : (e.drop (c + 1)).count f = 0 := by omega
    exact (lastPos_eq_of_not_mem_drop e f c hc h (List.count_eq_zero.mp h1)).symm

/-! ### flat position ↔ (slot, cell) -/

/-- a position of the C-order flattened slot table determines (slot, cell) -/
theorem flat_pos_slot_cell (nt : Nat) (hnt : 0 < nt) (mapping : List (List Nat))
    (hrows : ∀ r ∈ mapping, r.length = nt) (c : Nat) (hc : c < mapping.flatten.length) :
    ∃ hi : c / nt < mapping.length, ∃ hk : c % nt < (mapping[c / nt]).length,
      (mapping[c / nt])[c % nt] = mapping.flatten[c] := by
  have hlen := length_flatten_of_uniform mapping nt hrows
  have hc' : c < mapping.length * nt := by rw [← hlen]; exact hc
  have hi : c / nt < mapping.length := by
    apply Nat.div_lt_of_lt_mul; rw [Nat.mul_comm]; exact hc'
  have hk : c % nt < nt := Nat.mod_lt _ hnt
  obtain ⟨h1, h2⟩ := flatten_getElem_of_uniform mapping nt hrows (c / nt) (c % nt) hi hk
  have hcd : c / nt * nt + c % nt = c := by rw [Nat.mul_comm]; exact Nat.div_add_mod c nt
  refine ⟨hi, by rw [hrows _ (List.getElem_mem hi)]; exact hk, ?_⟩
  have : mapping.flatten[c / nt * nt + c % nt] = mapping.flatten[c] := by
    simp only [hcd]
  rw [h2] at this
  exact this

/-- `(i * nt + k) % nt = k` for `k < nt` -/
theorem mul_add_mod_of_lt (i nt k : Nat) (hk : k < nt) : (i * nt + k) % nt = k := by
  rw [Nat.mul_comm, Nat.mul_add_mod, Nat.mod_eq_of_lt hk]

/-- the value of row 1 of `build_inverse` at a stored facet -/
theorem buildInverse_snd_getD (nt : Nat) (mapping : List (List Nat)) (f : Nat)
    (hf : f < listMax mapping.flatten + 1) :
    (buildInverse nt mapping).2.getD f 0 =
      (if firstCell nt mapping.flatten f = lastCell nt mapping.flatten f then (-1 : Int)
        else (lastCell nt mapping.flatten f : Int)) := by
  simp [buildInverse, List.getD_eq_getElem?_getD, hf]

end Skv
