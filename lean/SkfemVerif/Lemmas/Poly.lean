import SkfemVerif.Model.Poly
import Mathlib.Algebra.MvPolynomial.PDeriv
import Mathlib.Algebra.MvPolynomial.Eval
import Mathlib.Algebra.Order.Field.Rat
import Mathlib.Algebra.Order.BigOperators.Group.Finset
import Mathlib.Algebra.Order.BigOperators.Ring.Finset
import Mathlib.Algebra.Polynomial.Derivative
import Mathlib.Data.Nat.Factorial.Basic
import Mathlib.Tactic.Ring
import Mathlib.Tactic.Linarith
/-
Helper lemmas about the E-poly model (Model/Poly.lean): the interpretation `toMv` as a Mathlib
`MvPolynomial`, `monoEval` as a finite product, `eval` as the coefficient-weighted sum over the
distinct exponent vectors, soundness of `close`, unfolding of the reflection checks `checkGrad`,
`checkDiv`, and the power-basis coefficient loop as a descending factorial.
-/
namespace Skv.C09
open Skv

/-- interpretation of a term-list polynomial as a Mathlib multivariate polynomial in `d` variables -/
noncomputable def toMv (d : Nat) (p : Poly) : MvPolynomial (Fin d) ℚ :=
  (p.map (fun t => MvPolynomial.monomial
    (Finsupp.equivFunOnFinite.symm (fun i : Fin d => t.2.getD i.val 0)) t.1)).sum

/-- all exponent vectors have length `d` -/
def WF (d : Nat) (p : Poly) : Prop := ∀ t ∈ p, t.2.length = d

/-! ### `monoEval` -/

theorem monoEval_nil_left (e : Mono) : Poly.monoEval [] e = 1 := by
  cases e <;> rfl

theorem monoEval_nil_right (x : List ℚ) : Poly.monoEval x [] = 1 := by
  cases x <;> rfl

theorem monoEval_cons (a : ℚ) (xs : List ℚ) (k : Nat) (es : Mono) :
    Poly.monoEval (a :: xs) (k :: es) = a ^ k * Poly.monoEval xs es := rfl

/-- `monoEval` on a point given as a function on `Fin d` is the finite product of powers -/
theorem monoEval_finRange (d : Nat) (x : Fin d → ℚ) (e : Mono) :
    Poly.monoEval ((List.finRange d).map x) e = ∏ i : Fin d, x i ^ e.getD i.val 0 := by
  induction d generalizing e with
  | zero => simp [monoEval_nil_left]
  | succ n ih =>
    cases e with
    | nil => simp [monoEval_nil_right]
    | cons k es =>
      rw [List.finRange_succ, List.map_cons, List.map_map, monoEval_cons, ih, Fin.prod_univ_succ]
      simp

/-- on the unit box every monomial takes values in `[0, 1]` (whatever the two lengths are) -/
theorem monoEval_bounds (x : List ℚ) (hx : ∀ a ∈ x, 0 ≤ a ∧ a ≤ 1) (e : Mono) :
    0 ≤ Poly.monoEval x e ∧ Poly.monoEval x e ≤ 1 := by
  induction x generalizing e with
  | nil => simp [monoEval_nil_left]
  | cons a xs ih =>
    cases e with
    | nil => simp [monoEval_nil_right]
    | cons k es =>
      rw [monoEval_cons]
      have ha := hx a (by simp)
      have hr := ih (fun b hb => hx b (by simp [hb])) es
      have h1 : 0 ≤ a ^ k := pow_nonneg ha.1 k
      have h2 : a ^ k ≤ 1 := pow_le_one₀ ha.1 ha.2
      exact ⟨mul_nonneg h1 hr.1, mul_le_one₀ h2 hr.1 hr.2⟩

theorem monoEval_replicate_zero (x : List ℚ) (n : Nat) :
    Poly.monoEval x (List.replicate n 0) = 1 := by
  induction x generalizing n with
  | nil => exact monoEval_nil_left _
  | cons a xs ih =>
    cases n with
    | zero => exact monoEval_nil_right _
    | succ n => rw [List.replicate_succ, monoEval_cons, ih]; simp

/-! ### `eval`, `coeff` on `nil` / `cons` / `append` -/

theorem eval_nil (x : List ℚ) : Poly.eval [] x = 0 := rfl

theorem eval_cons (t : ℚ × Mono) (p : Poly) (x : List ℚ) :
    Poly.eval (t :: p) x = t.1 * Poly.monoEval x t.2 + Poly.eval p x := by
  simp [Poly.eval]

theorem eval_append (p q : Poly) (x : List ℚ) :
    Poly.eval (p ++ q) x = Poly.eval p x + Poly.eval q x := by
  simp [Poly.eval]

theorem coeff_nil (e : Mono) : Poly.coeff [] e = 0 := rfl

theorem coeff_cons (t : ℚ × Mono) (p : Poly) (e : Mono) :
    Poly.coeff (t :: p) e = (if t.2 = e then t.1 else 0) + Poly.coeff p e := by
  unfold Poly.coeff
  by_cases h : t.2 = e
  · simp [h]
  · simp [h]

theorem eval_const_one (dim : Nat) (x : List ℚ) : Poly.eval (Poly.const dim 1) x = 1 := by
  simp [Poly.const, Poly.eval, monoEval_replicate_zero]

/-- `eval` is the coefficient-weighted sum over any finite set of exponent vectors that contains
    the ones occurring in `p` (repeated exponent vectors are merged by `coeff`) -/
theorem eval_eq_sum (p : Poly) (x : List ℚ) (S : Finset Mono) (hS : ∀ t ∈ p, t.2 ∈ S) :
    p.eval x = ∑ e ∈ S, p.coeff e * Poly.monoEval x e := by
  induction p with
  | nil => simp [eval_nil, coeff_nil]
  | cons t p ih =>
    rw [eval_cons, ih (fun t ht => hS t (List.mem_cons_of_mem _ ht))]
    simp only [coeff_cons, add_mul, Finset.sum_add_distrib, ite_mul, zero_mul]
    rw [Finset.sum_ite_eq]
    simp [hS t (by simp)]

theorem mem_exps_of_mem {p : Poly} {t : ℚ × Mono} (h : t ∈ p) : t.2 ∈ p.exps :=
  List.mem_map_of_mem h

theorem exps_length (p : Poly) : p.exps.length = p.length := by
  simp [Poly.exps]

/-! ### `close` -/

theorem ratAbs_eq_abs (q : ℚ) : Poly.ratAbs q = |q| := by
  unfold Poly.ratAbs
  split
  · rename_i h; rw [abs_of_neg h]
  · rename_i h; rw [abs_of_nonneg (not_lt.mp h)]

theorem close_iff (p q : Poly) (tol : ℚ) :
    Poly.close p q tol = true ↔ ∀ e ∈ p.exps ++ q.exps, |p.coeff e - q.coeff e| ≤ tol := by
  unfold Poly.close
  simp only [List.all_eq_true, decide_eq_true_eq, ratAbs_eq_abs]

/-- meaning of `close` on the unit box -/
theorem close_sound (p q : Poly) (tol : ℚ) (h : Poly.close p q tol = true)
    (x : List ℚ) (hx : ∀ a ∈ x, 0 ≤ a ∧ a ≤ 1) :
    |p.eval x - q.eval x| ≤ tol * ((p.length + q.length : Nat) : ℚ) := by
  rw [close_iff] at h
  set S : Finset Mono := (p.exps ++ q.exps).toFinset with hSdef
  have hp : ∀ t ∈ p, t.2 ∈ S := fun t ht =>
    List.mem_toFinset.mpr (List.mem_append_left _ (mem_exps_of_mem ht))
  have hq : ∀ t ∈ q, t.2 ∈ S := fun t ht =>
    List.mem_toFinset.mpr (List.mem_append_right _ (mem_exps_of_mem ht))
  have hcard : S.card ≤ p.length + q.length := by
    calc S.card ≤ (p.exps ++ q.exps).length := List.toFinset_card_le _
      _ = p.length + q.length := by rw [List.length_append, exps_length, exps_length]
  have hterm : ∀ e ∈ S, |(p.coeff e - q.coeff e) * Poly.monoEval x e| ≤ tol := by
    intro e he
    have h1 := h e (List.mem_toFinset.mp he)
    have hb := monoEval_bounds x hx e
    rw [abs_mul, abs_of_nonneg hb.1]
    calc |p.coeff e - q.coeff e| * Poly.monoEval x e
        ≤ |p.coeff e - q.coeff e| * 1 :=
          mul_le_mul_of_nonneg_left hb.2 (abs_nonneg _)
      _ ≤ tol := by rw [mul_one]; exact h1
  rw [eval_eq_sum p x S hp, eval_eq_sum q x S hq, ← Finset.sum_sub_distrib]
  simp only [← sub_mul]
  rcases S.eq_empty_or_nonempty with hS | ⟨e, he⟩
  · have hl : p.exps ++ q.exps = [] := (List.toFinset_eq_empty_iff _).mp hS
    have hlen : p.length + q.length = 0 := by
      have := congrArg List.length hl
      simpa [exps_length] using this
    rw [hS, hlen]; simp
  · have htol : 0 ≤ tol := le_trans (abs_nonneg _) (hterm e he)
    calc |∑ e ∈ S, (p.coeff e - q.coeff e) * Poly.monoEval x e|
        ≤ ∑ e ∈ S, |(p.coeff e - q.coeff e) * Poly.monoEval x e| := Finset.abs_sum_le_sum_abs _ _
      _ ≤ ∑ _e ∈ S, tol := Finset.sum_le_sum hterm
      _ = tol * (S.card : ℚ) := by rw [Finset.sum_const, nsmul_eq_mul, mul_comm]
      _ ≤ tol * ((p.length + q.length : Nat) : ℚ) :=
          mul_le_mul_of_nonneg_left (by exact_mod_cast hcard) htol

/-! ### `toMv` -/

theorem toMv_nil (d : Nat) : toMv d [] = 0 := by simp [toMv]

theorem toMv_cons (d : Nat) (t : ℚ × Mono) (p : Poly) :
    toMv d (t :: p) = MvPolynomial.monomial
      (Finsupp.equivFunOnFinite.symm (fun i : Fin d => t.2.getD i.val 0)) t.1 + toMv d p := by
  simp [toMv]

theorem toMv_append (d : Nat) (p q : Poly) : toMv d (p ++ q) = toMv d p + toMv d q := by
  simp [toMv]

theorem eval_monomial_toMv (d : Nat) (t : ℚ × Mono) (x : Fin d → ℚ) :
    MvPolynomial.eval x (MvPolynomial.monomial
      (Finsupp.equivFunOnFinite.symm (fun i : Fin d => t.2.getD i.val 0)) t.1)
      = t.1 * Poly.monoEval ((List.finRange d).map x) t.2 := by
  rw [MvPolynomial.eval_monomial, monoEval_finRange, Finsupp.prod_fintype]
  · simp
  · intro i; simp

/-! ### `pderiv` -/

theorem pderiv_nil (i : Nat) : Poly.pderiv [] i = [] := rfl

theorem pderiv_cons (t : ℚ × Mono) (p : Poly) (i : Nat) :
    Poly.pderiv (t :: p) i =
      (if t.2.getD i 0 = 0 then []
        else [(t.1 * ((t.2.getD i 0 : Nat) : ℚ), t.2.set i (t.2.getD i 0 - 1))]) ++ Poly.pderiv p i := by
  unfold Poly.pderiv
  rw [List.filterMap_cons]
  by_cases h : t.2.getD i 0 = 0
  · simp [-List.getD_eq_getElem?_getD, h]
  · simp [-List.getD_eq_getElem?_getD, h]

theorem exponent_set (d : Nat) (e : Mono) (i : Fin d) (hk : e.getD i.val 0 ≠ 0) :
    (Finsupp.equivFunOnFinite.symm (fun j : Fin d => (e.set i.val (e.getD i.val 0 - 1)).getD j.val 0))
      = (Finsupp.equivFunOnFinite.symm (fun j : Fin d => e.getD j.val 0)) - Finsupp.single i 1 := by
  ext j
  simp only [Finsupp.equivFunOnFinite_symm_apply_apply, Finsupp.coe_tsub, Pi.sub_apply,
    Finsupp.single_apply]
  have hi : i.val < e.length := by
    by_contra hc
    exact hk (by simp [List.getD_eq_getElem?_getD, List.getElem?_eq_none (not_lt.mp hc)])
  by_cases hji : i = j
  · subst hji
    simp [List.getD_eq_getElem?_getD, hi]
  · have : i.val ≠ j.val := fun h => hji (Fin.ext h)
    simp [List.getD_eq_getElem?_getD, this, hji]

theorem pderiv_monomial_toMv (d : Nat) (t : ℚ × Mono) (i : Fin d) :
    toMv d (if t.2.getD i.val 0 = 0 then []
        else [(t.1 * ((t.2.getD i.val 0 : Nat) : ℚ), t.2.set i.val (t.2.getD i.val 0 - 1))])
      = MvPolynomial.pderiv i (MvPolynomial.monomial
          (Finsupp.equivFunOnFinite.symm (fun j : Fin d => t.2.getD j.val 0)) t.1) := by
  rw [MvPolynomial.pderiv_monomial]
  by_cases h : t.2.getD i.val 0 = 0
  · simp [-List.getD_eq_getElem?_getD, h, toMv_nil]
  · rw [if_neg h, toMv_cons, toMv_nil, add_zero]
    simp only [exponent_set d t.2 i h, Finsupp.equivFunOnFinite_symm_apply_apply]

/-! ### the reflection checks, unfolded -/

theorem checkGrad_sound (dim : Nat) (vals : List Poly) (grads : List (List Poly)) (tol : ℚ)
    (h : checkGrad dim vals grads tol = true) (j : Nat) (hj : j < vals.length)
    (a : Nat) (ha : a < dim) :
    Poly.close ((vals.getD j []).pderiv a) ((grads.getD j []).getD a []) tol = true := by
  unfold checkGrad at h
  simp only [Bool.and_eq_true, beq_iff_eq, List.all_eq_true] at h
  obtain ⟨hlen, hall⟩ := h
  have hj' : j < grads.length := hlen ▸ hj
  have hmem : (vals[j], grads[j]) ∈ vals.zip grads := by
    rw [List.mem_iff_getElem]
    exact ⟨j, by simp [hj, hj'], by simp⟩
  have := (hall _ hmem).2 a (List.mem_range.mpr ha)
  simpa [hj, hj'] using this

theorem checkDiv_sound (dim : Nat) (vals : List (List Poly)) (divs : List Poly) (tol : ℚ)
    (h : checkDiv dim vals divs tol = true) (j : Nat) (hj : j < vals.length) :
    Poly.close (Poly.sum ((List.range dim).map (fun i => ((vals.getD j []).getD i []).pderiv i)))
      (divs.getD j []) tol = true := by
  unfold checkDiv at h
  simp only [Bool.and_eq_true, beq_iff_eq, List.all_eq_true] at h
  obtain ⟨hlen, hall⟩ := h
  have hj' : j < divs.length := hlen ▸ hj
  have hmem : (vals[j], divs[j]) ∈ vals.zip divs := by
    rw [List.mem_iff_getElem]
    exact ⟨j, by simp [hj, hj'], by simp⟩
  have := (hall _ hmem).2
  simpa [hj, hj'] using this

/-! ### power basis: the coefficient loop is the descending factorial -/

theorem pbasisCoeff_eq_foldl (i dx : Nat) :
    pbasisCoeff i dx = (List.range dx).foldl (fun (c : Int) (l : Nat) => c * ((i : Int) - (l : Int))) 1 := by
  unfold pbasisCoeff
  apply List.foldl_ext
  intro c l hl
  have hl' : l ≤ dx := (List.mem_range.mp hl).le
  rw [Nat.cast_sub hl']
  congr 1
  ring

theorem pbasisCoeff_zero (i : Nat) : pbasisCoeff i 0 = 1 := rfl

theorem pbasisCoeff_succ (i dx : Nat) :
    pbasisCoeff i (dx + 1) = pbasisCoeff i dx * ((i : Int) - (dx : Int)) := by
  rw [pbasisCoeff_eq_foldl, pbasisCoeff_eq_foldl, List.range_succ, List.foldl_append]
  rfl

theorem pbasisCoeff_eq_descFactorial (i dx : Nat) :
    pbasisCoeff i dx = ((i.descFactorial dx : Nat) : Int) := by
  induction dx with
  | zero => simp [pbasisCoeff_zero]
  | succ dx ih =>
    rw [pbasisCoeff_succ, ih, Nat.descFactorial_succ]
    by_cases h : dx ≤ i
    · push_cast [Nat.cast_sub h]; ring
    · have h0 : i.descFactorial dx = 0 := Nat.descFactorial_eq_zero_iff_lt.mpr (not_le.mp h)
      simp [h0]

theorem iterDeriv_one_eq (i n : Nat) :
    iterDeriv n (1, i) = (((i.descFactorial n : Nat) : Int), i - n) := by
  induction n with
  | zero => simp [iterDeriv]
  | succ n ih =>
    simp only [iterDeriv, ih, Nat.descFactorial_succ]
    refine Prod.ext ?_ ?_
    · push_cast; ring
    · simp only; omega

end Skv.C09
