import SkfemVerif.Model.Assembly
/-
Helper lemmas for C16 (threaded assembly): `np.array_split`, the pair work list, interleavings
and schedules.  Core Lean only.
-/
namespace Skv

/-! ### `np.array_split` -/

theorem sum_sizes_aux (a r m : Nat) :
    ((List.range m).map (fun i => a + (if i < r then 1 else 0))).sum = m * a + min m r := by
  induction m with
  | zero => simp
  | succ m ih =>
    rw [List.range_succ, List.map_append, List.sum_append_nat, ih, Nat.succ_mul]
    simp only [List.map_cons, List.map_nil, List.sum_cons, List.sum_nil]
    split <;> omega

theorem length_arraySplitSizes (len n : Nat) : (arraySplitSizes len n).length = n := by
  simp [arraySplitSizes]

theorem sum_arraySplitSizes (len n : Nat) (hn : 0 < n) : (arraySplitSizes len n).sum = len := by
  unfold arraySplitSizes
  rw [sum_sizes_aux]
  have h1 : len % n < n := Nat.mod_lt _ hn
  have h2 : n * (len / n) + len % n = len := Nat.div_add_mod len n
  omega

theorem length_splitBySizes {β : Type} (ss : List Nat) (l : List β) :
    (splitBySizes ss l).length = ss.length := by
  induction ss generalizing l with
  | nil => simp [splitBySizes]
  | cons s ss ih => simp [splitBySizes, ih]

theorem flatten_splitBySizes {β : Type} (ss : List Nat) (l : List β) :
    (splitBySizes ss l).flatten = l.take ss.sum := by
  induction ss generalizing l with
  | nil => simp [splitBySizes]
  | cons s ss ih =>
    simp only [splitBySizes, List.flatten_cons, List.sum_cons, ih]
    rw [List.take_add]

theorem length_arraySplit {β : Type} (l : List β) (n : Nat) : (arraySplit l n).length = n := by
  unfold arraySplit
  rw [length_splitBySizes, length_arraySplitSizes]

theorem flatten_arraySplit {β : Type} (l : List β) (n : Nat) (hn : 0 < n) :
    (arraySplit l n).flatten = l := by
  unfold arraySplit
  rw [flatten_splitBySizes, sum_arraySplitSizes _ _ hn, List.take_length]

/-! ### the work list -/

/-- the chunk lengths are the requested sizes whenever they fit -/
theorem map_length_splitBySizes {β : Type} (ss : List Nat) (l : List β) (h : ss.sum ≤ l.length) :
    (splitBySizes ss l).map List.length = ss := by
  induction ss generalizing l with
  | nil => simp [splitBySizes]
  | cons s ss ih =>
    simp only [List.sum_cons] at h
    simp only [splitBySizes, List.map_cons, List.length_take]
    rw [ih (l.drop s) (by simp; omega), Nat.min_eq_left (by omega)]

theorem mem_pairList (Nu Nv i j : Nat) : (i, j) ∈ pairList Nu Nv ↔ i < Nv ∧ j < Nu := by
  unfold pairList
  simp only [List.mem_flatMap, List.mem_range, List.mem_map, Prod.mk.injEq]
  constructor
  · rintro ⟨a, ha, b, hb, rfl, rfl⟩
    exact ⟨hb, ha⟩
  · rintro ⟨hi, hj⟩
    exact ⟨j, hj, i, hi, rfl, rfl⟩

theorem pairList_succ (Nu Nv : Nat) :
    pairList (Nu + 1) Nv = pairList Nu Nv ++ (List.range Nv).map (fun i => (i, Nu)) := by
  unfold pairList
  rw [List.range_succ, List.flatMap_append]
  simp

theorem nodup_pairList (Nu Nv : Nat) : (pairList Nu Nv).Nodup := by
  induction Nu with
  | zero => simp [pairList]
  | succ Nu ih =>
    rw [pairList_succ, List.nodup_append]
    refine ⟨ih, ?_, ?_⟩
    · unfold List.Nodup
      rw [List.pairwise_map]
      refine (List.nodup_range (n := Nv)).imp ?_
      intro a b hab h
      exact hab (Prod.mk.inj h).1
    · intro a ha b hb hab
      subst hab
      obtain ⟨i, j⟩ := a
      rw [mem_pairList] at ha
      simp only [List.mem_map, List.mem_range, Prod.mk.injEq] at hb
      obtain ⟨c, _, _, hc⟩ := hb
      omega

/-! ### interleavings -/

theorem interleaving_perm {α : Type} {ws : List (List α)} {s : List α}
    (h : Interleaving ws s) : s.Perm ws.flatten := by
  induction h with
  | done ws hws =>
    have : ws.flatten = [] := by
      rw [List.flatten_eq_nil_iff]; exact hws
    rw [this]
  | step pre post x rest s _ ih =>
    rw [List.flatten_append, List.flatten_cons] at ih ⊢
    rw [List.cons_append]
    exact (List.Perm.cons x ih).trans List.perm_middle.symm

theorem interleaving_singleton {α : Type} (l : List α) : Interleaving [l] l := by
  induction l with
  | nil => exact Interleaving.done [[]] (by simp)
  | cons x xs ih => exact Interleaving.step [] [] x xs xs ih

/-! ### schedules -/

theorem runSchedule_apply {V : Type} (kernel : Nat × Nat → V) (s : List (Nat × Nat))
    (init : Nat × Nat → V) (p : Nat × Nat) :
    runSchedule kernel s init p = if p ∈ s then kernel p else init p := by
  unfold runSchedule
  induction s generalizing init with
  | nil => simp
  | cons x xs ih =>
    rw [List.foldl_cons, ih]
    by_cases hp : p ∈ xs
    · simp [hp]
    · by_cases hx : p = x
      · subst hx; simp [hp, writeSlot]
      · simp [hp, hx, writeSlot]

/-! ### flat slots -/

theorem mul_add_inj (a x y x' y' : Nat) (hy : y < a) (hy' : y' < a)
    (h : a * x + y = a * x' + y') : x = x' ∧ y = y' := by
  rcases Nat.lt_trichotomy x x' with hlt | heq | hgt
  · have := Nat.mul_le_mul_left a (Nat.succ_le_of_lt hlt)
    rw [Nat.mul_succ] at this
    omega
  · subst heq; omega
  · have := Nat.mul_le_mul_left a (Nat.succ_le_of_lt hgt)
    rw [Nat.mul_succ] at this
    omega

end Skv
