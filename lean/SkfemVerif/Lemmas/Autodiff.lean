import SkfemVerif.Model.Autodiff
import SkfemVerif.Lemmas.Assembly
import Mathlib.Analysis.Calculus.Deriv.Add
import Mathlib.Analysis.Calculus.Deriv.Mul
/-
Lemmas for the assembly part of C20: dense entries of the C01 triplet lists as explicit sums,
linearity of `interp` in the coefficient vector, the chain rule through `interp` for a Gateaux
derivative, and the formal derivative of the polynomial grammar.
-/
set_option linter.unusedSimpArgs false

namespace Skv

section Ring
variable {K : Type} [CommRing K]

theorem sum_filter_map (T : List α) (p : α → Bool) (g : α → K) :
    ((T.filter p).map g).sum = (T.map (fun t => if p t then g t else 0)).sum := by
  induction T with
  | nil => simp
  | cons t T ih =>
    by_cases h : p t
    · simp [List.filter_cons_of_pos h, h, ih]
    · simp [List.filter_cons_of_neg h, h, ih]

/-- dense entry of the C01 matrix as a sum over (trial index, test index, cell) -/
theorem denseEntry_bilinearTriplets (Nu Nv nt nq : Nat) (f : Sample K → Sample K → Sample K → K)
    (ub vb : BasisData K) (w : Nat → Nat → Sample K) (dx : Nat → Nat → K)
    (udofs vdofs : Nat → Nat → Nat) (r c : Nat) :
    denseEntry (bilinearTriplets Nu Nv nt nq f ub vb w dx udofs vdofs) r c
      = ∑ j ∈ Finset.range Nu, ∑ i ∈ Finset.range Nv, ∑ k ∈ Finset.range nt,
          if vdofs i k = r ∧ udofs j k = c then kernelBil nq f ub vb w dx j i k else 0 := by
  unfold denseEntry bilinearTriplets
  rw [sum_filter_map, sum_map_flatMap_range]
  refine Finset.sum_congr rfl (fun j _ => ?_)
  rw [sum_map_flatMap_range]
  refine Finset.sum_congr rfl (fun i _ => ?_)
  rw [List.map_map, sum_map_range]
  refine Finset.sum_congr rfl (fun k _ => ?_)
  simp

/-- dense entry of the C01 vector as a sum over (test index, cell) -/
theorem denseVecEntry_linearPairs (Nv nt nq : Nat) (f : Sample K → Sample K → K)
    (vb : BasisData K) (w : Nat → Nat → Sample K) (dx : Nat → Nat → K)
    (vdofs : Nat → Nat → Nat) (r : Nat) :
    denseVecEntry (linearPairs Nv nt nq f vb w dx vdofs) r
      = ∑ i ∈ Finset.range Nv, ∑ k ∈ Finset.range nt,
          if vdofs i k = r then kernelLin nq f vb w dx i k else 0 := by
  unfold denseVecEntry linearPairs
  rw [sum_filter_map, sum_map_flatMap_range]
  refine Finset.sum_congr rfl (fun i _ => ?_)
  rw [List.map_map, sum_map_range]
  refine Finset.sum_congr rfl (fun k _ => ?_)
  simp

theorem denseVecEntry_map_neg (T : List (Nat × K)) (r : Nat) :
    denseVecEntry (T.map (fun p => (p.1, -p.2))) r = -denseVecEntry T r := by
  unfold denseVecEntry
  induction T with
  | nil => simp
  | cons t T ih =>
    by_cases h : t.1 = r
    · simp only [List.map_cons, List.filter_cons, h, beq_self_eq_true, if_true, List.sum_cons, ih]
      ring
    · have h' : (t.1 == r) = false := by simpa using h
      simp only [List.map_cons, List.filter_cons, h']
      exact ih

theorem actionLin_map_neg (T : List (Nat × K)) (v : Nat → K) :
    actionLin (T.map (fun p => (p.1, -p.2))) v = -actionLin T v := by
  unfold actionLin
  induction T with
  | nil => simp
  | cons t T ih => simp only [List.map_cons, List.sum_cons, ih]; ring

/-- `interp` as a Finset sum, entrywise -/
theorem interp_apply (N : Nat) (x : Nat → K) (dofs : Nat → Nat → Nat) (b : BasisData K)
    (k q c : Nat) :
    interp N x dofs b k q c = ∑ j ∈ Finset.range N, x (dofs j k) * b j k q c := by
  unfold interp
  exact sum_map_range N _

/-- `interp` is linear in the coefficient vector: the linearisation point of `x + t e` is
    `x_h + t e_h` -/
theorem interp_add_smul (N : Nat) (x e : Nat → K) (t : K) (dofs : Nat → Nat → Nat)
    (b : BasisData K) (k q : Nat) :
    interp N (x + t • e) dofs b k q = interp N x dofs b k q + t • interp N e dofs b k q := by
  funext c
  simp only [Pi.add_apply, Pi.smul_apply, smul_eq_mul, interp_apply, Finset.mul_sum,
    ← Finset.sum_add_distrib]
  refine Finset.sum_congr rfl (fun j _ => ?_)
  ring

/-- `interp e` as a linear combination of the basis samples -/
theorem interp_eq_sum_smul (N : Nat) (e : Nat → K) (dofs : Nat → Nat → Nat) (b : BasisData K)
    (k q : Nat) :
    interp N e dofs b k q = ∑ j ∈ Finset.range N, e (dofs j k) • b j k q := by
  funext c
  rw [interp_apply, Finset.sum_apply]
  simp [Pi.smul_apply, smul_eq_mul]

/-- `Σ_{c<N} [d = c] e c = e d` for an in-range index -/
theorem sum_ite_eq_range (N d : Nat) (hd : d < N) (g : Nat → K) :
    ∑ c ∈ Finset.range N, (if d = c then g c else 0) = g d := by
  rw [Finset.sum_ite_eq (Finset.range N) d g]
  simp [hd]


/-! ### `COOData.dot` (J·e from the triplets) versus dense entries -/

theorem cooDot_nil (x : Nat → K) (r : Nat) : cooDot ([] : List (Nat × Nat × K)) x r = 0 := by
  simp [cooDot]

theorem cooDot_cons (t : Nat × Nat × K) (T : List (Nat × Nat × K)) (x : Nat → K) (r : Nat) :
    cooDot (t :: T) x r = (if t.1 = r then t.2.2 * x t.2.1 else 0) + cooDot T x r := by
  unfold cooDot
  by_cases h : t.1 = r
  · simp [h]
  · have h' : (t.1 == r) = false := by simpa using h
    simp [h, h']

/-- the column `c` of the matrix is its action on the unit vector `e_c` -/
theorem cooDot_single (T : List (Nat × Nat × K)) (r c : Nat) :
    cooDot T (Pi.single c 1) r = denseEntry T r c := by
  induction T with
  | nil => simp [cooDot_nil, denseEntry_nil]
  | cons t T ih =>
    rw [cooDot_cons, denseEntry_cons, ih]
    congr 1
    by_cases h1 : t.1 = r <;> by_cases h2 : t.2.1 = c <;> simp [h1, h2, Pi.single_apply]

/-- `J e` from the triplets is the dense matrix-vector product (all columns `< N`) -/
theorem cooDot_eq_sum_dense (T : List (Nat × Nat × K)) (N : Nat) (hT : ∀ t ∈ T, t.2.1 < N)
    (e : Nat → K) (r : Nat) :
    cooDot T e r = ∑ c ∈ Finset.range N, denseEntry T r c * e c := by
  induction T with
  | nil => simp [cooDot_nil, denseEntry_nil]
  | cons t T ih =>
    have ht := hT t (by simp)
    rw [cooDot_cons, ih (fun t' h' => hT t' (by simp [h']))]
    simp only [denseEntry_cons, add_mul, Finset.sum_add_distrib]
    congr 1
    by_cases h1 : t.1 = r
    · rw [Finset.sum_eq_single t.2.1]
      · simp [h1]
      · intro c _ hc
        simp [Ne.symm hc]
      · intro h
        exact absurd (Finset.mem_range.2 ht) h
    · simp [h1]

theorem cooDot_bilinearTriplets (Nu Nv nt nq : Nat) (f : Sample K → Sample K → Sample K → K)
    (ub vb : BasisData K) (w : Nat → Nat → Sample K) (dx : Nat → Nat → K)
    (udofs vdofs : Nat → Nat → Nat) (e : Nat → K) (r : Nat) :
    cooDot (bilinearTriplets Nu Nv nt nq f ub vb w dx udofs vdofs) e r
      = ∑ j ∈ Finset.range Nu, ∑ i ∈ Finset.range Nv, ∑ k ∈ Finset.range nt,
          if vdofs i k = r then kernelBil nq f ub vb w dx j i k * e (udofs j k) else 0 := by
  unfold cooDot bilinearTriplets
  rw [sum_filter_map, sum_map_flatMap_range]
  refine Finset.sum_congr rfl (fun j _ => ?_)
  rw [sum_map_flatMap_range]
  refine Finset.sum_congr rfl (fun i _ => ?_)
  rw [List.map_map, sum_map_range]
  refine Finset.sum_congr rfl (fun k _ => ?_)
  simp

/-- the pure sum reordering behind "matrix = derivative of the residual" -/
theorem jacobian_sum_reorder (Nb nt nq : Nat) (dofs : Nat → Nat → Nat) (r : Nat)
    (D : Nat → Nat → Nat → Nat → K) (dx : Nat → Nat → K) (e : Nat → K) :
    ∑ j ∈ Finset.range Nb, ∑ i ∈ Finset.range Nb, ∑ k ∈ Finset.range nt,
        (if dofs i k = r then (∑ q ∈ Finset.range nq, D j i k q * dx k q) * e (dofs j k) else 0)
      = ∑ i ∈ Finset.range Nb, ∑ k ∈ Finset.range nt,
          if dofs i k = r then
            ∑ q ∈ Finset.range nq, (∑ j ∈ Finset.range Nb, e (dofs j k) * D j i k q) * dx k q
          else 0 := by
  rw [Finset.sum_comm]
  refine Finset.sum_congr rfl (fun i _ => ?_)
  rw [Finset.sum_comm]
  refine Finset.sum_congr rfl (fun k _ => ?_)
  by_cases h : dofs i k = r
  · simp only [h, if_true, Finset.sum_mul]
    rw [Finset.sum_comm]
    refine Finset.sum_congr rfl (fun q _ => Finset.sum_congr rfl (fun j _ => ?_))
    ring
  · simp [h]

/-! ### polynomial grammar: algebraic facts -/

theorem monoDeriv_add (cs : List Nat) (a h h' : Sample K) :
    monoDeriv cs a (h + h') = monoDeriv cs a h + monoDeriv cs a h' := by
  induction cs with
  | nil => simp [monoDeriv]
  | cons c cs ih => simp only [monoDeriv, ih, Pi.add_apply]; ring

theorem monoDeriv_smul (cs : List Nat) (a h : Sample K) (t : K) :
    monoDeriv cs a (t • h) = t * monoDeriv cs a h := by
  induction cs with
  | nil => simp [monoDeriv]
  | cons c cs ih => simp only [monoDeriv, ih, Pi.smul_apply, smul_eq_mul]; ring

theorem evalNLDeriv_cons (s : NLTerm K) (ts : List (NLTerm K)) (a h b w : Sample K) :
    evalNLDeriv (s :: ts) a h b w = s.deriv a h b w + evalNLDeriv ts a h b w := by
  simp [evalNLDeriv]

theorem evalNL_cons (s : NLTerm K) (ts : List (NLTerm K)) (a b w : Sample K) :
    evalNL (s :: ts) a b w = s.eval a b w + evalNL ts a b w := by
  simp [evalNL]

theorem evalNLDeriv_add (ts : List (NLTerm K)) (a h h' b w : Sample K) :
    evalNLDeriv ts a (h + h') b w = evalNLDeriv ts a h b w + evalNLDeriv ts a h' b w := by
  induction ts with
  | nil => simp [evalNLDeriv]
  | cons t ts ih =>
    simp only [evalNLDeriv_cons, ih, NLTerm.deriv, monoDeriv_add]; ring

theorem evalNLDeriv_smul (ts : List (NLTerm K)) (a h b w : Sample K) (t : K) :
    evalNLDeriv ts a (t • h) b w = t * evalNLDeriv ts a h b w := by
  induction ts with
  | nil => simp [evalNLDeriv]
  | cons s ts ih =>
    simp only [evalNLDeriv_cons, ih, NLTerm.deriv, monoDeriv_smul]; ring

end Ring

/-! ### calculus: Gateaux derivatives along lines `t ↦ x + t • h` -/

section Calculus
variable {𝕜 : Type} [NontriviallyNormedField 𝕜]

/-- derivative of a monomial along a line, at every parameter value -/
theorem hasDerivAt_monoVal (cs : List Nat) (x h : Sample 𝕜) (t0 : 𝕜) :
    HasDerivAt (fun t : 𝕜 => monoVal cs (x + t • h)) (monoDeriv cs (x + t0 • h) h) t0 := by
  induction cs with
  | nil => simpa [monoVal, monoDeriv] using hasDerivAt_const t0 (1 : 𝕜)
  | cons c cs ih =>
    have h1 : HasDerivAt (fun t : 𝕜 => (x + t • h) c) (h c) t0 := by
      have : HasDerivAt (fun t : 𝕜 => x c + t * h c) (h c) t0 := by
        simpa using ((hasDerivAt_id t0).mul_const (h c)).const_add (x c)
      simpa [Pi.add_apply, Pi.smul_apply, smul_eq_mul] using this
    have h2 := h1.mul ih
    simp only [monoVal, monoDeriv]
    exact h2

theorem hasDerivAt_evalNL (ts : List (NLTerm 𝕜)) (x h v w : Sample 𝕜) :
    HasDerivAt (fun t : 𝕜 => evalNL ts (x + t • h) v w) (evalNLDeriv ts x h v w) 0 := by
  induction ts with
  | nil => simpa [evalNL, evalNLDeriv] using hasDerivAt_const (0 : 𝕜) (0 : 𝕜)
  | cons s ts ih =>
    have h1 : HasDerivAt (fun t : 𝕜 => s.eval (x + t • h) v w) (s.deriv x h v w) 0 := by
      have hm := hasDerivAt_monoVal s.ucs x h 0
      simp only [zero_smul, add_zero] at hm
      have := ((hm.const_mul s.coef).mul_const (v s.vc)).mul_const (w s.wc)
      simpa [NLTerm.eval, NLTerm.deriv] using this
    have h2 := h1.add ih
    simp only [evalNL_cons, evalNLDeriv_cons]
    exact h2

/-- **chain rule through the linear interpolation**: if `g` has the Gateaux derivative `dg` at
    the interpolated point `x_h(k, q)` (in every direction, linear in the direction), then along
    the line `x + t e` of coefficient vectors the derivative is `Σ_j e[dofs j k] · dg(φ_j)`. -/
theorem hasDerivAt_comp_interp (N : Nat) (x e : Nat → 𝕜) (dofs : Nat → Nat → Nat)
    (b : BasisData 𝕜) (k q : Nat) (g : Sample 𝕜 → 𝕜) (dg : Sample 𝕜 → 𝕜)
    (hd : ∀ h, HasDerivAt (fun t : 𝕜 => g (interp N x dofs b k q + t • h)) (dg h) 0)
    (hadd : ∀ h h', dg (h + h') = dg h + dg h') (hsmul : ∀ (c : 𝕜) h, dg (c • h) = c * dg h) :
    HasDerivAt (fun t : 𝕜 => g (interp N (x + t • e) dofs b k q))
      (∑ j ∈ Finset.range N, e (dofs j k) * dg (b j k q)) 0 := by
  have hz : dg 0 = 0 := by simpa using hsmul 0 0
  have h1 := hd (interp N e dofs b k q)
  rw [interp_eq_sum_smul N e, map_sum_smul_of_linear dg hadd hsmul hz] at h1
  simpa only [interp_add_smul, ← interp_eq_sum_smul N e] using h1

end Calculus

end Skv
