import SkfemVerif.Model.Topology
import SkfemVerif.Lemmas.Np
/-
Helper lemmas about the E-topo model (core Lean only).
-/
namespace Skv

/-! ### flat index algebra -/

theorem flatten_getElem_of_uniform {β : Type} (rows : List (List β)) (n : Nat)
    (hrows : ∀ r ∈ rows, r.length = n) (i k : Nat) (hi : i < rows.length) (hk : k < n) :
    ∃ h : i * n + k < rows.flatten.length,
      rows.flatten[i * n + k] = (rows[i])[k]'(by rw [hrows _ (List.getElem_mem hi)]; exact hk) := by
  induction rows generalizing i with
  | nil => simp at hi
  | cons r rs ih =>
    have hr : r.length = n := hrows r (by simp)
    have hrs : ∀ r' ∈ rs, r'.length = n := fun r' h' => hrows r' (by simp [h'])
    cases i with
    | zero =>
      have hk' : k < r.length := by omega
      refine ⟨by simp; omega, ?_⟩
      simp [List.getElem_append_left, hk']
    | succ i =>
      have hi' : i < rs.length := by simpa using hi
      obtain ⟨h1, h2⟩ := ih hrs i hi'
      have e : (i + 1) * n + k = r.length + (i * n + k) := by rw [hr, Nat.add_mul]; omega
      refine ⟨by simp only [List.flatten_cons, List.length_append]; omega, ?_⟩
      simp only [List.flatten_cons, List.getElem_cons_succ]
      rw [List.getElem_append_right (by omega)]
      simp only [e, Nat.add_sub_cancel_left]
      exact h2

theorem length_flatten_of_uniform {β : Type} (rows : List (List β)) (n : Nat)
    (hrows : ∀ r ∈ rows, r.length = n) : rows.flatten.length = rows.length * n := by
  induction rows with
  | nil => simp
  | cons r rs ih =>
    have hr : r.length = n := hrows r (by simp)
    have hrs : ∀ r' ∈ rs, r'.length = n := fun r' h' => hrows r' (by simp [h'])
    simp [ih hrs, hr, Nat.add_mul]; omega

/-! ### `indexing` -/

theorem indexing_eq_flatten (cells ref : List (List Nat)) :
    indexing cells ref = (ref.map (fun slot => cells.map (fun c => slotCol c slot))).flatten := by
  simp [indexing, List.flatMap]

theorem length_indexing (cells ref : List (List Nat)) :
    (indexing cells ref).length = ref.length * cells.length := by
  rw [indexing_eq_flatten, length_flatten_of_uniform _ cells.length]
  · simp
  · intro r hr
    simp only [List.mem_map] at hr
    obtain ⟨s, _, rfl⟩ := hr
    simp

/-- column `i * nt + k` of `indexing` is the vertex tuple of slot `i` of cell `k` -/
theorem indexing_getElem (cells ref : List (List Nat)) (i k : Nat)
    (hi : i < ref.length) (hk : k < cells.length) :
    ∃ h : i * cells.length + k < (indexing cells ref).length,
      (indexing cells ref)[i * cells.length + k] = slotCol cells[k] ref[i] := by
  have hrows : ∀ r ∈ (ref.map (fun slot => cells.map (fun c => slotCol c slot))),
      r.length = cells.length := by
    intro r hr
    simp only [List.mem_map] at hr
    obtain ⟨s, _, rfl⟩ := hr
    simp
  obtain ⟨h1, h2⟩ := flatten_getElem_of_uniform _ cells.length hrows i k (by simpa using hi) hk
  refine ⟨by rw [length_indexing]; rw [length_flatten_of_uniform _ _ hrows] at h1; simpa using h1, ?_⟩
  simp only [indexing_eq_flatten]
  rw [h2]
  simp

theorem mem_indexing {col : List Nat} {cells ref : List (List Nat)} :
    col ∈ indexing cells ref ↔ ∃ slot ∈ ref, ∃ c ∈ cells, col = slotCol c slot := by
  simp only [indexing, List.mem_flatMap, List.mem_map]
  constructor
  · rintro ⟨s, hs, c, hc, rfl⟩; exact ⟨s, hs, c, hc, rfl⟩
  · rintro ⟨s, hs, c, hc, rfl⟩; exact ⟨s, hs, c, hc, rfl⟩

theorem length_sortedIndexing (cells ref : List (List Nat)) :
    (sortedIndexing cells ref).length = ref.length * cells.length := by
  simp [sortedIndexing, length_indexing]

theorem sortedIndexing_getElem (cells ref : List (List Nat)) (i k : Nat)
    (hi : i < ref.length) (hk : k < cells.length) :
    ∃ h : i * cells.length + k < (sortedIndexing cells ref).length,
      (sortedIndexing cells ref)[i * cells.length + k] = sortCol (slotCol cells[k] ref[i]) := by
  obtain ⟨h1, h2⟩ := indexing_getElem cells ref i k hi hk
  refine ⟨by simpa [sortedIndexing] using h1, ?_⟩
  simp [sortedIndexing, h2]

/-! ### the reshaped slot table -/

theorem length_entityOfColumn (cells ref : List (List Nat)) :
    (entityOfColumn cells ref).length = ref.length * cells.length := by
  simp [entityOfColumn, length_uniqueInverse, length_sortedIndexing]

theorem length_entityMapping (cells ref : List (List Nat)) :
    (entityMapping cells ref).length = ref.length := by
  simp [entityMapping, reshapeRows]

/-- entry `(i, k)` of the reshaped table is entry `i * nt + k` of the flat inverse -/
theorem entityMapping_getElem (cells ref : List (List Nat)) (i k : Nat)
    (hi : i < ref.length) (hk : k < cells.length) :
    ∃ (h1 : i < (entityMapping cells ref).length)
      (h2 : k < ((entityMapping cells ref)[i]).length)
      (h3 : i * cells.length + k < (entityOfColumn cells ref).length),
      ((entityMapping cells ref)[i])[k] = (entityOfColumn cells ref)[i * cells.length + k] := by
  have hlen := length_entityOfColumn cells ref
  have hb : i * cells.length + cells.length ≤ ref.length * cells.length := by
    have : (i + 1) * cells.length ≤ ref.length * cells.length :=
      Nat.mul_le_mul_right _ (by omega)
    rw [Nat.add_mul] at this; omega
  have h3 : i * cells.length + k < (entityOfColumn cells ref).length := by omega
  have h1 : i < (entityMapping cells ref).length := by rw [length_entityMapping]; exact hi
  have hrow : (entityMapping cells ref)[i] =
      ((entityOfColumn cells ref).drop (i * cells.length)).take cells.length := by
    simp [entityMapping, reshapeRows]
  have h2 : k < ((entityMapping cells ref)[i]).length := by
    rw [hrow]; simp; omega
  refine ⟨h1, h2, h3, ?_⟩
  simp only [hrow, List.getElem_take, List.getElem_drop]

end Skv
