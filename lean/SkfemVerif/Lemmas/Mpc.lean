import SkfemVerif.Model.BC
import SkfemVerif.Lemmas.BC
import SkfemVerif.Lemmas.Assembly
import Mathlib.Algebra.BigOperators.Group.Finset.Basic
import Mathlib.Algebra.BigOperators.Group.Finset.Sigma
import Mathlib.Algebra.BigOperators.Ring.Finset
import Mathlib.Tactic.Ring
import Mathlib.Tactic.LinearCombination
/-
Helper lemmas for the multipoint-constraint reduction `mpc` (Model/BC.lean): the expansion
`mpcExpand` at the positions of `U ++ M` and of `S`, sums over a list as sums over its positions,
and the algebra behind `[[A_UU, A_UM + A_US T], [A_MU, A_MM + A_MS T]] w = [b_U - A_US g, …]`.
-/
namespace Skv

section Mpc
variable {K : Type} [CommRing K]

/-- a sum over the members of a list is a sum over its positions -/
theorem sum_map_eq_range_getD (l : List Nat) (f : Nat → K) :
    (l.map f).sum = ((List.range l.length).map (fun q => f (l.getD q 0))).sum := by
  congr 1
  apply List.ext_getElem
  · simp
  · intro p h1 h2
    have hp : p < l.length := by simpa using h1
    simp [List.getD_eq_getElem?_getD, List.getElem?_eq_getElem hp]

theorem getD_eq_getElem_of_lt (l : List Nat) (q : Nat) (hq : q < l.length) :
    l.getD q 0 = l[q] := by
  simp [List.getD_eq_getElem?_getD, List.getElem?_eq_getElem hq]

/-- the expansion reads `w q` at the `q`-th member of `U ++ M` -/
theorem mpcExpand_UM (U M S : List Nat) (T : Nat → Nat → K) (g w : Nat → K)
    (hnd : (U ++ M).Nodup) (q : Nat) (hq : q < (U ++ M).length) :
    mpcExpand U M S T g w ((U ++ M).getD q 0) = w q := by
  rw [getD_eq_getElem_of_lt _ q hq]
  unfold mpcExpand
  rw [if_pos (contains_eq_true_iff.2 (List.getElem_mem hq)), hnd.idxOf_getElem q hq]

/-- the `j`-th member of `M` sits at position `U.length + j` of `U ++ M` -/
theorem getD_M_eq (U M : List Nat) (j : Nat) (hj : j < M.length) :
    M.getD j 0 = (U ++ M).getD (U.length + j) 0 := by
  have h2 : U.length + j < (U ++ M).length := by rw [List.length_append]; omega
  rw [getD_eq_getElem_of_lt _ j hj, getD_eq_getElem_of_lt _ _ h2,
    List.getElem_append_right (by omega)]
  simp

/-- the expansion reads `T w_M + g` at the `s`-th member of `S` -/
theorem mpcExpand_S (U M S : List Nat) (T : Nat → Nat → K) (g w : Nat → K)
    (hS : S.Nodup) (hdisj : ∀ i, i ∈ U ++ M → i ∉ S) (s : Nat) (hs : s < S.length) :
    mpcExpand U M S T g w (S[s])
      = ((List.range M.length).map (fun j => T s j * w (U.length + j))).sum + g s := by
  unfold mpcExpand
  have hmem : S[s] ∈ S := List.getElem_mem hs
  have hn : ¬ ((U ++ M).contains S[s] = true) := by
    rw [contains_eq_true_iff]
    exact fun h => hdisj _ h hmem
  rw [if_neg hn, if_pos (contains_eq_true_iff.2 hmem), hS.idxOf_getElem s hs]

/-- the algebra of the reduction, in position coordinates: `a q = A r (U++M)[q]`,
    `c s = A r S[s]` -/
theorem mpc_algebra (nU nM nS : Nat) (a c : Nat → K) (T : Nat → Nat → K) (g w : Nat → K) (br : K)
    (h : ∑ q ∈ Finset.range (nU + nM),
          (a q + (if q < nU then 0 else ∑ s ∈ Finset.range nS, c s * T s (q - nU))) * w q
        = br - ∑ s ∈ Finset.range nS, c s * g s) :
    ∑ q ∈ Finset.range (nU + nM), a q * w q
      + ∑ s ∈ Finset.range nS, c s * (∑ j ∈ Finset.range nM, T s j * w (nU + j) + g s) = br := by
  have e1 : ∑ q ∈ Finset.range (nU + nM),
        (if q < nU then 0 else ∑ s ∈ Finset.range nS, c s * T s (q - nU)) * w q
      = ∑ j ∈ Finset.range nM, (∑ s ∈ Finset.range nS, c s * T s j) * w (nU + j) := by
    rw [Finset.sum_range_add]
    have z : ∑ q ∈ Finset.range nU,
        (if q < nU then 0 else ∑ s ∈ Finset.range nS, c s * T s (q - nU)) * w q = 0 := by
      apply Finset.sum_eq_zero
      intro q hq
      rw [if_pos (Finset.mem_range.1 hq), zero_mul]
    rw [z, zero_add]
    apply Finset.sum_congr rfl
    intro j _
    rw [if_neg (by omega), Nat.add_sub_cancel_left]
  have e2 : ∑ s ∈ Finset.range nS, c s * (∑ j ∈ Finset.range nM, T s j * w (nU + j) + g s)
      = ∑ j ∈ Finset.range nM, (∑ s ∈ Finset.range nS, c s * T s j) * w (nU + j)
        + ∑ s ∈ Finset.range nS, c s * g s := by
    simp only [mul_add, Finset.sum_add_distrib, Finset.mul_sum, Finset.sum_mul]
    rw [Finset.sum_comm]
    congr 1
    apply Finset.sum_congr rfl
    intro j _
    apply Finset.sum_congr rfl
    intro s _
    ring
  simp only [add_mul, Finset.sum_add_distrib] at h
  rw [e1] at h
  rw [e2]
  linear_combination h

/-- **the reduction is right**: a solution of the reduced system, expanded, satisfies the original
    equation of row `(U ++ M)[p]` -/
theorem mpc_row (n : Nat) (A : Nat → Nat → K) (b : Nat → K) (U M S : List Nat)
    (T : Nat → Nat → K) (g : Nat → K) (w : Nat → K)
    (hUM : (U ++ M).Nodup) (hS : S.Nodup) (hdisj : ∀ i, i ∈ U ++ M → i ∉ S)
    (hcover : ∀ i, i < n ↔ (i ∈ U ++ M ∨ i ∈ S))
    (p : Nat)
    (hsol : ((List.range (U ++ M).length).map (fun q => mpcMat A U M S T p q * w q)).sum
      = mpcRhs A b U M S g p) :
    matVec n A (mpcExpand U M S T g w) ((U ++ M).getD p 0) = b ((U ++ M).getD p 0) := by
  unfold matVec
  rw [sum_range_split n (U ++ M) S hUM hS hdisj hcover, sum_map_eq_range_getD (U ++ M),
    sum_map_eq_range_getD S, sum_map_range, sum_map_range]
  unfold mpcMat mpcRhs at hsol
  simp only [sum_map_range] at hsol
  have h1 : ∑ q ∈ Finset.range (U ++ M).length,
        A ((U ++ M).getD p 0) ((U ++ M).getD q 0) * mpcExpand U M S T g w ((U ++ M).getD q 0)
      = ∑ q ∈ Finset.range (U.length + M.length),
        A ((U ++ M).getD p 0) ((U ++ M).getD q 0) * w q := by
    rw [List.length_append]
    apply Finset.sum_congr rfl
    intro q hq
    rw [mpcExpand_UM U M S T g w hUM q (by rw [List.length_append]; exact Finset.mem_range.1 hq)]
  have h2 : ∑ s ∈ Finset.range S.length,
        A ((U ++ M).getD p 0) (S.getD s 0) * mpcExpand U M S T g w (S.getD s 0)
      = ∑ s ∈ Finset.range S.length, A ((U ++ M).getD p 0) (S.getD s 0)
          * (∑ j ∈ Finset.range M.length, T s j * w (U.length + j) + g s) := by
    apply Finset.sum_congr rfl
    intro s hs
    have hs' : s < S.length := Finset.mem_range.1 hs
    rw [getD_eq_getElem_of_lt S s hs', mpcExpand_S U M S T g w hS hdisj s hs', sum_map_range]
  rw [h1, h2]
  rw [List.length_append] at hsol
  exact mpc_algebra U.length M.length S.length _ _ T g w _ hsol

end Mpc

end Skv
