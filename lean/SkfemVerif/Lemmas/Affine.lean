import SkfemVerif.Model.Affine
import Mathlib.LinearAlgebra.Matrix.Determinant.Basic
import Mathlib.Algebra.Order.Field.Basic
import Mathlib.Tactic.Ring
import Mathlib.Tactic.FieldSimp
import Mathlib.Tactic.Linarith
import Mathlib.Tactic.IntervalCases
/-
Lemmas for C10: unrolling of the small sums, the integer tables as elements of a field, the closed-form
determinant / inverse in dimensions 1-3, transport of normals.
-/
namespace Skv.Map
open Skv.Gen.Map

section Field
variable {K : Type} [Field K]

@[simp] theorem sumN_zero (f : Nat → K) : sumN 0 f = 0 := rfl
@[simp] theorem sumN_one (f : Nat → K) : sumN 1 f = f 0 := by simp [sumN]
@[simp] theorem sumN_two (f : Nat → K) : sumN 2 f = f 0 + f 1 := by simp [sumN, List.range_succ]
@[simp] theorem sumN_three (f : Nat → K) : sumN 3 f = f 0 + f 1 + f 2 := by
  simp [sumN, List.range_succ]
@[simp] theorem sumN_four (f : Nat → K) : sumN 4 f = f 0 + f 1 + f 2 + f 3 := by
  simp [sumN, List.range_succ]
@[simp] theorem sumN_six (f : Nat → K) : sumN 6 f = f 0 + f 1 + f 2 + f 3 + f 4 + f 5 := by
  simp [sumN, List.range_succ]
@[simp] theorem sumN_eight (f : Nat → K) :
    sumN 8 f = f 0 + f 1 + f 2 + f 3 + f 4 + f 5 + f 6 + f 7 := by
  simp [sumN, List.range_succ]

theorem nat_eq_cast (n : Nat) : (nat n : K) = (n : K) := by
  induction n using Nat.strongRecOn with
  | _ n ih =>
    match n with
    | 0 => simp [nat]
    | 1 => simp [nat]
    | (m + 2) => rw [nat, ih (m + 1) (by omega)]; push_cast; ring

theorem ofInt_eq_cast (z : Int) : (ofInt z : K) = (z : K) := by
  unfold ofInt
  split
  · rename_i h
    rw [nat_eq_cast]
    have : (z : K) = -((z.natAbs : Int) : K) := by
      rw [Int.ofNat_natAbs_of_nonpos (le_of_lt h)]; simp
    rw [this]; simp
  · rename_i h
    rw [nat_eq_cast]
    have : ((z.natAbs : Int) : K) = (z : K) := by
      rw [Int.natAbs_of_nonneg (not_lt.mp h)]
    rw [← this]; simp

theorem tabEntry_eq_cast (t : List (List Int)) (i j : Nat) :
    (tabEntry t i j : K) = (((t.getD i []).getD j 0 : Int) : K) := ofInt_eq_cast _

/-- integer sums of at most three terms commute with the cast -/
theorem cast_sumN (d : Nat) (hd : d ≤ 3) (f : Nat → Int) :
    ((sumN d f : Int) : K) = sumN d (fun j => ((f j : Int) : K)) := by
  interval_cases d
  · simp [sumN]
  · simp [sumN]
  · simp [sumN, List.range_succ]
  · simp [sumN, List.range_succ]

/-- `F` sends the vertices of the reference simplex (table `refdom.p`) to the vertices of the cell -/
theorem cellF_vertices (v : Nat → Nat → K) :
    (∀ k ≤ 1, ∀ i < 1, cellF 1 v (refVertex refLineP k) i = v k i)
    ∧ (∀ k ≤ 2, ∀ i < 2, cellF 2 v (refVertex refTriP k) i = v k i)
    ∧ (∀ k ≤ 3, ∀ i < 3, cellF 3 v (refVertex refTetP k) i = v k i) := by
  refine ⟨?_, ?_, ?_⟩
  · intro k hk i hi
    interval_cases k <;> interval_cases i <;>
      simp [cellF, affF, mulVec, affA, affb, refVertex, tabEntry, ofInt, nat, refLineP]
  · intro k hk i hi
    interval_cases k <;> interval_cases i <;>
      simp [cellF, affF, mulVec, affA, affb, refVertex, tabEntry, ofInt, nat, refTriP]
  · intro k hk i hi
    interval_cases k <;> interval_cases i <;>
      simp [cellF, affF, mulVec, affA, affb, refVertex, tabEntry, ofInt, nat, refTetP]

/-! ### closed-form determinant and inverse (both implementations) -/

theorem affInv_mul (d : Nat) (hd : d = 1 ∨ d = 2 ∨ d = 3) (A : Nat → Nat → K) (h : affDet d A ≠ 0)
    (i j : Nat) (hi : i < d) (hj : j < d) :
    mulMat d (affInv d A) A i j = if i = j then 1 else 0 := by
  rcases hd with rfl | rfl | rfl
  · have h' : A 0 0 ≠ 0 := h
    interval_cases i; interval_cases j
    simp [mulMat, affInv, affInv1]; field_simp
  · have h' : affDet2 A ≠ 0 := h
    interval_cases i <;> interval_cases j <;> simp [mulMat, affInv, affInv2] <;> field_simp <;>
      simp [affDet2] <;> ring
  · have h' : affDet3 A ≠ 0 := h
    interval_cases i <;> interval_cases j <;> simp [mulMat, affInv, affInv3] <;> field_simp <;>
      simp [affDet3] <;> ring

theorem mul_affInv (d : Nat) (hd : d = 1 ∨ d = 2 ∨ d = 3) (A : Nat → Nat → K) (h : affDet d A ≠ 0)
    (i j : Nat) (hi : i < d) (hj : j < d) :
    mulMat d A (affInv d A) i j = if i = j then 1 else 0 := by
  rcases hd with rfl | rfl | rfl
  · have h' : A 0 0 ≠ 0 := h
    interval_cases i; interval_cases j
    simp [mulMat, affInv, affInv1]; field_simp
  · have h' : affDet2 A ≠ 0 := h
    interval_cases i <;> interval_cases j <;> simp [mulMat, affInv, affInv2] <;> field_simp <;>
      simp [affDet2] <;> ring
  · have h' : affDet3 A ≠ 0 := h
    interval_cases i <;> interval_cases j <;> simp [mulMat, affInv, affInv3] <;> field_simp <;>
      simp [affDet3] <;> ring

/-- the isoparametric formulas are the affine ones (adjugate divided by the determinant) -/
theorem isoDet_eq_affDet (d : Nat) (J : Nat → Nat → K) : isoDet d J = affDet d J := by
  unfold isoDet affDet
  split <;> rfl

theorem isoInv_eq_affInv (d : Nat) (hd : d = 1 ∨ d = 2 ∨ d = 3) (J : Nat → Nat → K) (i j : Nat)
    (hi : i < d) (hj : j < d) : isoInv d J i j = affInv d J i j := by
  rcases hd with rfl | rfl | rfl
  · interval_cases i; interval_cases j
    simp [isoInv, affInv, isoInv1, affInv1, isoDet1]
  · interval_cases i <;> interval_cases j <;>
      simp [isoInv, affInv, isoInv2, affInv2, isoDet2, affDet2]
  · interval_cases i <;> interval_cases j <;>
      simp [isoInv, affInv, isoInv3, affInv3, isoDet3, affDet3]

/-! ### transport of normals: `(A⁻ᵀ N) · (A u) = N · u` -/

theorem normal_transport_aff (d : Nat) (hd : d = 1 ∨ d = 2 ∨ d = 3) (A : Nat → Nat → K)
    (h : affDet d A ≠ 0) (N u : Nat → K) :
    dot d (rawNormal true d (affInv d A) N) (mulVec d A u) = dot d N u := by
  rcases hd with rfl | rfl | rfl
  · have h' : A 0 0 ≠ 0 := h
    simp [dot, rawNormal, mulVec, affInv, affInv1]; field_simp
  · have h' : affDet2 A ≠ 0 := h
    simp [dot, rawNormal, mulVec, affInv, affInv2]; field_simp; simp [affDet2]; ring
  · have h' : affDet3 A ≠ 0 := h
    simp [dot, rawNormal, mulVec, affInv, affInv3]; field_simp; simp [affDet3]; ring


/-! ### the 48 (local facet, cyclic order) cases of the hexahedral facet map -/

theorem hex_facet_0 (v : Nat → Nat → K) (loc : Nat → Nat) (σ : List Nat) (hσ : σ ∈ squareSyms)
    (h : ∀ k < 4, loc k = (refHexFacets.getD 0 []).getD (σ.getD k 0) 0) (s : Nat → K) (i : Nat) :
    isoF quad1N quad1Phi (fun k => v (loc k)) s i
      = isoF hex1N hex1Phi v (gammaIso refHexP quad1N quad1Phi loc s) i := by
  have l0 := h 0 (by omega)
  have l1 := h 1 (by omega)
  have l2 := h 2 (by omega)
  have l3 := h 3 (by omega)
  simp only [squareSyms, List.mem_cons, List.not_mem_nil, or_false] at hσ
  rcases hσ with rfl | rfl | rfl | rfl | rfl | rfl | rfl | rfl <;>
    simp [refHexFacets] at l0 l1 l2 l3 <;>
    simp [isoF, gammaIso, quad1N, quad1Phi, hex1N, hex1Phi, l0, l1, l2, l3, refVertex, tabEntry,
      ofInt, nat, refHexP] <;> ring

theorem hex_facet_1 (v : Nat → Nat → K) (loc : Nat → Nat) (σ : List Nat) (hσ : σ ∈ squareSyms)
    (h : ∀ k < 4, loc k = (refHexFacets.getD 1 []).getD (σ.getD k 0) 0) (s : Nat → K) (i : Nat) :
    isoF quad1N quad1Phi (fun k => v (loc k)) s i
      = isoF hex1N hex1Phi v (gammaIso refHexP quad1N quad1Phi loc s) i := by
  have l0 := h 0 (by omega)
  have l1 := h 1 (by omega)
  have l2 := h 2 (by omega)
  have l3 := h 3 (by omega)
  simp only [squareSyms, List.mem_cons, List.not_mem_nil, or_false] at hσ
  rcases hσ with rfl | rfl | rfl | rfl | rfl | rfl | rfl | rfl <;>
    simp [refHexFacets] at l0 l1 l2 l3 <;>
    simp [isoF, gammaIso, quad1N, quad1Phi, hex1N, hex1Phi, l0, l1, l2, l3, refVertex, tabEntry,
      ofInt, nat, refHexP] <;> ring

theorem hex_facet_2 (v : Nat → Nat → K) (loc : Nat → Nat) (σ : List Nat) (hσ : σ ∈ squareSyms)
    (h : ∀ k < 4, loc k = (refHexFacets.getD 2 []).getD (σ.getD k 0) 0) (s : Nat → K) (i : Nat) :
    isoF quad1N quad1Phi (fun k => v (loc k)) s i
      = isoF hex1N hex1Phi v (gammaIso refHexP quad1N quad1Phi loc s) i := by
  have l0 := h 0 (by omega)
  have l1 := h 1 (by omega)
  have l2 := h 2 (by omega)
  have l3 := h 3 (by omega)
  simp only [squareSyms, List.mem_cons, List.not_mem_nil, or_false] at hσ
  rcases hσ with rfl | rfl | rfl | rfl | rfl | rfl | rfl | rfl <;>
    simp [refHexFacets] at l0 l1 l2 l3 <;>
    simp [isoF, gammaIso, quad1N, quad1Phi, hex1N, hex1Phi, l0, l1, l2, l3, refVertex, tabEntry,
      ofInt, nat, refHexP] <;> ring

theorem hex_facet_3 (v : Nat → Nat → K) (loc : Nat → Nat) (σ : List Nat) (hσ : σ ∈ squareSyms)
    (h : ∀ k < 4, loc k = (refHexFacets.getD 3 []).getD (σ.getD k 0) 0) (s : Nat → K) (i : Nat) :
    isoF quad1N quad1Phi (fun k => v (loc k)) s i
      = isoF hex1N hex1Phi v (gammaIso refHexP quad1N quad1Phi loc s) i := by
  have l0 := h 0 (by omega)
  have l1 := h 1 (by omega)
  have l2 := h 2 (by omega)
  have l3 := h 3 (by omega)
  simp only [squareSyms, List.mem_cons, List.not_mem_nil, or_false] at hσ
  rcases hσ with rfl | rfl | rfl | rfl | rfl | rfl | rfl | rfl <;>
    simp [refHexFacets] at l0 l1 l2 l3 <;>
    simp [isoF, gammaIso, quad1N, quad1Phi, hex1N, hex1Phi, l0, l1, l2, l3, refVertex, tabEntry,
      ofInt, nat, refHexP] <;> ring

theorem hex_facet_4 (v : Nat → Nat → K) (loc : Nat → Nat) (σ : List Nat) (hσ : σ ∈ squareSyms)
    (h : ∀ k < 4, loc k = (refHexFacets.getD 4 []).getD (σ.getD k 0) 0) (s : Nat → K) (i : Nat) :
    isoF quad1N quad1Phi (fun k => v (loc k)) s i
      = isoF hex1N hex1Phi v (gammaIso refHexP quad1N quad1Phi loc s) i := by
  have l0 := h 0 (by omega)
  have l1 := h 1 (by omega)
  have l2 := h 2 (by omega)
  have l3 := h 3 (by omega)
  simp only [squareSyms, List.mem_cons, List.not_mem_nil, or_false] at hσ
  rcases hσ with rfl | rfl | rfl | rfl | rfl | rfl | rfl | rfl <;>
    simp [refHexFacets] at l0 l1 l2 l3 <;>
    simp [isoF, gammaIso, quad1N, quad1Phi, hex1N, hex1Phi, l0, l1, l2, l3, refVertex, tabEntry,
      ofInt, nat, refHexP] <;> ring

theorem hex_facet_5 (v : Nat → Nat → K) (loc : Nat → Nat) (σ : List Nat) (hσ : σ ∈ squareSyms)
    (h : ∀ k < 4, loc k = (refHexFacets.getD 5 []).getD (σ.getD k 0) 0) (s : Nat → K) (i : Nat) :
    isoF quad1N quad1Phi (fun k => v (loc k)) s i
      = isoF hex1N hex1Phi v (gammaIso refHexP quad1N quad1Phi loc s) i := by
  have l0 := h 0 (by omega)
  have l1 := h 1 (by omega)
  have l2 := h 2 (by omega)
  have l3 := h 3 (by omega)
  simp only [squareSyms, List.mem_cons, List.not_mem_nil, or_false] at hσ
  rcases hσ with rfl | rfl | rfl | rfl | rfl | rfl | rfl | rfl <;>
    simp [refHexFacets] at l0 l1 l2 l3 <;>
    simp [isoF, gammaIso, quad1N, quad1Phi, hex1N, hex1Phi, l0, l1, l2, l3, refVertex, tabEntry,
      ofInt, nat, refHexP] <;> ring


theorem normal_transport_iso (d : Nat) (hd : d = 1 ∨ d = 2 ∨ d = 3) (J : Nat → Nat → K)
    (h : isoDet d J ≠ 0) (N u : Nat → K) :
    dot d (rawNormal true d (isoInv d J) N) (mulVec d J u) = dot d N u := by
  rcases hd with rfl | rfl | rfl
  · have h' : J 0 0 ≠ 0 := h
    simp [dot, rawNormal, mulVec, isoInv, isoInv1, isoDet1]; field_simp
  · have h' : isoDet2 J ≠ 0 := h
    simp [dot, rawNormal, mulVec, isoInv, isoInv2]; field_simp; simp [isoDet2]; ring
  · have h' : isoDet3 J ≠ 0 := h
    simp [dot, rawNormal, mulVec, isoInv, isoInv3]; field_simp; simp [isoDet3]; ring

end Field

section Field2
variable {K : Type} [Field K]

/-! ### surface factor against determinant and raw normal (simplices) -/

theorem surf3_perm (w u : Nat → Nat → K) (τ : List Nat) (hτ : τ ∈ perms3)
    (hu : ∀ k < 3, u k = w (τ.getD k 0)) : affSurfSq 3 (affB u) = affSurfSq 3 (affB w) := by
  have l0 := hu 0 (by omega)
  have l1 := hu 1 (by omega)
  have l2 := hu 2 (by omega)
  simp only [perms3, List.mem_cons, List.not_mem_nil, or_false] at hτ
  rcases hτ with rfl | rfl | rfl | rfl | rfl | rfl <;>
    simp [affSurfSq, affSurfSq3, affB, l0, l1, l2] <;> ring

theorem nanson_tet_canonical (v : Nat → Nat → K) (hdet : affDet 3 (affA v) ≠ 0) (i : Nat) (hi : i < 4) :
    affSurfSq 3 (affB (fun k => v ((refTetFacets.getD i []).getD k 0)))
      = affDet 3 (affA v) * affDet 3 (affA v) * lenSq 3 (affRawNormal 3 v i) := by
  have h' : affDet3 (affA v) ≠ 0 := hdet
  interval_cases i <;>
    simp [refTetFacets, affSurfSq, affSurfSq3, affB, affDet, lenSq, dot, affRawNormal, rawNormal,
      affNormalTransposed, affInv, affInv3, affNref, affNref3, tabEntry, ofInt, nat] <;>
    field_simp <;> simp [affA] <;> ring

theorem nanson_tri (v : Nat → Nat → K) (hdet : affDet 2 (affA v) ≠ 0) (i : Nat) (hi : i < 3)
    (loc : Nat → Nat)
    (hloc : [loc 0, loc 1] = refTriFacets.getD i [] ∨ [loc 1, loc 0] = refTriFacets.getD i []) :
    affSurfSq 2 (affB (fun k => v (loc k)))
      = affDet 2 (affA v) * affDet 2 (affA v) * lenSq 2 (affRawNormal 2 v i) := by
  have h' : affDet2 (affA v) ≠ 0 := hdet
  interval_cases i <;> simp [refTriFacets] at hloc <;> rcases hloc with ⟨a, b⟩ | ⟨a, b⟩ <;>
    simp [affSurfSq, affSurfSq2, affB, a, b, affDet, lenSq, dot, affRawNormal, rawNormal,
      affNormalTransposed, affInv, affInv2, affNref, affNref2, tabEntry, ofInt, nat] <;>
    field_simp <;> simp [affA] <;> ring

/-! ### `Σ_i n_i · x_i = 1` for the raw normals of a simplex (canonical vertex of every facet) -/

theorem divergence_tri_canonical (v : Nat → Nat → K) (hdet : affDet 2 (affA v) ≠ 0) :
    dot 2 (affRawNormal 2 v 0) (v 0) + dot 2 (affRawNormal 2 v 1) (v 1)
      + dot 2 (affRawNormal 2 v 2) (v 0) = 1 := by
  have h' : affDet2 (affA v) ≠ 0 := hdet
  simp [dot, affRawNormal, rawNormal, affNormalTransposed, affInv, affInv2, affNref, affNref2,
    tabEntry, ofInt, nat]
  field_simp
  simp [affDet2, affA]; ring

theorem divergence_tet_canonical (v : Nat → Nat → K) (hdet : affDet 3 (affA v) ≠ 0) :
    dot 3 (affRawNormal 3 v 0) (v 0) + dot 3 (affRawNormal 3 v 1) (v 0)
      + dot 3 (affRawNormal 3 v 2) (v 0) + dot 3 (affRawNormal 3 v 3) (v 1) = 1 := by
  have h' : affDet3 (affA v) ≠ 0 := hdet
  simp [dot, affRawNormal, rawNormal, affNormalTransposed, affInv, affInv3, affNref, affNref3,
    tabEntry, ofInt, nat]
  field_simp
  simp [affDet3, affA]; ring

theorem dot_sub (d : Nat) (hd : d = 1 ∨ d = 2 ∨ d = 3) (n x y : Nat → K) :
    dot d n x = dot d n y + dot d n (fun j => x j - y j) := by
  rcases hd with rfl | rfl | rfl <;> simp [dot] <;> ring

end Field2

/-! ### reference cells: the tabulated normals against the tabulated vertices and facets -/

structure RefCell where
  d : Nat
  P : List (List Int)
  F : List (List Nat)
  N : List (List Int)

/-- every reference cell of `skfem/refdom.py` -/
def refCells : List RefCell :=
  [⟨1, refLineP, refLineFacets, refLineNormals⟩, ⟨2, refTriP, refTriFacets, refTriNormals⟩,
   ⟨3, refTetP, refTetFacets, refTetNormals⟩, ⟨2, refQuadP, refQuadFacets, refQuadNormals⟩,
   ⟨3, refHexP, refHexFacets, refHexNormals⟩, ⟨3, refWedgeP, refWedgeFacets, refWedgeNormals⟩]

/-- `n̂_i · (X̂_b − X̂_a)` on the integer tables -/
def tabDot (rc : RefCell) (i a b : Nat) : Int :=
  sumN rc.d (fun j => (rc.N.getD i []).getD j 0 * ((rc.P.getD b []).getD j 0 - (rc.P.getD a []).getD j 0))

/-- the tabulated normal of local facet `i` is orthogonal to the facet (differences of its vertices) and
    has a negative product with every vector from a vertex of the facet to a vertex off the facet -/
def refOutward (rc : RefCell) : Prop :=
  ∀ i < rc.F.length, ∀ a ∈ rc.F.getD i [],
    (∀ b ∈ rc.F.getD i [], tabDot rc i a b = 0)
    ∧ (∀ c < rc.P.length, c ∉ rc.F.getD i [] → tabDot rc i a c < 0)

instance (rc : RefCell) : Decidable (refOutward rc) := by unfold refOutward; infer_instance

theorem refCells_dim : ∀ rc ∈ refCells, rc.d = 1 ∨ rc.d = 2 ∨ rc.d = 3 := by decide

/-- the integer table product as an element of the field -/
theorem dot_tab_cast {K : Type} [Field K] (rc : RefCell) (hd : rc.d ≤ 3) (i a b : Nat) :
    dot rc.d (fun j => (tabEntry rc.N i j : K))
      (fun j => (refVertex rc.P b j : K) - refVertex rc.P a j) = ((tabDot rc i a b : Int) : K) := by
  unfold tabDot
  rw [cast_sumN rc.d hd]
  unfold dot refVertex
  congr 1
  funext j
  simp only [tabEntry_eq_cast]
  push_cast
  ring

/-- raw normal of an affine simplex against a difference of two of its vertices = the integer table
    product (needs only that `F` maps the tabulated reference vertices to the cell vertices) -/
theorem simplex_normal_aux {K : Type} [Field K] (rc : RefCell) (hrc : rc ∈ refCells) (v : Nat → Nat → K)
    (hN : affNref rc.d = rc.N)
    (hvert : ∀ k < rc.P.length, ∀ j < rc.d, cellF rc.d v (refVertex rc.P k) j = v k j)
    (hdet : affDet rc.d (affA v) ≠ 0) (i a c : Nat) (ha : a < rc.P.length) (hc : c < rc.P.length) :
    dot rc.d (affRawNormal rc.d v i) (fun j => v c j - v a j) = ((tabDot rc i a c : Int) : K) := by
  have hd := refCells_dim rc hrc
  have hu : ∀ j < rc.d, v c j - v a j
      = mulVec rc.d (affA v) (fun j => refVertex rc.P c j - refVertex rc.P a j) j := by
    intro j hj
    have e1 := hvert c hc j hj
    have e2 := hvert a ha j hj
    simp only [cellF, affF] at e1 e2
    rw [← e1, ← e2]
    rcases hd with h | h | h <;> simp only [h, mulVec, sumN_one, sumN_two, sumN_three] <;> ring
  have step1 : dot rc.d (affRawNormal rc.d v i) (fun j => v c j - v a j)
      = dot rc.d (rawNormal true rc.d (affInv rc.d (affA v)) (fun j => tabEntry rc.N i j))
          (mulVec rc.d (affA v) (fun j => refVertex rc.P c j - refVertex rc.P a j)) := by
    unfold affRawNormal
    rw [hN, show affNormalTransposed = true from rfl]
    rcases hd with h | h | h <;> rw [h] at hu ⊢ <;>
      simp only [dot, sumN_one, sumN_two, sumN_three]
    · rw [hu 0 (by omega)]
    · rw [hu 0 (by omega), hu 1 (by omega)]
    · rw [hu 0 (by omega), hu 1 (by omega), hu 2 (by omega)]
  rw [step1, normal_transport_aff rc.d hd (affA v) hdet, dot_tab_cast rc (by omega)]

theorem refCells_outward : ∀ rc ∈ refCells, refOutward rc := by decide

def triCell : RefCell := ⟨2, refTriP, refTriFacets, refTriNormals⟩
def tetCell : RefCell := ⟨3, refTetP, refTetFacets, refTetNormals⟩
theorem triCell_mem : triCell ∈ refCells := by simp [refCells, triCell]
theorem tetCell_mem : tetCell ∈ refCells := by simp [refCells, tetCell]

/-- raw normal of local facet `i` of a triangle against the difference of two vertices -/
theorem tri_normal_cast {K : Type} [Field K] (v : Nat → Nat → K) (hdet : affDet 2 (affA v) ≠ 0)
    (i a c : Nat) (ha : a < 3) (hc : c < 3) :
    dot 2 (affRawNormal 2 v i) (fun j => v c j - v a j) = ((tabDot triCell i a c : Int) : K) :=
  simplex_normal_aux triCell triCell_mem v rfl
    (fun k hk j hj => (cellF_vertices v).2.1 k (by simp [triCell, refTriP] at hk; omega) j hj)
    hdet i a c ha hc

theorem tet_normal_cast {K : Type} [Field K] (v : Nat → Nat → K) (hdet : affDet 3 (affA v) ≠ 0)
    (i a c : Nat) (ha : a < 4) (hc : c < 4) :
    dot 3 (affRawNormal 3 v i) (fun j => v c j - v a j) = ((tabDot tetCell i a c : Int) : K) :=
  simplex_normal_aux tetCell tetCell_mem v rfl
    (fun k hk j hj => (cellF_vertices v).2.2 k (by simp [tetCell, refTetP] at hk; omega) j hj)
    hdet i a c ha hc

theorem mem_facet_lt_tri (i a : Nat) (hi : i < 3) (ha : a ∈ refTriFacets.getD i []) : a < 3 := by
  interval_cases i <;> simp [refTriFacets] at ha <;> omega

theorem mem_facet_lt_tet (i a : Nat) (hi : i < 4) (ha : a ∈ refTetFacets.getD i []) : a < 4 := by
  interval_cases i <;> simp [refTetFacets] at ha <;> omega

/-- `x · n` is constant on a facet -/
theorem raw_const_tri {K : Type} [Field K] (v : Nat → Nat → K) (hdet : affDet 2 (affA v) ≠ 0)
    (i a b : Nat) (hi : i < 3) (ha : a ∈ refTriFacets.getD i []) (hb : b ∈ refTriFacets.getD i []) :
    dot 2 (affRawNormal 2 v i) (v a) = dot 2 (affRawNormal 2 v i) (v b) := by
  rw [dot_sub 2 (by omega) _ (v a) (v b),
    tri_normal_cast v hdet i b a (mem_facet_lt_tri i b hi hb) (mem_facet_lt_tri i a hi ha)]
  have := ((refCells_outward triCell triCell_mem) i hi b hb).1 a ha
  rw [this]; simp

theorem raw_const_tet {K : Type} [Field K] (v : Nat → Nat → K) (hdet : affDet 3 (affA v) ≠ 0)
    (i a b : Nat) (hi : i < 4) (ha : a ∈ refTetFacets.getD i []) (hb : b ∈ refTetFacets.getD i []) :
    dot 3 (affRawNormal 3 v i) (v a) = dot 3 (affRawNormal 3 v i) (v b) := by
  rw [dot_sub 3 (by omega) _ (v a) (v b),
    tet_normal_cast v hdet i b a (mem_facet_lt_tet i b hi hb) (mem_facet_lt_tet i a hi ha)]
  have := ((refCells_outward tetCell tetCell_mem) i hi b hb).1 a ha
  rw [this]; simp

/-- one facet: (surface factor) × (unit normal · x) = |det| × (raw normal · x) -/
theorem facet_term {K : Type} [Field K] [LinearOrder K] [IsStrictOrderedRing K] (σ ℓ D t : K)
    (hσ : 0 ≤ σ) (hℓ : 0 < ℓ) (h : σ * σ = D * D * (ℓ * ℓ)) : σ * (t / ℓ) = |D| * t := by
  have e : σ = |D| * ℓ := by
    apply (mul_self_inj hσ (by positivity)).mp
    rw [h, ← abs_mul_abs_self D]; ring
  rw [e]; field_simp

end Skv.Map
