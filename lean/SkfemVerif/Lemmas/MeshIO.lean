import SkfemVerif.Model.MeshIO
import SkfemVerif.Lemmas.Np
import SkfemVerif.Lemmas.Topology
/-
Helper lemmas about the E-io model (core Lean only).
-/
namespace Skv.MeshIO

/-! ### bit packing -/

theorem packBits_cons (b : Bool) (bs : List Bool) :
    packBits (b :: bs) = b.toNat + 2 * packBits bs := rfl

/-- bit `r` of the packed integer is the `r`-th flag -/
theorem testBit_packBits (bits : List Bool) (r : Nat) :
    (packBits bits).testBit r = bits.getD r false := by
  induction bits generalizing r with
  | nil => simp [packBits]
  | cons b bs ih =>
    cases r with
    | zero =>
      rw [packBits_cons, Nat.testBit_zero]
      cases b <;> simp <;> omega
    | succ r =>
      rw [packBits_cons, Nat.testBit_succ]
      have : (b.toNat + 2 * packBits bs) / 2 = packBits bs := by
        cases b <;> simp <;> omega
      rw [this, ih]
      simp

theorem and_two_pow_eq (n r : Nat) : n &&& 2 ^ r = if n.testBit r then 2 ^ r else 0 := by
  apply Nat.eq_of_testBit_eq
  intro i
  rw [Nat.testBit_and, Nat.testBit_two_pow]
  by_cases h : r = i
  · subst h
    cases hb : n.testBit r <;> simp
  · cases hb : n.testBit r <;> simp [h]

/-- the decoder's mask `bool((1 << r) & n)` is bit `r` of `n` -/
theorem and_shift_ne_zero (n r : Nat) : (n &&& (1 <<< r) != 0) = n.testBit r := by
  rw [Nat.one_shiftLeft, and_two_pow_eq]
  have := Nat.two_pow_pos r
  cases h : n.testBit r
  · simp
  · simp

theorem packBits_lt (bits : List Bool) : packBits bits < 2 ^ bits.length := by
  induction bits with
  | nil => simp [packBits]
  | cons b bs ih =>
    rw [packBits_cons, List.length_cons, Nat.pow_succ]
    cases b <;> simp <;> omega

/-! ### stable sort by the first component -/

theorem perm_insertByFst (x : Nat × Nat) (l : List (Nat × Nat)) :
    (insertByFst x l).Perm (x :: l) := by
  induction l with
  | nil => simp [insertByFst]
  | cons y ys ih =>
    simp only [insertByFst]
    split
    · exact List.Perm.refl _
    · exact (List.Perm.cons y ih).trans (List.Perm.swap x y ys)

theorem perm_sortByFst (l : List (Nat × Nat)) : (sortByFst l).Perm l := by
  induction l with
  | nil => simp [sortByFst]
  | cons x xs ih =>
    have : sortByFst (x :: xs) = insertByFst x (sortByFst xs) := rfl
    rw [this]
    exact (perm_insertByFst x _).trans (List.Perm.cons x ih)

theorem mem_sortByFst {x : Nat × Nat} {l : List (Nat × Nat)} : x ∈ sortByFst l ↔ x ∈ l :=
  (perm_sortByFst l).mem_iff

theorem pairwise_insertByFst {x : Nat × Nat} {l : List (Nat × Nat)}
    (h : l.Pairwise (fun a b => a.1 ≤ b.1)) :
    (insertByFst x l).Pairwise (fun a b => a.1 ≤ b.1) := by
  induction l with
  | nil => simp [insertByFst]
  | cons y ys ih =>
    simp only [insertByFst]
    rw [List.pairwise_cons] at h
    split
    · rename_i hxy
      refine List.pairwise_cons.mpr ⟨?_, List.pairwise_cons.mpr h⟩
      intro z hz
      rcases List.mem_cons.mp hz with rfl | hz
      · exact hxy
      · exact Nat.le_trans hxy (h.1 z hz)
    · rename_i hxy
      refine List.pairwise_cons.mpr ⟨?_, ih h.2⟩
      intro z hz
      rcases List.mem_cons.mp ((perm_insertByFst x ys).mem_iff.mp hz) with rfl | hz
      · omega
      · exact h.1 z hz

theorem pairwise_sortByFst (l : List (Nat × Nat)) :
    (sortByFst l).Pairwise (fun a b => a.1 ≤ b.1) := by
  induction l with
  | nil => simp [sortByFst]
  | cons x xs ih =>
    have : sortByFst (x :: xs) = insertByFst x (sortByFst xs) := rfl
    rw [this]
    exact pairwise_insertByFst ih

/-- distinct keys: the sorted list is strictly ascending in the first component -/
theorem strict_sortByFst {l : List (Nat × Nat)} (h : l.Pairwise (fun a b => a.1 ≠ b.1)) :
    (sortByFst l).Pairwise (fun a b => a.1 < b.1) := by
  have h' : (sortByFst l).Pairwise (fun a b => a.1 ≠ b.1) :=
    ((perm_sortByFst l).pairwise_iff (fun {x y} (hxy : x.1 ≠ y.1) => Ne.symm hxy)).mpr h
  exact ((pairwise_sortByFst l).and h').imp (fun ⟨h1, h2⟩ => Nat.lt_of_le_of_ne h1 h2)

/-- two lists that are strictly ascending in the first component and have the same members
    are equal -/
theorem eq_of_strict_of_mem_iff : ∀ (l₁ l₂ : List (Nat × Nat)),
    l₁.Pairwise (fun a b => a.1 < b.1) → l₂.Pairwise (fun a b => a.1 < b.1) →
    (∀ x, x ∈ l₁ ↔ x ∈ l₂) → l₁ = l₂
  | [], [], _, _, _ => rfl
  | [], b :: l₂, _, _, h => by
    have := (h b).mpr (List.mem_cons_self ..)
    simp at this
  | a :: l₁, [], _, _, h => by
    have := (h a).mp (List.mem_cons_self ..)
    simp at this
  | a :: l₁, b :: l₂, h₁, h₂, h => by
    rw [List.pairwise_cons] at h₁ h₂
    have hab : a = b := by
      have ha := (h a).mp (List.mem_cons_self ..)
      have hb := (h b).mpr (List.mem_cons_self ..)
      rcases List.mem_cons.mp ha with e | ha
      · exact e
      · rcases List.mem_cons.mp hb with e | hb
        · exact e.symm
        · have := h₂.1 a ha
          have := h₁.1 b hb
          omega
    subst hab
    congr 1
    apply eq_of_strict_of_mem_iff l₁ l₂ h₁.2 h₂.2
    intro x
    constructor
    · intro hx
      rcases List.mem_cons.mp ((h x).mp (List.mem_cons_of_mem _ hx)) with e | hx'
      · have := h₁.1 x hx
        rw [e] at this
        omega
      · exact hx'
    · intro hx
      rcases List.mem_cons.mp ((h x).mpr (List.mem_cons_of_mem _ hx)) with e | hx'
      · have := h₂.1 x hx
        rw [e] at this
        omega
      · exact hx'

/-! ### zip of a duplicate-free index list -/

theorem zip_snd_unique : ∀ {fs ori : List Nat} {f o o' : Nat}, fs.Nodup →
    (f, o) ∈ fs.zip ori → (f, o') ∈ fs.zip ori → o = o'
  | [], _, _, _, _, _, h, _ => by simp at h
  | _ :: _, [], _, _, _, _, h, _ => by simp at h
  | a :: fs, b :: ori, f, o, o', hn, h, h' => by
    rw [List.nodup_cons] at hn
    simp only [List.zip_cons_cons, List.mem_cons, Prod.mk.injEq] at h h'
    rcases h with ⟨rfl, rfl⟩ | h
    · rcases h' with ⟨_, rfl⟩ | h'
      · rfl
      · exact absurd (List.of_mem_zip h').1 hn.1
    · rcases h' with ⟨rfl, rfl⟩ | h'
      · exact absurd (List.of_mem_zip h).1 hn.1
      · exact zip_snd_unique hn.2 h h'

theorem pairwise_zip_fst_ne : ∀ {fs ori : List Nat}, fs.Nodup →
    (fs.zip ori).Pairwise (fun a b => a.1 ≠ b.1)
  | [], _, _ => by simp
  | _ :: _, [], _ => by simp
  | a :: fs, b :: ori, hn => by
    rw [List.nodup_cons] at hn
    rw [List.zip_cons_cons, List.pairwise_cons]
    refine ⟨?_, pairwise_zip_fst_ne hn.2⟩
    intro x hx
    have := (List.of_mem_zip (a := x.1) (b := x.2) hx).1
    intro e
    simp only at e
    exact hn.1 (e ▸ this)


/-! ### scatter / flatten('F') / ranks -/

theorem scatter_cons {α : Type} (dst : List α) (j : Nat) (J : List Nat) (v : α) (vs : List α) :
    scatter dst (j :: J) (v :: vs) = scatter (dst.set j v) J vs := rfl

/-- `dst[J] = g(J)`: afterwards position `i` holds `g i` if `i` was assigned, else the old
    value (duplicates in `J` assign the same value) -/
theorem scatter_map_getElem? {α : Type} (g : Nat → α) (J : List Nat) (dst : List α) (i : Nat) :
    (scatter dst J (J.map g))[i]? =
      if i ∈ J ∧ i < dst.length then some (g i) else dst[i]? := by
  induction J generalizing dst with
  | nil => simp [scatter]
  | cons j J ih =>
    rw [List.map_cons, scatter_cons, ih, List.length_set, List.getElem?_set]
    by_cases hJ : i ∈ J
    · by_cases hl : i < dst.length
      · simp [hJ, hl]
      · by_cases hji : j = i
        · subst hji; simp [hl]
        · simp [hJ, hl, hji]
    · by_cases hji : j = i
      · subst hji
        by_cases hl : j < dst.length <;> simp [hJ, hl]
      · have : ¬ i = j := fun e => hji e.symm
        simp [hJ, hji, this]

theorem length_scatter {α : Type} (dst : List α) (idx : List Nat) (vals : List α) :
    (scatter dst idx vals).length = dst.length := by
  unfold scatter
  generalize idx.zip vals = z
  induction z generalizing dst with
  | nil => rfl
  | cons a z ih => rw [List.foldl_cons, ih, List.length_set]

theorem mem_flattenF_of_mem_flatten {nt : Nat} {rows : List (List Nat)}
    (hrows : ∀ r ∈ rows, r.length = nt) {j : Nat} (h : j ∈ rows.flatten) :
    j ∈ flattenF nt rows := by
  obtain ⟨r, hr, hj⟩ := List.mem_flatten.mp h
  obtain ⟨k, hk, e⟩ := List.getElem_of_mem hj
  simp only [flattenF, List.mem_flatMap, List.mem_range, List.mem_map]
  refine ⟨k, by rw [← hrows r hr]; exact hk, r, hr, ?_⟩
  simp [List.getD_eq_getElem?_getD, hk, e]

theorem idxOf_range {n v : Nat} (h : v < n) : (List.range n).idxOf v = v := by
  have h' : v < (List.range n).length := by simpa using h
  have := List.Nodup.idxOf_getElem (List.nodup_range (n := n)) v h'
  simpa using this


/-! ### encoder / decoder plumbing -/

theorem wrapIdx_nat (n c : Nat) : wrapIdx n (c : Int) = c := by
  simp [wrapIdx]
  omega


theorem length_encodeBoundary (t2f : List (List Nat)) (nt : Nat) (f2t : List Int × List Int)
    (fs ori : List Nat) : (encodeBoundary t2f nt f2t fs ori).length = nt := by
  simp [encodeBoundary]

/-- the decoder's mask on the encoder's output is the encoder's mask -/
theorem decMask_encode (t2f : List (List Nat)) (nt : Nat) (f2t : List Int × List Int)
    (fs ori : List Nat) (r c : Nat) (hr : r < t2f.length) (hc : c < nt) :
    decMask (encodeBoundary t2f nt f2t fs ori) r c
      = maskBit t2f (ownerPairs nt f2t fs ori) r c := by
  unfold decMask
  rw [and_shift_ne_zero]
  have : (encodeBoundary t2f nt f2t fs ori).getD c 0
      = packBits ((List.range t2f.length).map
          (fun r => maskBit t2f (ownerPairs nt f2t fs ori) r c)) := by
    simp [encodeBoundary, List.getD_eq_getElem?_getD, hc]
  rw [this, testBit_packBits]
  simp [List.getD_eq_getElem?_getD, hr]

theorem mem_hits {n : Nat} {data : List Nat} {r c : Nat} :
    (r, c) ∈ hits n data ↔ r < n ∧ c < data.length ∧ decMask data r c = true := by
  simp only [hits, List.mem_flatMap, List.mem_range, List.mem_map, List.mem_filter, Prod.mk.injEq]
  constructor
  · rintro ⟨r', hr', c', ⟨hc', hm⟩, rfl, rfl⟩
    exact ⟨hr', hc', hm⟩
  · rintro ⟨hr, hc, hm⟩
    exact ⟨r, hr, c, ⟨hc, hm⟩, rfl, rfl⟩

theorem nodup_hits (n : Nat) (data : List Nat) : (hits n data).Nodup := by
  unfold hits List.Nodup
  rw [List.pairwise_flatMap]
  constructor
  · intro r _
    rw [List.pairwise_map]
    exact (List.nodup_range.filter _).imp (fun h e => h (by simpa using e))
  · refine List.nodup_range.imp ?_
    intro r r' hne x hx y hy
    simp only [List.mem_map] at hx hy
    obtain ⟨_, _, rfl⟩ := hx
    obtain ⟨_, _, rfl⟩ := hy
    intro e
    exact hne (by simpa using congrArg Prod.fst e)

theorem maskBit_iff {t2f : List (List Nat)} {op : List (Nat × Nat)} {r c : Nat} :
    maskBit t2f op r c = true ↔ ∃ fw ∈ op, fw.2 = c ∧ at2 t2f r c = fw.1 := by
  simp [maskBit, List.any_eq_true]

theorem mem_ownerPairs {nt : Nat} {f2t : List Int × List Int} {fs ori : List Nat}
    {fw : Nat × Nat} :
    fw ∈ ownerPairs nt f2t fs ori
      ↔ ∃ fo ∈ fs.zip ori, fw = (fo.1, ownerCell nt f2t fo.2 fo.1) := by
  simp only [ownerPairs, List.mem_map]
  constructor
  · rintro ⟨fo, h, rfl⟩; exact ⟨fo, h, rfl⟩
  · rintro ⟨fo, h, rfl⟩; exact ⟨fo, h, rfl⟩

/-- a hit of the decoder on the encoder's output comes from exactly one tagged facet -/
theorem hit_iff {t2f : List (List Nat)} {nt : Nat} {f2t : List Int × List Int}
    {fs ori : List Nat} {r c : Nat} :
    (r, c) ∈ hits t2f.length (encodeBoundary t2f nt f2t fs ori)
      ↔ r < t2f.length ∧ c < nt ∧
        ∃ fo ∈ fs.zip ori, ownerCell nt f2t fo.2 fo.1 = c ∧ at2 t2f r c = fo.1 := by
  rw [mem_hits, length_encodeBoundary]
  constructor
  · rintro ⟨hr, hc, hm⟩
    rw [decMask_encode _ _ _ _ _ _ _ hr hc, maskBit_iff] at hm
    obtain ⟨fw, hfw, h1, h2⟩ := hm
    obtain ⟨fo, hfo, rfl⟩ := mem_ownerPairs.mp hfw
    exact ⟨hr, hc, fo, hfo, h1, h2⟩
  · rintro ⟨hr, hc, fo, hfo, h1, h2⟩
    refine ⟨hr, hc, ?_⟩
    rw [decMask_encode _ _ _ _ _ _ _ hr hc, maskBit_iff]
    exact ⟨_, mem_ownerPairs.mpr ⟨fo, hfo, rfl⟩, h1, h2⟩


/-- a position of the C-order flattened slot table determines (slot, cell) -/
theorem at2_of_flat_pos (nt : Nat) (hnt : 0 < nt) (mapping : List (List Nat))
    (hrows : ∀ r ∈ mapping, r.length = nt) (pos : Nat) (hpos : pos < mapping.flatten.length) :
    pos / nt < mapping.length ∧ at2 mapping (pos / nt) (pos % nt) = mapping.flatten[pos] := by
  have hlen := length_flatten_of_uniform mapping nt hrows
  have hc : pos < mapping.length * nt := by rw [← hlen]; exact hpos
  have hi : pos / nt < mapping.length := by
    apply Nat.div_lt_of_lt_mul; rw [Nat.mul_comm]; exact hc
  have hk : pos % nt < nt := Nat.mod_lt _ hnt
  obtain ⟨h1, h2⟩ := flatten_getElem_of_uniform mapping nt hrows (pos / nt) (pos % nt) hi hk
  have hcd : pos / nt * nt + pos % nt = pos := by
    rw [Nat.mul_comm]; exact Nat.div_add_mod pos nt
  refine ⟨hi, ?_⟩
  have : mapping.flatten[pos / nt * nt + pos % nt] = mapping.flatten[pos] := by simp only [hcd]
  rw [← this, h2]
  have hk' : pos % nt < (mapping[pos / nt]).length := by
    rw [hrows _ (List.getElem_mem hi)]; exact hk
  simp [at2, List.getD_eq_getElem?_getD, hi, hk']


theorem decodeSub_encodeSub (nt : Nat) (s : List Nat) :
    decodeSub (encodeSub nt s) = (List.range nt).filter (fun c => s.contains c) := by
  unfold decodeSub encodeSub
  rw [List.length_map, List.length_range]
  apply List.filter_congr
  intro c hc
  have hc' : c < nt := List.mem_range.mp hc
  simp only [List.getD_eq_getElem?_getD, List.getElem?_map, List.getElem?_range hc',
    Option.map_some, Option.getD_some]
  cases s.contains c <;> simp


theorem getD_map_of_lt {α β : Type} (f : α → β) (l : List α) (j : Nat) (d : β) (d0 : α)
    (h : j < l.length) : (l.map f).getD j d = f (l.getD j d0) := by
  simp [List.getD_eq_getElem?_getD, h]



/-! ### generic list facts for the npz key scheme -/

theorem filter_map_all {α β : Type} (p : β → Bool) (f : α → β) (l : List α)
    (h : ∀ x, p (f x) = true) : (l.map f).filter p = l.map f := by
  rw [List.filter_eq_self]
  intro y hy
  obtain ⟨x, _, rfl⟩ := List.mem_map.mp hy
  exact h x

theorem filter_map_none {α β : Type} (p : β → Bool) (f : α → β) (l : List α)
    (h : ∀ x, p (f x) = false) : (l.map f).filter p = [] := by
  rw [List.filter_eq_nil_iff]
  intro y hy
  obtain ⟨x, _, rfl⟩ := List.mem_map.mp hy
  simp [h x]

theorem inj_of_nodup_map {α β : Type} (f : α → β) : ∀ {l : List α}, (l.map f).Nodup →
    ∀ {a b : α}, a ∈ l → b ∈ l → f a = f b → a = b
  | [], _, _, _, ha, _, _ => by simp at ha
  | x :: xs, hn, a, b, ha, hb, e => by
    rw [List.map_cons, List.nodup_cons] at hn
    rcases List.mem_cons.mp ha with rfl | ha'
    · rcases List.mem_cons.mp hb with rfl | hb'
      · rfl
      · exact absurd (List.mem_map.mpr ⟨b, hb', e.symm⟩) hn.1
    · rcases List.mem_cons.mp hb with rfl | hb'
      · exact absurd (List.mem_map.mpr ⟨a, ha', e⟩) hn.1
      · exact inj_of_nodup_map f hn.2 ha' hb' e


end Skv.MeshIO
