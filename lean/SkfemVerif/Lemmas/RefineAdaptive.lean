import SkfemVerif.Model.RefineAdaptive
import SkfemVerif.Lemmas.Np
set_option linter.unusedSimpArgs false
namespace Skv.RA

theorem length_step (t2f : List Tri) (m : List Bool) : (step t2f m).length = m.length := by
  simp [step]

theorem get_step (t2f : List Tri) (m : List Bool) (f : Nat) :
    get (step t2f m) f = (get m f || (decide (f < m.length) && (triggered t2f m).contains f)) := by
  unfold get step
  by_cases h : f < m.length
  · simp [List.getD_eq_getElem?_getD, h]
  · simp [List.getD_eq_getElem?_getD, h]

theorem get_cons_zero (x : Bool) (a : List Bool) : get (x :: a) 0 = x := by simp [get]
theorem get_cons_succ (x : Bool) (a : List Bool) (i : Nat) : get (x :: a) (i + 1) = get a i := by
  simp [get]

theorem get_of_ge (m : List Bool) (f : Nat) (h : m.length ≤ f) : get m f = false := by
  simp [get, List.getD_eq_getElem?_getD, List.getElem?_eq_none h]

/-- pointwise implication between mark vectors: counts are ordered, equal counts force equality -/
theorem count_le_of_imp : ∀ (a b : List Bool), a.length = b.length →
    (∀ i, get a i = true → get b i = true) →
    a.count true ≤ b.count true ∧ (a.count true = b.count true → a = b) := by
  intro a
  induction a with
  | nil =>
    intro b hl _
    cases b with
    | nil => simp
    | cons y b' => simp at hl
  | cons x a' ih =>
    intro b hl himp
    cases b with
    | nil => simp at hl
    | cons y b' =>
      have hl' : a'.length = b'.length := by simpa using hl
      have himp' : ∀ i, get a' i = true → get b' i = true := by
        intro i hi
        have := himp (i + 1)
        simpa [get_cons_succ] using this hi
      have h0 := himp 0
      simp only [get_cons_zero] at h0
      obtain ⟨h1, h2⟩ := ih b' hl' himp'
      cases x <;> cases y
      · simp only [List.count_cons]
        simp
        exact ⟨h1, h2⟩
      · simp only [List.count_cons]
        simp
        omega
      · simp at h0
      · simp only [List.count_cons]
        simp
        exact ⟨h1, h2⟩

theorem step_mono (t2f : List Tri) (m : List Bool) (f : Nat) (h : get m f = true) :
    get (step t2f m) f = true := by
  rw [get_step, h]; simp

theorem closure_length (t2f : List Tri) : ∀ fuel m, (closure fuel t2f m).length = m.length := by
  intro fuel
  induction fuel with
  | zero => intro m; rfl
  | succ n ih =>
    intro m
    unfold closure
    split
    · rw [ih, length_step]
    · rw [length_step]

theorem closure_extends (t2f : List Tri) : ∀ fuel m f, get m f = true → get (closure fuel t2f m) f = true := by
  intro fuel
  induction fuel with
  | zero => intro m f h; exact h
  | succ n ih =>
    intro m f h
    unfold closure
    split
    · exact ih _ _ (step_mono t2f m f h)
    · exact step_mono t2f m f h

/-- with enough fuel the loop ends in a fixpoint of the marking rule -/
theorem closure_fix (t2f : List Tri) : ∀ fuel m, m.length < fuel + countTrue m →
    step t2f (closure fuel t2f m) = closure fuel t2f m := by
  intro fuel
  induction fuel with
  | zero =>
    intro m h
    have := List.count_le_length (a := true) (l := m)
    simp [countTrue] at h
    omega
  | succ n ih =>
    intro m h
    unfold closure
    have hc := count_le_of_imp m (step t2f m) (length_step t2f m).symm (fun i hi => step_mono t2f m i hi)
    split
    · rename_i hlt
      apply ih
      rw [length_step]
      omega
    · rename_i hlt
      have heq : m = step t2f m := hc.2 (by simp only [countTrue] at hlt; omega)
      rw [← heq, ← heq]

theorem mem_triggered (t2f : List Tri) (m : List Bool) (f : Nat) :
    f ∈ triggered t2f m ↔ ∃ c ∈ t2f, (get m c.1 = true ∨ get m c.2.1 = true) ∧ c.2.2 = f := by
  simp [triggered]

/-- the rule the loop closes under -/
def Closed (t2f : List Tri) (S : Nat → Prop) : Prop :=
  ∀ c ∈ t2f, (S c.1 ∨ S c.2.1) → S c.2.2

theorem step_sub (t2f : List Tri) (m : List Bool) (S : Nat → Prop) (hS : Closed t2f S)
    (hm : ∀ f, get m f = true → S f) : ∀ f, get (step t2f m) f = true → S f := by
  intro f hf
  rw [get_step] at hf
  simp only [Bool.or_eq_true, Bool.and_eq_true, decide_eq_true_eq, List.contains_iff_mem] at hf
  rcases hf with h | ⟨_, h⟩
  · exact hm f h
  · rw [mem_triggered] at h
    obtain ⟨c, hc, hor, rfl⟩ := h
    exact hS c hc (hor.imp (hm _) (hm _))

theorem closure_sub (t2f : List Tri) (S : Nat → Prop) (hS : Closed t2f S) :
    ∀ fuel m, (∀ f, get m f = true → S f) → ∀ f, get (closure fuel t2f m) f = true → S f := by
  intro fuel
  induction fuel with
  | zero => intro m hm f hf; exact hm f hf
  | succ n ih =>
    intro m hm f hf
    unfold closure at hf
    split at hf
    · exact ih _ (step_sub t2f m S hS hm) f hf
    · exact step_sub t2f m S hS hm f hf

/-- a fixpoint is closed under the rule (for facets inside the mark vector) -/
theorem fix_closed (t2f : List Tri) (r : List Bool) (hfix : step t2f r = r)
    (c : Tri) (hc : c ∈ t2f) (hlt : c.2.2 < r.length)
    (h : get r c.1 = true ∨ get r c.2.1 = true) : get r c.2.2 = true := by
  have := get_step t2f r c.2.2
  rw [hfix] at this
  rw [this]
  have hm : c.2.2 ∈ triggered t2f r := (mem_triggered t2f r c.2.2).2 ⟨c, hc, h, rfl⟩
  simp [hlt, hm]

theorem get_initMarks (t2f : List Tri) (nf : Nat) (marked : List Nat) (f : Nat) :
    get (initMarks t2f nf marked) f = true ↔
      f < nf ∧ ∃ k ∈ marked, ∃ c, t2f[k]? = some c ∧ (f = c.1 ∨ f = c.2.1 ∨ f = c.2.2) := by
  unfold get initMarks
  by_cases h : f < nf
  · simp only [List.getD_eq_getElem?_getD, List.getElem?_map, List.getElem?_range h, Option.map_some,
      Option.getD_some, List.contains_iff_mem, List.mem_flatMap, h, true_and]
    constructor
    · rintro ⟨k, hk, hf⟩
      refine ⟨k, hk, ?_⟩
      cases hq : t2f[k]? with
      | none => simp [hq] at hf
      | some c =>
        refine ⟨c, rfl, ?_⟩
        simpa [hq] using hf
    · rintro ⟨k, hk, c, hq, hf⟩
      refine ⟨k, hk, ?_⟩
      simpa [hq] using hf
  · simp [List.getD_eq_getElem?_getD, h]


/-- the element of rank `r` of a filtered range -/
theorem filter_range_rank (p : Nat → Bool) : ∀ n k, k < n → p k = true →
    ((List.range n).filter p)[((List.range k).filter p).length]? = some k := by
  intro n
  induction n with
  | zero => intro k hk; omega
  | succ n ih =>
    intro k hk hp
    rw [List.range_succ, List.filter_append]
    by_cases hkn : k < n
    · have := ih k hkn hp
      obtain ⟨hlt, _⟩ := List.getElem?_eq_some_iff.1 this
      rw [List.getElem?_append_left hlt]
      exact this
    · have : k = n := by omega
      subst this
      rw [List.getElem?_append_right (by omega)]
      simp [hp]

theorem filter_range_nodup (p : Nat → Bool) (n : Nat) : ((List.range n).filter p).Nodup :=
  List.Nodup.sublist List.filter_sublist List.nodup_range

/-- converse: the rank of the `r`-th element is `r` -/
theorem filter_range_rank_inv (p : Nat → Bool) (n r : Nat) (hr : r < ((List.range n).filter p).length) :
    ((List.range (((List.range n).filter p)[r])).filter p).length = r
      ∧ p (((List.range n).filter p)[r]) = true ∧ ((List.range n).filter p)[r] < n := by
  have hmem : ((List.range n).filter p)[r] ∈ (List.range n).filter p := List.getElem_mem hr
  rw [List.mem_filter, List.mem_range] at hmem
  refine ⟨?_, hmem.2, hmem.1⟩
  have h1 := filter_range_rank p n _ hmem.1 hmem.2
  obtain ⟨hlt, h1'⟩ := List.getElem?_eq_some_iff.1 h1
  exact (List.getElem_inj (filter_range_nodup p n)).1 h1'

theorem getElem?_flatten_block {α : Type} : ∀ (segs : List (List α)) (a b : Nat),
    b < (segs.getD a []).length →
    segs.flatten[((segs.take a).map List.length).sum + b]? = (segs.getD a [])[b]? := by
  intro segs
  induction segs with
  | nil => intro a b hb; simp at hb
  | cons s segs ih =>
    intro a b hb
    cases a with
    | zero =>
      simp only [List.getD_cons_zero] at hb
      simp [List.getElem?_append_left hb]
    | succ a =>
      simp only [List.getD_cons_succ] at hb
      simp only [List.flatten_cons, List.take_succ_cons, List.map_cons, List.sum_cons, List.getD_cons_succ]
      rw [Nat.add_assoc, List.getElem?_append_right (by omega)]
      simp only [Nat.add_sub_cancel_left]
      exact ih a b hb

/-- every position of a flattened list lies in exactly one block -/
theorem exists_block_of_lt_flatten {α : Type} : ∀ (segs : List (List α)) (i : Nat), i < segs.flatten.length →
    ∃ a b, a < segs.length ∧ b < (segs.getD a []).length ∧ i = ((segs.take a).map List.length).sum + b := by
  intro segs
  induction segs with
  | nil => intro i hi; simp at hi
  | cons s segs ih =>
    intro i hi
    rcases Nat.lt_or_ge i s.length with h | h
    · exact ⟨0, i, by simp, by simpa using h, by simp⟩
    · have hi' : i - s.length < segs.flatten.length := by
        simp only [List.flatten_cons, List.length_append] at hi
        omega
      obtain ⟨a, b, ha, hb, hab⟩ := ih (i - s.length) hi'
      refine ⟨a + 1, b, by simp; omega, by simpa using hb, ?_⟩
      simp only [List.take_succ_cons, List.map_cons, List.sum_cons]
      omega


theorem length_block (x : TriInput) (cl : Cls) (j : Nat) : (x.block cl j).length = x.count cl := by
  simp [TriInput.block, TriInput.count]

theorem members_rank (cls : List Cls) (cl : Cls) (k : Nat) (hk : k < cls.length)
    (hcl : cls.getD k .bad = cl) : (members cls cl)[rankIn cls cl k]? = some k := by
  unfold members rankIn
  exact filter_range_rank (fun i => cls.getD i .bad == cl) cls.length k hk (by show (cls.getD k .bad == cl) = true; rw [hcl]; simp)

theorem block_rank (x : TriInput) (cl : Cls) (j k : Nat) (hk : k < x.cls.length)
    (hcl : x.cls.getD k .bad = cl) : (x.block cl j)[rankIn x.cls cl k]? = some (x.child cl j k) := by
  simp [TriInput.block, List.getElem?_map, members_rank x.cls cl k hk hcl]

/-- position of the block (class, child number) in `blocks` -/
def blockPos : Cls → Nat
  | .rest => 0 | .red => 1 | .blue1 => 5 | .blue2 => 8 | .green => 11 | .bad => 13

theorem blocks_getD (x : TriInput) (cl : Cls) (j : Nat) (hcl : cl ≠ .bad) (hj : j < (template cl).length) :
    x.blocks.getD (blockPos cl + j) [] = x.block cl j := by
  cases cl <;> simp [template] at hj <;> simp at hcl
  · subst hj; rfl
  · rcases j with _ | _ | _ | _ | j <;> first | rfl | omega
  · rcases j with _ | _ | _ | j <;> first | rfl | omega
  · rcases j with _ | _ | _ | j <;> first | rfl | omega
  · rcases j with _ | _ | j <;> first | rfl | omega

theorem blocks_prefix (x : TriInput) (cl : Cls) (j : Nat) (hcl : cl ≠ .bad) (hj : j < (template cl).length) :
    ((x.blocks.take (blockPos cl + j)).map List.length).sum = x.offset cl + j * x.count cl := by
  cases cl <;> simp [template] at hj <;> simp at hcl
  · subst hj; simp [blockPos, TriInput.offset]
  · rcases j with _ | _ | _ | _ | j <;>
      first | (simp [blockPos, TriInput.blocks, TriInput.offset, length_block]; try omega) | omega
  · rcases j with _ | _ | _ | j <;>
      first | (simp [blockPos, TriInput.blocks, TriInput.offset, length_block]; try omega) | omega
  · rcases j with _ | _ | _ | j <;>
      first | (simp [blockPos, TriInput.blocks, TriInput.offset, length_block]; try omega) | omega
  · rcases j with _ | _ | j <;>
      first | (simp [blockPos, TriInput.blocks, TriInput.offset, length_block]; try omega) | omega

/-- **`new_t` is right**: child `j` of cell `k` sits at index `childIdx k j` of the new cell array -/
theorem newCells_childIdx (x : TriInput) (k j : Nat) (hk : k < x.cls.length)
    (hcl : x.cls.getD k .bad ≠ .bad) (hj : j < (template (x.cls.getD k .bad)).length) :
    x.newCells[x.childIdx k j]? = some (x.child (x.cls.getD k .bad) j k) := by
  have hb := block_rank x _ j k hk rfl
  obtain ⟨hlt, _⟩ := List.getElem?_eq_some_iff.1 hb
  have := getElem?_flatten_block x.blocks (blockPos (x.cls.getD k .bad) + j) (rankIn x.cls (x.cls.getD k .bad) k)
    (by rw [blocks_getD x _ j hcl hj]; exact hlt)
  rw [blocks_prefix x _ j hcl hj, blocks_getD x _ j hcl hj, hb] at this
  exact this


theorem blockPos_decomp (a : Nat) (ha : a < 13) :
    ∃ cl j, cl ≠ Cls.bad ∧ j < (template cl).length ∧ a = blockPos cl + j := by
  rcases a with _ | _ | _ | _ | _ | _ | _ | _ | _ | _ | _ | _ | _ | a
  · exact ⟨.rest, 0, by decide, by decide, rfl⟩
  · exact ⟨.red, 0, by decide, by decide, rfl⟩
  · exact ⟨.red, 1, by decide, by decide, rfl⟩
  · exact ⟨.red, 2, by decide, by decide, rfl⟩
  · exact ⟨.red, 3, by decide, by decide, rfl⟩
  · exact ⟨.blue1, 0, by decide, by decide, rfl⟩
  · exact ⟨.blue1, 1, by decide, by decide, rfl⟩
  · exact ⟨.blue1, 2, by decide, by decide, rfl⟩
  · exact ⟨.blue2, 0, by decide, by decide, rfl⟩
  · exact ⟨.blue2, 1, by decide, by decide, rfl⟩
  · exact ⟨.blue2, 2, by decide, by decide, rfl⟩
  · exact ⟨.green, 0, by decide, by decide, rfl⟩
  · exact ⟨.green, 1, by decide, by decide, rfl⟩
  · omega

/-- every new cell is child `j` of some old cell `k`, found at `childIdx k j` -/
theorem newCells_parent (x : TriInput) (i : Nat) (hi : i < x.newCells.length) :
    ∃ k j, k < x.cls.length ∧ x.cls.getD k .bad ≠ .bad ∧ j < (template (x.cls.getD k .bad)).length
      ∧ x.childIdx k j = i := by
  obtain ⟨a, b, ha, hb, hab⟩ := exists_block_of_lt_flatten x.blocks i hi
  have ha13 : a < 13 := by simpa [TriInput.blocks] using ha
  obtain ⟨cl, j, hcl, hj, rfl⟩ := blockPos_decomp a ha13
  rw [blocks_getD x cl j hcl hj, length_block] at hb
  rw [blocks_prefix x cl j hcl hj] at hab
  have hb' : b < ((List.range x.cls.length).filter (fun k => x.cls.getD k .bad == cl)).length := hb
  obtain ⟨h1, h2, h3⟩ := filter_range_rank_inv _ _ b hb'
  have hcls : x.cls.getD ((List.range x.cls.length).filter (fun k => x.cls.getD k .bad == cl))[b] .bad = cl := by
    simpa using h2
  refine ⟨_, j, h3, by rw [hcls]; exact hcl, by rw [hcls]; exact hj, ?_⟩
  unfold TriInput.childIdx
  simp only [hcls]
  unfold rankIn
  rw [h1, hab]


/-- old points keep their index -/
theorem newPoints_old {P : Type} (midp : P → P → P) (d : P) (p : List P) (facets : List (Nat × Nat))
    (m : List Bool) (i : Nat) (hi : i < p.length) : (newPoints midp d p facets m)[i]? = p[i]? := by
  unfold newPoints
  rw [List.getElem?_append_left hi]

/-- the vertex created for a marked facet `f` is the midpoint of its end points and sits at
    `midIdx nv m f` -/
theorem newPoints_mid {P : Type} (midp : P → P → P) (d : P) (p : List P) (facets : List (Nat × Nat))
    (m : List Bool) (f : Nat) (hf : f < m.length) (hm : get m f = true) :
    (newPoints midp d p facets m)[midIdx p.length m f]? =
      some (midp (p.getD (facets.getD f (0, 0)).1 d) (p.getD (facets.getD f (0, 0)).2 d)) := by
  unfold newPoints midIdx rank
  rw [List.getElem?_append_right (by omega)]
  simp only [Nat.add_sub_cancel_left, List.getElem?_map]
  rw [filter_range_rank (fun g => get m g) m.length f hf hm]
  rfl

theorem length_filter_get : ∀ (m : List Bool),
    ((List.range m.length).filter (fun f => get m f)).length = m.count true := by
  intro m
  induction m with
  | nil => simp
  | cons x m ih =>
    rw [List.length_cons, List.range_succ_eq_map, List.filter_cons, List.filter_map]
    have h : ((fun f => get (x :: m) f) ∘ Nat.succ) = (fun f => get m f) := by
      funext f
      simp [get]
    rw [h]
    cases x <;> simp [get_cons_zero, ih]

theorem length_newPoints {P : Type} (midp : P → P → P) (d : P) (p : List P) (facets : List (Nat × Nat))
    (m : List Bool) : (newPoints midp d p facets m).length = p.length + countTrue m := by
  unfold newPoints countTrue
  simp only [List.length_append, List.length_map]
  rw [length_filter_get]

/-- different marked facets get different new vertices, all beyond the old ones -/
theorem midIdx_inj (nv : Nat) (m : List Bool) (f g : Nat) (hf : f < m.length) (hg : g < m.length)
    (hmf : get m f = true) (hmg : get m g = true) (h : midIdx nv m f = midIdx nv m g) : f = g := by
  unfold midIdx rank at h
  have h1 := filter_range_rank (fun g => get m g) m.length f hf hmf
  have h2 := filter_range_rank (fun g => get m g) m.length g hg hmg
  have : ((List.range f).filter (fun g => get m g)).length = ((List.range g).filter (fun g => get m g)).length := by
    omega
  rw [this] at h1
  rw [h1] at h2
  exact Option.some.inj h2

theorem midIdx_ge (nv : Nat) (m : List Bool) (f : Nat) : nv ≤ midIdx nv m f := by
  unfold midIdx; omega

/-! ### classes -/

theorem classify_ne_bad (b0 b1 b2 : Bool) (h : (b0 = true ∨ b1 = true) → b2 = true) :
    classify b0 b1 b2 ≠ .bad := by
  cases b0 <;> cases b1 <;> cases b2 <;> simp [classify] at h ⊢

theorem classify_bad (b0 b1 b2 : Bool) :
    classify b0 b1 b2 = .bad ↔ ((b0 = true ∨ b1 = true) ∧ b2 = false) := by
  cases b0 <;> cases b1 <;> cases b2 <;> simp [classify]

theorem classify_red (b0 b1 b2 : Bool) :
    classify b0 b1 b2 = .red ↔ (b0 = true ∧ b1 = true ∧ b2 = true) := by
  cases b0 <;> cases b1 <;> cases b2 <;> simp [classify]

theorem classify_rest (b0 b1 b2 : Bool) :
    classify b0 b1 b2 = .rest ↔ (b0 = false ∧ b1 = false ∧ b2 = false) := by
  cases b0 <;> cases b1 <;> cases b2 <;> simp [classify]

/-! ### sorting -/

theorem sortTri_perm {α : Type} [LT α] [DecidableLT α] (q01 q12 q02 : α) (c : Tri) :
    [(sortTri q01 q12 q02 c).1, (sortTri q01 q12 q02 c).2.1, (sortTri q01 q12 q02 c).2.2].Perm
      [c.1, c.2.1, c.2.2] := by
  unfold sortTri
  split
  · exact List.Perm.cons _ (List.Perm.swap _ _ _)
  · split
    · exact List.Perm.swap _ _ _
    · exact List.Perm.refl _


theorem length_lineCells (mid0 : Nat) (t : List Seg) (marked : List Nat) :
    (lineCells mid0 t marked).length = (nonmarked t.length marked).length + 2 * marked.length := by
  simp [lineCells]; omega

/-- an unmarked cell is copied to the position given by its rank among the unmarked cells -/
theorem lineCells_unmarked (mid0 : Nat) (t : List Seg) (marked : List Nat) (k : Nat) (hk : k < t.length)
    (hm : k ∉ marked) :
    (lineCells mid0 t marked)[((List.range k).filter (fun i => !marked.contains i)).length]?
      = some (t.getD k (0, 0)) := by
  have h := filter_range_rank (fun i => !marked.contains i) t.length k hk (by simpa using hm)
  obtain ⟨hlt, _⟩ := List.getElem?_eq_some_iff.1 h
  unfold lineCells nonmarked
  rw [List.append_assoc, List.getElem?_append_left (by simpa using hlt)]
  rw [List.getElem?_map, h]
  rfl

/-- first and second half of the `i`-th marked cell -/
theorem lineCells_marked (mid0 : Nat) (t : List Seg) (marked : List Nat) (i : Nat) (hi : i < marked.length) :
    (lineCells mid0 t marked)[(nonmarked t.length marked).length + i]?
        = some ((t.getD marked[i] (0, 0)).1, mid0 + i)
    ∧ (lineCells mid0 t marked)[(nonmarked t.length marked).length + marked.length + i]?
        = some (mid0 + i, (t.getD marked[i] (0, 0)).2) := by
  unfold lineCells
  generalize hA : (nonmarked t.length marked).map (fun k => t.getD k (0, 0)) = A
  have hlenA : A.length = (nonmarked t.length marked).length := by rw [← hA]; simp
  rw [← hlenA]
  constructor
  · rw [List.append_assoc, List.getElem?_append_right (by omega),
      List.getElem?_append_left (by simp; omega)]
    rw [Nat.add_sub_cancel_left, List.getElem?_map, List.getElem?_zipIdx, List.getElem?_eq_getElem hi]
    simp
  · have hAB : (A ++ marked.zipIdx.map (fun q => ((t.getD q.1 (0, 0)).1, mid0 + q.2))).length
        = A.length + marked.length := by simp
    rw [List.getElem?_append_right (by rw [hAB]; omega), hAB]
    have : A.length + marked.length + i - (A.length + marked.length) = i := by omega
    rw [this, List.getElem?_map, List.getElem?_zipIdx, List.getElem?_eq_getElem hi]
    simp

theorem linePoints_old (p : List Rat) (t : List Seg) (marked : List Nat) (i : Nat) (hi : i < p.length) :
    (linePoints p t marked)[i]? = p[i]? := by
  unfold linePoints
  rw [List.getElem?_append_left hi]

theorem linePoints_mid (p : List Rat) (t : List Seg) (marked : List Nat) (i : Nat) (hi : i < marked.length) :
    (linePoints p t marked)[p.length + i]?
      = some ((p.getD (t.getD marked[i] (0, 0)).1 0 + p.getD (t.getD marked[i] (0, 0)).2 0) / 2) := by
  unfold linePoints
  rw [List.getElem?_append_right (by omega)]
  simp [List.getElem?_map, hi]

theorem lineChildIdxs_marked (nt : Nat) (marked : List Nat) (hnd : marked.Nodup) (i : Nat) (hi : i < marked.length) :
    lineChildIdxs nt marked marked[i]
      = [(nonmarked nt marked).length + i, (nonmarked nt marked).length + marked.length + i] := by
  unfold lineChildIdxs
  have hmem : marked[i] ∈ marked := List.getElem_mem hi
  have hidx : marked.idxOf marked[i] = i := List.Nodup.idxOf_getElem hnd i hi
  simp [hmem, hidx]

theorem lineChildIdxs_unmarked (nt : Nat) (marked : List Nat) (k : Nat) (hm : k ∉ marked) :
    lineChildIdxs nt marked k = [((List.range k).filter (fun i => !marked.contains i)).length] := by
  unfold lineChildIdxs
  simp [hm]


/-! ### the trace of a template on a side of the parent -/

/-- end point, midpoint, end point of the side in slot `s` of `t2f` -/
def sideRV : Nat → RV × RV × RV
  | 0 => (.v0, .m0, .v1)
  | 1 => (.v1, .m1, .v2)
  | _ => (.v0, .m2, .v2)

/-- is the facet in slot `s` marked in a cell of class `cl`? -/
def sideMarked : Cls → Nat → Bool
  | .red, _ => true
  | .blue1, s => s == 1 || s == 2
  | .blue2, s => s == 0 || s == 2
  | .green, s => s == 2
  | _, _ => false

def onSide (s : Nat) (x : RV) : Bool :=
  x == (sideRV s).1 || x == (sideRV s).2.1 || x == (sideRV s).2.2

def childEdges (T : RV × RV × RV) : List (RV × RV) := [(T.1, T.2.1), (T.2.1, T.2.2), (T.2.2, T.1)]

/-- the child edges lying on side `s` (the only symbolic points on the line through the side are its
    end points and its midpoint) -/
def trace (cl : Cls) (s : Nat) : List (RV × RV) :=
  ((template cl).flatMap childEdges).filter (fun e => onSide s e.1 && onSide s e.2)

def sameEdge (e e' : RV × RV) : Bool := e == e' || e == (e'.2, e'.1)

/-- the trace is the whole side if its facet is not marked and its two halves if it is -/
def traceOK (cl : Cls) (s : Nat) : Bool :=
  let a := (sideRV s).1
  let m := (sideRV s).2.1
  let b := (sideRV s).2.2
  if sideMarked cl s then
    (trace cl s).length == 2 && (trace cl s).any (sameEdge (a, m)) && (trace cl s).any (sameEdge (m, b))
  else (trace cl s).length == 1 && (trace cl s).any (sameEdge (a, b))

theorem traceOK_all : ∀ cl ∈ [Cls.rest, .red, .blue1, .blue2, .green], ∀ s ∈ [0, 1, 2], traceOK cl s = true := by
  decide

theorem sideMarked_classify (b0 b1 b2 : Bool) (h : classify b0 b1 b2 ≠ .bad) :
    sideMarked (classify b0 b1 b2) 0 = b0 ∧ sideMarked (classify b0 b1 b2) 1 = b1
      ∧ sideMarked (classify b0 b1 b2) 2 = b2 := by
  cases b0 <;> cases b1 <;> cases b2 <;> simp [classify, sideMarked] at h ⊢

/-- facet number in slot `s` -/
def slot (f : Tri) : Nat → Nat
  | 0 => f.1
  | 1 => f.2.1
  | _ => f.2.2

theorem resolve_mid (nv : Nat) (m : List Bool) (c f : Tri) (s : Nat) :
    resolve nv m c f (sideRV s).2.1 = midIdx nv m (slot f s) := by
  rcases s with _ | _ | _ | s <;> rfl

theorem sideMarked_clsOf (m : List Bool) (f : Tri) (s : Nat) (hs : s < 3) (h : clsOf m f ≠ .bad) :
    sideMarked (clsOf m f) s = get m (slot f s) := by
  obtain ⟨h0, h1, h2⟩ := sideMarked_classify _ _ _ h
  rcases s with _ | _ | _ | s
  · exact h0
  · exact h1
  · exact h2
  · omega

end Skv.RA
