import SkfemVerif.Model.Integration
import SkfemVerif.Model.Poly
import SkfemVerif.Lemmas.Quadrature
import Mathlib.Algebra.MvPolynomial.Degrees
import Mathlib.Algebra.MvPolynomial.Monad
import Mathlib.Algebra.BigOperators.Group.Finset.Basic
import Mathlib.Algebra.Order.Field.Rat
import Mathlib.Tactic.Ring
import Mathlib.Tactic.Linarith
/-
Helper lemmas about the E-int model (Model/Integration.lean) and the degree bookkeeping of the
term-list polynomials (Model/Poly.lean) used by Props/C02.lean.
-/
namespace Skv

/-! ### `cellDx` -/

theorem cellDx_getD (absdet W : List ℚ) (k q : Nat) (hk : k < absdet.length) (hq : q < W.length) :
    ((cellDx absdet W).getD k []).getD q 0 = absdet.getD k 0 * W.getD q 0 := by
  unfold cellDx
  simp [List.getD_eq_getElem?_getD, List.getElem?_eq_getElem hk, List.getElem?_eq_getElem hq]

/-! ### scaling an error estimate by a nonnegative factor -/

theorem scaled_abs_le {x y ε D : ℚ} (hD : 0 ≤ D) (h : |x - y| ≤ ε) :
    |D * x - D * y| ≤ D * ε := by
  rw [← mul_sub, abs_mul, abs_of_nonneg hD]
  exact mul_le_mul_of_nonneg_left h hD

/-! ### weights of a scaled-integer rule -/

theorem sum_weights_cast (SW : Nat) : ∀ (pts : List (List Int × Int)),
    (pts.map (fun p => (p.2 : ℚ) / 2 ^ SW)).sum = (((pts.map (·.2)).sum : Int) : ℚ) / 2 ^ SW
  | [] => by simp
  | p :: pts => by
    simp only [List.map_cons, List.sum_cons, sum_weights_cast SW pts]
    push_cast
    rw [add_div]

theorem weightsOk_sound (r : IRule) (num den tol : Nat) (hden : 0 < den)
    (h : weightsOk r (num, den) tol = true) :
    |(r.pts.map (fun p => (p.2 : ℚ) / 2 ^ r.SW)).sum - (num : ℚ) / (den : ℚ)| ≤ 1 / 2 ^ tol := by
  rw [sum_weights_cast]
  unfold weightsOk at h
  exact C08.abs_sub_le_of_int _ _ _ _ _ hden (of_decide_eq_true h)

/-! ### affine substitution does not raise the total degree -/

theorem totalDegree_bind₁_le_of_affine {σ τ : Type} (p : MvPolynomial σ ℚ)
    (g : σ → MvPolynomial τ ℚ) (hg : ∀ i, (g i).totalDegree ≤ 1) :
    (MvPolynomial.bind₁ g p).totalDegree ≤ p.totalDegree := by
  rw [← MvPolynomial.aeval_eq_bind₁, MvPolynomial.aeval_def, MvPolynomial.eval₂_eq]
  refine MvPolynomial.totalDegree_finsetSum_le (fun s hs => ?_)
  refine le_trans (MvPolynomial.totalDegree_mul _ _) ?_
  have h1 : ((algebraMap ℚ (MvPolynomial τ ℚ)) (MvPolynomial.coeff s p)).totalDegree = 0 :=
    MvPolynomial.totalDegree_C _
  rw [h1, zero_add]
  refine le_trans (MvPolynomial.totalDegree_finsetProd _ _) ?_
  refine le_trans ?_ (MvPolynomial.le_totalDegree hs)
  unfold Finsupp.sum
  refine Finset.sum_le_sum (fun i _ => ?_)
  refine le_trans (MvPolynomial.totalDegree_pow _ _) ?_
  calc s i * (g i).totalDegree ≤ s i * 1 := Nat.mul_le_mul_left _ (hg i)
    _ = s i := Nat.mul_one _

/-! ### degrees of term-list polynomials -/

theorem sum_zipWith_add_le : ∀ (a b : List Nat), (List.zipWith (· + ·) a b).sum ≤ a.sum + b.sum
  | [], _ => by simp
  | _ :: _, [] => by simp
  | x :: a, y :: b => by
    have ih := sum_zipWith_add_le a b
    simp only [List.zipWith_cons_cons, List.sum_cons]
    omega

theorem sum_zipWith_add : ∀ (a b : List Nat), a.length = b.length →
    (List.zipWith (· + ·) a b).sum = a.sum + b.sum
  | [], [], _ => by simp
  | [], _ :: _, h => by simp at h
  | _ :: _, [], h => by simp at h
  | x :: a, y :: b, h => by
    have ih := sum_zipWith_add a b (by simpa using h)
    simp only [List.zipWith_cons_cons, List.sum_cons]
    omega

theorem degLe_iff (p : Poly) (n : Nat) :
    Poly.degLe p n = true ↔ ∀ t ∈ p, t.1 = 0 ∨ t.2.sum ≤ n := by
  unfold Poly.degLe
  simp only [List.all_eq_true, Bool.or_eq_true, beq_iff_eq, decide_eq_true_eq]

theorem degLe_mul (p q : Poly) (n m : Nat) (hp : Poly.degLe p n = true)
    (hq : Poly.degLe q m = true) : Poly.degLe (Poly.mul p q) (n + m) = true := by
  rw [degLe_iff] at hp hq ⊢
  intro u hu
  unfold Poly.mul at hu
  simp only [List.mem_flatMap, List.mem_map] at hu
  obtain ⟨s, hs, t, ht, rfl⟩ := hu
  rcases hp s hs with h1 | h1
  · left; simp [h1]
  rcases hq t ht with h2 | h2
  · left; simp [h2]
  right
  have := sum_zipWith_add_le s.2 t.2
  show (List.zipWith (· + ·) s.2 t.2).sum ≤ n + m
  omega

theorem checkDeg_getD (vals : List Poly) (n : Nat) (h : checkDeg vals n = true) (i : Nat)
    (hi : i < vals.length) : Poly.degLe (vals.getD i []) n = true := by
  unfold checkDeg at h
  rw [List.all_eq_true] at h
  apply h
  rw [List.getD_eq_getElem?_getD, List.getElem?_eq_getElem hi]
  exact List.getElem_mem hi

end Skv
