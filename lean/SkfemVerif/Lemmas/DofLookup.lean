import SkfemVerif.Model.DofLookup
import SkfemVerif.Lemmas.Np
import SkfemVerif.Lemmas.Dofs
/-
Helper lemmas for C07 (DOF lookups).  Core Lean only.
-/
namespace Skv

/-! ### strictly ascending lists are determined by their members -/

theorem sorted_ext_nat : ∀ (a b : List Nat), a.Pairwise (· < ·) → b.Pairwise (· < ·) →
    (∀ x, x ∈ a ↔ x ∈ b) → a = b
  | [], [], _, _, _ => rfl
  | [], y :: ys, _, _, h => by
    have := (h y).mpr (by simp)
    simp at this
  | x :: xs, [], _, _, h => by
    have := (h x).mp (by simp)
    simp at this
  | x :: xs, y :: ys, ha, hb, h => by
    rw [List.pairwise_cons] at ha hb
    have hxy : x = y := by
      have h1 : x ∈ y :: ys := (h x).mp (by simp)
      have h2 : y ∈ x :: xs := (h y).mpr (by simp)
      rcases List.mem_cons.mp h1 with e | h1
      · exact e
      · rcases List.mem_cons.mp h2 with e | h2
        · exact e.symm
        · have := hb.1 x h1
          have := ha.1 y h2
          omega
    subst hxy
    have : xs = ys := by
      apply sorted_ext_nat xs ys ha.2 hb.2
      intro z
      constructor
      · intro hz
        have h1 : z ∈ x :: ys := (h z).mp (by simp [hz])
        rcases List.mem_cons.mp h1 with e | h1
        · subst e; exact absurd (ha.1 z hz) (Nat.lt_irrefl _)
        · exact h1
      · intro hz
        have h1 : z ∈ x :: xs := (h z).mpr (by simp [hz])
        rcases List.mem_cons.mp h1 with e | h1
        · subst e; exact absurd (hb.1 z hz) (Nat.lt_irrefl _)
        · exact h1
    rw [this]

/-- `np.unique` depends on the set of values only -/
theorem unique_congr_dof {a b : List Nat} (h : ∀ x, x ∈ a ↔ x ∈ b) : unique a = unique b := by
  apply sorted_ext_nat _ _ (pairwise_unique a) (pairwise_unique b)
  intro x
  rw [mem_unique, mem_unique]
  exact h x

/-- `np.unique` of a strictly ascending list is the list -/
theorem unique_of_sorted_dof {a : List Nat} (h : a.Pairwise (· < ·)) : unique a = a := by
  apply sorted_ext_nat _ _ (pairwise_unique a) h
  intro x
  exact mem_unique

/-! ### selections -/

theorem mem_selectDofs {table : List (List Nat)} {rows ix : List Nat} {x : Nat} :
    x ∈ selectDofs table rows ix ↔ ∃ r ∈ rows, ∃ e ∈ ix, (table.getD r []).getD e 0 = x := by
  simp only [selectDofs, List.mem_flatMap, List.mem_map]

theorem mem_gatherUnique {table : List (List Nat)} {ix : List Nat} {v : Nat} :
    v ∈ gatherUnique table ix ↔ ∃ row ∈ table, ∃ f ∈ ix, row.getD f 0 = v := by
  simp only [gatherUnique, mem_unique, List.mem_flatMap, List.mem_map]

theorem gatherUnique_congr {table : List (List Nat)} {a b : List Nat}
    (h : ∀ x, x ∈ a ↔ x ∈ b) : gatherUnique table a = gatherUnique table b := by
  unfold gatherUnique
  apply unique_congr_dof
  intro v
  simp only [List.mem_flatMap, List.mem_map]
  constructor
  · rintro ⟨row, hrow, f, hf, rfl⟩; exact ⟨row, hrow, f, (h f).mp hf, rfl⟩
  · rintro ⟨row, hrow, f, hf, rfl⟩; exact ⟨row, hrow, f, (h f).mpr hf, rfl⟩

theorem selectDofs_mem_congr {table : List (List Nat)} {rows a b : List Nat}
    (h : ∀ x, x ∈ a ↔ x ∈ b) (x : Nat) :
    x ∈ selectDofs table rows a ↔ x ∈ selectDofs table rows b := by
  rw [mem_selectDofs, mem_selectDofs]
  constructor
  · rintro ⟨r, hr, e, he, rfl⟩; exact ⟨r, hr, e, (h e).mp he, rfl⟩
  · rintro ⟨r, hr, e, he, rfl⟩; exact ⟨r, hr, e, (h e).mpr he, rfl⟩

theorem expandFacets_fst (facets f2e : List (List Nat)) (ix : List Nat) (we : Bool) :
    (expandFacets facets f2e ix we).1 = gatherUnique facets ix := rfl

theorem expandFacets_snd (facets f2e : List (List Nat)) (ix : List Nat) (we : Bool) :
    (expandFacets facets f2e ix we).2 = if we then gatherUnique f2e ix else [] := rfl

/-! ### row filters -/

theorem mem_rowsByName {dofnames names : List String} {skip : Bool} {n off r : Nat} :
    r ∈ rowsByName dofnames names skip n off ↔
      r < n ∧ (names.contains (dofnames.getD (r + off) "") = !skip) := by
  simp only [rowsByName, List.mem_filter, List.mem_range]
  cases skip <;> simp

theorem pairwise_filter_range (n : Nat) (p : Nat → Bool) :
    ((List.range n).filter p).Pairwise (· < ·) :=
  List.Pairwise.filter p List.pairwise_lt_range

theorem pairwise_rowsByName (dofnames names : List String) (skip : Bool) (n off : Nat) :
    (rowsByName dofnames names skip n off).Pairwise (· < ·) :=
  pairwise_filter_range n _

theorem mem_interRows {a b : List Nat} {x : Nat} : x ∈ interRows a b ↔ x ∈ a ∧ x ∈ b := by
  simp [interRows]

theorem pairwise_interRows {a : List Nat} (b : List Nat) (h : a.Pairwise (· < ·)) :
    (interRows a b).Pairwise (· < ·) :=
  List.Pairwise.filter _ h

/-! ### heights of the tables -/

theorem length_dofTable (count n off : Nat) : (dofTable count n off).length = count := by
  simp [dofTable]

theorem nRowsNodal_eq (c : DofCounts) (tp : Topo) : nRowsNodal c tp = c.nodal := by
  simp [nRowsNodal, nodalDofs, length_dofTable]

theorem nRowsFacet_eq (c : DofCounts) (tp : Topo) : nRowsFacet c tp = c.facet := by
  unfold nRowsFacet facetDofs useFacets
  by_cases h : c.facet > 0
  · simp [h, length_dofTable]
  · have : c.facet = 0 := by omega
    simp [this]

theorem nRowsEdge_eq (c : DofCounts) (tp : Topo) :
    nRowsEdge c tp = if useEdges c tp then c.edge else 0 := by
  unfold nRowsEdge edgeDofs
  by_cases h : useEdges c tp = true
  · simp [h, length_dofTable]
  · simp [h]

theorem nRowsInterior_eq (c : DofCounts) (tp : Topo) : nRowsInterior c tp = c.interior := by
  simp [nRowsInterior, interiorDofs, length_dofTable]

/-! ### membership in the flattened view -/

theorem mem_flatten_view {c : DofCounts} {tp : Topo} {v : View} {x : Nat} :
    x ∈ v.flatten c tp ↔
      x ∈ selectDofs (nodalDofs c tp) v.nodalRows v.nodalIx
      ∨ x ∈ selectDofs (facetDofs c tp) v.facetRows v.facetIx
      ∨ x ∈ selectDofs (edgeDofs c tp) v.edgeRows v.edgeIx
      ∨ x ∈ selectDofs (interiorDofs c tp) v.interiorRows v.interiorIx := by
  simp only [View.flatten, mem_unique, List.mem_append]
  simp only [or_assoc]

/-- two views with the same rows and the same index SETS flatten to the same array -/
theorem flatten_congr {c : DofCounts} {tp : Topo} {v w : View}
    (hr : v.nodalRows = w.nodalRows ∧ v.facetRows = w.facetRows ∧ v.edgeRows = w.edgeRows
      ∧ v.interiorRows = w.interiorRows)
    (hn : ∀ x, x ∈ v.nodalIx ↔ x ∈ w.nodalIx) (hf : ∀ x, x ∈ v.facetIx ↔ x ∈ w.facetIx)
    (he : ∀ x, x ∈ v.edgeIx ↔ x ∈ w.edgeIx) (hi : ∀ x, x ∈ v.interiorIx ↔ x ∈ w.interiorIx) :
    v.flatten c tp = w.flatten c tp := by
  unfold View.flatten
  apply unique_congr_dof
  intro x
  obtain ⟨h1, h2, h3, h4⟩ := hr
  simp only [List.mem_append]
  rw [h1, h2, h3, h4, selectDofs_mem_congr hn, selectDofs_mem_congr hf, selectDofs_mem_congr he,
    selectDofs_mem_congr hi]

/-- selection from a `dofTable` in terms of `dofNumber` (rows and entities in range) -/
theorem mem_selectDofs_table {count n off : Nat} {rows ix : List Nat} {x : Nat}
    (hrows : ∀ r ∈ rows, r < count) (hix : ∀ e ∈ ix, e < n) :
    x ∈ selectDofs (dofTable count n off) rows ix ↔
      ∃ r ∈ rows, ∃ e ∈ ix, dofNumber count off r e = x := by
  rw [mem_selectDofs]
  constructor
  · rintro ⟨r, hr, e, he, h⟩
    rw [dofTable_getD count n off r e (hrows r hr) (hix e he)] at h
    exact ⟨r, hr, e, he, h⟩
  · rintro ⟨r, hr, e, he, h⟩
    refine ⟨r, hr, e, he, ?_⟩
    rw [dofTable_getD count n off r e (hrows r hr) (hix e he)]
    exact h

theorem selectDofs_nil_table (rows ix : List Nat) (x : Nat) (hrows : rows = []) :
    x ∉ selectDofs ([] : List (List Nat)) rows ix := by
  subst hrows
  simp [selectDofs]

theorem selectDofs_nil_ix (table : List (List Nat)) (rows : List Nat) :
    selectDofs table rows [] = [] := by
  simp [selectDofs]

/-! ### first occurrences -/

theorem mem_firstOccs {l : List String} {x : String} : x ∈ firstOccs l ↔ x ∈ l := by
  induction l with
  | nil => simp [firstOccs]
  | cons a as ih =>
    simp only [firstOccs, List.mem_cons, List.mem_filter, ih, bne_iff_ne, ne_eq]
    by_cases h : x = a
    · simp [h]
    · simp [h]

theorem nodup_firstOccs (l : List String) : (firstOccs l).Nodup := by
  induction l with
  | nil => simp [firstOccs]
  | cons a as ih =>
    simp only [firstOccs, List.nodup_cons, List.mem_filter, bne_self_eq_false, Bool.false_eq_true,
      and_false, not_false_eq_true, true_and]
    exact List.Pairwise.filter _ ih

/-! ### complement -/

theorem mem_complementRange_dof {n : Nat} {D : List Nat} {x : Nat} :
    x ∈ complementRange n D ↔ x < n ∧ x ∉ D := by
  simp [complementRange]

/-! ### selector normalisation -/

theorem mem_nonzero {tt : List Bool} {i : Nat} :
    i ∈ nonzero tt ↔ i < tt.length ∧ tt.getD i false = true := by
  simp [nonzero]

theorem pairwise_nonzero (tt : List Bool) : (nonzero tt).Pairwise (· < ·) :=
  pairwise_filter_range _ _

/-- the concatenation computed by `normalizeAll` contains exactly the members of the members -/
theorem mem_normalizeAll (k : SelKind) (tags : List (String × List Nat)) (bnd : List Nat) (n : Nat) :
    ∀ (ss : List Sel) (l : List Nat), normalizeAll k tags bnd n ss = some l →
      ∀ x, x ∈ l ↔ ∃ s ∈ ss, ∃ ls, normalize k tags bnd n s = some ls ∧ x ∈ ls
  | [], l, h, x => by
    simp only [normalizeAll, Option.some.injEq] at h
    subst h
    simp
  | s :: ss, l, h, x => by
    simp only [normalizeAll] at h
    cases hs : normalize k tags bnd n s with
    | none => simp [hs] at h
    | some a =>
      cases hss : normalizeAll k tags bnd n ss with
      | none => simp [hs, hss] at h
      | some b =>
        simp only [hs, hss, Option.some.injEq] at h
        subst h
        have ih := mem_normalizeAll k tags bnd n ss b hss x
        simp only [List.mem_append, List.mem_cons, exists_eq_or_imp]
        rw [ih]
        constructor
        · rintro (hx | hx)
          · exact Or.inl ⟨a, hs, hx⟩
          · exact Or.inr hx
        · rintro (⟨ls, hls, hx⟩ | hx)
          · rw [hs] at hls
            cases hls
            exact Or.inl hx
          · exact Or.inr hx

/-- every member of a collection that normalises is itself normalisable -/
theorem normalizeAll_some_of (k : SelKind) (tags : List (String × List Nat)) (bnd : List Nat)
    (n : Nat) : ∀ (ss : List Sel) (l : List Nat), normalizeAll k tags bnd n ss = some l →
      ∀ s ∈ ss, ∃ ls, normalize k tags bnd n s = some ls
  | [], _, _, s, hs => by simp at hs
  | s0 :: ss, l, h, s, hs => by
    simp only [normalizeAll] at h
    cases h0 : normalize k tags bnd n s0 with
    | none => simp [h0] at h
    | some a =>
      cases hss : normalizeAll k tags bnd n ss with
      | none => simp [h0, hss] at h
      | some b =>
        rcases List.mem_cons.mp hs with e | hs
        · subst e; exact ⟨a, h0⟩
        · exact normalizeAll_some_of k tags bnd n ss b hss s hs

/-! ### name lists -/

theorem length_kindNamesFrom (sel : ElemNames → List String) :
    ∀ (i0 : Nat) (cs : List ElemNames),
      (kindNamesFrom sel i0 cs).length = (cs.map (fun e => (sel e).length)).sum
  | _, [] => by simp [kindNamesFrom]
  | i0, e :: es => by
    simp [kindNamesFrom, length_kindNamesFrom sel (i0 + 1) es]

/-- **block structure**: the rows of one kind of a composite element are the rows of the
    components one component after the other; row `j` of component number `i` sits at position
    (rows of that kind of the components before `i`) + `j` and is called `name^(i+1)` -/
theorem kindNamesFrom_getD (sel : ElemNames → List String) :
    ∀ (i0 : Nat) (cs : List ElemNames) (i j : Nat) (hi : i < cs.length)
      (_ : j < (sel cs[i]).length),
      (kindNamesFrom sel i0 cs).getD (((cs.take i).map (fun e => (sel e).length)).sum + j) ""
        = suffixName (i0 + i) ((sel cs[i]).getD j "")
  | _, [], i, _, hi, _ => by simp at hi
  | i0, e :: es, 0, j, _, hj => by
    simp only [List.getElem_cons_zero] at hj
    simp only [kindNamesFrom, List.take_zero, List.map_nil, List.sum_nil, Nat.zero_add,
      List.getElem_cons_zero, Nat.add_zero]
    rw [List.getD_eq_getElem?_getD, List.getElem?_append_left (by simpa using hj)]
    simp [List.getD_eq_getElem?_getD, hj]
  | i0, e :: es, i + 1, j, hi, hj => by
    simp only [List.getElem_cons_succ] at hj
    have hi' : i < es.length := by simpa using hi
    have ih := kindNamesFrom_getD sel (i0 + 1) es i j hi' hj
    simp only [kindNamesFrom, List.take_succ_cons, List.map_cons, List.sum_cons,
      List.getElem_cons_succ]
    rw [List.getD_eq_getElem?_getD, List.getElem?_append_right (by simp; omega)]
    have e1 : (sel e).length + ((es.take i).map (fun e => (sel e).length)).sum + j
        - ((sel e).map (suffixName i0)).length
        = ((es.take i).map (fun e => (sel e).length)).sum + j := by
      simp; omega
    rw [e1, ← List.getD_eq_getElem?_getD, ih]
    congr 1
    omega


/-! ### list arithmetic for the name lists -/

theorem getD_take_drop (l : List String) (m k j : Nat) (hj : j < k) :
    ((l.drop m).take k).getD j "" = l.getD (j + m) "" := by
  simp [List.getD_eq_getElem?_getD, hj, List.getElem?_drop, Nat.add_comm]

theorem getD_append_block (A B C : List String) (r : Nat) (hr : r < B.length) :
    (A ++ B ++ C).getD (r + A.length) "" = B.getD r "" := by
  rw [List.getD_eq_getElem?_getD, List.append_assoc, List.getElem?_append_right (by omega)]
  simp [List.getElem?_append_left hr, List.getD_eq_getElem?_getD]

theorem sum_take_add_lt (f : ElemNames → Nat) :
    ∀ (cs : List ElemNames) (i j : Nat) (hi : i < cs.length), j < f cs[i] →
      ((cs.take i).map f).sum + j < (cs.map f).sum
  | [], i, _, hi, _ => by simp at hi
  | e :: es, 0, j, _, hj => by
    simp only [List.getElem_cons_zero] at hj
    simp only [List.take_zero, List.map_nil, List.sum_nil, List.map_cons, List.sum_cons]
    omega
  | e :: es, i + 1, j, hi, hj => by
    simp only [List.getElem_cons_succ] at hj
    have := sum_take_add_lt f es i j (by simpa using hi) hj
    simp only [List.take_succ_cons, List.map_cons, List.sum_cons]
    omega

theorem sum_map_congr_dof (f g : ElemNames → Nat) :
    ∀ (cs : List ElemNames), (∀ e ∈ cs, f e = g e) → (cs.map f).sum = (cs.map g).sum
  | [], _ => rfl
  | e :: es, h => by
    simp only [List.map_cons, List.sum_cons]
    rw [h e (by simp), sum_map_congr_dof f g es (fun e' he' => h e' (by simp [he']))]

theorem length_replicateNames (k : Nat) (l : List String) :
    (replicateNames k l).length = k * l.length := by
  unfold replicateNames
  rw [length_flatten_of_uniform _ l.length]
  · simp
  · intro r hr
    rw [List.eq_of_mem_replicate hr]

theorem replicateNames_getD (k : Nat) (l : List String) (i a : Nat) (hi : i < k)
    (ha : a < l.length) : (replicateNames k l).getD (i * l.length + a) "" = l.getD a "" := by
  unfold replicateNames
  have hrows : ∀ r ∈ List.replicate k l, r.length = l.length := by
    intro r hr
    rw [List.eq_of_mem_replicate hr]
  obtain ⟨h1, h2⟩ := flatten_getElem_of_uniform (List.replicate k l) l.length hrows i a
    (by simpa using hi) ha
  rw [List.getD_eq_getElem?_getD, List.getElem?_eq_getElem h1, h2]
  simp [List.getD_eq_getElem?_getD, ha]

theorem vectorNames_getD (dim : Nat) (names : List String) (r j : Nat) (hr : r < names.length)
    (hj : j < dim) :
    (vectorNames dim names).getD (r * dim + j) "" = suffixName j (names.getD r "") := by
  have e : vectorNames dim names
      = (names.map (fun nm => (List.range dim).map (fun j => suffixName j nm))).flatten := by
    simp [vectorNames, List.flatMap]
  have hrows : ∀ row ∈ names.map (fun nm => (List.range dim).map (fun j => suffixName j nm)),
      row.length = dim := by
    intro row hrow
    simp only [List.mem_map] at hrow
    obtain ⟨nm, _, rfl⟩ := hrow
    simp
  obtain ⟨h1, h2⟩ := flatten_getElem_of_uniform _ dim hrows r j (by simpa using hr) hj
  rw [e, List.getD_eq_getElem?_getD, List.getElem?_eq_getElem h1, h2]
  simp [List.getD_eq_getElem?_getD, hr]

end Skv
