import SkfemVerif.Lemmas.RefineAdaptive
import Mathlib.Tactic.Linarith
import Mathlib.Tactic.Ring
import Mathlib.Tactic.NormNum
import Mathlib.Tactic.LinearCombination
import Mathlib.Tactic.IntervalCases
import Mathlib.Algebra.Order.Field.Basic
import Mathlib.Algebra.Order.Ring.Rat
import Mathlib.Algebra.Field.Rat
import Mathlib.Algebra.BigOperators.Group.List.Basic
/-
Geometry behind C13 (needs an ordered field, hence Mathlib): the red/green/blue templates tile the
reference triangle; one bisection step and whole bisection trees in barycentric weights (any
dimension); signed volumes of tetrahedra under bisection.
-/
set_option linter.unusedSectionVars false
set_option linter.unusedSimpArgs false
namespace Skv.RA

section Geo2
variable {K : Type} [Field K] [LinearOrder K] [IsStrictOrderedRing K]

/-- reference coordinates of the symbolic vertices: parent = unit triangle -/
def rvx : RV → K
  | .v0 => 0 | .v1 => 1 | .v2 => 0 | .m0 => 1/2 | .m1 => 1/2 | .m2 => 0
def rvy : RV → K
  | .v0 => 0 | .v1 => 0 | .v2 => 1 | .m0 => 0 | .m1 => 1/2 | .m2 => 1/2

/-- twice the signed area of `(a, b, (u,v))` -/
def orient (a b : RV) (u v : K) : K :=
  (rvx b - rvx a) * (v - rvy a) - (rvy b - rvy a) * (u - rvx a)

def inClosed (T : RV × RV × RV) (u v : K) : Prop :=
  (0 ≤ orient T.1 T.2.1 u v ∧ 0 ≤ orient T.2.1 T.2.2 u v ∧ 0 ≤ orient T.2.2 T.1 u v)
  ∨ (orient T.1 T.2.1 u v ≤ 0 ∧ orient T.2.1 T.2.2 u v ≤ 0 ∧ orient T.2.2 T.1 u v ≤ 0)

def inOpen (T : RV × RV × RV) (u v : K) : Prop :=
  (0 < orient T.1 T.2.1 u v ∧ 0 < orient T.2.1 T.2.2 u v ∧ 0 < orient T.2.2 T.1 u v)
  ∨ (orient T.1 T.2.1 u v < 0 ∧ orient T.2.1 T.2.2 u v < 0 ∧ orient T.2.2 T.1 u v < 0)

def inParent (u v : K) : Prop := 0 ≤ u ∧ 0 ≤ v ∧ u + v ≤ 1

macro "tri_in" : tactic =>
  `(tactic| first
    | (left; refine ⟨?_, ?_, ?_⟩ <;> linarith)
    | (right; refine ⟨?_, ?_, ?_⟩ <;> linarith))

macro "pick_child" : tactic =>
  `(tactic| first
    | tri_in
    | (left; tri_in)
    | (right; left; tri_in)
    | (right; right; left; tri_in)
    | (right; right; right; tri_in)
    | (right; right; tri_in)
    | (right; tri_in))

/-- the children of every template cover the parent … -/
theorem template_cover (cl : Cls) (hcl : cl ≠ .bad) (u v : K) (h : inParent u v) :
    ∃ T ∈ template cl, inClosed T u v := by
  obtain ⟨hu, hv, huv⟩ := h
  cases cl <;>
    simp only [template, List.mem_cons, List.not_mem_nil, or_false, exists_eq_or_imp, exists_eq_left,
      inClosed, orient, rvx, rvy]
  · pick_child
  · rcases le_total (u + v) (1/2) with h1 | h1 <;> rcases le_total (1/2) u with h2 | h2 <;>
      rcases le_total (1/2) v with h3 | h3 <;> pick_child
  · rcases le_total (u + 2 * v) 1 with h1 | h1 <;> rcases le_total (1/2) v with h3 | h3 <;> pick_child
  · rcases le_total (u + v) (1/2) with h1 | h1 <;> rcases le_total (u + 2 * v) 1 with h2 | h2 <;> pick_child
  · rcases le_total (u + 2 * v) 1 with h1 | h1 <;> pick_child
  · exact absurd rfl hcl

/-- … lie inside it … -/
theorem template_inside (cl : Cls) (T : RV × RV × RV) (hT : T ∈ template cl) (u v : K)
    (h : inClosed T u v) : inParent u v := by
  cases cl <;> simp only [template, List.mem_cons, List.not_mem_nil, or_false] at hT
  all_goals
    rcases hT with rfl | rfl | rfl | rfl <;>
    · simp only [inClosed, orient, rvx, rvy] at h
      rcases h with ⟨h1, h2, h3⟩ | ⟨h1, h2, h3⟩ <;> refine ⟨?_, ?_, ?_⟩ <;> linarith

/-- … and have pairwise disjoint interiors -/
theorem template_disjoint (cl : Cls) :
    (template cl).Pairwise (fun T T' => ∀ u v : K, ¬ (inOpen T u v ∧ inOpen T' u v)) := by
  cases cl <;> simp only [template, List.pairwise_cons, List.mem_cons, List.not_mem_nil, or_false,
    forall_eq_or_imp, forall_eq, IsEmpty.forall_iff, implies_true, List.Pairwise.nil, and_true, true_and]
  all_goals
    (try refine ⟨⟨?_, ?_, ?_⟩, ⟨?_, ?_⟩, ?_⟩) <;> (try refine ⟨⟨?_, ?_⟩, ?_⟩) <;>
    · intro u v h
      simp only [inOpen, orient, rvx, rvy] at h
      rcases h with ⟨⟨h1, h2, h3⟩ | ⟨h1, h2, h3⟩, ⟨h4, h5, h6⟩ | ⟨h4, h5, h6⟩⟩ <;> linarith

/-- no child is degenerate -/
theorem template_nondegenerate (cl : Cls) (T : RV × RV × RV) (hT : T ∈ template cl) :
    orient (K := K) T.1 T.2.1 (rvx T.2.2) (rvy T.2.2) ≠ 0 := by
  cases cl <;> simp only [template, List.mem_cons, List.not_mem_nil, or_false] at hT
  all_goals
    rcases hT with rfl | rfl | rfl | rfl <;> simp only [orient, rvx, rvy] <;> norm_num

end Geo2

section Comb
variable {K : Type} [Field K] [LinearOrder K] [IsStrictOrderedRing K]

/-- `Σ_k w_k · c(S_k)`: the value at the point with barycentric weights `w` of the affine function
    that takes the value `c v` at vertex `v` (use it with `c` = a coordinate) -/
def comb (c : Nat → K) : List Nat → List K → K
  | v :: S, x :: w => x * c v + comb c S w
  | _, _ => 0

theorem comb_set_vertex (c : Nat → K) (m : Nat) : ∀ (S : List Nat) (w : List K) (j : Nat),
    j < S.length → S.length = w.length →
    comb c (S.set j m) w = comb c S w + w.getD j 0 * (c m - c (S.getD j 0)) := by
  intro S
  induction S with
  | nil => intro w j hj; simp at hj
  | cons v S ih =>
    intro w j hj hl
    cases w with
    | nil => simp at hl
    | cons x w =>
      cases j with
      | zero => simp [comb]; ring
      | succ j =>
        simp only [List.set_cons_succ, comb, List.getD_cons_succ]
        rw [ih w j (by simpa using hj) (by simpa using hl)]
        ring

theorem comb_set_weight (c : Nat → K) (y : K) : ∀ (S : List Nat) (w : List K) (i : Nat),
    i < S.length → S.length = w.length →
    comb c S (w.set i y) = comb c S w + (y - w.getD i 0) * c (S.getD i 0) := by
  intro S
  induction S with
  | nil => intro w i hi; simp at hi
  | cons v S ih =>
    intro w i hi hl
    cases w with
    | nil => simp at hl
    | cons x w =>
      cases i with
      | zero => simp [comb]; ring
      | succ i =>
        simp only [List.set_cons_succ, comb, List.getD_cons_succ]
        rw [ih w i (by simpa using hi) (by simpa using hl)]
        ring

theorem sum_set (y : K) : ∀ (w : List K) (i : Nat), i < w.length →
    (w.set i y).sum = w.sum + (y - w.getD i 0) := by
  intro w
  induction w with
  | nil => intro i hi; simp at hi
  | cons x w ih =>
    intro i hi
    cases i with
    | zero => simp; ring
    | succ i =>
      simp only [List.set_cons_succ, List.sum_cons, List.getD_cons_succ]
      rw [ih i (by simpa using hi)]
      ring

theorem getD_set_ne (w : List K) (i j : Nat) (y : K) (h : i ≠ j) : (w.set i y).getD j 0 = w.getD j 0 := by
  simp [List.getD_eq_getElem?_getD, List.getElem?_set_ne h]

theorem getD_set_eq (w : List K) (i : Nat) (y : K) (h : i < w.length) : (w.set i y).getD i 0 = y := by
  simp [List.getD_eq_getElem?_getD, h]

/-- weights after moving from `S` to the half `S[j := m]` that keeps vertex `S[i]` -/
def halfWeights (w : List K) (i j : Nat) : List K :=
  (w.set i (w.getD i 0 - w.getD j 0)).set j (2 * w.getD j 0)

/-- **one bisection step, covering direction** (any dimension, any geometry): a point with weights
    `w` in `S` has weights `halfWeights w i j` in `S[j := m]`, for EVERY affine function `c` whose
    value at `m` is the mean of its values at `S[i]` and `S[j]` -/
theorem comb_half (c : Nat → K) (S : List Nat) (w : List K) (i j m : Nat) (hi : i < S.length)
    (hj : j < S.length) (hij : i ≠ j) (hl : S.length = w.length)
    (hmid : 2 * c m = c (S.getD i 0) + c (S.getD j 0)) :
    comb c (S.set j m) (halfWeights w i j) = comb c S w := by
  unfold halfWeights
  rw [comb_set_vertex c m S _ j hj (by simp [hl]),
    comb_set_weight c _ S _ j hj (by simp [hl]),
    comb_set_weight c _ S w i hi hl,
    getD_set_eq _ j _ (by simp; omega), getD_set_ne _ i j _ hij]
  linear_combination (w.getD j 0) * hmid

theorem sum_half (w : List K) (i j : Nat) (hi : i < w.length) (hj : j < w.length) (hij : i ≠ j) :
    (halfWeights w i j).sum = w.sum := by
  unfold halfWeights
  rw [sum_set _ _ j (by simpa using hj), sum_set _ _ i hi, getD_set_ne _ i j _ hij]
  ring

theorem length_half (w : List K) (i j : Nat) : (halfWeights w i j).length = w.length := by
  simp [halfWeights]

/-- weights in the parent of a point given by weights `w` in the half `S[j := m]` -/
def parentWeights (w : List K) (i j : Nat) : List K :=
  (w.set i (w.getD i 0 + w.getD j 0 / 2)).set j (w.getD j 0 / 2)

/-- **one bisection step, nesting direction** -/
theorem comb_parent (c : Nat → K) (S : List Nat) (w : List K) (i j m : Nat) (hi : i < S.length)
    (hj : j < S.length) (hij : i ≠ j) (hl : S.length = w.length)
    (hmid : 2 * c m = c (S.getD i 0) + c (S.getD j 0)) :
    comb c S (parentWeights w i j) = comb c (S.set j m) w := by
  unfold parentWeights
  rw [comb_set_vertex c m S _ j hj hl,
    comb_set_weight c _ S _ j hj (by simp [hl]),
    comb_set_weight c _ S w i hi hl, getD_set_ne _ i j _ hij]
  linear_combination (- w.getD j 0 / 2) * hmid

theorem sum_parent (w : List K) (i j : Nat) (hi : i < w.length) (hj : j < w.length) (hij : i ≠ j) :
    (parentWeights w i j).sum = w.sum := by
  unfold parentWeights
  rw [sum_set _ _ j (by simpa using hj), sum_set _ _ i hi, getD_set_ne _ i j _ hij]
  ring



theorem length_parent (w : List K) (i j : Nat) : (parentWeights w i j).length = w.length := by
  simp [parentWeights]

theorem getD_mem_or_zero (w : List K) (j : Nat) (hj : j < w.length) : w.getD j 0 ∈ w := by
  simp [List.getD_eq_getElem?_getD, hj]

theorem nonneg_half (w : List K) (i j : Nat) (hj : j < w.length) (hw : ∀ x ∈ w, 0 ≤ x)
    (hle : w.getD j 0 ≤ w.getD i 0) : ∀ x ∈ halfWeights w i j, 0 ≤ x := by
  intro x hx
  have hwj : 0 ≤ w.getD j 0 := hw _ (getD_mem_or_zero w j hj)
  unfold halfWeights at hx
  rcases List.mem_or_eq_of_mem_set hx with h | h
  · rcases List.mem_or_eq_of_mem_set h with h' | h'
    · exact hw x h'
    · rw [h']; linarith
  · rw [h]; linarith

theorem nonneg_parent (w : List K) (i j : Nat) (hi : i < w.length) (hj : j < w.length) (hw : ∀ x ∈ w, 0 ≤ x) :
    ∀ x ∈ parentWeights w i j, 0 ≤ x := by
  intro x hx
  have hwj : 0 ≤ w.getD j 0 := hw _ (getD_mem_or_zero w j hj)
  have hwi : 0 ≤ w.getD i 0 := hw _ (getD_mem_or_zero w i hi)
  unfold parentWeights at hx
  rcases List.mem_or_eq_of_mem_set hx with h | h
  · rcases List.mem_or_eq_of_mem_set h with h' | h'
    · exact hw x h'
    · rw [h']; linarith
  · rw [h]; linarith

/-- index validity of a bisection tree below the simplex `S` -/
def WF : List Nat → BTree → Prop
  | _, .leaf _ => True
  | S, .node i j m l r => i < S.length ∧ j < S.length ∧ i ≠ j ∧ WF (S.set j m) l ∧ WF (S.set i m) r

/-- the affine function `c` takes at every recorded midpoint the mean of the two end values -/
def MidOK (c : Nat → K) : List Nat → BTree → Prop
  | _, .leaf _ => True
  | S, .node i j m l r =>
    2 * c m = c (S.getD i 0) + c (S.getD j 0) ∧ MidOK c (S.set j m) l ∧ MidOK c (S.set i m) r

/-- **covering**: every point of the root simplex (weights `w ≥ 0`) lies in one of the leaf simplices,
    with weights of the same sum, simultaneously for all affine functions compatible with the
    recorded midpoints (in particular all coordinates) -/
theorem tree_cover : ∀ (tr : BTree) (S : List Nat) (d0 : Nat), WF S tr → ∀ (w : List K),
    S.length = w.length → (∀ x ∈ w, 0 ≤ x) →
    ∃ L d, (L, d) ∈ tr.leafSimplices S d0 ∧ ∃ w' : List K, w'.length = w.length ∧ (∀ x ∈ w', 0 ≤ x)
      ∧ w'.sum = w.sum ∧ ∀ c : Nat → K, MidOK c S tr → comb c L w' = comb c S w := by
  intro tr
  induction tr with
  | leaf cidx =>
    intro S d0 _ w _ hw
    exact ⟨S, d0, by simp [BTree.leafSimplices], w, rfl, hw, rfl, fun _ _ => rfl⟩
  | node i j m l r ihl ihr =>
    intro S d0 hwf w hl hw
    obtain ⟨hi, hj, hij, hwl, hwr⟩ := hwf
    rcases le_total (w.getD j 0) (w.getD i 0) with hle | hle
    · obtain ⟨L, d, hmem, w', hlen, hnn, hsum, hc⟩ := ihl (S.set j m) (d0 + 1) hwl (halfWeights w i j)
        (by simp [length_half, hl]) (nonneg_half w i j (by omega) hw hle)
      refine ⟨L, d, ?_, w', by rw [hlen, length_half], hnn, ?_, ?_⟩
      · simp only [BTree.leafSimplices, List.mem_append]; exact Or.inl hmem
      · rw [hsum, sum_half w i j (by omega) (by omega) hij]
      · intro c hmid
        obtain ⟨h1, h2, _⟩ := hmid
        rw [hc c h2, comb_half c S w i j m hi hj hij hl h1]
    · obtain ⟨L, d, hmem, w', hlen, hnn, hsum, hc⟩ := ihr (S.set i m) (d0 + 1) hwr (halfWeights w j i)
        (by simp [length_half, hl]) (nonneg_half w j i (by omega) hw hle)
      refine ⟨L, d, ?_, w', by rw [hlen, length_half], hnn, ?_, ?_⟩
      · simp only [BTree.leafSimplices, List.mem_append]; exact Or.inr hmem
      · rw [hsum, sum_half w j i (by omega) (by omega) (Ne.symm hij)]
      · intro c hmid
        obtain ⟨h1, _, h3⟩ := hmid
        rw [hc c h3, comb_half c S w j i m hj hi (Ne.symm hij) hl (by rw [h1]; ring)]

/-- **nesting**: every point of a leaf simplex is a point of the root simplex -/
theorem tree_nested : ∀ (tr : BTree) (S : List Nat) (d0 : Nat), WF S tr → ∀ L d,
    (L, d) ∈ tr.leafSimplices S d0 → L.length = S.length ∧ ∀ (w' : List K), L.length = w'.length →
      (∀ x ∈ w', 0 ≤ x) →
      ∃ w : List K, w.length = w'.length ∧ (∀ x ∈ w, 0 ≤ x) ∧ w.sum = w'.sum
        ∧ ∀ c : Nat → K, MidOK c S tr → comb c S w = comb c L w' := by
  intro tr
  induction tr with
  | leaf cidx =>
    intro S d0 _ L d hmem
    simp only [BTree.leafSimplices, List.mem_singleton, Prod.mk.injEq] at hmem
    obtain ⟨rfl, rfl⟩ := hmem
    exact ⟨rfl, fun w' _ hw => ⟨w', rfl, hw, rfl, fun _ _ => rfl⟩⟩
  | node i j m l r ihl ihr =>
    intro S d0 hwf L d hmem
    obtain ⟨hi, hj, hij, hwl, hwr⟩ := hwf
    simp only [BTree.leafSimplices, List.mem_append] at hmem
    rcases hmem with hmem | hmem
    · obtain ⟨hlen, h⟩ := ihl (S.set j m) (d0 + 1) hwl L d hmem
      refine ⟨by simpa using hlen, fun w' hl' hw' => ?_⟩
      obtain ⟨w1, hl1, hn1, hs1, hc1⟩ := h w' hl' hw'
      have hlS : S.length = w1.length := by rw [hl1, ← hl', hlen]; simp
      refine ⟨parentWeights w1 i j, by rw [length_parent, hl1],
        nonneg_parent w1 i j (by omega) (by omega) hn1, ?_, ?_⟩
      · rw [sum_parent w1 i j (by omega) (by omega) hij, hs1]
      · intro c hmid
        obtain ⟨h1, h2, _⟩ := hmid
        rw [comb_parent c S w1 i j m hi hj hij hlS h1, hc1 c h2]
    · obtain ⟨hlen, h⟩ := ihr (S.set i m) (d0 + 1) hwr L d hmem
      refine ⟨by simpa using hlen, fun w' hl' hw' => ?_⟩
      obtain ⟨w1, hl1, hn1, hs1, hc1⟩ := h w' hl' hw'
      have hlS : S.length = w1.length := by rw [hl1, ← hl', hlen]; simp
      refine ⟨parentWeights w1 j i, by rw [length_parent, hl1],
        nonneg_parent w1 j i (by omega) (by omega) hn1, ?_, ?_⟩
      · rw [sum_parent w1 j i (by omega) (by omega) (Ne.symm hij), hs1]
      · intro c hmid
        obtain ⟨h1, _, h3⟩ := hmid
        rw [comb_parent c S w1 j i m hj hi (Ne.symm hij) hlS (by rw [h1]; ring), hc1 c h3]


def mid3 (p q : K × K × K) : K × K × K := ((p.1 + q.1) / 2, (p.2.1 + q.2.1) / 2, (p.2.2 + q.2.2) / 2)

def det3 (u v w : K × K × K) : K :=
  u.1 * (v.2.1 * w.2.2 - v.2.2 * w.2.1) - u.2.1 * (v.1 * w.2.2 - v.2.2 * w.1)
    + u.2.2 * (v.1 * w.2.1 - v.2.1 * w.1)

def sub3 (p q : K × K × K) : K × K × K := (p.1 - q.1, p.2.1 - q.2.1, p.2.2 - q.2.2)

/-- six times the signed volume of the ordered tetrahedron `S` -/
def vol3 (pos : Nat → K × K × K) : List Nat → K
  | [a, b, c, d] => det3 (sub3 (pos b) (pos a)) (sub3 (pos c) (pos a)) (sub3 (pos d) (pos a))
  | _ => 0

/-- **bisection halves the signed volume** (both halves keep the orientation of the parent) -/
theorem vol3_half (pos : Nat → K × K × K) (a b c d i j m : Nat) (hi : i < 4) (hj : j < 4) (hij : i ≠ j)
    (hm : pos m = mid3 (pos ([a, b, c, d].getD i 0)) (pos ([a, b, c, d].getD j 0))) :
    2 * vol3 pos ([a, b, c, d].set j m) = vol3 pos [a, b, c, d] := by
  interval_cases i <;> interval_cases j <;>
    simp only [List.getD_cons_zero, List.getD_cons_succ, List.set_cons_zero, List.set_cons_succ, vol3,
      ne_eq, not_true_eq_false] at hm hij ⊢ <;>
    (rw [hm]; simp only [mid3, det3, sub3]; ring)


end Comb

section Vol2
variable {K : Type} [Field K] [LinearOrder K] [IsStrictOrderedRing K]

theorem mid3_comm (p q : K × K × K) : mid3 p q = mid3 q p := by
  simp only [mid3, Prod.mk.injEq]; refine ⟨?_, ?_, ?_⟩ <;> ring

/-- position of a vertex from its three coordinate functions -/
def pos3 (X Y Z : Nat → K) (v : Nat) : K × K × K := (X v, Y v, Z v)

theorem pos_mid (X Y Z : Nat → K) (a b m : Nat) (hX : 2 * X m = X a + X b) (hY : 2 * Y m = Y a + Y b)
    (hZ : 2 * Z m = Z a + Z b) :
    pos3 X Y Z m = mid3 (pos3 X Y Z a) (pos3 X Y Z b) := by
  simp only [pos3, mid3, Prod.mk.injEq]
  refine ⟨?_, ?_, ?_⟩ <;> linarith

theorem vol3_half' (pos : Nat → K × K × K) (S : List Nat) (hS : S.length = 4) (i j m : Nat) (hi : i < S.length)
    (hj : j < S.length) (hij : i ≠ j) (hm : pos m = mid3 (pos (S.getD i 0)) (pos (S.getD j 0))) :
    2 * vol3 pos (S.set j m) = vol3 pos S := by
  match S, hS with
  | [a, b, c, d], _ => exact vol3_half pos a b c d i j m (by simpa using hi) (by simpa using hj) hij hm

/-- every leaf simplex at relative depth `d` has `2^-d` of the signed volume of the root:
    same orientation, never degenerate unless the root is -/
theorem tree_volume (X Y Z : Nat → K) : ∀ (tr : BTree) (S : List Nat) (d0 : Nat), S.length = 4 → WF S tr →
    MidOK X S tr → MidOK Y S tr → MidOK Z S tr → ∀ L d, (L, d) ∈ tr.leafSimplices S d0 →
    d0 ≤ d ∧ 2 ^ (d - d0) * vol3 (pos3 X Y Z) L = vol3 (pos3 X Y Z) S := by
  intro tr
  induction tr with
  | leaf cidx =>
    intro S d0 _ _ _ _ _ L d hmem
    simp only [BTree.leafSimplices, List.mem_singleton, Prod.mk.injEq] at hmem
    obtain ⟨rfl, rfl⟩ := hmem
    simp
  | node i j m l r ihl ihr =>
    intro S d0 hS hwf hX hY hZ L d hmem
    obtain ⟨hi, hj, hij, hwl, hwr⟩ := hwf
    obtain ⟨hX1, hX2, hX3⟩ := hX
    obtain ⟨hY1, hY2, hY3⟩ := hY
    obtain ⟨hZ1, hZ2, hZ3⟩ := hZ
    have hm := pos_mid X Y Z (S.getD i 0) (S.getD j 0) m hX1 hY1 hZ1
    simp only [BTree.leafSimplices, List.mem_append] at hmem
    rcases hmem with hmem | hmem
    · obtain ⟨hd, hv⟩ := ihl (S.set j m) (d0 + 1) (by simpa using hS) hwl hX2 hY2 hZ2 L d hmem
      refine ⟨by omega, ?_⟩
      have h2 := vol3_half' (pos3 X Y Z) S hS i j m hi hj hij hm
      have : d - d0 = (d - (d0 + 1)) + 1 := by omega
      rw [this, pow_succ, ← h2, ← hv]; ring
    · obtain ⟨hd, hv⟩ := ihr (S.set i m) (d0 + 1) (by simpa using hS) hwr hX3 hY3 hZ3 L d hmem
      refine ⟨by omega, ?_⟩
      have h2 := vol3_half' (pos3 X Y Z) S hS j i m hj hi (Ne.symm hij) (by rw [hm]; exact mid3_comm _ _)
      have : d - d0 = (d - (d0 + 1)) + 1 := by omega
      rw [this, pow_succ, ← h2, ← hv]; ring

/-- the signed volumes of the leaf simplices add up to the signed volume of the root -/
theorem tree_volume_sum (X Y Z : Nat → K) : ∀ (tr : BTree) (S : List Nat) (d0 : Nat), S.length = 4 → WF S tr →
    MidOK X S tr → MidOK Y S tr → MidOK Z S tr →
    ((tr.leafSimplices S d0).map (fun q => vol3 (pos3 X Y Z) q.1)).sum
      = vol3 (pos3 X Y Z) S := by
  intro tr
  induction tr with
  | leaf cidx => intro S d0 _ _ _ _ _; simp [BTree.leafSimplices]
  | node i j m l r ihl ihr =>
    intro S d0 hS hwf hX hY hZ
    obtain ⟨hi, hj, hij, hwl, hwr⟩ := hwf
    obtain ⟨hX1, hX2, hX3⟩ := hX
    obtain ⟨hY1, hY2, hY3⟩ := hY
    obtain ⟨hZ1, hZ2, hZ3⟩ := hZ
    have hm := pos_mid X Y Z (S.getD i 0) (S.getD j 0) m hX1 hY1 hZ1
    simp only [BTree.leafSimplices, List.map_append, List.sum_append]
    rw [ihl (S.set j m) (d0 + 1) (by simpa using hS) hwl hX2 hY2 hZ2,
      ihr (S.set i m) (d0 + 1) (by simpa using hS) hwr hX3 hY3 hZ3]
    have h1 := vol3_half' (pos3 X Y Z) S hS i j m hi hj hij hm
    have h2 := vol3_half' (pos3 X Y Z) S hS j i m hj hi (Ne.symm hij) (by rw [hm]; exact mid3_comm _ _)
    linarith

end Vol2

/-! ### the checker -/

/-- coordinate `d` of vertex `v` -/
def coordFn (pos : List Pt) (d : Nat) (v : Nat) : Rat := (pos.getD v []).getD d 0

theorem isMid_sound (pos : List Pt) (a b m : Nat) (h : isMid pos a b m = true) (d : Nat) :
    2 * coordFn pos d m = coordFn pos d a + coordFn pos d b := by
  unfold isMid at h
  split at h
  · rename_i pa pb pm ha hb hm
    simp only [Bool.and_eq_true, beq_iff_eq, List.all_eq_true] at h
    obtain ⟨⟨hla, hlb⟩, hall⟩ := h
    have ea : pos.getD a [] = pa := by simp [List.getD_eq_getElem?_getD, ha]
    have eb : pos.getD b [] = pb := by simp [List.getD_eq_getElem?_getD, hb]
    have em : pos.getD m [] = pm := by simp [List.getD_eq_getElem?_getD, hm]
    unfold coordFn
    rw [ea, eb, em]
    by_cases hd : d < pm.length
    · have hmem : (pm[d], (pa[d]'(by omega), pb[d]'(by omega))) ∈ List.zip pm (List.zip pa pb) := by
        rw [List.mem_iff_getElem]
        refine ⟨d, by simp; omega, by simp⟩
      have := hall _ hmem
      simpa [List.getD_eq_getElem?_getD, hd, show d < pa.length by omega, show d < pb.length by omega] using this
    · simp [List.getD_eq_getElem?_getD, List.getElem?_eq_none (show pm.length ≤ d by omega),
        List.getElem?_eq_none (show pa.length ≤ d by omega), List.getElem?_eq_none (show pb.length ≤ d by omega)]
  · exact absurd h (by simp)

/-- leaf simplices paired with the number of the new cell they claim to be -/
def leafPairs : List Nat → BTree → List (List Nat × Nat)
  | S, .leaf c => [(S, c)]
  | S, .node i j m l r => leafPairs (S.set j m) l ++ leafPairs (S.set i m) r

theorem leafPairs_snd : ∀ (tr : BTree) (S : List Nat), (leafPairs S tr).map (·.2) = tr.leaves := by
  intro tr
  induction tr with
  | leaf c => intro S; rfl
  | node i j m l r ihl ihr => intro S; simp [leafPairs, BTree.leaves, ihl, ihr]

theorem leafPairs_fst : ∀ (tr : BTree) (S : List Nat) (d0 : Nat),
    (leafPairs S tr).map (·.1) = (tr.leafSimplices S d0).map (·.1) := by
  intro tr
  induction tr with
  | leaf c => intro S d0; rfl
  | node i j m l r ihl ihr =>
    intro S d0; simp [leafPairs, BTree.leafSimplices, ihl _ (d0 + 1), ihr _ (d0 + 1)]

theorem checkTree_sound (pos : List Pt) (newCells : List (List Nat)) : ∀ (tr : BTree) (S : List Nat),
    checkTree pos newCells S tr = true →
    WF S tr ∧ (∀ d, MidOK (coordFn pos d) S tr)
      ∧ ∀ q ∈ leafPairs S tr, sortCol q.1 = sortCol (newCells.getD q.2 []) := by
  intro tr
  induction tr with
  | leaf c =>
    intro S h
    simp only [checkTree, beq_iff_eq] at h
    exact ⟨trivial, fun _ => trivial, by simp [leafPairs, h]⟩
  | node i j m l r ihl ihr =>
    intro S h
    simp only [checkTree, Bool.and_eq_true, decide_eq_true_eq, bne_iff_ne, ne_eq] at h
    obtain ⟨⟨⟨⟨⟨hi, hj⟩, hij⟩, hmid⟩, hl⟩, hr⟩ := h
    obtain ⟨w1, m1, p1⟩ := ihl _ hl
    obtain ⟨w2, m2, p2⟩ := ihr _ hr
    refine ⟨⟨hi, hj, hij, w1, w2⟩, fun d => ⟨isMid_sound pos _ _ m hmid d, m1 d, m2 d⟩, ?_⟩
    intro q hq
    simp only [leafPairs, List.mem_append] at hq
    rcases hq with hq | hq
    · exact p1 q hq
    · exact p2 q hq


/-- what the seven clauses of an accepted certificate say -/
structure Accepted (dim : Nat) (old new : SMesh) (forest : List BTree) (marked : List Nat) : Prop where
  len : forest.length = old.t.length
  oldShape : ∀ S ∈ old.t, S.length = dim + 1 ∧ ∀ v ∈ S, v < old.p.length
  pLen : old.p.length ≤ new.p.length
  newShape : ∀ S ∈ new.t, S.length = dim + 1 ∧ ∀ v ∈ S, v < new.p.length
  oldVerts : ∀ i, i < old.p.length → new.p[i]? = old.p[i]?
  trees : ∀ k, k < old.t.length → checkTree new.p new.t (old.t.getD k []) (forest.getD k (.leaf 0)) = true
  leaves : (forest.flatMap BTree.leaves).Perm (List.range new.t.length)
  marked : ∀ k ∈ marked, (forest.getD k (.leaf 0)).isNode = true
  exit : ∀ L ∈ new.t, ∀ e ∈ forestEdges old.t forest, ¬ (e.1 ∈ L ∧ e.2.1 ∈ L)
  mids : ∀ e ∈ forestEdges old.t forest, ∀ e' ∈ forestEdges old.t forest,
    ((e.1 = e'.1 ∧ e.2.1 = e'.2.1) ∨ (e.1 = e'.2.1 ∧ e.2.1 = e'.1)) ↔ e.2.2 = e'.2.2

theorem accepted_of_check (dim : Nat) (old new : SMesh) (forest : List BTree) (marked : List Nat)
    (h : checkRefinement dim old new forest marked = true) : Accepted dim old new forest marked := by
  simp only [checkRefinement, checkClauses, List.all_cons, List.all_nil, id, Bool.and_true,
    Bool.and_eq_true, beq_iff_eq, decide_eq_true_eq, List.all_eq_true] at h
  obtain ⟨⟨⟨⟨hlen, hos⟩, hns⟩, _⟩, ⟨hle, htake⟩, htrees, hleaves, hmarked, hexit, hmids⟩ := h
  refine ⟨hlen, ?_, hle, ?_, ?_, ?_, ?_, hmarked, ?_, ?_⟩
  · intro S hS
    obtain ⟨h1, h2⟩ := hos S hS
    exact ⟨h1, h2⟩
  · intro S hS
    obtain ⟨h1, h2⟩ := hns S hS
    exact ⟨h1, h2⟩
  · intro i hi
    rw [← htake, List.getElem?_take_of_lt hi]
  · intro k hk
    have hk' : k < forest.length := by omega
    have hmem : (old.t[k], forest[k]) ∈ List.zip old.t forest := by
      rw [List.mem_iff_getElem]
      exact ⟨k, by simp; omega, by simp⟩
    have := htrees _ hmem
    simpa [List.getD_eq_getElem?_getD, hk, hk'] using this
  · rw [← hleaves]
    exact (perm_sortCol _).symm
  · intro L hL e he hcon
    have := hexit L hL e he
    simp only [List.contains_iff_mem, Bool.not_eq_true', Bool.and_eq_false_iff, decide_eq_false_iff_not] at this
    rcases this with h1 | h1
    · have := List.contains_iff_mem.2 hcon.1
      rw [h1] at this; cases this
    · have := List.contains_iff_mem.2 hcon.2
      rw [h1] at this; cases this
  · intro e he e' he'
    have := hmids e he e' he'
    rw [Bool.eq_iff_iff] at this
    simpa using this

section Perm
variable {K : Type} [Field K] [LinearOrder K] [IsStrictOrderedRing K]

/-- reordering the vertices of a simplex reorders the weights: the point stays the same -/
theorem comb_perm {L L' : List Nat} (hp : L.Perm L') : ∀ w : List K, w.length = L.length →
    ∃ w' : List K, w'.Perm w ∧ ∀ c : Nat → K, comb c L' w' = comb c L w := by
  induction hp with
  | nil => intro w _; exact ⟨w, List.Perm.refl _, fun _ => rfl⟩
  | cons x _ ih =>
    intro w hw
    cases w with
    | nil => simp at hw
    | cons y w0 =>
      obtain ⟨w0', hp0, hc0⟩ := ih w0 (by simpa using hw)
      exact ⟨y :: w0', List.Perm.cons y hp0, fun c => by simp only [comb]; rw [hc0 c]⟩
  | swap x y l =>
    intro w hw
    match w, hw with
    | a :: b :: w0, _ =>
      exact ⟨b :: a :: w0, List.Perm.swap _ _ _, fun c => by simp only [comb]; ring⟩
  | trans _ _ ih1 ih2 =>
    intro w hw
    obtain ⟨w1, hp1, hc1⟩ := ih1 w hw
    obtain ⟨w2, hp2, hc2⟩ := ih2 w1 (by rw [hp1.length_eq, hw]; exact (List.Perm.length_eq ‹_›))
    exact ⟨w2, hp2.trans hp1, fun c => by rw [hc2 c, hc1 c]⟩

theorem perm_of_sortCol_eq {L L' : List Nat} (h : sortCol L = sortCol L') : L.Perm L' :=
  (perm_sortCol L).symm.trans (h ▸ perm_sortCol L')

theorem comb_congr (c c' : Nat → K) : ∀ (S : List Nat) (w : List K), (∀ v ∈ S, c v = c' v) →
    comb c S w = comb c' S w := by
  intro S
  induction S with
  | nil => intro w _; simp [comb]
  | cons v S ih =>
    intro w h
    cases w with
    | nil => simp [comb]
    | cons x w =>
      simp only [comb]
      rw [h v (by simp), ih w (fun u hu => h u (by simp [hu]))]

end Perm
end Skv.RA
