import SkfemVerif.Model.Np
/-
Contracts of the E-np models, proved (core Lean only).
-/
namespace Skv

/-! ### sortCol -/

theorem mem_insertSorted {x z : Nat} {l : List Nat} :
    z ∈ insertSorted x l ↔ z = x ∨ z ∈ l := by
  induction l with
  | nil => simp [insertSorted]
  | cons y ys ih =>
    unfold insertSorted
    split
    · simp
    · simp [ih]; grind

theorem mem_sortCol {z : Nat} {l : List Nat} : z ∈ sortCol l ↔ z ∈ l := by
  induction l with
  | nil => simp [sortCol]
  | cons y ys ih =>
    have : sortCol (y :: ys) = insertSorted y (sortCol ys) := rfl
    rw [this, mem_insertSorted, ih]; simp

theorem length_insertSorted (x : Nat) (l : List Nat) :
    (insertSorted x l).length = l.length + 1 := by
  induction l with
  | nil => simp [insertSorted]
  | cons y ys ih => unfold insertSorted; split <;> simp [ih]

theorem length_sortCol (l : List Nat) : (sortCol l).length = l.length := by
  induction l with
  | nil => simp [sortCol]
  | cons y ys ih =>
    have : sortCol (y :: ys) = insertSorted y (sortCol ys) := rfl
    rw [this, length_insertSorted, ih]; simp

theorem pairwise_insertSorted {x : Nat} {l : List Nat} (h : l.Pairwise (· ≤ ·)) :
    (insertSorted x l).Pairwise (· ≤ ·) := by
  induction l with
  | nil => simp [insertSorted]
  | cons y ys ih =>
    unfold insertSorted
    split
    · rename_i hxy
      rw [List.pairwise_cons] at h ⊢
      refine ⟨?_, List.pairwise_cons.mpr h⟩
      intro z hz
      rcases List.mem_cons.mp hz with rfl | hz
      · exact hxy
      · exact Nat.le_trans hxy (h.1 z hz)
    · rename_i hxy
      rw [List.pairwise_cons] at h ⊢
      refine ⟨?_, ih h.2⟩
      intro z hz
      rcases mem_insertSorted.mp hz with rfl | hz
      · omega
      · exact h.1 z hz

/-- `np.sort` of a column is ascending -/
theorem pairwise_sortCol (l : List Nat) : (sortCol l).Pairwise (· ≤ ·) := by
  induction l with
  | nil => simp [sortCol]
  | cons y ys ih =>
    have : sortCol (y :: ys) = insertSorted y (sortCol ys) := rfl
    rw [this]; exact pairwise_insertSorted ih

theorem perm_insertSorted (x : Nat) (l : List Nat) : (insertSorted x l).Perm (x :: l) := by
  induction l with
  | nil => simp [insertSorted]
  | cons y ys ih =>
    unfold insertSorted
    split
    · exact List.Perm.refl _
    · exact (List.Perm.cons y ih).trans (List.Perm.swap x y ys)

/-- `np.sort` of a column is a permutation of the column -/
theorem perm_sortCol (l : List Nat) : (sortCol l).Perm l := by
  induction l with
  | nil => simp [sortCol]
  | cons y ys ih =>
    have : sortCol (y :: ys) = insertSorted y (sortCol ys) := rfl
    rw [this]; exact (perm_insertSorted y _).trans (List.Perm.cons y ih)

/-! ### unique -/

section Unique
variable {α : Type} [LT α] [DecidableLT α] [DecidableEq α]

theorem mem_insertU {x z : α} {l : List α} : z ∈ insertU x l ↔ z = x ∨ z ∈ l := by
  induction l with
  | nil => simp [insertU]
  | cons y ys ih =>
    unfold insertU
    split
    · rename_i h; subst h; simp
    · split
      · simp
      · simp [ih]; grind

theorem mem_unique {z : α} {l : List α} : z ∈ unique l ↔ z ∈ l := by
  induction l with
  | nil => simp [unique]
  | cons y ys ih =>
    have : unique (y :: ys) = insertU y (unique ys) := rfl
    rw [this, mem_insertU, ih]; simp

end Unique

/-- A strict order in the sense needed by `unique` (trichotomous, transitive, irreflexive). -/
class StrictTotal (α : Type) [LT α] : Prop where
  irrefl : ∀ a : α, ¬ a < a
  trans : ∀ a b c : α, a < b → b < c → a < c
  tri : ∀ a b : α, a < b ∨ a = b ∨ b < a

instance : StrictTotal Nat where
  irrefl := Nat.lt_irrefl
  trans := fun _ _ _ => Nat.lt_trans
  tri := fun a b => by omega

instance : StrictTotal (List Nat) where
  irrefl := fun a => List.lt_irrefl a
  trans := fun _ _ _ h1 h2 => List.lt_trans h1 h2
  tri := fun a b => by
    by_cases h1 : a < b
    · exact Or.inl h1
    · by_cases h2 : b < a
      · exact Or.inr (Or.inr h2)
      · exact Or.inr (Or.inl (List.le_antisymm (List.not_lt.mp h2) (List.not_lt.mp h1)))

section UniqueSorted
variable {α : Type} [LT α] [DecidableLT α] [DecidableEq α] [StrictTotal α]

theorem pairwise_insertU {x : α} {l : List α} (h : l.Pairwise (· < ·)) :
    (insertU x l).Pairwise (· < ·) := by
  induction l with
  | nil => simp [insertU]
  | cons y ys ih =>
    unfold insertU
    split
    · exact h
    · rename_i hne
      split
      · rename_i hxy
        rw [List.pairwise_cons] at h
        refine List.pairwise_cons.mpr ⟨?_, List.pairwise_cons.mpr h⟩
        intro z hz
        rcases List.mem_cons.mp hz with rfl | hz
        · exact hxy
        · exact StrictTotal.trans _ _ _ hxy (h.1 z hz)
      · rename_i hxy
        rw [List.pairwise_cons] at h
        refine List.pairwise_cons.mpr ⟨?_, ih h.2⟩
        intro z hz
        rcases mem_insertU.mp hz with rfl | hz
        · rcases StrictTotal.tri z y with h1 | h1 | h1
          · exact absurd h1 hxy
          · exact absurd h1 hne
          · exact h1
        · exact h.1 z hz

/-- `np.unique` returns a strictly ascending list … -/
theorem pairwise_unique (l : List α) : (unique l).Pairwise (· < ·) := by
  induction l with
  | nil => simp [unique]
  | cons y ys ih =>
    have : unique (y :: ys) = insertU y (unique ys) := rfl
    rw [this]; exact pairwise_insertU ih

/-- … hence without repetitions -/
theorem nodup_unique (l : List α) : (unique l).Nodup := by
  have h := pairwise_unique l
  unfold List.Nodup
  refine h.imp ?_
  intro a b hab heq
  subst heq
  exact StrictTotal.irrefl a hab

end UniqueSorted

section Inverse
variable {α : Type} [LT α] [DecidableLT α] [DecidableEq α]

theorem length_uniqueInverse (l : List α) : (uniqueInverse l).length = l.length := by
  simp [uniqueInverse]

/-- contract of `return_inverse`: `unique(l)[inverse[i]] = l[i]` -/
theorem uniqueInverse_spec (l : List α) (i : Nat) (hi : i < l.length) :
    ∃ h : (uniqueInverse l)[i]'(by simpa [uniqueInverse] using hi) < (unique l).length,
      (unique l)[(uniqueInverse l)[i]'(by simpa [uniqueInverse] using hi)] = l[i] := by
  have hmem : l[i] ∈ unique l := mem_unique.mpr (List.getElem_mem hi)
  have hlt : (unique l).idxOf l[i] < (unique l).length := List.idxOf_lt_length_of_mem hmem
  have e : (uniqueInverse l)[i]'(by simpa [uniqueInverse] using hi) = (unique l).idxOf l[i] := by
    simp [uniqueInverse]
  refine ⟨by rw [e]; exact hlt, ?_⟩
  simp only [e]
  exact List.getElem_idxOf hlt

/-- contract of `return_index`: `l[index[j]] = unique(l)[j]` (and it is the first such index) -/
theorem uniqueIndex_spec (l : List α) (j : Nat) (hj : j < (unique l).length) :
    ∃ h : (uniqueIndex l)[j]'(by simpa [uniqueIndex] using hj) < l.length,
      l[(uniqueIndex l)[j]'(by simpa [uniqueIndex] using hj)] = (unique l)[j] := by
  have hmem : (unique l)[j] ∈ l := mem_unique.mp (List.getElem_mem hj)
  have hlt : l.idxOf (unique l)[j] < l.length := List.idxOf_lt_length_of_mem hmem
  have e : (uniqueIndex l)[j]'(by simpa [uniqueIndex] using hj) = l.idxOf (unique l)[j] := by
    simp [uniqueIndex]
  refine ⟨by rw [e]; exact hlt, ?_⟩
  simp only [e]
  exact List.getElem_idxOf hlt

end Inverse

end Skv
