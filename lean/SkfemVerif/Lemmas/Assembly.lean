import SkfemVerif.Model.Assembly
import SkfemVerif.Lemmas.Topology
import Mathlib.Algebra.BigOperators.Group.Finset.Basic
import Mathlib.Algebra.BigOperators.Group.Finset.Sigma
import Mathlib.Algebra.BigOperators.Pi
import Mathlib.Algebra.BigOperators.Ring.Finset
import Mathlib.Algebra.Module.Pi
import Mathlib.Tactic.Ring
/-
Helper lemmas about the E-asm model: list sums over `List.range` / `flatMap` as `Finset` sums,
flat positions in `flatMap`s of uniform rows, and COO bookkeeping.
-/
namespace Skv

/-! ### list sums over ranges are Finset sums -/

theorem sum_map_range {M : Type} [AddCommMonoid M] (n : Nat) (g : Nat → M) :
    ((List.range n).map g).sum = ∑ i ∈ Finset.range n, g i := by
  induction n with
  | zero => simp
  | succ n ih =>
    rw [List.range_succ, List.map_append, List.sum_append, ih, Finset.sum_range_succ]
    simp

theorem sum_map_flatMap_range {M β : Type} [AddCommMonoid M] (n : Nat) (g : Nat → List β)
    (h : β → M) :
    (((List.range n).flatMap g).map h).sum = ∑ i ∈ Finset.range n, ((g i).map h).sum := by
  induction n with
  | zero => simp
  | succ n ih =>
    rw [List.range_succ, List.flatMap_append, List.map_append, List.sum_append, ih,
      Finset.sum_range_succ]
    simp

/-! ### flat positions in a `flatMap` of uniform rows -/

theorem length_flatMap_range {β : Type} (n m : Nat) (g : Nat → List β)
    (hg : ∀ i < n, (g i).length = m) : ((List.range n).flatMap g).length = n * m := by
  have hrows : ∀ r ∈ (List.range n).map g, r.length = m := by
    intro r hr
    simp only [List.mem_map, List.mem_range] at hr
    obtain ⟨i, hi, rfl⟩ := hr
    exact hg i hi
  have := length_flatten_of_uniform _ m hrows
  simpa [List.flatMap] using this

theorem getElem?_flatMap_range {β : Type} (n m : Nat) (g : Nat → List β)
    (hg : ∀ i < n, (g i).length = m) (i k : Nat) (hi : i < n) (hk : k < m) :
    ((List.range n).flatMap g)[i * m + k]? = (g i)[k]? := by
  have hrows : ∀ r ∈ (List.range n).map g, r.length = m := by
    intro r hr
    simp only [List.mem_map, List.mem_range] at hr
    obtain ⟨i, hi, rfl⟩ := hr
    exact hg i hi
  obtain ⟨h1, h2⟩ := flatten_getElem_of_uniform _ m hrows i k (by simpa using hi) hk
  have e : (List.range n).flatMap g = ((List.range n).map g).flatten := by
    simp [List.flatMap]
  rw [e, List.getElem?_eq_getElem h1, h2]
  simp

/-! ### the assembled actions as Finset sums -/

section Ring
variable {K : Type} [CommRing K]

theorem kernelBil_eq_sum (nq : Nat) (f : Sample K → Sample K → Sample K → K)
    (ub vb : BasisData K) (w : Nat → Nat → Sample K) (dx : Nat → Nat → K) (j i k : Nat) :
    kernelBil nq f ub vb w dx j i k
      = ∑ q ∈ Finset.range nq, f (ub j k q) (vb i k q) (w k q) * dx k q := by
  unfold kernelBil
  exact sum_map_range nq _

theorem kernelLin_eq_sum (nq : Nat) (f : Sample K → Sample K → K)
    (vb : BasisData K) (w : Nat → Nat → Sample K) (dx : Nat → Nat → K) (i k : Nat) :
    kernelLin nq f vb w dx i k = ∑ q ∈ Finset.range nq, f (vb i k q) (w k q) * dx k q := by
  unfold kernelLin
  exact sum_map_range nq _

theorem actionBil_bilinearTriplets (Nu Nv nt nq : Nat) (f : Sample K → Sample K → Sample K → K)
    (ub vb : BasisData K) (w : Nat → Nat → Sample K) (dx : Nat → Nat → K)
    (udofs vdofs : Nat → Nat → Nat) (u v : Nat → K) :
    actionBil (bilinearTriplets Nu Nv nt nq f ub vb w dx udofs vdofs) u v
      = ∑ j ∈ Finset.range Nu, ∑ i ∈ Finset.range Nv, ∑ k ∈ Finset.range nt,
          v (vdofs i k) * kernelBil nq f ub vb w dx j i k * u (udofs j k) := by
  unfold actionBil bilinearTriplets
  rw [sum_map_flatMap_range]
  refine Finset.sum_congr rfl (fun j _ => ?_)
  rw [sum_map_flatMap_range]
  refine Finset.sum_congr rfl (fun i _ => ?_)
  rw [List.map_map, sum_map_range]
  rfl

theorem actionLin_linearPairs (Nv nt nq : Nat) (f : Sample K → Sample K → K)
    (vb : BasisData K) (w : Nat → Nat → Sample K) (dx : Nat → Nat → K)
    (vdofs : Nat → Nat → Nat) (v : Nat → K) :
    actionLin (linearPairs Nv nt nq f vb w dx vdofs) v
      = ∑ i ∈ Finset.range Nv, ∑ k ∈ Finset.range nt,
          v (vdofs i k) * kernelLin nq f vb w dx i k := by
  unfold actionLin linearPairs
  rw [sum_map_flatMap_range]
  refine Finset.sum_congr rfl (fun i _ => ?_)
  rw [List.map_map, sum_map_range]
  rfl

/-! ### linear maps on samples and finite linear combinations -/

theorem map_sum_smul_of_linear (g : Sample K → K)
    (hadd : ∀ a a', g (a + a') = g a + g a') (hsmul : ∀ (c : K) a, g (c • a) = c * g a)
    (hzero : g 0 = 0) (n : Nat) (c : Nat → K) (a : Nat → Sample K) :
    g (∑ j ∈ Finset.range n, c j • a j) = ∑ j ∈ Finset.range n, c j * g (a j) := by
  induction n with
  | zero => simpa using hzero
  | succ n ih => rw [Finset.sum_range_succ, Finset.sum_range_succ, hadd, hsmul, ih]

theorem sum_comm4 (s1 s2 s3 s4 : Finset Nat) (G : Nat → Nat → Nat → Nat → K) :
    ∑ k ∈ s3, ∑ q ∈ s4, ∑ j ∈ s1, ∑ i ∈ s2, G j i k q
      = ∑ j ∈ s1, ∑ i ∈ s2, ∑ k ∈ s3, ∑ q ∈ s4, G j i k q := by
  calc ∑ k ∈ s3, ∑ q ∈ s4, ∑ j ∈ s1, ∑ i ∈ s2, G j i k q
      = ∑ k ∈ s3, ∑ j ∈ s1, ∑ q ∈ s4, ∑ i ∈ s2, G j i k q :=
        Finset.sum_congr rfl (fun k _ => Finset.sum_comm)
    _ = ∑ j ∈ s1, ∑ k ∈ s3, ∑ q ∈ s4, ∑ i ∈ s2, G j i k q := Finset.sum_comm
    _ = ∑ j ∈ s1, ∑ k ∈ s3, ∑ i ∈ s2, ∑ q ∈ s4, G j i k q :=
        Finset.sum_congr rfl (fun j _ => Finset.sum_congr rfl (fun k _ => Finset.sum_comm))
    _ = ∑ j ∈ s1, ∑ i ∈ s2, ∑ k ∈ s3, ∑ q ∈ s4, G j i k q :=
        Finset.sum_congr rfl (fun j _ => Finset.sum_comm)

theorem sum_comm3 (s2 s3 s4 : Finset Nat) (G : Nat → Nat → Nat → K) :
    ∑ k ∈ s3, ∑ q ∈ s4, ∑ i ∈ s2, G i k q = ∑ i ∈ s2, ∑ k ∈ s3, ∑ q ∈ s4, G i k q := by
  calc ∑ k ∈ s3, ∑ q ∈ s4, ∑ i ∈ s2, G i k q
      = ∑ k ∈ s3, ∑ i ∈ s2, ∑ q ∈ s4, G i k q :=
        Finset.sum_congr rfl (fun k _ => Finset.sum_comm)
    _ = ∑ i ∈ s2, ∑ k ∈ s3, ∑ q ∈ s4, G i k q := Finset.sum_comm

/-- the pure sum reordering behind `vᵀ A u = a(u_h, v_h)` -/
theorem bilinear_sum_reorder (Nu Nv nt nq : Nat) (F : Nat → Nat → Nat → Nat → K)
    (cu cv dx : Nat → Nat → K) :
    ∑ j ∈ Finset.range Nu, ∑ i ∈ Finset.range Nv, ∑ k ∈ Finset.range nt,
        cv i k * (∑ q ∈ Finset.range nq, F j i k q * dx k q) * cu j k
      = ∑ k ∈ Finset.range nt, ∑ q ∈ Finset.range nq,
          (∑ j ∈ Finset.range Nu, ∑ i ∈ Finset.range Nv, cu j k * (cv i k * F j i k q)) * dx k q := by
  simp only [Finset.mul_sum, Finset.sum_mul]
  conv_rhs => rw [sum_comm4]
  refine Finset.sum_congr rfl (fun j _ => Finset.sum_congr rfl (fun i _ =>
    Finset.sum_congr rfl (fun k _ => Finset.sum_congr rfl (fun q _ => ?_))))
  ring

theorem linear_sum_reorder (Nv nt nq : Nat) (F : Nat → Nat → Nat → K) (cv dx : Nat → Nat → K) :
    ∑ i ∈ Finset.range Nv, ∑ k ∈ Finset.range nt,
        cv i k * (∑ q ∈ Finset.range nq, F i k q * dx k q)
      = ∑ k ∈ Finset.range nt, ∑ q ∈ Finset.range nq,
          (∑ i ∈ Finset.range Nv, cv i k * F i k q) * dx k q := by
  simp only [Finset.mul_sum, Finset.sum_mul]
  conv_rhs => rw [sum_comm3]
  refine Finset.sum_congr rfl (fun i _ => Finset.sum_congr rfl (fun k _ =>
    Finset.sum_congr rfl (fun q _ => ?_)))
  ring

/-! ### COO bookkeeping -/

theorem denseEntry_nil (r c : Nat) : denseEntry ([] : List (Nat × Nat × K)) r c = 0 := by
  simp [denseEntry]

theorem denseEntry_cons (t : Nat × Nat × K) (T : List (Nat × Nat × K)) (r c : Nat) :
    denseEntry (t :: T) r c
      = (if t.1 = r ∧ t.2.1 = c then t.2.2 else 0) + denseEntry T r c := by
  unfold denseEntry
  by_cases h : t.1 = r ∧ t.2.1 = c
  · simp [h]
  · have h' : (t.1 == r && t.2.1 == c) = false := by
      simpa using h
    simp [h, h']

theorem actionBil_cons (t : Nat × Nat × K) (T : List (Nat × Nat × K)) (u v : Nat → K) :
    actionBil (t :: T) u v = v t.1 * t.2.2 * u t.2.1 + actionBil T u v := by
  simp [actionBil]

theorem actionBil_eq_dense (T : List (Nat × Nat × K)) (Nr Nc : Nat)
    (hT : ∀ t ∈ T, t.1 < Nr ∧ t.2.1 < Nc) (u v : Nat → K) :
    actionBil T u v
      = ∑ r ∈ Finset.range Nr, ∑ c ∈ Finset.range Nc, v r * denseEntry T r c * u c := by
  induction T with
  | nil => simp [actionBil, denseEntry_nil]
  | cons t T ih =>
    have ht := hT t (by simp)
    have ih' := ih (fun t' h' => hT t' (by simp [h']))
    simp only [denseEntry_cons, mul_add, add_mul, Finset.sum_add_distrib]
    rw [actionBil_cons, ← ih']
    congr 1
    rw [Finset.sum_eq_single t.1, Finset.sum_eq_single t.2.1]
    · simp
    · intro c _ hc
      simp [Ne.symm hc]
    · intro h
      exact absurd (Finset.mem_range.2 ht.2) h
    · intro r _ hr
      apply Finset.sum_eq_zero
      intro c _
      simp [Ne.symm hr]
    · intro h
      exact absurd (Finset.mem_range.2 ht.1) h

theorem denseEntry_filter_ne_zero [DecidableEq K] (T : List (Nat × Nat × K)) (r c : Nat) :
    denseEntry (T.filter (fun t => t.2.2 ≠ 0)) r c = denseEntry T r c := by
  induction T with
  | nil => rfl
  | cons t T ih =>
    by_cases h : t.2.2 = 0
    · rw [List.filter_cons_of_neg (by simpa using h), ih, denseEntry_cons, h]
      simp
    · rw [List.filter_cons_of_pos (by simpa using h), denseEntry_cons, denseEntry_cons, ih]

theorem exists_mem_of_denseEntry_ne_zero (T : List (Nat × Nat × K)) (r c : Nat)
    (h : denseEntry T r c ≠ 0) : ∃ t ∈ T, t.1 = r ∧ t.2.1 = c := by
  induction T with
  | nil => exact absurd (denseEntry_nil r c) h
  | cons t T ih =>
    by_cases ht : t.1 = r ∧ t.2.1 = c
    · exact ⟨t, by simp, ht⟩
    · rw [denseEntry_cons, if_neg ht, zero_add] at h
      obtain ⟨t', h1, h2⟩ := ih h
      exact ⟨t', by simp [h1], h2⟩

end Ring

end Skv
