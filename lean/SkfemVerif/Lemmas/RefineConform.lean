import SkfemVerif.Lemmas.RefineUniform
/-
Conformity of uniform refinement (E-ref): the refined facets lying on a facet of the old mesh are
the same from both neighbouring cells.  Word-level facts are decided on the templates; a generic
lemma transports them to every mesh through the C11 sharing property of `t2e` / `t2f`.
-/
namespace Skv.Refine
open Skv

/-! ### conformity: child facets on a parent facet -/

/-- numeric code of a word (for canonical ordering of word tuples) -/
def Src.code : Src → Nat
  | .v i => 4 * i
  | .e j => 4 * j + 1
  | .f j => 4 * j + 2
  | .c => 3

/-- local vertices of the parent entity a word is the midpoint of -/
def Src.support (kd : Kind) : Src → List Nat
  | .v i => [i]
  | .e j => kd.edges.getD j []
  | .f j => kd.facets.getD j []
  | .c => List.range kd.nverts

/-- does the point named by `w` lie on the parent's facet `s`? (its supporting entity is contained
    in the facet) -/
def Src.onFacet (kd : Kind) (s : Nat) (w : Src) : Bool :=
  (w.support kd).all (fun i => (kd.facets.getD s []).contains i)

/-- the facets of a child `w`, as word tuples -/
def childFacetWords (kd : Kind) (w : List Src) : List (List Src) :=
  kd.facets.map (fun slot => slot.map (fun i => w.getD i default))

/-- the child facets of template `T` that lie on the parent's facet `s` -/
def facetWordsOn (kd : Kind) (T : Template) (s : Nat) : List (List Src) :=
  (T.flatMap (childFacetWords kd)).filter (fun fw => fw.all (Src.onFacet kd s))

/-- the child facets of template `T` that lie on no facet of the parent -/
def interiorFacetWords (kd : Kind) (T : Template) : List (List Src) :=
  (T.flatMap (childFacetWords kd)).filter
    (fun fw => (List.range kd.facets.length).all (fun s => !(fw.all (Src.onFacet kd s))))

/-- insertion of a word into a tuple ordered by code -/
def insertW (x : Src) : List Src → List Src
  | [] => [x]
  | y :: ys => if x.code ≤ y.code then x :: y :: ys else y :: insertW x ys

/-- canonical form of a word tuple -/
def canonW (l : List Src) : List Src := l.foldr insertW []

theorem perm_insertW (x : Src) (l : List Src) : (insertW x l).Perm (x :: l) := by
  induction l with
  | nil => simp [insertW]
  | cons y ys ih =>
    simp only [insertW]
    split
    · exact List.Perm.refl _
    · exact (List.Perm.cons y ih).trans (List.Perm.swap x y ys)

theorem perm_canonW (l : List Src) : (canonW l).Perm l := by
  induction l with
  | nil => simp [canonW]
  | cons x xs ih =>
    have : canonW (x :: xs) = insertW x (canonW xs) := rfl
    rw [this]
    exact (perm_insertW x _).trans (List.Perm.cons x ih)

/-- the sorted vertex tuple of a realized word tuple depends on the set of words only -/
theorem tuple_canonW (g : Src → Nat) (fw : List Src) :
    sortCol ((canonW fw).map g) = sortCol (fw.map g) :=
  sortCol_congr ((perm_canonW fw).map g)

/-! #### local correspondences between two cells along a common facet -/

/-- symmetries of the positions in a facet: all permutations for simplices, the dihedral group
    for the quadrilateral faces of a hexahedron (two cells that share a face traverse it in the
    same cyclic order up to rotation and reflection) -/
def posSyms : Kind → List (List Nat)
  | .line => [[0]]
  | .tri => [[0, 1], [1, 0]]
  | .quad => [[0, 1], [1, 0]]
  | .tet => [[0, 1, 2], [0, 2, 1], [1, 0, 2], [1, 2, 0], [2, 0, 1], [2, 1, 0]]
  | .hex => [[0, 1, 2, 3], [1, 2, 3, 0], [2, 3, 0, 1], [3, 0, 1, 2],
             [3, 2, 1, 0], [2, 1, 0, 3], [1, 0, 3, 2], [0, 3, 2, 1]]

/-- admissible correspondences local vertex of facet `s` ↦ local vertex of facet `s'` -/
def admissible (kd : Kind) (s s' : Nat) : List (List (Nat × Nat)) :=
  (posSyms kd).map (fun σ =>
    (kd.facets.getD s []).zip (σ.map (fun q => (kd.facets.getD s' []).getD q 0)))

def applyPi (π : List (Nat × Nat)) (i : Nat) : Nat := ((π.find? (·.1 == i)).map (·.2)).getD 0

def findSlot (ref : List (List Nat)) (target : List Nat) : Nat :=
  ref.findIdx (fun r => sortCol r == sortCol target)

/-- the word of the second cell naming the same point -/
def mapSrc (kd : Kind) (π : List (Nat × Nat)) : Src → Src
  | .v i => .v (applyPi π i)
  | .e j => .e (findSlot kd.edges ((kd.edges.getD j []).map (applyPi π)))
  | .f j => .f (findSlot kd.facets ((kd.facets.getD j []).map (applyPi π)))
  | .c => .c

def mapOk (kd : Kind) (π : List (Nat × Nat)) : Src → Bool
  | .v _ => true
  | .e j => j < kd.edges.length && findSlot kd.edges ((kd.edges.getD j []).map (applyPi π)) < kd.edges.length
  | .f j => kd != .tet && j < kd.facets.length &&
      findSlot kd.facets ((kd.facets.getD j []).map (applyPi π)) < kd.facets.length
  | .c => false

theorem findSlot_spec (ref : List (List Nat)) (target : List Nat) (h : findSlot ref target < ref.length) :
    (ref.getD (findSlot ref target) []).Perm target := by
  have := @List.findIdx_getElem _ (fun r => sortCol r == sortCol target) ref h
  simp only [beq_iff_eq] at this
  rw [List.getD_eq_getElem?_getD, List.getElem?_eq_getElem h, Option.getD_some]
  exact ((perm_sortCol _).symm.trans (this ▸ List.Perm.refl _)).trans (perm_sortCol _)

theorem slotCol_map (c' : List Nat) (l : List Nat) (g : Nat → Nat) :
    slotCol c' (l.map g) = l.map (fun i => c'.getD (g i) 0) := by
  simp [slotCol, List.map_map, Function.comp_def]

/-- two local entities related by the correspondence have the same sorted global vertex tuple -/
theorem slot_transport (c c' ent ent' : List Nat) (g : Nat → Nat)
    (hperm : ent'.Perm (ent.map g)) (hmatch : ∀ i ∈ ent, c.getD i 0 = c'.getD (g i) 0) :
    sortCol (slotCol c ent) = sortCol (slotCol c' ent') := by
  apply sortCol_congr
  have h1 : (slotCol c' ent').Perm (slotCol c' (ent.map g)) := hperm.map _
  rw [slotCol_map] at h1
  have h2 : ent.map (fun i => c'.getD (g i) 0) = slotCol c ent := by
    simp only [slotCol]
    apply List.map_congr_left
    intro i hi
    exact (hmatch i hi).symm
  rw [h2] at h1
  exact h1.symm

/-- the tables of the numbering environment are those of `build_entities` -/
structure EnvOk (kd : Kind) (E : Env) : Prop where
  t2e : E.t2e = entityMapping E.cells kd.edges
  t2f : kd ≠ .tet → E.t2f = entityMapping E.cells kd.facets

theorem mem_of_all_contains {l s : List Nat} (h : l.all (fun i => s.contains i) = true) :
    ∀ i ∈ l, i ∈ s := by
  intro i hi
  have := List.all_eq_true.mp h i hi
  simpa using this

/-- **transport of a word**: a point on the common facet has the same global number from
    both cells -/
theorem num_mapSrc (kd : Kind) (E : Env) (hE : EnvOk kd E) (k k' : Nat) (hk : k < E.cells.length)
    (hk' : k' < E.cells.length) (s : Nat) (π : List (Nat × Nat))
    (hmatch : ∀ i ∈ kd.facets.getD s [],
      (E.cells.getD k []).getD i 0 = (E.cells.getD k' []).getD (applyPi π i) 0)
    (w : Src) (hon : w.onFacet kd s = true) (hok : mapOk kd π w = true) :
    E.num k w = E.num k' (mapSrc kd π w) := by
  have hsup := mem_of_all_contains hon
  have ec : E.cells.getD k [] = E.cells[k] := getD_cells _ _ hk
  have ec' : E.cells.getD k' [] = E.cells[k'] := getD_cells _ _ hk'
  cases w with
  | v i =>
    simp only [Env.num, mapSrc]
    exact hmatch i (hsup i (by simp [Src.support]))
  | c => simp [mapOk] at hok
  | e j =>
    simp only [mapOk, Bool.and_eq_true, decide_eq_true_eq] at hok
    obtain ⟨hj, hj'⟩ := hok
    have hperm := findSlot_spec _ _ hj'
    have hm : ∀ i ∈ kd.edges.getD j [], (E.cells.getD k []).getD i 0
        = (E.cells.getD k' []).getD (applyPi π i) 0 :=
      fun i hi => hmatch i (hsup i (by simpa [Src.support] using hi))
    have hst := slot_transport _ _ _ _ _ hperm hm
    simp only [Env.num, mapSrc, hE.t2e]
    congr 1
    apply (C11.C11_same_entity_iff E.cells kd.edges j k _ k' hj hk hj' hk').mpr
    rw [← ec, ← ec']
    rw [← getD_cells _ _ hj, ← getD_cells _ _ hj']
    exact hst
  | f j =>
    simp only [mapOk, Bool.and_eq_true, decide_eq_true_eq, bne_iff_ne, ne_eq] at hok
    obtain ⟨⟨hne, hj⟩, hj'⟩ := hok
    have hperm := findSlot_spec _ _ hj'
    have hm : ∀ i ∈ kd.facets.getD j [], (E.cells.getD k []).getD i 0
        = (E.cells.getD k' []).getD (applyPi π i) 0 :=
      fun i hi => hmatch i (hsup i (by simpa [Src.support] using hi))
    have hst := slot_transport _ _ _ _ _ hperm hm
    simp only [Env.num, mapSrc, hE.t2f hne]
    congr 1
    apply (C11.C11_same_entity_iff E.cells kd.facets j k _ k' hj hk hj' hk').mpr
    rw [← ec, ← ec']
    rw [← getD_cells _ _ hj, ← getD_cells _ _ hj']
    exact hst

/-- template-level check: every refined facet of `T` on facet `s` is, after transport along `π`,
    a refined facet of `T'` on facet `s'`, and conversely (as multisets of word sets) -/
def conformCheck (kd : Kind) (T T' : Template) (s s' : Nat) (π : List (Nat × Nat)) : Bool :=
  (facetWordsOn kd T s).all (fun fw => fw.all (mapOk kd π)) &&
  decide (((facetWordsOn kd T s).map (fun fw => canonW (fw.map (mapSrc kd π)))).Perm
          ((facetWordsOn kd T' s').map canonW))

/-- the sorted global vertex tuples of the refined facets of cell `k` lying on its facet `s` -/
def refinedFacetsOn (kd : Kind) (E : Env) (T : Template) (k s : Nat) : List (List Nat) :=
  (facetWordsOn kd T s).map (fun fw => sortCol (fw.map (E.num k)))

theorem facetWordsOn_onFacet (kd : Kind) (T : Template) (s : Nat) :
    ∀ fw ∈ facetWordsOn kd T s, ∀ w ∈ fw, w.onFacet kd s = true := by
  intro fw hfw w hw
  simp only [facetWordsOn, List.mem_filter] at hfw
  exact List.all_eq_true.mp hfw.2 w hw

/-- **conformity, generic form**: if two cells match along an admissible correspondence of a
    common facet and the template check holds, the refined facets on it coincide -/
theorem refinedFacets_agree (kd : Kind) (E : Env) (hE : EnvOk kd E) (k k' : Nat) (hk : k < E.cells.length)
    (hk' : k' < E.cells.length) (s s' : Nat) (π : List (Nat × Nat)) (T T' : Template)
    (hmatch : ∀ i ∈ kd.facets.getD s [],
      (E.cells.getD k []).getD i 0 = (E.cells.getD k' []).getD (applyPi π i) 0)
    (hcheck : conformCheck kd T T' s s' π = true) :
    (refinedFacetsOn kd E T k s).Perm (refinedFacetsOn kd E T' k' s') := by
  simp only [conformCheck, Bool.and_eq_true, decide_eq_true_eq] at hcheck
  obtain ⟨hok, hperm⟩ := hcheck
  have h1 : refinedFacetsOn kd E T k s
      = ((facetWordsOn kd T s).map (fun fw => canonW (fw.map (mapSrc kd π)))).map
          (fun fw => sortCol (fw.map (E.num k'))) := by
    simp only [refinedFacetsOn, List.map_map]
    apply List.map_congr_left
    intro fw hfw
    simp only [Function.comp_def, tuple_canonW, List.map_map]
    congr 1
    apply List.map_congr_left
    intro w hw
    exact num_mapSrc kd E hE k k' hk hk' s π hmatch w (facetWordsOn_onFacet kd T s fw hfw w hw)
      (List.all_eq_true.mp (List.all_eq_true.mp hok fw hfw) w hw)
  have h2 : refinedFacetsOn kd E T' k' s'
      = ((facetWordsOn kd T' s').map canonW).map (fun fw => sortCol (fw.map (E.num k'))) := by
    simp only [refinedFacetsOn, List.map_map]
    apply List.map_congr_left
    intro fw _
    simp only [Function.comp_def, tuple_canonW]
  rw [h1, h2]
  exact hperm.map _


/-- the child lists of a cell type (tetrahedra: one per choice of the inner diagonal) -/
def tmpls : Kind → List Template
  | .line => [lineT]
  | .tri => [triT]
  | .quad => [quadT]
  | .hex => [hexT]
  | .tet => [tetCornerT ++ tetMidT 0, tetCornerT ++ tetMidT 1, tetCornerT ++ tetMidT 2]

def allConform (kd : Kind) : Bool :=
  (List.range kd.facets.length).all fun s => (List.range kd.facets.length).all fun s' =>
    (admissible kd s s').all fun π => (tmpls kd).all fun T => (tmpls kd).all fun T' =>
      conformCheck kd T T' s s' π

theorem allConform_line : allConform .line = true := by decide
theorem allConform_tri : allConform .tri = true := by decide
theorem allConform_quad : allConform .quad = true := by decide
theorem allConform_tet : allConform .tet = true := by decide +kernel
theorem allConform_hex : allConform .hex = true := by decide +kernel
theorem envOf_ok (kd : Kind) (m : MeshData) : EnvOk kd (envOf kd m) := by
  cases kd <;> constructor <;>
    simp [envOf, facetTable, edgeTable, buildEntities, Kind.edges, Kind.facets, entityMapping, reshapeRows]

theorem envOf_cells (kd : Kind) (m : MeshData) : (envOf kd m).cells = m.cells := by
  cases kd <;> rfl

/-- **conformity**: two cells `k`, `k'` of any mesh whose facets `s`, `s'` coincide along an
    admissible local correspondence `π` (all bijections for points / segments / triangles, the
    dihedral ones for quadrilateral faces) produce the same refined facets there, whatever inner
    diagonals the two tetrahedra choose -/
theorem conforming (kd : Kind) (m : MeshData) (k k' : Nat) (hk : k < m.cells.length)
    (hk' : k' < m.cells.length) (s s' : Nat) (hs : s < kd.facets.length) (hs' : s' < kd.facets.length)
    (π : List (Nat × Nat)) (hπ : π ∈ admissible kd s s') (T T' : Template) (hT : T ∈ tmpls kd)
    (hT' : T' ∈ tmpls kd)
    (hmatch : ∀ i ∈ kd.facets.getD s [],
      (m.cells.getD k []).getD i 0 = (m.cells.getD k' []).getD (applyPi π i) 0) :
    (refinedFacetsOn kd (envOf kd m) T k s).Perm (refinedFacetsOn kd (envOf kd m) T' k' s') := by
  have hall : allConform kd = true := by
    cases kd
    · exact allConform_line
    · exact allConform_tri
    · exact allConform_quad
    · exact allConform_tet
    · exact allConform_hex
  simp only [allConform, List.all_eq_true, List.mem_range] at hall
  have hc := hall s hs s' hs' π hπ T hT T' hT'
  exact refinedFacets_agree kd (envOf kd m) (envOf_ok kd m) k k' (by rw [envOf_cells]; exact hk)
    (by rw [envOf_cells]; exact hk') s s' π T T' (by rw [envOf_cells]; exact hmatch) hc

/-- inside one parent every refined facet that lies on none of its facets is shared by exactly
    two children, and the refined facets on the parent's facets are pairwise different -/
def interiorPaired (kd : Kind) (T : Template) : Bool :=
  let L := (interiorFacetWords kd T).map canonW
  let B := ((List.range kd.facets.length).flatMap (facetWordsOn kd T)).map canonW
  L.all (fun x => L.count x == 2) && B.all (fun x => B.count x == 1) &&
  L.length + B.length == (T.flatMap (childFacetWords kd)).length

theorem interior_paired : ∀ kd : Kind, (tmpls kd).all (interiorPaired kd) = true := by
  intro kd; cases kd <;> decide +kernel

/-! #### a common facet yields an admissible correspondence -/

theorem pair_perm_cases {x y x' y' : Nat} (hp : [x, y].Perm [x', y']) :
    (x = x' ∧ y = y') ∨ (x = y' ∧ y = x') := by
  have hx : x ∈ [x', y'] := hp.mem_iff.mp (by simp)
  simp only [List.mem_cons, List.not_mem_nil, or_false] at hx
  rcases hx with rfl | rfl
  · left
    have := (List.perm_cons x).mp hp
    exact ⟨rfl, by simpa using this.eq_singleton⟩
  · right
    have h2 : [x, y].Perm [x, x'] := hp.trans (List.Perm.swap x x' [])
    have := (List.perm_cons x).mp h2
    exact ⟨rfl, by simpa using this.eq_singleton⟩

theorem triple_perm_cases {x y z x' y' z' : Nat} (hp : [x, y, z].Perm [x', y', z']) :
    (x = x' ∧ y = y' ∧ z = z') ∨ (x = x' ∧ y = z' ∧ z = y') ∨
    (x = y' ∧ y = x' ∧ z = z') ∨ (x = y' ∧ y = z' ∧ z = x') ∨
    (x = z' ∧ y = x' ∧ z = y') ∨ (x = z' ∧ y = y' ∧ z = x') := by
  have hx : x ∈ [x', y', z'] := hp.mem_iff.mp (by simp)
  simp only [List.mem_cons, List.not_mem_nil, or_false] at hx
  rcases hx with rfl | rfl | rfl
  · have := (List.perm_cons x).mp hp
    rcases pair_perm_cases this with ⟨a, b⟩ | ⟨a, b⟩
    · exact Or.inl ⟨rfl, a, b⟩
    · exact Or.inr (Or.inl ⟨rfl, a, b⟩)
  · have h2 : [x, y, z].Perm [x, x', z'] := hp.trans (List.Perm.swap x x' [z'])
    have := (List.perm_cons x).mp h2
    rcases pair_perm_cases this with ⟨a, b⟩ | ⟨a, b⟩
    · exact Or.inr (Or.inr (Or.inl ⟨rfl, a, b⟩))
    · exact Or.inr (Or.inr (Or.inr (Or.inl ⟨rfl, a, b⟩)))
  · have h2 : [x, y, z].Perm [x, x', y'] := by
      have e1 : [x', y', x].Perm [x', x, y'] := List.Perm.cons x' (List.Perm.swap x y' [])
      have e2 : [x', x, y'].Perm [x, x', y'] := List.Perm.swap x x' [y']
      exact hp.trans (e1.trans e2)
    have := (List.perm_cons x).mp h2
    rcases pair_perm_cases this with ⟨a, b⟩ | ⟨a, b⟩
    · exact Or.inr (Or.inr (Or.inr (Or.inr (Or.inl ⟨rfl, a, b⟩))))
    · exact Or.inr (Or.inr (Or.inr (Or.inr (Or.inr ⟨rfl, a, b⟩))))

theorem pair_cases' {x y x' y' : Nat} (h : sortCol [x, y] = sortCol [x', y']) :
    (x = x' ∧ y = y') ∨ (x = y' ∧ y = x') :=
  pair_perm_cases (((perm_sortCol [x, y]).symm.trans (h ▸ List.Perm.refl _)).trans (perm_sortCol [x', y']))

/-- facets with two vertices: two cells that name the same facet (same sorted vertex pair) match
    along one of the two admissible correspondences -/
theorem shared_facet_admissible_pair (kd : Kind) (hsym : posSyms kd = [[0, 1], [1, 0]])
    (c c' : List Nat) (s s' i j i' j' : Nat) (hs : kd.facets.getD s [] = [i, j])
    (hs' : kd.facets.getD s' [] = [i', j']) (hij : i ≠ j)
    (hshare : sortCol (slotCol c (kd.facets.getD s [])) = sortCol (slotCol c' (kd.facets.getD s' []))) :
    ∃ π ∈ admissible kd s s', ∀ a ∈ kd.facets.getD s [], c.getD a 0 = c'.getD (applyPi π a) 0 := by
  rw [hs, hs'] at hshare
  simp only [slotCol, List.map_cons, List.map_nil] at hshare
  have hji : (j == i) = false := by simpa using (Ne.symm hij)
  have hs2 := hs
  have hs2' := hs'
  simp only [List.getD_eq_getElem?_getD] at hs2 hs2'
  rcases pair_cases' hshare with ⟨h1, h2⟩ | ⟨h1, h2⟩
  · refine ⟨[(i, i'), (j, j')], ?_, ?_⟩
    · simp [admissible, hsym, hs2, hs2']
    · intro a ha
      rw [hs] at ha
      simp only [List.mem_cons, List.not_mem_nil, or_false] at ha
      rcases ha with rfl | rfl
      · simpa [applyPi] using h1
      · have : (i == a) = false := by simpa using hij
        simpa [applyPi, List.find?_cons, this] using h2
  · refine ⟨[(i, j'), (j, i')], ?_, ?_⟩
    · simp [admissible, hsym, hs2, hs2']
    · intro a ha
      rw [hs] at ha
      simp only [List.mem_cons, List.not_mem_nil, or_false] at ha
      rcases ha with rfl | rfl
      · simpa [applyPi] using h1
      · have : (i == a) = false := by simpa using hij
        simpa [applyPi, List.find?_cons, this] using h2

theorem shared_facet_admissible_tri (c c' : List Nat) (s s' : Nat) (hs : s < 3) (hs' : s' < 3)
    (hshare : sortCol (slotCol c (triFacets.getD s [])) = sortCol (slotCol c' (triFacets.getD s' []))) :
    ∃ π ∈ admissible .tri s s', ∀ a ∈ triFacets.getD s [], c.getD a 0 = c'.getD (applyPi π a) 0 := by
  have h1 : ∃ i j, triFacets.getD s [] = [i, j] ∧ i ≠ j := by
    have : s = 0 ∨ s = 1 ∨ s = 2 := by omega
    rcases this with rfl | rfl | rfl
    · exact ⟨0, 1, rfl, by decide⟩
    · exact ⟨1, 2, rfl, by decide⟩
    · exact ⟨0, 2, rfl, by decide⟩
  have h2 : ∃ i j, triFacets.getD s' [] = [i, j] := by
    have : s' = 0 ∨ s' = 1 ∨ s' = 2 := by omega
    rcases this with rfl | rfl | rfl
    · exact ⟨0, 1, rfl⟩
    · exact ⟨1, 2, rfl⟩
    · exact ⟨0, 2, rfl⟩
  obtain ⟨i, j, e, hij⟩ := h1
  obtain ⟨i', j', e'⟩ := h2
  exact shared_facet_admissible_pair .tri rfl c c' s s' i j i' j' e e' hij hshare

theorem shared_facet_admissible_quad (c c' : List Nat) (s s' : Nat) (hs : s < 4) (hs' : s' < 4)
    (hshare : sortCol (slotCol c (quadFacets.getD s [])) = sortCol (slotCol c' (quadFacets.getD s' []))) :
    ∃ π ∈ admissible .quad s s', ∀ a ∈ quadFacets.getD s [], c.getD a 0 = c'.getD (applyPi π a) 0 := by
  have h1 : ∃ i j, quadFacets.getD s [] = [i, j] ∧ i ≠ j := by
    have : s = 0 ∨ s = 1 ∨ s = 2 ∨ s = 3 := by omega
    rcases this with rfl | rfl | rfl | rfl
    · exact ⟨0, 1, rfl, by decide⟩
    · exact ⟨1, 2, rfl, by decide⟩
    · exact ⟨2, 3, rfl, by decide⟩
    · exact ⟨0, 3, rfl, by decide⟩
  have h2 : ∃ i j, quadFacets.getD s' [] = [i, j] := by
    have : s' = 0 ∨ s' = 1 ∨ s' = 2 ∨ s' = 3 := by omega
    rcases this with rfl | rfl | rfl | rfl
    · exact ⟨0, 1, rfl⟩
    · exact ⟨1, 2, rfl⟩
    · exact ⟨2, 3, rfl⟩
    · exact ⟨0, 3, rfl⟩
  obtain ⟨i, j, e, hij⟩ := h1
  obtain ⟨i', j', e'⟩ := h2
  exact shared_facet_admissible_pair .quad rfl c c' s s' i j i' j' e e' hij hshare

/-- triangular facets: two tetrahedra that name the same facet (same sorted vertex triple) match
    along one of the six admissible correspondences -/
theorem shared_facet_admissible_tet (c c' : List Nat) (s s' : Nat) (hs : s < 4) (hs' : s' < 4)
    (hshare : sortCol (slotCol c (tetFacets.getD s [])) = sortCol (slotCol c' (tetFacets.getD s' []))) :
    ∃ π ∈ admissible .tet s s', ∀ a ∈ tetFacets.getD s [], c.getD a 0 = c'.getD (applyPi π a) 0 := by
  have h1 : ∃ i0 i1 i2, tetFacets.getD s [] = [i0, i1, i2] ∧ i0 ≠ i1 ∧ i0 ≠ i2 ∧ i1 ≠ i2 := by
    have : s = 0 ∨ s = 1 ∨ s = 2 ∨ s = 3 := by omega
    rcases this with rfl | rfl | rfl | rfl
    · exact ⟨0, 1, 2, rfl, by decide, by decide, by decide⟩
    · exact ⟨0, 1, 3, rfl, by decide, by decide, by decide⟩
    · exact ⟨0, 2, 3, rfl, by decide, by decide, by decide⟩
    · exact ⟨1, 2, 3, rfl, by decide, by decide, by decide⟩
  have h2 : ∃ j0 j1 j2, tetFacets.getD s' [] = [j0, j1, j2] := by
    have : s' = 0 ∨ s' = 1 ∨ s' = 2 ∨ s' = 3 := by omega
    rcases this with rfl | rfl | rfl | rfl
    · exact ⟨0, 1, 2, rfl⟩
    · exact ⟨0, 1, 3, rfl⟩
    · exact ⟨0, 2, 3, rfl⟩
    · exact ⟨1, 2, 3, rfl⟩
  obtain ⟨i0, i1, i2, e, h01, h02, h12⟩ := h1
  obtain ⟨j0, j1, j2, e'⟩ := h2
  rw [e, e'] at hshare
  simp only [slotCol, List.map_cons, List.map_nil] at hshare
  have hp : [c.getD i0 0, c.getD i1 0, c.getD i2 0].Perm [c'.getD j0 0, c'.getD j1 0, c'.getD j2 0] :=
    ((perm_sortCol _).symm.trans (hshare ▸ List.Perm.refl _)).trans (perm_sortCol _)
  have e2 := e
  have e2' := e'
  simp only [List.getD_eq_getElem?_getD] at e2 e2'
  have b10 : (i0 == i1) = false := by simpa using h01
  have b20 : (i0 == i2) = false := by simpa using h02
  have b21 : (i1 == i2) = false := by simpa using h12
  have key : ∀ k0 k1 k2, c.getD i0 0 = c'.getD k0 0 → c.getD i1 0 = c'.getD k1 0 →
      c.getD i2 0 = c'.getD k2 0 → [(i0, k0), (i1, k1), (i2, k2)] ∈ admissible .tet s s' →
      ∃ π ∈ admissible .tet s s', ∀ a ∈ tetFacets.getD s [], c.getD a 0 = c'.getD (applyPi π a) 0 := by
    intro k0 k1 k2 g0 g1 g2 hmem
    refine ⟨_, hmem, ?_⟩
    intro a ha
    rw [e] at ha
    simp only [List.mem_cons, List.not_mem_nil, or_false] at ha
    rcases ha with rfl | rfl | rfl
    · simpa [applyPi] using g0
    · simpa [applyPi, List.find?_cons, b10] using g1
    · simpa [applyPi, List.find?_cons, b20, b21] using g2
  rcases triple_perm_cases hp with ⟨a, b, d⟩ | ⟨a, b, d⟩ | ⟨a, b, d⟩ | ⟨a, b, d⟩ | ⟨a, b, d⟩ | ⟨a, b, d⟩
  · exact key j0 j1 j2 a b d (by simp [admissible, posSyms, Kind.facets, e2, e2'])
  · exact key j0 j2 j1 a b d (by simp [admissible, posSyms, Kind.facets, e2, e2'])
  · exact key j1 j0 j2 a b d (by simp [admissible, posSyms, Kind.facets, e2, e2'])
  · exact key j1 j2 j0 a b d (by simp [admissible, posSyms, Kind.facets, e2, e2'])
  · exact key j2 j0 j1 a b d (by simp [admissible, posSyms, Kind.facets, e2, e2'])
  · exact key j2 j1 j0 a b d (by simp [admissible, posSyms, Kind.facets, e2, e2'])

theorem shared_facet_admissible_line (c c' : List Nat) (s s' : Nat) (hs : s < 2) (hs' : s' < 2)
    (hshare : sortCol (slotCol c (lineFacets.getD s [])) = sortCol (slotCol c' (lineFacets.getD s' []))) :
    ∃ π ∈ admissible .line s s', ∀ a ∈ lineFacets.getD s [], c.getD a 0 = c'.getD (applyPi π a) 0 := by
  have h1 : lineFacets.getD s [] = [s] := by
    have : s = 0 ∨ s = 1 := by omega
    rcases this with rfl | rfl <;> rfl
  have h2 : lineFacets.getD s' [] = [s'] := by
    have : s' = 0 ∨ s' = 1 := by omega
    rcases this with rfl | rfl <;> rfl
  rw [h1, h2] at hshare
  simp only [slotCol, List.map_cons, List.map_nil, sortCol, List.foldr, insertSorted, List.cons.injEq,
    and_true] at hshare
  have e1 := h1
  have e2 := h2
  simp only [List.getD_eq_getElem?_getD] at e1 e2
  refine ⟨[(s, s')], by simp [admissible, posSyms, Kind.facets, e1, e2], ?_⟩
  intro a ha
  rw [h1] at ha
  simp only [List.mem_singleton] at ha
  subst ha
  simpa [applyPi] using hshare
end Skv.Refine
