import SkfemVerif.Lemmas.RefineUniform
import Mathlib.Algebra.Order.Ring.Abs
import Mathlib.Algebra.Order.Field.Basic
/-
Exact rational geometry of the refinement templates (E-ref): every statement is for ARBITRARY
rational vertex coordinates of the parent cell, i.e. for every straight cell, not only for the
reference cell (the identities are polynomial identities, closed by `ring`/`linarith`).
-/
namespace Skv.Refine
open Skv

/-! ### exact geometry of the templates -/

/-- coordinate `c` of a point -/
abbrev co (a : Pt) (c : Nat) : Rat := a.getD c 0

/-- signed length / twice the signed area / six times the signed volume of a simplex given by the
    list of its vertices -/
def simplexMeasure : Kind → List Pt → Rat
  | .line, X => co (X.getD 1 []) 0 - co (X.getD 0 []) 0
  | .tri, X =>
    let a := X.getD 0 []; let b := X.getD 1 []; let c := X.getD 2 []
    (co b 0 - co a 0) * (co c 1 - co a 1) - (co b 1 - co a 1) * (co c 0 - co a 0)
  | .tet, X =>
    let a := X.getD 0 []; let b := X.getD 1 []; let c := X.getD 2 []; let d := X.getD 3 []
    (co b 0 - co a 0) * ((co c 1 - co a 1) * (co d 2 - co a 2) - (co c 2 - co a 2) * (co d 1 - co a 1))
    - (co b 1 - co a 1) * ((co c 0 - co a 0) * (co d 2 - co a 2) - (co c 2 - co a 2) * (co d 0 - co a 0))
    + (co b 2 - co a 2) * ((co c 0 - co a 0) * (co d 1 - co a 1) - (co c 1 - co a 1) * (co d 0 - co a 0))
  | _, _ => 0

/-- positions of the vertices of a child -/
def childPts (kd : Kind) (X : List Pt) (w : List Src) : List Pt := w.map (wordPt kd X)

theorem line_template (a b : Rat) :
    lineT.map (fun w => simplexMeasure .line (childPts .line [[a], [b]] w))
      = [simplexMeasure .line [[a], [b]] / 2, simplexMeasure .line [[a], [b]] / 2] := by
  simp [lineT, childPts, wordPt, simplexMeasure, meanPts, sumPts, scalePt, addPt, Kind.dim]
  constructor <;> ring

theorem tri_template (x0 y0 x1 y1 x2 y2 : Rat) :
    triT.map (fun w => simplexMeasure .tri (childPts .tri [[x0, y0], [x1, y1], [x2, y2]] w))
      = [1, -1, 1, 1].map (fun s => s * simplexMeasure .tri [[x0, y0], [x1, y1], [x2, y2]] / 4) := by
  simp [triT, childPts, wordPt, simplexMeasure, meanPts, sumPts, scalePt, addPt, Kind.dim, Kind.facets,
    triFacets]
  refine ⟨?_, ?_, ?_, ?_⟩ <;> ring


/-- signs of the children of a tetrahedron relative to the parent: corners, then the inner
    children for the three diagonal choices -/
def tetSigns : List (List Rat) := [[1, -1, -1, -1], [1, -1, 1, -1], [1, 1, 1, 1], [-1, -1, -1, -1]]

theorem tet_template (x0 y0 z0 x1 y1 z1 x2 y2 z2 x3 y3 z3 : Rat) :
    [tetCornerT, tetMidT 0, tetMidT 1, tetMidT 2].map (fun T => T.map (fun w =>
        simplexMeasure .tet (childPts .tet [[x0, y0, z0], [x1, y1, z1], [x2, y2, z2], [x3, y3, z3]] w)))
      = tetSigns.map (fun r => r.map (fun s =>
          s * simplexMeasure .tet [[x0, y0, z0], [x1, y1, z1], [x2, y2, z2], [x3, y3, z3]] / 8)) := by
  simp [tetCornerT, tetMidT, tetSigns, childPts, wordPt, simplexMeasure, meanPts, sumPts, scalePt, addPt,
    Kind.dim, Kind.edges, tetEdges]
  refine ⟨⟨?_, ?_, ?_, ?_⟩, ⟨?_, ?_, ?_, ?_⟩, ⟨?_, ?_, ?_, ?_⟩, ?_, ?_, ?_, ?_⟩ <;> ring


/-! ### multilinear cells: the child is the parent's map restricted to a dyadic sub-box -/

/-- multilinear shape function of the vertex with reference coordinates `r` at `ξ` -/
def shape : List Rat → List Rat → Rat
  | r :: rs, x :: xs => (r * x + (1 - r) * (1 - x)) * shape rs xs
  | _, _ => 1

/-- the bi/trilinear map of a cell with vertex positions `X`, coordinate `c`, at `ξ` -/
def multilin (refP : List (List Rat)) (X : List Pt) (c : Nat) (ξ : List Rat) : Rat :=
  ((refP.zip X).map (fun rx => shape rx.1 ξ * co rx.2 c)).sum

/-- the sub-box of child `i`: `ξ ↦ (ξ + r_i) / 2` where `r_i` are the reference coordinates of
    local vertex `i` (child `i` sits at the parent's vertex `i`) -/
def subBox (r ξ : List Rat) : List Rat := List.zipWith (fun a x => (x + a) / 2) r ξ

theorem quad_restrict (x0 y0 x1 y1 x2 y2 x3 y3 ξ η : Rat) (c : Nat) (hc : c < 2) :
    quadT.map (fun w => multilin quadRefP (childPts .quad [[x0, y0], [x1, y1], [x2, y2], [x3, y3]] w) c [ξ, η])
      = quadRefP.map (fun r => multilin quadRefP [[x0, y0], [x1, y1], [x2, y2], [x3, y3]] c (subBox r [ξ, η])) := by
  have : c = 0 ∨ c = 1 := by omega
  rcases this with rfl | rfl <;>
  · simp [quadT, quadRefP, multilin, shape, subBox, childPts, wordPt, meanPts, sumPts, scalePt, addPt, Kind.dim,
      Kind.facets, quadFacets]
    refine ⟨?_, ?_, ?_, ?_⟩ <;> ring

theorem hex_restrict (x0 y0 z0 x1 y1 z1 x2 y2 z2 x3 y3 z3 x4 y4 z4 x5 y5 z5 x6 y6 z6 x7 y7 z7 ξ η ζ : Rat)
    (c : Nat) (hc : c < 3) :
    hexT.map (fun w => multilin hexRefP (childPts .hex [[x0, y0, z0], [x1, y1, z1], [x2, y2, z2], [x3, y3, z3],
        [x4, y4, z4], [x5, y5, z5], [x6, y6, z6], [x7, y7, z7]] w) c [ξ, η, ζ])
      = hexRefP.map (fun r => multilin hexRefP [[x0, y0, z0], [x1, y1, z1], [x2, y2, z2], [x3, y3, z3],
        [x4, y4, z4], [x5, y5, z5], [x6, y6, z6], [x7, y7, z7]] c (subBox r [ξ, η, ζ])) := by
  have : c = 0 ∨ c = 1 ∨ c = 2 := by omega
  rcases this with rfl | rfl | rfl <;>
  · simp [hexT, hexRefP, multilin, shape, subBox, childPts, wordPt, meanPts, sumPts, scalePt, addPt, Kind.dim,
      Kind.facets, hexFacets, Kind.edges, hexEdges]
    refine ⟨?_, ?_, ?_, ?_, ?_, ?_, ?_, ?_⟩ <;> ring


/-! ### children lie in every half-space that contains the parent's vertices -/

/-- an affine function `α · P + γ` -/
def aff (α : List Rat) (γ : Rat) (P : Pt) : Rat := (List.zipWith (· * ·) α P).sum + γ

theorem halfspace_line (a b α γ : Rat)
    (h : ∀ P ∈ [[a], [b]], 0 ≤ aff [α] γ P) :
    ∀ w ∈ lineT, ∀ Q ∈ childPts .line [[a], [b]] w, 0 ≤ aff [α] γ Q := by
  simp [aff] at h
  obtain ⟨h0, h1⟩ := h
  simp [lineT, childPts, wordPt, meanPts, sumPts, scalePt, addPt, Kind.dim, aff]
  and_intros <;> linarith

theorem halfspace_tri (x0 y0 x1 y1 x2 y2 α β γ : Rat)
    (h : ∀ P ∈ [[x0, y0], [x1, y1], [x2, y2]], 0 ≤ aff [α, β] γ P) :
    ∀ w ∈ triT, ∀ Q ∈ childPts .tri [[x0, y0], [x1, y1], [x2, y2]] w, 0 ≤ aff [α, β] γ Q := by
  simp [aff] at h
  obtain ⟨h0, h1, h2⟩ := h
  simp [triT, childPts, wordPt, meanPts, sumPts, scalePt, addPt, Kind.dim, aff, Kind.facets, triFacets]
  and_intros <;> linarith


theorem halfspace_quad (x0 y0 x1 y1 x2 y2 x3 y3 α β γ : Rat)
    (h : ∀ P ∈ [[x0, y0], [x1, y1], [x2, y2], [x3, y3]], 0 ≤ aff [α, β] γ P) :
    ∀ w ∈ quadT, ∀ Q ∈ childPts .quad [[x0, y0], [x1, y1], [x2, y2], [x3, y3]] w, 0 ≤ aff [α, β] γ Q := by
  simp [aff] at h
  obtain ⟨h0, h1, h2, h3⟩ := h
  simp [quadT, childPts, wordPt, meanPts, sumPts, scalePt, addPt, Kind.dim, aff, Kind.facets, quadFacets]
  and_intros <;> linarith

theorem halfspace_tet (x0 y0 z0 x1 y1 z1 x2 y2 z2 x3 y3 z3 α β γ δ : Rat)
    (h : ∀ P ∈ [[x0, y0, z0], [x1, y1, z1], [x2, y2, z2], [x3, y3, z3]], 0 ≤ aff [α, β, γ] δ P) :
    ∀ T ∈ [tetCornerT, tetMidT 0, tetMidT 1, tetMidT 2], ∀ w ∈ T,
      ∀ Q ∈ childPts .tet [[x0, y0, z0], [x1, y1, z1], [x2, y2, z2], [x3, y3, z3]] w, 0 ≤ aff [α, β, γ] δ Q := by
  simp [aff] at h
  obtain ⟨h0, h1, h2, h3⟩ := h
  simp [tetCornerT, tetMidT, childPts, wordPt, meanPts, sumPts, scalePt, addPt, Kind.dim, aff, Kind.edges, tetEdges]
  and_intros <;> linarith

theorem halfspace_hex (x0 y0 z0 x1 y1 z1 x2 y2 z2 x3 y3 z3 x4 y4 z4 x5 y5 z5 x6 y6 z6 x7 y7 z7 α β γ δ : Rat)
    (h : ∀ P ∈ [[x0, y0, z0], [x1, y1, z1], [x2, y2, z2], [x3, y3, z3],
        [x4, y4, z4], [x5, y5, z5], [x6, y6, z6], [x7, y7, z7]], 0 ≤ aff [α, β, γ] δ P) :
    ∀ w ∈ hexT, ∀ Q ∈ childPts .hex [[x0, y0, z0], [x1, y1, z1], [x2, y2, z2], [x3, y3, z3],
        [x4, y4, z4], [x5, y5, z5], [x6, y6, z6], [x7, y7, z7]] w, 0 ≤ aff [α, β, γ] δ Q := by
  simp [aff] at h
  obtain ⟨h0, h1, h2, h3, h4, h5, h6, h7⟩ := h
  simp [hexT, childPts, wordPt, meanPts, sumPts, scalePt, addPt, Kind.dim, aff, Kind.edges, hexEdges,
    Kind.facets, hexFacets]
  and_intros <;> linarith


/-! ### quadrilaterals: convexity, orientation and area -/

/-- cross product at corner `b` of the path `a → b → c` -/
def turn (a b c : Pt) : Rat :=
  (co b 0 - co a 0) * (co c 1 - co b 1) - (co b 1 - co a 1) * (co c 0 - co b 0)

/-- the four corner cross products of a quadrilateral (all positive: strictly convex,
    counterclockwise; all negative: strictly convex, clockwise) -/
def quadCorners (X : List Pt) : List Rat :=
  let q := fun i => X.getD i []
  [turn (q 3) (q 0) (q 1), turn (q 0) (q 1) (q 2), turn (q 1) (q 2) (q 3), turn (q 2) (q 3) (q 0)]

/-- twice the signed area (shoelace) -/
def quadArea2 (X : List Pt) : Rat :=
  let q := fun i => X.getD i []
  (co (q 0) 0 * co (q 1) 1 - co (q 0) 1 * co (q 1) 0) + (co (q 1) 0 * co (q 2) 1 - co (q 1) 1 * co (q 2) 0)
  + (co (q 2) 0 * co (q 3) 1 - co (q 2) 1 * co (q 3) 0) + (co (q 3) 0 * co (q 0) 1 - co (q 3) 1 * co (q 0) 0)

/-- every corner cross product of every child is a positive combination of the parent's -/
theorem quad_corner_template (x0 y0 x1 y1 x2 y2 x3 y3 T0 T1 T2 T3 : Rat)
    (hT : quadCorners [[x0, y0], [x1, y1], [x2, y2], [x3, y3]] = [T0, T1, T2, T3]) :
    quadT.map (fun w => quadCorners (childPts .quad [[x0, y0], [x1, y1], [x2, y2], [x3, y3]] w))
      = [[T0 / 4, (T0 + T1) / 8, (T1 + T3) / 8, (T0 + T3) / 8],
         [(T0 + T1) / 8, T1 / 4, (T1 + T2) / 8, (T1 + T3) / 8],
         [(T1 + T3) / 8, (T1 + T2) / 8, T2 / 4, (T2 + T3) / 8],
         [(T0 + T3) / 8, (T1 + T3) / 8, (T2 + T3) / 8, T3 / 4]] := by
  simp [quadCorners, turn] at hT
  obtain ⟨h0, h1, h2, h3⟩ := hT
  subst h0 h1 h2 h3
  simp [quadT, quadCorners, turn, childPts, wordPt, meanPts, sumPts, scalePt, addPt, Kind.dim, Kind.facets,
    quadFacets]
  and_intros <;> ring

theorem quad_area_add (x0 y0 x1 y1 x2 y2 x3 y3 : Rat) :
    (quadT.map (fun w => quadArea2 (childPts .quad [[x0, y0], [x1, y1], [x2, y2], [x3, y3]] w))).sum
      = quadArea2 [[x0, y0], [x1, y1], [x2, y2], [x3, y3]] := by
  simp [quadT, quadArea2, childPts, wordPt, meanPts, sumPts, scalePt, addPt, Kind.dim, Kind.facets, quadFacets]
  ring


/-! ### the children's measures add up to the parent's -/

theorem abs_pm (A c : ℚ) (hc : 0 < c) : |1 * A / c| = |A| / c ∧ |-1 * A / c| = |A| / c := by
  constructor
  · rw [one_mul, abs_div, abs_of_pos hc]
  · rw [neg_one_mul, abs_div, abs_neg, abs_of_pos hc]

theorem tri_measures_add (x0 y0 x1 y1 x2 y2 : Rat) :
    (triT.map (fun w => |simplexMeasure .tri (childPts .tri [[x0, y0], [x1, y1], [x2, y2]] w)|)).sum
      = |simplexMeasure .tri [[x0, y0], [x1, y1], [x2, y2]]| := by
  have h := tri_template x0 y0 x1 y1 x2 y2
  have h' := congrArg (fun l => (l.map (fun v : Rat => |v|)).sum) h
  simp only [List.map_map, Function.comp_def] at h'
  rw [h']
  generalize simplexMeasure .tri [[x0, y0], [x1, y1], [x2, y2]] = A
  simp only [List.map_cons, List.map_nil, List.sum_cons, List.sum_nil]
  rw [(abs_pm A 4 (by norm_num)).1, (abs_pm A 4 (by norm_num)).2]
  ring

theorem line_measures_add (a b : Rat) :
    (lineT.map (fun w => |simplexMeasure .line (childPts .line [[a], [b]] w)|)).sum
      = |simplexMeasure .line [[a], [b]]| := by
  have h := line_template a b
  have h' := congrArg (fun l => (l.map (fun v : Rat => |v|)).sum) h
  simp only [List.map_map, Function.comp_def] at h'
  rw [h']
  generalize simplexMeasure .line [[a], [b]] = A
  simp only [List.map_cons, List.map_nil, List.sum_cons, List.sum_nil]
  rw [abs_div, abs_of_pos (by norm_num : (0 : ℚ) < 2)]
  ring

theorem tet_measures_add (x0 y0 z0 x1 y1 z1 x2 y2 z2 x3 y3 z3 : Rat) (ch : Nat) :
    ((tetCornerT ++ tetMidT ch).map (fun w =>
        |simplexMeasure .tet (childPts .tet [[x0, y0, z0], [x1, y1, z1], [x2, y2, z2], [x3, y3, z3]] w)|)).sum
      = |simplexMeasure .tet [[x0, y0, z0], [x1, y1, z1], [x2, y2, z2], [x3, y3, z3]]| := by
  have h := tet_template x0 y0 z0 x1 y1 z1 x2 y2 z2 x3 y3 z3
  simp only [List.map_cons, List.map_nil, tetSigns, List.cons.injEq, and_true] at h
  obtain ⟨hc, h0, h1, h2⟩ := h
  have key : ∀ (T : Template) (l : List Rat),
      T.map (fun w => simplexMeasure .tet (childPts .tet [[x0, y0, z0], [x1, y1, z1], [x2, y2, z2], [x3, y3, z3]] w))
        = l →
      (T.map (fun w => |simplexMeasure .tet (childPts .tet [[x0, y0, z0], [x1, y1, z1], [x2, y2, z2], [x3, y3, z3]] w)|)).sum
        = (l.map (fun v => |v|)).sum := by
    intro T l hT
    have h' := congrArg (fun l => (l.map (fun v : Rat => |v|)).sum) hT
    simpa only [List.map_map, Function.comp_def] using h'
  rw [List.map_append, List.sum_append, key _ _ hc]
  have e2 : ((tetMidT ch).map (fun w =>
      |simplexMeasure .tet (childPts .tet [[x0, y0, z0], [x1, y1, z1], [x2, y2, z2], [x3, y3, z3]] w)|)).sum
      = |simplexMeasure .tet [[x0, y0, z0], [x1, y1, z1], [x2, y2, z2], [x3, y3, z3]]| / 2 := by
    match ch with
    | 0 =>
      rw [key _ _ h0]
      generalize simplexMeasure .tet [[x0, y0, z0], [x1, y1, z1], [x2, y2, z2], [x3, y3, z3]] = V
      simp only [List.map_cons, List.map_nil, List.sum_cons, List.sum_nil]
      rw [(abs_pm V 8 (by norm_num)).1, (abs_pm V 8 (by norm_num)).2]; ring
    | 1 =>
      rw [key _ _ h1]
      generalize simplexMeasure .tet [[x0, y0, z0], [x1, y1, z1], [x2, y2, z2], [x3, y3, z3]] = V
      simp only [List.map_cons, List.map_nil, List.sum_cons, List.sum_nil]
      rw [(abs_pm V 8 (by norm_num)).1]; ring
    | (n + 2) =>
      have hm : tetMidT (n + 2) = tetMidT 2 := rfl
      rw [hm, key _ _ h2]
      generalize simplexMeasure .tet [[x0, y0, z0], [x1, y1, z1], [x2, y2, z2], [x3, y3, z3]] = V
      simp only [List.map_cons, List.map_nil, List.sum_cons, List.sum_nil]
      rw [(abs_pm V 8 (by norm_num)).2]; ring
  rw [e2]
  generalize simplexMeasure .tet [[x0, y0, z0], [x1, y1, z1], [x2, y2, z2], [x3, y3, z3]] = V
  simp only [List.map_cons, List.map_nil, List.sum_cons, List.sum_nil]
  rw [(abs_pm V 8 (by norm_num)).1, (abs_pm V 8 (by norm_num)).2]; ring

end Skv.Refine
