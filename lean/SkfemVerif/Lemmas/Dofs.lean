import SkfemVerif.Model.Dofs
import SkfemVerif.Lemmas.Topology
/-
Helper lemmas for C04 (DOF numbering tables).  Core Lean only.
-/
namespace Skv

/-! ### arithmetic of `dofNumber` -/

theorem dofNumber_inj (count off a e a' e' : Nat) (ha : a < count) (ha' : a' < count)
    (h : dofNumber count off a e = dofNumber count off a' e') : a = a' ∧ e = e' := by
  unfold dofNumber at h
  rcases Nat.lt_trichotomy e e' with hlt | heq | hgt
  · have := Nat.mul_le_mul_left count (Nat.succ_le_of_lt hlt)
    rw [Nat.mul_succ] at this
    omega
  · subst heq; omega
  · have := Nat.mul_le_mul_left count (Nat.succ_le_of_lt hgt)
    rw [Nat.mul_succ] at this
    omega

theorem dofNumber_ge (count off a e : Nat) : off ≤ dofNumber count off a e := by
  unfold dofNumber; omega

theorem dofNumber_lt (count n off a e : Nat) (ha : a < count) (he : e < n) :
    dofNumber count off a e < off + count * n := by
  unfold dofNumber
  have := Nat.mul_le_mul_left count (Nat.succ_le_of_lt he)
  rw [Nat.mul_succ] at this
  omega

theorem dofNumber_surj (count n off x : Nat) (h1 : off ≤ x) (h2 : x < off + count * n) :
    ∃ a e, a < count ∧ e < n ∧ dofNumber count off a e = x := by
  have hc : 0 < count := by
    rcases Nat.eq_zero_or_pos count with h | h
    · subst h; simp at h2; omega
    · exact h
  refine ⟨(x - off) % count, (x - off) / count, Nat.mod_lt _ hc, ?_, ?_⟩
  · rw [Nat.div_lt_iff_lt_mul hc, Nat.mul_comm]; omega
  · unfold dofNumber
    have := Nat.mod_add_div (x - off) count
    omega

/-! ### tables -/

theorem dofTable_getD (count n off a e : Nat) (ha : a < count) (he : e < n) :
    ((dofTable count n off).getD a []).getD e 0 = dofNumber count off a e := by
  simp [dofTable, List.getD_eq_getElem?_getD, ha, he]

theorem mem_dofTable_flatten {count n off x : Nat} :
    x ∈ (dofTable count n off).flatten ↔
      ∃ a e, a < count ∧ e < n ∧ dofNumber count off a e = x := by
  simp only [dofTable, List.mem_flatten, List.mem_map, List.mem_range]
  constructor
  · rintro ⟨l, ⟨a, ha, rfl⟩, hx⟩
    simp only [List.mem_map, List.mem_range] at hx
    obtain ⟨e, he, rfl⟩ := hx
    exact ⟨a, e, ha, he, rfl⟩
  · rintro ⟨a, e, ha, he, rfl⟩
    exact ⟨_, ⟨a, ha, rfl⟩, by simp only [List.mem_map, List.mem_range]; exact ⟨e, he, rfl⟩⟩

/-! ### `gatherRows` -/

theorem gatherRows_eq_flatten (count off : Nat) (conn : List (List Nat)) :
    gatherRows count off conn =
      (conn.map (fun row => (List.range count).map
        (fun a => row.map (fun e => dofNumber count off a e)))).flatten := by
  simp [gatherRows, List.flatMap]

theorem gatherRows_length (count off : Nat) (conn : List (List Nat)) :
    (gatherRows count off conn).length = conn.length * count := by
  rw [gatherRows_eq_flatten, length_flatten_of_uniform _ count]
  · simp
  · intro r hr
    simp only [List.mem_map] at hr
    obtain ⟨s, _, rfl⟩ := hr
    simp

theorem gatherRows_getElem (count off : Nat) (conn : List (List Nat)) (itr a : Nat)
    (hitr : itr < conn.length) (ha : a < count) :
    ∃ h : itr * count + a < (gatherRows count off conn).length,
      (gatherRows count off conn)[itr * count + a]
        = (conn[itr]).map (fun e => dofNumber count off a e) := by
  have hrows : ∀ r ∈ (conn.map (fun row => (List.range count).map
        (fun a => row.map (fun e => dofNumber count off a e)))), r.length = count := by
    intro r hr
    simp only [List.mem_map] at hr
    obtain ⟨s, _, rfl⟩ := hr
    simp
  obtain ⟨h1, h2⟩ := flatten_getElem_of_uniform _ count hrows itr a (by simpa using hitr) ha
  refine ⟨by rw [gatherRows_eq_flatten]; exact h1, ?_⟩
  simp only [gatherRows_eq_flatten]
  rw [h2]
  simp

theorem gatherRows_getD (count off : Nat) (conn : List (List Nat)) (itr a k : Nat)
    (hitr : itr < conn.length) (ha : a < count) (hk : k < (conn.getD itr []).length) :
    ((gatherRows count off conn).getD (itr * count + a) []).getD k 0
      = dofNumber count off a ((conn.getD itr []).getD k 0) := by
  obtain ⟨h1, h2⟩ := gatherRows_getElem count off conn itr a hitr ha
  have hc : conn.getD itr [] = conn[itr] := by
    simp [List.getD_eq_getElem?_getD, hitr]
  rw [hc] at hk ⊢
  have hg : (gatherRows count off conn).getD (itr * count + a) []
      = (conn[itr]).map (fun e => dofNumber count off a e) := by
    rw [← h2]; simp [List.getD_eq_getElem?_getD, h1]
  rw [hg]
  simp [List.getD_eq_getElem?_getD, hk]

theorem mem_gatherRows_flatten {count off : Nat} {conn : List (List Nat)} {x : Nat} :
    x ∈ (gatherRows count off conn).flatten ↔
      ∃ row ∈ conn, ∃ a, a < count ∧ ∃ e ∈ row, dofNumber count off a e = x := by
  simp only [gatherRows, List.mem_flatten, List.mem_flatMap, List.mem_map, List.mem_range]
  constructor
  · rintro ⟨l, ⟨row, hrow, a, ha, rfl⟩, hx⟩
    simp only [List.mem_map] at hx
    obtain ⟨e, he, rfl⟩ := hx
    exact ⟨row, hrow, a, ha, e, he, rfl⟩
  · rintro ⟨row, hrow, a, ha, e, he, rfl⟩
    exact ⟨_, ⟨row, hrow, a, ha, rfl⟩, by simp only [List.mem_map]; exact ⟨e, he, rfl⟩⟩

/-- a gathered block stays inside its table's range when the connectivity is in range -/
theorem gatherRows_bounded {count off n : Nat} {conn : List (List Nat)}
    (hc : ∀ row ∈ conn, ∀ v ∈ row, v < n) {x : Nat}
    (hx : x ∈ (gatherRows count off conn).flatten) : off ≤ x ∧ x < off + count * n := by
  rw [mem_gatherRows_flatten] at hx
  obtain ⟨row, hrow, a, ha, e, he, rfl⟩ := hx
  exact ⟨dofNumber_ge _ _ _ _, dofNumber_lt _ _ _ _ _ ha (hc row hrow e he)⟩

/-- a gathered block covers its table's range when every entity occurs in the connectivity -/
theorem gatherRows_covers {count off n : Nat} {conn : List (List Nat)}
    (hc : ∀ v < n, ∃ row ∈ conn, v ∈ row) {x : Nat}
    (h1 : off ≤ x) (h2 : x < off + count * n) : x ∈ (gatherRows count off conn).flatten := by
  obtain ⟨a, e, ha, he, rfl⟩ := dofNumber_surj count n off x h1 h2
  obtain ⟨row, hrow, hmem⟩ := hc e he
  exact mem_gatherRows_flatten.mpr ⟨row, hrow, a, ha, e, hmem, rfl⟩

end Skv
