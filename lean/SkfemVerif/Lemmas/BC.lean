import SkfemVerif.Model.BC
import SkfemVerif.Lemmas.Np
import SkfemVerif.Lemmas.Assembly
import Mathlib.Algebra.BigOperators.Group.Finset.Basic
import Mathlib.Algebra.BigOperators.Ring.Finset
import Mathlib.Algebra.Field.Basic
import Mathlib.Tactic.Ring
/-
Helper lemmas about the E-lin model (Model/BC.lean): `complementRange`, the expansion
`expandSol`, splitting a sum over `range n` along a partition `I ++ D`, the dense semantics of
`enforce` / `penalize`, and the CSR row-zeroing index arithmetic.
-/
namespace Skv

/-! ### `complementRange` -/

theorem mem_complementRange {n i : Nat} {D : List Nat} :
    i ∈ complementRange n D ↔ (i < n ∧ i ∉ D) := by
  simp [complementRange]

theorem nodup_complementRange (n : Nat) (D : List Nat) : (complementRange n D).Nodup :=
  List.Nodup.filter _ List.nodup_range

theorem pairwise_complementRange (n : Nat) (D : List Nat) :
    (complementRange n D).Pairwise (· < ·) :=
  List.Pairwise.filter _ List.pairwise_lt_range

/-! ### `expandSol` -/

section Expand
variable {K : Type}

theorem expandSol_nil_left (x : Nat → K) (sol : List K) : expandSol x [] sol = x := by
  simp [expandSol]

theorem expandSol_nil_right (x : Nat → K) (I : List Nat) : expandSol x I [] = x := by
  simp [expandSol]

theorem expandSol_cons (x : Nat → K) (a : Nat) (I : List Nat) (s : K) (sol : List K) :
    expandSol x (a :: I) (s :: sol)
      = expandSol (fun i => if i = a then s else x i) I sol := by
  simp [expandSol]

theorem expandSol_off (x : Nat → K) (I : List Nat) (sol : List K) (i : Nat) (hi : i ∉ I) :
    expandSol x I sol i = x i := by
  induction I generalizing x sol with
  | nil => rw [expandSol_nil_left]
  | cons a I ih =>
    cases sol with
    | nil => rw [expandSol_nil_right]
    | cons s sol =>
      rw [expandSol_cons, ih _ _ (fun h => hi (List.mem_cons_of_mem _ h))]
      have : i ≠ a := fun h => hi (h ▸ List.mem_cons_self)
      simp [this]

theorem expandSol_on (x : Nat → K) (I : List Nat) (sol : List K) (hI : I.Nodup)
    (hlen : sol.length = I.length) (p : Nat) (hp : p < I.length) :
    expandSol x I sol (I[p]) = sol[p]'(by omega) := by
  induction I generalizing x sol p with
  | nil => simp at hp
  | cons a I ih =>
    cases sol with
    | nil => simp at hlen
    | cons s sol =>
      rw [expandSol_cons]
      rw [List.nodup_cons] at hI
      cases p with
      | zero =>
        simp only [List.getElem_cons_zero]
        rw [expandSol_off _ _ _ _ hI.1]
        simp
      | succ p =>
        simp only [List.getElem_cons_succ]
        exact ih _ _ hI.2 (by simpa using hlen) p (by simpa using hp)

end Expand

/-! ### sums over a partition of `range n` -/

section Sums
variable {K : Type} [CommRing K]

theorem perm_append_range (n : Nat) (I D : List Nat)
    (hI : I.Nodup) (hD : D.Nodup) (hdisj : ∀ i, i ∈ I → i ∉ D)
    (hcover : ∀ i, i < n ↔ (i ∈ I ∨ i ∈ D)) : (I ++ D).Perm (List.range n) := by
  have hnd : (I ++ D).Nodup := by
    rw [List.nodup_append]
    refine ⟨hI, hD, ?_⟩
    intro a ha b hb hab
    subst hab
    exact hdisj a ha hb
  rw [List.perm_ext_iff_of_nodup hnd List.nodup_range]
  intro a
  rw [List.mem_append, List.mem_range]
  exact (hcover a).symm

theorem sum_range_split (n : Nat) (I D : List Nat)
    (hI : I.Nodup) (hD : D.Nodup) (hdisj : ∀ i, i ∈ I → i ∉ D)
    (hcover : ∀ i, i < n ↔ (i ∈ I ∨ i ∈ D)) (f : Nat → K) :
    ((List.range n).map f).sum = (I.map f).sum + (D.map f).sum := by
  have hp := perm_append_range n I D hI hD hdisj hcover
  rw [← (hp.map f).sum_eq, List.map_append, List.sum_append]

theorem map_expand_eq_zip (A : Nat → Nat → K) (x : Nat → K) (I : List Nat) (sol : List K)
    (hI : I.Nodup) (hlen : sol.length = I.length) (i : Nat) :
    I.map (fun j => A i j * expandSol x I sol j)
      = (I.zip sol).map (fun p => A i p.1 * p.2) := by
  apply List.ext_getElem
  · simp [hlen]
  · intro p h1 h2
    have hp : p < I.length := by simpa using h1
    simp only [List.getElem_map, List.getElem_zip]
    rw [expandSol_on x I sol hI hlen p hp]

theorem matVec_expand (n : Nat) (A : Nat → Nat → K) (x : Nat → K) (I D : List Nat)
    (hI : I.Nodup) (hD : D.Nodup) (hdisj : ∀ i, i ∈ I → i ∉ D)
    (hcover : ∀ i, i < n ↔ (i ∈ I ∨ i ∈ D))
    (sol : List K) (hlen : sol.length = I.length) (i : Nat) :
    matVec n A (expandSol x I sol) i
      = condensedRowApply A I sol i + dotList D (fun d => A i d * x d) := by
  unfold matVec condensedRowApply dotList
  rw [sum_range_split n I D hI hD hdisj hcover, map_expand_eq_zip A x I sol hI hlen i]
  congr 2
  apply List.map_congr_left
  intro d hd
  rw [expandSol_off x I sol d (fun h => hdisj d h hd)]

/-! ### `enforce`, `penalize` -/

theorem contains_eq_true_iff {D : List Nat} {i : Nat} : D.contains i = true ↔ i ∈ D := by
  simp

theorem matVec_enforce_mem (n : Nat) (A : Nat → Nat → K) (z : Nat → K) (D : List Nat)
    (diag : K) (i : Nat) (hi : i ∈ D) (hin : i < n) :
    matVec n (enforceMat A D diag) z i = diag * z i := by
  unfold matVec
  rw [sum_map_range, Finset.sum_eq_single i]
  · simp [enforceMat, hi]
  · intro j _ hj
    simp [enforceMat, hi, Ne.symm hj]
  · intro h
    exact absurd (Finset.mem_range.2 hin) h

theorem matVec_enforce_not_mem (n : Nat) (A : Nat → Nat → K) (z : Nat → K) (D : List Nat)
    (diag : K) (i : Nat) (hi : i ∉ D) :
    matVec n (enforceMat A D diag) z i = matVec n A z i := by
  unfold matVec
  simp [enforceMat, hi]

theorem matVec_penalize_mem (n : Nat) (A : Nat → Nat → K) (z : Nat → K) (D : List Nat)
    (epsInv : K) (i : Nat) (hi : i ∈ D) (hin : i < n) :
    matVec n (penalizeMat A D epsInv) z i
      = epsInv * z i + ∑ j ∈ (Finset.range n).erase i, A i j * z j := by
  unfold matVec
  rw [sum_map_range, ← Finset.add_sum_erase _ _ (Finset.mem_range.2 hin)]
  congr 1
  · simp [penalizeMat, hi]
  · refine Finset.sum_congr rfl (fun j hj => ?_)
    have hne : i ≠ j := Ne.symm (Finset.ne_of_mem_erase hj)
    simp [penalizeMat, hne]

end Sums

/-! ### CSR row zeroing: the index arithmetic -/

theorem repeatList_cons_cons {β : Type} (v : β) (vs : List β) (c : Nat) (cs : List Nat) :
    repeatList (v :: vs) (c :: cs) = List.replicate c v ++ repeatList vs cs := rfl

theorem repeatList_nil_left {β : Type} (cs : List Nat) : repeatList ([] : List β) cs = [] := rfl

theorem repeatList_nil_right {β : Type} (vs : List β) : repeatList vs [] = [] := by
  cases vs <;> rfl

theorem replicate_zipIdx_map (s c o : Nat) :
    ((List.replicate c ((s : Int) - (o : Int))).zipIdx o).map (fun p => (p.1 + (p.2 : Int)).toNat)
      = List.range' s c := by
  apply List.ext_getElem
  · simp
  · intro r h1 h2
    simp only [List.getElem_map, List.getElem_zipIdx, List.getElem_replicate,
      List.getElem_range']
    push_cast
    omega

/-- the base offsets of `rowZeroIdx`, with the running offset `o` made explicit -/
def rowBase (start count : List Nat) (o : Nat) : List Int :=
  List.zipWith (fun (s : Nat) (p : Nat × Nat) => (s : Int) - ((p.1 : Int) - (p.2 : Int)))
    start (((cumsum count).map (· + o)).zip count)

theorem rowBase_cons (s : Nat) (ss : List Nat) (c : Nat) (cs : List Nat) (o : Nat) :
    rowBase (s :: ss) (c :: cs) o = ((s : Int) - (o : Int)) :: rowBase ss cs (o + c) := by
  unfold rowBase
  simp only [cumsum, List.map_cons, List.map_map, List.zip_cons_cons, List.zipWith_cons_cons]
  congr 1
  · push_cast; omega
  · congr 2
    apply List.map_congr_left
    intro a _
    simp only [Function.comp]
    omega

theorem rowZero_aux (start count : List Nat) (o : Nat) :
    ((repeatList (rowBase start count o) count).zipIdx o).map
        (fun p => (p.1 + (p.2 : Int)).toNat)
      = (List.zipWith (fun s c => List.range' s c) start count).flatten := by
  induction start generalizing count o with
  | nil => simp [rowBase, repeatList_nil_left]
  | cons s ss ih =>
    cases count with
    | nil => simp [repeatList_nil_right]
    | cons c cs =>
      rw [rowBase_cons, repeatList_cons_cons, List.zipIdx_append, List.map_append,
        replicate_zipIdx_map, List.length_replicate, ih cs (o + c)]
      simp

theorem flatten_zipWith_ranges (indptr : List Nat) (D : List Nat) :
    (List.zipWith (fun s c => List.range' s c) (D.map (fun d => indptr.getD d 0))
        (List.zipWith (fun a b => a - b) (D.map (fun d => indptr.getD (d + 1) 0))
          (D.map (fun d => indptr.getD d 0)))).flatten
      = rowRanges indptr D := by
  unfold rowRanges
  induction D with
  | nil => simp
  | cons d D ih =>
    simp only [List.map_cons, List.zipWith_cons_cons, List.flatten_cons, List.flatMap_cons]
    rw [ih]

theorem rowZeroIdx_eq_rowRanges (indptr : List Nat) (D : List Nat) :
    rowZeroIdx indptr D = rowRanges indptr D := by
  have h := rowZero_aux (D.map (fun d => indptr.getD d 0))
    (List.zipWith (fun a b => a - b) (D.map (fun d => indptr.getD (d + 1) 0))
      (D.map (fun d => indptr.getD d 0))) 0
  unfold rowZeroIdx
  simp only [rowBase, Nat.add_zero, List.map_id'] at h
  rw [h, flatten_zipWith_ranges]

/-! ### CSR row zeroing: dense semantics -/

section Zero
variable {K : Type} [CommRing K]

theorem getD_zeroAt (data : List K) (idx : List Nat) (p : Nat) :
    (zeroAt data idx).getD p 0 = if p ∈ idx then 0 else data.getD p 0 := by
  unfold zeroAt
  simp only [List.getD_eq_getElem?_getD, List.getElem?_map, List.getElem?_zipIdx, Nat.zero_add]
  cases h : data[p]? with
  | none => simp
  | some v => simp

theorem mem_rowRanges {indptr D : List Nat} {p : Nat} :
    p ∈ rowRanges indptr D ↔ ∃ d ∈ D, indptr.getD d 0 ≤ p ∧ p < indptr.getD (d + 1) 0 := by
  unfold rowRanges
  simp only [List.mem_flatMap, List.mem_range'_1]
  constructor
  · rintro ⟨d, hd, h1, h2⟩
    exact ⟨d, hd, h1, by omega⟩
  · rintro ⟨d, hd, h1, h2⟩
    exact ⟨d, hd, h1, by omega⟩

theorem indptr_mono_le (indptr : List Nat)
    (hmono : ∀ i, i + 1 < indptr.length → indptr.getD i 0 ≤ indptr.getD (i + 1) 0)
    (a b : Nat) (hab : a ≤ b) (hb : b < indptr.length) :
    indptr.getD a 0 ≤ indptr.getD b 0 := by
  induction b with
  | zero =>
    have : a = 0 := by omega
    subst this; exact Nat.le_refl _
  | succ b ih =>
    rcases Nat.lt_or_ge a (b + 1) with h | h
    · exact Nat.le_trans (ih (by omega) (by omega)) (hmono b hb)
    · have : a = b + 1 := by omega
      subst this; exact Nat.le_refl _

/-- for an `indptr` that is non-decreasing on its own index range, zeroing the positions
    `rowRanges indptr D` zeroes exactly the rows in `D` of the dense matrix -/
theorem zero_rows_dense (m : CSR K) (D : List Nat)
    (hmono : ∀ i, i + 1 < m.indptr.length → m.indptr.getD i 0 ≤ m.indptr.getD (i + 1) 0)
    (i j : Nat) (hi : i + 1 < m.indptr.length) (hD : ∀ d ∈ D, d + 1 < m.indptr.length) :
    (CSR.entry { m with data := zeroAt m.data (rowRanges m.indptr D) } i j)
      = if i ∈ D then 0 else CSR.entry m i j := by
  unfold CSR.entry
  simp only
  by_cases hiD : i ∈ D
  · rw [if_pos hiD]
    apply List.sum_eq_zero
    intro v hv
    simp only [List.mem_map, List.mem_filter, List.mem_range'_1] at hv
    obtain ⟨p, ⟨⟨h1, h2⟩, _⟩, rfl⟩ := hv
    rw [getD_zeroAt, if_pos]
    exact mem_rowRanges.2 ⟨i, hiD, h1, by omega⟩
  · rw [if_neg hiD]
    congr 1
    apply List.map_congr_left
    intro p hp
    simp only [List.mem_filter, List.mem_range'_1] at hp
    obtain ⟨⟨h1, h2⟩, _⟩ := hp
    rw [getD_zeroAt, if_neg]
    rw [mem_rowRanges]
    rintro ⟨d, hd, h3, h4⟩
    have hdl := hD d hd
    rcases Nat.lt_trichotomy d i with hlt | heq | hgt
    · have := indptr_mono_le m.indptr hmono (d + 1) i (by omega) (by omega)
      omega
    · subst heq; exact hiD hd
    · have := indptr_mono_le m.indptr hmono (i + 1) d (by omega) (by omega)
      omega

end Zero

end Skv
