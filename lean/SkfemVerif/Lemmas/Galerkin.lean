import SkfemVerif.Model.Assembly
import SkfemVerif.Model.BC
import SkfemVerif.Lemmas.Assembly
import SkfemVerif.Lemmas.BC
import Mathlib.Algebra.BigOperators.Group.Finset.Basic
import Mathlib.Algebra.BigOperators.Ring.Finset
import Mathlib.Tactic.Ring
/-
Helper lemmas for C06 (Galerkin exactness): testing an assembled vector / matrix against an
indicator vector, index ranges of the assembled triplets, and the condensed system evaluated on the
restriction `I.map xs` of a full coefficient vector.
-/
namespace Skv

section Ring
variable {K : Type} [CommRing K]

/-! ### testing against an indicator vector -/

/-- `e_rᵀ b` is the dense entry `b_r` (no range condition needed) -/
theorem actionLin_indicator (T : List (Nat × K)) (r : Nat) :
    actionLin T (fun i => if i = r then (1 : K) else 0) = denseVecEntry T r := by
  unfold actionLin denseVecEntry
  induction T with
  | nil => simp
  | cons t T ih =>
    rw [List.map_cons, List.sum_cons, ih]
    by_cases h : t.1 = r
    · simp [h]
    · simp [h]

/-- the row / column numbers of the assembled triplets are DOF numbers of the tables -/
theorem mem_bilinearTriplets_lt (Nu Nv nt nq Nr Nc : Nat) (f : Sample K → Sample K → Sample K → K)
    (ub vb : BasisData K) (w : Nat → Nat → Sample K) (dx : Nat → Nat → K)
    (udofs vdofs : Nat → Nat → Nat)
    (hu : ∀ j < Nu, ∀ k < nt, udofs j k < Nc) (hv : ∀ i < Nv, ∀ k < nt, vdofs i k < Nr) :
    ∀ t ∈ bilinearTriplets Nu Nv nt nq f ub vb w dx udofs vdofs, t.1 < Nr ∧ t.2.1 < Nc := by
  intro t ht
  unfold bilinearTriplets at ht
  simp only [List.mem_flatMap, List.mem_map, List.mem_range] at ht
  obtain ⟨j, hj, i, hi, k, hk, rfl⟩ := ht
  exact ⟨hv i hi k hk, hu j hj k hk⟩

/-- `e_rᵀ A u = Σ_c A_rc u_c` from the dense double sum -/
theorem dense_indicator_row (N Nc : Nat) (M : Nat → Nat → K) (u : Nat → K) (r : Nat) (hr : r < N) :
    ∑ r' ∈ Finset.range N, ∑ c ∈ Finset.range Nc,
        (if r' = r then (1 : K) else 0) * M r' c * u c
      = ∑ c ∈ Finset.range Nc, M r c * u c := by
  rw [Finset.sum_eq_single r]
  · refine Finset.sum_congr rfl (fun c _ => ?_)
    rw [if_pos rfl, one_mul]
  · intro r' _ hr'
    refine Finset.sum_eq_zero (fun c _ => ?_)
    rw [if_neg hr', zero_mul, zero_mul]
  · intro h
    exact absurd (Finset.mem_range.2 hr) h

/-! ### the condensed system on the restriction of a full vector -/

theorem zip_map_restrict (A : Nat → Nat → K) (I : List Nat) (xs : Nat → K) (i : Nat) :
    (I.zip (I.map xs)).map (fun p => A i p.1 * p.2) = I.map (fun j => A i j * xs j) := by
  induction I with
  | nil => rfl
  | cons a I ih =>
    rw [List.map_cons, List.zip_cons_cons, List.map_cons, ih, List.map_cons]

theorem condensedRowApply_restrict (A : Nat → Nat → K) (I : List Nat) (xs : Nat → K) (i : Nat) :
    condensedRowApply A I (I.map xs) i = (I.map (fun j => A i j * xs j)).sum := by
  unfold condensedRowApply
  rw [zip_map_restrict]

/-- splitting `(A xs)_i` along the partition `I ∪ D` of `0 … n-1` -/
theorem matVec_split (n : Nat) (A : Nat → Nat → K) (xs : Nat → K) (I D : List Nat)
    (hI : I.Nodup) (hD : D.Nodup) (hdisj : ∀ i, i ∈ I → i ∉ D)
    (hcover : ∀ i, i < n ↔ (i ∈ I ∨ i ∈ D)) (i : Nat) :
    matVec n A xs i
      = condensedRowApply A I (I.map xs) i + dotList D (fun d => A i d * xs d) := by
  rw [condensedRowApply_restrict]
  unfold matVec dotList
  exact sum_range_split n I D hI hD hdisj hcover _

theorem dotList_congr (D : List Nat) (f g : Nat → K) (h : ∀ d ∈ D, f d = g d) :
    dotList D f = dotList D g := by
  unfold dotList
  rw [List.map_congr_left h]

/-- the restriction of a vector that satisfies the kept rows of the full system (and agrees with
    the prescribed values on `D`) solves the condensed system -/
theorem restrict_solves_condensed (n : Nat) (A : Nat → Nat → K) (b x xs : Nat → K) (I D : List Nat)
    (hI : I.Nodup) (hD : D.Nodup) (hdisj : ∀ i, i ∈ I → i ∉ D)
    (hcover : ∀ i, i < n ↔ (i ∈ I ∨ i ∈ D))
    (hx : ∀ d ∈ D, x d = xs d) (i : Nat) (hG : matVec n A xs i = b i) :
    condensedRowApply A I (I.map xs) i = b i - dotList D (fun d => A i d * x d) := by
  rw [matVec_split n A xs I D hI hD hdisj hcover i] at hG
  rw [dotList_congr D (fun d => A i d * x d) (fun d => A i d * xs d)
    (fun d hd => by rw [hx d hd]), ← hG]
  ring

end Ring

end Skv
