import SkfemVerif.Model.RefineUniform
import SkfemVerif.Lemmas.Np
import SkfemVerif.Lemmas.Topology
import SkfemVerif.Props.C11
import Mathlib.Algebra.Order.Field.Rat
import Mathlib.Tactic.Ring
import Mathlib.Tactic.Linarith
import Mathlib.Data.List.Perm.Basic
/-
Helper lemmas about the E-ref model (Model/RefineUniform.lean).
-/
namespace Skv.Refine
open Skv

/-! ### sorting -/

/-- sorting does not depend on the order of the input -/
theorem sortCol_congr {a b : List Nat} (h : a.Perm b) : sortCol a = sortCol b := by
  apply List.Perm.eq_of_pairwise (le := (· ≤ ·)) ?_ (pairwise_sortCol a) (pairwise_sortCol b)
  · exact ((perm_sortCol a).trans h).trans (perm_sortCol b).symm
  · intro x y _ _ h1 h2; exact Nat.le_antisymm h1 h2

/-! ### layouts -/

theorem blockLayout_eq_flatten (nt : Nat) (T : Template) :
    blockLayout nt T = (T.map (fun w => (List.range nt).map (fun k => (k, w)))).flatten := by
  simp [blockLayout, List.flatMap]

theorem length_blockLayout (nt : Nat) (T : Template) :
    (blockLayout nt T).length = T.length * nt := by
  rw [blockLayout_eq_flatten, length_flatten_of_uniform _ nt]
  · simp
  · intro r hr
    simp only [List.mem_map] at hr
    obtain ⟨w, _, rfl⟩ := hr
    simp

/-- child `i` of cell `k` sits at column `i * nt + k` -/
theorem blockLayout_getElem (nt : Nat) (T : Template) (i k : Nat) (hi : i < T.length) (hk : k < nt) :
    ∃ h : i * nt + k < (blockLayout nt T).length, (blockLayout nt T)[i * nt + k] = (k, T[i]) := by
  have hrows : ∀ r ∈ T.map (fun w => (List.range nt).map (fun k => (k, w))), r.length = nt := by
    intro r hr
    simp only [List.mem_map] at hr
    obtain ⟨w, _, rfl⟩ := hr
    simp
  obtain ⟨h1, h2⟩ := flatten_getElem_of_uniform _ nt hrows i k (by simpa using hi) hk
  refine ⟨by rw [length_blockLayout]; rw [length_flatten_of_uniform _ _ hrows] at h1; simpa using h1, ?_⟩
  simp only [blockLayout_eq_flatten]
  rw [h2]
  simp

theorem interleavedLayout_eq_flatten (nt : Nat) (T : Template) :
    interleavedLayout nt T = ((List.range nt).map (fun k => T.map (fun w => (k, w)))).flatten := by
  simp [interleavedLayout, List.flatMap]

theorem length_interleavedLayout (nt : Nat) (T : Template) :
    (interleavedLayout nt T).length = nt * T.length := by
  rw [interleavedLayout_eq_flatten, length_flatten_of_uniform _ T.length]
  · simp
  · intro r hr
    simp only [List.mem_map] at hr
    obtain ⟨w, _, rfl⟩ := hr
    simp

/-- child `i` of cell `k` sits at column `k * nchild + i` -/
theorem interleavedLayout_getElem (nt : Nat) (T : Template) (i k : Nat) (hi : i < T.length) (hk : k < nt) :
    ∃ h : k * T.length + i < (interleavedLayout nt T).length,
      (interleavedLayout nt T)[k * T.length + i] = (k, T[i]) := by
  have hrows : ∀ r ∈ (List.range nt).map (fun k => T.map (fun w => (k, w))), r.length = T.length := by
    intro r hr
    simp only [List.mem_map] at hr
    obtain ⟨w, _, rfl⟩ := hr
    simp
  obtain ⟨h1, h2⟩ := flatten_getElem_of_uniform _ T.length hrows k i (by simpa using hk) hi
  refine ⟨by rw [length_interleavedLayout]; rw [length_flatten_of_uniform _ _ hrows] at h1; simpa using h1, ?_⟩
  simp only [interleavedLayout_eq_flatten]
  rw [h2]
  simp

theorem length_realize (E : Env) (L : Layout) : (E.realize L).length = L.length := by
  simp [Env.realize]

theorem realize_getElem (E : Env) (L : Layout) (j : Nat) (hj : j < L.length) :
    (E.realize L)[j]'(by simpa [Env.realize] using hj) = (L[j]).2.map (E.num (L[j]).1) := by
  simp [Env.realize]

/-! ### subdomain index sets -/

theorem mem_genericSub {N nt : Nat} {ixs : List Nat} {j : Nat} :
    j ∈ genericSub N nt ixs ↔ ∃ i, i < N ∧ ∃ k ∈ ixs, j = k + i * nt := by
  simp only [genericSub, mem_sortCol, List.mem_flatMap, List.mem_range, List.mem_map]
  constructor
  · rintro ⟨i, hi, k, hk, rfl⟩; exact ⟨i, hi, k, hk, rfl⟩
  · rintro ⟨i, hi, k, hk, rfl⟩; exact ⟨i, hi, k, hk, rfl⟩

theorem mem_lineSub {ixs : List Nat} {j : Nat} : j ∈ lineSub ixs ↔ j / 2 ∈ ixs := by
  simp only [lineSub, mem_sortCol, List.mem_append, List.mem_map]
  constructor
  · rintro (⟨k, hk, rfl⟩ | ⟨k, hk, rfl⟩)
    · have : 2 * k / 2 = k := by omega
      rw [this]; exact hk
    · have : (2 * k + 1) / 2 = k := by omega
      rw [this]; exact hk
  · intro h
    rcases Nat.mod_two_eq_zero_or_one j with h0 | h1
    · left; exact ⟨j / 2, h, by omega⟩
    · right; exact ⟨j / 2, h, by omega⟩

/-- parents in a block layout -/
theorem blockLayout_parent (nt : Nat) (T : Template) (j : Nat) (hj : j < (blockLayout nt T).length) :
    ((blockLayout nt T)[j]).1 = j % nt := by
  have hlen := length_blockLayout nt T
  have hnt : 0 < nt := by
    rcases Nat.eq_zero_or_pos nt with h | h
    · rw [h, Nat.mul_zero] at hlen; rw [h] at hj; omega
    · exact h
  have hi : j / nt < T.length := by
    apply Nat.div_lt_of_lt_mul; rw [Nat.mul_comm]; omega
  obtain ⟨h1, h2⟩ := blockLayout_getElem nt T (j / nt) (j % nt) hi (Nat.mod_lt _ hnt)
  have e : j / nt * nt + j % nt = j := by rw [Nat.mul_comm]; exact Nat.div_add_mod j nt
  have : (blockLayout nt T)[j] = (j % nt, T[j / nt]) := by
    have := h2
    simp only [e] at this
    exact this
  rw [this]

theorem interleavedLayout_parent (nt : Nat) (T : Template) (j : Nat)
    (hj : j < (interleavedLayout nt T).length) :
    ((interleavedLayout nt T)[j]).1 = j / T.length := by
  have hlen := length_interleavedLayout nt T
  have hT : 0 < T.length := by
    rcases Nat.eq_zero_or_pos T.length with h | h
    · rw [h, Nat.mul_zero] at hlen; omega
    · exact h
  have hk : j / T.length < nt := by
    apply Nat.div_lt_of_lt_mul; rw [Nat.mul_comm]; omega
  obtain ⟨h1, h2⟩ := interleavedLayout_getElem nt T (j % T.length) (j / T.length) (Nat.mod_lt _ hT) hk
  have e : j / T.length * T.length + j % T.length = j := by
    rw [Nat.mul_comm]; exact Nat.div_add_mod j T.length
  have : (interleavedLayout nt T)[j] = (j / T.length, T[j % T.length]'(Nat.mod_lt _ hT)) := by
    have := h2
    simp only [e] at this
    exact this
  rw [this]

/-! ### tetrahedra: masks, order of the inner blocks -/

theorem range_split (n k : Nat) (hk : k < n) :
    List.range n = List.range k ++ k :: List.range' (k + 1) (n - k - 1) := by
  rw [List.range_eq_range', List.range_eq_range']
  have : n = k + ((n - k - 1) + 1) := by omega
  conv => lhs; rw [this]
  rw [← List.range'_append_1]
  simp [List.range'_succ]

theorem masked_getElem_rank (mask : List Bool) (k : Nat) (hk : k < mask.length)
    (hm : mask.getD k false = true) :
    ∃ h : rankIn mask k < (masked mask).length, (masked mask)[rankIn mask k] = k := by
  have hs : masked mask = (List.range k).filter (fun i => mask.getD i false) ++
      k :: (List.range' (k + 1) (mask.length - k - 1)).filter (fun i => mask.getD i false) := by
    unfold masked
    have hm' : mask[k]?.getD false = true := by simpa using hm
    rw [range_split mask.length k hk, List.filter_append, List.filter_cons]
    simp [hm']
  have hlen : rankIn mask k < (masked mask).length := by
    rw [hs]; simp [rankIn]
  exact ⟨hlen, List.getElem_of_append hs rfl⟩

theorem mem_masked {mask : List Bool} {k : Nat} :
    k ∈ masked mask ↔ k < mask.length ∧ mask.getD k false = true := by
  simp [masked]

theorem nodup_masked (mask : List Bool) : (masked mask).Nodup :=
  List.Nodup.sublist List.filter_sublist List.nodup_range

/-- the masks select every cell exactly once -/
structure MaskPartition (nt : Nat) (c1 c2 c3 : List Bool) : Prop where
  len1 : c1.length = nt
  len2 : c2.length = nt
  len3 : c3.length = nt
  one : ∀ k, k < nt →
    (c1.getD k false = true ∧ c2.getD k false = false ∧ c3.getD k false = false) ∨
    (c1.getD k false = false ∧ c2.getD k false = true ∧ c3.getD k false = false) ∨
    (c1.getD k false = false ∧ c2.getD k false = false ∧ c3.getD k false = true)

def tetOrder (c1 c2 c3 : List Bool) : List Nat := masked c1 ++ masked c2 ++ masked c3

theorem filter_three_length (n : Nat) (p1 p2 p3 : Nat → Bool)
    (h : ∀ k, k < n → (p1 k = true ∧ p2 k = false ∧ p3 k = false) ∨
      (p1 k = false ∧ p2 k = true ∧ p3 k = false) ∨ (p1 k = false ∧ p2 k = false ∧ p3 k = true)) :
    ((List.range n).filter p1).length + ((List.range n).filter p2).length
      + ((List.range n).filter p3).length = n := by
  induction n with
  | zero => simp
  | succ n ih =>
    have ih' := ih (fun k hk => h k (by omega))
    simp only [List.range_succ, List.filter_append, List.length_append]
    rcases h n (by omega) with ⟨a, b, c⟩ | ⟨a, b, c⟩ | ⟨a, b, c⟩ <;>
      simp [a, b, c] <;> omega

theorem length_tetOrder {nt : Nat} {c1 c2 c3 : List Bool} (hp : MaskPartition nt c1 c2 c3) :
    (tetOrder c1 c2 c3).length = nt := by
  have := filter_three_length nt (fun k => c1.getD k false) (fun k => c2.getD k false)
    (fun k => c3.getD k false) hp.one
  simp only [tetOrder, masked, List.length_append, hp.len1, hp.len2, hp.len3]
  exact this

theorem nodup_tetOrder {nt : Nat} {c1 c2 c3 : List Bool} (hp : MaskPartition nt c1 c2 c3) :
    (tetOrder c1 c2 c3).Nodup := by
  unfold tetOrder
  rw [List.nodup_append, List.nodup_append]
  refine ⟨⟨nodup_masked _, nodup_masked _, ?_⟩, nodup_masked _, ?_⟩
  · intro a ha b hb hab
    subst hab
    rw [mem_masked] at ha hb
    obtain ⟨ha1, ha2⟩ := ha
    obtain ⟨hb1, hb2⟩ := hb
    rcases hp.one a (by rw [← hp.len1]; exact ha1) with ⟨x, y, z⟩ | ⟨x, y, z⟩ | ⟨x, y, z⟩
    · rw [y] at hb2; cases hb2
    · rw [x] at ha2; cases ha2
    · rw [x] at ha2; cases ha2
  · intro a ha b hb hab
    subst hab
    rw [List.mem_append, mem_masked, mem_masked] at ha
    rw [mem_masked] at hb
    obtain ⟨hb1, hb2⟩ := hb
    rcases hp.one a (by rw [← hp.len3]; exact hb1) with ⟨x, y, z⟩ | ⟨x, y, z⟩ | ⟨x, y, z⟩
    · rw [z] at hb2; cases hb2
    · rw [z] at hb2; cases hb2
    · rcases ha with ⟨_, h⟩ | ⟨_, h⟩
      · rw [x] at h; cases h
      · rw [y] at h; cases h

/-- the offset computed by the code names the position of the cell in every inner block -/
theorem tetOrder_getElem_off {nt : Nat} {c1 c2 c3 : List Bool} (hp : MaskPartition nt c1 c2 c3)
    (k : Nat) (hk : k < nt) :
    ∃ o, tetOff c1 c2 c3 k = some o ∧ ∃ h : o < (tetOrder c1 c2 c3).length, (tetOrder c1 c2 c3)[o] = k := by
  rcases hp.one k hk with ⟨x, y, z⟩ | ⟨x, y, z⟩ | ⟨x, y, z⟩
  · obtain ⟨h1, h2⟩ := masked_getElem_rank c1 k (by rw [hp.len1]; exact hk) x
    refine ⟨rankIn c1 k, by simp only [tetOff, x, y, z, Bool.false_eq_true, reduceIte], ?_⟩
    have hlt : rankIn c1 k < (tetOrder c1 c2 c3).length := by
      simp only [tetOrder, List.length_append]; omega
    refine ⟨hlt, ?_⟩
    simp only [tetOrder]
    rw [List.getElem_append_left (by simp only [List.length_append]; omega),
      List.getElem_append_left h1]
    exact h2
  · obtain ⟨h1, h2⟩ := masked_getElem_rank c2 k (by rw [hp.len2]; exact hk) y
    refine ⟨countTrue c1 + rankIn c2 k, by simp only [tetOff, x, y, z, Bool.false_eq_true, reduceIte], ?_⟩
    have hlt : countTrue c1 + rankIn c2 k < (tetOrder c1 c2 c3).length := by
      simp only [tetOrder, List.length_append, countTrue]; omega
    refine ⟨hlt, ?_⟩
    simp only [tetOrder]
    rw [List.getElem_append_left (by simp only [List.length_append, countTrue]; omega),
      List.getElem_append_right (by simp only [countTrue]; omega)]
    simp only [countTrue, Nat.add_sub_cancel_left]
    exact h2
  · obtain ⟨h1, h2⟩ := masked_getElem_rank c3 k (by rw [hp.len3]; exact hk) z
    refine ⟨countTrue c1 + countTrue c2 + rankIn c3 k, by simp only [tetOff, x, y, z, Bool.false_eq_true, reduceIte], ?_⟩
    have hlt : countTrue c1 + countTrue c2 + rankIn c3 k < (tetOrder c1 c2 c3).length := by
      simp only [tetOrder, List.length_append, countTrue]; omega
    refine ⟨hlt, ?_⟩
    simp only [tetOrder]
    rw [List.getElem_append_right (by simp only [List.length_append, countTrue]; omega)]
    simp only [countTrue, List.length_append, Nat.add_sub_cancel_left]
    exact h2

/-- parents of the new cells of `MeshTet1._uniform` -/
theorem tetLayout_parents (nt : Nat) (c1 c2 c3 : List Bool) :
    (tetLayout nt c1 c2 c3).map (·.1) =
      (blockLayout nt tetCornerT).map (·.1) ++
        ((List.range 4).map (fun _ => tetOrder c1 c2 c3)).flatten := by
  simp [tetLayout, List.flatMap, tetOrder, Function.comp_def]

theorem length_tetLayout {nt : Nat} {c1 c2 c3 : List Bool} (hp : MaskPartition nt c1 c2 c3) :
    (tetLayout nt c1 c2 c3).length = 8 * nt := by
  have h := congrArg List.length (tetLayout_parents nt c1 c2 c3)
  simp only [List.length_map, List.length_append, length_blockLayout] at h
  rw [h, length_flatten_of_uniform _ nt]
  · simp [tetCornerT]; omega
  · intro r hr
    simp only [List.mem_map] at hr
    obtain ⟨_, _, rfl⟩ := hr
    exact length_tetOrder hp

theorem tetParents_corner {nt : Nat} {c1 c2 c3 : List Bool}
    (j : Nat) (hj : j < 4 * nt) :
    ((tetLayout nt c1 c2 c3).map (·.1)).getD j 0 = j % nt := by
  rw [tetLayout_parents]
  have hl : (blockLayout nt tetCornerT).length = 4 * nt := by
    rw [length_blockLayout]; simp [tetCornerT]
  have hj' : j < ((blockLayout nt tetCornerT).map (·.1)).length := by simpa [hl] using hj
  rw [List.getD_eq_getElem?_getD, List.getElem?_append_left hj', List.getElem?_eq_getElem hj']
  simp only [Option.getD_some, List.getElem_map]
  exact blockLayout_parent nt tetCornerT j (by rw [hl]; exact hj)

theorem tetParents_mid {nt : Nat} {c1 c2 c3 : List Bool} (hp : MaskPartition nt c1 c2 c3)
    (r o : Nat) (hr : r < 4) (ho : o < nt) :
    ((tetLayout nt c1 c2 c3).map (·.1)).getD ((4 + r) * nt + o) 0
      = (tetOrder c1 c2 c3).getD o 0 := by
  rw [tetLayout_parents]
  have hl : ((blockLayout nt tetCornerT).map (·.1)).length = 4 * nt := by
    rw [List.length_map, length_blockLayout]; simp [tetCornerT]
  have hrows : ∀ x ∈ (List.range 4).map (fun _ => tetOrder c1 c2 c3), x.length = nt := by
    intro x hx
    simp only [List.mem_map] at hx
    obtain ⟨_, _, rfl⟩ := hx
    exact length_tetOrder hp
  obtain ⟨h1, h2⟩ := flatten_getElem_of_uniform _ nt hrows r o (by simpa using hr) ho
  have e : (4 + r) * nt + o = 4 * nt + (r * nt + o) := by rw [Nat.add_mul]; omega
  rw [List.getD_eq_getElem?_getD, e, List.getElem?_append_right (by omega)]
  simp only [hl, Nat.add_sub_cancel_left]
  rw [List.getElem?_eq_getElem h1, h2]
  simp only [List.getElem_map, Option.getD_some]
  rw [List.getD_eq_getElem?_getD, List.getElem?_eq_getElem (by rw [length_tetOrder hp]; exact ho)]
  rfl

theorem mem_tetSub {nt : Nat} {c1 c2 c3 : List Bool} {ixs : List Nat} {j : Nat} :
    j ∈ tetSub nt c1 c2 c3 ixs ↔
      (∃ i, i < 4 ∧ ∃ k ∈ ixs, j = ((List.range nt).map (fun k => k + i * nt)).getD k 0) ∨
      (∃ r, r < 4 ∧ ∃ k ∈ ixs, j = ((List.range nt).map (fun k =>
          match tetOff c1 c2 c3 k with
          | some o => o + (4 + r) * nt
          | none => 0)).getD k 0) := by
  simp only [tetSub, tetNewT, mem_sortCol, List.mem_flatMap, List.mem_append, List.mem_map,
    List.mem_range]
  constructor
  · rintro ⟨row, (⟨i, hi, rfl⟩ | ⟨r, hr, rfl⟩), k, hk, rfl⟩
    · exact Or.inl ⟨i, hi, k, hk, rfl⟩
    · exact Or.inr ⟨r, hr, k, hk, rfl⟩
  · rintro (⟨i, hi, k, hk, rfl⟩ | ⟨r, hr, k, hk, rfl⟩)
    · exact ⟨_, Or.inl ⟨i, hi, rfl⟩, k, hk, rfl⟩
    · exact ⟨_, Or.inr ⟨r, hr, rfl⟩, k, hk, rfl⟩

theorem getD_map_range (nt : Nat) (f : Nat → Nat) (k : Nat) (hk : k < nt) :
    ((List.range nt).map f).getD k 0 = f k := by
  simp [List.getD_eq_getElem?_getD, hk]

/-- **subdomains of tetrahedra**: the propagated index set names exactly the new cells whose
    parent was named -/
theorem mem_tetSub_iff_parent {nt : Nat} {c1 c2 c3 : List Bool} (hp : MaskPartition nt c1 c2 c3)
    (ixs : List Nat) (hix : ∀ k ∈ ixs, k < nt) (j : Nat) (hj : j < 8 * nt) :
    j ∈ tetSub nt c1 c2 c3 ixs ↔ ((tetLayout nt c1 c2 c3).map (·.1)).getD j 0 ∈ ixs := by
  rw [mem_tetSub]
  constructor
  · rintro (⟨i, hi, k, hk, rfl⟩ | ⟨r, hr, k, hk, rfl⟩)
    · have hkn := hix k hk
      rw [getD_map_range nt _ k hkn]
      have hlt : k + i * nt < 4 * nt := by
        have : (i + 1) * nt ≤ 4 * nt := Nat.mul_le_mul_right _ (by omega)
        rw [Nat.add_mul] at this; omega
      rw [tetParents_corner _ hlt, Nat.add_mul_mod_self_right, Nat.mod_eq_of_lt hkn]
      exact hk
    · have hkn := hix k hk
      rw [getD_map_range nt _ k hkn]
      obtain ⟨o, ho, hlt, hget⟩ := tetOrder_getElem_off hp k hkn
      rw [ho]
      simp only
      have hon : o < nt := by rw [← length_tetOrder hp]; exact hlt
      rw [Nat.add_comm o, tetParents_mid hp r o hr hon, List.getD_eq_getElem?_getD,
        List.getElem?_eq_getElem hlt, Option.getD_some, hget]
      exact hk
  · intro h
    have hnt : 0 < nt := by omega
    by_cases hc : j < 4 * nt
    · left
      rw [tetParents_corner _ hc] at h
      refine ⟨j / nt, ?_, j % nt, h, ?_⟩
      · apply Nat.div_lt_of_lt_mul; rw [Nat.mul_comm]; exact hc
      · rw [getD_map_range nt _ _ (Nat.mod_lt _ hnt)]
        have := Nat.div_add_mod j nt
        rw [Nat.mul_comm] at this; omega
    · right
      have hge : 4 * nt ≤ j := by omega
      let q := j - 4 * nt
      have hq : q < 4 * nt := by omega
      have hr : q / nt < 4 := by apply Nat.div_lt_of_lt_mul; rw [Nat.mul_comm]; exact hq
      have ho : q % nt < nt := Nat.mod_lt _ hnt
      have ej : j = (4 + q / nt) * nt + q % nt := by
        have := Nat.div_add_mod q nt
        rw [Nat.add_mul]; rw [Nat.mul_comm] at this; omega
      rw [ej, tetParents_mid hp _ _ hr ho] at h
      have holt : q % nt < (tetOrder c1 c2 c3).length := by rw [length_tetOrder hp]; exact ho
      rw [List.getD_eq_getElem?_getD, List.getElem?_eq_getElem holt, Option.getD_some] at h
      have hkn := hix _ h
      obtain ⟨o', ho', hlt', hget'⟩ := tetOrder_getElem_off hp _ hkn
      have eo : o' = q % nt :=
        (List.getElem_inj (nodup_tetOrder hp)).mp hget'
      refine ⟨q / nt, hr, _, h, ?_⟩
      rw [getD_map_range nt _ _ hkn, ho']
      simp only
      rw [eo]; omega

/-! ### the diagonal masks are a partition -/

theorem tetMasks_one (d1 d2 d3 : Rat) :
    ((tetMasks d1 d2 d3).1 = true ∧ (tetMasks d1 d2 d3).2.1 = false ∧ (tetMasks d1 d2 d3).2.2 = false) ∨
    ((tetMasks d1 d2 d3).1 = false ∧ (tetMasks d1 d2 d3).2.1 = true ∧ (tetMasks d1 d2 d3).2.2 = false) ∨
    ((tetMasks d1 d2 d3).1 = false ∧ (tetMasks d1 d2 d3).2.1 = false ∧ (tetMasks d1 d2 d3).2.2 = true) := by
  unfold tetMasks
  by_cases h1 : d1 < d2 <;> by_cases h2 : d1 < d3 <;> by_cases h3 : d2 < d3 <;>
    simp [h1, h2, h3] <;> linarith

theorem tetMaskLists_partition (newp : List Pt) (E : Env) (nt : Nat) :
    MaskPartition nt (tetMaskLists newp E nt).1 (tetMaskLists newp E nt).2.1
      (tetMaskLists newp E nt).2.2 := by
  refine ⟨by simp [tetMaskLists], by simp [tetMaskLists], by simp [tetMaskLists], ?_⟩
  intro k hk
  simp only [tetMaskLists, List.getD_eq_getElem?_getD, List.map_map, List.getElem?_map,
    List.getElem?_range hk, Option.map_some, Option.getD_some, Function.comp_def]
  exact tetMasks_one _ _ _

/-! ### means are independent of the order of the vertices -/

theorem addPt_left_comm (a b c : Pt) : addPt a (addPt b c) = addPt b (addPt a c) := by
  induction a generalizing b c with
  | nil => cases b <;> simp [addPt]
  | cons x xs ih =>
    cases b with
    | nil => simp [addPt]
    | cons y ys =>
      cases c with
      | nil => simp [addPt]
      | cons z zs =>
        have := ih ys zs
        simp only [addPt, List.zipWith_cons_cons] at this ⊢
        rw [this]
        congr 1
        ring

instance : LeftCommutative addPt := ⟨addPt_left_comm⟩

theorem sumPts_perm (d : Nat) {l l' : List Pt} (h : l.Perm l') : sumPts d l = sumPts d l' := by
  unfold sumPts
  exact h.foldr_eq _

theorem meanPts_perm (d : Nat) {l l' : List Pt} (h : l.Perm l') : meanPts d l = meanPts d l' := by
  unfold meanPts
  rw [sumPts_perm d h, h.length_eq]

theorem gather_perm (p : List Pt) {a b : List Nat} (h : a.Perm b) : (gather p a).Perm (gather p b) :=
  h.map _

/-! ### slot specification for both storage modes of `build_entities` -/

theorem length_entitiesUnsorted (cells ref : List (List Nat)) :
    (entitiesUnsorted cells ref).length = (entitiesSorted cells ref).length := by
  simp [entitiesUnsorted, entitiesSorted, uniqueIndex]

theorem entitiesUnsorted_sorted (cells ref : List (List Nat)) (i : Nat)
    (hi : i < (entitiesSorted cells ref).length) :
    sortCol ((entitiesUnsorted cells ref)[i]'(by rw [length_entitiesUnsorted]; exact hi))
      = (entitiesSorted cells ref)[i] := by
  have hi' : i < (unique (sortedIndexing cells ref)).length := hi
  obtain ⟨h1, h2⟩ := uniqueIndex_spec (sortedIndexing cells ref) i hi'
  have hlen : (sortedIndexing cells ref).length = (indexing cells ref).length := by
    simp [sortedIndexing]
  simp only [entitiesUnsorted, List.getElem_map]
  rw [List.getD_eq_getElem?_getD, List.getElem?_eq_getElem (by rw [← hlen]; exact h1), Option.getD_some]
  have : (sortedIndexing cells ref)[(uniqueIndex (sortedIndexing cells ref))[i]'(by simpa [uniqueIndex] using hi')]
      = sortCol ((indexing cells ref)[(uniqueIndex (sortedIndexing cells ref))[i]'(by simpa [uniqueIndex] using hi')]'(by rw [← hlen]; exact h1)) := by
    simp [sortedIndexing]
  rw [← this]
  exact h2

/-- for either storage mode: the entity named by `tbl[j][k]` exists and consists of the
    vertices of local entity `ref[j]` of cell `k` (C11 slot specification) -/
theorem buildEntities_slot (cells ref : List (List Nat)) (sort : Bool) (j k : Nat)
    (hj : j < ref.length) (hk : k < cells.length) :
    (((buildEntities cells ref sort).2.getD j []).getD k 0 < (buildEntities cells ref sort).1.length) ∧
    ((buildEntities cells ref sort).1.getD (((buildEntities cells ref sort).2.getD j []).getD k 0) []).Perm
      (slotCol (cells.getD k []) (ref.getD j [])) := by
  obtain ⟨h1, h2, h3, e⟩ := C11.C11_slot_spec cells ref j k hj hk
  have eidx : ((buildEntities cells ref sort).2.getD j []).getD k 0 = ((entityMapping cells ref)[j])[k] := by
    simp [buildEntities, List.getD_eq_getElem?_getD, List.getElem?_eq_getElem h1,
      List.getElem?_eq_getElem h2]
  have ec : cells.getD k [] = cells[k] := by simp [List.getD_eq_getElem?_getD, hk]
  have er : ref.getD j [] = ref[j] := by simp [List.getD_eq_getElem?_getD, hj]
  rw [eidx, ec, er]
  cases sort with
  | true =>
    refine ⟨by simpa [buildEntities] using h3, ?_⟩
    simp only [buildEntities, if_true, List.getD_eq_getElem?_getD, List.getElem?_eq_getElem h3,
      Option.getD_some, e]
    exact perm_sortCol _
  | false =>
    have h3' : ((entityMapping cells ref)[j])[k] < (entitiesUnsorted cells ref).length := by
      rw [length_entitiesUnsorted]; exact h3
    refine ⟨by simpa [buildEntities] using h3', ?_⟩
    simp only [buildEntities, Bool.false_eq_true, if_false, List.getD_eq_getElem?_getD,
      List.getElem?_eq_getElem h3', Option.getD_some]
    have := entitiesUnsorted_sorted cells ref _ h3
    rw [e] at this
    exact ((perm_sortCol _).symm.trans (this ▸ (List.Perm.refl _))).trans (perm_sortCol _)

theorem midpoints_getD (d : Nat) (p : List Pt) (ents : List (List Nat)) (i : Nat) (hi : i < ents.length) :
    (midpoints d p ents).getD i [] = meanPts d (gather p (ents.getD i [])) := by
  simp [midpoints, List.getD_eq_getElem?_getD, hi]

theorem length_midpoints (d : Nat) (p : List Pt) (ents : List (List Nat)) :
    (midpoints d p ents).length = ents.length := by simp [midpoints]

/-! ### `np.max` of a slot table -/

theorem foldl_max_ge (l : List Nat) (a : Nat) : a ≤ l.foldl max a := by
  induction l generalizing a with
  | nil => simp
  | cons x xs ih => simp only [List.foldl_cons]; exact Nat.le_trans (Nat.le_max_left a x) (ih _)

theorem foldl_max_mem (l : List Nat) (a x : Nat) (h : x ∈ l) : x ≤ l.foldl max a := by
  induction l generalizing a with
  | nil => simp at h
  | cons y ys ih =>
    simp only [List.foldl_cons]
    rcases List.mem_cons.mp h with rfl | h'
    · exact Nat.le_trans (Nat.le_max_right a x) (foldl_max_ge _ _)
    · exact ih _ h'

theorem foldl_max_le (l : List Nat) (a M : Nat) (ha : a ≤ M) (h : ∀ x ∈ l, x ≤ M) : l.foldl max a ≤ M := by
  induction l generalizing a with
  | nil => simpa using ha
  | cons y ys ih =>
    simp only [List.foldl_cons]
    exact ih _ (Nat.max_le.mpr ⟨ha, h y (by simp)⟩) (fun x hx => h x (by simp [hx]))

theorem listMax_eq_of (l : List Nat) (M : Nat) (hM : M ∈ l) (h : ∀ x ∈ l, x ≤ M) : listMax l = M :=
  Nat.le_antisymm (foldl_max_le l 0 M (Nat.zero_le _) h) (foldl_max_mem l 0 M hM)

theorem mem_entityMapping_flatten_lt (cells ref : List (List Nat)) (x : Nat)
    (hx : x ∈ (entityMapping cells ref).flatten) : x < (entitiesSorted cells ref).length := by
  rw [List.mem_flatten] at hx
  obtain ⟨row, hrow, hxr⟩ := hx
  simp only [entityMapping, reshapeRows, List.mem_map, List.mem_range] at hrow
  obtain ⟨i, _, rfl⟩ := hrow
  have hx2 : x ∈ entityOfColumn cells ref := List.mem_of_mem_drop (List.mem_of_mem_take hxr)
  obtain ⟨i, hi, rfl⟩ := List.getElem_of_mem hx2
  have hi' : i < (sortedIndexing cells ref).length := by
    simpa [entityOfColumn, length_uniqueInverse] using hi
  obtain ⟨h, _⟩ := uniqueInverse_spec (sortedIndexing cells ref) i hi'
  exact h

/-- `np.max(t2f) + 1` is the number of facets (every facet is named by some slot) -/
theorem listMax_entityMapping (cells ref : List (List Nat)) (hnt : 0 < cells.length) (hr : 0 < ref.length) :
    listMax (entityMapping cells ref).flatten + 1 = (entitiesSorted cells ref).length := by
  have hS : 0 < (sortedIndexing cells ref).length := by
    rw [length_sortedIndexing]; exact Nat.mul_pos hr hnt
  have hmem0 : (sortedIndexing cells ref)[0] ∈ unique (sortedIndexing cells ref) :=
    mem_unique.mpr (List.getElem_mem hS)
  have hnf : 0 < (entitiesSorted cells ref).length := List.length_pos_of_mem hmem0
  let nf := (entitiesSorted cells ref).length
  have hlast : nf - 1 < (unique (sortedIndexing cells ref)).length := by
    show nf - 1 < nf; omega
  have hin : (unique (sortedIndexing cells ref))[nf - 1] ∈ sortedIndexing cells ref :=
    mem_unique.mp (List.getElem_mem hlast)
  obtain ⟨c, hc, hcget⟩ := List.getElem_of_mem hin
  have hc' : c < ref.length * cells.length := by rw [← length_sortedIndexing]; exact hc
  have hj : c / cells.length < ref.length := by
    apply Nat.div_lt_of_lt_mul; rw [Nat.mul_comm]; exact hc'
  have hk : c % cells.length < cells.length := Nat.mod_lt _ hnt
  obtain ⟨g1, g2, g3, ge⟩ := entityMapping_getElem cells ref _ _ hj hk
  have ecd : c / cells.length * cells.length + c % cells.length = c := by
    rw [Nat.mul_comm]; exact Nat.div_add_mod c cells.length
  have hval : ((entityMapping cells ref)[c / cells.length])[c % cells.length] = nf - 1 := by
    rw [ge]
    obtain ⟨u1, u2⟩ := uniqueInverse_spec (sortedIndexing cells ref) c hc
    have : (entityOfColumn cells ref)[c / cells.length * cells.length + c % cells.length]'g3
        = (uniqueInverse (sortedIndexing cells ref))[c]'(by simpa [length_uniqueInverse] using hc) := by
      simp only [ecd, entityOfColumn]
    rw [this]
    exact (List.getElem_inj (nodup_unique _)).mp (u2.trans hcget)
  have hM : nf - 1 ∈ (entityMapping cells ref).flatten := by
    rw [List.mem_flatten]
    exact ⟨_, List.getElem_mem g1, hval ▸ List.getElem_mem g2⟩
  have := listMax_eq_of _ (nf - 1) hM (fun x hx => by
    have := mem_entityMapping_flatten_lt cells ref x hx
    show x ≤ nf - 1
    omega)
  rw [this]
  show nf - 1 + 1 = nf
  omega

/-! ### the step of `Mesh.refined` -/

theorem length_postInit (b : Bool) (cells : List (List Nat)) : (postInit b cells).length = cells.length := by
  unfold postInit; split <;> simp

theorem refinedOnceWith_cells (u : MeshData → MeshData) (m : MeshData) :
    (refinedOnceWith u m).cells = (u m).cells := by
  simp only [refinedOnceWith]; split <;> rfl

theorem refinedOnceWith_p (u : MeshData → MeshData) (m : MeshData) :
    (refinedOnceWith u m).p = (u m).p := by
  simp only [refinedOnceWith]; split <;> rfl

theorem refinedOnceWith_bnd (u : MeshData → MeshData) (m : MeshData) :
    (refinedOnceWith u m).bnd = (u m).bnd := by
  simp only [refinedOnceWith]; split <;> rfl

theorem refinedOnceWith_sortT (u : MeshData → MeshData) (m : MeshData) :
    (refinedOnceWith u m).sortT = (u m).sortT := by
  simp only [refinedOnceWith]; split <;> rfl

theorem length_layoutOf (kd : Kind) (m : MeshData) :
    (layoutOf kd m).length = kd.nchild * m.cells.length := by
  cases kd
  · simp [layoutOf, length_interleavedLayout, lineT, Kind.nchild, Nat.mul_comm]
  · simp [layoutOf, length_blockLayout, triT, Kind.nchild]
  · simp [layoutOf, length_blockLayout, quadT, Kind.nchild]
  · simp only [layoutOf, Kind.nchild]
    exact length_tetLayout (tetMaskLists_partition _ _ _)
  · simp [layoutOf, length_blockLayout, hexT, Kind.nchild]

theorem length_newCells (kd : Kind) (m : MeshData) :
    (newCells kd m).length = kd.nchild * m.cells.length := by
  simp [newCells, rawCells, length_postInit, length_realize, length_layoutOf]

/-! ### named subdomains -/

theorem genericSub_lt {N nt : Nat} {ixs : List Nat} (hix : ∀ k ∈ ixs, k < nt) {j : Nat}
    (hj : j ∈ genericSub N nt ixs) : j < N * nt := by
  rw [mem_genericSub] at hj
  obtain ⟨i, hi, k, hk, rfl⟩ := hj
  have := hix k hk
  have h2 : (i + 1) * nt ≤ N * nt := Nat.mul_le_mul_right _ (by omega)
  rw [Nat.add_mul] at h2; omega

theorem lineSub_lt {nt : Nat} {ixs : List Nat} (hix : ∀ k ∈ ixs, k < nt) {j : Nat}
    (hj : j ∈ lineSub ixs) : j < 2 * nt := by
  rw [mem_lineSub] at hj
  have := hix _ hj
  omega

theorem tetSub_lt {nt : Nat} {c1 c2 c3 : List Bool} (hp : MaskPartition nt c1 c2 c3)
    {ixs : List Nat} (hix : ∀ k ∈ ixs, k < nt) {j : Nat} (hj : j ∈ tetSub nt c1 c2 c3 ixs) :
    j < 8 * nt := by
  rw [mem_tetSub] at hj
  rcases hj with ⟨i, hi, k, hk, rfl⟩ | ⟨r, hr, k, hk, rfl⟩
  · have hkn := hix k hk
    rw [getD_map_range nt _ k hkn]
    have h2 : (i + 1) * nt ≤ 4 * nt := Nat.mul_le_mul_right _ (by omega)
    rw [Nat.add_mul] at h2; omega
  · have hkn := hix k hk
    rw [getD_map_range nt _ k hkn]
    obtain ⟨o, ho, hlt, _⟩ := tetOrder_getElem_off hp k hkn
    rw [ho]
    simp only
    have hon : o < nt := by rw [← length_tetOrder hp]; exact hlt
    have h2 : (4 + r + 1) * nt ≤ 8 * nt := Nat.mul_le_mul_right _ (by omega)
    rw [Nat.add_mul (4 + r)] at h2; omega

theorem mem_genericSub_iff_mod {N nt : Nat} (ixs : List Nat) (hix : ∀ k ∈ ixs, k < nt) (j : Nat)
    (hj : j < N * nt) : j ∈ genericSub N nt ixs ↔ j % nt ∈ ixs := by
  rw [mem_genericSub]
  have hnt : 0 < nt := by
    rcases Nat.eq_zero_or_pos nt with h | h
    · rw [h] at hj; simp at hj
    · exact h
  constructor
  · rintro ⟨i, _, k, hk, rfl⟩
    rw [Nat.add_mul_mod_self_right, Nat.mod_eq_of_lt (hix k hk)]
    exact hk
  · intro h
    refine ⟨j / nt, ?_, j % nt, h, ?_⟩
    · apply Nat.div_lt_of_lt_mul; rw [Nat.mul_comm]; exact hj
    · have := Nat.div_add_mod j nt
      rw [Nat.mul_comm] at this; omega

/-- all indices of the tag arrays are valid entity numbers -/
def TagsOk (n : Nat) (s : List (List Nat)) : Prop := ∀ ixs ∈ s, ∀ k ∈ ixs, k < n

theorem parentsOf_block_getD (nt : Nat) (T : Template) (j : Nat) (hj : j < T.length * nt) :
    ((blockLayout nt T).map (·.1)).getD j 0 = j % nt := by
  have hl : j < (blockLayout nt T).length := by rw [length_blockLayout]; exact hj
  rw [List.getD_eq_getElem?_getD, List.getElem?_eq_getElem (by simpa using hl)]
  simp only [Option.getD_some, List.getElem_map]
  exact blockLayout_parent nt T j hl

theorem parentsOf_line_getD (nt : Nat) (j : Nat) (hj : j < 2 * nt) :
    ((interleavedLayout nt lineT).map (·.1)).getD j 0 = j / 2 := by
  have hl : j < (interleavedLayout nt lineT).length := by
    rw [length_interleavedLayout]; simp [lineT]; omega
  rw [List.getD_eq_getElem?_getD, List.getElem?_eq_getElem (by simpa using hl)]
  simp only [Option.getD_some, List.getElem_map]
  exact interleavedLayout_parent nt lineT j hl

theorem getD_map_list {α β : Type} (f : α → β) (l : List α) (a : Nat) (ha : a < l.length) (d : α) (d' : β) :
    (l.map f).getD a d' = f (l.getD a d) := by
  simp [List.getD_eq_getElem?_getD, ha]

/-- **named subdomains, one pass of `Mesh.refined`**: the result carries subdomains again, and
    each of them names exactly the new cells whose parent it named before -/
theorem refinedOnce_sub (kd : Kind) (m : MeshData) (s : List (List Nat)) (hs : m.sub = some s)
    (hok : TagsOk m.cells.length s) :
    ∃ s', (refinedOnce kd m).sub = some s' ∧ s'.length = s.length ∧
      TagsOk (refinedOnce kd m).cells.length s' ∧
      ∀ a, a < s.length → ∀ j, j < (refinedOnce kd m).cells.length →
        (j ∈ s'.getD a [] ↔ (parentsOf kd m).getD j 0 ∈ s.getD a []) := by
  have hcells : (refinedOnce kd m).cells.length = kd.nchild * m.cells.length := by
    simp only [refinedOnce, refinedOnceWith_cells, uniform, length_newCells]
  rw [hcells]
  have hmem : ∀ a, a < s.length → ∀ k ∈ s.getD a [], k < m.cells.length := by
    intro a ha k hk
    refine hok (s.getD a []) ?_ k hk
    rw [List.getD_eq_getElem?_getD, List.getElem?_eq_getElem ha]; exact List.getElem_mem ha
  -- the three cell types handled by the generic code
  have generic : ∀ T : Template, kd.nchild = T.length → subOf kd m = none →
      parentsOf kd m = (blockLayout m.cells.length T).map (·.1) →
      ∃ s', (refinedOnce kd m).sub = some s' ∧ s'.length = s.length ∧
      TagsOk (kd.nchild * m.cells.length) s' ∧
      ∀ a, a < s.length → ∀ j, j < kd.nchild * m.cells.length →
        (j ∈ s'.getD a [] ↔ (parentsOf kd m).getD j 0 ∈ s.getD a []) := by
    intro T hT hnone hpar
    refine ⟨s.map (genericSub ((uniform kd m).cells.length / m.cells.length) m.cells.length), ?_, by simp,
      ?_, ?_⟩
    · simp only [refinedOnce, refinedOnceWith, hs]
      have : (uniform kd m).sub = none := by simp [uniform, hnone]
      rw [this]
    · intro ixs' hixs' j hj
      simp only [List.mem_map] at hixs'
      obtain ⟨ixs, hixs, rfl⟩ := hixs'
      have hlt := genericSub_lt (hok ixs hixs) hj
      rcases Nat.eq_zero_or_pos m.cells.length with h | h
      · rw [h] at hlt; simp at hlt
      · have hN : (uniform kd m).cells.length / m.cells.length = kd.nchild := by
          simp only [uniform, length_newCells]
          exact Nat.mul_div_cancel _ h
        rw [hN] at hlt; exact hlt
    · intro a ha j hj
      have hnt : 0 < m.cells.length := by
        rcases Nat.eq_zero_or_pos m.cells.length with h | h
        · rw [h] at hj; simp at hj
        · exact h
      have hN : (uniform kd m).cells.length / m.cells.length = kd.nchild := by
        simp only [uniform, length_newCells]
        exact Nat.mul_div_cancel _ hnt
      rw [getD_map_list _ s a ha [] [], hN, hpar, parentsOf_block_getD _ _ _ (hT ▸ hj)]
      exact mem_genericSub_iff_mod _ (hmem a ha) j hj
  cases kd with
  | line =>
    refine ⟨s.map lineSub, ?_, by simp, ?_, ?_⟩
    · simp [refinedOnce, refinedOnceWith, hs, uniform, subOf]
    · intro ixs' hixs' j hj
      simp only [List.mem_map] at hixs'
      obtain ⟨ixs, hixs, rfl⟩ := hixs'
      simpa [Kind.nchild] using lineSub_lt (hok ixs hixs) hj
    · intro a ha j hj
      rw [getD_map_list _ s a ha [] [], mem_lineSub]
      simp only [parentsOf, layoutOf]
      rw [parentsOf_line_getD _ j (by simpa [Kind.nchild] using hj)]
  | tri => exact generic triT (by simp [Kind.nchild, triT]) rfl rfl
  | quad => exact generic quadT (by simp [Kind.nchild, quadT]) rfl rfl
  | hex => exact generic hexT (by simp [Kind.nchild, hexT]) rfl rfl
  | tet =>
    refine ⟨s.map (tetSub m.cells.length (tetMasksOf m).1 (tetMasksOf m).2.1 (tetMasksOf m).2.2), ?_,
      by simp, ?_, ?_⟩
    · simp [refinedOnce, refinedOnceWith, hs, uniform, subOf]
    · intro ixs' hixs' j hj
      simp only [List.mem_map] at hixs'
      obtain ⟨ixs, hixs, rfl⟩ := hixs'
      simpa [Kind.nchild] using tetSub_lt (tetMaskLists_partition _ _ _) (hok ixs hixs) hj
    · intro a ha j hj
      rw [getD_map_list _ s a ha [] []]
      simp only [parentsOf, layoutOf]
      exact mem_tetSub_iff_parent (tetMaskLists_partition _ _ _) _ (hmem a ha) j
        (by simpa [Kind.nchild] using hj)

/-! ### iteration -/

/-- the parent of every new cell is a cell of the old mesh -/
theorem parentsOf_lt (kd : Kind) (m : MeshData) (j : Nat) (hj : j < kd.nchild * m.cells.length) :
    (parentsOf kd m).getD j 0 < m.cells.length := by
  have hnt : 0 < m.cells.length := by
    rcases Nat.eq_zero_or_pos m.cells.length with h | h
    · rw [h] at hj; simp at hj
    · exact h
  cases kd with
  | line =>
    simp only [parentsOf, layoutOf]
    rw [parentsOf_line_getD _ j (by simpa [Kind.nchild] using hj)]
    simp only [Kind.nchild] at hj; omega
  | tri =>
    simp only [parentsOf, layoutOf]
    rw [parentsOf_block_getD _ _ _ (by simpa [Kind.nchild, triT] using hj)]
    exact Nat.mod_lt _ hnt
  | quad =>
    simp only [parentsOf, layoutOf]
    rw [parentsOf_block_getD _ _ _ (by simpa [Kind.nchild, quadT] using hj)]
    exact Nat.mod_lt _ hnt
  | hex =>
    simp only [parentsOf, layoutOf]
    rw [parentsOf_block_getD _ _ _ (by simpa [Kind.nchild, hexT] using hj)]
    exact Nat.mod_lt _ hnt
  | tet =>
    simp only [parentsOf, layoutOf]
    have hp := tetMaskLists_partition (m.p ++ newPts .tet m) (envOf .tet m) m.cells.length
    simp only [Kind.nchild] at hj
    by_cases hc : j < 4 * m.cells.length
    · rw [tetMasksOf, tetParents_corner _ hc]; exact Nat.mod_lt _ hnt
    · let q := j - 4 * m.cells.length
      have hq : q < 4 * m.cells.length := by omega
      have hr : q / m.cells.length < 4 := by apply Nat.div_lt_of_lt_mul; rw [Nat.mul_comm]; exact hq
      have ho : q % m.cells.length < m.cells.length := Nat.mod_lt _ hnt
      have ej : j = (4 + q / m.cells.length) * m.cells.length + q % m.cells.length := by
        have := Nat.div_add_mod q m.cells.length
        rw [Nat.add_mul]; rw [Nat.mul_comm] at this; omega
      rw [ej, tetMasksOf, tetParents_mid hp _ _ hr ho]
      have holt : q % m.cells.length < (tetOrder (tetMaskLists (m.p ++ newPts .tet m) (envOf .tet m) m.cells.length).1
          (tetMaskLists (m.p ++ newPts .tet m) (envOf .tet m) m.cells.length).2.1
          (tetMaskLists (m.p ++ newPts .tet m) (envOf .tet m) m.cells.length).2.2).length := by
        rw [length_tetOrder hp]; exact ho
      rw [List.getD_eq_getElem?_getD, List.getElem?_eq_getElem holt, Option.getD_some]
      have hmem := List.getElem_mem holt
      simp only [tetOrder, List.mem_append, mem_masked] at hmem
      rcases hmem with (⟨h, _⟩ | ⟨h, _⟩) | ⟨h, _⟩
      · rw [hp.len1] at h; exact h
      · rw [hp.len2] at h; exact h
      · rw [hp.len3] at h; exact h

/-- ancestor in the original mesh of every cell after `n` passes -/
def ancestors (kd : Kind) : Nat → MeshData → List Nat
  | 0, m => List.range m.cells.length
  | n + 1, m => (ancestors kd n (refinedOnce kd m)).map (fun a => (parentsOf kd m).getD a 0)

theorem refinedOnce_cells_length (kd : Kind) (m : MeshData) :
    (refinedOnce kd m).cells.length = kd.nchild * m.cells.length := by
  simp only [refinedOnce, refinedOnceWith_cells, uniform, length_newCells]

theorem refined_cells_length (kd : Kind) (n : Nat) (m : MeshData) :
    (refined kd n m).cells.length = kd.nchild ^ n * m.cells.length := by
  induction n generalizing m with
  | zero => simp [refined]
  | succ n ih =>
    simp only [refined]
    rw [ih, refinedOnce_cells_length, Nat.pow_succ, Nat.mul_assoc]

theorem length_ancestors (kd : Kind) (n : Nat) (m : MeshData) :
    (ancestors kd n m).length = (refined kd n m).cells.length := by
  induction n generalizing m with
  | zero => simp [ancestors, refined]
  | succ n ih => simp [ancestors, refined, ih]

theorem ancestors_lt (kd : Kind) (n : Nat) (m : MeshData) (j : Nat) (hj : j < (refined kd n m).cells.length) :
    (ancestors kd n m).getD j 0 < m.cells.length := by
  induction n generalizing m j with
  | zero =>
    simp only [refined] at hj
    simp [ancestors, List.getD_eq_getElem?_getD, hj]
  | succ n ih =>
    simp only [refined] at hj
    simp only [ancestors]
    rw [getD_map_list _ _ j (by rw [length_ancestors]; exact hj) 0 0]
    have := ih (refinedOnce kd m) j hj
    rw [refinedOnce_cells_length] at this
    exact parentsOf_lt kd m _ this

/-- **named subdomains after `n` passes** -/
theorem refined_sub (kd : Kind) (n : Nat) (m : MeshData) (s : List (List Nat)) (hs : m.sub = some s)
    (hok : TagsOk m.cells.length s) :
    ∃ s', (refined kd n m).sub = some s' ∧ s'.length = s.length ∧
      ∀ a, a < s.length → ∀ j, j < (refined kd n m).cells.length →
        (j ∈ s'.getD a [] ↔ (ancestors kd n m).getD j 0 ∈ s.getD a []) := by
  induction n generalizing m s with
  | zero =>
    refine ⟨s, by simpa [refined] using hs, rfl, ?_⟩
    intro a _ j hj
    simp only [refined] at hj
    simp [ancestors, List.getD_eq_getElem?_getD, hj]
  | succ n ih =>
    obtain ⟨s1, hs1, hl1, hok1, h1⟩ := refinedOnce_sub kd m s hs hok
    obtain ⟨s', hs', hl', h'⟩ := ih (refinedOnce kd m) s1 hs1 hok1
    refine ⟨s', by simpa [refined] using hs', by rw [hl', hl1], ?_⟩
    intro a ha j hj
    simp only [refined] at hj
    rw [h' a (by rw [hl1]; exact ha) j hj]
    simp only [ancestors]
    rw [getD_map_list _ _ j (by rw [length_ancestors]; exact hj) 0 0]
    exact h1 a ha _ (ancestors_lt kd n (refinedOnce kd m) j hj)

theorem refinedOnce_p (kd : Kind) (m : MeshData) : (refinedOnce kd m).p = m.p ++ newPts kd m := by
  simp only [refinedOnce, refinedOnceWith_p, uniform]

theorem refined_p_prefix (kd : Kind) (n : Nat) (m : MeshData) :
    ∃ new, (refined kd n m).p = m.p ++ new := by
  induction n generalizing m with
  | zero => exact ⟨[], by simp [refined]⟩
  | succ n ih =>
    obtain ⟨new, h⟩ := ih (refinedOnce kd m)
    exact ⟨newPts kd m ++ new, by simp only [refined]; rw [h, refinedOnce_p, List.append_assoc]⟩

/-! ### positions of the new vertices -/

def Kind.nverts : Kind → Nat
  | .line => 2 | .tri => 3 | .quad => 4 | .tet => 4 | .hex => 8

/-- position of a word as a function of the positions `X` of the parent's vertices:
    the mean over the vertices of the named entity -/
def wordPt (kd : Kind) (X : List Pt) : Src → Pt
  | .v i => X.getD i []
  | .e j => meanPts kd.dim ((kd.edges.getD j []).map (fun i => X.getD i []))
  | .f j => meanPts kd.dim ((kd.facets.getD j []).map (fun i => X.getD i []))
  | .c => meanPts kd.dim X

/-- the words that occur for a cell type -/
def Src.ok (kd : Kind) : Src → Bool
  | .v i => i < kd.nverts
  | .e j => j < kd.edges.length
  | .f j => (kd == .tri || kd == .quad || kd == .hex) && j < kd.facets.length
  | .c => kd == .line || kd == .quad || kd == .hex

theorem getD_append_at (p A : List Pt) (i : Nat) :
    (p ++ A).getD (p.length + i) [] = A.getD i [] := by
  simp [List.getD_eq_getElem?_getD, List.getElem?_append_right]

theorem getD_append_lt (p A : List Pt) (i : Nat) (hi : i < p.length) :
    (p ++ A).getD i [] = p.getD i [] := by
  simp [List.getD_eq_getElem?_getD, List.getElem?_append_left hi]

theorem gather_slotCol (p : List Pt) (c slot : List Nat) (h : ∀ i ∈ slot, i < c.length) :
    gather p (slotCol c slot) = slot.map (fun i => (gather p c).getD i []) := by
  simp only [gather, slotCol, List.map_map]
  apply List.map_congr_left
  intro i hi
  have := h i hi
  simp [List.getD_eq_getElem?_getD, this]

/-- the midpoint stored for the entity named by `tbl[j][k]` is the mean of the vertices of the
    local entity `ref[j]` of cell `k` -/
theorem entity_mid_pos (d : Nat) (p : List Pt) (cells ref : List (List Nat)) (sort : Bool) (j k : Nat)
    (hj : j < ref.length) (hk : k < cells.length) :
    (midpoints d p (buildEntities cells ref sort).1).getD
        (((buildEntities cells ref sort).2.getD j []).getD k 0) []
      = meanPts d (gather p (slotCol (cells.getD k []) (ref.getD j []))) := by
  obtain ⟨h1, h2⟩ := buildEntities_slot cells ref sort j k hj hk
  rw [midpoints_getD d p _ _ h1]
  exact meanPts_perm d (gather_perm p h2)

theorem buildEntities_snd (cells ref : List (List Nat)) (sort : Bool) :
    (buildEntities cells ref sort).2 = entityMapping cells ref := by
  simp [buildEntities]

theorem buildEntities_fst_length (cells ref : List (List Nat)) (sort : Bool) :
    (buildEntities cells ref sort).1.length = (entitiesSorted cells ref).length := by
  cases sort <;> simp [buildEntities, length_entitiesUnsorted]

/-- `np.max(tbl) + 1` is the number of entities -/
theorem listMax_table (cells ref : List (List Nat)) (sort : Bool) (hnt : 0 < cells.length)
    (hr : 0 < ref.length) :
    listMax (buildEntities cells ref sort).2.flatten + 1 = (buildEntities cells ref sort).1.length := by
  rw [buildEntities_snd, buildEntities_fst_length]
  exact listMax_entityMapping cells ref hnt hr

theorem getD_mem_nat (l : List Nat) (i : Nat) (hi : i < l.length) : l.getD i 0 ∈ l := by
  rw [List.getD_eq_getElem?_getD, List.getElem?_eq_getElem hi]
  exact List.getElem_mem _

theorem getD_cells (cells : List (List Nat)) (k : Nat) (hk : k < cells.length) :
    cells.getD k [] = cells[k] := by
  simp [List.getD_eq_getElem?_getD, hk]

/-- **positions**: every vertex of every new cell sits at the mean of the vertices of the parent's
    entity it is named after; in particular parent vertices stay where they were. -/
theorem uniform_word_pos (kd : Kind) (m : MeshData) (k : Nat) (hk : k < m.cells.length)
    (hv : ∀ v ∈ m.cells.getD k [], v < m.p.length)
    (hlen : (m.cells.getD k []).length = kd.nverts) (w : Src) (hw : w.ok kd = true) :
    (uniform kd m).p.getD ((envOf kd m).num k w) [] = wordPt kd (gather m.p (m.cells.getD k [])) w := by
  have hnt : 0 < m.cells.length := by omega
  have hgv : ∀ i, i < kd.nverts → (gather m.p (m.cells.getD k [])).getD i []
      = m.p.getD ((m.cells.getD k []).getD i 0) [] := by
    intro i hi
    simp only [gather]
    exact getD_map_list _ _ i (by rw [hlen]; exact hi) 0 []
  have hcellsE : (envOf kd m).cells = m.cells := by cases kd <;> rfl
  cases w with
  | v i =>
    simp only [Src.ok, decide_eq_true_eq] at hw
    simp only [Env.num, wordPt, uniform, hcellsE, hgv i hw]
    apply getD_append_lt
    apply hv
    exact getD_mem_nat _ _ (by rw [hlen]; exact hw)
  | c =>
    have hmid : (midpoints kd.dim m.p m.cells).getD k [] = meanPts kd.dim (gather m.p (m.cells.getD k [])) :=
      midpoints_getD _ _ _ _ hk
    cases kd with
    | line =>
      simp only [Env.num, wordPt, uniform, envOf, newPts]
      rw [getD_append_at]; exact hmid
    | quad =>
      simp only [Env.num, wordPt, uniform, envOf, newPts]
      have hmax := listMax_table m.cells quadFacets true hnt (by simp [quadFacets])
      have e : listMax (facetTable Kind.quad m).2.flatten + m.p.length + 1 + k
          = (m.p ++ midpoints 2 m.p (facetTable Kind.quad m).1).length + k := by
        simp only [facetTable, Kind.facets, List.length_append, length_midpoints] at hmax ⊢
        have : (Kind.quad != Kind.hex) = true := by decide
        rw [this]; omega
      rw [e, ← List.append_assoc, getD_append_at]; exact hmid
    | hex =>
      simp only [Env.num, wordPt, uniform, envOf, newPts, List.append_assoc]
      have hmaxe := listMax_table m.cells hexEdges true hnt (by simp [hexEdges])
      have hmaxf := listMax_table m.cells hexFacets false hnt (by simp [hexFacets])
      have hre : m.p ++ (midpoints 3 m.p (edgeTable Kind.hex m).1 ++ (midpoints 3 m.p (facetTable Kind.hex m).1 ++
          midpoints 3 m.p m.cells)) = (m.p ++ midpoints 3 m.p (edgeTable Kind.hex m).1 ++
          midpoints 3 m.p (facetTable Kind.hex m).1) ++ midpoints 3 m.p m.cells := by
        simp [List.append_assoc]
      have e : listMax (facetTable Kind.hex m).2.flatten + (listMax (edgeTable Kind.hex m).2.flatten + m.p.length + 1) + 1 + k
          = (m.p ++ midpoints 3 m.p (edgeTable Kind.hex m).1 ++ midpoints 3 m.p (facetTable Kind.hex m).1).length + k := by
        simp only [facetTable, edgeTable, Kind.facets, Kind.edges, List.length_append, length_midpoints] at hmaxe hmaxf ⊢
        have : (Kind.hex != Kind.hex) = false := by decide
        rw [this]; omega
      rw [e, hre, getD_append_at]; exact hmid
    | tri => simp [Src.ok] at hw
    | tet => simp [Src.ok] at hw
  | f j =>
    cases kd with
    | line => simp [Src.ok] at hw
    | tet => simp [Src.ok] at hw
    | tri =>
      simp only [Src.ok, Kind.facets, triFacets] at hw
      have hj : j < triFacets.length := by simpa [triFacets] using hw
      simp only [Env.num, wordPt, uniform, envOf, newPts, facetTable, Kind.facets, Kind.dim]
      have : (Kind.tri != Kind.hex) = true := by decide
      rw [this, getD_append_at, entity_mid_pos 2 m.p m.cells triFacets true j k hj hk,
        gather_slotCol]
      intro i hi
      rw [hlen]
      have : j = 0 ∨ j = 1 ∨ j = 2 := by simp [triFacets] at hj; omega
      rcases this with rfl | rfl | rfl <;> simp [triFacets] at hi <;> rcases hi with rfl | rfl <;> decide
    | quad =>
      simp only [Src.ok, Kind.facets, quadFacets] at hw
      have hj : j < quadFacets.length := by simpa [quadFacets] using hw
      simp only [Env.num, wordPt, uniform, envOf, newPts, facetTable, Kind.facets, Kind.dim]
      have : (Kind.quad != Kind.hex) = true := by decide
      rw [this, getD_append_at, getD_append_lt _ _ _ (by
          rw [length_midpoints]; exact (buildEntities_slot m.cells quadFacets true j k hj hk).1),
        entity_mid_pos 2 m.p m.cells quadFacets true j k hj hk, gather_slotCol]
      intro i hi
      rw [hlen]
      have : j = 0 ∨ j = 1 ∨ j = 2 ∨ j = 3 := by simp [quadFacets] at hj; omega
      rcases this with rfl | rfl | rfl | rfl <;> simp [quadFacets] at hi <;> rcases hi with rfl | rfl <;> decide
    | hex =>
      simp only [Src.ok, Kind.facets, hexFacets] at hw
      have hj : j < hexFacets.length := by simpa [hexFacets] using hw
      simp only [Env.num, wordPt, uniform, envOf, newPts, facetTable, edgeTable, Kind.facets, Kind.edges, Kind.dim,
        List.append_assoc]
      have hmaxe := listMax_table m.cells hexEdges true hnt (by simp [hexEdges])
      have : (Kind.hex != Kind.hex) = false := by decide
      rw [this]
      have e : listMax (buildEntities m.cells hexEdges true).2.flatten + m.p.length + 1
            + ((buildEntities m.cells hexFacets false).2.getD j []).getD k 0
          = (m.p ++ midpoints 3 m.p (buildEntities m.cells hexEdges true).1).length
            + ((buildEntities m.cells hexFacets false).2.getD j []).getD k 0 := by
        simp only [List.length_append, length_midpoints]; omega
      rw [e, ← List.append_assoc, getD_append_at, getD_append_lt _ _ _ (by
          rw [length_midpoints]; exact (buildEntities_slot m.cells hexFacets false j k hj hk).1),
        entity_mid_pos 3 m.p m.cells hexFacets false j k hj hk, gather_slotCol]
      intro i hi
      rw [hlen]
      have : j = 0 ∨ j = 1 ∨ j = 2 ∨ j = 3 ∨ j = 4 ∨ j = 5 := by simp [hexFacets] at hj; omega
      rcases this with rfl | rfl | rfl | rfl | rfl | rfl <;> simp [hexFacets] at hi <;>
        rcases hi with rfl | rfl | rfl | rfl <;> decide
  | e j =>
    cases kd with
    | line => simp [Src.ok, Kind.edges] at hw
    | tri => simp [Src.ok, Kind.edges] at hw
    | quad => simp [Src.ok, Kind.edges] at hw
    | tet =>
      have hw : j < tetEdges.length := by
        have h' := hw
        simp only [Src.ok, Kind.edges] at h'
        exact of_decide_eq_true h'
      simp only [Env.num, wordPt, uniform, envOf, newPts, edgeTable, Kind.edges, Kind.dim]
      rw [getD_append_at, entity_mid_pos 3 m.p m.cells tetEdges true j k hw hk, gather_slotCol]
      intro i hi
      rw [hlen]
      have : j = 0 ∨ j = 1 ∨ j = 2 ∨ j = 3 ∨ j = 4 ∨ j = 5 := by simp [tetEdges] at hw; omega
      rcases this with rfl | rfl | rfl | rfl | rfl | rfl <;> simp [tetEdges] at hi <;>
        rcases hi with rfl | rfl <;> decide
    | hex =>
      have hw : j < hexEdges.length := by
        have h' := hw
        simp only [Src.ok, Kind.edges] at h'
        exact of_decide_eq_true h'
      simp only [Env.num, wordPt, uniform, envOf, newPts, edgeTable, Kind.edges, Kind.dim, List.append_assoc]
      rw [getD_append_at, getD_append_lt _ _ _ (by
          rw [length_midpoints]; exact (buildEntities_slot m.cells hexEdges true j k hw hk).1),
        entity_mid_pos 3 m.p m.cells hexEdges true j k hw hk, gather_slotCol]
      intro i hi
      rw [hlen]
      have hj12 : j < 12 := by simpa [hexEdges] using hw
      have hi8 : i < 8 := by
        have : ∀ s ∈ hexEdges, ∀ x ∈ s, x < 8 := by decide
        apply this _ _ i hi
        rw [List.getD_eq_getElem?_getD, List.getElem?_eq_getElem hw]
        exact List.getElem_mem _
      exact hi8

end Skv.Refine
