import SkfemVerif.Model.Poly
import SkfemVerif.Lemmas.Poly
import Mathlib.Algebra.Order.Field.Rat
import Mathlib.Algebra.Order.BigOperators.Group.Finset
import Mathlib.Algebra.BigOperators.Group.List.Basic
import Mathlib.Data.List.GetD
import Mathlib.Tactic.Ring
import Mathlib.Tactic.Linarith
/-
Helper lemmas for C03 (second part): evaluation of the polynomial operations used by
`Poly.substAffine` (`mul`, `norm`, `pow`, `affineFn`, `substMono`) together with the
well-formedness invariant "all exponent vectors have length `m`", exact/approximate
consequences of `Poly.close`, and the unfolding of `checkTraceTable` / `checkKeys`.
-/
namespace Skv.C03b
open Skv Skv.C09

/-- the point `origin + Σ_k s_k · dirs_k` -/
def facetPoint (origin : List ℚ) (dirs : List (List ℚ)) (s : List ℚ) : List ℚ :=
  (List.range origin.length).map (fun i =>
    origin.getD i 0 + ((List.range dirs.length).map (fun k => s.getD k 0 * (dirs.getD k []).getD i 0)).sum)

/-- the one-sided trace of `u_h = Σ_i x[dof i] φ_i` on reference facet `f` at facet parameters `s` -/
def traceAt (vals : List Poly) (fmaps : List (List ℚ × List (List ℚ))) (dof : Nat → Nat) (x : Nat → ℚ)
    (f : Nat) (s : List ℚ) : ℚ :=
  ((List.range vals.length).map (fun i =>
    x (dof i) * (vals.getD i []).eval (facetPoint (fmaps.getD f ([], [])).1 (fmaps.getD f ([], [])).2 s))).sum

/-- well-formedness of the generated data of one element (lengths) -/
def WFElem (dim : Nat) (vals : List Poly) (fmaps : List (List ℚ × List (List ℚ))) : Prop :=
  (∀ v ∈ vals, ∀ t ∈ v, t.2.length = dim) ∧ (∀ fm ∈ fmaps, fm.1.length = dim ∧ ∀ d ∈ fm.2, d.length = dim)

/-! ### `eval` of the list operations -/

theorem eval_map_terms {α : Type} (l : List α) (c : α → ℚ) (e : α → Mono) (x : List ℚ) :
    Poly.eval (l.map (fun k => (c k, e k))) x = (l.map (fun k => c k * Poly.monoEval x (e k))).sum := by
  induction l with
  | nil => rfl
  | cons a l ih => rw [List.map_cons, eval_cons, ih, List.map_cons, List.sum_cons]

theorem eval_smul (c : ℚ) (p : Poly) (x : List ℚ) : (Poly.smul c p).eval x = c * p.eval x := by
  induction p with
  | nil => simp [Poly.smul, eval_nil]
  | cons t p ih =>
    have : Poly.smul c (t :: p) = (c * t.1, t.2) :: Poly.smul c p := rfl
    rw [this, eval_cons, ih, eval_cons]
    ring

theorem eval_sum (ps : List Poly) (x : List ℚ) :
    (Poly.sum ps).eval x = (ps.map (fun p => p.eval x)).sum := by
  induction ps with
  | nil => rfl
  | cons p ps ih =>
    have : Poly.sum (p :: ps) = p ++ Poly.sum ps := rfl
    rw [this, eval_append, ih, List.map_cons, List.sum_cons]

theorem monoEval_zipWith_add (x : List ℚ) (a b : Mono) (h : a.length = b.length) :
    Poly.monoEval x (List.zipWith (· + ·) a b) = Poly.monoEval x a * Poly.monoEval x b := by
  induction x generalizing a b with
  | nil => simp [monoEval_nil_left]
  | cons c xs ih =>
    cases a with
    | nil =>
      cases b with
      | nil => simp [monoEval_nil_right]
      | cons _ _ => simp at h
    | cons k as =>
      cases b with
      | nil => simp at h
      | cons l bs =>
        rw [List.zipWith_cons_cons, monoEval_cons, monoEval_cons, monoEval_cons,
          ih as bs (by simpa using h), pow_add]
        ring

theorem eval_mul_term (s : ℚ × Mono) (q : Poly) (x : List ℚ)
    (hq : ∀ t ∈ q, t.2.length = s.2.length) :
    Poly.eval (q.map (fun t => (s.1 * t.1, List.zipWith (· + ·) s.2 t.2))) x
      = s.1 * Poly.monoEval x s.2 * q.eval x := by
  induction q with
  | nil => simp [eval_nil]
  | cons t q ih =>
    rw [List.map_cons, eval_cons, ih (fun u hu => hq u (List.mem_cons_of_mem _ hu)), eval_cons,
      monoEval_zipWith_add x s.2 t.2 (hq t (by simp)).symm]
    ring

theorem eval_mul (m : Nat) (p q : Poly) (hp : WF m p) (hq : WF m q) (x : List ℚ) :
    (Poly.mul p q).eval x = p.eval x * q.eval x := by
  induction p with
  | nil => simp [Poly.mul, eval_nil]
  | cons s p ih =>
    have : Poly.mul (s :: p) q
        = q.map (fun t => (s.1 * t.1, List.zipWith (· + ·) s.2 t.2)) ++ Poly.mul p q := by
      simp [Poly.mul]
    rw [this, eval_append, ih (fun u hu => hp u (List.mem_cons_of_mem _ hu)), eval_cons,
      eval_mul_term s q x (fun t ht => by rw [hq t ht, hp s (by simp)])]
    ring

theorem eval_insertTerm (t : ℚ × Mono) (p : Poly) (x : List ℚ) :
    (Poly.insertTerm t p).eval x = p.eval x + t.1 * Poly.monoEval x t.2 := by
  induction p with
  | nil => simp [Poly.insertTerm, eval_cons, eval_nil]
  | cons u us ih =>
    by_cases h : u.2 = t.2
    · have : Poly.insertTerm t (u :: us) = (u.1 + t.1, u.2) :: us := by
        simp [Poly.insertTerm, h]
      rw [this, eval_cons, eval_cons, ← h]
      ring
    · have : Poly.insertTerm t (u :: us) = u :: Poly.insertTerm t us := by
        simp [Poly.insertTerm, h]
      rw [this, eval_cons, ih, eval_cons]
      ring

theorem eval_foldl_insertTerm (p acc : Poly) (x : List ℚ) :
    (p.foldl (fun acc t => Poly.insertTerm t acc) acc).eval x = acc.eval x + p.eval x := by
  induction p generalizing acc with
  | nil => simp [eval_nil]
  | cons t p ih => rw [List.foldl_cons, ih, eval_insertTerm, eval_cons]; ring

/-- merging like terms does not change the value -/
theorem eval_norm (p : Poly) (x : List ℚ) : (Poly.norm p).eval x = p.eval x := by
  unfold Poly.norm
  rw [eval_foldl_insertTerm, eval_nil, zero_add]

/-! ### the invariant `WF m` -/

theorem wf_insertTerm (m : Nat) (t : ℚ × Mono) (p : Poly) (ht : t.2.length = m) (hp : WF m p) :
    WF m (Poly.insertTerm t p) := by
  induction p with
  | nil =>
    intro u hu
    simp only [Poly.insertTerm, List.mem_singleton] at hu
    rw [hu]; exact ht
  | cons u us ih =>
    have hus : WF m us := fun v hv => hp v (List.mem_cons_of_mem _ hv)
    by_cases h : u.2 = t.2
    · have : Poly.insertTerm t (u :: us) = (u.1 + t.1, u.2) :: us := by
        simp [Poly.insertTerm, h]
      rw [this]
      intro v hv
      rcases List.mem_cons.mp hv with hv | hv
      · rw [hv]; exact hp u (by simp)
      · exact hus v hv
    · have : Poly.insertTerm t (u :: us) = u :: Poly.insertTerm t us := by
        simp [Poly.insertTerm, h]
      rw [this]
      intro v hv
      rcases List.mem_cons.mp hv with hv | hv
      · rw [hv]; exact hp u (by simp)
      · exact ih hus v hv

theorem wf_foldl_insertTerm (m : Nat) (p acc : Poly) (hp : WF m p) (hacc : WF m acc) :
    WF m (p.foldl (fun acc t => Poly.insertTerm t acc) acc) := by
  induction p generalizing acc with
  | nil => exact hacc
  | cons t p ih =>
    rw [List.foldl_cons]
    exact ih _ (fun u hu => hp u (List.mem_cons_of_mem _ hu))
      (wf_insertTerm m t acc (hp t (by simp)) hacc)

theorem wf_norm (m : Nat) (p : Poly) (hp : WF m p) : WF m (Poly.norm p) :=
  wf_foldl_insertTerm m p [] hp (fun _ h => absurd h (by simp))

theorem wf_mul (m : Nat) (p q : Poly) (hp : WF m p) (hq : WF m q) : WF m (Poly.mul p q) := by
  intro t ht
  unfold Poly.mul at ht
  rw [List.mem_flatMap] at ht
  obtain ⟨s, hs, ht⟩ := ht
  rw [List.mem_map] at ht
  obtain ⟨u, hu, rfl⟩ := ht
  simp [hp s hs, hq u hu]

theorem wf_mulN (m : Nat) (p q : Poly) (hp : WF m p) (hq : WF m q) : WF m (Poly.mulN p q) :=
  wf_norm m _ (wf_mul m p q hp hq)

theorem eval_mulN (m : Nat) (p q : Poly) (hp : WF m p) (hq : WF m q) (x : List ℚ) :
    (Poly.mulN p q).eval x = p.eval x * q.eval x := by
  unfold Poly.mulN
  rw [eval_norm, eval_mul m p q hp hq]

theorem wf_const (m : Nat) (c : ℚ) : WF m (Poly.const m c) := by
  intro t ht
  simp only [Poly.const, List.mem_singleton] at ht
  rw [ht]; simp

theorem wf_pow (m : Nat) (p : Poly) (hp : WF m p) (n : Nat) : WF m (Poly.pow m p n) := by
  induction n with
  | zero => exact wf_const m 1
  | succ n ih => exact wf_mulN m p _ hp ih

theorem eval_pow (m : Nat) (p : Poly) (hp : WF m p) (n : Nat) (x : List ℚ) :
    (Poly.pow m p n).eval x = p.eval x ^ n := by
  induction n with
  | zero => rw [pow_zero]; exact eval_const_one m x
  | succ n ih =>
    have : Poly.pow m p (n + 1) = Poly.mulN p (Poly.pow m p n) := rfl
    rw [this, eval_mulN m p _ hp (wf_pow m p hp n), ih, pow_succ]
    ring

theorem wf_affineFn (m : Nat) (a : ℚ) (d : List ℚ) : WF m (Poly.affineFn m a d) := by
  intro t ht
  unfold Poly.affineFn at ht
  rcases List.mem_cons.mp ht with ht | ht
  · rw [ht]; simp
  · rw [List.mem_map] at ht
    obtain ⟨k, _, rfl⟩ := ht
    simp

theorem wf_substMono (m : Nat) (g : List Poly) (hg : ∀ p ∈ g, WF m p) (es : List Nat) :
    WF m (Poly.substMono m g es) := by
  induction es generalizing g with
  | nil => exact wf_const m 1
  | cons e es ih =>
    have : Poly.substMono m g (e :: es)
        = Poly.mulN (Poly.pow m (g.getD 0 []) e) (Poly.substMono m (g.drop 1) es) := rfl
    rw [this]
    have h0 : WF m (g.getD 0 []) := by
      cases g with
      | nil => intro t ht; simp at ht
      | cons p g => simpa using hg p (by simp)
    exact wf_mulN m _ _ (wf_pow m _ h0 e) (ih _ (fun p hp => hg p (List.mem_of_mem_drop hp)))

/-- substitution of polynomials for the variables of one monomial: the value is the monomial
    evaluated at the values of the substituted polynomials (one polynomial per exponent needed) -/
theorem eval_substMono (m : Nat) (g : List Poly) (hg : ∀ p ∈ g, WF m p) (es : List Nat)
    (hlen : es.length ≤ g.length) (x : List ℚ) :
    (Poly.substMono m g es).eval x = Poly.monoEval (g.map (fun p => p.eval x)) es := by
  induction es generalizing g with
  | nil => rw [monoEval_nil_right]; exact eval_const_one m x
  | cons e es ih =>
    cases g with
    | nil => simp at hlen
    | cons p g =>
      have : Poly.substMono m (p :: g) (e :: es)
          = Poly.mulN (Poly.pow m p e) (Poly.substMono m g es) := rfl
      have hp : WF m p := hg p (by simp)
      have hg' : ∀ q ∈ g, WF m q := fun q hq => hg q (List.mem_cons_of_mem _ hq)
      rw [this, eval_mulN m _ _ (wf_pow m p hp e) (wf_substMono m g hg' es), eval_pow m p hp,
        ih g hg' (by simpa using hlen), List.map_cons, monoEval_cons]

/-! ### the affine functions of the facet parameters -/

theorem monoEval_range_map (s : List ℚ) (g : Nat → Nat) :
    Poly.monoEval s ((List.range s.length).map g)
      = ((List.range s.length).map (fun l => s.getD l 0 ^ g l)).prod := by
  induction s generalizing g with
  | nil => rfl
  | cons a xs ih =>
    rw [List.length_cons, List.range_succ_eq_map, List.map_cons, List.map_map, monoEval_cons,
      ih, List.map_cons, List.prod_cons, List.map_map]
    rfl

theorem prod_unit_pow (c : Nat → ℚ) (k n : Nat) :
    ((List.range n).map (fun l => c l ^ (if l == k then 1 else 0))).prod
      = if k < n then c k else 1 := by
  induction n with
  | zero => simp
  | succ n ih =>
    rw [List.range_succ, List.map_append, List.prod_append, ih]
    by_cases hnk : n = k
    · subst hnk; simp
    · by_cases hk : k < n
      · have : k < n + 1 := by omega
        simp [hk, this, hnk]
      · have : ¬ k < n + 1 := by omega
        simp [hk, this, hnk]

theorem monoEval_unit (s : List ℚ) (k : Nat) (hk : k < s.length) :
    Poly.monoEval s ((List.range s.length).map (fun l => if l == k then 1 else 0)) = s.getD k 0 := by
  rw [monoEval_range_map, prod_unit_pow (fun l => s.getD l 0) k s.length, if_pos hk]

theorem eval_affineFn (m : Nat) (a : ℚ) (d : List ℚ) (s : List ℚ) (hs : s.length = m) :
    (Poly.affineFn m a d).eval s
      = a + ((List.range m).map (fun k => s.getD k 0 * d.getD k 0)).sum := by
  subst hs
  unfold Poly.affineFn
  rw [eval_cons, eval_map_terms, monoEval_replicate_zero, mul_one]
  congr 1
  refine congrArg List.sum (List.map_congr_left (fun k hk => ?_))
  rw [monoEval_unit s k (List.mem_range.mp hk), mul_comm]

/-- the values of the affine coordinate functions at `s` are the coordinates of `facetPoint` -/
theorem affine_values (origin : List ℚ) (dirs : List (List ℚ)) (s : List ℚ)
    (hs : s.length = dirs.length) :
    ((List.range origin.length).map (fun i =>
        Poly.affineFn dirs.length (origin.getD i 0) (dirs.map (fun d => d.getD i 0)))).map
      (fun p => p.eval s) = facetPoint origin dirs s := by
  unfold facetPoint
  rw [List.map_map]
  refine List.map_congr_left (fun i _ => ?_)
  rw [Function.comp_apply, eval_affineFn _ _ _ s hs]
  congr 1
  refine congrArg List.sum (List.map_congr_left (fun k _ => ?_))
  have : (dirs.map (fun d : List ℚ => d.getD i 0)).getD k 0 = (dirs.getD k []).getD i 0 :=
    List.getD_map dirs ([] : List ℚ) (fun d : List ℚ => d.getD i 0)
  rw [this]

/-- **meaning of `substAffine`** -/
theorem eval_substAffine (p : Poly) (origin : List ℚ) (dirs : List (List ℚ)) (s : List ℚ)
    (hp : ∀ t ∈ p, t.2.length = origin.length) (hs : s.length = dirs.length) :
    (p.substAffine origin dirs).eval s = p.eval (facetPoint origin dirs s) := by
  unfold Poly.substAffine
  simp only
  rw [eval_norm, eval_sum, List.map_map, ← affine_values origin dirs s hs]
  have hev : ∀ (q : Poly) (y : List ℚ), q.eval y = (q.map (fun t => t.1 * Poly.monoEval y t.2)).sum :=
    fun _ _ => rfl
  rw [hev p]
  refine congrArg List.sum (List.map_congr_left (fun t ht => ?_))
  rw [Function.comp_apply, eval_smul, eval_substMono]
  · intro q hq
    rw [List.mem_map] at hq
    obtain ⟨i, _, rfl⟩ := hq
    exact wf_affineFn _ _ _
  · rw [List.length_map, List.length_range, hp t ht]

/-! ### consequences of `close` -/

theorem coeff_eq_zero_of_not_mem (p : Poly) (e : Mono) (h : e ∉ Poly.exps p) : Poly.coeff p e = 0 := by
  induction p with
  | nil => rfl
  | cons t p ih =>
    have h1 : t.2 ≠ e := fun he => h (by simp [Poly.exps, he])
    have h2 : e ∉ Poly.exps p := fun he => h (by
      simp only [Poly.exps, List.map_cons, List.mem_cons]; exact Or.inr he)
    rw [coeff_cons, if_neg h1, ih h2, add_zero]

/-- `close` bounds ALL coefficient differences (the unlisted exponent vectors have coefficient 0 on
    both sides) -/
theorem close_all (p q : Poly) (tol : ℚ) (h : Poly.close p q tol = true) (htol : 0 ≤ tol)
    (e : Mono) : |p.coeff e - q.coeff e| ≤ tol := by
  rw [close_iff] at h
  by_cases he : e ∈ p.exps ++ q.exps
  · exact h e he
  · rw [List.mem_append, not_or] at he
    rw [coeff_eq_zero_of_not_mem p e he.1, coeff_eq_zero_of_not_mem q e he.2, sub_zero, abs_zero]
    exact htol

theorem close_zero_coeff (p q : Poly) (h : Poly.close p q 0 = true) (e : Mono) :
    p.coeff e = q.coeff e := by
  have := close_all p q 0 h le_rfl e
  exact sub_eq_zero.mp (abs_nonpos_iff.mp this)

theorem eval_congr_coeff (p q : Poly) (h : ∀ e, p.coeff e = q.coeff e) (x : List ℚ) :
    p.eval x = q.eval x := by
  have hp : ∀ t ∈ p, t.2 ∈ (p.exps ++ q.exps).toFinset := fun t ht =>
    List.mem_toFinset.mpr (List.mem_append_left _ (mem_exps_of_mem ht))
  have hq : ∀ t ∈ q, t.2 ∈ (p.exps ++ q.exps).toFinset := fun t ht =>
    List.mem_toFinset.mpr (List.mem_append_right _ (mem_exps_of_mem ht))
  rw [eval_eq_sum p x _ hp, eval_eq_sum q x _ hq]
  exact Finset.sum_congr rfl (fun e _ => by rw [h e])

/-- exact closeness: equal values everywhere -/
theorem close_zero_eval (p q : Poly) (h : Poly.close p q 0 = true) (x : List ℚ) :
    p.eval x = q.eval x :=
  eval_congr_coeff p q (close_zero_coeff p q h) x

theorem close_mono (p q : Poly) (tol tol' : ℚ) (hle : tol ≤ tol') (h : Poly.close p q tol = true) :
    Poly.close p q tol' = true := by
  rw [close_iff] at h ⊢
  exact fun e he => le_trans (h e he) hle

/-- two polynomials close to a common third one are close to each other -/
theorem close_trans (p q g : Poly) (t1 t2 : ℚ) (h1 : Poly.close p g t1 = true)
    (h2 : Poly.close q g t2 = true) (ht1 : 0 ≤ t1) (ht2 : 0 ≤ t2) :
    Poly.close p q (t1 + t2) = true := by
  rw [close_iff]
  intro e _
  have a := close_all p g t1 h1 ht1 e
  have b := close_all q g t2 h2 ht2 e
  have : p.coeff e - q.coeff e = (p.coeff e - g.coeff e) - (q.coeff e - g.coeff e) := by ring
  rw [this]
  exact le_trans (abs_sub _ _) (add_le_add a b)

/-! ### the trace table, unfolded -/

/-- restriction of basis function `i` to reference facet `f` -/
def tr (vals : List Poly) (fmaps : List (List ℚ × List (List ℚ))) (f i : Nat) : Poly :=
  (vals.getD i []).substAffine (fmaps.getD f ([], [])).1 (fmaps.getD f ([], [])).2

/-- all (facet, function) pairs -/
def pairs (nf nv : Nat) : List (Nat × Nat) :=
  (List.range nf).flatMap (fun f => (List.range nv).map (fun i => (f, i)))

/-- the first pair carrying the key `k` -/
def firstKey (keys : List (List (Option Nat))) (nf nv k : Nat) : Option (Nat × Nat) :=
  (pairs nf nv).find? (fun gj => (keys.getD gj.1 []).getD gj.2 none == some k)

theorem mem_pairs (nf nv f i : Nat) (hf : f < nf) (hi : i < nv) : (f, i) ∈ pairs nf nv := by
  unfold pairs
  rw [List.mem_flatMap]
  exact ⟨f, List.mem_range.mpr hf, List.mem_map.mpr ⟨i, List.mem_range.mpr hi, rfl⟩⟩

/-- the entry of `checkTraceTable` for one pair -/
def entryOk (vals : List Poly) (fmaps : List (List ℚ × List (List ℚ)))
    (keys : List (List (Option Nat))) (tol : ℚ) (fi : Nat × Nat) : Bool :=
  match (keys.getD fi.1 []).getD fi.2 none with
  | none => Poly.close (tr vals fmaps fi.1 fi.2) [] tol
  | some k =>
    match firstKey keys fmaps.length vals.length k with
    | some gj => Poly.close (tr vals fmaps fi.1 fi.2) (tr vals fmaps gj.1 gj.2) tol
    | none => false

theorem checkTraceTable_eq (vals : List Poly) (fmaps : List (List ℚ × List (List ℚ)))
    (keys : List (List (Option Nat))) (tol : ℚ) :
    checkTraceTable vals fmaps keys tol =
      (keys.length == fmaps.length && keys.all (fun r => r.length == vals.length) &&
        (pairs fmaps.length vals.length).all (entryOk vals fmaps keys tol)) := rfl

theorem entryOk_none (vals : List Poly) (fmaps : List (List ℚ × List (List ℚ)))
    (keys : List (List (Option Nat))) (tol : ℚ) (fi : Nat × Nat)
    (hk : (keys.getD fi.1 []).getD fi.2 none = none) (h : entryOk vals fmaps keys tol fi = true) :
    Poly.close (tr vals fmaps fi.1 fi.2) [] tol = true := by
  unfold entryOk at h
  rw [hk] at h
  exact h

theorem entryOk_some (vals : List Poly) (fmaps : List (List ℚ × List (List ℚ)))
    (keys : List (List (Option Nat))) (tol : ℚ) (fi : Nat × Nat) (k : Nat)
    (hk : (keys.getD fi.1 []).getD fi.2 none = some k) (h : entryOk vals fmaps keys tol fi = true) :
    ∃ gj, firstKey keys fmaps.length vals.length k = some gj ∧
      Poly.close (tr vals fmaps fi.1 fi.2) (tr vals fmaps gj.1 gj.2) tol = true := by
  unfold entryOk at h
  rw [hk] at h
  simp only at h
  cases hfk : firstKey keys fmaps.length vals.length k with
  | none => rw [hfk] at h; exact absurd h (by simp)
  | some gj => rw [hfk] at h; exact ⟨gj, rfl, h⟩

theorem entryOk_mono (vals : List Poly) (fmaps : List (List ℚ × List (List ℚ)))
    (keys : List (List (Option Nat))) (tol tol' : ℚ) (hle : tol ≤ tol') (fi : Nat × Nat)
    (h : entryOk vals fmaps keys tol fi = true) : entryOk vals fmaps keys tol' fi = true := by
  cases hk : (keys.getD fi.1 []).getD fi.2 none with
  | none =>
    have := entryOk_none vals fmaps keys tol fi hk h
    unfold entryOk
    rw [hk]
    exact close_mono _ _ _ _ hle this
  | some k =>
    obtain ⟨gj, hg, hc⟩ := entryOk_some vals fmaps keys tol fi k hk h
    unfold entryOk
    rw [hk]
    simp only
    rw [hg]
    exact close_mono _ _ _ _ hle hc

/-- what a passed trace table says -/
theorem checkTraceTable_spec (vals : List Poly) (fmaps : List (List ℚ × List (List ℚ)))
    (keys : List (List (Option Nat))) (tol : ℚ) (h : checkTraceTable vals fmaps keys tol = true) :
    keys.length = fmaps.length ∧ (∀ r ∈ keys, r.length = vals.length) ∧
      ∀ f i, f < fmaps.length → i < vals.length → entryOk vals fmaps keys tol (f, i) = true := by
  rw [checkTraceTable_eq] at h
  simp only [Bool.and_eq_true, beq_iff_eq, List.all_eq_true] at h
  exact ⟨h.1.1, h.1.2, fun f i hf hi => h.2 (f, i) (mem_pairs _ _ f i hf hi)⟩

theorem checkTraceTable_mono (vals : List Poly) (fmaps : List (List ℚ × List (List ℚ)))
    (keys : List (List (Option Nat))) (tol tol' : ℚ) (hle : tol ≤ tol')
    (h : checkTraceTable vals fmaps keys tol = true) : checkTraceTable vals fmaps keys tol' = true := by
  rw [checkTraceTable_eq] at h ⊢
  simp only [Bool.and_eq_true, List.all_eq_true] at h ⊢
  exact ⟨h.1, fun fi hfi => entryOk_mono vals fmaps keys tol tol' hle fi (h.2 fi hfi)⟩

/-! ### the key table -/

theorem checkKeys_spec (keys : List (List (Option Nat))) (h : checkKeys keys = true) :
    (∀ r ∈ keys, (r.filterMap id).Nodup) ∧
      (∀ r ∈ keys, ∀ r' ∈ keys, ∀ k, k ∈ r.filterMap id ↔ k ∈ r'.filterMap id) := by
  unfold checkKeys at h
  simp only [Bool.and_eq_true, List.all_eq_true, List.mem_map, forall_exists_index, and_imp,
    forall_apply_eq_imp_iff₂, decide_eq_true_eq, List.contains_iff_mem] at h
  refine ⟨h.1, fun r hr r' hr' k => ?_⟩
  exact ⟨fun hk => (h.2 r' hr').2 k ((h.2 r hr).1 k hk),
    fun hk => (h.2 r hr).2 k ((h.2 r' hr').1 k hk)⟩

theorem mem_filterMap_id_iff (r : List (Option Nat)) (k : Nat) :
    k ∈ r.filterMap id ↔ some k ∈ r := by
  rw [List.mem_filterMap]
  exact ⟨fun ⟨a, ha, hak⟩ => by rw [id] at hak; rw [← hak]; exact ha, fun hk => ⟨some k, hk, rfl⟩⟩

theorem mem_filterMap_of_getD (r : List (Option Nat)) (i k : Nat) (hk : r.getD i none = some k) :
    k ∈ r.filterMap id := by
  rw [mem_filterMap_id_iff]
  by_cases hi : i < r.length
  · rw [List.getD_eq_getElem r none hi] at hk
    rw [← hk]; exact List.getElem_mem hi
  · rw [List.getD_eq_default r none (not_lt.mp hi)] at hk
    exact absurd hk (by simp)

/-- position of the key `k` in a row that carries it -/
theorem idxOf_spec (r : List (Option Nat)) (k : Nat) (h : k ∈ r.filterMap id) :
    r.idxOf (some k) < r.length ∧ r.getD (r.idxOf (some k)) none = some k := by
  rw [mem_filterMap_id_iff] at h
  have hlt : r.idxOf (some k) < r.length := List.idxOf_lt_length_iff.mpr h
  exact ⟨hlt, by rw [List.getD_eq_getElem r none hlt]; exact List.getElem_idxOf hlt⟩

/-- a sum over the positions of a row in which the unkeyed entries vanish and the keyed entries
    depend on the key only is a sum over the keys of the row -/
theorem sum_by_keys (r : List (Option Nat)) (a h : Nat → ℚ)
    (hnone : ∀ i, i < r.length → r.getD i none = none → a i = 0)
    (hsome : ∀ i k, i < r.length → r.getD i none = some k → a i = h k) :
    ((List.range r.length).map a).sum = ((r.filterMap id).map h).sum := by
  induction r generalizing a with
  | nil => rfl
  | cons o r ih =>
    rw [List.length_cons, List.range_succ_eq_map, List.map_cons, List.sum_cons, List.map_map,
      ih (a ∘ Nat.succ)
        (fun i hi hk => hnone (i + 1) (by simpa using hi) (by simpa using hk))
        (fun i k hi hk => hsome (i + 1) k (by simpa using hi) (by simpa using hk))]
    cases o with
    | none => rw [hnone 0 (by simp) rfl]; simp
    | some k => rw [hsome 0 k (by simp) rfl]; simp

end Skv.C03b
