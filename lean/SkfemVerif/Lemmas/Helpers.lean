import SkfemVerif.Model.Helpers
import Mathlib.LinearAlgebra.Matrix.Determinant.Basic
import Mathlib.LinearAlgebra.Matrix.NonsingularInverse
import Mathlib.LinearAlgebra.Matrix.Trace
import Mathlib.LinearAlgebra.CrossProduct
import Mathlib.Tactic.Ring
import Mathlib.Tactic.FieldSimp
import Mathlib.Tactic.FinCases
/-
Bridge between the core-Lean vocabulary of the generated helper terms (`vec2`, `vec3`) and
Mathlib's vector notation, and the mathematical definition of the curl used in `Props/C20.lean`.
-/
namespace Skv

theorem vec2_eq {α : Type} (a b : α) : vec2 a b = ![a, b] := by
  funext i; fin_cases i <;> rfl

theorem vec3_eq {α : Type} (a b c : α) : vec3 a b c = ![a, b, c] := by
  funext i; fin_cases i <;> rfl

section
variable {R : Type} [CommRing R]

/-- `∇ × u = Σ_j e_j × ∂_j u` for a vector field with Jacobian `G i j = ∂u_i/∂x_j` -/
def curl3 (G : Matrix (Fin 3) (Fin 3) R) : Fin 3 → R :=
  ∑ j : Fin 3, crossProduct (Pi.single j 1) (fun i => G i j)

/-- a plane field `(u₀, u₁)(x₀, x₁)` as a field in space, `∂/∂x₂ = 0`, `u₂ = 0` -/
def embedPlane (G : Matrix (Fin 2) (Fin 2) R) : Matrix (Fin 3) (Fin 3) R :=
  Matrix.of ![![G 0 0, G 0 1, 0], ![G 1 0, G 1 1, 0], ![0, 0, 0]]

/-- a scalar `φ(x₀, x₁)` as the field `(0, 0, φ)` in space -/
def embedScalar (g : Fin 2 → R) : Matrix (Fin 3) (Fin 3) R :=
  Matrix.of ![![0, 0, 0], ![0, 0, 0], ![g 0, g 1, 0]]

theorem curl3_apply (G : Matrix (Fin 3) (Fin 3) R) :
    curl3 G = ![G 2 1 - G 1 2, G 0 2 - G 2 0, G 1 0 - G 0 1] := by
  funext i
  fin_cases i <;> simp [curl3, cross_apply, Pi.single_apply]

end

end Skv
