import SkfemVerif.Model.Surgery
import SkfemVerif.Lemmas.Topology
/-
General facts used by the C18 theorems (core Lean only):
  * position in a strictly ascending list is strictly monotone,
  * a strictly ascending list is determined by its members (`sorted_ext`),
  * `np.unique` commutes with maps that are strictly monotone on the data,
  * lexicographic order of tuples and `np.sort` of a tuple commute with monotone renumberings.
-/
set_option linter.unusedSectionVars false
set_option linter.unusedSimpArgs false

namespace Skv

section Basic
variable {α : Type} [LT α] [StrictTotal α]

theorem lt_asymm' {a b : α} (h : a < b) : ¬ b < a :=
  fun h' => StrictTotal.irrefl a (StrictTotal.trans _ _ _ h h')

theorem ne_of_lt' {a b : α} (h : a < b) : a ≠ b := by
  intro e; subst e; exact StrictTotal.irrefl a h

end Basic

/-! positions (`List.idxOf`), for ANY lawful `BEq` instance (the models use the default
    instances of `Nat` and `List Nat`) -/
section Idx
variable {α : Type} [LT α] [StrictTotal α] [BEq α] [LawfulBEq α]

theorem idxOf_cons_ne {x y : α} {xs : List α} (h : ¬ x = y) :
    (x :: xs).idxOf y = xs.idxOf y + 1 := by
  have : (x == y) = false := by simpa using h
  simp [List.idxOf_cons, this]

theorem idxOf_cons_self' {x : α} {xs : List α} : (x :: xs).idxOf x = 0 := by
  simp [List.idxOf_cons]

/-- position in a strictly ascending list is strictly monotone on its members -/
theorem idxOf_lt_of_lt {l : List α} (hs : l.Pairwise (· < ·)) {a b : α}
    (ha : a ∈ l) (hb : b ∈ l) (hab : a < b) : l.idxOf a < l.idxOf b := by
  induction l with
  | nil => simp at ha
  | cons x xs ih =>
    rw [List.pairwise_cons] at hs
    by_cases hxa : x = a
    · subst hxa
      have hxb : ¬ x = b := ne_of_lt' hab
      rw [idxOf_cons_self', idxOf_cons_ne hxb]; omega
    · have ha' : a ∈ xs := by
        rcases List.mem_cons.mp ha with h | h
        · exact absurd h.symm hxa
        · exact h
      by_cases hxb : x = b
      · subst hxb
        exact absurd (hs.1 a ha') (lt_asymm' hab)
      · have hb' : b ∈ xs := by
          rcases List.mem_cons.mp hb with h | h
          · exact absurd h.symm hxb
          · exact h
        have := ih hs.2 ha' hb'
        rw [idxOf_cons_ne hxa, idxOf_cons_ne hxb]; omega

/-- … and conversely (order embedding) -/
theorem idxOf_lt_iff {l : List α} (hs : l.Pairwise (· < ·)) {a b : α}
    (ha : a ∈ l) (hb : b ∈ l) : l.idxOf a < l.idxOf b ↔ a < b := by
  constructor
  · intro h
    rcases StrictTotal.tri a b with h1 | h1 | h1
    · exact h1
    · subst h1; omega
    · have := idxOf_lt_of_lt hs hb ha h1; omega
  · exact idxOf_lt_of_lt hs ha hb

end Idx

section IdxInj
variable {α : Type} [BEq α] [LawfulBEq α]

theorem idxOf_inj_of_mem {l : List α} {a b : α} (ha : a ∈ l) (_hb : b ∈ l)
    (h : l.idxOf a = l.idxOf b) : a = b := by
  have h1 : l.idxOf a < l.length := List.idxOf_lt_length_of_mem ha
  have e1 : l[l.idxOf a] = a := List.getElem_idxOf h1
  have h2 : l.idxOf b < l.length := by rw [← h]; exact h1
  have e2 : l[l.idxOf b] = b := List.getElem_idxOf h2
  rw [← e1, ← e2]; simp only [h]

/-- position through a map that is injective at `a` on the list -/
theorem idxOf_map_of_injOn {β : Type} [BEq β] [LawfulBEq β] (g : α → β) :
    ∀ (l : List α) (a : α), a ∈ l → (∀ x ∈ l, g x = g a → x = a) →
      (l.map g).idxOf (g a) = l.idxOf a
  | [], a, h, _ => by simp at h
  | x :: xs, a, h, hinj => by
    by_cases hxa : x = a
    · subst hxa; simp [List.idxOf_cons]
    · have hg : ¬ g x = g a := fun e => hxa (hinj x (by simp) e)
      have ha : a ∈ xs := by
        rcases List.mem_cons.mp h with e | e
        · exact absurd e.symm hxa
        · exact e
      have b1 : (g x == g a) = false := by simpa using hg
      have b2 : (x == a) = false := by simpa using hxa
      simp only [List.map_cons, List.idxOf_cons, b1, b2, cond_false]
      rw [idxOf_map_of_injOn g xs a ha (fun y hy => hinj y (by simp [hy]))]

end IdxInj

section Order
variable {α : Type} [LT α] [DecidableLT α] [DecidableEq α] [StrictTotal α]

/-- a strictly ascending list is determined by its members -/
theorem sorted_ext : ∀ {l₁ l₂ : List α}, l₁.Pairwise (· < ·) → l₂.Pairwise (· < ·) →
    (∀ x, x ∈ l₁ ↔ x ∈ l₂) → l₁ = l₂
  | [], [], _, _, _ => rfl
  | [], b :: _, _, _, h => by have := (h b).mpr (by simp); simp at this
  | a :: _, [], _, _, h => by have := (h a).mp (by simp); simp at this
  | a :: l₁, b :: l₂, h₁, h₂, h => by
    rw [List.pairwise_cons] at h₁ h₂
    have hab : a = b := by
      have ha : a ∈ b :: l₂ := (h a).mp (by simp)
      have hb : b ∈ a :: l₁ := (h b).mpr (by simp)
      rcases List.mem_cons.mp ha with e | ha'
      · exact e
      · rcases List.mem_cons.mp hb with e | hb'
        · exact e.symm
        · exact absurd (h₂.1 a ha') (lt_asymm' (h₁.1 b hb'))
    subst hab
    have : l₁ = l₂ := by
      apply sorted_ext h₁.2 h₂.2
      intro x
      constructor
      · intro hx
        rcases List.mem_cons.mp ((h x).mp (by simp [hx])) with e | hx'
        · subst e; exact absurd (h₁.1 x hx) (StrictTotal.irrefl x)
        · exact hx'
      · intro hx
        rcases List.mem_cons.mp ((h x).mpr (by simp [hx])) with e | hx'
        · subst e; exact absurd (h₂.1 x hx) (StrictTotal.irrefl x)
        · exact hx'
    rw [this]

/-- `np.unique` of data that is already strictly ascending is the data -/
theorem unique_of_sorted {l : List α} (h : l.Pairwise (· < ·)) : unique l = l :=
  sorted_ext (pairwise_unique l) h (fun _ => mem_unique)

/-- `np.unique` only depends on the set of values -/
theorem unique_congr {l₁ l₂ : List α} (h : ∀ x, x ∈ l₁ ↔ x ∈ l₂) : unique l₁ = unique l₂ :=
  sorted_ext (pairwise_unique _) (pairwise_unique _)
    (fun x => by rw [mem_unique, mem_unique]; exact h x)

end Order

section UniqueMap
variable {α β : Type} [LT α] [DecidableLT α] [DecidableEq α] [StrictTotal α]
  [LT β] [DecidableLT β] [DecidableEq β] [StrictTotal β]

theorem pairwise_map_of_monoOn (g : α → β) (P : α → Prop)
    (hg : ∀ a, P a → ∀ b, P b → a < b → g a < g b) :
    ∀ (u : List α), u.Pairwise (· < ·) → (∀ a ∈ u, P a) → (u.map g).Pairwise (· < ·)
  | [], _, _ => List.Pairwise.nil
  | x :: xs, hp, hm => by
    rw [List.pairwise_cons] at hp
    rw [List.map_cons, List.pairwise_cons]
    refine ⟨?_, pairwise_map_of_monoOn g P hg xs hp.2 (fun a ha => hm a (by simp [ha]))⟩
    intro y hy
    obtain ⟨z, hz, rfl⟩ := List.mem_map.mp hy
    exact hg x (hm x (by simp)) z (hm z (by simp [hz])) (hp.1 z hz)

/-- `np.unique` commutes with a map that is strictly monotone on the data -/
theorem unique_map (g : α → β) (l : List α)
    (hg : ∀ a ∈ l, ∀ b ∈ l, a < b → g a < g b) :
    unique (l.map g) = (unique l).map g := by
  apply sorted_ext (pairwise_unique _)
  · exact pairwise_map_of_monoOn g (· ∈ l) hg (unique l) (pairwise_unique l)
      (fun a ha => mem_unique.mp ha)
  · intro y
    simp only [mem_unique, List.mem_map]

end UniqueMap

/-- a map that is injective on the members of a duplicate-free list keeps it duplicate-free -/
theorem nodup_map_of_injOn {α β : Type} (g : α → β) :
    ∀ (l : List α), l.Nodup → (∀ a ∈ l, ∀ b ∈ l, g a = g b → a = b) → (l.map g).Nodup
  | [], _, _ => List.nodup_nil
  | x :: xs, hn, hinj => by
    rw [List.nodup_cons] at hn
    rw [List.map_cons, List.nodup_cons]
    refine ⟨?_, nodup_map_of_injOn g xs hn.2
      (fun a ha b hb => hinj a (by simp [ha]) b (by simp [hb]))⟩
    intro hmem
    obtain ⟨z, hz, e⟩ := List.mem_map.mp hmem
    have : z = x := hinj z (by simp [hz]) x (by simp) e
    subst this
    exact hn.1 hz

/-! ### tuples of vertex numbers under a monotone renumbering -/

/-- `σ` is strictly monotone on the set `S` of vertex numbers -/
def MonoOn (σ : Nat → Nat) (S : Nat → Prop) : Prop := ∀ a b, S a → S b → a < b → σ a < σ b

theorem MonoOn.le {σ : Nat → Nat} {S : Nat → Prop} (h : MonoOn σ S) {a b : Nat}
    (ha : S a) (hb : S b) (hab : a ≤ b) : σ a ≤ σ b := by
  rcases Nat.lt_or_ge a b with h1 | h1
  · exact Nat.le_of_lt (h a b ha hb h1)
  · have : a = b := Nat.le_antisymm hab h1
    subst this; exact Nat.le_refl _

theorem insertSorted_map (σ : Nat → Nat) (S : Nat → Prop) (hσ : MonoOn σ S) (x : Nat) (l : List Nat)
    (hx : S x) (hl : ∀ y ∈ l, S y) :
    insertSorted (σ x) (l.map σ) = (insertSorted x l).map σ := by
  induction l with
  | nil => simp [insertSorted]
  | cons y ys ih =>
    have hy : S y := hl y (by simp)
    simp only [List.map_cons, insertSorted]
    by_cases hxy : x ≤ y
    · have : σ x ≤ σ y := hσ.le hx hy hxy
      simp [hxy, this]
    · have hyx : y < x := by omega
      have : ¬ σ x ≤ σ y := by have := hσ y x hy hx hyx; omega
      simp [hxy, this]
      exact ih (fun z hz => hl z (by simp [hz]))

/-- `np.sort` of a tuple commutes with a monotone renumbering of its entries -/
theorem sortCol_map (σ : Nat → Nat) (S : Nat → Prop) (hσ : MonoOn σ S) (c : List Nat)
    (hc : ∀ v ∈ c, S v) : sortCol (c.map σ) = (sortCol c).map σ := by
  induction c with
  | nil => simp [sortCol]
  | cons y ys ih =>
    have e1 : sortCol ((y :: ys).map σ) = insertSorted (σ y) (sortCol (ys.map σ)) := rfl
    have e2 : sortCol (y :: ys) = insertSorted y (sortCol ys) := rfl
    rw [e1, e2, ih (fun v hv => hc v (by simp [hv]))]
    exact insertSorted_map σ S hσ y (sortCol ys) (hc y (by simp))
      (fun z hz => hc z (by simp [mem_sortCol.mp hz]))

/-- the lexicographic order of tuples is preserved by a monotone renumbering of the entries -/
theorem map_lt_map (σ : Nat → Nat) (S : Nat → Prop) (hσ : MonoOn σ S) :
    ∀ (a b : List Nat), (∀ v ∈ a, S v) → (∀ v ∈ b, S v) → a < b → a.map σ < b.map σ
  | [], [], _, _, h => absurd h (List.lt_irrefl _)
  | [], _ :: _, _, _, _ => by simp
  | _ :: _, [], _, _, h => by simp at h
  | x :: xs, y :: ys, ha, hb, h => by
    rw [List.map_cons, List.map_cons, List.cons_lt_cons_iff]
    rcases List.cons_lt_cons_iff.mp h with h1 | ⟨h1, h2⟩
    · exact Or.inl (hσ x y (ha x (by simp)) (hb y (by simp)) h1)
    · subst h1
      exact Or.inr ⟨rfl, map_lt_map σ S hσ xs ys (fun v hv => ha v (by simp [hv]))
        (fun v hv => hb v (by simp [hv])) h2⟩

/-- reading a slot commutes with renumbering (well-formed slot: local numbers inside the cell) -/
theorem slotCol_map (σ : Nat → Nat) (c slot : List Nat) (h : ∀ v ∈ slot, v < c.length) :
    slotCol (c.map σ) slot = (slotCol c slot).map σ := by
  simp only [slotCol, List.map_map]
  apply List.map_congr_left
  intro v hv
  have := h v hv
  simp [List.getD_eq_getElem?_getD, this]

/-! ### facet tables under a monotone renumbering of the vertices -/

/-- all local numbers of the reference table address vertices of every cell -/
def WellFormed (cells ref : List (List Nat)) : Prop :=
  ∀ c ∈ cells, ∀ slot ∈ ref, ∀ v ∈ slot, v < c.length

theorem mem_slotCol {c slot : List Nat} (h : ∀ v ∈ slot, v < c.length) {w : Nat}
    (hw : w ∈ slotCol c slot) : w ∈ c := by
  simp only [slotCol, List.mem_map] at hw
  obtain ⟨v, hv, rfl⟩ := hw
  have := h v hv
  simp [List.getD_eq_getElem?_getD, this]

theorem mem_sortedIndexing {col : List Nat} {cells ref : List (List Nat)} :
    col ∈ sortedIndexing cells ref ↔ ∃ slot ∈ ref, ∃ c ∈ cells, col = sortCol (slotCol c slot) := by
  simp only [sortedIndexing, List.mem_map, mem_indexing]
  constructor
  · rintro ⟨a, ⟨s, hs, c, hc, rfl⟩, rfl⟩; exact ⟨s, hs, c, hc, rfl⟩
  · rintro ⟨s, hs, c, hc, rfl⟩; exact ⟨_, ⟨s, hs, c, hc, rfl⟩, rfl⟩

/-- entries of a stored (sorted) tuple are vertices of the cells -/
theorem vertex_of_sortedIndexing {cells ref : List (List Nat)} (hwf : WellFormed cells ref)
    {col : List Nat} (hcol : col ∈ sortedIndexing cells ref) {w : Nat} (hw : w ∈ col) :
    w ∈ cells.flatten := by
  obtain ⟨s, hs, c, hc, rfl⟩ := mem_sortedIndexing.mp hcol
  exact List.mem_flatten.mpr ⟨c, hc, mem_slotCol (hwf c hc s hs) (mem_sortCol.mp hw)⟩

theorem flatMap_congr' {β γ : Type} {f g : β → List γ} :
    ∀ (l : List β), (∀ x ∈ l, f x = g x) → l.flatMap f = l.flatMap g
  | [], _ => rfl
  | x :: xs, h => by
    simp only [List.flatMap_cons]
    rw [h x (by simp), flatMap_congr' xs (fun y hy => h y (by simp [hy]))]

theorem indexing_map (σ : Nat → Nat) (cells ref : List (List Nat)) (hwf : WellFormed cells ref) :
    indexing (cells.map (fun c => c.map σ)) ref = (indexing cells ref).map (fun col => col.map σ) := by
  simp only [indexing, List.map_flatMap, List.map_map]
  apply flatMap_congr'
  intro slot hslot
  apply List.map_congr_left
  intro c hc
  exact slotCol_map σ c slot (hwf c hc slot hslot)

theorem sortedIndexing_map (σ : Nat → Nat) (cells ref : List (List Nat))
    (hwf : WellFormed cells ref) (hσ : MonoOn σ (· ∈ cells.flatten)) :
    sortedIndexing (cells.map (fun c => c.map σ)) ref
      = (sortedIndexing cells ref).map (fun col => col.map σ) := by
  simp only [sortedIndexing, indexing_map σ cells ref hwf, List.map_map]
  apply List.map_congr_left
  intro col hcol
  obtain ⟨s, hs, c, hc, rfl⟩ := mem_indexing.mp hcol
  exact sortCol_map σ _ hσ _
    (fun v hv => List.mem_flatten.mpr ⟨c, hc, mem_slotCol (hwf c hc s hs) hv⟩)

/-- **the facet table commutes with an order preserving renumbering of the vertices**: the
    rebuilt, lexicographically sorted facets of the renumbered cells are the old facets,
    renumbered, IN THE SAME ORDER -/
theorem entitiesSorted_map (σ : Nat → Nat) (cells ref : List (List Nat))
    (hwf : WellFormed cells ref) (hσ : MonoOn σ (· ∈ cells.flatten)) :
    entitiesSorted (cells.map (fun c => c.map σ)) ref
      = (entitiesSorted cells ref).map (fun col => col.map σ) := by
  unfold entitiesSorted
  rw [sortedIndexing_map σ cells ref hwf hσ]
  apply unique_map
  intro a ha b hb hab
  exact map_lt_map σ _ hσ a b (fun v hv => vertex_of_sortedIndexing hwf ha hv)
    (fun v hv => vertex_of_sortedIndexing hwf hb hv) hab

/-! ### the facts about `build_entities` used by C18 (self-contained copies of the C11 statements,
    so that C18 does not depend on the state of Props/C11.lean) -/

theorem ent_nodup (cells ref : List (List Nat)) : (entitiesSorted cells ref).Nodup := nodup_unique _

theorem ent_sorted (cells ref : List (List Nat)) : (entitiesSorted cells ref).Pairwise (· < ·) :=
  pairwise_unique _

theorem ent_slot_spec (cells ref : List (List Nat)) (i k : Nat)
    (hi : i < ref.length) (hk : k < cells.length) :
    ∃ (h1 : i < (entityMapping cells ref).length)
      (h2 : k < ((entityMapping cells ref)[i]).length)
      (h3 : ((entityMapping cells ref)[i])[k] < (entitiesSorted cells ref).length),
      (entitiesSorted cells ref)[((entityMapping cells ref)[i])[k]]
        = sortCol (slotCol cells[k] ref[i]) := by
  obtain ⟨h1, h2, h3, e⟩ := entityMapping_getElem cells ref i k hi hk
  obtain ⟨hs, es⟩ := sortedIndexing_getElem cells ref i k hi hk
  obtain ⟨hu, eu⟩ := uniqueInverse_spec (sortedIndexing cells ref) (i * cells.length + k) hs
  refine ⟨h1, h2, ?_, ?_⟩
  · rw [e]; exact hu
  · simp only [e]
    exact eu.trans es

theorem ent_complete (cells ref : List (List Nat)) (ent : List Nat)
    (h : ent ∈ entitiesSorted cells ref) :
    ∃ slot ∈ ref, ∃ c ∈ cells, ent = sortCol (slotCol c slot) := by
  have h' : ent ∈ sortedIndexing cells ref := mem_unique.mp h
  simp only [sortedIndexing, List.mem_map] at h'
  obtain ⟨col, hcol, rfl⟩ := h'
  obtain ⟨s, hs, c, hc, rfl⟩ := mem_indexing.mp hcol
  exact ⟨s, hs, c, hc, rfl⟩

theorem ent_cover (cells ref : List (List Nat)) (slot c : List Nat)
    (hs : slot ∈ ref) (hc : c ∈ cells) :
    sortCol (slotCol c slot) ∈ entitiesSorted cells ref := by
  apply mem_unique.mpr
  simp only [sortedIndexing, List.mem_map]
  exact ⟨slotCol c slot, mem_indexing.mpr ⟨slot, hs, c, hc, rfl⟩, rfl⟩

end Skv
