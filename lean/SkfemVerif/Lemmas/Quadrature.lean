import SkfemVerif.Model.Quadrature
import Mathlib.Algebra.Order.Field.Rat
import Mathlib.Algebra.Order.Field.Basic
import Mathlib.Algebra.Order.Ring.Abs
import Mathlib.Data.Rat.Cast.Order
import Mathlib.Tactic.Ring
import Mathlib.Tactic.Linarith
import Mathlib.Tactic.Positivity
import Mathlib.Tactic.FieldSimp
/-
Helper lemmas about the E-quad model (Model/Quadrature.lean): rational semantics of a
scaled-integer rule, soundness of the integer checker `okMono`, membership in the exponent
lists, linearity of a rule, generic table lookups, sums over tensor constructions, the exact
integrals, and the product error estimates used for the tensor cells.
-/
namespace Skv.C08
open Skv

/-! ### rational semantics of a scaled-integer rule -/

/-- coordinates of a node as rationals -/
def nodeQ (S : Nat) (c : List Int) : List ℚ := c.map (fun m => (m : ℚ) / 2 ^ S)

/-- the monomial `x^e` at a point -/
def monoQ : List ℚ → List Nat → ℚ
  | x :: xs, e :: es => x ^ e * monoQ xs es
  | _, _ => 1

/-- the rule applied to an arbitrary function of the node coordinates -/
def applyFun (r : IRule) (f : List ℚ → ℚ) : ℚ :=
  (r.pts.map (fun p => ((p.2 : ℚ) / 2 ^ r.SW) * f (nodeQ r.S p.1))).sum

/-- a polynomial: list of (coefficient, exponent vector) -/
abbrev QPoly := List (ℚ × List Nat)

def evalPoly (p : QPoly) (x : List ℚ) : ℚ := (p.map (fun t => t.1 * monoQ x t.2)).sum

def l1 (p : QPoly) : ℚ := (p.map (fun t => |t.1|)).sum

def exactQ (ex : Nat × Nat) : ℚ := (ex.1 : ℚ) / (ex.2 : ℚ)

/-- exact integral of a polynomial over the standard simplex (Dirichlet formula, term by term) -/
def exactPolySimplex (p : QPoly) : ℚ := (p.map (fun t => t.1 * exactQ (exactSimplex t.2))).sum

def exactPolyBox (p : QPoly) : ℚ := (p.map (fun t => t.1 * exactQ (exactBox t.2))).sum

/-! ### `powProd` against `monoQ` -/

/-- `nodeQ` written with an explicit cast (the definition elaborates `c` through the `List`
    monad coercion `List ℤ → List ℚ`; this is the same list) -/
theorem nodeQ_eq_map (S : Nat) (c : List Int) :
    nodeQ S c = c.map (fun m : Int => (m : ℚ) / 2 ^ S) := by
  induction c with
  | nil => rfl
  | cons x xs ih => simpa [nodeQ] using ih

theorem nodeQ_nil (S : Nat) : nodeQ S [] = [] := by rw [nodeQ_eq_map]; rfl

theorem nodeQ_cons (S : Nat) (x : Int) (xs : List Int) :
    nodeQ S (x :: xs) = (x : ℚ) / 2 ^ S :: nodeQ S xs := by
  rw [nodeQ_eq_map, nodeQ_eq_map]; rfl

theorem monoQ_nodeQ (S : Nat) : ∀ (c : List Int) (e : List Nat), c.length = e.length →
    monoQ (nodeQ S c) e = (powProd c e : ℚ) / 2 ^ (S * e.sum)
  | [], [], _ => by simp [monoQ, nodeQ_nil, powProd]
  | [], _ :: _, h => by simp at h
  | _ :: _, [], h => by simp at h
  | x :: xs, a :: es, h => by
    have hl : xs.length = es.length := by simpa using h
    have ih := monoQ_nodeQ S xs es hl
    simp only [nodeQ_cons, monoQ, powProd, List.sum_cons]
    rw [ih, div_pow, ← pow_mul, mul_add, pow_add]
    push_cast
    rw [div_mul_div_comm]

theorem sum_pts_sound (S SW : Nat) (e : List Nat) : ∀ (pts : List (List Int × Int)),
    (∀ p ∈ pts, p.1.length = e.length) →
    (pts.map (fun p => ((p.2 : ℚ) / 2 ^ SW) * monoQ (nodeQ S p.1) e)).sum
      = (((pts.map (fun p => p.2 * powProd p.1 e)).sum : Int) : ℚ) / 2 ^ (SW + S * e.sum)
  | [], _ => by simp
  | p :: pts, h => by
    have ih := sum_pts_sound S SW e pts (fun q hq => h q (List.mem_cons_of_mem _ hq))
    have hp := monoQ_nodeQ S p.1 e (h p List.mem_cons_self)
    simp only [List.map_cons, List.sum_cons]
    rw [ih, hp, pow_add]
    push_cast
    rw [div_mul_div_comm, ← add_div]

theorem applyMono_sound (r : IRule) (e : List Nat)
    (hdim : ∀ p ∈ r.pts, p.1.length = e.length) :
    applyFun r (fun x => monoQ x e) = (r.applyMono e : ℚ) / 2 ^ (r.SW + r.S * e.sum) :=
  sum_pts_sound r.S r.SW e r.pts hdim

/-! ### soundness of the integer inequality -/

theorem abs_sub_le_of_int (A : Int) (num den k tol : Nat) (hden : 0 < den)
    (h : ((A * (den : Int) - (num : Int) * 2 ^ k).natAbs : Int) * 2 ^ tol ≤ (den : Int) * 2 ^ k) :
    |(A : ℚ) / 2 ^ k - (num : ℚ) / (den : ℚ)| ≤ 1 / 2 ^ tol := by
  have hq : |(A : ℚ) * (den : ℚ) - (num : ℚ) * 2 ^ k| * 2 ^ tol ≤ (den : ℚ) * 2 ^ k := by
    have := (Int.cast_le (R := ℚ)).mpr h
    rw [Int.natCast_natAbs] at this
    push_cast at this
    exact this
  have hd : (0 : ℚ) < den := by exact_mod_cast hden
  have hk : (0 : ℚ) < 2 ^ k := by positivity
  have ht : (0 : ℚ) < 2 ^ tol := by positivity
  have hdk : (0 : ℚ) < (den : ℚ) * 2 ^ k := mul_pos hd hk
  have e1 : (A : ℚ) / 2 ^ k - (num : ℚ) / (den : ℚ)
      = ((A : ℚ) * (den : ℚ) - (num : ℚ) * 2 ^ k) / ((den : ℚ) * 2 ^ k) := by
    field_simp
  rw [e1, abs_div, abs_of_pos hdk, div_le_div_iff₀ hdk ht, one_mul]
  exact hq

theorem okMono_sound (r : IRule) (e : List Nat) (ex : Nat × Nat) (tol : Nat)
    (hden : 0 < ex.2) (hdim : ∀ p ∈ r.pts, p.1.length = e.length)
    (h : okMono r e ex tol = true) :
    |applyFun r (fun x => monoQ x e) - exactQ ex| ≤ 1 / 2 ^ tol := by
  rw [applyMono_sound r e hdim]
  unfold okMono at h
  exact abs_sub_le_of_int _ _ _ _ _ hden (of_decide_eq_true h)

/-! ### exponent lists -/

theorem mem_boxExponents (n : Nat) : ∀ (d : Nat) (e : List Nat),
    e ∈ boxExponents d n ↔ e.length = d ∧ ∀ a ∈ e, a ≤ n
  | 0, e => by
    simp only [boxExponents, List.mem_singleton]
    constructor
    · rintro rfl; simp
    · rintro ⟨h, -⟩; exact List.eq_nil_of_length_eq_zero h
  | d + 1, e => by
    simp only [boxExponents, List.mem_flatMap, List.mem_range, List.mem_map]
    constructor
    · rintro ⟨a, ha, e', he', rfl⟩
      obtain ⟨h1, h2⟩ := (mem_boxExponents n d e').mp he'
      refine ⟨by simp [h1], ?_⟩
      intro b hb
      rcases List.mem_cons.mp hb with rfl | hb
      · omega
      · exact h2 b hb
    · rintro ⟨hl, hb⟩
      cases e with
      | nil => simp at hl
      | cons a e' =>
        refine ⟨a, Nat.lt_succ_of_le (hb a List.mem_cons_self), e', ?_, rfl⟩
        exact (mem_boxExponents n d e').mpr
          ⟨by simpa using hl, fun b hb' => hb b (List.mem_cons_of_mem _ hb')⟩

theorem le_sum_of_mem : ∀ (e : List Nat) (a : Nat), a ∈ e → a ≤ e.sum
  | [], _, h => by simp at h
  | b :: e, a, h => by
    rw [List.sum_cons]
    rcases List.mem_cons.mp h with rfl | h
    · omega
    · have := le_sum_of_mem e a h; omega

theorem mem_simplexExponents (d n : Nat) (e : List Nat) :
    e ∈ simplexExponents d n ↔ e.length = d ∧ e.sum ≤ n := by
  simp only [simplexExponents, List.mem_filter, mem_boxExponents, decide_eq_true_eq]
  constructor
  · rintro ⟨⟨h1, -⟩, h3⟩; exact ⟨h1, h3⟩
  · rintro ⟨h1, h3⟩
    exact ⟨⟨h1, fun a ha => le_trans (le_sum_of_mem e a ha) h3⟩, h3⟩

/-! ### linearity -/

theorem applyFun_zero (r : IRule) : applyFun r (fun _ => 0) = 0 := by
  unfold applyFun
  generalize r.pts = pts
  induction pts with
  | nil => simp
  | cons p pts ih => simp only [List.map_cons, List.sum_cons, ih]; simp

theorem applyFun_add_smul (r : IRule) (c : ℚ) (f g : List ℚ → ℚ) :
    applyFun r (fun x => c * f x + g x) = c * applyFun r f + applyFun r g := by
  unfold applyFun
  generalize r.pts = pts
  induction pts with
  | nil => simp
  | cons p pts ih => simp only [List.map_cons, List.sum_cons, ih]; ring

theorem applyFun_poly (r : IRule) (p : QPoly) :
    applyFun r (evalPoly p) = (p.map (fun t => t.1 * applyFun r (fun x => monoQ x t.2))).sum := by
  induction p with
  | nil =>
    have : evalPoly [] = fun _ => (0 : ℚ) := by funext x; simp [evalPoly]
    rw [this, applyFun_zero]; simp
  | cons t p ih =>
    have : evalPoly (t :: p) = fun x => t.1 * (fun x => monoQ x t.2) x + evalPoly p x := by
      funext x; simp [evalPoly]
    rw [this, applyFun_add_smul, ih]; simp

/-- term-by-term error bound -/
theorem lift_terms (A E : List Nat → ℚ) (ε : ℚ) : ∀ (p : QPoly),
    (∀ t ∈ p, |A t.2 - E t.2| ≤ ε) →
    |(p.map (fun t => t.1 * A t.2)).sum - (p.map (fun t => t.1 * E t.2)).sum| ≤ l1 p * ε
  | [], _ => by simp [l1]
  | t :: p, h => by
    have ih := lift_terms A E ε p (fun s hs => h s (List.mem_cons_of_mem _ hs))
    have ht := h t List.mem_cons_self
    simp only [List.map_cons, List.sum_cons, l1] at ih ⊢
    have e1 : t.1 * A t.2 + (p.map (fun t => t.1 * A t.2)).sum
        - (t.1 * E t.2 + (p.map (fun t => t.1 * E t.2)).sum)
        = t.1 * (A t.2 - E t.2)
          + ((p.map (fun t => t.1 * A t.2)).sum - (p.map (fun t => t.1 * E t.2)).sum) := by ring
    rw [e1, add_mul]
    refine le_trans (abs_add_le _ _) (add_le_add ?_ ih)
    rw [abs_mul]
    exact mul_le_mul_of_nonneg_left ht (abs_nonneg _)

/-! ### exact integrals -/

theorem factorial_pos : ∀ n, 0 < factorial n
  | 0 => by simp [factorial]
  | n + 1 => by simp only [factorial]; exact Nat.mul_pos (Nat.succ_pos n) (factorial_pos n)

theorem factorial_le_succ (n : Nat) : factorial n ≤ factorial (n + 1) := by
  simp only [factorial]
  exact Nat.le_mul_of_pos_left _ (Nat.succ_pos n)

theorem factorial_le_add (n : Nat) : ∀ k, factorial n ≤ factorial (n + k)
  | 0 => le_refl _
  | k + 1 => le_trans (factorial_le_add n k) (factorial_le_succ (n + k))

theorem factorial_mul_le (a : Nat) : ∀ b, factorial a * factorial b ≤ factorial (a + b)
  | 0 => by simp [factorial]
  | b + 1 => by
    have ih := factorial_mul_le a b
    show factorial a * ((b + 1) * factorial b) ≤ (a + b + 1) * factorial (a + b)
    calc factorial a * ((b + 1) * factorial b)
        = (b + 1) * (factorial a * factorial b) := by ring
      _ ≤ (a + b + 1) * factorial (a + b) := Nat.mul_le_mul (by omega) ih

theorem exactSimplex_den_pos (e : List Nat) : 0 < (exactSimplex e).2 := factorial_pos _

theorem foldl_mul_pos : ∀ (l : List Nat) (c : Nat), 0 < c → (∀ a ∈ l, 0 < a) →
    0 < l.foldl (· * ·) c
  | [], c, hc, _ => by simpa using hc
  | a :: l, c, hc, h => by
    rw [List.foldl_cons]
    exact foldl_mul_pos l (c * a) (Nat.mul_pos hc (h a List.mem_cons_self))
      (fun b hb => h b (List.mem_cons_of_mem _ hb))

theorem exactBox_den_pos (e : List Nat) : 0 < (exactBox e).2 := by
  unfold exactBox
  apply foldl_mul_pos _ _ Nat.one_pos
  intro a ha
  obtain ⟨b, -, rfl⟩ := List.mem_map.mp ha
  exact Nat.succ_pos b

theorem exactQ_simplex1 (a : Nat) : exactQ (exactSimplex [a]) = 1 / ((a : ℚ) + 1) := by
  have hp : (0 : ℚ) < factorial a := by exact_mod_cast factorial_pos a
  simp only [exactQ, exactSimplex, List.map_cons, List.map_nil, List.foldl_cons, List.foldl_nil,
    List.sum_cons, List.sum_nil, List.length_cons, List.length_nil, Nat.add_zero, Nat.zero_add,
    Nat.one_mul, factorial]
  push_cast
  field_simp

theorem exactQ_box1 (a : Nat) : exactQ (exactBox [a]) = 1 / ((a : ℚ) + 1) := by
  simp [exactQ, exactBox]

theorem exactQ_box2 (a b : Nat) :
    exactQ (exactBox [a, b]) = exactQ (exactBox [a]) * exactQ (exactBox [b]) := by
  simp only [exactQ, exactBox, List.map_cons, List.map_nil, List.foldl_cons, List.foldl_nil,
    Nat.one_mul]
  push_cast
  rw [div_mul_div_comm, one_mul]

theorem exactQ_box3 (a b c : Nat) :
    exactQ (exactBox [a, b, c])
      = exactQ (exactBox [a]) * exactQ (exactBox [b]) * exactQ (exactBox [c]) := by
  simp only [exactQ, exactBox, List.map_cons, List.map_nil, List.foldl_cons, List.foldl_nil,
    Nat.one_mul]
  push_cast
  rw [div_mul_div_comm, div_mul_div_comm, one_mul, one_mul]

theorem exactQ_prism (a b c : Nat) :
    exactQ (exactPrism [a, b, c]) = exactQ (exactSimplex [a, b]) * exactQ (exactBox [c]) := by
  have h1 : List.take 2 [a, b, c] = [a, b] := rfl
  have h2 : List.drop 2 [a, b, c] = [c] := rfl
  simp only [exactPrism, h1, h2, exactQ]
  push_cast
  rw [div_mul_div_comm]

theorem exactQ_box1_bounds (a : Nat) :
    0 ≤ exactQ (exactBox [a]) ∧ exactQ (exactBox [a]) ≤ 1 := by
  rw [exactQ_box1]
  have h : (0 : ℚ) < (a : ℚ) + 1 := by positivity
  refine ⟨by positivity, ?_⟩
  rw [div_le_one h]
  have : (0 : ℚ) ≤ a := by positivity
  linarith

theorem exactQ_simplex2_bounds (a b : Nat) :
    0 ≤ exactQ (exactSimplex [a, b]) ∧ exactQ (exactSimplex [a, b]) ≤ 1 := by
  have hd : (0 : ℚ) < ((exactSimplex [a, b]).2 : ℚ) := by
    exact_mod_cast exactSimplex_den_pos [a, b]
  refine ⟨by unfold exactQ; positivity, ?_⟩
  unfold exactQ
  rw [div_le_one hd]
  have : (exactSimplex [a, b]).1 ≤ (exactSimplex [a, b]).2 := by
    simp only [exactSimplex, List.map_cons, List.map_nil, List.foldl_cons, List.foldl_nil,
      List.sum_cons, List.sum_nil, List.length_cons, List.length_nil, Nat.one_mul]
    exact le_trans (factorial_mul_le a b)
      (by simpa [Nat.add_assoc] using factorial_le_add (a + b) 2)
  exact_mod_cast this

/-! ### table lookups -/

theorem lookup_some {table : List (Nat × IRule)} {m : Nat} {r : IRule}
    (h : (table.find? (fun p => p.1 == m)).map (·.2) = some r) : (m, r) ∈ table := by
  rcases hf : table.find? (fun p => p.1 == m) with _ | p
  · rw [hf] at h; simp at h
  · rw [hf] at h
    have hm := List.mem_of_find?_eq_some hf
    have hk := List.find?_some hf
    have h1 : p.1 = m := by simpa using hk
    have h2 : p.2 = r := by simpa using h
    rw [← h1, ← h2]; exact hm

theorem lookup_none_iff (table : List (Nat × IRule)) (m : Nat) :
    (table.find? (fun p => p.1 == m)).map (·.2) = none ↔ m ∉ table.map (·.1) := by
  rw [Option.map_eq_none_iff, List.find?_eq_none]
  simp only [List.mem_map, not_exists, not_and, beq_iff_eq]

/-! ### sums over tensor constructions -/

theorem powProd_append : ∀ (c1 c2 : List Int) (e1 e2 : List Nat), c1.length = e1.length →
    powProd (c1 ++ c2) (e1 ++ e2) = powProd c1 e1 * powProd c2 e2
  | [], c2, [], e2, _ => by simp [powProd]
  | [], _, _ :: _, _, h => by simp at h
  | _ :: _, _, [], _, h => by simp at h
  | x :: c1, c2, a :: e1, e2, h => by
    have ih := powProd_append c1 c2 e1 e2 (by simpa using h)
    simp only [List.cons_append, powProd, ih]; ring

theorem sum_flatMap_map {α γ : Type} (F : γ → Int) (G : α → List γ) : ∀ (L : List α),
    ((L.flatMap G).map F).sum = (L.map (fun a => ((G a).map F).sum)).sum
  | [] => by simp
  | a :: L => by
    simp only [List.flatMap_cons, List.map_append, List.sum_append, List.map_cons, List.sum_cons,
      sum_flatMap_map F G L]

theorem sum_map_congr {α : Type} (u v : α → Int) : ∀ (L : List α), (∀ a ∈ L, u a = v a) →
    (L.map u).sum = (L.map v).sum
  | [], _ => rfl
  | a :: L, h => by
    simp only [List.map_cons, List.sum_cons, h a List.mem_cons_self,
      sum_map_congr u v L (fun b hb => h b (List.mem_cons_of_mem _ hb))]

theorem sum_map_mul_right' {α : Type} (f : α → Int) (c : Int) : ∀ (L : List α),
    (L.map (fun a => f a * c)).sum = (L.map f).sum * c
  | [] => by simp
  | a :: L => by
    simp only [List.map_cons, List.sum_cons, sum_map_mul_right' f c L]; ring

theorem sum_map_mul_left' {α : Type} (f : α → Int) (c : Int) : ∀ (L : List α),
    (L.map (fun a => c * f a)).sum = c * (L.map f).sum
  | [] => by simp
  | a :: L => by
    simp only [List.map_cons, List.sum_cons, sum_map_mul_left' f c L]; ring

/-- a double sum whose summand factorises -/
theorem sum_flatMap_map_mul {α β γ : Type} (L1 : List α) (L2 : List β) (f : α → Int)
    (g : β → Int) (h : α → β → γ) (F : γ → Int)
    (hF : ∀ a ∈ L1, ∀ b ∈ L2, F (h a b) = f a * g b) :
    ((L1.flatMap (fun a => L2.map (h a))).map F).sum = (L1.map f).sum * (L2.map g).sum := by
  rw [sum_flatMap_map]
  rw [sum_map_congr _ (fun a => f a * (L2.map g).sum) L1]
  · exact sum_map_mul_right' f _ L1
  · intro a ha
    rw [List.map_map, ← sum_map_mul_left' g (f a) L2]
    exact sum_map_congr _ _ L2 (fun b hb => hF a ha b hb)

theorem tensor2_mono (r : IRule) (a b : Nat) (hdim : ∀ p ∈ r.pts, p.1.length = 1) :
    (tensor2 r).applyMono [a, b] = r.applyMono [a] * r.applyMono [b] := by
  unfold IRule.applyMono tensor2
  apply sum_flatMap_map_mul
  intro pj hj pi _
  have : powProd (pj.1 ++ pi.1) ([a] ++ [b]) = powProd pj.1 [a] * powProd pi.1 [b] :=
    powProd_append _ _ _ _ (hdim pj hj)
  simp only [List.singleton_append] at this
  simp only [this]; ring

theorem tensorPrism_mono (tri line : IRule) (a b c : Nat)
    (htri : ∀ p ∈ tri.pts, p.1.length = 2) :
    (tensorPrism tri line).applyMono [a, b, c] = tri.applyMono [a, b] * line.applyMono [c] := by
  unfold IRule.applyMono tensorPrism
  rw [mul_comm]
  apply sum_flatMap_map_mul
  intro pl _ pt ht
  have : powProd (pt.1 ++ pl.1) ([a, b] ++ [c]) = powProd pt.1 [a, b] * powProd pl.1 [c] :=
    powProd_append _ _ _ _ (htri pt ht)
  simp only [List.cons_append, List.nil_append] at this
  simp only [this]; ring

theorem tensor3_mono (r : IRule) (a b c : Nat) (hdim : ∀ p ∈ r.pts, p.1.length = 1) :
    (tensor3 r).applyMono [a, b, c] = r.applyMono [a] * r.applyMono [b] * r.applyMono [c] := by
  unfold IRule.applyMono tensor3
  simp only []
  rw [sum_flatMap_map]
  rw [sum_map_congr _ (fun pk => (pk.2 * powProd pk.1 [c])
    * ((r.pts.map (fun p => p.2 * powProd p.1 [a])).sum
      * (r.pts.map (fun p => p.2 * powProd p.1 [b])).sum)) r.pts]
  · rw [sum_map_mul_right', mul_comm]
  · intro pk _
    have hF : ∀ pj ∈ r.pts, ∀ pi ∈ r.pts,
        (fun p : List Int × Int => p.2 * powProd p.1 [a, b, c])
          ((fun (pj pi : List Int × Int) => (pj.1 ++ pi.1 ++ pk.1, pj.2 * pi.2 * pk.2)) pj pi)
        = (fun pj : List Int × Int => pj.2 * powProd pj.1 [a] * (pk.2 * powProd pk.1 [c])) pj
          * (fun p : List Int × Int => p.2 * powProd p.1 [b]) pi := by
      intro pj hj pi hi
      have h1 : powProd (pj.1 ++ pi.1 ++ pk.1) (([a] ++ [b]) ++ [c])
          = powProd (pj.1 ++ pi.1) ([a] ++ [b]) * powProd pk.1 [c] :=
        powProd_append _ _ _ _ (by simp [hdim pj hj, hdim pi hi])
      have h2 : powProd (pj.1 ++ pi.1) ([a] ++ [b]) = powProd pj.1 [a] * powProd pi.1 [b] :=
        powProd_append _ _ _ _ (hdim pj hj)
      rw [h2] at h1
      simp only [List.cons_append, List.nil_append] at h1
      simp only [h1]; ring
    have := sum_flatMap_map_mul r.pts r.pts
      (fun pj : List Int × Int => pj.2 * powProd pj.1 [a] * (pk.2 * powProd pk.1 [c]))
      (fun p : List Int × Int => p.2 * powProd p.1 [b])
      (fun (pj pi : List Int × Int) => (pj.1 ++ pi.1 ++ pk.1, pj.2 * pi.2 * pk.2))
      (fun p : List Int × Int => p.2 * powProd p.1 [a, b, c]) hF
    rw [this, sum_map_mul_right']; ring

/-! ### tensor rules applied to monomials, as rationals -/

theorem applyFun_tensor2 (r : IRule) (a b : Nat) (hdim : ∀ p ∈ r.pts, p.1.length = 1) :
    applyFun (tensor2 r) (fun x => monoQ x [a, b])
      = applyFun r (fun x => monoQ x [a]) * applyFun r (fun x => monoQ x [b]) := by
  have hd2 : ∀ p ∈ (tensor2 r).pts, p.1.length = [a, b].length := by
    intro p hp
    simp only [tensor2, List.mem_flatMap, List.mem_map] at hp
    obtain ⟨pj, hj, pi, hi, rfl⟩ := hp
    simp [hdim pj hj, hdim pi hi]
  rw [applyMono_sound _ _ hd2, applyMono_sound r [a] (by simpa using hdim),
    applyMono_sound r [b] (by simpa using hdim), tensor2_mono r a b hdim]
  simp only [tensor2, List.sum_cons, List.sum_nil]
  push_cast
  rw [div_mul_div_comm]
  congr 1
  ring

theorem applyFun_tensor3 (r : IRule) (a b c : Nat) (hdim : ∀ p ∈ r.pts, p.1.length = 1) :
    applyFun (tensor3 r) (fun x => monoQ x [a, b, c])
      = applyFun r (fun x => monoQ x [a]) * applyFun r (fun x => monoQ x [b])
        * applyFun r (fun x => monoQ x [c]) := by
  have hd3 : ∀ p ∈ (tensor3 r).pts, p.1.length = [a, b, c].length := by
    intro p hp
    simp only [tensor3, List.mem_flatMap, List.mem_map] at hp
    obtain ⟨pk, hk, pj, hj, pi, hi, rfl⟩ := hp
    simp [hdim pj hj, hdim pi hi, hdim pk hk]
  rw [applyMono_sound _ _ hd3, applyMono_sound r [a] (by simpa using hdim),
    applyMono_sound r [b] (by simpa using hdim), applyMono_sound r [c] (by simpa using hdim),
    tensor3_mono r a b c hdim]
  simp only [tensor3, List.sum_cons, List.sum_nil]
  push_cast
  rw [div_mul_div_comm, div_mul_div_comm]
  congr 1
  ring

theorem applyFun_tensorPrism (tri line : IRule) (a b c : Nat)
    (htri : ∀ p ∈ tri.pts, p.1.length = 2) (hline : ∀ p ∈ line.pts, p.1.length = 1)
    (hS : tri.S = line.S) :
    applyFun (tensorPrism tri line) (fun x => monoQ x [a, b, c])
      = applyFun tri (fun x => monoQ x [a, b]) * applyFun line (fun x => monoQ x [c]) := by
  have hd3 : ∀ p ∈ (tensorPrism tri line).pts, p.1.length = [a, b, c].length := by
    intro p hp
    simp only [tensorPrism, List.mem_flatMap, List.mem_map] at hp
    obtain ⟨pl, hl, pt, ht, rfl⟩ := hp
    simp [htri pt ht, hline pl hl]
  rw [applyMono_sound _ _ hd3, applyMono_sound tri [a, b] (by simpa using htri),
    applyMono_sound line [c] (by simpa using hline), tensorPrism_mono tri line a b c htri]
  simp only [tensorPrism, List.sum_cons, List.sum_nil, ← hS]
  push_cast
  rw [div_mul_div_comm]
  congr 1
  ring

/-! ### product error estimates -/

theorem abs_mul_sub_le {x y ex ey δ1 δ2 : ℚ} (hx : |x - ex| ≤ δ1) (hy : |y - ey| ≤ δ2)
    (hex : |ex| ≤ 1) (hey : |ey| ≤ 1) : |x * y - ex * ey| ≤ δ1 * δ2 + δ1 + δ2 := by
  have e1 : x * y - ex * ey = (x - ex) * (y - ey) + (x - ex) * ey + ex * (y - ey) := by ring
  have h1 : |(x - ex) * (y - ey)| ≤ δ1 * δ2 := by
    rw [abs_mul]; exact mul_le_mul hx hy (abs_nonneg _) (le_trans (abs_nonneg _) hx)
  have h2 : |(x - ex) * ey| ≤ δ1 := by
    rw [abs_mul]
    calc |x - ex| * |ey| ≤ δ1 * 1 := mul_le_mul hx hey (abs_nonneg _) (le_trans (abs_nonneg _) hx)
      _ = δ1 := mul_one _
  have h3 : |ex * (y - ey)| ≤ δ2 := by
    rw [abs_mul]
    calc |ex| * |y - ey| ≤ 1 * δ2 := mul_le_mul hex hy (abs_nonneg _) zero_le_one
      _ = δ2 := one_mul _
  rw [e1]
  exact le_trans (abs_add_le _ _) (add_le_add (le_trans (abs_add_le _ _) (add_le_add h1 h2)) h3)

theorem eps_bounds (tol : Nat) : (0 : ℚ) ≤ 1 / 2 ^ tol ∧ (1 : ℚ) / 2 ^ tol ≤ 1 := by
  have h : (0 : ℚ) < 2 ^ tol := by positivity
  refine ⟨by positivity, ?_⟩
  rw [div_le_one h]
  exact one_le_pow₀ (by norm_num)

theorem abs_le_one_of_bounds {x : ℚ} (h : 0 ≤ x ∧ x ≤ 1) : |x| ≤ 1 := by
  rw [abs_of_nonneg h.1]; exact h.2

/-- two factors, each within `ε ≤ 1` of an exact value in `[-1, 1]`: the product is within `3ε` -/
theorem prod2_le {x y ex ey ε : ℚ} (h0 : 0 ≤ ε) (h1 : ε ≤ 1) (hx : |x - ex| ≤ ε)
    (hy : |y - ey| ≤ ε) (hex : |ex| ≤ 1) (hey : |ey| ≤ 1) : |x * y - ex * ey| ≤ 3 * ε := by
  have h := abs_mul_sub_le hx hy hex hey
  have h2 : ε * ε ≤ ε := by
    calc ε * ε ≤ ε * 1 := mul_le_mul_of_nonneg_left h1 h0
      _ = ε := mul_one _
  linarith

/-- three factors: within `7ε` -/
theorem prod3_le {x y z ex ey ez ε : ℚ} (h0 : 0 ≤ ε) (h1 : ε ≤ 1) (hx : |x - ex| ≤ ε)
    (hy : |y - ey| ≤ ε) (hz : |z - ez| ≤ ε) (hex : |ex| ≤ 1) (hey : |ey| ≤ 1) (hez : |ez| ≤ 1) :
    |x * y * z - ex * ey * ez| ≤ 7 * ε := by
  have hxy := prod2_le h0 h1 hx hy hex hey
  have hexy : |ex * ey| ≤ 1 := by
    rw [abs_mul]
    calc |ex| * |ey| ≤ 1 * 1 := mul_le_mul hex hey (abs_nonneg _) zero_le_one
      _ = 1 := mul_one _
  have h := abs_mul_sub_le hxy hz hexy hez
  have h2 : 3 * ε * ε ≤ 3 * ε := by
    calc 3 * ε * ε ≤ 3 * ε * 1 := mul_le_mul_of_nonneg_left h1 (by linarith)
      _ = 3 * ε := mul_one _
  linarith

/-! ### from the checker to one-dimensional and triangle bounds -/

theorem okAllSimplex_mono {r : IRule} {d n tol : Nat} (h : okAllSimplex r d n tol = true)
    (hdim : ∀ p ∈ r.pts, p.1.length = d) (e : List Nat) (hl : e.length = d) (hs : e.sum ≤ n) :
    |applyFun r (fun x => monoQ x e) - exactQ (exactSimplex e)| ≤ 1 / 2 ^ tol := by
  unfold okAllSimplex at h
  rw [List.all_eq_true] at h
  have := h e ((mem_simplexExponents d n e).mpr ⟨hl, hs⟩)
  exact okMono_sound r e _ tol (exactSimplex_den_pos e) (fun p hp => by rw [hdim p hp, hl]) this

theorem okAllBox_mono {r : IRule} {d n tol : Nat} (h : okAllBox r d n tol = true)
    (hdim : ∀ p ∈ r.pts, p.1.length = d) (e : List Nat) (hl : e.length = d)
    (hs : ∀ a ∈ e, a ≤ n) :
    |applyFun r (fun x => monoQ x e) - exactQ (exactBox e)| ≤ 1 / 2 ^ tol := by
  unfold okAllBox at h
  rw [List.all_eq_true] at h
  have := h e ((mem_boxExponents n d e).mpr ⟨hl, hs⟩)
  exact okMono_sound r e _ tol (exactBox_den_pos e) (fun p hp => by rw [hdim p hp, hl]) this

theorem line_mono {r : IRule} {m tol : Nat} (h : okAllSimplex r 1 m tol = true)
    (hdim : ∀ p ∈ r.pts, p.1.length = 1) (a : Nat) (ha : a ≤ m) :
    |applyFun r (fun x => monoQ x [a]) - exactQ (exactBox [a])| ≤ 1 / 2 ^ tol := by
  have := okAllSimplex_mono h hdim [a] rfl (by simpa using ha)
  rwa [exactQ_simplex1, ← exactQ_box1] at this

/-! ### nodes of tensor rules -/

theorem insideBox_iff (r : IRule) :
    insideBox r = true ↔ ∀ p ∈ r.pts, ∀ x ∈ p.1, 0 ≤ x ∧ x ≤ 2 ^ r.S := by
  simp [insideBox, List.all_eq_true]

theorem tensor2_inside (r : IRule) (h : insideBox r = true) : insideBox (tensor2 r) = true := by
  rw [insideBox_iff] at h ⊢
  intro p hp x hx
  simp only [tensor2, List.mem_flatMap, List.mem_map] at hp
  obtain ⟨pj, hj, pi, hi, rfl⟩ := hp
  rcases List.mem_append.mp hx with hx | hx
  · exact h pj hj x hx
  · exact h pi hi x hx

theorem tensor3_inside (r : IRule) (h : insideBox r = true) : insideBox (tensor3 r) = true := by
  rw [insideBox_iff] at h ⊢
  intro p hp x hx
  simp only [tensor3, List.mem_flatMap, List.mem_map] at hp
  obtain ⟨pk, hk, pj, hj, pi, hi, rfl⟩ := hp
  rcases List.mem_append.mp hx with hx | hx
  · rcases List.mem_append.mp hx with hx | hx
    · exact h pj hj x hx
    · exact h pi hi x hx
  · exact h pk hk x hx

end Skv.C08
