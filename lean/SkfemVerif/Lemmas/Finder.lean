import SkfemVerif.Model.Finder
import SkfemVerif.Model.Assembly
import SkfemVerif.Lemmas.Assembly
import Mathlib.Algebra.BigOperators.Group.Finset.Basic
import Mathlib.Algebra.BigOperators.Ring.Finset
import Mathlib.Algebra.Order.Field.Rat
import Mathlib.Tactic.Ring
import Mathlib.Tactic.FieldSimp
import Mathlib.Tactic.Linarith
/-
Helper lemmas about the E-find model.
-/
namespace Skv.Find

/-! ### decision logic -/

theorem argmaxBool_spec (l : List Bool) (h : true ∈ l) :
    ∃ hlt : argmaxBool l < l.length, l[argmaxBool l] = true := by
  have hany : l.any id = true := by
    simp only [List.any_eq_true]
    exact ⟨true, h, rfl⟩
  unfold argmaxBool
  simp only [hany, if_true]
  exact ⟨List.idxOf_lt_length_of_mem h, List.getElem_idxOf _⟩

section Decision
variable {P : Type}

/-- the cell the stage returns for one point -/
def firstInside (inside : Nat → P → Bool) (ix : List Nat) (x : P) : Nat :=
  ix.getD (argmaxBool (ix.map (fun k => inside k x))) 0

theorem firstInside_spec (inside : Nat → P → Bool) (ix : List Nat) (x : P)
    (h : ∃ k ∈ ix, inside k x = true) :
    firstInside inside ix x ∈ ix ∧ inside (firstInside inside ix x) x = true := by
  obtain ⟨k, hk, hin⟩ := h
  have hmem : true ∈ ix.map (fun k => inside k x) := by
    simp only [List.mem_map]
    exact ⟨k, hk, hin⟩
  obtain ⟨hlt, hget⟩ := argmaxBool_spec _ hmem
  have hlt' : argmaxBool (ix.map (fun k => inside k x)) < ix.length := by simpa using hlt
  unfold firstInside
  have e : ix.getD (argmaxBool (ix.map (fun k => inside k x))) 0
      = ix[argmaxBool (ix.map (fun k => inside k x))] := by
    simp [List.getD, List.getElem?_eq_getElem hlt']
  rw [e]
  refine ⟨List.getElem_mem _, ?_⟩
  simpa using hget

theorem finderStage_eq_some (inside : Nat → P → Bool) (ix : List Nat) (pts : List P)
    (r : List Nat) :
    finderStage inside ix pts = some r ↔
      (∀ x ∈ pts, ∃ k ∈ ix, inside k x = true) ∧ r = pts.map (firstInside inside ix) := by
  unfold finderStage
  by_cases h : pts.all (fun x => ix.any (fun k => inside k x)) = true
  · rw [if_pos h]
    simp only [List.all_eq_true, List.any_eq_true] at h
    constructor
    · intro e
      refine ⟨h, ?_⟩
      simp only [Option.some.injEq] at e
      rw [← e]
      rfl
    · rintro ⟨_, rfl⟩
      rfl
  · rw [if_neg h]
    simp only [List.all_eq_true, List.any_eq_true] at h
    constructor
    · intro e; cases e
    · rintro ⟨h', _⟩
      exact absurd h' h

theorem finderStage_eq_none (inside : Nat → P → Bool) (ix : List Nat) (pts : List P) :
    finderStage inside ix pts = none ↔ ∃ x ∈ pts, ∀ k ∈ ix, inside k x = false := by
  unfold finderStage
  by_cases h : pts.all (fun x => ix.any (fun k => inside k x)) = true
  · rw [if_pos h]
    simp only [List.all_eq_true, List.any_eq_true] at h
    constructor
    · intro e; cases e
    · rintro ⟨x, hx, hno⟩
      obtain ⟨k, hk, hin⟩ := h x hx
      rw [hno k hk] at hin
      cases hin
  · rw [if_neg h]
    simp only [List.all_eq_true, List.any_eq_true, not_forall, not_exists, not_and] at h
    obtain ⟨x, hx, hno⟩ := h
    refine ⟨fun _ => ⟨x, hx, fun k hk => ?_⟩, fun _ => rfl⟩
    simpa using hno k hk

/-- which candidate list the finder ends up using -/
theorem finder_cases (inside : Nat → P → Bool) (nt : Nat) (cand : List Nat) (pts : List P) :
    ((∀ x ∈ pts, ∃ k ∈ cand, inside k x = true) ∧
        finder inside nt cand pts = some (pts.map (firstInside inside cand)))
    ∨ ((∃ x ∈ pts, ∀ k ∈ cand, inside k x = false) ∧
        finder inside nt cand pts = finderStage inside (List.range nt) pts) := by
  unfold finder finder2
  cases h : finderStage inside cand pts with
  | some r =>
    left
    obtain ⟨h1, h2⟩ := (finderStage_eq_some _ _ _ _).1 h
    exact ⟨h1, by rw [h2]⟩
  | none =>
    right
    exact ⟨(finderStage_eq_none _ _ _).1 h, rfl⟩

end Decision

/-! ### flat positions in a `flatMap` over a list (not a range) -/

theorem getElem?_flatMap_uniform {α β : Type} (l : List α) (m : Nat) (g : α → List β)
    (hg : ∀ a ∈ l, (g a).length = m) (i k : Nat) (hi : i < l.length) (hk : k < m) :
    (l.flatMap g)[i * m + k]? = (g l[i])[k]? := by
  have hrows : ∀ r ∈ l.map g, r.length = m := by
    intro r hr
    simp only [List.mem_map] at hr
    obtain ⟨a, ha, rfl⟩ := hr
    exact hg a ha
  obtain ⟨h1, h2⟩ := flatten_getElem_of_uniform _ m hrows i k (by simpa using hi) hk
  have e : l.flatMap g = (l.map g).flatten := by simp [List.flatMap]
  rw [e, List.getElem?_eq_getElem h1, h2]
  simp

theorem length_flatMap_uniform {α β : Type} (l : List α) (m : Nat) (g : α → List β)
    (hg : ∀ a ∈ l, (g a).length = m) : (l.flatMap g).length = l.length * m := by
  have hrows : ∀ r ∈ l.map g, r.length = m := by
    intro r hr
    simp only [List.mem_map] at hr
    obtain ⟨a, ha, rfl⟩ := hr
    exact hg a ha
  have := length_flatten_of_uniform _ m hrows
  simpa [List.flatMap] using this

end Skv.Find

namespace Skv.Find

/-! ### `probes`: the structured form of the COO triplets -/

theorem zip_flatMap_range {α β : Type} (n : Nat) (f : Nat → List α) (g : Nat → List β)
    (h : ∀ i < n, (f i).length = (g i).length) :
    ((List.range n).flatMap f).zip ((List.range n).flatMap g)
      = (List.range n).flatMap (fun i => (f i).zip (g i)) := by
  induction n with
  | zero => simp
  | succ n ih =>
    have hlen : ((List.range n).flatMap f).length = ((List.range n).flatMap g).length := by
      clear ih
      induction n with
      | zero => simp
      | succ m ihm =>
        rw [List.range_succ, List.flatMap_append, List.flatMap_append, List.length_append,
          List.length_append, ihm (fun i hi => h i (by omega))]
        simp [h m (by omega)]
    rw [List.range_succ, List.flatMap_append, List.flatMap_append, List.flatMap_append,
      List.zip_append hlen, ih (fun i hi => h i (by omega))]
    simp

theorem range_mul_eq_flatMap (c m : Nat) :
    List.range (c * m) = (List.range c).flatMap (fun a => (List.range m).map (fun p => a * m + p)) := by
  induction c with
  | zero => simp
  | succ c ih =>
    rw [List.range_succ, List.flatMap_append, ← ih, Nat.add_mul, Nat.one_mul, List.range_add]
    simp

theorem tile_eq_flatMap {α : Type} (l : List α) (n : Nat) :
    tile l n = (List.range n).flatMap (fun _ => l) := rfl

theorem list_eq_map_range_getD {α : Type} (l : List α) (d : α) :
    l = (List.range l.length).map (fun p => l.getD p d) := by
  apply List.ext_getElem
  · simp
  · intro i h1 h2
    simp [List.getD, List.getElem?_eq_getElem h1]

theorem zip3_map {α β γ δ : Type} (l : List α) (f : α → β) (g : α → γ) (h : α → δ) :
    (l.map f).zip ((l.map g).zip (l.map h)) = l.map (fun a => (f a, g a, h a)) := by
  induction l with
  | nil => rfl
  | cons a l ih => simp [ih]

section Probes
variable {K : Type}

/-- position-free description of what `probes` hands to `coo_matrix`: for every local basis
    function `k`, tensor component `c` and query point `p` one triplet
    `(c * npts + p, element_dofs[k, cells[p]], phi k c p)` -/
theorem probeTriplets_structured (Nbfun comp : Nat) (cells : List Nat) (dofs : Nat → Nat → Nat)
    (phi : Nat → Nat → Nat → K) :
    probeTriplets Nbfun comp cells dofs phi
      = (List.range Nbfun).flatMap (fun k => (List.range comp).flatMap (fun c =>
          (List.range cells.length).map (fun p =>
            (c * cells.length + p, dofs k (cells.getD p 0), phi k c p)))) := by
  unfold probeTriplets probeRows probeCols probePhis
  rw [tile_eq_flatMap]
  -- inner zip (cols, phis)
  have hcols : ∀ k, (tile cells comp).map (fun cell => dofs k cell)
      = (List.range comp).flatMap (fun _ => (List.range cells.length).map
          (fun p => dofs k (cells.getD p 0))) := by
    intro k
    rw [tile_eq_flatMap, List.map_flatMap]
    congr 1
    funext _
    conv_lhs => rw [list_eq_map_range_getD cells 0]
    simp
  simp only [hcols]
  rw [zip_flatMap_range Nbfun _ _ (fun k _ => by
    rw [length_flatMap_range comp cells.length _ (fun _ _ => by simp),
      length_flatMap_range comp cells.length _ (fun _ _ => by simp)])]
  rw [zip_flatMap_range Nbfun _ _ (fun k _ => by
    rw [List.length_zip, length_flatMap_range comp cells.length _ (fun _ _ => by simp),
      length_flatMap_range comp cells.length _ (fun _ _ => by simp)]
    simp)]
  congr 1
  funext k
  rw [zip_flatMap_range comp _ _ (fun c _ => by simp), range_mul_eq_flatMap,
    zip_flatMap_range comp _ _ (fun c _ => by simp)]
  congr 1
  funext c
  exact zip3_map (List.range cells.length) (fun p => c * cells.length + p)
    (fun p => dofs k (cells.getD p 0)) (fun p => phi k c p)

end Probes

/-! ### sums over filtered triplets -/

section Ring
variable {K : Type} [CommRing K]

theorem sum_filter_map {α : Type} (T : List α) (q : α → Bool) (g : α → K) :
    ((T.filter q).map g).sum = (T.map (fun t => if q t then g t else 0)).sum := by
  induction T with
  | nil => simp
  | cons t T ih =>
    by_cases h : q t = true
    · simp [h, ih]
    · simp [h, ih]

/-- decomposition `r = c * m + p` with `p < m` is unique -/
theorem mul_add_inj {m c p c' p' : Nat} (hp : p < m) (hp' : p' < m)
    (h : c' * m + p' = c * m + p) : c' = c ∧ p' = p := by
  have h1 : (c' * m + p') / m = (c * m + p) / m := by rw [h]
  have h2 : (c' * m + p') % m = (c * m + p) % m := by rw [h]
  have hm : 0 < m := by omega
  rw [Nat.mul_comm c' m, Nat.mul_comm c m, Nat.mul_add_div hm, Nat.mul_add_div hm,
    Nat.div_eq_of_lt hp, Nat.div_eq_of_lt hp'] at h1
  rw [Nat.mul_comm c' m, Nat.mul_comm c m, Nat.mul_add_mod, Nat.mul_add_mod,
    Nat.mod_eq_of_lt hp, Nat.mod_eq_of_lt hp'] at h2
  exact ⟨by omega, h2⟩

/-- **row `c * npts + p` of `probes(x) @ y`** -/
theorem cooDot_probeTriplets (Nbfun comp : Nat) (cells : List Nat) (dofs : Nat → Nat → Nat)
    (phi : Nat → Nat → Nat → K) (y : Nat → K) (c p : Nat) (hc : c < comp)
    (hp : p < cells.length) :
    cooDot (probeTriplets Nbfun comp cells dofs phi) y (c * cells.length + p)
      = ∑ k ∈ Finset.range Nbfun, phi k c p * y (dofs k (cells.getD p 0)) := by
  unfold cooDot
  rw [sum_filter_map, probeTriplets_structured, sum_map_flatMap_range]
  refine Finset.sum_congr rfl (fun k _ => ?_)
  rw [sum_map_flatMap_range, Finset.sum_eq_single c]
  · rw [List.map_map, sum_map_range, Finset.sum_eq_single p]
    · simp
    · intro p' _ hne
      simp [hne]
    · intro h
      exact absurd (Finset.mem_range.2 hp) h
  · intro c' _ hne
    rw [List.map_map, sum_map_range]
    apply Finset.sum_eq_zero
    intro p' hp'
    have hp'' : p' < cells.length := Finset.mem_range.1 hp'
    have : ¬ (c' * cells.length + p' = c * cells.length + p) := by
      intro h
      exact hne (mul_add_inj hp hp'' h).1
    simp [this]
  · intro h
    exact absurd (Finset.mem_range.2 hc) h

end Ring

end Skv.Find

/-! ### reference coordinates of `MappingAffine.invF` -/

namespace Skv.Find

theorem invF1_spec (v0 v1 x : Rat) (h : v1 - v0 ≠ 0) :
    x = v0 + invF1 v0 v1 x * (v1 - v0) := by
  unfold invF1
  field_simp
  ring

theorem invF1_of_bary (v0 v1 l0 l1 : Rat) (h : v1 - v0 ≠ 0) (hs : l0 + l1 = 1) :
    invF1 v0 v1 (l0 * v0 + l1 * v1) = l1 := by
  unfold invF1
  have : l0 = 1 - l1 := by linarith
  subst this
  field_simp
  ring

theorem inv2_right (a00 a01 a10 a11 d y0 y1 : ℚ) (hd : d = a00 * a11 - a01 * a10) (h : d ≠ 0) :
    y0 = (a11 / d * y0 + -a01 / d * y1) * a00 + (-a10 / d * y0 + a00 / d * y1) * a01 ∧
    y1 = (a11 / d * y0 + -a01 / d * y1) * a10 + (-a10 / d * y0 + a00 / d * y1) * a11 := by
  constructor
  · field_simp
    rw [hd]; ring
  · field_simp
    rw [hd]; ring

theorem inv2_left (a00 a01 a10 a11 d l1 l2 : ℚ) (hd : d = a00 * a11 - a01 * a10) (h : d ≠ 0) :
    a11 / d * (l1 * a00 + l2 * a01) + -a01 / d * (l1 * a10 + l2 * a11) = l1 ∧
    -a10 / d * (l1 * a00 + l2 * a01) + a00 / d * (l1 * a10 + l2 * a11) = l2 := by
  constructor
  · field_simp
    rw [hd]; ring
  · field_simp
    rw [hd]; ring

theorem invF2_spec (v0 v1 v2 x : P2) (h : det2 v0 v1 v2 ≠ 0) :
    x.1 = v0.1 + (invF2 v0 v1 v2 x).1 * (v1.1 - v0.1) + (invF2 v0 v1 v2 x).2 * (v2.1 - v0.1) ∧
    x.2 = v0.2 + (invF2 v0 v1 v2 x).1 * (v1.2 - v0.2) + (invF2 v0 v1 v2 x).2 * (v2.2 - v0.2) := by
  have := inv2_right (v1.1 - v0.1) (v2.1 - v0.1) (v1.2 - v0.2) (v2.2 - v0.2) _ (x.1 - v0.1)
    (x.2 - v0.2) rfl h
  unfold invF2
  simp only
  constructor
  · linarith [this.1]
  · linarith [this.2]

theorem invF2_of_bary (v0 v1 v2 : P2) (l0 l1 l2 : Rat) (h : det2 v0 v1 v2 ≠ 0)
    (hs : l0 + l1 + l2 = 1) :
    invF2 v0 v1 v2 (l0 * v0.1 + l1 * v1.1 + l2 * v2.1, l0 * v0.2 + l1 * v1.2 + l2 * v2.2)
      = (l1, l2) := by
  have := inv2_left (v1.1 - v0.1) (v2.1 - v0.1) (v1.2 - v0.2) (v2.2 - v0.2) _ l1 l2 rfl h
  have hl : l0 = 1 - l1 - l2 := by linarith
  subst hl
  unfold invF2
  simp only [Prod.mk.injEq]
  have e1 : (1 - l1 - l2) * v0.1 + l1 * v1.1 + l2 * v2.1 - v0.1
      = l1 * (v1.1 - v0.1) + l2 * (v2.1 - v0.1) := by ring
  have e2 : (1 - l1 - l2) * v0.2 + l1 * v1.2 + l2 * v2.2 - v0.2
      = l1 * (v1.2 - v0.2) + l2 * (v2.2 - v0.2) := by ring
  rw [e1, e2]
  exact this

end Skv.Find

namespace Skv.Find

theorem inv3_right (a00 a01 a02 a10 a11 a12 a20 a21 a22 d y0 y1 y2 : ℚ)
    (hd : d = a00 * (a11 * a22 - a12 * a21) - a01 * (a10 * a22 - a12 * a20)
      + a02 * (a10 * a21 - a11 * a20)) (h : d ≠ 0) :
    let X0 := (-a12 * a21 + a11 * a22) / d * y0 + (a02 * a21 - a01 * a22) / d * y1
      + (-a02 * a11 + a01 * a12) / d * y2
    let X1 := (a12 * a20 - a10 * a22) / d * y0 + (-a02 * a20 + a00 * a22) / d * y1
      + (a02 * a10 - a00 * a12) / d * y2
    let X2 := (-a11 * a20 + a10 * a21) / d * y0 + (a01 * a20 - a00 * a21) / d * y1
      + (-a01 * a10 + a00 * a11) / d * y2
    y0 = X0 * a00 + X1 * a01 + X2 * a02 ∧ y1 = X0 * a10 + X1 * a11 + X2 * a12
      ∧ y2 = X0 * a20 + X1 * a21 + X2 * a22 := by
  intro X0 X1 X2
  simp only [X0, X1, X2]
  refine ⟨?_, ?_, ?_⟩
  · field_simp
    rw [hd]; ring
  · field_simp
    rw [hd]; ring
  · field_simp
    rw [hd]; ring

theorem inv3_left (a00 a01 a02 a10 a11 a12 a20 a21 a22 d l1 l2 l3 : ℚ)
    (hd : d = a00 * (a11 * a22 - a12 * a21) - a01 * (a10 * a22 - a12 * a20)
      + a02 * (a10 * a21 - a11 * a20)) (h : d ≠ 0) :
    let y0 := l1 * a00 + l2 * a01 + l3 * a02
    let y1 := l1 * a10 + l2 * a11 + l3 * a12
    let y2 := l1 * a20 + l2 * a21 + l3 * a22
    (-a12 * a21 + a11 * a22) / d * y0 + (a02 * a21 - a01 * a22) / d * y1
      + (-a02 * a11 + a01 * a12) / d * y2 = l1 ∧
    (a12 * a20 - a10 * a22) / d * y0 + (-a02 * a20 + a00 * a22) / d * y1
      + (a02 * a10 - a00 * a12) / d * y2 = l2 ∧
    (-a11 * a20 + a10 * a21) / d * y0 + (a01 * a20 - a00 * a21) / d * y1
      + (-a01 * a10 + a00 * a11) / d * y2 = l3 := by
  intro y0 y1 y2
  simp only [y0, y1, y2]
  refine ⟨?_, ?_, ?_⟩
  · field_simp
    rw [hd]; ring
  · field_simp
    rw [hd]; ring
  · field_simp
    rw [hd]; ring

end Skv.Find

/-! ### orientation predicates -/

namespace Skv.Find

/-- twice the signed area of `(a, b, x)`: positive iff `x` is to the left of `a → b` -/
def orient (a b x : P2) : Rat := (b.1 - a.1) * (x.2 - a.2) - (b.2 - a.2) * (x.1 - a.1)

theorem bary_of_orient (a b c x : P2) (hD : orient a b c ≠ 0) :
    orient b c x / orient a b c + orient c a x / orient a b c + orient a b x / orient a b c = 1 ∧
    x.1 = orient b c x / orient a b c * a.1 + orient c a x / orient a b c * b.1
      + orient a b x / orient a b c * c.1 ∧
    x.2 = orient b c x / orient a b c * a.2 + orient c a x / orient a b c * b.2
      + orient a b x / orient a b c * c.2 := by
  refine ⟨?_, ?_, ?_⟩
  · field_simp
    unfold orient; ring
  · field_simp
    unfold orient; ring
  · field_simp
    unfold orient; ring

/-- an affine function of a barycentric combination -/
theorem orient_bary (p q a b c : P2) (l0 l1 l2 : Rat) (hs : l0 + l1 + l2 = 1) :
    orient p q (l0 * a.1 + l1 * b.1 + l2 * c.1, l0 * a.2 + l1 * b.2 + l2 * c.2)
      = l0 * orient p q a + l1 * orient p q b + l2 * orient p q c := by
  have : l0 = 1 - l1 - l2 := by linarith
  subst this
  unfold orient
  ring

end Skv.Find

namespace Skv.Find

theorem invF3_spec (v0 v1 v2 v3 x : P3) (h : det3 v0 v1 v2 v3 ≠ 0) :
    x.x = v0.x + (invF3 v0 v1 v2 v3 x).1 * (v1.x - v0.x) + (invF3 v0 v1 v2 v3 x).2.1 * (v2.x - v0.x)
      + (invF3 v0 v1 v2 v3 x).2.2 * (v3.x - v0.x) ∧
    x.y = v0.y + (invF3 v0 v1 v2 v3 x).1 * (v1.y - v0.y) + (invF3 v0 v1 v2 v3 x).2.1 * (v2.y - v0.y)
      + (invF3 v0 v1 v2 v3 x).2.2 * (v3.y - v0.y) ∧
    x.z = v0.z + (invF3 v0 v1 v2 v3 x).1 * (v1.z - v0.z) + (invF3 v0 v1 v2 v3 x).2.1 * (v2.z - v0.z)
      + (invF3 v0 v1 v2 v3 x).2.2 * (v3.z - v0.z) := by
  have := inv3_right (v1.x - v0.x) (v2.x - v0.x) (v3.x - v0.x) (v1.y - v0.y) (v2.y - v0.y)
    (v3.y - v0.y) (v1.z - v0.z) (v2.z - v0.z) (v3.z - v0.z) _ (x.x - v0.x) (x.y - v0.y)
    (x.z - v0.z) rfl h
  simp only at this
  unfold invF3
  simp only
  refine ⟨?_, ?_, ?_⟩
  · linarith [this.1]
  · linarith [this.2.1]
  · linarith [this.2.2]

theorem invF3_of_bary (v0 v1 v2 v3 : P3) (l0 l1 l2 l3 : Rat) (h : det3 v0 v1 v2 v3 ≠ 0)
    (hs : l0 + l1 + l2 + l3 = 1) :
    invF3 v0 v1 v2 v3 ⟨l0 * v0.x + l1 * v1.x + l2 * v2.x + l3 * v3.x,
        l0 * v0.y + l1 * v1.y + l2 * v2.y + l3 * v3.y,
        l0 * v0.z + l1 * v1.z + l2 * v2.z + l3 * v3.z⟩ = (l1, l2, l3) := by
  have := inv3_left (v1.x - v0.x) (v2.x - v0.x) (v3.x - v0.x) (v1.y - v0.y) (v2.y - v0.y)
    (v3.y - v0.y) (v1.z - v0.z) (v2.z - v0.z) (v3.z - v0.z) _ l1 l2 l3 rfl h
  simp only at this
  have hl : l0 = 1 - l1 - l2 - l3 := by linarith
  subst hl
  unfold invF3
  simp only [Prod.mk.injEq]
  have e1 : (1 - l1 - l2 - l3) * v0.x + l1 * v1.x + l2 * v2.x + l3 * v3.x - v0.x
      = l1 * (v1.x - v0.x) + l2 * (v2.x - v0.x) + l3 * (v3.x - v0.x) := by ring
  have e2 : (1 - l1 - l2 - l3) * v0.y + l1 * v1.y + l2 * v2.y + l3 * v3.y - v0.y
      = l1 * (v1.y - v0.y) + l2 * (v2.y - v0.y) + l3 * (v3.y - v0.y) := by ring
  have e3 : (1 - l1 - l2 - l3) * v0.z + l1 * v1.z + l2 * v2.z + l3 * v3.z - v0.z
      = l1 * (v1.z - v0.z) + l2 * (v2.z - v0.z) + l3 * (v3.z - v0.z) := by ring
  rw [e1, e2, e3]
  exact this

end Skv.Find

namespace Skv.Find

/-! ### the 1-D finder -/

theorem mem_insertByKey (p : Nat → Rat) (v u : Nat) (l : List Nat) :
    u ∈ insertByKey p v l ↔ u = v ∨ u ∈ l := by
  induction l with
  | nil => simp [insertByKey]
  | cons w ws ih =>
    unfold insertByKey
    split
    · simp
    · simp only [List.mem_cons, ih]
      tauto

theorem sorted_insertByKey (p : Nat → Rat) (v : Nat) (l : List Nat)
    (h : l.Pairwise (fun a b => p a ≤ p b)) :
    (insertByKey p v l).Pairwise (fun a b => p a ≤ p b) := by
  induction l with
  | nil => simp [insertByKey]
  | cons w ws ih =>
    obtain ⟨hw, hws⟩ := List.pairwise_cons.1 h
    unfold insertByKey
    split
    · rename_i hlt
      refine List.pairwise_cons.2 ⟨?_, h⟩
      intro b hb
      rcases List.mem_cons.1 hb with rfl | hb'
      · exact le_of_lt hlt
      · exact le_trans (le_of_lt hlt) (hw b hb')
    · rename_i hnlt
      refine List.pairwise_cons.2 ⟨?_, ih hws⟩
      intro b hb
      rcases (mem_insertByKey p v b ws).1 hb with rfl | hb'
      · exact not_lt.1 hnlt
      · exact hw b hb'

theorem mem_argsortKey (p : Nat → Rat) (nv u : Nat) : u ∈ argsortKey p nv ↔ u < nv := by
  unfold argsortKey
  have : ∀ l : List Nat, u ∈ l.foldr (fun v acc => insertByKey p v acc) [] ↔ u ∈ l := by
    intro l
    induction l with
    | nil => simp
    | cons a as ih => simp [List.foldr_cons, mem_insertByKey, ih]
  rw [this]
  simp

theorem sorted_argsortKey (p : Nat → Rat) (nv : Nat) :
    (argsortKey p nv).Pairwise (fun a b => p a ≤ p b) := by
  unfold argsortKey
  have : ∀ l : List Nat,
      (l.foldr (fun v acc => insertByKey p v acc) []).Pairwise (fun a b => p a ≤ p b) := by
    intro l
    induction l with
    | nil => simp
    | cons a as ih => exact sorted_insertByKey p a _ ih
  exact this _

/-- in a sorted list the entries `≤ x` are exactly the first `countP` ones -/
theorem sorted_countP_le (bins : List Rat) (x : Rat) (h : bins.Pairwise (· ≤ ·)) (i : Nat)
    (hi : i < bins.length) :
    i < bins.countP (fun b => decide (b ≤ x)) ↔ bins[i] ≤ x := by
  induction bins generalizing i with
  | nil => simp at hi
  | cons b bs ih =>
    obtain ⟨hb, hbs⟩ := List.pairwise_cons.1 h
    by_cases hbx : b ≤ x
    · rw [List.countP_cons_of_pos (by simpa using hbx)]
      cases i with
      | zero => simp [hbx]
      | succ j =>
        have hj : j < bs.length := by simpa using hi
        simp only [List.getElem_cons_succ, Nat.add_lt_add_iff_right]
        exact ih hbs j hj
    · rw [List.countP_cons_of_neg (by simpa using hbx)]
      have hzero : bs.countP (fun b => decide (b ≤ x)) = 0 := by
        rw [List.countP_eq_zero]
        intro c hc
        have := hb c hc
        simp only [decide_eq_true_eq, not_le]
        exact lt_of_lt_of_le (not_le.1 hbx) this
      rw [hzero]
      constructor
      · intro h0; omega
      · intro hle
        exfalso
        cases i with
        | zero => exact hbx (by simpa using hle)
        | succ j =>
          have hj : j < bs.length := by simpa using hi
          have h1 : b ≤ bs[j] := hb _ (List.getElem_mem hj)
          have h2 : bs[j] ≤ x := by simpa using hle
          exact hbx (le_trans h1 h2)

theorem sorted_countP_lt (bins : List Rat) (x : Rat) (h : bins.Pairwise (· ≤ ·)) (i : Nat)
    (hi : i < bins.length) :
    i < bins.countP (fun b => decide (b < x)) ↔ bins[i] < x := by
  induction bins generalizing i with
  | nil => simp at hi
  | cons b bs ih =>
    obtain ⟨hb, hbs⟩ := List.pairwise_cons.1 h
    by_cases hbx : b < x
    · rw [List.countP_cons_of_pos (by simpa using hbx)]
      cases i with
      | zero => simp [hbx]
      | succ j =>
        have hj : j < bs.length := by simpa using hi
        simp only [List.getElem_cons_succ, Nat.add_lt_add_iff_right]
        exact ih hbs j hj
    · rw [List.countP_cons_of_neg (by simpa using hbx)]
      have hzero : bs.countP (fun b => decide (b < x)) = 0 := by
        rw [List.countP_eq_zero]
        intro c hc
        have := hb c hc
        simp only [decide_eq_true_eq, not_lt]
        exact le_trans (not_lt.1 hbx) this
      rw [hzero]
      constructor
      · intro h0; omega
      · intro hle
        exfalso
        cases i with
        | zero => exact hbx (by simpa using hle)
        | succ j =>
          have hj : j < bs.length := by simpa using hi
          have h1 : b ≤ bs[j] := hb _ (List.getElem_mem hj)
          have h2 : bs[j] < x := by simpa using hle
          exact hbx (lt_of_le_of_lt h1 h2)

/-- `ix[np.digitize(x, p[ix])]`: the vertex with the smallest coordinate `> x`, if any -/
theorem digitize_vertex (p : Nat → Rat) (nv : Nat) (x : Rat) :
    (∀ v, (argsortKey p nv)[digitize ((argsortKey p nv).map p) x]? = some v →
      v < nv ∧ x < p v ∧ ∀ u, u < nv → x < p u → p v ≤ p u) ∧
    ((argsortKey p nv)[digitize ((argsortKey p nv).map p) x]? = none → ∀ u, u < nv → p u ≤ x) := by
  have hs := sorted_argsortKey p nv
  have hsb : ((argsortKey p nv).map p).Pairwise (· ≤ ·) := List.pairwise_map.2 hs
  constructor
  · intro v hv
    obtain ⟨hd, rfl⟩ := List.getElem?_eq_some_iff.1 hv
    refine ⟨(mem_argsortKey p nv _).1 (List.getElem_mem hd), ?_, ?_⟩
    · have := (sorted_countP_le _ x hsb (digitize ((argsortKey p nv).map p) x) (by simpa using hd)).not
      simp only [digitize, lt_irrefl, not_false_eq_true, true_iff, List.getElem_map, not_le] at this
      exact this
    · intro u hu hxu
      obtain ⟨i, hi, rfl⟩ := List.getElem_of_mem ((mem_argsortKey p nv u).2 hu)
      have hnot : ¬ i < digitize ((argsortKey p nv).map p) x := by
        intro hlt
        have := (sorted_countP_le _ x hsb i (by simpa using hi)).1 hlt
        simp only [List.getElem_map] at this
        exact absurd this (not_le.2 hxu)
      rcases Nat.lt_or_ge (digitize ((argsortKey p nv).map p) x) i with hlt | hge
      · exact (List.pairwise_iff_getElem.1 hs) _ _ hd hi hlt
      · have : i = digitize ((argsortKey p nv).map p) x := by omega
        subst this
        exact le_refl _
  · intro hnone u hu
    have hlen : (argsortKey p nv).length ≤ digitize ((argsortKey p nv).map p) x := by
      simpa using hnone
    obtain ⟨i, hi, rfl⟩ := List.getElem_of_mem ((mem_argsortKey p nv u).2 hu)
    have := (sorted_countP_le _ x hsb i (by simpa using hi)).1 (by
      unfold digitize at hlen; omega)
    simpa using this

/-- `ix[np.digitize(x, p[ix], right=True)]`: the vertex with the smallest coordinate `≥ x` -/
theorem digitizeRight_vertex (p : Nat → Rat) (nv : Nat) (x : Rat) :
    (∀ v, (argsortKey p nv)[digitizeRight ((argsortKey p nv).map p) x]? = some v →
      v < nv ∧ x ≤ p v ∧ ∀ u, u < nv → x ≤ p u → p v ≤ p u) ∧
    ((argsortKey p nv)[digitizeRight ((argsortKey p nv).map p) x]? = none →
      ∀ u, u < nv → p u < x) := by
  have hs := sorted_argsortKey p nv
  have hsb : ((argsortKey p nv).map p).Pairwise (· ≤ ·) := List.pairwise_map.2 hs
  constructor
  · intro v hv
    obtain ⟨hd, rfl⟩ := List.getElem?_eq_some_iff.1 hv
    refine ⟨(mem_argsortKey p nv _).1 (List.getElem_mem hd), ?_, ?_⟩
    · have := (sorted_countP_lt _ x hsb (digitizeRight ((argsortKey p nv).map p) x)
        (by simpa using hd)).not
      simp only [digitizeRight, lt_irrefl, not_false_eq_true, true_iff, List.getElem_map,
        not_lt] at this
      exact this
    · intro u hu hxu
      obtain ⟨i, hi, rfl⟩ := List.getElem_of_mem ((mem_argsortKey p nv u).2 hu)
      have hnot : ¬ i < digitizeRight ((argsortKey p nv).map p) x := by
        intro hlt
        have := (sorted_countP_lt _ x hsb i (by simpa using hi)).1 hlt
        simp only [List.getElem_map] at this
        exact absurd this (not_lt.2 hxu)
      rcases Nat.lt_or_ge (digitizeRight ((argsortKey p nv).map p) x) i with hlt | hge
      · exact (List.pairwise_iff_getElem.1 hs) _ _ hd hi hlt
      · have : i = digitizeRight ((argsortKey p nv).map p) x := by omega
        subst this
        exact le_refl _
  · intro hnone u hu
    have hlen : (argsortKey p nv).length ≤ digitizeRight ((argsortKey p nv).map p) x := by
      simpa using hnone
    obtain ⟨i, hi, rfl⟩ := List.getElem_of_mem ((mem_argsortKey p nv u).2 hu)
    have := (sorted_countP_lt _ x hsb i (by simpa using hi)).1 (by
      unfold digitizeRight at hlen; omega)
    simpa using this

end Skv.Find

namespace Skv.Find

theorem orient_cyc (a b c : P2) : orient b c a = orient a b c := by unfold orient; ring

theorem orient_swap (a b c : P2) : orient a c b = -orient a b c := by unfold orient; ring

theorem orient_self_left (a b : P2) : orient a b a = 0 := by unfold orient; ring

theorem orient_self_right (a b : P2) : orient a b b = 0 := by unfold orient; ring

theorem det2_eq_orient (a b c : P2) : det2 a b c = orient a b c := by unfold det2 orient; ring

end Skv.Find
