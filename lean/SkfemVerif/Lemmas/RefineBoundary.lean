import SkfemVerif.Lemmas.RefineUniform
/-
Propagation of named boundaries through `MeshTri1._uniform` / `MeshQuad1._uniform` (E-ref):
the table `new_facets` names, for every old facet, its two halves in the refined mesh.
-/
namespace Skv.Refine
open Skv

/-! ### sequential scatter: the last write wins -/

theorem length_scatter (init : List Nat) (W : List (Nat × Nat)) : (scatter init W).length = init.length := by
  induction W generalizing init with
  | nil => rfl
  | cons w W ih => simp only [scatter, List.foldl_cons] at ih ⊢; rw [ih]; simp

theorem scatter_getD (init : List Nat) (W : List (Nat × Nat)) (f : Nat) (hf : f < init.length) :
    (scatter init W).getD f 0 =
      match W.reverse.find? (fun w => w.1 == f) with
      | some w => w.2
      | none => init.getD f 0 := by
  induction W generalizing init with
  | nil => simp [scatter]
  | cons w W ih =>
    have hstep : scatter init (w :: W) = scatter (init.set w.1 w.2) W := rfl
    rw [hstep, ih _ (by simpa using hf), List.reverse_cons, List.find?_append]
    cases h : W.reverse.find? (fun w => w.1 == f) with
    | some x => simp
    | none =>
      simp only [Option.none_or, List.find?_cons, List.find?_nil]
      by_cases hw : w.1 = f
      · simp [hw, List.getD_eq_getElem?_getD, hf]
      · have : (w.1 == f) = false := by simpa using hw
        simp [this, List.getD_eq_getElem?_getD, hw]

/-- two scatters with the same sequence of write positions: both final values at a written
    position come from the same writer -/
theorem scatter_pair {α : Type} (X : List α) (pos va vb : α → Nat) (n f : Nat) (hf : f < n)
    (hex : ∃ x ∈ X, pos x = f) :
    ∃ x ∈ X, pos x = f ∧
      (scatter (List.replicate n 0) (X.map (fun x => (pos x, va x)))).getD f 0 = va x ∧
      (scatter (List.replicate n 0) (X.map (fun x => (pos x, vb x)))).getD f 0 = vb x := by
  have hfind : ∃ x, X.reverse.find? (fun x => pos x == f) = some x := by
    obtain ⟨x, hx, hp⟩ := hex
    cases h : X.reverse.find? (fun x => pos x == f) with
    | some y => exact ⟨y, rfl⟩
    | none =>
      have := List.find?_eq_none.mp h x (by simpa using hx)
      simp [hp] at this
  obtain ⟨x, hx⟩ := hfind
  have hxm : x ∈ X := by simpa using List.mem_of_find?_eq_some hx
  have hxp : pos x = f := by simpa using List.find?_some hx
  refine ⟨x, hxm, hxp, ?_, ?_⟩
  · rw [scatter_getD _ _ f (by simpa using hf), ← List.map_reverse, List.find?_map]
    simp only [Function.comp_def, hx, Option.map_some]
  · rw [scatter_getD _ _ f (by simpa using hf), ← List.map_reverse, List.find?_map]
    simp only [Function.comp_def, hx, Option.map_some]

theorem mem_boundarySub {nf : List Nat × List Nat} {ixs : List Nat} {j : Nat} :
    j ∈ boundarySub nf ixs ↔ ∃ f ∈ ixs, j = nf.1.getD f 0 ∨ j = nf.2.getD f 0 := by
  simp only [boundarySub, mem_sortCol, List.mem_append, List.mem_map]
  constructor
  · rintro (⟨f, hf, rfl⟩ | ⟨f, hf, rfl⟩)
    · exact ⟨f, hf, Or.inl rfl⟩
    · exact ⟨f, hf, Or.inr rfl⟩
  · rintro ⟨f, hf, (rfl | rfl)⟩
    · exact Or.inl ⟨f, hf, rfl⟩
    · exact Or.inr ⟨f, hf, rfl⟩

/-- sorted storage: the stored entity *is* the sorted vertex tuple of the slot -/
theorem buildEntities_slot_sorted (cells ref : List (List Nat)) (j k : Nat)
    (hj : j < ref.length) (hk : k < cells.length) :
    (((buildEntities cells ref true).2.getD j []).getD k 0 < (buildEntities cells ref true).1.length) ∧
    (buildEntities cells ref true).1.getD (((buildEntities cells ref true).2.getD j []).getD k 0) []
      = sortCol (slotCol (cells.getD k []) (ref.getD j [])) := by
  obtain ⟨h1, h2, h3, e⟩ := C11.C11_slot_spec cells ref j k hj hk
  have eidx : ((buildEntities cells ref true).2.getD j []).getD k 0 = ((entityMapping cells ref)[j])[k] := by
    simp [buildEntities, List.getD_eq_getElem?_getD, List.getElem?_eq_getElem h1,
      List.getElem?_eq_getElem h2]
  rw [eidx, getD_cells _ _ hk, getD_cells _ _ hj]
  refine ⟨by simpa [buildEntities] using h3, ?_⟩
  simp only [buildEntities, if_true, List.getD_eq_getElem?_getD, List.getElem?_eq_getElem h3,
    Option.getD_some, e]

/-- child `i` of cell `k` in the block layout -/
theorem realize_block_getD (E : Env) (nt : Nat) (T : Template) (i k : Nat) (hi : i < T.length) (hk : k < nt) :
    (E.realize (blockLayout nt T)).getD (i * nt + k) [] = (T.getD i []).map (E.num k) := by
  obtain ⟨h1, h2⟩ := blockLayout_getElem nt T i k hi hk
  rw [List.getD_eq_getElem?_getD, List.getElem?_eq_getElem (by rw [length_realize]; exact h1),
    Option.getD_some, realize_getElem _ _ _ h1, h2]
  simp [List.getD_eq_getElem?_getD, hi]

theorem length_realize_block (E : Env) (nt : Nat) (T : Template) :
    (E.realize (blockLayout nt T)).length = T.length * nt := by
  rw [length_realize, length_blockLayout]

theorem facetTable_tri (m : MeshData) : facetTable .tri m = buildEntities m.cells triFacets true := rfl
theorem facetTable_quad (m : MeshData) : facetTable .quad m = buildEntities m.cells quadFacets true := rfl

/-- the facet of the refined triangle mesh named by slot `s'` of child `blk` of cell `k`
    (no re-sorting of the children) -/
theorem tri_child_facet (m : MeshData) (blk s' k : Nat) (hb : blk < 4)
    (hs' : s' < 3) (hk : k < m.cells.length)
    (hraw : (newCells .tri m).getD (blk * m.cells.length + k) [] = (triT.getD blk []).map ((envOf .tri m).num k)) :
    (buildEntities (newCells .tri m) triFacets true).1.getD
      (((buildEntities (newCells .tri m) triFacets true).2.getD s' []).getD (blk * m.cells.length + k) 0) []
      = sortCol (slotCol ((triT.getD blk []).map ((envOf .tri m).num k)) (triFacets.getD s' [])) := by
  have hlen : (newCells .tri m).length = 4 * m.cells.length := by
    simpa [Kind.nchild] using length_newCells .tri m
  have hlt : blk * m.cells.length + k < (newCells .tri m).length := by
    rw [hlen]
    have : (blk + 1) * m.cells.length ≤ 4 * m.cells.length := Nat.mul_le_mul_right _ (by omega)
    rw [Nat.add_mul] at this; omega
  obtain ⟨_, h2⟩ := buildEntities_slot_sorted (newCells .tri m) triFacets s' (blk * m.cells.length + k)
    (by simpa [triFacets] using hs') hlt
  rw [h2, hraw]

/-- the children 0, 1, 2 of every cell are stored as the template says (trivially without
    re-sorting; with `sort_t=True` because they are ascending already) -/
def TriRaw (m : MeshData) : Prop :=
  ∀ blk, blk < 3 → ∀ k, k < m.cells.length →
    (newCells .tri m).getD (blk * m.cells.length + k) [] = (triT.getD blk []).map ((envOf .tri m).num k)

theorem triRaw_unsorted (m : MeshData) (hsort : m.sortT = false) : TriRaw m := by
  intro blk hb k hk
  simp only [newCells, postInit, hsort, rawCells, layoutOf, Bool.false_eq_true, if_false]
  rw [realize_block_getD _ _ _ _ _ (by simp [triT]; omega) hk]

/-- writers of `new_facets`: (slot, (slot', block) of row 0, (slot', block) of row 1, cell) -/
abbrev Writer := Nat × (Nat × Nat) × (Nat × Nat) × Nat

theorem tri_new_facets (m : MeshData) (hraw : TriRaw m) (s k : Nat) (hs : s < 3)
    (hk : k < m.cells.length) :
    ∃ a b,
      (facetTable .tri m).1.getD (((facetTable .tri m).2.getD s []).getD k 0) [] = sortCol [a, b] ∧
      (buildEntities (newCells .tri m) triFacets true).1.getD
        ((triNewFacets m.cells.length (facetTable .tri m).1.length (facetTable .tri m).2
          (buildEntities (newCells .tri m) triFacets true).2).1.getD
            (((facetTable .tri m).2.getD s []).getD k 0) 0) []
        = sortCol [a, m.p.length + ((facetTable .tri m).2.getD s []).getD k 0] ∧
      (buildEntities (newCells .tri m) triFacets true).1.getD
        ((triNewFacets m.cells.length (facetTable .tri m).1.length (facetTable .tri m).2
          (buildEntities (newCells .tri m) triFacets true).2).2.getD
            (((facetTable .tri m).2.getD s []).getD k 0) 0) []
        = sortCol [b, m.p.length + ((facetTable .tri m).2.getD s []).getD k 0] := by
  rw [facetTable_tri]
  generalize hf : ((buildEntities m.cells triFacets true).2.getD s []).getD k 0 = f
  let t2f := (buildEntities m.cells triFacets true).2
  let t2f' := (buildEntities (newCells .tri m) triFacets true).2
  let nt := m.cells.length
  let X : List Writer :=
    (List.range nt).map (fun k => (2, (2, 0), (0, 2), k)) ++
    (List.range nt).map (fun k => (1, (2, 1), (2, 2), k)) ++
    (List.range nt).map (fun k => (0, (0, 0), (0, 1), k))
  let pos : Writer → Nat := fun x => (t2f.getD x.1 []).getD x.2.2.2 0
  let va : Writer → Nat := fun x => (t2f'.getD x.2.1.1 []).getD (x.2.1.2 * nt + x.2.2.2) 0
  let vb : Writer → Nat := fun x => (t2f'.getD x.2.2.1.1 []).getD (x.2.2.1.2 * nt + x.2.2.2) 0
  have hrow0 : (triNewFacets nt (buildEntities m.cells triFacets true).1.length t2f t2f').1
      = scatter (List.replicate (buildEntities m.cells triFacets true).1.length 0)
          (X.map (fun x => (pos x, va x))) := by
    simp [triNewFacets, stmt, X, pos, va, List.map_append, List.map_map, Function.comp_def]
  have hrow1 : (triNewFacets nt (buildEntities m.cells triFacets true).1.length t2f t2f').2
      = scatter (List.replicate (buildEntities m.cells triFacets true).1.length 0)
          (X.map (fun x => (pos x, vb x))) := by
    simp [triNewFacets, stmt, X, pos, vb, List.map_append, List.map_map, Function.comp_def]
  have hflt : f < (buildEntities m.cells triFacets true).1.length := by
    have := (buildEntities_slot_sorted m.cells triFacets s k (by simpa [triFacets] using hs) hk).1
    rw [hf] at this; exact this
  have hex : ∃ x ∈ X, pos x = f := by
    have : s = 0 ∨ s = 1 ∨ s = 2 := by omega
    rcases this with rfl | rfl | rfl
    · exact ⟨(0, (0, 0), (0, 1), k), by simp [X, nt, hk], hf⟩
    · exact ⟨(1, (2, 1), (2, 2), k), by simp [X, nt, hk], hf⟩
    · exact ⟨(2, (2, 0), (0, 2), k), by simp [X, nt, hk], hf⟩
  obtain ⟨x, hmem, hpos, h0, h1⟩ := scatter_pair X pos va vb _ f hflt hex
  show ∃ a b, _ ∧ (buildEntities (newCells .tri m) triFacets true).1.getD
      ((triNewFacets nt (buildEntities m.cells triFacets true).1.length t2f t2f').1.getD f 0) [] = _ ∧
    (buildEntities (newCells .tri m) triFacets true).1.getD
      ((triNewFacets nt (buildEntities m.cells triFacets true).1.length t2f t2f').2.getD f 0) [] = _
  rw [hrow0, hrow1, h0, h1]
  simp only [X, List.mem_append, List.mem_map, List.mem_range] at hmem
  rcases hmem with (⟨q, hq, rfl⟩ | ⟨q, hq, rfl⟩) | ⟨q, hq, rfl⟩
  · -- slot 2 = (0, 2)
    have hq' : q < m.cells.length := hq
    have hpos' : ((buildEntities m.cells triFacets true).2.getD 2 []).getD q 0 = f := hpos
    refine ⟨(m.cells.getD q []).getD 0 0, (m.cells.getD q []).getD 2 0, ?_, ?_, ?_⟩
    · rw [← hpos', (buildEntities_slot_sorted m.cells triFacets 2 q (by simp [triFacets]) hq').2]
      simp [triFacets, slotCol]
    · show (buildEntities (newCells .tri m) triFacets true).1.getD
        ((t2f'.getD 2 []).getD (0 * m.cells.length + q) 0) [] = _
      rw [tri_child_facet m 0 2 q (by omega) (by omega) hq' (hraw 0 (by omega) q hq'), ← hpos']
      simp [triT, triFacets, slotCol, Env.num, envOf, facetTable_tri]
    · show (buildEntities (newCells .tri m) triFacets true).1.getD
        ((t2f'.getD 0 []).getD (2 * m.cells.length + q) 0) [] = _
      rw [tri_child_facet m 2 0 q (by omega) (by omega) hq' (hraw 2 (by omega) q hq'), ← hpos']
      simp [triT, triFacets, slotCol, Env.num, envOf, facetTable_tri]
  · -- slot 1 = (1, 2)
    have hq' : q < m.cells.length := hq
    have hpos' : ((buildEntities m.cells triFacets true).2.getD 1 []).getD q 0 = f := hpos
    refine ⟨(m.cells.getD q []).getD 1 0, (m.cells.getD q []).getD 2 0, ?_, ?_, ?_⟩
    · rw [← hpos', (buildEntities_slot_sorted m.cells triFacets 1 q (by simp [triFacets]) hq').2]
      simp [triFacets, slotCol]
    · show (buildEntities (newCells .tri m) triFacets true).1.getD
        ((t2f'.getD 2 []).getD (1 * m.cells.length + q) 0) [] = _
      rw [tri_child_facet m 1 2 q (by omega) (by omega) hq' (hraw 1 (by omega) q hq'), ← hpos']
      simp [triT, triFacets, slotCol, Env.num, envOf, facetTable_tri]
    · show (buildEntities (newCells .tri m) triFacets true).1.getD
        ((t2f'.getD 2 []).getD (2 * m.cells.length + q) 0) [] = _
      rw [tri_child_facet m 2 2 q (by omega) (by omega) hq' (hraw 2 (by omega) q hq'), ← hpos']
      simp [triT, triFacets, slotCol, Env.num, envOf, facetTable_tri]
  · -- slot 0 = (0, 1)
    have hq' : q < m.cells.length := hq
    have hpos' : ((buildEntities m.cells triFacets true).2.getD 0 []).getD q 0 = f := hpos
    refine ⟨(m.cells.getD q []).getD 0 0, (m.cells.getD q []).getD 1 0, ?_, ?_, ?_⟩
    · rw [← hpos', (buildEntities_slot_sorted m.cells triFacets 0 q (by simp [triFacets]) hq').2]
      simp [triFacets, slotCol]
    · show (buildEntities (newCells .tri m) triFacets true).1.getD
        ((t2f'.getD 0 []).getD (0 * m.cells.length + q) 0) [] = _
      rw [tri_child_facet m 0 0 q (by omega) (by omega) hq' (hraw 0 (by omega) q hq'), ← hpos']
      simp [triT, triFacets, slotCol, Env.num, envOf, facetTable_tri]
    · show (buildEntities (newCells .tri m) triFacets true).1.getD
        ((t2f'.getD 0 []).getD (1 * m.cells.length + q) 0) [] = _
      rw [tri_child_facet m 1 0 q (by omega) (by omega) hq' (hraw 1 (by omega) q hq'), ← hpos']
      simp [triT, triFacets, slotCol, Env.num, envOf, facetTable_tri]

theorem sortCol_of_pairwise {l : List Nat} (h : l.Pairwise (· ≤ ·)) : sortCol l = l := by
  apply List.Perm.eq_of_pairwise (le := (· ≤ ·)) ?_ (pairwise_sortCol l) h (perm_sortCol l)
  intro x y _ _ h1 h2; exact Nat.le_antisymm h1 h2

/-- in a strictly ascending list a smaller element has the smaller index -/
theorem idx_lt_of_lt {l : List (List Nat)} (hp : l.Pairwise (· < ·)) {i j : Nat} (hi : i < l.length)
    (hj : j < l.length) (h : l[i] < l[j]) : i < j := by
  by_contra hc
  have hji : j ≤ i := Nat.le_of_not_lt hc
  rcases Nat.lt_or_eq_of_le hji with hlt | heq
  · have := List.pairwise_iff_getElem.mp hp j i hj hi hlt
    exact absurd (List.lt_trans h this) (List.lt_irrefl _)
  · subst heq
    exact absurd h (List.lt_irrefl _)

/-- `sort_t=True`: every cell is ascending and names existing vertices -/
def TriAscending (m : MeshData) : Prop :=
  ∀ k, k < m.cells.length → ∃ a b c, m.cells.getD k [] = [a, b, c] ∧ a < b ∧ b < c ∧ c < m.p.length

theorem pair_lt_pair {a b c d : Nat} (h : a < c ∨ (a = c ∧ b < d)) : ([a, b] : List Nat) < [c, d] := by
  rw [List.cons_lt_cons_iff]
  rcases h with h | ⟨rfl, h⟩
  · exact Or.inl h
  · exact Or.inr ⟨rfl, by rw [List.cons_lt_cons_iff]; exact Or.inl h⟩

/-- **lexicographic facet order**: in an ascending triangle `(a, b, c)` the facets
    `(a,b)`, `(a,c)`, `(b,c)` are numbered in this order: `t2f[0] < t2f[2] < t2f[1]` -/
theorem lex_facet_order (m : MeshData) (hasc : TriAscending m) (k : Nat) (hk : k < m.cells.length) :
    ((buildEntities m.cells triFacets true).2.getD 0 []).getD k 0
      < ((buildEntities m.cells triFacets true).2.getD 2 []).getD k 0 ∧
    ((buildEntities m.cells triFacets true).2.getD 2 []).getD k 0
      < ((buildEntities m.cells triFacets true).2.getD 1 []).getD k 0 := by
  obtain ⟨a, b, c, hc, hab, hbc, _⟩ := hasc k hk
  obtain ⟨l0, e0⟩ := buildEntities_slot_sorted m.cells triFacets 0 k (by simp [triFacets]) hk
  obtain ⟨l1, e1⟩ := buildEntities_slot_sorted m.cells triFacets 1 k (by simp [triFacets]) hk
  obtain ⟨l2, e2⟩ := buildEntities_slot_sorted m.cells triFacets 2 k (by simp [triFacets]) hk
  have s0 : sortCol (slotCol (m.cells.getD k []) (triFacets.getD 0 [])) = [a, b] := by
    rw [hc]; simp only [triFacets, slotCol]; exact sortCol_of_pairwise (by simp; omega)
  have s1 : sortCol (slotCol (m.cells.getD k []) (triFacets.getD 1 [])) = [b, c] := by
    rw [hc]; simp only [triFacets, slotCol]; exact sortCol_of_pairwise (by simp; omega)
  have s2 : sortCol (slotCol (m.cells.getD k []) (triFacets.getD 2 [])) = [a, c] := by
    rw [hc]; simp only [triFacets, slotCol]; exact sortCol_of_pairwise (by simp; omega)
  rw [s0] at e0; rw [s1] at e1; rw [s2] at e2
  have hp : (buildEntities m.cells triFacets true).1.Pairwise (· < ·) := by
    simpa [buildEntities] using C11.C11_entities_lex_sorted m.cells triFacets
  rw [List.getD_eq_getElem?_getD, List.getElem?_eq_getElem l0, Option.getD_some] at e0
  rw [List.getD_eq_getElem?_getD, List.getElem?_eq_getElem l1, Option.getD_some] at e1
  rw [List.getD_eq_getElem?_getD, List.getElem?_eq_getElem l2, Option.getD_some] at e2
  constructor
  · apply idx_lt_of_lt hp l0 l2
    rw [e0, e2]; exact pair_lt_pair (Or.inr ⟨rfl, by omega⟩)
  · apply idx_lt_of_lt hp l2 l1
    rw [e2, e1]; exact pair_lt_pair (Or.inl hab)

theorem triRaw_sorted (m : MeshData) (hsort : m.sortT = true) (hasc : TriAscending m) : TriRaw m := by
  intro blk hb k hk
  obtain ⟨a, b, c, hc, hab, hbc, hcsz⟩ := hasc k hk
  obtain ⟨h02, h21⟩ := lex_facet_order m hasc k hk
  have hlt : blk * m.cells.length + k < ((envOf .tri m).realize (blockLayout m.cells.length triT)).length := by
    rw [length_realize_block]
    have : (blk + 1) * m.cells.length ≤ 4 * m.cells.length := Nat.mul_le_mul_right _ (by omega)
    rw [Nat.add_mul] at this; simp [triT]; omega
  simp only [newCells, postInit, hsort, rawCells, layoutOf, if_true]
  rw [getD_map_list sortCol _ _ hlt [] [], realize_block_getD _ _ _ _ _ (by simp [triT]; omega) hk]
  apply sortCol_of_pairwise
  have hb3 : blk = 0 ∨ blk = 1 ∨ blk = 2 := by omega
  simp only [List.getD_eq_getElem?_getD] at hc h02 h21
  rcases hb3 with rfl | rfl | rfl <;>
    simp [triT, Env.num, envOf, facetTable_tri, hc] <;> omega

theorem quad_child_facet (m : MeshData) (hsort : m.sortT = false) (blk s' k : Nat) (hb : blk < 4)
    (hs' : s' < 4) (hk : k < m.cells.length) :
    (buildEntities (newCells .quad m) quadFacets true).1.getD
      (((buildEntities (newCells .quad m) quadFacets true).2.getD s' []).getD (blk * m.cells.length + k) 0) []
      = sortCol (slotCol ((quadT.getD blk []).map ((envOf .quad m).num k)) (quadFacets.getD s' [])) := by
  have hlen : (newCells .quad m).length = 4 * m.cells.length := by
    simpa [Kind.nchild] using length_newCells .quad m
  have hlt : blk * m.cells.length + k < (newCells .quad m).length := by
    rw [hlen]
    have : (blk + 1) * m.cells.length ≤ 4 * m.cells.length := Nat.mul_le_mul_right _ (by omega)
    rw [Nat.add_mul] at this; omega
  obtain ⟨_, h2⟩ := buildEntities_slot_sorted (newCells .quad m) quadFacets s' (blk * m.cells.length + k)
    (by simpa [quadFacets] using hs') hlt
  rw [h2]
  simp only [newCells, postInit, hsort, rawCells, layoutOf, Bool.false_eq_true, if_false]
  rw [realize_block_getD _ _ _ _ _ (by simpa [quadT] using hb) hk]

theorem sortCol_swap (a b : Nat) : sortCol [a, b] = sortCol [b, a] :=
  sortCol_congr (List.Perm.swap b a [])

theorem quad_new_facets (m : MeshData) (hsort : m.sortT = false) (s k : Nat) (hs : s < 4)
    (hk : k < m.cells.length) :
    ∃ a b,
      (facetTable .quad m).1.getD (((facetTable .quad m).2.getD s []).getD k 0) [] = sortCol [a, b] ∧
      (buildEntities (newCells .quad m) quadFacets true).1.getD
        ((quadNewFacets m.cells.length (facetTable .quad m).1.length (facetTable .quad m).2
          (buildEntities (newCells .quad m) quadFacets true).2).1.getD
            (((facetTable .quad m).2.getD s []).getD k 0) 0) []
        = sortCol [a, m.p.length + ((facetTable .quad m).2.getD s []).getD k 0] ∧
      (buildEntities (newCells .quad m) quadFacets true).1.getD
        ((quadNewFacets m.cells.length (facetTable .quad m).1.length (facetTable .quad m).2
          (buildEntities (newCells .quad m) quadFacets true).2).2.getD
            (((facetTable .quad m).2.getD s []).getD k 0) 0) []
        = sortCol [b, m.p.length + ((facetTable .quad m).2.getD s []).getD k 0] := by
  rw [facetTable_quad]
  generalize hf : ((buildEntities m.cells quadFacets true).2.getD s []).getD k 0 = f
  let t2f := (buildEntities m.cells quadFacets true).2
  let t2f' := (buildEntities (newCells .quad m) quadFacets true).2
  let nt := m.cells.length
  let X : List Writer :=
    (List.range nt).map (fun k => (0, (0, 0), (0, 1), k)) ++
    (List.range nt).map (fun k => (1, (1, 1), (1, 2), k)) ++
    (List.range nt).map (fun k => (2, (2, 2), (2, 3), k)) ++
    (List.range nt).map (fun k => (3, (3, 3), (3, 0), k))
  let pos : Writer → Nat := fun x => (t2f.getD x.1 []).getD x.2.2.2 0
  let va : Writer → Nat := fun x => (t2f'.getD x.2.1.1 []).getD (x.2.1.2 * nt + x.2.2.2) 0
  let vb : Writer → Nat := fun x => (t2f'.getD x.2.2.1.1 []).getD (x.2.2.1.2 * nt + x.2.2.2) 0
  have hrow0 : (quadNewFacets nt (buildEntities m.cells quadFacets true).1.length t2f t2f').1
      = scatter (List.replicate (buildEntities m.cells quadFacets true).1.length 0)
          (X.map (fun x => (pos x, va x))) := by
    simp [quadNewFacets, stmt, X, pos, va, List.map_append, List.map_map, Function.comp_def]
  have hrow1 : (quadNewFacets nt (buildEntities m.cells quadFacets true).1.length t2f t2f').2
      = scatter (List.replicate (buildEntities m.cells quadFacets true).1.length 0)
          (X.map (fun x => (pos x, vb x))) := by
    simp [quadNewFacets, stmt, X, pos, vb, List.map_append, List.map_map, Function.comp_def]
  have hflt : f < (buildEntities m.cells quadFacets true).1.length := by
    have := (buildEntities_slot_sorted m.cells quadFacets s k (by simpa [quadFacets] using hs) hk).1
    rw [hf] at this; exact this
  have hex : ∃ x ∈ X, pos x = f := by
    have : s = 0 ∨ s = 1 ∨ s = 2 ∨ s = 3 := by omega
    rcases this with rfl | rfl | rfl | rfl
    · exact ⟨(0, (0, 0), (0, 1), k), by simp [X, nt, hk], hf⟩
    · exact ⟨(1, (1, 1), (1, 2), k), by simp [X, nt, hk], hf⟩
    · exact ⟨(2, (2, 2), (2, 3), k), by simp [X, nt, hk], hf⟩
    · exact ⟨(3, (3, 3), (3, 0), k), by simp [X, nt, hk], hf⟩
  obtain ⟨x, hmem, hpos, h0, h1⟩ := scatter_pair X pos va vb _ f hflt hex
  show ∃ a b, _ ∧ (buildEntities (newCells .quad m) quadFacets true).1.getD
      ((quadNewFacets nt (buildEntities m.cells quadFacets true).1.length t2f t2f').1.getD f 0) [] = _ ∧
    (buildEntities (newCells .quad m) quadFacets true).1.getD
      ((quadNewFacets nt (buildEntities m.cells quadFacets true).1.length t2f t2f').2.getD f 0) [] = _
  rw [hrow0, hrow1, h0, h1]
  simp only [X, List.mem_append, List.mem_map, List.mem_range] at hmem
  rcases hmem with ((⟨q, hq, rfl⟩ | ⟨q, hq, rfl⟩) | ⟨q, hq, rfl⟩) | ⟨q, hq, rfl⟩
  · have hq' : q < m.cells.length := hq
    have hpos' : ((buildEntities m.cells quadFacets true).2.getD 0 []).getD q 0 = f := hpos
    refine ⟨(m.cells.getD q []).getD 0 0, (m.cells.getD q []).getD 1 0, ?_, ?_, ?_⟩
    · rw [← hpos', (buildEntities_slot_sorted m.cells quadFacets 0 q (by simp [quadFacets]) hq').2]
      simp [quadFacets, slotCol]
    · show (buildEntities (newCells .quad m) quadFacets true).1.getD
        ((t2f'.getD 0 []).getD (0 * m.cells.length + q) 0) [] = _
      rw [quad_child_facet m hsort 0 0 q (by omega) (by omega) hq', ← hpos']
      simp [quadT, quadFacets, slotCol, Env.num, envOf, facetTable_quad]
    · show (buildEntities (newCells .quad m) quadFacets true).1.getD
        ((t2f'.getD 0 []).getD (1 * m.cells.length + q) 0) [] = _
      rw [quad_child_facet m hsort 1 0 q (by omega) (by omega) hq', ← hpos']
      simp [quadT, quadFacets, slotCol, Env.num, envOf, facetTable_quad]
      exact sortCol_swap _ _
  · have hq' : q < m.cells.length := hq
    have hpos' : ((buildEntities m.cells quadFacets true).2.getD 1 []).getD q 0 = f := hpos
    refine ⟨(m.cells.getD q []).getD 1 0, (m.cells.getD q []).getD 2 0, ?_, ?_, ?_⟩
    · rw [← hpos', (buildEntities_slot_sorted m.cells quadFacets 1 q (by simp [quadFacets]) hq').2]
      simp [quadFacets, slotCol]
    · show (buildEntities (newCells .quad m) quadFacets true).1.getD
        ((t2f'.getD 1 []).getD (1 * m.cells.length + q) 0) [] = _
      rw [quad_child_facet m hsort 1 1 q (by omega) (by omega) hq', ← hpos']
      simp [quadT, quadFacets, slotCol, Env.num, envOf, facetTable_quad]
    · show (buildEntities (newCells .quad m) quadFacets true).1.getD
        ((t2f'.getD 1 []).getD (2 * m.cells.length + q) 0) [] = _
      rw [quad_child_facet m hsort 2 1 q (by omega) (by omega) hq', ← hpos']
      simp [quadT, quadFacets, slotCol, Env.num, envOf, facetTable_quad]
      exact sortCol_swap _ _
  · have hq' : q < m.cells.length := hq
    have hpos' : ((buildEntities m.cells quadFacets true).2.getD 2 []).getD q 0 = f := hpos
    refine ⟨(m.cells.getD q []).getD 2 0, (m.cells.getD q []).getD 3 0, ?_, ?_, ?_⟩
    · rw [← hpos', (buildEntities_slot_sorted m.cells quadFacets 2 q (by simp [quadFacets]) hq').2]
      simp [quadFacets, slotCol]
    · show (buildEntities (newCells .quad m) quadFacets true).1.getD
        ((t2f'.getD 2 []).getD (2 * m.cells.length + q) 0) [] = _
      rw [quad_child_facet m hsort 2 2 q (by omega) (by omega) hq', ← hpos']
      simp [quadT, quadFacets, slotCol, Env.num, envOf, facetTable_quad]
    · show (buildEntities (newCells .quad m) quadFacets true).1.getD
        ((t2f'.getD 2 []).getD (3 * m.cells.length + q) 0) [] = _
      rw [quad_child_facet m hsort 3 2 q (by omega) (by omega) hq', ← hpos']
      simp [quadT, quadFacets, slotCol, Env.num, envOf, facetTable_quad]
      exact sortCol_swap _ _
  · have hq' : q < m.cells.length := hq
    have hpos' : ((buildEntities m.cells quadFacets true).2.getD 3 []).getD q 0 = f := hpos
    refine ⟨(m.cells.getD q []).getD 3 0, (m.cells.getD q []).getD 0 0, ?_, ?_, ?_⟩
    · rw [← hpos', (buildEntities_slot_sorted m.cells quadFacets 3 q (by simp [quadFacets]) hq').2]
      simp [quadFacets, slotCol]
      exact sortCol_swap _ _
    · show (buildEntities (newCells .quad m) quadFacets true).1.getD
        ((t2f'.getD 3 []).getD (3 * m.cells.length + q) 0) [] = _
      rw [quad_child_facet m hsort 3 3 q (by omega) (by omega) hq', ← hpos']
      simp [quadT, quadFacets, slotCol, Env.num, envOf, facetTable_quad]
      exact sortCol_swap _ _
    · show (buildEntities (newCells .quad m) quadFacets true).1.getD
        ((t2f'.getD 3 []).getD (0 * m.cells.length + q) 0) [] = _
      rw [quad_child_facet m hsort 0 3 q (by omega) (by omega) hq', ← hpos']
      simp [quadT, quadFacets, slotCol, Env.num, envOf, facetTable_quad]

end Skv.Refine
