/-
E-find: point location (`Mesh*.element_finder`) and point evaluation (`CellBasis.probes`,
`interpolator`, `point_source`).  Core Lean only: linked into the driver executable.

* the two-stage decision logic of the simplex finders (`mesh_tri_1.py`, `mesh_tet_1.py`) over an
  ABSTRACT candidate list (the KD-tree query) and an abstract `inside : cell → point → Bool`;
* `inside` for simplices: the reference coordinates `MappingAffine.invF` computes (cofactor
  inverse, as in `mapping_affine.py`) compared with `-eps`, over `Rat`;
* the 1-D finder (`mesh_line_1.py`: `argsort`, `digitize`, the vertex with the larger coordinate);
* the split trick of the quadrilateral / hexahedron / prism finders (`to_meshtri`, `to_meshtet`
  stack blocks of `nt` sub-simplices, the finder takes `% nt`);
* the COO bookkeeping of `probes` (`np.tile`, `flatten`, fancy indexing of `element_dofs`).

Everything lives in the namespace `Skv.Find` (other areas define `det2`, `splitCells`, … in `Skv`).
-/
namespace Skv.Find

/-! ### (a) decision logic of the simplex finders -/

/-- `np.argmax` of a boolean vector: position of the first `True`, `0` if there is none -/
def argmaxBool (l : List Bool) : Nat := if l.any id then l.idxOf true else 0

section Decision
variable {P : Type}

/-- one pass of `finder` over the candidate cells `ix` for the query points `pts`:
    `inside` is the `(len(ix), npts)` boolean matrix, `inside.max(axis=0).all()` the guard,
    `ix[inside.argmax(axis=0)]` the answer.  `none`: some point has no inside candidate. -/
def finderStage (inside : Nat → P → Bool) (ix : List Nat) (pts : List P) : Option (List Nat) :=
  if pts.all (fun x => ix.any (fun k => inside k x)) then
    some (pts.map (fun x => ix.getD (argmaxBool (ix.map (fun k => inside k x))) 0))
  else none

/-- `finder(x, y[, z])`: first the candidates, then (`_search_all=True`) all cells
    `arange(nt)`; `none` = `raise ValueError("Point is outside of the mesh.")`.
    `inside1` / `inside2` are the inside matrices of the first / second pass (in exact arithmetic
    they are the same predicate; in floating point the two evaluations of `invF` may differ in the
    last bits, so the correspondence check feeds both) -/
def finder2 (inside1 inside2 : Nat → P → Bool) (nt : Nat) (cand : List Nat) (pts : List P) :
    Option (List Nat) :=
  match finderStage inside1 cand pts with
  | some r => some r
  | none => finderStage inside2 (List.range nt) pts

/-- the finder with one inside predicate -/
def finder (inside : Nat → P → Bool) (nt : Nat) (cand : List Nat) (pts : List P) :
    Option (List Nat) :=
  finder2 inside inside nt cand pts

/-- the finders of `MeshQuad1`, `MeshHex1`, `MeshWedge1`: finder of the split mesh with
    `nb * nt` sub-simplices, then `% nt` -/
def finderSplit (insideSub : Nat → P → Bool) (nb nt : Nat) (cand : List Nat) (pts : List P) :
    Option (List Nat) :=
  (finder insideSub (nb * nt) cand pts).map (fun r => r.map (· % nt))

def finderSplit2 (inside1 inside2 : Nat → P → Bool) (nb nt : Nat) (cand : List Nat)
    (pts : List P) : Option (List Nat) :=
  (finder2 inside1 inside2 (nb * nt) cand pts).map (fun r => r.map (· % nt))

end Decision

/-! ### (b) `inside` for simplices: reference coordinates against `-eps` -/

/-- `MappingAffine.invF` in one dimension: `(x - b) / A` -/
def invF1 (v0 v1 x : Rat) : Rat := (1 / (v1 - v0)) * (x - v0)

def insideLine (eps v0 v1 x : Rat) : Bool :=
  let X := invF1 v0 v1 x
  decide (-eps ≤ X) && decide (-eps ≤ 1 - X)

/-- a point of the plane -/
abbrev P2 := Rat × Rat

/-- `detA` of the triangle `(v0, v1, v2)` -/
def det2 (v0 v1 v2 : P2) : Rat :=
  (v1.1 - v0.1) * (v2.2 - v0.2) - (v2.1 - v0.1) * (v1.2 - v0.2)

/-- `MappingAffine.invF` in two dimensions (`invA` by cofactors divided by `detA`) -/
def invF2 (v0 v1 v2 x : P2) : Rat × Rat :=
  let a00 := v1.1 - v0.1
  let a01 := v2.1 - v0.1
  let a10 := v1.2 - v0.2
  let a11 := v2.2 - v0.2
  let d := a00 * a11 - a01 * a10
  let i00 := a11 / d
  let i01 := -a01 / d
  let i10 := -a10 / d
  let i11 := a00 / d
  (i00 * (x.1 - v0.1) + i01 * (x.2 - v0.2), i10 * (x.1 - v0.1) + i11 * (x.2 - v0.2))

/-- the inside test of `MeshTri1.element_finder` -/
def insideTri (eps : Rat) (v0 v1 v2 x : P2) : Bool :=
  let X := invF2 v0 v1 v2 x
  decide (-eps ≤ X.1) && decide (-eps ≤ X.2) && decide (-eps ≤ 1 - X.1 - X.2)

/-- a point of space -/
structure P3 where
  x : Rat
  y : Rat
  z : Rat
deriving DecidableEq, Repr

/-- `detA` of the tetrahedron -/
def det3 (v0 v1 v2 v3 : P3) : Rat :=
  let a00 := v1.x - v0.x
  let a01 := v2.x - v0.x
  let a02 := v3.x - v0.x
  let a10 := v1.y - v0.y
  let a11 := v2.y - v0.y
  let a12 := v3.y - v0.y
  let a20 := v1.z - v0.z
  let a21 := v2.z - v0.z
  let a22 := v3.z - v0.z
  a00 * (a11 * a22 - a12 * a21) - a01 * (a10 * a22 - a12 * a20) + a02 * (a10 * a21 - a11 * a20)

/-- `MappingAffine.invF` in three dimensions, the nine cofactors exactly as in `_init_invA` -/
def invF3 (v0 v1 v2 v3 x : P3) : Rat × Rat × Rat :=
  let a00 := v1.x - v0.x
  let a01 := v2.x - v0.x
  let a02 := v3.x - v0.x
  let a10 := v1.y - v0.y
  let a11 := v2.y - v0.y
  let a12 := v3.y - v0.y
  let a20 := v1.z - v0.z
  let a21 := v2.z - v0.z
  let a22 := v3.z - v0.z
  let d := a00 * (a11 * a22 - a12 * a21) - a01 * (a10 * a22 - a12 * a20)
    + a02 * (a10 * a21 - a11 * a20)
  let i00 := (-a12 * a21 + a11 * a22) / d
  let i10 := (a12 * a20 - a10 * a22) / d
  let i20 := (-a11 * a20 + a10 * a21) / d
  let i01 := (a02 * a21 - a01 * a22) / d
  let i11 := (-a02 * a20 + a00 * a22) / d
  let i21 := (a01 * a20 - a00 * a21) / d
  let i02 := (-a02 * a11 + a01 * a12) / d
  let i12 := (a02 * a10 - a00 * a12) / d
  let i22 := (-a01 * a10 + a00 * a11) / d
  let y0 := x.x - v0.x
  let y1 := x.y - v0.y
  let y2 := x.z - v0.z
  (i00 * y0 + i01 * y1 + i02 * y2, i10 * y0 + i11 * y1 + i12 * y2,
    i20 * y0 + i21 * y1 + i22 * y2)

/-- the inside test of `MeshTet1.element_finder` -/
def insideTet (eps : Rat) (v0 v1 v2 v3 x : P3) : Bool :=
  let X := invF3 v0 v1 v2 v3 x
  decide (-eps ≤ X.1) && decide (-eps ≤ X.2.1) && decide (-eps ≤ X.2.2)
    && decide (-eps ≤ 1 - X.1 - X.2.1 - X.2.2)

/-! ### (c) the 1-D finder -/

/-- insert a vertex index into a list of indices ordered by coordinate (stable) -/
def insertByKey (p : Nat → Rat) (v : Nat) : List Nat → List Nat
  | [] => [v]
  | u :: us => if p v < p u then v :: u :: us else u :: insertByKey p v us

/-- `np.argsort(p[0])` (stable insertion sort; the property assumes distinct coordinates) -/
def argsortKey (p : Nat → Rat) (nv : Nat) : List Nat :=
  (List.range nv).foldr (fun v acc => insertByKey p v acc) []

/-- `np.digitize(x, bins)` for increasing `bins`: the `i` with `bins[i-1] <= x < bins[i]` -/
def digitize (bins : List Rat) (x : Rat) : Nat := bins.countP (fun b => decide (b ≤ x))

/-- `np.digitize(x, bins, right=True)`: the `i` with `bins[i-1] < x <= bins[i]` -/
def digitizeRight (bins : List Rat) (x : Rat) : Nat := bins.countP (fun b => decide (b < x))

/-- `maxt[k] = t[argmax(p[0, t[:, k]]), k]`: the vertex of cell `k` with the larger coordinate
    (`argmax` takes the first of equal ones) -/
def maxVertex (p : Nat → Rat) (c : Nat × Nat) : Nat := if p c.2 ≤ p c.1 then c.1 else c.2

def minVertex (p : Nat → Rat) (c : Nat × Nat) : Nat := if p c.2 ≤ p c.1 then c.2 else c.1

/-- the cells whose larger vertex is `v`; `none` stands for the sentinel `-1` -/
def cellsWithMax (p : Nat → Rat) (t : List (Nat × Nat)) (v : Option Nat) : List Nat :=
  match v with
  | none => []
  | some v => (List.range t.length).filter (fun k => maxVertex p (t.getD k (0, 0)) == v)

/-- one query point of the repaired `MeshLine1.element_finder`: the later write wins in
    `elems[pts] = cells`, the pass `right=False` is written last -/
def lineLocate (p : Nat → Rat) (nv : Nat) (t : List (Nat × Nat)) (x : Rat) : Option Nat :=
  let ix := argsortKey p nv
  let bins := ix.map p
  let cR := cellsWithMax p t (ix[digitizeRight bins x]?)
  let cL := cellsWithMax p t (ix[digitize bins x]?)
  match cL.getLast? with
  | some k => some k
  | none => cR.getLast?

/-- the repaired finder: `none` = raises -/
def lineFinder (p : Nat → Rat) (nv : Nat) (t : List (Nat × Nat)) (xs : List Rat) :
    Option (List Nat) :=
  let r := xs.map (lineLocate p nv t)
  if r.all Option.isSome then some (r.map (fun o => o.getD 0)) else none

/-- the finder of the pinned tree: only the global right end point is moved inside, the cells of
    all points are concatenated (`np.nonzero(...)[1]`) and only the total count is checked;
    an index beyond the last vertex is an `IndexError` (also `none`) -/
def lineFinderOld (p : Nat → Rat) (nv : Nat) (t : List (Nat × Nat)) (xs : List Rat) :
    Option (List Nat) :=
  let ix := argsortKey p nv
  let bins := ix.map p
  let last := bins.getD (nv - 1) 0
  let prev := bins.getD (nv - 2) 0
  let xin := xs.map (fun x => if x = last then (prev + last) / 2 else x)
  let d := xin.map (digitize bins)
  if d.any (fun i => decide (nv ≤ i)) then none
  else
    let elems := d.flatMap (fun i => cellsWithMax p t (ix[i]?))
    if elems.length < xs.length then none else some elems

/-! ### (d) the split trick -/

/-- `np.hstack([t[tmpl_0], t[tmpl_1], ...])` : column `b * nt + k` holds the vertices
    `tmpl_b` of cell `k`; cells are given as a function `cell → local index → vertex` -/
def splitCells (tmpl : List (List Nat)) (nt : Nat) (t : Nat → Nat → Nat) : List (List Nat) :=
  tmpl.flatMap (fun tm => (List.range nt).map (fun k => tm.map (fun i => t k i)))

def quadToTri : List (List Nat) := [[0, 1, 3], [1, 2, 3]]

def hexToTet : List (List Nat) :=
  [[0, 1, 3, 4], [0, 3, 2, 4], [2, 3, 4, 6], [3, 4, 6, 7], [3, 4, 5, 7], [1, 3, 4, 5]]

def wedgeToTet : List (List Nat) := [[0, 1, 2, 3], [1, 2, 3, 4], [2, 3, 4, 5]]

/-! ### (e) `CellBasis.probes` -/

section Probes
variable {K : Type}

/-- `np.tile(l, n)` -/
def tile {α : Type} (l : List α) (n : Nat) : List α := (List.range n).flatMap (fun _ => l)

/-- `phis = np.array([gbasis(..., k, tind=cells)[0] for k in range(Nbfun)]).flatten()` where the
    value of basis function `k` has shape `(comp…, npts, 1)`: `phi k c p` is component `c`
    (C-order flat index of the tensor components) of function `k` of the cell located for
    point `p`, evaluated at point `p` -/
def probePhis (Nbfun comp npts : Nat) (phi : Nat → Nat → Nat → K) : List K :=
  (List.range Nbfun).flatMap (fun k => (List.range comp).flatMap (fun c =>
    (List.range npts).map (fun p => phi k c p)))

/-- `rows = np.tile(np.arange(comp * npts), Nbfun)` -/
def probeRows (Nbfun comp npts : Nat) : List Nat := tile (List.range (comp * npts)) Nbfun

/-- `cols = element_dofs[:, np.tile(cells, comp)].flatten()` -/
def probeCols (Nbfun comp : Nat) (cells : List Nat) (dofs : Nat → Nat → Nat) : List Nat :=
  (List.range Nbfun).flatMap (fun k => (tile cells comp).map (fun cell => dofs k cell))

/-- the COO triplets `(row, col, value)` handed to `coo_matrix` -/
def probeTriplets (Nbfun comp : Nat) (cells : List Nat) (dofs : Nat → Nat → Nat)
    (phi : Nat → Nat → Nat → K) : List (Nat × Nat × K) :=
  (probeRows Nbfun comp cells.length).zip
    ((probeCols Nbfun comp cells dofs).zip (probePhis Nbfun comp cells.length phi))

/-- flat index of the tensor component `(i, j)` of a value of shape `(d1, d2, npts)` in C order,
    as used by `out.reshape(self._base_tensor_order + (npts,))` -/
def tensorRow (d2 npts i j p : Nat) : Nat := (i * d2 + j) * npts + p

end Probes

/-! ### the table cache of `ElementLinePp.lbasis` (defect F8, met through `probes`) -/

/-- `lbasis` keeps the Legendre tables of the points `cacheX` and re-evaluates only when `key`
    says the new points differ; `f` stands for the evaluation of one table entry at one point -/
def cachedTable (key : List Rat → List Rat → Bool) (f : Rat → Rat) (cacheX X : List Rat) : List Rat :=
  if key cacheX X then cacheX.map f else X.map f

/-- the repaired key: compare the points -/
def keyPoints (a b : List Rat) : Bool := a == b

/-- the key of the pinned tree: compare the NUMBER of points -/
def keyCount (a b : List Rat) : Bool := a.length == b.length

end Skv.Find
