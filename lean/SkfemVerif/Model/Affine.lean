import SkfemVerif.Gen.AffineFormulas
/-
E-geo: reference maps of scikit-fem (skfem/mapping/mapping_affine.py, mapping_isoparametric.py).

Core Lean only (linked into the driver).  Every function is generic in the number type `K`
(executable on `Rat`, provable over a field).  The closed-form blocks (A, b, det, inverse, B, c,
surface-factor radicand, adjugate formulas, shape functions, reference tables) are NOT written here:
they come from `Gen/AffineFormulas.lean`, which is regenerated from the live source on every run.

Conventions.  Vectors are `Nat → K`, matrices `Nat → Nat → K` (row, column); a cell is given by its
nodes `v : Nat → Nat → K`, `v k i` = coordinate `i` of local node `k` (`= p[i, t[k, cell]]`), a facet
likewise by `w k i = p[i, facets[k, facet]]`.
-/
namespace Skv.Map
open Skv.Gen.Map

section
variable {K : Type} [Add K] [Sub K] [Mul K] [Neg K] [Div K] [Zero K] [One K]

/-- `Σ_{i<n} f i` -/
def sumN (n : Nat) (f : Nat → K) : K := (List.range n).foldl (fun acc i => acc + f i) 0

/-- integer table entry as an element of `K` -/
def ofInt (z : Int) : K := if z < 0 then -(nat z.natAbs) else nat z.natAbs

/-- entry `(i, j)` of an integer table (0 outside) -/
def tabEntry (t : List (List Int)) (i j : Nat) : K := ofInt ((t.getD i []).getD j 0)

def dot (d : Nat) (a b : Nat → K) : K := sumN d (fun i => a i * b i)

/-- `A @ X` for a `d × c` matrix -/
def mulVec (c : Nat) (A : Nat → Nat → K) (X : Nat → K) : Nat → K := fun i => sumN c (fun j => A i j * X j)

/-- `A @ B` for `A : · × c` -/
def mulMat (c : Nat) (A B : Nat → Nat → K) : Nat → Nat → K := fun i j => sumN c (fun k => A i k * B k j)

/-! ### dimension dispatch of the generated closed forms -/

def affDet (d : Nat) (A : Nat → Nat → K) : K :=
  match d with
  | 1 => affDet1 A
  | 2 => affDet2 A
  | 3 => affDet3 A
  | _ => 0

def affInv (d : Nat) (A : Nat → Nat → K) : Nat → Nat → K :=
  match d with
  | 1 => affInv1 A
  | 2 => affInv2 A
  | 3 => affInv3 A
  | _ => fun _ _ => 0

/-- radicand of `detB` -/
def affSurfSq (d : Nat) (B : Nat → Nat → K) : K :=
  match d with
  | 1 => affSurfSq1 B
  | 2 => affSurfSq2 B
  | 3 => affSurfSq3 B
  | _ => 0

def affNref (d : Nat) : List (List Int) :=
  match d with
  | 1 => affNref1
  | 2 => affNref2
  | 3 => affNref3
  | _ => []

def isoDet (d : Nat) (J : Nat → Nat → K) : K :=
  match d with
  | 1 => isoDet1 J
  | 2 => isoDet2 J
  | 3 => isoDet3 J
  | _ => 0

def isoInv (d : Nat) (J : Nat → Nat → K) : Nat → Nat → K :=
  match d with
  | 1 => isoInv1 J
  | 2 => isoInv2 J
  | 3 => isoInv3 J
  | _ => fun _ _ => 0

/-- radicand of `MappingIsoparametric.detDG` (dimension 1 raises in the code) -/
def isoSurfSq (d : Nat) (B : Nat → Nat → K) : K :=
  match d with
  | 2 => isoSurfSq2 B
  | 3 => isoSurfSq3 B
  | _ => 0

/-! ### `MappingAffine` -/

/-- `F(X) = A X + b` (`np.einsum('ijk,jl', A, X) + b`) -/
def affF (d : Nat) (A : Nat → Nat → K) (b : Nat → K) (X : Nat → K) : Nat → K :=
  fun i => mulVec d A X i + b i

/-- `invF(x) = invA (x - b)` -/
def affInvF (d : Nat) (invA : Nat → Nat → K) (b : Nat → K) (x : Nat → K) : Nat → K :=
  mulVec d invA (fun j => x j - b j)

/-- `G(s) = B s + c`, `B : d × (d-1)` -/
def affG (d : Nat) (B : Nat → Nat → K) (c : Nat → K) (s : Nat → K) : Nat → K :=
  fun i => mulVec (d - 1) B s i + c i

/-- the cell map of a simplex with nodes `v` -/
def cellF (d : Nat) (v : Nat → Nat → K) (X : Nat → K) : Nat → K := affF d (affA v) (affb v) X

def cellInvF (d : Nat) (v : Nat → Nat → K) (x : Nat → K) : Nat → K :=
  affInvF d (affInv d (affA v)) (affb v) x

/-- the facet map of a facet with nodes `w` -/
def facetG (d : Nat) (w : Nat → Nat → K) (s : Nat → K) : Nat → K := affG d (affB w) (affc w) s

/-! ### normals (both implementations): `n = einsum('ijkl,ik->jkl', invDF, N)`, then `n / |n|` -/

/-- the contraction of `invDF` with the reference normal; `transposed` is read off the einsum string
    of the live source -/
def rawNormal (transposed : Bool) (d : Nat) (invDF : Nat → Nat → K) (N : Nat → K) : Nat → K :=
  fun j => sumN d (fun i => (if transposed then invDF i j else invDF j i) * N i)

/-- squared length of the raw normal (the argument of the square root) -/
def lenSq (d : Nat) (n : Nat → K) : K := dot d n n

/-- delivered normal given the value `len` of the square root: `n * (1 / len)` -/
def delivered (n : Nat → K) (len : K) : Nat → K := fun j => n j * (1 / len)

/-- raw normal of local facet `i` of an affine simplex cell with nodes `v` -/
def affRawNormal (d : Nat) (v : Nat → Nat → K) (i : Nat) : Nat → K :=
  rawNormal affNormalTransposed d (affInv d (affA v)) (fun j => tabEntry (affNref d) i j)

/-! ### `MappingIsoparametric`: `F_i = Σ_k p[i, t[k]] φ_k(X)`, `J_ij = Σ_k p[i, t[k]] ∂_j φ_k(X)` -/

def isoF (n : Nat) (phi : Nat → (Nat → K) → K) (v : Nat → Nat → K) (X : Nat → K) : Nat → K :=
  fun i => sumN n (fun k => v k i * phi k X)

def isoJ (n : Nat) (dphi : Nat → Nat → (Nat → K) → K) (v : Nat → Nat → K) (X : Nat → K) :
    Nat → Nat → K :=
  fun i j => sumN n (fun k => v k i * dphi k j X)

/-- raw normal of local facet `i` for the reference-normal table `tab` and Jacobian `J` -/
def isoRawNormal (d : Nat) (tab : List (List Int)) (J : Nat → Nat → K) (i : Nat) : Nat → K :=
  rawNormal isoNormalTransposed d (isoInv d J) (fun j => tabEntry tab i j)

/-- reference point of a reference cell: vertex `k` of the table `P` -/
def refVertex (P : List (List Int)) (k : Nat) : Nat → K := fun i => tabEntry P k i

/-! ### reference facet parametrisations (specification side of the facet-map theorems) -/

/-- the affine parametrisation of a facet of the reference simplex by the vertices `loc 0, …, loc (d-1)`
    (cell-local numbers of the facet's vertices, in the order in which `facets[:, f]` lists them) -/
def gammaSimplex (P : List (List Int)) (d : Nat) (loc : Nat → Nat) (s : Nat → K) : Nat → K :=
  fun j => refVertex P (loc 0) j
    + sumN (d - 1) (fun k => s k * (refVertex P (loc (k + 1)) j - refVertex P (loc 0) j))

/-- reference facet parametrisation with the facet's own first-order shape functions `psi` through the
    reference vertices `loc 0, loc 1, …` -/
def gammaIso (P : List (List Int)) (n : Nat) (psi : Nat → (Nat → K) → K) (loc : Nat → Nat)
    (s : Nat → K) : Nat → K :=
  fun j => sumN n (fun k => refVertex P (loc k) j * psi k s)

end

/-- the eight ways of listing the vertices of a square in cyclic order -/
def squareSyms : List (List Nat) :=
  [[0, 1, 2, 3], [1, 2, 3, 0], [2, 3, 0, 1], [3, 0, 1, 2],
   [3, 2, 1, 0], [2, 1, 0, 3], [1, 0, 3, 2], [0, 3, 2, 1]]


/-- the six ways of listing the vertices of a triangle -/
def perms3 : List (List Nat) := [[0, 1, 2], [0, 2, 1], [1, 0, 2], [1, 2, 0], [2, 0, 1], [2, 1, 0]]

/-! ### shape-function families by name (for the driver) -/

structure Family (K : Type) where
  n : Nat
  phi : Nat → (Nat → K) → K
  dphi : Nat → Nat → (Nat → K) → K

section
variable {K : Type} [Add K] [Sub K] [Mul K] [Neg K] [Div K] [Zero K] [One K]

def family? (name : String) : Option (Family K) :=
  match name with
  | "lineP1" => some ⟨lineP1N, lineP1Phi, lineP1DPhi⟩
  | "triP1" => some ⟨triP1N, triP1Phi, triP1DPhi⟩
  | "tetP1" => some ⟨tetP1N, tetP1Phi, tetP1DPhi⟩
  | "quad1" => some ⟨quad1N, quad1Phi, quad1DPhi⟩
  | "hex1" => some ⟨hex1N, hex1Phi, hex1DPhi⟩
  | "lineP2" => some ⟨lineP2N, lineP2Phi, lineP2DPhi⟩
  | "triP2" => some ⟨triP2N, triP2Phi, triP2DPhi⟩
  | "tetP2" => some ⟨tetP2N, tetP2Phi, tetP2DPhi⟩
  | "wedge1" => some ⟨wedge1N, wedge1Phi, wedge1DPhi⟩
  | _ => none

end

def refNormals? (name : String) : Option (List (List Int)) :=
  match name with
  | "Line" => some refLineNormals
  | "Tri" => some refTriNormals
  | "Tet" => some refTetNormals
  | "Quad" => some refQuadNormals
  | "Hex" => some refHexNormals
  | "Wedge" => some refWedgeNormals
  | _ => none

/-! ### output sizing of `Fmap/_J/bndmap/bndJ` (F16) and the Jacobian cache key (F11) -/

/-- `shape[k]` with Python's negative indexing -/
def pyIndex (shape : List Nat) (k : Int) : Option Nat :=
  if k ≥ 0 then shape[k.toNat]? else
    if k.natAbs ≤ shape.length then shape[shape.length - k.natAbs]? else none

/-- number of columns the code allocates for `out` when the point array has shape `shapeX`
    and the axis constant in the source is `k` -/
def outCols (k : Int) (shapeX : List Nat) : Option Nat := pyIndex shapeX k

/-- NumPy broadcasting of `out (rows × cols) += col[:, None] (rows × 1) * phi`; `phi` has the shape of
    `X[0]`: `(npts)` for shared points, `(ncells, npts)` for per-cell points -/
def broadcastsInto (rows cols : Nat) (phiShape : List Nat) : Bool :=
  match phiShape with
  | [n] => n == cols || n == 1
  | [m, n] => (m == rows || m == 1) && (n == cols || n == 1)
  | _ => false

/-- an ndarray as seen by `hash_args`: shape, dtype string, raw bytes -/
structure Arr where
  shape : List Nat
  dtype : String
  bytes : List Nat
deriving DecidableEq, Repr

/-- the cache key component for an array, given the list of attributes the source hashes -/
def arrKey (fields : List String) (a : Arr) : List (String × List Nat × String) :=
  fields.map (fun f =>
    if f == "shape" then (f, a.shape, "")
    else if f == "dtype" then (f, [], a.dtype)
    else if f == "tobytes" then (f, a.bytes, "")
    else (f, [], ""))

/-- little-endian bytes of a non-negative integer on `w` bytes -/
def leBytes (w : Nat) (n : Nat) : List Nat := (List.range w).map (fun i => n / 256 ^ i % 256)

/-- a 1-D integer array of the given item size -/
def intArr (itemsize : Nat) (vals : List Nat) : Arr :=
  { shape := [vals.length], dtype := s!"<i{itemsize}", bytes := vals.flatMap (leBytes itemsize) }

end Skv.Map
