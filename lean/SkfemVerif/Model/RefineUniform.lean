import SkfemVerif.Model.Topology
/-
E-ref (uniform part): `Mesh.refined(k)` for an integer `k` and the `_uniform` methods of
`MeshLine1`, `MeshTri1`, `MeshQuad1`, `MeshTet1`, `MeshHex1` (skfem/mesh/*.py).

Core Lean only (linked into the driver).  Conventions as in Model/Topology.lean: the
connectivity `t` is given cell-wise (`cells[k]` = column `k`), the tables `t2f`, `t2e`
slot-wise (`t2f[j][k]`), the point array `p` point-wise (`p[v]` = column `v`, exact rationals).

A child cell is a *word* over the entities of its parent (`Src`): a parent vertex, the midpoint
of a parent edge / facet, or the midpoint of the parent.  The code's numbering of the new
vertices (`sz + t2f`, `sz + t2e`, `t2f + max(t2e) + 1`, `arange(nt) + max(..) + 1`) is `Env.num`,
the layout of the children in the new `t` (`np.hstack` of blocks, interleaved for segments,
grouped by the chosen diagonal for tetrahedra) is a list of pairs (parent, word).
-/
namespace Skv.Refine
open Skv

/-! ### reference tables (skfem/refdom.py; compared with the live tables on every run) -/

def lineFacets : List (List Nat) := [[0], [1]]
def triFacets : List (List Nat) := [[0, 1], [1, 2], [0, 2]]
def quadFacets : List (List Nat) := [[0, 1], [1, 2], [2, 3], [0, 3]]
def tetFacets : List (List Nat) := [[0, 1, 2], [0, 1, 3], [0, 2, 3], [1, 2, 3]]
def tetEdges : List (List Nat) := [[0, 1], [1, 2], [0, 2], [0, 3], [1, 3], [2, 3]]
def hexFacets : List (List Nat) :=
  [[0, 1, 4, 2], [0, 2, 6, 3], [0, 3, 5, 1], [2, 4, 7, 6], [1, 5, 7, 4], [3, 6, 7, 5]]
def hexEdges : List (List Nat) :=
  [[0, 1], [0, 2], [0, 3], [1, 4], [1, 5], [2, 4], [2, 6], [3, 5], [3, 6], [4, 7], [5, 7], [6, 7]]

/-- reference coordinates of the local vertices (`RefQuad.p`, `RefHex.p`) -/
def quadRefP : List (List Rat) := [[0, 0], [1, 0], [1, 1], [0, 1]]
def hexRefP : List (List Rat) :=
  [[1, 1, 1], [1, 1, 0], [1, 0, 1], [0, 1, 1], [1, 0, 0], [0, 1, 0], [0, 0, 1], [0, 0, 0]]

/-! ### words and numbering -/

/-- a vertex of a child cell, named relative to the parent cell -/
inductive Src where
  | v (i : Nat)   -- local vertex `i` of the parent
  | e (j : Nat)   -- midpoint of the parent's local edge `j`
  | f (j : Nat)   -- midpoint of the parent's local facet `j`
  | c             -- midpoint of the parent
  deriving DecidableEq, Repr, Inhabited

abbrev Template := List (List Src)

/-- numbering environment of one refinement step -/
structure Env where
  cells : List (List Nat)
  t2e : List (List Nat) := []
  t2f : List (List Nat) := []
  ebase : Nat := 0      -- number of the midpoint of edge 0
  fbase : Nat := 0      -- number of the midpoint of facet 0
  cbase : Nat := 0      -- number of the midpoint of cell 0

/-- global vertex number of word `w` in cell `k` -/
def Env.num (E : Env) (k : Nat) : Src → Nat
  | .v i => (E.cells.getD k []).getD i 0
  | .e j => E.ebase + (E.t2e.getD j []).getD k 0
  | .f j => E.fbase + (E.t2f.getD j []).getD k 0
  | .c => E.cbase + k

/-- a layout: for every new cell its parent and its word -/
abbrev Layout := List (Nat × List Src)

def Env.realize (E : Env) (L : Layout) : List (List Nat) :=
  L.map (fun kw => kw.2.map (E.num kw.1))

/-- `np.hstack((block_0, block_1, …))`: child `i` of cell `k` is column `i * nt + k` -/
def blockLayout (nt : Nat) (T : Template) : Layout :=
  T.flatMap (fun w => (List.range nt).map (fun k => (k, w)))

/-- `newt[:, ::2]`, `newt[:, 1::2]` (segments): the children of cell `k` are `2k`, `2k+1` -/
def interleavedLayout (nt : Nat) (T : Template) : Layout :=
  (List.range nt).flatMap (fun k => T.map (fun w => (k, w)))

/-! ### templates (transcribed from the `_uniform` methods) -/

def lineT : Template := [[.v 0, .c], [.c, .v 1]]

def triT : Template :=
  [[.v 0, .f 0, .f 2], [.v 1, .f 0, .f 1], [.v 2, .f 2, .f 1], [.f 0, .f 1, .f 2]]

def quadT : Template :=
  [[.v 0, .f 0, .c, .f 3], [.f 0, .v 1, .f 1, .c], [.c, .f 1, .v 2, .f 2], [.f 3, .c, .f 2, .v 3]]

def tetCornerT : Template :=
  [[.v 0, .e 0, .e 2, .e 3], [.v 1, .e 0, .e 1, .e 4], [.v 2, .e 1, .e 2, .e 5],
   [.v 3, .e 3, .e 4, .e 5]]

/-- the four inner children for diagonal choice 0 (`c1`, diagonal [2,4]), 1 (`c2`, [1,3]),
    2 (`c3`, [0,5]); `tetMidT ch r` is row `r` of the code's inner blocks -/
def tetMidT : Nat → Template
  | 0 => [[.e 2, .e 4, .e 0, .e 1], [.e 2, .e 4, .e 0, .e 3], [.e 2, .e 4, .e 1, .e 5],
          [.e 2, .e 4, .e 3, .e 5]]
  | 1 => [[.e 1, .e 3, .e 0, .e 4], [.e 1, .e 3, .e 4, .e 5], [.e 1, .e 3, .e 5, .e 2],
          [.e 1, .e 3, .e 2, .e 0]]
  | _ => [[.e 0, .e 5, .e 1, .e 4], [.e 0, .e 5, .e 4, .e 3], [.e 0, .e 5, .e 3, .e 2],
          [.e 0, .e 5, .e 2, .e 1]]

def hexT : Template :=
  [[.v 0, .e 0, .e 1, .e 2, .f 0, .f 2, .f 1, .c],
   [.e 0, .v 1, .f 0, .f 2, .e 3, .e 4, .c, .f 4],
   [.e 1, .f 0, .v 2, .f 1, .e 5, .c, .e 6, .f 3],
   [.e 2, .f 2, .f 1, .v 3, .c, .e 7, .e 8, .f 5],
   [.f 0, .e 3, .e 5, .c, .v 4, .f 4, .f 3, .e 9],
   [.f 2, .e 4, .c, .e 7, .f 4, .v 5, .f 5, .e 10],
   [.f 1, .c, .e 6, .e 8, .f 3, .f 5, .v 6, .e 11],
   [.c, .f 4, .f 3, .f 5, .e 9, .e 10, .e 11, .v 7]]

/-! ### tetrahedra: choice of the inner diagonal -/

/-- the masks `c1, c2, c3` of one cell from the three squared (projected) diagonal lengths:
    `I1 = d1 < d2`, `I2 = d1 < d3`, `I3 = d2 < d3`, `c1 = I1*I2`, `c2 = ~I1*I3`, `c3 = ~I2*~I3` -/
def tetMasks (d1 d2 d3 : Rat) : Bool × Bool × Bool :=
  let I1 := decide (d1 < d2)
  let I2 := decide (d1 < d3)
  let I3 := decide (d2 < d3)
  (I1 && I2, !I1 && I3, !I2 && !I3)

/-- cells selected by a boolean mask, ascending (`t2e[j, c]`) -/
def masked (mask : List Bool) : List Nat :=
  (List.range mask.length).filter (fun k => mask.getD k false)

/-- layout of `MeshTet1._uniform`: four corner blocks, then for each of the four rows of inner
    children the cells of `c1`, of `c2`, of `c3` -/
def tetLayout (nt : Nat) (c1 c2 c3 : List Bool) : Layout :=
  blockLayout nt tetCornerT ++
  (List.range 4).flatMap (fun r =>
    (masked c1).map (fun k => (k, (tetMidT 0).getD r [])) ++
    (masked c2).map (fun k => (k, (tetMidT 1).getD r [])) ++
    (masked c3).map (fun k => (k, (tetMidT 2).getD r [])))

/-! ### points -/

abbrev Pt := List Rat

def addPt (a b : Pt) : Pt := List.zipWith (· + ·) a b

/-- sum of points of dimension `d` -/
def sumPts (d : Nat) (l : List Pt) : Pt := l.foldr addPt (List.replicate d 0)

def scalePt (s : Rat) (a : Pt) : Pt := a.map (s * ·)

/-- `p[:, ix].mean(axis=1)` for one entity (`d` = number of coordinates) -/
def meanPts (d : Nat) (l : List Pt) : Pt := scalePt (1 / (l.length : Rat)) (sumPts d l)

def gather (p : List Pt) (ix : List Nat) : List Pt := ix.map (fun v => p.getD v [])

/-- midpoints of a list of entities (columns of `facets` / `edges` / `t`) -/
def midpoints (d : Nat) (p : List Pt) (ents : List (List Nat)) : List Pt :=
  ents.map (fun ent => meanPts d (gather p ent))

/-! ### mesh data and the `_uniform` methods -/

inductive Kind where
  | line | tri | quad | tet | hex
  deriving DecidableEq, Repr

def Kind.dim : Kind → Nat
  | .line => 1 | .tri => 2 | .quad => 2 | .tet => 3 | .hex => 3

/-- children per cell -/
def Kind.nchild : Kind → Nat
  | .line => 2 | .tri => 4 | .quad => 4 | .tet => 8 | .hex => 8

def Kind.facets : Kind → List (List Nat)
  | .line => lineFacets | .tri => triFacets | .quad => quadFacets | .tet => tetFacets
  | .hex => hexFacets

/-- `_boundaries` / `_subdomains`: `none` = Python `None`; names are irrelevant, the index arrays
    are kept in dictionary order -/
structure MeshData where
  p : List Pt
  cells : List (List Nat)
  sortT : Bool := false
  bnd : Option (List (List Nat)) := none
  sub : Option (List (List Nat)) := none

/-- `__post_init__`: `if self.sort_t: self.t = np.sort(self.t, axis=0)` -/
def postInit (sortT : Bool) (cells : List (List Nat)) : List (List Nat) :=
  if sortT then cells.map sortCol else cells

/-! #### generic subdomain propagation of `Mesh.refined` -/

/-- `np.sort(new_t[:, ixs].flatten())` with `new_t[i] = arange(nt) + i * nt`, `i < N` -/
def genericSub (N nt : Nat) (ixs : List Nat) : List Nat :=
  sortCol ((List.range N).flatMap (fun i => ixs.map (fun k => k + i * nt)))

/-- segments (repaired code): `np.sort(np.concatenate((2 * ixs, 2 * ixs + 1)))` -/
def lineSub (ixs : List Nat) : List Nat :=
  sortCol (ixs.map (fun k => 2 * k) ++ ixs.map (fun k => 2 * k + 1))

/-- number of selected cells before `k` (`np.arange(n)` scattered to the mask positions) -/
def rankIn (mask : List Bool) (k : Nat) : Nat :=
  ((List.range k).filter (fun i => mask.getD i false)).length

def countTrue (mask : List Bool) : Nat := (masked mask).length

/-- position of cell `k` inside each of the inner blocks (`new_t[4 + r, k] - (4 + r) * nt`);
    the assignments for `c1`, `c2`, `c3` are executed in this order, later ones win;
    `none`: never assigned (the entry stays `0`) -/
def tetOff (c1 c2 c3 : List Bool) (k : Nat) : Option Nat :=
  if c3.getD k false then some (countTrue c1 + countTrue c2 + rankIn c3 k)
  else if c2.getD k false then some (countTrue c1 + rankIn c2 k)
  else if c1.getD k false then some (rankIn c1 k)
  else none

/-- the table `new_t` of `MeshTet1._uniform` (8 rows) -/
def tetNewT (nt : Nat) (c1 c2 c3 : List Bool) : List (List Nat) :=
  (List.range 4).map (fun i => (List.range nt).map (fun k => k + i * nt)) ++
  (List.range 4).map (fun r => (List.range nt).map (fun k =>
    match tetOff c1 c2 c3 k with
    | some o => o + (4 + r) * nt
    | none => 0))

def tetSub (nt : Nat) (c1 c2 c3 : List Bool) (ixs : List Nat) : List Nat :=
  sortCol ((tetNewT nt c1 c2 c3).flatMap (fun row => ixs.map (fun k => row.getD k 0)))

/-! #### boundary propagation (triangles, quadrilaterals) -/

/-- sequential scatter `a[pos] = val` (repeated positions: the last write wins) -/
def scatter (init : List Nat) (writes : List (Nat × Nat)) : List Nat :=
  writes.foldl (fun a w => a.set w.1 w.2) init

/-- one statement `new_facets[r, t2f[s]] = m.t2f[s', ix_blk]` as a list of writes -/
def stmt (nt : Nat) (t2f t2f' : List (List Nat)) (s s' blk : Nat) : List (Nat × Nat) :=
  (List.range nt).map (fun k => ((t2f.getD s []).getD k 0, (t2f'.getD s' []).getD (blk * nt + k) 0))

/-- the two rows of `new_facets` in `MeshTri1._uniform`; `t2f'` is the table of the refined mesh -/
def triNewFacets (nt nf : Nat) (t2f t2f' : List (List Nat)) : List Nat × List Nat :=
  (scatter (List.replicate nf 0) (stmt nt t2f t2f' 2 2 0 ++ stmt nt t2f t2f' 1 2 1 ++ stmt nt t2f t2f' 0 0 0),
   scatter (List.replicate nf 0) (stmt nt t2f t2f' 2 0 2 ++ stmt nt t2f t2f' 1 2 2 ++ stmt nt t2f t2f' 0 0 1))

/-- … in `MeshQuad1._uniform` -/
def quadNewFacets (nt nf : Nat) (t2f t2f' : List (List Nat)) : List Nat × List Nat :=
  (scatter (List.replicate nf 0) (stmt nt t2f t2f' 0 0 0 ++ stmt nt t2f t2f' 1 1 1 ++
      stmt nt t2f t2f' 2 2 2 ++ stmt nt t2f t2f' 3 3 3),
   scatter (List.replicate nf 0) (stmt nt t2f t2f' 0 0 1 ++ stmt nt t2f t2f' 1 1 2 ++
      stmt nt t2f t2f' 2 2 3 ++ stmt nt t2f t2f' 3 3 0))

/-- `np.sort(new_facets[:, ixs].flatten())` -/
def boundarySub (nf : List Nat × List Nat) (ixs : List Nat) : List Nat :=
  sortCol (ixs.map (fun f => nf.1.getD f 0) ++ ixs.map (fun f => nf.2.getD f 0))

/-! #### the five `_uniform` methods -/

def Kind.edges : Kind → List (List Nat)
  | .tet => tetEdges | .hex => hexEdges | _ => []

/-- `(self.facets, self.t2f)`; hexahedra store the facets unsorted -/
def facetTable (kd : Kind) (m : MeshData) : List (List Nat) × List (List Nat) :=
  buildEntities m.cells kd.facets (kd != .hex)

/-- `(self.edges, self.t2e)` (three-dimensional cells only) -/
def edgeTable (kd : Kind) (m : MeshData) : List (List Nat) × List (List Nat) :=
  buildEntities m.cells kd.edges true

/-- numbering of the new vertices:
    `sz + arange(nt)` (line); `sz + t2f` (tri); `sz + t2f`, `arange(nt) + max(t2f) + sz + 1` (quad);
    `sz + t2e` (tet); `sz + t2e`, `t2f + max(t2e + sz) + 1`, `arange(nt) + max(..) + 1` (hex) -/
def envOf (kd : Kind) (m : MeshData) : Env :=
  let sz := m.p.length
  match kd with
  | .line => { cells := m.cells, t2f := (facetTable .line m).2, cbase := sz }
  | .tri => { cells := m.cells, t2f := (facetTable .tri m).2, fbase := sz }
  | .quad =>
    let t2f := (facetTable .quad m).2
    { cells := m.cells, t2f := t2f, fbase := sz, cbase := listMax t2f.flatten + sz + 1 }
  | .tet => { cells := m.cells, t2e := (edgeTable .tet m).2, ebase := sz }
  | .hex =>
    let t2f := (facetTable .hex m).2
    let t2e := (edgeTable .hex m).2
    { cells := m.cells, t2e := t2e, t2f := t2f, ebase := sz,
      fbase := listMax t2e.flatten + sz + 1,
      cbase := listMax t2f.flatten + (listMax t2e.flatten + sz + 1) + 1 }

/-- the points appended to `p` -/
def newPts (kd : Kind) (m : MeshData) : List Pt :=
  match kd with
  | .line => midpoints 1 m.p m.cells
  | .tri => midpoints 2 m.p (facetTable .tri m).1
  | .quad => midpoints 2 m.p (facetTable .quad m).1 ++ midpoints 2 m.p m.cells
  | .tet => midpoints 3 m.p (edgeTable .tet m).1
  | .hex => midpoints 3 m.p (edgeTable .hex m).1 ++ midpoints 3 m.p (facetTable .hex m).1 ++
      midpoints 3 m.p m.cells

/-- squared length of the projection to the first two coordinates of `a - b`
    (the code compares `newp[0]` and `newp[1]` only) -/
def dist2xy (a b : Pt) : Rat :=
  (a.getD 0 0 - b.getD 0 0) * (a.getD 0 0 - b.getD 0 0) +
  (a.getD 1 0 - b.getD 1 0) * (a.getD 1 0 - b.getD 1 0)

/-- masks `c1, c2, c3` of all cells -/
def tetMaskLists (newp : List Pt) (E : Env) (nt : Nat) : List Bool × List Bool × List Bool :=
  let ms := (List.range nt).map (fun k =>
    let q := fun j => newp.getD (E.num k (.e j)) []
    tetMasks (dist2xy (q 2) (q 4)) (dist2xy (q 1) (q 3)) (dist2xy (q 0) (q 5)))
  (ms.map (·.1), ms.map (·.2.1), ms.map (·.2.2))

def tetMasksOf (m : MeshData) : List Bool × List Bool × List Bool :=
  tetMaskLists (m.p ++ newPts .tet m) (envOf .tet m) m.cells.length

/-- parents and words of the new cells, in the order of the new `t` -/
def layoutOf (kd : Kind) (m : MeshData) : Layout :=
  let nt := m.cells.length
  match kd with
  | .line => interleavedLayout nt lineT
  | .tri => blockLayout nt triT
  | .quad => blockLayout nt quadT
  | .hex => blockLayout nt hexT
  | .tet =>
    let ms := tetMasksOf m
    tetLayout nt ms.1 ms.2.1 ms.2.2

/-- the new connectivity (before the `__post_init__` of the result) -/
def rawCells (kd : Kind) (m : MeshData) : List (List Nat) := (envOf kd m).realize (layoutOf kd m)

def newCells (kd : Kind) (m : MeshData) : List (List Nat) := postInit m.sortT (rawCells kd m)

/-- `_boundaries` of the result of `_uniform` -/
def bndOf (kd : Kind) (m : MeshData) : Option (List (List Nat)) :=
  let nt := m.cells.length
  match kd with
  | .line => m.bnd
  | .tri =>
    m.bnd.map (fun b =>
      let ft := facetTable .tri m
      let t2f' := (buildEntities (newCells .tri m) triFacets true).2
      let nf := triNewFacets nt ft.1.length ft.2 t2f'
      b.map (boundarySub nf))
  | .quad =>
    m.bnd.map (fun b =>
      let ft := facetTable .quad m
      let t2f' := (buildEntities (newCells .quad m) quadFacets true).2
      let nf := quadNewFacets nt ft.1.length ft.2 t2f'
      b.map (boundarySub nf))
  | .tet => none
  | .hex => none

/-- `_subdomains` of the result of `_uniform` -/
def subOf (kd : Kind) (m : MeshData) : Option (List (List Nat)) :=
  match kd with
  | .line => m.sub.map (fun s => s.map lineSub)
  | .tet => m.sub.map (fun s =>
      let ms := tetMasksOf m
      s.map (tetSub m.cells.length ms.1 ms.2.1 ms.2.2))
  | _ => none

def uniform (kd : Kind) (m : MeshData) : MeshData :=
  { m with p := m.p ++ newPts kd m, cells := newCells kd m, bnd := bndOf kd m, sub := subOf kd m }

/-- the pinned (defective) `MeshLine1._uniform`: `_subdomains=None`, left to the generic code -/
def uniformLineOld (m : MeshData) : MeshData :=
  { uniform .line m with sub := none }

/-! ### `Mesh.refined(k)` -/

/-- one pass of the loop in `Mesh.refined`: `_uniform`, then the generic subdomain propagation
    when the class did not provide one -/
def refinedOnceWith (u : MeshData → MeshData) (m : MeshData) : MeshData :=
  let mt := u m
  match m.sub, mt.sub with
  | some s, none =>
    let N := mt.cells.length / m.cells.length
    { mt with sub := some (s.map (genericSub N m.cells.length)) }
  | _, _ => mt

def refinedOnce (kd : Kind) : MeshData → MeshData := refinedOnceWith (uniform kd)

def refined (kd : Kind) : Nat → MeshData → MeshData
  | 0, m => m
  | n + 1, m => refined kd n (refinedOnce kd m)

/-- second-order classes: `Cls2.from_mesh(Cls1.from_mesh(self).refined())` on the vertex part;
    `from_mesh` forgets the tags (and, for triangles, `Cls1` has `sort_t=True`) -/
def uniformSecondOld (kd : Kind) (m : MeshData) : MeshData :=
  let m1 : MeshData := { p := m.p, cells := postInit (kd == .tri) m.cells, sortT := (kd == .tri) }
  let r := refinedOnce kd m1
  { p := r.p, cells := r.cells, sortT := m.sortT }

/-- repaired `MeshTet2._uniform`: the subdomains travel through the first-order mesh -/
def uniformSecond (kd : Kind) (m : MeshData) : MeshData :=
  let m1 : MeshData := { p := m.p, cells := postInit (kd == .tri) m.cells, sortT := (kd == .tri),
                         sub := if kd == .tet then m.sub else none }
  let r := refinedOnce kd m1
  { p := r.p, cells := r.cells, sortT := m.sortT, sub := r.sub }

def refinedSecond (kd : Kind) : Nat → MeshData → MeshData
  | 0, m => m
  | n + 1, m => refinedSecond kd n (refinedOnceWith (uniformSecond kd) m)

/-! ### parents (the layout's first components) -/

def parentsOf (kd : Kind) (m : MeshData) : List Nat := (layoutOf kd m).map (·.1)

end Skv.Refine
