import SkfemVerif.Model.Np
/-
E-io: the tag encoding used when a mesh is exported through meshio
(`Mesh._encode_cell_data` / `Mesh._decode_cell_data`, skfem/mesh/mesh.py), the hexahedron
vertex permutation of skfem/io/meshio.py and the high-order node re-ordering of
`Mesh.__post_init__`.  Core Lean only (linked into the driver).

Conventions.  `t2f : List (List Nat)` is the NumPy array `mesh.t2f` row by row (one row per
local facet slot, `nt` entries each); `f2t : List Int × List Int` are the two rows of
`mesh.f2t` (`-1` = no second neighbour), as produced by `Skv.buildInverse`.
-/
namespace Skv.MeshIO

/-- entry `t2f[r, c]` -/
def at2 (t2f : List (List Nat)) (r c : Nat) : Nat := (t2f.getD r []).getD c 0

/-- NumPy's wrap-around of a (possibly negative) index into an axis of length `n` -/
def wrapIdx (n : Nat) (i : Int) : Nat := if i < 0 then (i + n).toNat else i.toNat

/-- one entry of `columns = self.f2t[(b.ori, b)]`: the cell that owns facet `f` when its
    orientation flag is `o` (flag 0: first neighbour, flag 1: second neighbour) -/
def ownerCell (nt : Nat) (f2t : List Int × List Int) (o f : Nat) : Nat :=
  wrapIdx nt (if o = 0 then f2t.1.getD f 0 else f2t.2.getD f 0)

/-- the pairs `(b[k], columns[k])` -/
def ownerPairs (nt : Nat) (f2t : List Int × List Int) (fs ori : List Nat) : List (Nat × Nat) :=
  (fs.zip ori).map (fun fo => (fo.1, ownerCell nt f2t fo.2 fo.1))

/-- `t2f_mask[r, c]` after
    `r, c = np.nonzero(t2f[:, columns] == b); t2f_mask[(r, columns[c])] = 1` -/
def maskBit (t2f : List (List Nat)) (op : List (Nat × Nat)) (r c : Nat) : Bool :=
  op.any (fun fw => fw.2 == c && at2 t2f r c == fw.1)

/-- `(1 << np.arange(n)) @ column` : `Σ_r 2^r * bit_r` -/
def packBits : List Bool → Nat
  | [] => 0
  | b :: bs => b.toNat + 2 * packBits bs

/-- `encode_boundary(boundary)` of `Mesh._encode_cell_data`: one integer per cell -/
def encodeBoundary (t2f : List (List Nat)) (nt : Nat) (f2t : List Int × List Int)
    (fs ori : List Nat) : List Nat :=
  (List.range nt).map (fun c =>
    packBits ((List.range t2f.length).map (fun r => maskBit t2f (ownerPairs nt f2t fs ori) r c)))

/-! ### decoding -/

/-- `mask[r, c] = bool((1 << r) & data[c])` -/
def decMask (data : List Nat) (r c : Nat) : Bool := (data.getD c 0) &&& (1 <<< r) != 0

/-- `mask.nonzero()` : the `(slot, cell)` pairs with the bit set, in row-major order -/
def hits (nslots : Nat) (data : List Nat) : List (Nat × Nat) :=
  (List.range nslots).flatMap (fun r =>
    ((List.range data.length).filter (fun c => decMask data r c)).map (fun c => (r, c)))

/-- `(self.t2f[mask][k], mask.nonzero()[1][k])` : facet and the cell it was found in -/
def rawPairs (t2f : List (List Nat)) (data : List Nat) : List (Nat × Nat) :=
  (hits t2f.length data).map (fun rc => (at2 t2f rc.1 rc.2, rc.2))

def insertByFst (x : Nat × Nat) : List (Nat × Nat) → List (Nat × Nat)
  | [] => [x]
  | y :: ys => if x.1 ≤ y.1 then x :: y :: ys else y :: insertByFst x ys

/-- both arrays permuted by `np.argsort(first, kind='stable')` -/
def sortByFst (l : List (Nat × Nat)) : List (Nat × Nat) := l.foldr insertByFst []

/-- `(np.arange(2) @ (self.f2t[:, facets] == cells))[k]` -/
def oriFlag (f2t : List Int × List Int) (f c : Nat) : Nat :=
  0 * (if f2t.1.getD f 0 = (c : Int) then 1 else 0) + 1 * (if f2t.2.getD f 0 = (c : Int) then 1 else 0)

/-- repaired `_decode_cell_data` (one boundary): facets and owner cells are sorted with ONE
    permutation; returns `(facets, ori)` -/
def decodeBoundary (t2f : List (List Nat)) (f2t : List Int × List Int) (data : List Nat) :
    List Nat × List Nat :=
  let ps := sortByFst (rawPairs t2f data)
  (ps.map (·.1), ps.map (fun fc => oriFlag f2t fc.1 fc.2))

/-- the pinned `_decode_cell_data`: `facets = np.sort(t2f[mask])` but
    `cells = mask.nonzero()[1]` stays in row-major order (defect F4) -/
def decodeBoundaryOld (t2f : List (List Nat)) (f2t : List Int × List Int) (data : List Nat) :
    List Nat × List Nat :=
  let raw := rawPairs t2f data
  let facets := sortCol (raw.map (·.1))
  (facets, List.zipWith (oriFlag f2t) facets (raw.map (·.2)))

/-- `ori.any()` : the decoder returns an `OrientedBoundary` iff some flag is nonzero -/
def isOriented (ori : List Nat) : Bool := ori.any (· != 0)

/-! ### subdomains -/

/-- `np.isin(np.arange(nt), subdomain).astype(int)` -/
def encodeSub (nt : Nat) (s : List Nat) : List Nat :=
  (List.range nt).map (fun c => if s.contains c then 1 else 0)

/-- `np.nonzero(data)[0]` -/
def decodeSub (data : List Nat) : List Nat :=
  (List.range data.length).filter (fun c => data.getD c 0 != 0)

/-! ### hexahedron vertex permutation (skfem/io/meshio.py) -/

/-- `HEX_MAPPING` (compared with the live constant on every run) -/
def hexMapping : List Nat :=
  [0, 3, 6, 2, 1, 5, 7, 4,
   10, 16, 14, 9, 12, 18, 17, 11, 8, 15, 19, 13,
   20, 25, 22, 23, 21, 24,
   26]

/-- `[p.index(i) for i in range(len(p))]` -/
def invPerm (p : List Nat) : List Nat := (List.range p.length).map (fun i => p.idxOf i)

def invHexMapping : List Nat := invPerm hexMapping

/-- fancy indexing of the rows of an array: `t[ix]` -/
def takeRows {α : Type} [Inhabited α] (t : List α) (ix : List Nat) : List α :=
  ix.map (fun i => t.getD i default)

/-! ### high-order node re-ordering of `Mesh.__post_init__`

`tFull` is the connectivity read from the file (`M` vertex rows followed by the rows of the
extra nodes), `p` the list of points (columns of `doflocs`), `dofs` the map from the vertex
connectivity to `Dofs(mesh, elem).element_dofs` (rows). -/

/-- `a.flatten('F')` of an array given by rows -/
def flattenF (nt : Nat) (rows : List (List Nat)) : List Nat :=
  (List.range nt).flatMap (fun k => rows.map (fun r => r.getD k 0))

/-- `dst[:, idx] = vals` (later assignments win) -/
def scatter {α : Type} (dst : List α) (idx : List Nat) (vals : List α) : List α :=
  (idx.zip vals).foldl (fun acc jv => acc.set jv.1 jv.2) dst

def postInit {α : Type} [Inhabited α] (zero : α) (M nt : Nat) (p : List α)
    (tFull : List (List Nat)) (dofs : List (List Nat) → List (List Nat)) :
    List (List Nat) × List α :=
  let tNodes := tFull.take M
  let uniq := unique tNodes.flatten
  let newT := tNodes.map (fun row => row.map (fun v => uniq.idxOf v))
  let init := uniq.map (fun v => p.getD v default)
    ++ List.replicate (listMax tFull.flatten + 1 - uniq.length) zero
  let idx := flattenF nt ((dofs newT).drop M)
  let vals := (flattenF nt (tFull.drop M)).map (fun v => p.getD v default)
  (newT, scatter init idx vals)

/-! ### keys of the NumPy archive (`Mesh.save_npz` / `Mesh.load_npz`, repaired: orientation
flags of an oriented boundary `name` travel under the key `o_name`) -/

abbrev Key := List Char

/-- `np.savez(filename, doflocs=…, t=…, **boundaries, **orientations, **subdomains)`:
    the keys of the archive, in order; a boundary is `(name, is it an OrientedBoundary)` -/
def npzKeys (bnd : List (Key × Bool)) (sub : List Key) : List Key :=
  [['d', 'o', 'f', 'l', 'o', 'c', 's'], ['t']]
    ++ bnd.map (fun b => 'b' :: '_' :: b.1)
    ++ (bnd.filter (·.2)).map (fun b => 'o' :: '_' :: b.1)
    ++ sub.map (fun s => 's' :: '_' :: s)

/-- `load_npz`: tags are recognised by the two-character prefix (`key[:2] == 'b_'`), named by
    `key[2:]`, and a boundary is oriented iff the key `'o_' + key[2:]` is in the archive -/
def npzLoad (keys : List Key) : List (Key × Bool) × List Key :=
  ((keys.filter (fun k => k.take 2 == ['b', '_'])).map
      (fun k => (k.drop 2, keys.contains ('o' :: '_' :: k.drop 2))),
   (keys.filter (fun k => k.take 2 == ['s', '_'])).map (fun k => k.drop 2))

end Skv.MeshIO
