import SkfemVerif.Model.Dofs
import SkfemVerif.Model.Topology
/-
E-dofs, lookup part (C07): `AbstractBasis.get_dofs / complement_dofs`,
`Dofs.get_facet_dofs / get_element_dofs / get_vertex_dofs / _dofnames_to_rows / _by_name`,
`DofsView.keep / drop / all / __or__`, `Mesh.normalize_facets / normalize_elements /
normalize_nodes`, and the `dofnames` lists built by `ElementComposite`, `ElementVector`,
`ElementDG`.

The tables, `selectDofs`, `View`, `View.flatten`, `rowsByName`, `expandFacets` are in Model/Dofs.lean.
Core Lean only (linked into the driver).
-/
namespace Skv

/-! ### index sets of the three queries -/

/-- `np.unique(table[:, ix])` -/
def gatherUnique (table : List (List Nat)) (ix : List Nat) : List Nat :=
  unique (table.flatMap (fun row => ix.map (fun f => row.getD f 0)))

/-- the four row selections of a view (`r1, r2, r3, r4` of `_dofnames_to_rows`) -/
structure Rows where
  nodal : List Nat
  facet : List Nat
  edge : List Nat
  interior : List Nat
deriving Repr, DecidableEq

/-- heights of the four tables (`self.nodal_dofs.shape[0]` …) -/
def nRowsNodal (c : DofCounts) (tp : Topo) : Nat := (nodalDofs c tp).length
def nRowsFacet (c : DofCounts) (tp : Topo) : Nat := (facetDofs c tp).length
def nRowsEdge (c : DofCounts) (tp : Topo) : Nat := (edgeDofs c tp).length
def nRowsInterior (c : DofCounts) (tp : Topo) : Nat := (interiorDofs c tp).length

/-- `Dofs._dofnames_to_rows(names, skip)`: the element's name list is read in the order
    nodal, facet, edge, interior -/
def nameRows (c : DofCounts) (tp : Topo) (dofnames names : List String) (skip : Bool) : Rows :=
  let nN := nRowsNodal c tp
  let nF := nRowsFacet c tp
  let nE := nRowsEdge c tp
  let nI := nRowsInterior c tp
  { nodal := rowsByName dofnames names skip nN 0,
    facet := rowsByName dofnames names skip nF nN,
    edge := rowsByName dofnames names skip nE (nN + nF),
    interior := rowsByName dofnames names skip nI (nN + nF + nE) }

/-- `Dofs.get_facet_dofs(ix)`; `facets`/`f2e` are the mesh tables (row-wise), `withEdges` is
    `mesh.dim() == 3 and mesh.bndelem is not None` -/
def facetView (c : DofCounts) (facets f2e : List (List Nat)) (withEdges : Bool)
    (ix : List Nat) (r : Rows) : View :=
  let ex := expandFacets facets f2e ix withEdges
  { nodalIx := if c.nodal = 0 then [] else ex.1,
    facetIx := if c.facet = 0 then [] else ix,
    edgeIx := if c.edge = 0 then [] else ex.2,
    interiorIx := [],
    nodalRows := r.nodal, facetRows := r.facet, edgeRows := r.edge, interiorRows := r.interior }

/-- `Dofs.get_element_dofs(ix)` -/
def elementView (c : DofCounts) (tp : Topo) (ix : List Nat) (r : Rows) : View :=
  { nodalIx := if c.nodal = 0 then [] else gatherUnique tp.t ix,
    facetIx := if c.facet = 0 then [] else gatherUnique tp.t2f ix,
    edgeIx := if c.edge = 0 then [] else gatherUnique tp.t2e ix,
    interiorIx := ix,
    nodalRows := r.nodal, facetRows := r.facet, edgeRows := r.edge, interiorRows := r.interior }

/-- `Dofs.get_vertex_dofs(ix)` -/
def vertexView (ix : List Nat) (r : Rows) : View :=
  { nodalIx := ix, facetIx := [], edgeIx := [], interiorIx := [],
    nodalRows := r.nodal, facetRows := r.facet, edgeRows := r.edge, interiorRows := r.interior }

/-! ### `DofsView` algebra -/

/-- `np.intersect1d` of two ascending row lists (the `slice` special cases of `_intersect` are the
    empty list and the full list, handled by the same formula) -/
def interRows (a b : List Nat) : List Nat := a.filter (fun x => b.contains x)

def View.restrictRows (v : View) (r : Rows) : View :=
  { v with nodalRows := interRows v.nodalRows r.nodal, facetRows := interRows v.facetRows r.facet,
           edgeRows := interRows v.edgeRows r.edge, interiorRows := interRows v.interiorRows r.interior }

/-- `DofsView.keep(names)` -/
def View.keep (c : DofCounts) (tp : Topo) (dofnames names : List String) (v : View) : View :=
  v.restrictRows (nameRows c tp dofnames names false)

/-- `DofsView.drop(names)` -/
def View.drop (c : DofCounts) (tp : Topo) (dofnames names : List String) (v : View) : View :=
  v.restrictRows (nameRows c tp dofnames names true)

/-- `DofsView.all(names)` -/
def View.all (c : DofCounts) (tp : Topo) (dofnames names : List String) (v : View) : List Nat :=
  (v.keep c tp dofnames names).flatten c tp

/-- `DofsView.__or__`: `np.union1d` of the index sets, rows of the left operand -/
def View.or (a b : View) : View :=
  { a with nodalIx := unique (a.nodalIx ++ b.nodalIx), facetIx := unique (a.facetIx ++ b.facetIx),
           edgeIx := unique (a.edgeIx ++ b.edgeIx), interiorIx := unique (a.interiorIx ++ b.interiorIx) }

/-- name of row `r` of the table whose names start at offset `off` of the element's list -/
def rowName (dofnames : List String) (off r : Nat) : String := dofnames.getD (r + off) ""

/-- distinct items in the order of their first occurrence (insertion order of a Python dict) -/
def firstOccs : List String → List String
  | [] => []
  | a :: as => a :: (firstOccs as).filter (fun b => b != a)

/-- `Dofs._by_name(table[rows], off, ix, rows)`: name ↦ DOFs, keys in order of first appearance,
    values row after row -/
def byName (table : List (List Nat)) (rows ix : List Nat) (dofnames : List String) (off : Nat) :
    List (String × List Nat) :=
  (firstOccs (rows.map (rowName dofnames off))).map (fun nm =>
    (nm, selectDofs table (rows.filter (fun r => rowName dofnames off r == nm)) ix))

def View.nodal (c : DofCounts) (tp : Topo) (dofnames : List String) (v : View) :=
  byName (nodalDofs c tp) v.nodalRows v.nodalIx dofnames 0
def View.facet (c : DofCounts) (tp : Topo) (dofnames : List String) (v : View) :=
  byName (facetDofs c tp) v.facetRows v.facetIx dofnames (nRowsNodal c tp)
def View.edge (c : DofCounts) (tp : Topo) (dofnames : List String) (v : View) :=
  byName (edgeDofs c tp) v.edgeRows v.edgeIx dofnames (nRowsNodal c tp + nRowsFacet c tp)
def View.interior (c : DofCounts) (tp : Topo) (dofnames : List String) (v : View) :=
  byName (interiorDofs c tp) v.interiorRows v.interiorIx dofnames
    (nRowsNodal c tp + nRowsFacet c tp + nRowsEdge c tp)

/-- `AbstractBasis.complement_dofs(*D)` = `np.setdiff1d(np.arange(N), np.concatenate(D))` -/
def complementDofs (n : Nat) (ds : List (List Nat)) : List Nat := complementRange n ds.flatten

/-- the name of global DOF number `x`: decode the block (nodal / edge / facet / interior) and the
    row within the block (`order='F'` numbering: row = (x - offset) mod count), then read the
    element's name list as `_dofnames_to_rows` does -/
def dofName (c : DofCounts) (tp : Topo) (dofnames : List String) (x : Nat) : String :=
  if x < offEdge c tp then rowName dofnames 0 (x % c.nodal)
  else if x < offFacet c tp then
    rowName dofnames (nRowsNodal c tp + nRowsFacet c tp) ((x - offEdge c tp) % c.edge)
  else if x < offInterior c tp then
    rowName dofnames (nRowsNodal c tp) ((x - offFacet c tp) % c.facet)
  else rowName dofnames (nRowsNodal c tp + nRowsFacet c tp + nRowsEdge c tp)
    ((x - offInterior c tp) % c.interior)

/-! ### selector normalisation (`Mesh.normalize_facets / _elements / _nodes`) -/

/-- a selector, with callables already evaluated to their truth table on the midpoints
    (`facets_satisfying`, `elements_satisfying`) resp. on the points (`nodes_satisfying`) -/
inductive Sel where
  | idx (l : List Nat)        -- ndarray: taken as it is
  | int (i : Nat)             -- a single index
  | pred (tt : List Bool)     -- callable
  | tag (name : String)       -- name of a boundary / subdomain
  | coll (l : List Sel)       -- list / tuple / set
  | none                      -- `None`
  | all                       -- `True` (elements only)
deriving Repr

inductive SelKind where
  | facets | elements | nodes
deriving Repr, DecidableEq

/-- `np.nonzero(tt)[0]` -/
def nonzero (tt : List Bool) : List Nat := (List.range tt.length).filter (fun i => tt.getD i false)

def lookupTag (tags : List (String × List Nat)) (name : String) : Option (List Nat) :=
  (tags.find? (fun p => p.1 == name)).map (·.2)

mutual
/-- `none` = the implementation raises.  `bnd` = `boundary_facets()`, `n` = number of entities. -/
def normalize (k : SelKind) (tags : List (String × List Nat)) (bnd : List Nat) (n : Nat) :
    Sel → Option (List Nat)
  | .idx l => some l
  | .int i => if k = .nodes then Option.none else some [i]
  | .pred tt => some (nonzero tt)
  | .tag s => if k = .nodes then Option.none else lookupTag tags s
  | .coll l => match l with
    | [] => Option.none                 -- `np.concatenate([])` raises
    | _ => (normalizeAll k tags bnd n l).map unique
  | .none => if k = .facets then some bnd else Option.none
  | .all => if k = .elements then some (List.range n) else Option.none
/-- concatenation of the normalised members -/
def normalizeAll (k : SelKind) (tags : List (String × List Nat)) (bnd : List Nat) (n : Nat) :
    List Sel → Option (List Nat)
  | [] => some []
  | s :: ss =>
    match normalize k tags bnd n s, normalizeAll k tags bnd n ss with
    | some a, some b => some (a ++ b)
    | _, _ => Option.none
end

/-! ### name lists of the wrapper elements -/

/-- an element as far as names are concerned: the counts per entity and the list `dofnames` -/
structure ElemNames where
  counts : DofCounts
  names : List String
deriving Repr

/-- reading convention of `_dofnames_to_rows`: nodal, facet, edge, interior -/
def ElemNames.nodalNames (e : ElemNames) : List String := e.names.take e.counts.nodal
def ElemNames.facetNames (e : ElemNames) : List String :=
  (e.names.drop e.counts.nodal).take e.counts.facet
def ElemNames.edgeNames (e : ElemNames) : List String :=
  (e.names.drop (e.counts.nodal + e.counts.facet)).take e.counts.edge
def ElemNames.interiorNames (e : ElemNames) : List String :=
  (e.names.drop (e.counts.nodal + e.counts.facet + e.counts.edge)).take e.counts.interior
/-- `elem.dofnames[(nodal + facet + edge):]` -/
def ElemNames.restNames (e : ElemNames) : List String :=
  e.names.drop (e.counts.nodal + e.counts.facet + e.counts.edge)

/-- the reading convention of the OLD `ElementComposite.__init__`: nodal, edge, facet, interior -/
def ElemNames.edgeNamesOld (e : ElemNames) : List String :=
  (e.names.drop e.counts.nodal).take e.counts.edge
def ElemNames.facetNamesOld (e : ElemNames) : List String :=
  (e.names.drop (e.counts.nodal + e.counts.edge)).take e.counts.facet

def suffixName (i : Nat) (s : String) : String := s ++ "^" ++ toString (i + 1)

/-- names of one kind of all components, component after component, numbered from `i0` -/
def kindNamesFrom (sel : ElemNames → List String) (i0 : Nat) : List ElemNames → List String
  | [] => []
  | e :: es => (sel e).map (suffixName i0) ++ kindNamesFrom sel (i0 + 1) es

def kindNames (sel : ElemNames → List String) (cs : List ElemNames) : List String :=
  kindNamesFrom sel 0 cs

/-- `ElementComposite.__init__` (repaired): emits and reads nodal, facet, edge, interior -/
def compositeNames (cs : List ElemNames) : List String :=
  kindNames ElemNames.nodalNames cs ++ kindNames ElemNames.facetNames cs
    ++ kindNames ElemNames.edgeNames cs ++ kindNames ElemNames.interiorNames cs

/-- `ElementComposite.__init__` of the pinned tree: emits and reads nodal, EDGE, FACET, interior -/
def compositeNamesOld (cs : List ElemNames) : List String :=
  kindNames ElemNames.nodalNames cs ++ kindNames ElemNames.edgeNamesOld cs
    ++ kindNames ElemNames.facetNamesOld cs ++ kindNames ElemNames.interiorNames cs

def sumCounts (cs : List ElemNames) : DofCounts :=
  { nodal := (cs.map (·.counts.nodal)).sum, edge := (cs.map (·.counts.edge)).sum,
    facet := (cs.map (·.counts.facet)).sum, interior := (cs.map (·.counts.interior)).sum }

def compositeElem (cs : List ElemNames) : ElemNames := ⟨sumCounts cs, compositeNames cs⟩

/-- `ElementVector.__init__`: `[i + "^" + str(j + 1) for i in elem.dofnames for j in range(dim)]` -/
def vectorNames (dim : Nat) (names : List String) : List String :=
  names.flatMap (fun nm => (List.range dim).map (fun j => suffixName j nm))

def replicateNames (k : Nat) (l : List String) : List String := (List.replicate k l).flatten

/-- names of the local basis functions of one cell in the order of the per-cell layout
    (all vertices, all edges, all facets, interior), read from `e.names` -/
def cellLayoutNames (nnodes nedges nfacets : Nat) (e : ElemNames) : List String :=
  replicateNames nnodes e.nodalNames ++ replicateNames nedges e.edgeNames
    ++ replicateNames nfacets e.facetNames ++ e.restNames

/-- `ElementDG.__init__` (repaired): the interior rows of the cut element are the local basis
    functions in per-cell order -/
def dgNames (nnodes nedges nfacets : Nat) (e : ElemNames) : List String :=
  cellLayoutNames nnodes nedges nfacets e

/-- `ElementDG.__init__` of the pinned tree: facet names before edge names -/
def dgNamesOld (nnodes nedges nfacets : Nat) (e : ElemNames) : List String :=
  replicateNames nnodes e.nodalNames ++ replicateNames nfacets e.facetNames
    ++ replicateNames nedges e.edgeNames ++ e.restNames

end Skv
