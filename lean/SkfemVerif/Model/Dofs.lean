import SkfemVerif.Model.Np
/-
E-dofs: `Dofs.__init__`, `get_facet_dofs / get_element_dofs / get_vertex_dofs`,
`DofsView.flatten`, `_dofnames_to_rows` (skfem/assembly/dofs.py).

Connectivity tables are given row-wise as in NumPy: `t[itr][k]` = local vertex `itr` of cell `k`.
-/
namespace Skv

structure DofCounts where
  nodal : Nat
  edge : Nat
  facet : Nat
  interior : Nat
deriving Repr, DecidableEq

structure Topo where
  dim : Nat
  nverts : Nat
  nedges : Nat
  nfacets : Nat
  nt : Nat
  t : List (List Nat)
  t2e : List (List Nat)
  t2f : List (List Nat)
deriving Repr

/-- `np.reshape(np.arange(count * n), (count, n), order='F') + offset`:
    entry `(a, e)` is `offset + a + count * e`. -/
def dofNumber (count offset a e : Nat) : Nat := offset + a + count * e

def dofTable (count n offset : Nat) : List (List Nat) :=
  (List.range count).map (fun a => (List.range n).map (fun e => dofNumber count offset a e))

/-- rows appended to `element_dofs` for one connectivity table:
    for every table row `itr`, `table[:, conn[itr]]` (count rows) -/
def gatherRows (count offset : Nat) (conn : List (List Nat)) : List (List Nat) :=
  conn.flatMap (fun row => (List.range count).map (fun a => row.map (fun e => dofNumber count offset a e)))

def useEdges (c : DofCounts) (tp : Topo) : Bool := tp.dim == 3 && c.edge > 0
def useFacets (c : DofCounts) : Bool := c.facet > 0

def offEdge (c : DofCounts) (tp : Topo) : Nat := c.nodal * tp.nverts
def offFacet (c : DofCounts) (tp : Topo) : Nat :=
  offEdge c tp + (if useEdges c tp then c.edge * tp.nedges else 0)
def offInterior (c : DofCounts) (tp : Topo) : Nat :=
  offFacet c tp + (if useFacets c then c.facet * tp.nfacets else 0)

def nodalDofs (c : DofCounts) (tp : Topo) : List (List Nat) := dofTable c.nodal tp.nverts 0
def edgeDofs (c : DofCounts) (tp : Topo) : List (List Nat) :=
  if useEdges c tp then dofTable c.edge tp.nedges (offEdge c tp) else []
def facetDofs (c : DofCounts) (tp : Topo) : List (List Nat) :=
  if useFacets c then dofTable c.facet tp.nfacets (offFacet c tp) else []
def interiorDofs (c : DofCounts) (tp : Topo) : List (List Nat) :=
  dofTable c.interior tp.nt (offInterior c tp)

/-- `Dofs.element_dofs`: rows in the order vertices, edges, facets, interior -/
def elementDofs (c : DofCounts) (tp : Topo) : List (List Nat) :=
  gatherRows c.nodal 0 tp.t
  ++ (if useEdges c tp then gatherRows c.edge (offEdge c tp) tp.t2e else [])
  ++ (if tp.dim ≥ 2 && useFacets c then gatherRows c.facet (offFacet c tp) tp.t2f else [])
  ++ interiorDofs c tp

/-- `Dofs.N = max(element_dofs) + 1` -/
def dofsN (c : DofCounts) (tp : Topo) : Nat := listMax (elementDofs c tp).flatten + 1

/-- the number the closed form predicts: total size of the four blocks -/
def dofsTotal (c : DofCounts) (tp : Topo) : Nat := offInterior c tp + c.interior * tp.nt

/-! ### lookups (C07) -/

/-- `table[rows][:, ix].flatten()` -/
def selectDofs (table : List (List Nat)) (rows ix : List Nat) : List Nat :=
  rows.flatMap (fun r => ix.map (fun e => (table.getD r []).getD e 0))

structure View where
  nodalIx : List Nat
  facetIx : List Nat
  edgeIx : List Nat
  interiorIx : List Nat
  nodalRows : List Nat
  facetRows : List Nat
  edgeRows : List Nat
  interiorRows : List Nat
deriving Repr

/-- `DofsView.flatten`: sorted distinct union of the four selections -/
def View.flatten (c : DofCounts) (tp : Topo) (v : View) : List Nat :=
  unique (selectDofs (nodalDofs c tp) v.nodalRows v.nodalIx
    ++ selectDofs (facetDofs c tp) v.facetRows v.facetIx
    ++ selectDofs (edgeDofs c tp) v.edgeRows v.edgeIx
    ++ selectDofs (interiorDofs c tp) v.interiorRows v.interiorIx)

/-- rows kept by `_dofnames_to_rows(names, skip)`; `dofnames` is the element's name list read in
    the order nodal, facet, edge, interior (offsets by the table heights) -/
def rowsByName (dofnames : List String) (names : List String) (skip : Bool) (n off : Nat) : List Nat :=
  (List.range n).filter (fun i =>
    let nm := dofnames.getD (i + off) ""
    if skip then !names.contains nm else names.contains nm)

/-- `_expand_facets`: vertices (and, in 3-D with a boundary element, edges) of the facets `ix` -/
def expandFacets (facets f2e : List (List Nat)) (ix : List Nat) (withEdges : Bool) :
    List Nat × List Nat :=
  (unique (facets.flatMap (fun row => ix.map (fun f => row.getD f 0))),
   if withEdges then unique (f2e.flatMap (fun row => ix.map (fun f => row.getD f 0))) else [])

end Skv
