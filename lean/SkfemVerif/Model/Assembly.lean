import SkfemVerif.Model.Np
/-
E-asm: the index bookkeeping of `BilinearForm._assemble`, `LinearForm._assemble`,
`Functional._assemble`, `AbstractBasis.interpolate`, `COOData` (toarray / dot / add / tolocal)
and of the threaded kernel (skfem/assembly/form/*.py).

Generic over a coefficient type `K` with `+`, `*`, `0` (instantiated with `Rat` in the driver,
with any commutative ring in the theorems).

A *field sample* at one (cell, quadrature point) is a function `Nat → K` from a flat component
index (value, the components of grad, div, curl, hess, ... of all fields of a composite
element, in the order in which the harness flattens `DiscreteField`s) to a number.
-/
namespace Skv

section Generic
variable {K : Type} [Add K] [Mul K] [Zero K]

abbrev Sample (K : Type) := Nat → K

/-- per-basis-function field data: local index → cell → quadrature point → sample -/
abbrev BasisData (K : Type) := Nat → Nat → Nat → Sample K

/-- `np.sum(form(u_j, v_i, w) * dx, axis=1)` for cell `k` -/
def kernelBil (nq : Nat) (f : Sample K → Sample K → Sample K → K)
    (ub vb : BasisData K) (w : Nat → Nat → Sample K) (dx : Nat → Nat → K) (j i k : Nat) : K :=
  ((List.range nq).map (fun q => f (ub j k q) (vb i k q) (w k q) * dx k q)).sum

def kernelLin (nq : Nat) (f : Sample K → Sample K → K)
    (vb : BasisData K) (w : Nat → Nat → Sample K) (dx : Nat → Nat → K) (i k : Nat) : K :=
  ((List.range nq).map (fun q => f (vb i k q) (w k q) * dx k q)).sum

/-- COO triplets `(row, col, value)` of `BilinearForm._assemble`, in the order of the flat
    arrays `rows`, `cols`, `data.flatten('C')`: position `nt * (Nv * j + i) + k`. -/
def bilinearTriplets (Nu Nv nt nq : Nat) (f : Sample K → Sample K → Sample K → K)
    (ub vb : BasisData K) (w : Nat → Nat → Sample K) (dx : Nat → Nat → K)
    (udofs vdofs : Nat → Nat → Nat) : List (Nat × Nat × K) :=
  (List.range Nu).flatMap (fun j => (List.range Nv).flatMap (fun i => (List.range nt).map (fun k =>
    (vdofs i k, udofs j k, kernelBil nq f ub vb w dx j i k))))

/-- COO pairs `(row, value)` of `LinearForm._assemble`: position `nt * i + k`. -/
def linearPairs (Nv nt nq : Nat) (f : Sample K → Sample K → K)
    (vb : BasisData K) (w : Nat → Nat → Sample K) (dx : Nat → Nat → K)
    (vdofs : Nat → Nat → Nat) : List (Nat × K) :=
  (List.range Nv).flatMap (fun i => (List.range nt).map (fun k =>
    (vdofs i k, kernelLin nq f vb w dx i k)))

/-- `Functional.assemble`: Σ_k Σ_q form(w) dx -/
def functionalValue (nt nq : Nat) (f : Sample K → K)
    (w : Nat → Nat → Sample K) (dx : Nat → Nat → K) : K :=
  ((List.range nt).map (fun k => ((List.range nq).map (fun q => f (w k q) * dx k q)).sum)).sum

/-- `AbstractBasis.interpolate`: Σ_j x[element_dofs[j][k]] * basis[j] -/
def interp (Nbfun : Nat) (x : Nat → K) (dofs : Nat → Nat → Nat) (b : BasisData K)
    (k q : Nat) : Sample K :=
  fun c => ((List.range Nbfun).map (fun j => x (dofs j k) * b j k q c)).sum

/-- `vᵀ A u` computed from the triplets (duplicates are summed, as `coo_matrix` does) -/
def actionBil (T : List (Nat × Nat × K)) (u v : Nat → K) : K :=
  (T.map (fun t => v t.1 * t.2.2 * u t.2.1)).sum

def actionLin (T : List (Nat × K)) (v : Nat → K) : K :=
  (T.map (fun t => v t.1 * t.2)).sum

/-- dense entry `(r, c)` of the assembled matrix: sum of the matching triplets -/
def denseEntry (T : List (Nat × Nat × K)) (r c : Nat) : K :=
  ((T.filter (fun t => t.1 == r && t.2.1 == c)).map (fun t => t.2.2)).sum

def denseVecEntry (T : List (Nat × K)) (r : Nat) : K :=
  ((T.filter (fun t => t.1 == r)).map (fun t => t.2)).sum

/-- `COOData.dot` : `z[row] += data * x[col]` -/
def cooDot (T : List (Nat × Nat × K)) (x : Nat → K) (r : Nat) : K :=
  ((T.filter (fun t => t.1 == r)).map (fun t => t.2.2 * x t.2.1)).sum

/-! ### the integrand grammar used by the correspondence -/

/-- one term `coef * u[uc] * v[vc] * w[wc]` -/
structure Term (K : Type) where
  coef : K
  uc : Nat
  vc : Nat
  wc : Nat

def Term.eval (t : Term K) (a b w : Sample K) : K := t.coef * a t.uc * b t.vc * w t.wc

/-- a bilinear integrand: finite sum of terms -/
def evalForm (ts : List (Term K)) (a b w : Sample K) : K := (ts.map (fun t => t.eval a b w)).sum

/-- a linear integrand (`u` absent): `coef * v[vc] * w[wc]` -/
def evalLinForm (ts : List (Term K)) (b w : Sample K) : K :=
  (ts.map (fun t => t.coef * b t.vc * w t.wc)).sum

end Generic

/-! ### threaded kernel (`nthreads > 0`) -/

/-- `[[i, j] for j, i in product(range(Nu), range(Nv))]` -/
def pairList (Nu Nv : Nat) : List (Nat × Nat) :=
  (List.range Nu).flatMap (fun j => (List.range Nv).map (fun i => (i, j)))

/-- the chunks handed to the worker threads -/
def threadChunks (Nu Nv n : Nat) : List (List (Nat × Nat)) := arraySplit (pairList Nu Nv) n

/-- `s` is an interleaving of the worker sequences `ws`: every step executes the head of one
    worker's remaining sequence (kernel-invocation granularity). -/
inductive Interleaving {α : Type} : List (List α) → List α → Prop
  | done (ws : List (List α)) : (∀ w ∈ ws, w = []) → Interleaving ws []
  | step (pre post : List (List α)) (x : α) (rest s : List α) :
      Interleaving (pre ++ rest :: post) s → Interleaving (pre ++ (x :: rest) :: post) (x :: s)

/-- the shared output array as a function of the slot `(i, j)`; one kernel invocation writes
    `data[j, i] := kernel (i, j)` -/
def writeSlot {V : Type} (kernel : Nat × Nat → V) (d : Nat × Nat → V) (p : Nat × Nat) : Nat × Nat → V :=
  fun s => if s = p then kernel p else d s

/-- executing a schedule: a sequence of kernel invocations -/
def runSchedule {V : Type} (kernel : Nat × Nat → V) (s : List (Nat × Nat)) (init : Nat × Nat → V) :
    Nat × Nat → V :=
  s.foldl (writeSlot kernel) init

/-- flat position of slot `(i, j)`, cell `k` in `data.flatten('C')` for `data` of shape
    `(Nu, Nv, nt)` -/
def flatSlot (Nv nt i j k : Nat) : Nat := nt * (Nv * j + i) + k

end Skv
