import SkfemVerif.Model.Np
import SkfemVerif.Model.Topology
/-
E-refine (adaptive part): executable models of

* `MeshTri1._adaptive`  (skfem/mesh/mesh_tri_1.py): `_adaptive_sort_mesh`, the facet-marking
  closure loop `_adaptive_find_facets`, the red/blue/green templates and the `new_t` index
  arithmetic of `_adaptive_split_elements`;
* `MeshLine1._adaptive` (skfem/mesh/mesh_line_1.py) with its index map (repaired and pinned);
* one step of the longest-edge bisection of `MeshTet1._adaptive` (skfem/mesh/mesh_tet_1.py)
  and a CERTIFICATE CHECKER `checkRefinement` for bisection refinements of simplicial meshes
  (the worklist of the tetrahedral code is not modelled; its output is checked instead).

Core Lean only (linked into the driver).
-/
namespace Skv.RA

/-! ## 1. Triangles: red–green–blue refinement -/

abbrev Tri := Nat × Nat × Nat

/-- `_adaptive_sort_mesh` for one cell.  `q01 q12 q02` are the (squared) lengths of the edges
    `(0,1)`, `(1,2)`, `(0,2)`.  `ix01` swaps rows 1,2; `ix12` swaps rows 0,1 (mutually exclusive). -/
def sortTri {α : Type} [LT α] [DecidableLT α] (q01 q12 q02 : α) (c : Tri) : Tri :=
  if q02 < q01 ∧ q12 < q01 then (c.1, c.2.2, c.2.1)
  else if q01 < q12 ∧ q02 < q12 then (c.2.1, c.1, c.2.2)
  else c

def sqLen (a b : Rat × Rat) : Rat := (a.1 - b.1) * (a.1 - b.1) + (a.2 - b.2) * (a.2 - b.2)

def sortMesh (p : List (Rat × Rat)) (t : List Tri) : List Tri :=
  t.map (fun c =>
    let P := fun i => p.getD i (0, 0)
    sortTri (sqLen (P c.1) (P c.2.1)) (sqLen (P c.2.1) (P c.2.2)) (sqLen (P c.1) (P c.2.2)) c)

/-- facet marks: entry `f` is `facets[f] == 1` -/
def get (m : List Bool) (f : Nat) : Bool := m.getD f false

/-- slot-2 facets of the cells that have slot 0 or slot 1 marked:
    `t2facets[2, t2facets[0] + t2facets[1] > 0] = 1` -/
def triggered (t2f : List Tri) (m : List Bool) : List Nat :=
  (t2f.filter (fun c => get m c.1 || get m c.2.1)).map (fun c => c.2.2)

/-- one pass of the `while` body: `facets[m.t2f[t2facets == 1]] = 1` -/
def step (t2f : List Tri) (m : List Bool) : List Bool :=
  m.zipIdx.map (fun p => p.1 || (triggered t2f m).contains p.2)

def countTrue (m : List Bool) : Nat := m.count true

/-- the loop `while count_nonzero(facets) - prev_nnz > 0` with fuel -/
def closure : Nat → List Tri → List Bool → List Bool
  | 0, _, m => m
  | fuel + 1, t2f, m =>
    if countTrue m < countTrue (step t2f m) then closure fuel t2f (step t2f m) else step t2f m

/-- `facets[m.t2f[:, marked_elems].flatten('F')] = 1` -/
def initMarks (t2f : List Tri) (nf : Nat) (marked : List Nat) : List Bool :=
  let fs := marked.flatMap (fun k => match t2f[k]? with
    | some c => [c.1, c.2.1, c.2.2]
    | none => [])
  (List.range nf).map (fun f => fs.contains f)

/-- `_adaptive_find_facets` -/
def findFacets (t2f : List Tri) (nf : Nat) (marked : List Nat) : List Bool :=
  closure (nf + 1) t2f (initMarks t2f nf marked)

/-- the five masks of `_adaptive_split_elements`; `bad` = in none of them (the cell would be
    dropped from the output) -/
inductive Cls where
  | rest | red | blue1 | blue2 | green | bad
  deriving DecidableEq, Repr, Inhabited

def classify (b0 b1 b2 : Bool) : Cls :=
  match b0, b1, b2 with
  | true, true, true => .red
  | false, true, true => .blue1
  | true, false, true => .blue2
  | false, false, true => .green
  | false, false, false => .rest
  | _, _, _ => .bad

def clsOf (m : List Bool) (f : Tri) : Cls := classify (get m f.1) (get m f.2.1) (get m f.2.2)

/-- symbolic vertices of the children: parent vertices and the midpoints of the facets in
    slots 0 `(v0,v1)`, 1 `(v1,v2)`, 2 `(v0,v2)` -/
inductive RV where
  | v0 | v1 | v2 | m0 | m1 | m2
  deriving DecidableEq, Repr, Inhabited

open RV in
/-- the child templates (`t_red`, `t_blue1`, `t_blue2`, `t_green`; an unrefined cell is its own
    only child) -/
def template : Cls → List (RV × RV × RV)
  | .rest => [(v0, v1, v2)]
  | .red => [(v0, m0, m2), (v1, m0, m1), (v2, m1, m2), (m1, m2, m0)]
  | .blue1 => [(v1, v0, m2), (v1, m1, m2), (v2, m2, m1)]
  | .blue2 => [(v0, m0, m2), (m2, m0, v1), (v2, m2, v1)]
  | .green => [(v1, m2, v0), (v2, m2, v1)]
  | .bad => []

/-- number of marked facets with a smaller index -/
def rank (m : List Bool) (f : Nat) : Nat := ((List.range f).filter (fun g => get m g)).length

/-- `ix[facets == 1] = arange(count_nonzero(facets)) + nv` -/
def midIdx (nv : Nat) (m : List Bool) (f : Nat) : Nat := nv + rank m f

def resolve (nv : Nat) (m : List Bool) (c f : Tri) : RV → Nat
  | .v0 => c.1
  | .v1 => c.2.1
  | .v2 => c.2.2
  | .m0 => midIdx nv m f.1
  | .m1 => midIdx nv m f.2.1
  | .m2 => midIdx nv m f.2.2

def resolve3 (nv : Nat) (m : List Bool) (c f : Tri) (x : RV × RV × RV) : Tri :=
  (resolve nv m c f x.1, resolve nv m c f x.2.1, resolve nv m c f x.2.2)

/-- indices (ascending) of the cells of class `cl` : `np.nonzero(mask)` -/
def members (cls : List Cls) (cl : Cls) : List Nat :=
  (List.range cls.length).filter (fun k => cls.getD k .bad == cl)

/-- position of cell `k` among the cells of class `cl` -/
def rankIn (cls : List Cls) (cl : Cls) (k : Nat) : Nat :=
  ((List.range k).filter (fun i => cls.getD i .bad == cl)).length

structure TriInput where
  nv : Nat
  t : List Tri          -- cells after `_adaptive_sort_mesh`
  t2f : List Tri        -- facet indices per cell (slots 0,1,2)
  marks : List Bool     -- result of `_adaptive_find_facets`

def TriInput.cls (x : TriInput) : List Cls := x.t2f.map (clsOf x.marks)

/-- child `j` of cell `k` if the cell is treated with the template of class `cl` -/
def TriInput.child (x : TriInput) (cl : Cls) (j k : Nat) : Tri :=
  resolve3 x.nv x.marks (x.t.getD k (0, 0, 0)) (x.t2f.getD k (0, 0, 0)) ((template cl).getD j (.v0, .v0, .v0))

/-- one `np.vstack((…[mask], …[mask], …[mask]))` block -/
def TriInput.block (x : TriInput) (cl : Cls) (j : Nat) : List Tri :=
  (members x.cls cl).map (x.child cl j)

/-- the blocks in the order of `np.hstack((m.t[:, rest], t_red, t_blue1, t_blue2, t_green))` -/
def TriInput.blocks (x : TriInput) : List (List Tri) :=
  [x.block .rest 0,
   x.block .red 0, x.block .red 1, x.block .red 2, x.block .red 3,
   x.block .blue1 0, x.block .blue1 1, x.block .blue1 2,
   x.block .blue2 0, x.block .blue2 1, x.block .blue2 2,
   x.block .green 0, x.block .green 1]

/-- the refined cell array (before the constructor sorts every column) -/
def TriInput.newCells (x : TriInput) : List Tri := x.blocks.flatten

def TriInput.count (x : TriInput) (cl : Cls) : Nat := (members x.cls cl).length

/-- first new index of class `cl`: the running `offset` of the `new_t` code -/
def TriInput.offset (x : TriInput) : Cls → Nat
  | .rest => 0
  | .red => x.count .rest
  | .blue1 => x.count .rest + 4 * x.count .red
  | .blue2 => x.count .rest + 4 * x.count .red + 3 * x.count .blue1
  | .green => x.count .rest + 4 * x.count .red + 3 * x.count .blue1 + 3 * x.count .blue2
  | .bad => 0

/-- `new_t[j, k]`: `np.arange(offset, offset + c * n).reshape(c, -1)` spread over the mask -/
def TriInput.childIdx (x : TriInput) (k j : Nat) : Nat :=
  let cl := x.cls.getD k .bad
  x.offset cl + j * x.count cl + rankIn x.cls cl k

/-- column `k` of `new_t` without the `-1` entries -/
def TriInput.childIdxs (x : TriInput) (k : Nat) : List Nat :=
  (List.range (template (x.cls.getD k .bad)).length).map (x.childIdx k)

/-- `np.setdiff1d(np.unique(new_t[:, ixs]), [-1])` -/
def TriInput.subdomain (x : TriInput) (ixs : List Nat) : List Nat :=
  unique (ixs.flatMap x.childIdxs)

def mid2 (a b : Rat × Rat) : Rat × Rat := ((a.1 + b.1) / 2, (a.2 + b.2) / 2)

/-- `np.hstack((m.p, .5 * (m.p[:, facets[0, marked]] + m.p[:, facets[1, marked]])))` -/
def newPoints {P : Type} (midp : P → P → P) (dflt : P) (p : List P) (facets : List (Nat × Nat))
    (m : List Bool) : List P :=
  p ++ ((List.range m.length).filter (fun f => get m f)).map (fun f =>
    let e := facets.getD f (0, 0)
    midp (p.getD e.1 dflt) (p.getD e.2 dflt))

/-- the whole of `MeshTri1._adaptive` given the connectivity tables of the sorted mesh -/
def triAdaptive (p : List (Rat × Rat)) (tsorted t2f : List Tri) (facets : List (Nat × Nat))
    (marked : List Nat) : TriInput × List (Rat × Rat) :=
  let marks := findFacets t2f facets.length marked
  ({ nv := p.length, t := tsorted, t2f := t2f, marks := marks },
   newPoints mid2 (0, 0) p facets marks)

/-! ## 2. Segments -/

abbrev Seg := Nat × Nat

/-- `np.setdiff1d(np.arange(nt), marked)` -/
def nonmarked (nt : Nat) (marked : List Nat) : List Nat :=
  (List.range nt).filter (fun k => !marked.contains k)

/-- cells of `MeshLine1._adaptive`: unmarked cells, first halves, second halves;
    `mid0 = np.max(t) + 1` -/
def lineCells (mid0 : Nat) (t : List Seg) (marked : List Nat) : List Seg :=
  (nonmarked t.length marked).map (fun k => t.getD k (0, 0))
    ++ marked.zipIdx.map (fun q => ((t.getD q.1 (0, 0)).1, mid0 + q.2))
    ++ marked.zipIdx.map (fun q => (mid0 + q.2, (t.getD q.1 (0, 0)).2))

/-- `np.hstack((p, p[:, t[:, marked]].mean(1)))` -/
def linePoints (p : List Rat) (t : List Seg) (marked : List Nat) : List Rat :=
  p ++ marked.map (fun k =>
    let c := t.getD k (0, 0)
    (p.getD c.1 0 + p.getD c.2 0) / 2)

/-- new indices of the children of old cell `k` (the `new_t` of the repaired code) -/
def lineChildIdxs (nt : Nat) (marked : List Nat) (k : Nat) : List Nat :=
  if marked.contains k then
    [(nonmarked nt marked).length + marked.idxOf k,
     (nonmarked nt marked).length + marked.length + marked.idxOf k]
  else [((List.range k).filter (fun i => !marked.contains i)).length]

def lineSubdomain (nt : Nat) (marked : List Nat) (ixs : List Nat) : List Nat :=
  unique (ixs.flatMap (lineChildIdxs nt marked))

/-- the pinned code kept the index arrays unchanged -/
def lineSubdomainOld (_nt : Nat) (_marked : List Nat) (ixs : List Nat) : List Nat := ixs

/-- old cell containing new cell `i` (inverse of `lineChildIdxs`) -/
def lineParent (nt : Nat) (marked : List Nat) (i : Nat) : Nat :=
  let non := nonmarked nt marked
  if i < non.length then non.getD i 0
  else if i < non.length + marked.length then marked.getD (i - non.length) 0
  else marked.getD (i - non.length - marked.length) 0

/-! ## 3. Tetrahedra: one bisection step and the certificate checker -/

abbrev Tet := Nat × Nat × Nat × Nat

/-- `_adaptive_sort_mesh` (tetrahedra) for one marked cell: bring the longest edge to `(0,1)`.
    `l` = lengths of the edges 01, 12, 02, 03, 13, 23 -/
def sortTet {α : Type} [LT α] [DecidableLT α] (l01 l12 l02 l03 l13 l23 : α) (c : Tet) : Tet :=
  let (a, b, cc, d) := c
  let gt := fun (x : α) (ys : List α) => ys.all (fun y => decide (y < x))
  -- later assignments win (`T[:, marked[ix]] = …` in the order 02, 03, 12, 13, 23); the masks
  -- are mutually exclusive
  if gt l23 [l01, l12, l02, l03, l13] then (d, cc, b, a)
  else if gt l13 [l01, l12, l02, l03, l23] then (b, d, cc, a)
  else if gt l12 [l01, l02, l03, l13, l23] then (b, cc, a, d)
  else if gt l03 [l01, l12, l02, l13, l23] then (a, d, b, cc)
  else if gt l02 [l01, l12, l03, l13, l23] then (cc, a, b, d)
  else c

/-- the two children `(t3,t0,t2,m)`, `(t2,t1,t3,m)` of `(t0,t1,t2,t3)`, `m` = midpoint of `(t0,t1)` -/
def bisect (c : Tet) (m : Nat) : Tet × Tet :=
  let (t0, t1, t2, t3) := c
  ((t3, t0, t2, m), (t2, t1, t3, m))

abbrev Pt := List Rat          -- a point: its coordinates (any dimension)

/-- bisection tree below one old cell.  `node i j m l r`: the current simplex `S` is bisected at
    the edge between its local positions `i ≠ j`, `m` is the number of the midpoint vertex,
    `l` refines `S[j := m]` (keeps `S[i]`), `r` refines `S[i := m]` (keeps `S[j]`) -/
inductive BTree where
  | leaf (cell : Nat)
  | node (i j m : Nat) (l r : BTree)
  deriving Repr, Inhabited

def isMid (pos : List Pt) (a b m : Nat) : Bool :=
  match pos[a]?, pos[b]?, pos[m]? with
  | some pa, some pb, some pm =>
    pa.length == pm.length && pb.length == pm.length &&
      (List.zip pm (List.zip pa pb)).all (fun q => 2 * q.1 == q.2.1 + q.2.2)
  | _, _, _ => false

/-- is `tr` a valid bisection tree of the simplex `S` whose leaves are the listed new cells
    (as vertex sets)? -/
def checkTree (pos : List Pt) (newCells : List (List Nat)) (S : List Nat) : BTree → Bool
  | .leaf c => sortCol S == sortCol (newCells.getD c [])
  | .node i j m l r =>
    decide (i < S.length) && decide (j < S.length) && (i != j)
      && isMid pos (S.getD i 0) (S.getD j 0) m
      && checkTree pos newCells (S.set j m) l && checkTree pos newCells (S.set i m) r

/-- numbers of the new cells at the leaves, left to right -/
def BTree.leaves : BTree → List Nat
  | .leaf c => [c]
  | .node _ _ _ l r => l.leaves ++ r.leaves

/-- the leaf simplices (as the tree derives them from `S`) with their depth -/
def BTree.leafSimplices (S : List Nat) : BTree → Nat → List (List Nat × Nat)
  | .leaf _, d => [(S, d)]
  | .node i j m l r, d => l.leafSimplices (S.set j m) (d + 1) ++ r.leafSimplices (S.set i m) (d + 1)

/-- the bisected edges `(a, b, m)` -/
def BTree.splitEdges (S : List Nat) : BTree → List (Nat × Nat × Nat)
  | .leaf _ => []
  | .node i j m l r =>
    (S.getD i 0, S.getD j 0, m) :: (l.splitEdges (S.set j m) ++ r.splitEdges (S.set i m))

def BTree.isNode : BTree → Bool
  | .leaf _ => false
  | .node .. => true

structure SMesh where
  p : List Pt
  t : List (List Nat)

/-- all bisected edges of the forest -/
def forestEdges (cells : List (List Nat)) (forest : List BTree) : List (Nat × Nat × Nat) :=
  (List.zip cells forest).flatMap (fun q => q.2.splitEdges q.1)

/-- the certificate checker.  `dim + 1` = number of vertices of a cell.
    clauses, in this order (the driver reports the first failing one):
    0 shapes, 1 old vertices keep index and position, 2 one valid bisection tree per old cell,
    3 the leaves list every new cell exactly once, 4 marked cells are bisected,
    5 exit condition: no new cell contains both ends of a bisected edge,
    6 a bisected edge has one midpoint vertex and different edges have different ones -/
def checkClauses (dim : Nat) (old new : SMesh) (forest : List BTree) (marked : List Nat) : List Bool :=
  let edges := forestEdges old.t forest
  [ forest.length == old.t.length
      && old.t.all (fun S => S.length == dim + 1 && S.all (fun v => decide (v < old.p.length)))
      && new.t.all (fun S => S.length == dim + 1 && S.all (fun v => decide (v < new.p.length)))
      && new.p.all (fun x => x.length == dim),
    decide (old.p.length ≤ new.p.length) && (new.p.take old.p.length == old.p),
    (List.zip old.t forest).all (fun q => checkTree new.p new.t q.1 q.2),
    sortCol (forest.flatMap BTree.leaves) == List.range new.t.length,
    marked.all (fun k => (forest.getD k (.leaf 0)).isNode),
    new.t.all (fun L => edges.all (fun e => !(L.contains e.1 && L.contains e.2.1))),
    edges.all (fun e => edges.all (fun e' =>
      ((e.1 == e'.1 && e.2.1 == e'.2.1) || (e.1 == e'.2.1 && e.2.1 == e'.1)) == (e.2.2 == e'.2.2))) ]

def checkRefinement (dim : Nat) (old new : SMesh) (forest : List BTree) (marked : List Nat) : Bool :=
  (checkClauses dim old new forest marked).all id

end Skv.RA
