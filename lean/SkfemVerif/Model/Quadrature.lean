import SkfemVerif.Model.Np
/-
E-quad: quadrature rules as exact scaled integers, the reflection checkers, the tensor
constructions and the dispatch of `get_quadrature` (skfem/quadrature.py).

Every IEEE double `x` of a table is the dyadic rational `m / 2^S` exactly; the generator emits
`m` for a scale `S` common to the rule (`SW` for the weights).
-/
namespace Skv

/-- nodes `coords_i / 2^S`, weights `w / 2^SW` -/
structure IRule where
  S : Nat
  SW : Nat
  pts : List (List Int × Int)
deriving Repr, DecidableEq

def powProd : List Int → List Nat → Int
  | x :: xs, e :: es => x ^ e * powProd xs es
  | _, _ => 1

/-- `Σ_q w_q Π_i x_{q,i}^{e_i}`, scaled by `2^(SW + S * |e|)` -/
def IRule.applyMono (r : IRule) (e : List Nat) : Int :=
  (r.pts.map (fun p => p.2 * powProd p.1 e)).sum

def factorial : Nat → Nat
  | 0 => 1
  | n + 1 => (n + 1) * factorial n

/-- exact integral of `x^e` over the standard `d`-simplex, `d = e.length`, as (num, den):
    `Π e_i! / (|e| + d)!` -/
def exactSimplex (e : List Nat) : Nat × Nat :=
  ((e.map factorial).foldl (· * ·) 1, factorial (e.sum + e.length))

/-- exact integral of `x^e` over the unit box: `Π 1 / (e_i + 1)` -/
def exactBox (e : List Nat) : Nat × Nat := (1, (e.map (· + 1)).foldl (· * ·) 1)

/-- prism = triangle (first two exponents) × segment (third) -/
def exactPrism (e : List Nat) : Nat × Nat :=
  let a := exactSimplex (e.take 2)
  let b := exactBox (e.drop 2)
  (a.1 * b.1, a.2 * b.2)

/-- `|rule(x^e) − num/den| ≤ 2^-tol`, in integers -/
def okMono (r : IRule) (e : List Nat) (ex : Nat × Nat) (tol : Nat) : Bool :=
  let sc : Int := 2 ^ (r.SW + r.S * e.sum)
  ((r.applyMono e * (ex.2 : Int) - (ex.1 : Int) * sc).natAbs : Int) * 2 ^ tol ≤ (ex.2 : Int) * sc

/-- all exponent vectors of length `d` with entries `≤ n` -/
def boxExponents : Nat → Nat → List (List Nat)
  | 0, _ => [[]]
  | d + 1, n => (List.range (n + 1)).flatMap (fun a => (boxExponents d n).map (fun e => a :: e))

/-- all exponent vectors of length `d` with total degree `≤ n` -/
def simplexExponents (d n : Nat) : List (List Nat) := (boxExponents d n).filter (fun e => e.sum ≤ n)

/-- total degree `≤ n` on the simplex -/
def okAllSimplex (r : IRule) (d n tol : Nat) : Bool :=
  (simplexExponents d n).all (fun e => okMono r e (exactSimplex e) tol)

/-- degree `≤ n` per direction on the box -/
def okAllBox (r : IRule) (d n tol : Nat) : Bool :=
  (boxExponents d n).all (fun e => okMono r e (exactBox e) tol)

/-- nodes in the closed simplex: all coordinates `≥ 0`, sum `≤ 1` -/
def insideSimplex (r : IRule) : Bool :=
  r.pts.all (fun p => p.1.all (fun x => 0 ≤ x) && p.1.sum ≤ 2 ^ r.S)

def insideBox (r : IRule) : Bool :=
  r.pts.all (fun p => p.1.all (fun x => 0 ≤ x && x ≤ 2 ^ r.S))

/-- weights sum to the measure `num/den` within `2^-tol` -/
def weightsOk (r : IRule) (meas : Nat × Nat) (tol : Nat) : Bool :=
  ((((r.pts.map (·.2)).sum * (meas.2 : Int) - (meas.1 : Int) * 2 ^ r.SW).natAbs : Int)) * 2 ^ tol
    ≤ (meas.2 : Int) * 2 ^ r.SW

/-! ### tensor constructions (`np.meshgrid` + `flatten('F')`) -/

/-- quadrilateral: flat index `i + n j`, node `(X[j], X[i])`, weight `W[j] W[i]` -/
def tensor2 (r : IRule) : IRule :=
  { S := r.S, SW := r.SW + r.SW,
    pts := r.pts.flatMap (fun pj => r.pts.map (fun pi => (pj.1 ++ pi.1, pj.2 * pi.2))) }

/-- hexahedron: flat index `i + n j + n² k`, node `(X[j], X[i], X[k])` -/
def tensor3 (r : IRule) : IRule :=
  { S := r.S, SW := r.SW + r.SW + r.SW,
    pts := r.pts.flatMap (fun pk => r.pts.flatMap (fun pj => r.pts.map (fun pi =>
      (pj.1 ++ pi.1 ++ pk.1, pj.2 * pi.2 * pk.2)))) }

/-- prism (repaired construction): for each line node (slow), all triangle nodes (fast);
    node `(tri_x, tri_y, line)`; both rules must share the node scale `S` -/
def tensorPrism (tri line : IRule) : IRule :=
  { S := tri.S, SW := tri.SW + line.SW,
    pts := line.pts.flatMap (fun pl => tri.pts.map (fun pt => (pt.1 ++ pl.1, pl.2 * pt.2))) }

/-! ### dispatch -/

/-- number of Gauss points used for order `n`: `ceil((n+1)/2)` after `n ≤ 1 ↦ 2` -/
def lineNumPoints (n : Int) : Nat :=
  let m : Nat := if n ≤ 1 then 2 else n.toNat
  (m + 2) / 2

/-- triangle: `n ≤ 1 ↦ 2`, then dictionary lookup (`none` = NotImplementedError) -/
def lookupTri (table : List (Nat × IRule)) (n : Int) : Option IRule :=
  let m : Nat := if n ≤ 1 then 2 else n.toNat
  (table.find? (fun p => p.1 == m)).map (·.2)

/-- tetrahedron: `n < 1 ↦ 1` -/
def lookupTet (table : List (Nat × IRule)) (n : Int) : Option IRule :=
  let m : Nat := if n < 1 then 1 else n.toNat
  (table.find? (fun p => p.1 == m)).map (·.2)

/-- line: table indexed by the number of Gauss points (`none` = beyond the generated tables) -/
def lookupLine (table : List (Nat × IRule)) (n : Int) : Option IRule :=
  (table.find? (fun p => p.1 == lineNumPoints n)).map (·.2)

end Skv
