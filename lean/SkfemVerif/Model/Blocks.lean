import SkfemVerif.Model.Dofs
import SkfemVerif.Model.Assembly
/-
E-blocks: vector / composite / block structures (C19).

* `ElementVector.gbasis` index decoding, `ElementVector.__init__` DOF counts
  (skfem/element/element_vector.py)
* `ElementComposite.__init__` DOF counts and `_deduce_bfun` (skfem/element/element_composite.py)
* `AbstractBasis.split_indices` for both wrappers (skfem/assembly/basis/abstract_basis.py)
* `COOData.__add__`, `tolocal`, `fromlocal`, `dot` (skfem/assembly/form/coo_data.py)
* the block offsets reported by `bmat` (skfem/utils.py)
* `CompositeBasis` stacking of local functions (skfem/assembly/basis/composite_basis.py)

Core Lean only (linked into the driver).  Everything lives in `Skv.Blocks` (no clashes with the
other models); only `Skv.DofCounts.get` is added to the parent namespace (dot notation).
-/
namespace Skv.Blocks

/-! ### ElementVector -/

/-- `ind = int(floor(i / dim))`, `n = i - dim * ind`: local function `i` of the wrapper is the
    scalar function `ind` placed in component `n`; returned as `(component, function)` -/
def vecDecode (dim i : Nat) : Nat × Nat := (i - dim * (i / dim), i / dim)

/-- `self.nodal_dofs = self.elem.nodal_dofs * self.dim`, … -/
def vecCounts (dim : Nat) (c : DofCounts) : DofCounts :=
  ⟨c.nodal * dim, c.edge * dim, c.facet * dim, c.interior * dim⟩

/-! ### ElementComposite -/

/-- `self.nodal_dofs = sum([e.nodal_dofs for e in self.elems])`, … -/
def sumCounts (cs : List DofCounts) : DofCounts :=
  ⟨(cs.map (·.nodal)).sum, (cs.map (·.edge)).sum, (cs.map (·.facet)).sum, (cs.map (·.interior)).sum⟩

/-- entity counts of the reference cell: `refdom.nnodes`, `refdom.nedges`, `refdom.nfacets` -/
structure RefCounts where
  nnodes : Nat
  nedges : Nat
  nfacets : Nat
deriving Repr, DecidableEq

/-- counts by kind number: 0 nodal, 1 edge, 2 facet, 3 interior -/
def _root_.Skv.DofCounts.get (c : DofCounts) : Nat → Nat
  | 0 => c.nodal
  | 1 => c.edge
  | 2 => c.facet
  | _ => c.interior

/-- entities of each kind in one cell (one "interior") -/
def RefCounts.get (r : RefCounts) : Nat → Nat
  | 0 => r.nnodes
  | 1 => r.nedges
  | 2 => r.nfacets
  | _ => 1

/-- `tmp = sum([[j] * self.elems[j].<kind>_dofs for j in range(len(self.elems))], [])` -/
def kindPattern (cnts : List Nat) : List Nat :=
  (List.range cnts.length).flatMap (fun j => List.replicate (cnts.getD j 0) j)

/-- `if counts[kind] > 0: ns += sum([tmp for j in range(int(counts[kind] / len(tmp)))], [])` -/
def kindBlock (cnts : List Nat) (total : Nat) : List Nat :=
  if total > 0 then
    (List.replicate (total / (kindPattern cnts).length) (kindPattern cnts)).flatten
  else []

/-- the list `ns` of `_deduce_bfun`: component of every local basis function;
    `counts = sum of e._bfun_counts()`, `_bfun_counts = [nodal * nnodes, edge * nedges,
    facet * nfacets, interior]` -/
def bfunNs (cs : List DofCounts) (r : RefCounts) : List Nat :=
  (List.range 4).flatMap (fun t =>
    kindBlock (cs.map (fun c => c.get t)) ((cs.map (fun c => c.get t * r.get t)).sum))

/-- `inds[mask == j] = arange(total)`: rank of position `i` among the positions of its component -/
def rankAt (ns : List Nat) (i : Nat) : Nat := (ns.take i).count (ns.getD i 0)

/-- `_deduce_bfun(i) = (ns[i], inds[i])`: (component, basis function of the component) -/
def deduceBfun (cs : List DofCounts) (r : RefCounts) (i : Nat) : Nat × Nat :=
  ((bfunNs cs r).getD i 0, rankAt (bfunNs cs r) i)

/-- number of rows of the per-cell DOF table / local basis functions before the block of kind `t` -/
def rowBase (c : DofCounts) (r : RefCounts) (t : Nat) : Nat :=
  ((List.range t).map (fun s => c.get s * r.get s)).sum

/-- number of local basis functions (`Nbfun`) -/
def nbfun (c : DofCounts) (r : RefCounts) : Nat := rowBase c r 4

/-- the counts of the components before component `k` (`o` in `split_indices`) -/
def compOffsets (cs : List DofCounts) (k : Nat) : DofCounts := sumCounts (cs.take k)

/-! ### split_indices -/

/-- `a.flatten('F')` of a 2-D table given by rows -/
def flattenF (rows : List (List Nat)) : List Nat :=
  (List.range (rows.headD []).length).flatMap (fun e => rows.map (fun row => row.getD e 0))

/-- `table[o:(o + cnt)]` -/
def sliceRows (table : List (List Nat)) (o cnt : Nat) : List (List Nat) := (table.drop o).take cnt

/-- `table[k::dim]` -/
def strideRows (table : List (List Nat)) (k dim : Nat) : List (List Nat) :=
  (List.range ((table.length - k + dim - 1) / dim)).map (fun a => table.getD (k + a * dim) [])

/-- `split_indices()[k]` for an `ElementComposite` with component counts `cs` -/
def splitIndicesComposite (cs : List DofCounts) (tp : Topo) (k : Nat) : List Nat :=
  let C := sumCounts cs
  let o := compOffsets cs k
  let e := cs.getD k ⟨0, 0, 0, 0⟩
  flattenF (sliceRows (nodalDofs C tp) o.nodal e.nodal)
  ++ flattenF (sliceRows (edgeDofs C tp) o.edge e.edge)
  ++ flattenF (sliceRows (facetDofs C tp) o.facet e.facet)
  ++ flattenF (sliceRows (interiorDofs C tp) o.interior e.interior)

/-- `split_indices()[k]` for an `ElementVector(elem, dim)`, `c` the counts of `elem` -/
def splitIndicesVector (dim : Nat) (c : DofCounts) (tp : Topo) (k : Nat) : List Nat :=
  let C := vecCounts dim c
  flattenF (strideRows (nodalDofs C tp) k dim)
  ++ flattenF (strideRows (edgeDofs C tp) k dim)
  ++ flattenF (strideRows (facetDofs C tp) k dim)
  ++ flattenF (strideRows (interiorDofs C tp) k dim)

/-! ### CompositeBasis (`b1 * b2 * …`): local functions and DOF numbers are stacked -/

/-- local function `r` of the stacked basis belongs to basis `n`, function `p`; `nbs` the
    `Nbfun` of the bases -/
def stackDecode : List Nat → Nat → Nat × Nat
  | [], r => (0, r)
  | nb :: rest, r =>
    if r < nb then (0, r) else let d := stackDecode rest (r - nb); (d.1 + 1, d.2)

/-- `offset` of basis `n`: sum of the `N` of the earlier bases -/
def stackOffset (Ns : List Nat) (n : Nat) : Nat := (Ns.take n).sum

/-! ### COOData -/

section Coo
variable {K : Type}

/-- `indices[0]`, `indices[1]`, `data`, `shape` of a 2-tensor -/
structure Coo (K : Type) where
  rows : List Nat
  cols : List Nat
  data : List K
  shape : Nat × Nat

def Coo.triplets (c : Coo K) : List (Nat × Nat × K) := List.zip c.rows (List.zip c.cols c.data)

/-- `COOData.__add__`: `hstack` of indices and data, entrywise `max` of the shapes -/
def Coo.add (a b : Coo K) : Coo K :=
  ⟨a.rows ++ b.rows, a.cols ++ b.cols, a.data ++ b.data,
   (max a.shape.1 b.shape.1, max a.shape.2 b.shape.2)⟩

variable [Zero K]

/-- `data.reshape((a, b, c), order='C')[x][y][z]` -/
def reshape3 (b c : Nat) (data : List K) (x y z : Nat) : K := data.getD ((x * b + y) * c + z) 0

/-- `tolocal()` of a 2-tensor (repaired): `data.reshape(local_shape[::-1] + (-1,)).T` with
    `local_shape = (Nv, Nu)`; entry `[k][i][j]` -/
def tolocal (Nv nt : Nat) (data : List K) (k i j : Nat) : K := reshape3 Nv nt data j i k

/-- `tolocal()` as published: `moveaxis(data.reshape(local_shape + (-1,)), -1, 0)`;
    entry `[k][a][b]`, `a < Nv`, `b < Nu` -/
def tolocalOld (Nu nt : Nat) (data : List K) (k a b : Nat) : K := reshape3 Nu nt data a b k

/-- the nested array returned by `tolocal()`, shape `(nt, Nv, Nu)` -/
def tolocalArray (Nu Nv nt : Nat) (data : List K) : List (List (List K)) :=
  (List.range nt).map (fun k => (List.range Nv).map (fun i => (List.range Nu).map (fun j =>
    tolocal Nv nt data k i j)))

def tolocalOldArray (Nu Nv nt : Nat) (data : List K) : List (List (List K)) :=
  (List.range nt).map (fun k => (List.range Nv).map (fun a => (List.range Nu).map (fun b =>
    tolocalOld Nu nt data k a b)))

/-- `fromlocal(local).data = local.T.flatten('C')`, `local` of shape `(nt, Nv, Nu)` -/
def fromlocal (Nu Nv nt : Nat) (L : Nat → Nat → Nat → K) : List K :=
  (List.range Nu).flatMap (fun j => (List.range Nv).flatMap (fun i => (List.range nt).map (fun k =>
    L k i j)))

/-- 1-tensor (`local_shape = (Nv,)`): `data.reshape((Nv, -1)).T[k][i]` -/
def tolocalLin (nt : Nat) (data : List K) (k i : Nat) : K := data.getD (i * nt + k) 0

def fromlocalLin (Nv nt : Nat) (L : Nat → Nat → K) : List K :=
  (List.range Nv).flatMap (fun i => (List.range nt).map (fun k => L k i))

/-- `COOData.dot(x, D)`: `z[D] = x[D]` after the product -/
def cooDotD [Add K] [Mul K] (T : List (Nat × Nat × K)) (x : Nat → K) (D : List Nat) (r : Nat) : K :=
  if D.contains r then x r else cooDot T x r

end Coo

/-! ### assembly over a list of cells (a basis restricted to `elements=cells`) -/

section On
variable {K : Type} [Add K] [Mul K] [Zero K]

def bilinearTripletsOn (cells : List Nat) (Nu Nv nq : Nat) (f : Sample K → Sample K → Sample K → K)
    (ub vb : BasisData K) (w : Nat → Nat → Sample K) (dx : Nat → Nat → K)
    (udofs vdofs : Nat → Nat → Nat) : List (Nat × Nat × K) :=
  bilinearTriplets Nu Nv cells.length nq f
    (fun j k q => ub j (cells.getD k 0) q) (fun i k q => vb i (cells.getD k 0) q)
    (fun k q => w (cells.getD k 0) q) (fun k q => dx (cells.getD k 0) q)
    (fun j k => udofs j (cells.getD k 0)) (fun i k => vdofs i (cells.getD k 0))

end On

/-! ### `tolocal(basis=facetbasis)`: local facet tensors summed to elemental tensors -/

section Facets
variable {K : Type} [Add K] [Zero K]

/-- repaired: `np.add.at(out, basis.tind, local)` — every facet tensor is added to the cell it was
    evaluated in (`tind[f]`); value for cell `k` of one fixed local entry `L f` -/
def sumToCells (tind : List Nat) (L : Nat → K) (k : Nat) : K :=
  (((List.range tind.length).filter (fun f => tind.getD f 0 == k)).map L).sum

/-- as published: `out[basis.find] = local; local = sum(out[mesh.t2f], axis=0)` — every facet of
    cell `k` contributes, whichever cell it was evaluated in -/
def sumToCellsOld (find : List Nat) (t2f : List (List Nat)) (L : Nat → K) (k : Nat) : K :=
  (t2f.map (fun row => if find.contains (row.getD k 0) then L (find.idxOf (row.getD k 0)) else 0)).sum

end Facets

/-! ### `bmat(...).blocks` -/

/-- one pass of the loop over the block columns: `sizes.append(size + diff)`, then
    `diff = sizes[-1]` (repaired) / `diff += sizes[-1]` (as published) -/
def bmatStep (old : Bool) (st : Nat × List Nat) (sz : Nat) : Nat × List Nat :=
  (if old then st.1 + (sz + st.1) else sz + st.1, st.2 ++ [sz + st.1])

/-- `mat.blocks` for block columns of the given widths (`for j in range(n - 1)`) -/
def bmatBlocks (old : Bool) (widths : List Nat) : List Nat :=
  (widths.dropLast.foldl (bmatStep old) (0, [])).2

end Skv.Blocks
