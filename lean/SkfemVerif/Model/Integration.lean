import SkfemVerif.Model.Quadrature
import SkfemVerif.Model.Assembly
/-
E-int: how the bases turn a reference rule into integration weights on the mesh
(`CellBasis.dx = |detDF| * W`, `FacetBasis.dx = |detDG| * W`) and the resulting discrete
integral of a function given by its samples at the mapped quadrature points.
-/
namespace Skv

/-- `np.abs(detDF) * broadcast(W)` for affine cells: row `k` is `|det_k| * W` -/
def cellDx (absdet : List Rat) (W : List Rat) : List (List Rat) :=
  absdet.map (fun d => W.map (fun w => d * w))

section Generic
variable {K : Type} [Add K] [Mul K] [Zero K]

/-- the discrete integral `Σ_k Σ_q g(k, q) * dx(k, q)` over a list of cells (subdomain / facet set) -/
def discreteIntegral (cells : List Nat) (nq : Nat) (g dx : Nat → Nat → K) : K :=
  (cells.map (fun k => ((List.range nq).map (fun q => g k q * dx k q)).sum)).sum

end Generic

/-- 2×2 / 3×3 determinants of the edge matrix of a simplex given by its vertices (rows = vertices) -/
def det2 (a b c : Rat × Rat) : Rat :=
  (b.1 - a.1) * (c.2 - a.2) - (c.1 - a.1) * (b.2 - a.2)

def det3 (a b c d : Rat × Rat × Rat) : Rat :=
  let u := (b.1 - a.1, b.2.1 - a.2.1, b.2.2 - a.2.2)
  let v := (c.1 - a.1, c.2.1 - a.2.1, c.2.2 - a.2.2)
  let w := (d.1 - a.1, d.2.1 - a.2.1, d.2.2 - a.2.2)
  u.1 * (v.2.1 * w.2.2 - v.2.2 * w.2.1) - u.2.1 * (v.1 * w.2.2 - v.2.2 * w.1)
    + u.2.2 * (v.1 * w.2.1 - v.2.1 * w.1)

end Skv
