import SkfemVerif.Model.Assembly
/-
C20: the COO bookkeeping of `NonlinearForm._assemble` (skfem/autodiff/__init__.py).

```
for i in range(Nbfun):                                   # TEST function v_i
    y, DF = linearize(lambda U: form(*U, *V_i, w), x)     # x = basis.interpolate(coefficients)
    for j in range(Nbfun):                               # TRIAL function u_j
        DFU = DF(basis[j])
        ixs = slice(nt * (Nbfun * j + i), nt * (Nbfun * j + i + 1))
        rows[ixs] = element_dofs[i]; cols[ixs] = element_dofs[j]
        data[j, i, :] = sum(DFU * dx, axis=1)
    rows1[nt*i : nt*(i+1)] = element_dofs[i]; data1[...] = sum(y * dx, axis=1)
return (rows, cols, data.flatten('C')), (rows1, -data1)
```

JAX enters as a pair of functions: `f x v w` is the value `y` that `linearize` returns (the
integrand at the interpolated linearisation point `x`, test function `v`), and `df x h v w` is
what the returned linear map `DF` gives on the direction `h`.  That `df` is the TRUE directional
derivative of `f` in its first argument is the JAX contract; it is a hypothesis of the theorems
(`Props/C20.lean`), not part of the model.  For the polynomial integrand grammar below the
derivative is computed formally, which makes the model executable (driver op `nl.assemble`).

Samples, basis data, weights and DOF tables are as in `Model/Assembly.lean`; the flat layout of
the triplets is the one of `bilinearTriplets` (`flatSlot Nb nt i j k`).
-/
namespace Skv

section Generic
variable {K : Type} [Add K] [Mul K] [Zero K]

/-- Jacobian triplets `(row, col, value)` in the order of the flat arrays: position
    `nt * (Nb * j + i) + k` holds row = TEST dof `dofs i k`, col = TRIAL dof `dofs j k`,
    value = `Σ_q DF_i(x_h)[u_j] dx`. -/
def nlJacTriplets (Nb nt nq : Nat) (df : Sample K → Sample K → Sample K → Sample K → K)
    (b : BasisData K) (w : Nat → Nat → Sample K) (dx : Nat → Nat → K)
    (dofs : Nat → Nat → Nat) (x : Nat → K) : List (Nat × Nat × K) :=
  (List.range Nb).flatMap (fun j => (List.range Nb).flatMap (fun i => (List.range nt).map (fun k =>
    (dofs i k, dofs j k,
      ((List.range nq).map (fun q =>
        df (interp Nb x dofs b k q) (b j k q) (b i k q) (w k q) * dx k q)).sum))))

/-- right-hand side pairs `(row, value)`: position `nt * i + k` holds row = TEST dof `dofs i k`,
    value = `−Σ_q y_i dx` (the returned vector is `-data1`). -/
def nlResPairs [Neg K] (Nb nt nq : Nat) (f : Sample K → Sample K → Sample K → K)
    (b : BasisData K) (w : Nat → Nat → Sample K) (dx : Nat → Nat → K)
    (dofs : Nat → Nat → Nat) (x : Nat → K) : List (Nat × K) :=
  (List.range Nb).flatMap (fun i => (List.range nt).map (fun k =>
    (dofs i k,
      -((List.range nq).map (fun q => f (interp Nb x dofs b k q) (b i k q) (w k q) * dx k q)).sum)))

/-! ### polynomial integrand grammar with its formal derivative -/

/-- one term `coef * Π_{c ∈ ucs} u[c] * v[vc] * w[wc]` (a monomial in the components of the
    unknown and its derivatives, linear in the test function) -/
structure NLTerm (K : Type) where
  coef : K
  ucs : List Nat
  vc : Nat
  wc : Nat

variable [One K]

def monoVal : List Nat → Sample K → K
  | [], _ => 1
  | c :: cs, a => a c * monoVal cs a

/-- Leibniz rule: derivative of `Π a[c]` in the direction `h` -/
def monoDeriv : List Nat → Sample K → Sample K → K
  | [], _, _ => 0
  | c :: cs, a, h => h c * monoVal cs a + a c * monoDeriv cs a h

def NLTerm.eval (t : NLTerm K) (a b w : Sample K) : K :=
  t.coef * monoVal t.ucs a * b t.vc * w t.wc

def NLTerm.deriv (t : NLTerm K) (a h b w : Sample K) : K :=
  t.coef * monoDeriv t.ucs a h * b t.vc * w t.wc

def evalNL (ts : List (NLTerm K)) (a b w : Sample K) : K := (ts.map (fun t => t.eval a b w)).sum

def evalNLDeriv (ts : List (NLTerm K)) (a h b w : Sample K) : K :=
  (ts.map (fun t => t.deriv a h b w)).sum

end Generic

end Skv
