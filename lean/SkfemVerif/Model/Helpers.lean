/-
T3 support for C20: the small (core-Lean) vocabulary the GENERATED file
`Gen/HelperFormulas.lean` is written in.

The translator `harness/skv/gens/helpers.py` lifts the closed-form bodies of the integrand
helpers of `skfem/helpers.py` (NumPy) and `skfem/autodiff/helpers.py` (JAX) from the live source
and emits one Lean term per helper / size.  A tensor with leading ("logical") shape `(d₁,…,d_r)`
over arbitrary trailing axes is a function `Fin d₁ → … → Fin d_r → R` of its entries at ONE
trailing position (every helper acts pointwise over the trailing axes); `np.array([a, b, c])`
literals become `vec3 a b c`.  The terms only use `+ - * /`, unary minus and `Nat` literals, so
they are generic over core type classes: the driver evaluates them over `Rat`, the theorems of
`Props/C20.lean` instantiate them over an arbitrary commutative ring / field.
-/
namespace Skv

/-- `np.array([a, b])` along a leading axis of length 2 -/
def vec2 {α : Type} (a b : α) : Fin 2 → α := fun i => if i.val = 0 then a else b

/-- `np.array([a, b, c])` along a leading axis of length 3 -/
def vec3 {α : Type} (a b c : α) : Fin 3 → α :=
  fun i => if i.val = 0 then a else if i.val = 1 then b else c

/-! ### (un)flattening used by the driver table: C order, as `ndarray.flatten()` -/

def tens0 (l : List Rat) : Rat := l.getD 0 0

def tens1 (d : Nat) (l : List Rat) : Fin d → Rat := fun i => l.getD i.val 0

def tens2 (d1 d2 : Nat) (l : List Rat) : Fin d1 → Fin d2 → Rat :=
  fun i j => l.getD (i.val * d2 + j.val) 0

def tens3 (d1 d2 d3 : Nat) (l : List Rat) : Fin d1 → Fin d2 → Fin d3 → Rat :=
  fun i j k => l.getD ((i.val * d2 + j.val) * d3 + k.val) 0

def flat0 (x : Rat) : List Rat := [x]

def flat1 {d : Nat} (f : Fin d → Rat) : List Rat := (List.finRange d).map f

def flat2 {d1 d2 : Nat} (f : Fin d1 → Fin d2 → Rat) : List Rat :=
  (List.finRange d1).flatMap (fun i => flat1 (f i))

def flat3 {d1 d2 d3 : Nat} (f : Fin d1 → Fin d2 → Fin d3 → Rat) : List Rat :=
  (List.finRange d1).flatMap (fun i => flat2 (f i))

/-- F3: the 3×3 branch of `skfem.autodiff.helpers.det` as it stood on the pinned tree
    (`A[1, 0] * A[2, 2] - - A[1, 2] * A[2, 0]`: doubled minus sign in the second cofactor).
    Hand-written record of the OLD code; the current code is in `Gen/HelperFormulas.lean`. -/
def jaxDet3Old {R : Type} [Add R] [Sub R] [Mul R] [Neg R] (A : Fin 3 → Fin 3 → R) : R :=
  A 0 0 * (A 1 1 * A 2 2 - A 1 2 * A 2 1)
    - A 0 1 * (A 1 0 * A 2 2 - -A 1 2 * A 2 0)
    + A 0 2 * (A 1 0 * A 2 1 - A 1 1 * A 2 0)

end Skv
