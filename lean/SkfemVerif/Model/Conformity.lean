/-
E-conf: the sign / orientation rules that make vector-valued and hierarchical elements conforming
(`ElementHcurl.orient`, `ElementHdiv.orient`, the odd-mode orientation of `ElementQuadP`).
Core Lean only.
-/
namespace Skv

/-- `ElementHcurl.orient`: `1 - 2 * (t[a] > t[b])` for the local edge `(a, b)` of a cell whose
    vertices carry the global numbers `ta`, `tb` -/
def hcurlOri (ta tb : Nat) : Int := 1 - 2 * (if ta > tb then 1 else 0)

/-- sign of the local edge direction `a → b` relative to the global direction low → high -/
def dirSign (ta tb : Nat) : Int := if ta < tb then 1 else -1

/-- `ElementHdiv.orient`: `-1 + 2 * (f2t[0, t2f[i, K]] == K)` -/
def hdivOri (f2t0 k : Nat) : Int := -1 + 2 * (if f2t0 == k then 1 else 0)

/-- orientation factor of the edge mode of order `ind` of `ElementQuadP`: odd modes are multiplied
    by the edge orientation, even modes are not -/
def quadpFactor (ta tb ind : Nat) : Int := if ind % 2 == 1 then hcurlOri ta tb else 1

/-- parity of the integrated Legendre mode of order `ind` under reversal of the edge parameter -/
def modeParity (ind : Nat) : Int := if ind % 2 == 1 then -1 else 1

end Skv
