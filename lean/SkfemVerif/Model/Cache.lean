/-
E-state: executable model of the caching / closure logic of scikit-fem (property C15).

* `Memo` : generic memo machine  `step : Store → Arg → Store × Val`  for a pure function
  `f : Arg → Val`, a key function `κ : Arg → Key` and an eviction policy `keep`
  (store = association list key ↦ value, newest first; a hit returns the STORED value).
* `NpArr` : a NumPy array as (dtype kind, itemsize, shape, items as bit patterns) with its
  little-endian `tobytes` serialisation.
* `Arg`, `Guard`, `ViewKind`, `keyOf`, `viewOf` : the cache sites of the library.  A site is described by the
  *guard* that decides hit/miss (lifted from the source by `harness/skv/gens/cache.py`) and by the
  *view* = the part of the call arguments the cached expression reads.
* `Closure` : the solver-factory closures (`solver_iter_krylov`, `solver_direct_scipy`, …): a captured
  keyword dictionary, old behaviour (`captured.update(solve_time_kwargs)`) and repaired behaviour
  (merge into a local dictionary).

Core Lean only (linked into the driver).
-/
namespace Skv.Cache

/-! ## generic memo machine -/

abbrev Store (K V : Type) := List (K × V)

def lookup {K V : Type} [DecidableEq K] : Store K V → K → Option V
  | [], _ => none
  | (k', v) :: r, k => if k' = k then some v else lookup r k

/-- one call.  Hit: the stored value is returned, the store is unchanged.  Miss: `f a` is computed,
    stored under `κ a`, and the eviction policy `keep` is applied. -/
def step {A K V : Type} [DecidableEq K] (f : A → V) (κ : A → K) (keep : Store K V → Store K V)
    (s : Store K V) (a : A) : Store K V × V :=
  match lookup s (κ a) with
  | some v => (s, v)
  | none => (keep ((κ a, f a) :: s), f a)

/-- a finite call history, started in store `s`; returns the final store and every output -/
def run {A K V : Type} [DecidableEq K] (f : A → V) (κ : A → K) (keep : Store K V → Store K V) :
    Store K V → List A → Store K V × List V
  | s, [] => (s, [])
  | s, a :: h =>
    let r := step f κ keep s a
    let q := run f κ keep r.1 h
    (q.1, r.2 :: q.2)

/-- outputs of a history started with a cold cache (freshly constructed object) -/
def outputs {A K V : Type} [DecidableEq K] (f : A → V) (κ : A → K) (keep : Store K V → Store K V)
    (h : List A) : List V := (run f κ keep [] h).2

/-- eviction policies of the library: keep everything (dictionary / set-once attribute) or keep
    only the newest entry (`ElementQuadP._X`, `ElementLinePp._X`, `ElementGlobal._V_mesh`) -/
inductive Policy | all | last
  deriving DecidableEq, Repr

def Policy.keep {K V : Type} : Policy → Store K V → Store K V
  | .all, s => s
  | .last, s => s.take 1

/-! ## objects with lazily attached attributes and `dataclasses.replace` -/

/-- an object = its declared fields + the store of lazily attached attributes -/
structure Obj (F K V : Type) where
  fields : F
  cache : Store K V

/-- `dataclasses.replace(o, **changes)`: a new object is built from the (changed) declared fields only;
    lazily attached attributes are not fields, so the new object starts cold -/
def Obj.replace {F K V : Type} (o : Obj F K V) (g : F → F) : Obj F K V := ⟨g o.fields, []⟩

/-- what a copy that carried the lazily attached attributes over would be (e.g. `copy.copy` followed by
    assignment of a field) -/
def Obj.copyKeepingCache {F K V : Type} (o : Obj F K V) (g : F → F) : Obj F K V := ⟨g o.fields, o.cache⟩

/-- a history of cached calls on an object; the cached computation reads the fields -/
def Obj.calls {F A K V : Type} [DecidableEq K] (f : F → A → V) (κ : A → K)
    (keep : Store K V → Store K V) (o : Obj F K V) (h : List A) : List V :=
  (run (f o.fields) κ keep o.cache h).2

/-! ## NumPy arrays and their byte serialisation -/

/-- `kind`: dtype kind code (0 = signed int, 1 = unsigned int, 2 = float, 3 = bool);
    `width`: itemsize in bytes; `vals`: the items in C order as bit patterns `< 256 ^ width`
    (two's complement / IEEE-754). -/
structure NpArr where
  kind : Nat
  width : Nat
  shape : List Nat
  vals : List Nat
  deriving DecidableEq, Repr

def NpArr.Valid (a : NpArr) : Prop :=
  0 < a.width ∧ ∀ v ∈ a.vals, v < 256 ^ a.width

instance (a : NpArr) : Decidable a.Valid := by unfold NpArr.Valid; infer_instance

/-- little-endian bytes of one item -/
def leBytes : Nat → Nat → List Nat
  | 0, _ => []
  | w + 1, v => v % 256 :: leBytes w (v / 256)

def ofLeBytes : List Nat → Nat
  | [] => 0
  | b :: r => b + 256 * ofLeBytes r

/-- `ndarray.tobytes()` (C order, little endian) -/
def NpArr.tobytes (a : NpArr) : List Nat := (a.vals.map (leBytes a.width)).flatten

/-! ## cache sites -/

/-- arguments of a cached call: `obj` = identity of an object-valued argument (the mesh behind
    `mapping`; 0 if none), `ints` = hashable scalar arguments, `arrs` = array arguments (`none` = `None`) -/
structure Arg where
  obj : Nat
  ints : List Int
  arrs : List (Option NpArr)
  deriving DecidableEq, Repr

def optValid : Option NpArr → Prop
  | none => True
  | some y => y.Valid

instance (x : Option NpArr) : Decidable (optValid x) := by
  cases x <;> (unfold optValid; infer_instance)

def Arg.Valid (a : Arg) : Prop := ∀ x ∈ a.arrs, optValid x

instance (a : Arg) : Decidable a.Valid := by unfold Arg.Valid; infer_instance

/-- what the guard of a cache site compares -/
inductive Guard
  | unit             -- `not hasattr(self, '_x')`, `self._x is None`: filled once
  | identity         -- additionally `self._ref is not arg.obj`: object identity of an argument
  | npoints          -- `self.P.shape[1] != X.shape[1]`: number of points only
  | shapeValues      -- `self._X.shape != X.shape or (self._X != X).any()`
  | bytes            -- `hash_args`: `hash(arg.tobytes())` per array, `hash(arg)` otherwise
  | shapeDtypeBytes  -- `hash_args`: `hash((arg.shape, arg.dtype.str, arg.tobytes()))`
  deriving DecidableEq, Repr

/-- which part of the call arguments the cached expression reads -/
inductive ViewKind
  | selfOnly   -- only (never reassigned) fields of the owner
  | objArg     -- an object-valued argument (`mapping.mesh`)
  | arrays     -- shape and values of the array arguments
  | allArgs    -- every argument, dtype included
  deriving DecidableEq, Repr

/-- common shape of keys and views: scalar part and, per array argument, (shape part, kind, width, data) -/
structure GKey where
  ids : List Int
  arrs : List (Option (List Nat × Nat × Nat × List Nat))
  deriving DecidableEq, Repr

def keyOf : Guard → Arg → GKey
  | .unit, _ => ⟨[], []⟩
  | .identity, a => ⟨[(a.obj : Int)], []⟩
  | .npoints, a => ⟨[], a.arrs.map (Option.map fun x => ([x.shape.getD 1 0], 0, 0, []))⟩
  | .shapeValues, a => ⟨[], a.arrs.map (Option.map fun x => (x.shape, 0, 0, x.vals))⟩
  | .bytes, a => ⟨(a.obj : Int) :: a.ints, a.arrs.map (Option.map fun x => ([], 0, 0, x.tobytes))⟩
  | .shapeDtypeBytes, a =>
    ⟨(a.obj : Int) :: a.ints, a.arrs.map (Option.map fun x => (x.shape, x.kind, x.width, x.tobytes))⟩

def viewOf : ViewKind → Arg → GKey
  | .selfOnly, _ => ⟨[], []⟩
  | .objArg, a => ⟨[(a.obj : Int)], []⟩
  | .arrays, a => ⟨[], a.arrs.map (Option.map fun x => (x.shape, 0, 0, x.vals))⟩
  | .allArgs, a =>
    ⟨(a.obj : Int) :: a.ints, a.arrs.map (Option.map fun x => (x.shape, x.kind, x.width, x.vals))⟩

/-- the decision table: does equality of the guard's key force equality of the view? -/
def determines : Guard → ViewKind → Bool
  | _, .selfOnly => true
  | .identity, .objArg => true
  | .bytes, .objArg => true
  | .shapeDtypeBytes, _ => true
  | .shapeValues, .arrays => true
  | _, _ => false

/-- a cache site as described by the generated table -/
structure Site where
  name : String
  fn : String       -- qualified name of the function that contains the guard
  guard : Guard
  view : ViewKind
  policy : Policy
  deriving DecidableEq, Repr

def Site.sound (s : Site) : Bool := determines s.guard s.view

/-- the memo machine of a site -/
def siteOutputs {V : Type} (g : Guard) (p : Policy) (f : Arg → V) (h : List Arg) : List V :=
  outputs f (keyOf g) p.keep h

/-- "served from": run the machine with the call index as value, so that the output of call `n`
    tells which earlier call computed the value that is returned (used by the correspondence op) -/
def servedFrom (g : Guard) (p : Policy) (h : List Arg) : List Nat :=
  outputs (fun (x : Nat × Arg) => x.1) (fun x => keyOf g x.2) p.keep
    ((List.range h.length).zip h)

/-! ### witnesses for the unsound combinations (replayed on the implementation by the check) -/

/-- `np.array([1], dtype=np.int64)` -/
def wInt64 : NpArr := ⟨0, 8, [1], [1]⟩
/-- `np.array([1, 0], dtype=np.int32)` -/
def wInt32 : NpArr := ⟨0, 4, [2], [1, 0]⟩
/-- two point sets of equal size (values are bit patterns; any two different ones do) -/
def wPtsA : NpArr := ⟨2, 8, [1, 3], [10, 20, 30]⟩
def wPtsB : NpArr := ⟨2, 8, [1, 3], [11, 21, 31]⟩
/-- same shape and items, different dtype (`int64 [1]` vs `uint64 [1]`) -/
def wUInt64 : NpArr := ⟨1, 8, [1], [1]⟩

/-! ## closures of the solver factories -/

abbrev Dict := List (String × Int)

def Dict.get? : Dict → String → Option Int
  | [], _ => none
  | (k', v) :: r, k => if k' = k then some v else Dict.get? r k

/-- `d[k] = v` (position of an existing key is kept, as in a Python dict) -/
def Dict.set : Dict → String → Int → Dict
  | [], k, v => [(k, v)]
  | (k', v') :: r, k, v => if k' = k then (k', v) :: r else (k', v') :: Dict.set r k v

/-- `{**d, **e}` / `d.update(e)` -/
def Dict.merge (d e : Dict) : Dict := e.foldl (fun acc kv => acc.set kv.1 kv.2) d

/-- one solve: `A` identifies the matrix, `kw` are the solve-time keyword arguments -/
structure SolveCall where
  A : Nat
  kw : Dict
  deriving DecidableEq, Repr

/-- value standing for `build_pc_diag(A)` -/
def pcOf (A : Nat) : Int := -((A : Int) + 1)

/-- the keyword dictionary handed to the backend: the Krylov factory supplies a diagonal
    preconditioner of the CURRENT matrix when none is given (`needsM`) -/
def effective (needsM : Bool) (d : Dict) (A : Nat) : Dict :=
  if needsM && (d.get? "M").isNone then d.set "M" (pcOf A) else d

inductive ClosureKind
  | capturedUpdate   -- `kwargs.update(solve_time_kwargs)`; `kwargs['M'] = …` on the captured dict
  | localMerge       -- `{**kwargs, **solve_time_kwargs}` into a local dict
  deriving DecidableEq, Repr

/-- state = captured dictionary; output = dictionary the backend receives -/
def closureStep (k : ClosureKind) (needsM : Bool) (cap : Dict) (c : SolveCall) : Dict × Dict :=
  match k with
  | .capturedUpdate => let d := effective needsM (cap.merge c.kw) c.A; (d, d)
  | .localMerge => (cap, effective needsM (cap.merge c.kw) c.A)

def closureRun (k : ClosureKind) (needsM : Bool) : Dict → List SolveCall → Dict × List Dict
  | cap, [] => (cap, [])
  | cap, c :: h =>
    let r := closureStep k needsM cap c
    let q := closureRun k needsM r.1 h
    (q.1, r.2 :: q.2)

/-- what a freshly made closure (same factory arguments) hands to the backend for call `c` -/
def closureFresh (k : ClosureKind) (needsM : Bool) (cap : Dict) (c : SolveCall) : Dict :=
  (closureStep k needsM cap c).2

structure ClosureSite where
  name : String
  kind : ClosureKind
  needsM : Bool
  deriving DecidableEq, Repr

def ClosureSite.sound (s : ClosureSite) : Bool := s.kind == .localMerge

end Skv.Cache
