import SkfemVerif.Model.Np
/-
E-lin: `_init_bc`, `condense`, `enforce` (dense semantics and the CSR row-zeroing index
arithmetic), `penalize`, `mpc`, and the expansion done by `solve` (skfem/utils.py).

Matrices are functions `Nat → Nat → K` (entry `(i, j)`), vectors `Nat → K`; `n` is the size.
-/
namespace Skv

/-- `_init_bc`: exactly one of `I`, `D` must be given; the other one is the ascending complement.
    A given `D` is normalised with `np.unique`. Returns `(I, D)`; `none` = the code raises. -/
def initBC (n : Nat) (I D : Option (List Nat)) : Option (List Nat × List Nat) :=
  match I, D with
  | none, none => none
  | none, some D => some (complementRange n (unique D), unique D)
  | some I, none => some (I, complementRange n I)
  | some _, some _ => none

section Generic
variable {K : Type} [Add K] [Mul K] [Zero K] [Sub K]

def dotList (l : List Nat) (f : Nat → K) : K := (l.map f).sum

/-- `A[I][:, I]` -/
def condenseMat (A : Nat → Nat → K) (I : List Nat) : List (List K) :=
  I.map (fun i => I.map (fun j => A i j))

/-- `b[I] - A[I][:, D] @ x[D]` -/
def condenseRhs (A : Nat → Nat → K) (b x : Nat → K) (I D : List Nat) : List K :=
  I.map (fun i => b i - dotList D (fun d => A i d * x d))

/-- `y = x.copy(); y[I] = sol` (fancy assignment: later positions win) -/
def expandSol (x : Nat → K) (I : List Nat) (sol : List K) : Nat → K :=
  (I.zip sol).foldl (fun acc p => fun i => if i = p.1 then p.2 else acc i) x

/-- row `p` of the condensed system applied to `sol`: `Σ_q A[I[p], I[q]] * sol[q]` -/
def condensedRowApply (A : Nat → Nat → K) (I : List Nat) (sol : List K) (i : Nat) : K :=
  ((I.zip sol).map (fun p => A i p.1 * p.2)).sum

/-- `(A z)_i` for a matrix of size `n` -/
def matVec (n : Nat) (A : Nat → Nat → K) (z : Nat → K) (i : Nat) : K :=
  ((List.range n).map (fun j => A i j * z j)).sum

/-- dense semantics of `enforce`: constrained rows become `diag * e_i`, others untouched -/
def enforceMat (A : Nat → Nat → K) (D : List Nat) (diag : K) : Nat → Nat → K :=
  fun i j => if D.contains i then (if i = j then diag else 0) else A i j

def enforceRhs (b x : Nat → K) (D : List Nat) : Nat → K :=
  fun i => if D.contains i then x i else b i

/-- dense semantics of `penalize` with `epsInv = 1/ε` -/
def penalizeMat (A : Nat → Nat → K) (D : List Nat) (epsInv : K) : Nat → Nat → K :=
  fun i j => if D.contains i && i == j then epsInv else A i j

def penalizeRhs (b x : Nat → K) (D : List Nat) (epsInv : K) : Nat → K :=
  fun i => if D.contains i then x i * epsInv else b i

/-! ### multipoint constraints (`mpc`): `x[S] = T x[M] + g` -/

/-- entry `(p, q)` of the reduced matrix
    `[[A_UU, A_UM + A_US T], [A_MU, A_MM + A_MS T]]`; rows/columns run over `U ++ M` -/
def mpcMat (A : Nat → Nat → K) (U M S : List Nat) (T : Nat → Nat → K) (p q : Nat) : K :=
  let r := (U ++ M).getD p 0
  let c := (U ++ M).getD q 0
  A r c + (if q < U.length then 0 else
    ((List.range S.length).map (fun s => A r (S.getD s 0) * T s (q - U.length))).sum)

/-- reduced right-hand side `[b_U - A_US g, b_M - A_MS g]` -/
def mpcRhs (A : Nat → Nat → K) (b : Nat → K) (U M S : List Nat) (g : Nat → K) (p : Nat) : K :=
  let r := (U ++ M).getD p 0
  b r - ((List.range S.length).map (fun s => A r (S.getD s 0) * g s)).sum

/-- the expansion `x[concat(U, M, S)] = concat(w, T w_M + g)` as a function of the global index:
    position lookup in `U ++ M`, else in `S` -/
def mpcExpand (U M S : List Nat) (T : Nat → Nat → K) (g : Nat → K) (w : Nat → K) (i : Nat) : K :=
  if (U ++ M).contains i then w ((U ++ M).idxOf i)
  else if S.contains i then
    ((List.range M.length).map (fun j => T (S.idxOf i) j * w (U.length + j))).sum + g (S.idxOf i)
  else 0

/-! ### CSR layer of `enforce` -/

structure CSR (K : Type) where
  indptr : List Nat
  indices : List Nat
  data : List K

/-- dense entry `(i, j)`: sum of the stored entries of row `i` with column index `j`
    (duplicates are summed, explicit zeros are harmless) -/
def CSR.entry (m : CSR K) (i j : Nat) : K :=
  (((List.range' (m.indptr.getD i 0) (m.indptr.getD (i + 1) 0 - m.indptr.getD i 0)).filter
      (fun p => m.indices.getD p 0 == j)).map (fun p => m.data.getD p 0)).sum

/-- `data[idx] = 0` -/
def zeroAt (data : List K) (idx : List Nat) : List K :=
  (data.zipIdx).map (fun p => if idx.contains p.2 then 0 else p.1)

end Generic

/-- `np.repeat(vals, counts)` -/
def repeatList {β : Type} : List β → List Nat → List β
  | v :: vs, c :: cs => List.replicate c v ++ repeatList vs cs
  | _, _ => []

/-- the flat positions zeroed by `enforce` (repaired arithmetic):
    `np.repeat(start - (cumsum(count) - count), count) + arange(count.sum())` -/
def rowZeroIdx (indptr : List Nat) (D : List Nat) : List Nat :=
  let start := D.map (fun d => indptr.getD d 0)
  let stop := D.map (fun d => indptr.getD (d + 1) 0)
  let count := List.zipWith (fun a b => a - b) stop start
  let cs := cumsum count
  let base : List Int := List.zipWith (fun (s : Nat) (p : Nat × Nat) => (s : Int) - ((p.1 : Int) - (p.2 : Int)))
    start (cs.zip count)
  ((repeatList base count).zipIdx).map (fun p => (p.1 + (p.2 : Int)).toNat)

/-- specification: the stored ranges of the rows in `D`, concatenated -/
def rowRanges (indptr : List Nat) (D : List Nat) : List Nat :=
  D.flatMap (fun d => List.range' (indptr.getD d 0) (indptr.getD (d + 1) 0 - indptr.getD d 0))

/-- the arithmetic of the pinned tree (before the repair):
    `idx = ones(total); idx[cumsum(count)[:-1]] -= count[:-1]; repeat(start, count) + cumsum(idx) - 1`;
    a fancy-indexed `-=` with repeated positions applies the last one only; an out-of-range
    position raises (`none`). -/
def rowZeroIdxOld (indptr : List Nat) (D : List Nat) : Option (List Nat) :=
  let start := D.map (fun d => indptr.getD d 0)
  let stop := D.map (fun d => indptr.getD (d + 1) 0)
  let count := List.zipWith (fun a b => a - b) stop start
  let total := count.sum
  let pos := (cumsum count).dropLast
  let sub := count.dropLast
  if pos.any (fun p => p ≥ total) then none else
  let idx : List Int := (List.range total).map (fun p =>
    match ((pos.zip sub).filter (fun q => q.1 == p)).getLast? with
    | some q => (1 : Int) - (q.2 : Int)
    | none => 1)
  let rec csum : List Int → Int → List Int
    | [], _ => []
    | x :: xs, acc => (acc + x) :: csum xs (acc + x)
  let ci := csum idx 0
  some (List.zipWith (fun (s : Nat) (c : Int) => ((s : Int) + c - 1).toNat) (repeatList start count) ci)

end Skv
