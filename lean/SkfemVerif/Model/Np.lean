/-
E-np: list models of the NumPy primitives used by scikit-fem's index algebra.
Core Lean only (no Mathlib): this file is linked into the driver executable.

Conventions.  A 2-D integer array is handled column-wise where the code
treats columns as entities (`np.unique(axis=1)`), i.e. as `List (List Nat)`
whose elements are the columns.
-/
namespace Skv

/-! ### sorting a column (`np.sort(axis=0)` applied to one column) -/

def insertSorted (x : Nat) : List Nat → List Nat
  | [] => [x]
  | y :: ys => if x ≤ y then x :: y :: ys else y :: insertSorted x ys

/-- `np.sort` of one column. -/
def sortCol (l : List Nat) : List Nat := l.foldr insertSorted []

/-! ### `np.unique` (sorted distinct values, first-occurrence index, inverse) -/

section Unique
variable {α : Type} [LT α] [DecidableLT α] [DecidableEq α]

/-- insert into a strictly ascending list, dropping duplicates -/
def insertU (x : α) : List α → List α
  | [] => [x]
  | y :: ys =>
    if x = y then y :: ys
    else if x < y then x :: y :: ys
    else y :: insertU x ys

/-- `np.unique(a)` / `np.unique(a, axis=1)` (values only): ascending, distinct. -/
def unique (l : List α) : List α := l.foldr insertU []

/-- `return_inverse`: position in the unique list of every input item. -/
def uniqueInverse (l : List α) : List Nat := l.map (fun x => (unique l).idxOf x)

/-- `return_index`: first occurrence in the input of every unique item. -/
def uniqueIndex (l : List α) : List Nat := (unique l).map (fun u => l.idxOf u)

end Unique

/-! ### reshape / flatten -/

/-- split a flat list into consecutive rows of length `n` (C-order reshape `(-1, n)`),
    `m` rows. -/
def reshapeRows (m n : Nat) (l : List Nat) : List (List Nat) :=
  (List.range m).map (fun i => (l.drop (i * n)).take n)

/-- transpose of a rectangular list-of-rows with `n` columns -/
def transposeN {β : Type} [Inhabited β] (n : Nat) (rows : List (List β)) : List (List β) :=
  (List.range n).map (fun j => rows.map (fun r => r.getD j default))

/-! ### `np.array_split(l, n)` : the first `len % n` chunks have one more item -/

def arraySplitSizes (len n : Nat) : List Nat :=
  (List.range n).map (fun i => len / n + (if i < len % n then 1 else 0))

def splitBySizes {β : Type} : List Nat → List β → List (List β)
  | [], _ => []
  | s :: ss, l => l.take s :: splitBySizes ss (l.drop s)

def arraySplit {β : Type} (l : List β) (n : Nat) : List (List β) :=
  splitBySizes (arraySplitSizes l.length n) l

/-! ### misc -/

def listMax (l : List Nat) : Nat := l.foldl max 0

/-- `np.setdiff1d(np.arange(n), D)` : ascending complement -/
def complementRange (n : Nat) (D : List Nat) : List Nat :=
  (List.range n).filter (fun i => !D.contains i)

/-- `np.cumsum` -/
def cumsum : List Nat → List Nat
  | [] => []
  | x :: xs => x :: (cumsum xs).map (· + x)

end Skv
