import SkfemVerif.Model.Topology
/-
E-surgery: executable models of the index algebra of the mesh surgery operations of
skfem/mesh/mesh.py, mesh_quad_1.py, mesh_hex_1.py, mesh_wedge_1.py, mesh_tri_1.py.
Core Lean only (linked into the driver).

Conventions: connectivity is cell-wise (`cells[k]` = column `k` of `t`), points are a list of
coordinate tuples (`pts[v]` = column `v` of `p`) over any type with a decidable strict order
(the driver instantiates `List Int`: dyadic coordinates scaled by a power of two, compared
lexicographically exactly like the structured `np.unique` of `_remove_duplicate_nodes`).
-/
namespace Skv

/-! ### `Mesh._reix` : renumber the used vertices by rank -/

/-- `ixuniq = np.unique(ix)` -/
def reixUsed (cells : List (List Nat)) : List Nat := unique cells.flatten

/-- the old→new vertex map: `t[ixuniq] = arange(len(ixuniq))`, read at a used vertex `v`
    (= rank of `v` among the used vertices) -/
def reixMap (cells : List (List Nat)) (v : Nat) : Nat := (reixUsed cells).idxOf v

/-- `t[ix]` -/
def reixCells (cells : List (List Nat)) : List (List Nat) :=
  cells.map (fun c => c.map (reixMap cells))

/-- `self.p[:, ixuniq]` -/
def reixPoints {α : Type} [Inhabited α] (pts : List α) (cells : List (List Nat)) : List α :=
  (reixUsed cells).map (fun v => pts.getD v default)

/-- coordinates of the vertices of a cell, in local order (`p[:, t[:, k]]`) -/
def cellCoords {α : Type} [Inhabited α] (pts : List α) (c : List Nat) : List α :=
  c.map (fun v => pts.getD v default)

/-! ### `Mesh.restrict` -/

/-- `self.t[:, elements]` -/
def selectCells (cells : List (List Nat)) (elements : List Nat) : List (List Nat) :=
  elements.map (fun k => cells.getD k [])

/-- cells of the restricted mesh -/
def restrictCells (cells : List (List Nat)) (elements : List Nat) : List (List Nat) :=
  reixCells (selectCells cells elements)

/-- returned vertex map (`return_mapping=True`): new vertex ↦ old vertex -/
def restrictVertexMap (cells : List (List Nat)) (elements : List Nat) : List Nat :=
  reixUsed (selectCells cells elements)

/-- subdomain retagging: `newt[np.intersect1d(sub, elements)]` with
    `newt[elements] = arange(len(elements))` -/
def restrictSub (elements sub : List Nat) : List Nat :=
  ((unique sub).filter (fun k => elements.contains k)).map (fun k => elements.idxOf k)

/-- `np.unique(self.t2f[:, elements])` : old numbers of the facets of the kept cells -/
def usedFacets (t2f : List (List Nat)) (elements : List Nat) : List Nat :=
  unique (t2f.flatMap (fun row => elements.map (fun k => row.getD k 0)))

/-- `newf[f]`, `none` standing for `-1` -/
def newFacet (t2f : List (List Nat)) (elements : List Nat) (f : Nat) : Option Nat :=
  let U := usedFacets t2f elements
  if U.contains f then some (U.idxOf f) else none

/-- boundary retagging: `v = newf[boundary]; v[v >= 0]` -/
def restrictBoundary (t2f : List (List Nat)) (elements bnd : List Nat) : List Nat :=
  bnd.filterMap (newFacet t2f elements)

/-- `remove_elements`: restrict to `np.setdiff1d(arange(nt), elements)` -/
def removeKeep (nt : Nat) (elements : List Nat) : List Nat := complementRange nt elements

/-! ### `_remove_duplicate_nodes`, `+`, `@` -/

section Dedup
variable {α : Type} [LT α] [DecidableLT α] [DecidableEq α] [Inhabited α]

/-- `p[:, ixa]` : the distinct points in ascending (lexicographic) order -/
def dedupPoints (pts : List α) : List α := unique pts

/-- `ixb` : old vertex ↦ new vertex -/
def dedupMap (pts : List α) (v : Nat) : Nat := (unique pts).idxOf (pts.getD v default)

/-- `ixb[t]` -/
def dedupCells (pts : List α) (cells : List (List Nat)) : List (List Nat) :=
  cells.map (fun c => c.map (dedupMap pts))

/-- `Mesh.__add__` on connectivity: `hstack((t1, t2 + n1))` then deduplication of
    `hstack((p1, p2))` -/
def joinCells (p1 p2 : List α) (t1 t2 : List (List Nat)) : List (List Nat) :=
  dedupCells (p1 ++ p2) (t1 ++ t2.map (fun c => c.map (· + p1.length)))

/-- number of points stacked before mesh `i` (`np.cumsum` of the sizes, shifted) -/
def prefixSum : List Nat → Nat → Nat
  | [], _ => 0
  | _ :: _, 0 => 0
  | s :: ss, i + 1 => s + prefixSum ss i

/-- offsets of the meshes in the stacked point array of `@` (repaired code: cumulative sizes) -/
def stackOffsets (sizes : List Nat) : List Nat :=
  (List.range sizes.length).map (prefixSum sizes)

/-- `Mesh.__matmul__` (repaired): mesh `i` keeps its cells, shifted by the sizes of the meshes
    before it, mapped through the deduplication of the stacked points -/
def matmulCells (ps : List (List α)) (ts : List (List (List Nat))) : List (List (List Nat)) :=
  let offs := stackOffsets (ps.map List.length)
  (List.range ts.length).map (fun i =>
    dedupCells ps.flatten ((ts.getD i []).map (fun c => c.map (· + offs.getD i 0))))

/-- the pinned code: every mesh of the list is shifted by the size of the FIRST mesh only -/
def matmulCellsOld (ps : List (List α)) (ts : List (List (List Nat))) : List (List (List Nat)) :=
  (List.range ts.length).map (fun i =>
    dedupCells ps.flatten ((ts.getD i []).map (fun c =>
      c.map (· + (if i = 0 then 0 else (ps.getD 0 []).length)))))

end Dedup

/-! ### splitting into simplices: `to_meshtri`, `to_meshtet` -/

/-- child templates as local vertex numbers of the parent -/
def quadToTri : List (List Nat) := [[0, 1, 3], [1, 2, 3]]
/-- crisscross style; local vertex 4 is the added centroid -/
def quadToTriX : List (List Nat) := [[0, 1, 4], [1, 2, 4], [2, 3, 4], [0, 3, 4]]
def hexToTet : List (List Nat) :=
  [[0, 1, 3, 4], [0, 3, 2, 4], [2, 3, 4, 6], [3, 4, 6, 7], [3, 4, 5, 7], [1, 3, 4, 5]]
def wedgeToTet : List (List Nat) := [[0, 1, 2, 3], [1, 2, 3, 4], [2, 3, 4, 5]]

/-- `np.hstack([t[tpl] for tpl in templ])`: child `i * nt + k` is template `i` of cell `k`
    (this is `indexing` of Model/Topology with the templates as "reference table") -/
def splitCells (templ cells : List (List Nat)) : List (List Nat) := indexing cells templ

/-- crisscross: every cell gets the new vertex `nv + k` as local vertex 4 -/
def withCentre (nv : Nat) (cells : List (List Nat)) : List (List Nat) :=
  (List.range cells.length).map (fun k => cells.getD k [] ++ [nv + k])

/-- subdomain map `concatenate((v, v + nt, ...))` -/
def splitSub (nt nblocks : Nat) (sub : List Nat) : List Nat :=
  (List.range nblocks).flatMap (fun i => sub.map (· + i * nt))

/-- the facet lookup of `to_meshtri`: ONE iterator over the new facets is shared by all the
    (sorted) old facets of a tag: `next(dropwhile(... != f, slots))[0]` -/
def scanLookup {β : Type} [DecidableEq β] : List (Nat × β) → List β → Option (List Nat)
  | _, [] => some []
  | slots, f :: fs =>
    match slots.dropWhile (fun s => !(s.2 == f)) with
    | [] => none                      -- StopIteration
    | (i, _) :: rest => (scanLookup rest fs).map (i :: ·)

def enumFromN {β : Type} : Nat → List β → List (Nat × β)
  | _, [] => []
  | n, x :: xs => (n, x) :: enumFromN (n + 1) xs

/-- new numbers of the facets `fs` (given as sorted vertex tuples, ascending) -/
def triFacetLookup (newFacets fs : List (List Nat)) : Option (List Nat) :=
  scanLookup (enumFromN 0 newFacets) fs

/-! ### extrusion `MeshTri1 * MeshLine1` -/

/-- wedges: layer `i` (between levels `i` and `i+1`) holds `t + i*nv` stacked on `t + (i+1)*nv` -/
def extrudeCells (nv : Nat) (cells : List (List Nat)) (nlayers : Nat) : List (List Nat) :=
  (List.range nlayers).flatMap (fun i =>
    cells.map (fun c => c.map (· + i * nv) ++ c.map (· + (i + 1) * nv)))

/-- points: level `i` is a copy of the base points with the extra coordinate `zs[i]` -/
def extrudePoints {γ : Type} (pts : List (List γ)) (zs : List γ) : List (List γ) :=
  zs.flatMap (fun z => pts.map (· ++ [z]))

/-! ### affine coordinate maps (exact rationals) -/

def scaledPt (f p : List Rat) : List Rat := List.zipWith (· * ·) p f
def translatedPt (d p : List Rat) : List Rat := List.zipWith (· + ·) p d
def dotQ (a b : List Rat) : Rat := (List.zipWith (· * ·) a b).foldl (· + ·) 0
/-- `p - 2 (n̂·(p - p0)) n̂` with `n̂ n̂ᵀ = n nᵀ / (n·n)` (no square root needed) -/
def mirroredPt (n p0 p : List Rat) : List Rat :=
  let s := 2 * dotQ n (List.zipWith (· - ·) p p0) / dotQ n n
  List.zipWith (fun x a => x - s * a) p n

end Skv
