import SkfemVerif.Model.Np
/-
E-topo: `Mesh.build_entities` and `Mesh.build_inverse` (skfem/mesh/mesh.py).

A mesh's connectivity `t` (NumPy shape `(nnodes, nt)`) is given cell-wise:
`cells[k]` is column `k` of `t`.  A reference table `ref` (`refdom.facets` or
`refdom.edges`) lists for each local slot the local vertex numbers spanning
the entity.
-/
namespace Skv

/-- the (unsorted) vertex tuple of local entity `slot` of cell `c`
    (`t[ix]` restricted to one column) -/
def slotCol (c : List Nat) (slot : List Nat) : List Nat := slot.map (fun v => c.getD v 0)

/-- `np.hstack([t[ix] for ix in indices])` as a list of columns:
    column number `i * nt + k` belongs to slot `i`, cell `k`. -/
def indexing (cells : List (List Nat)) (ref : List (List Nat)) : List (List Nat) :=
  ref.flatMap (fun slot => cells.map (fun c => slotCol c slot))

/-- `np.sort(indexing, axis=0)` -/
def sortedIndexing (cells ref : List (List Nat)) : List (List Nat) :=
  (indexing cells ref).map sortCol

/-- the sorted distinct entities (`np.unique(..., axis=1)`), as columns -/
def entitiesSorted (cells ref : List (List Nat)) : List (List Nat) :=
  unique (sortedIndexing cells ref)

/-- `ixb`, flat: for every column of `indexing` the number of its entity -/
def entityOfColumn (cells ref : List (List Nat)) : List Nat :=
  uniqueInverse (sortedIndexing cells ref)

/-- `ixb.reshape((len(indices), nt))` : the `t2f` / `t2e` table, one row per slot -/
def entityMapping (cells ref : List (List Nat)) : List (List Nat) :=
  reshapeRows ref.length cells.length (entityOfColumn cells ref)

/-- `sort=False` variant (hexahedra): the stored column is the *unsorted* tuple of the
    first occurrence -/
def entitiesUnsorted (cells ref : List (List Nat)) : List (List Nat) :=
  (uniqueIndex (sortedIndexing cells ref)).map (fun i => (indexing cells ref).getD i [])

def buildEntities (cells ref : List (List Nat)) (sort : Bool) :
    List (List Nat) × List (List Nat) :=
  (if sort then entitiesSorted cells ref else entitiesUnsorted cells ref,
   entityMapping cells ref)

/-! ### build_inverse -/

/-- first cell (in C-order flatten of the slot table) naming entity `f` -/
def firstCell (nt : Nat) (e : List Nat) (f : Nat) : Nat := (e.idxOf f) % nt

/-- last cell naming entity `f` -/
def lastCell (nt : Nat) (e : List Nat) (f : Nat) : Nat :=
  (e.length - 1 - e.reverse.idxOf f) % nt

/-- `Mesh.build_inverse(t, mapping)`: rows 0 and 1 of `f2t`; `-1` marks a missing second
    neighbour -/
def buildInverse (nt : Nat) (mapping : List (List Nat)) : List Int × List Int :=
  let e := mapping.flatten
  let nf := listMax e + 1
  ((List.range nf).map (fun f => (firstCell nt e f : Int)),
   (List.range nf).map (fun f =>
      if firstCell nt e f = lastCell nt e f then (-1 : Int) else (lastCell nt e f : Int)))

/-- `boundary_facets()` : indices with `f2t[1] == -1` -/
def boundaryFacets (f2t1 : List Int) : List Nat :=
  (List.range f2t1.length).filter (fun f => f2t1.getD f 0 == -1)

def interiorFacets (f2t1 : List Int) : List Nat :=
  (List.range f2t1.length).filter (fun f => f2t1.getD f 0 ≥ 0)

end Skv
