/-
E-poly: sparse multivariate polynomials over `Rat` as term lists, the formal partial derivative
and the reflection checks used for the shape functions traced from `Element.lbasis`.

A term is `(coefficient, exponent vector)`; all exponent vectors of one polynomial have the
length `dim` (the generator pads them).  Polynomials are NOT kept normalised: the same exponent
vector may occur several times, `coeff` sums the occurrences.
-/
namespace Skv

abbrev Mono := List Nat
abbrev Poly := List (Rat × Mono)

namespace Poly

/-- coefficient of the monomial `e` -/
def coeff (p : Poly) (e : Mono) : Rat := ((p.filter (fun t => t.2 == e)).map (·.1)).sum

/-- formal partial derivative with respect to variable `i` -/
def pderiv (p : Poly) (i : Nat) : Poly :=
  p.filterMap (fun t =>
    let k : Nat := t.2.getD i 0
    if k == 0 then none else some (t.1 * (k : Rat), t.2.set i (k - 1)))

def add (p q : Poly) : Poly := p ++ q
def neg (p : Poly) : Poly := p.map (fun t => (-t.1, t.2))
def sub (p q : Poly) : Poly := add p (neg q)
def smul (c : Rat) (p : Poly) : Poly := p.map (fun t => (c * t.1, t.2))
def sum (ps : List Poly) : Poly := ps.flatten
/-- product (term by term; exponent vectors are added componentwise) -/
def mul (p q : Poly) : Poly :=
  p.flatMap (fun s => q.map (fun t => (s.1 * t.1, List.zipWith (· + ·) s.2 t.2)))
def const (dim : Nat) (c : Rat) : Poly := [(c, List.replicate dim 0)]

def monoEval : List Rat → Mono → Rat
  | x :: xs, e :: es => x ^ e * monoEval xs es
  | _, _ => 1

/-- value at a point -/
def eval (p : Poly) (x : List Rat) : Rat := (p.map (fun t => t.1 * monoEval x t.2)).sum

/-- the exponent vectors occurring in `p` (with repetitions) -/
def exps (p : Poly) : List Mono := p.map (·.2)

def ratAbs (q : Rat) : Rat := if q < 0 then -q else q

/-- all coefficients of `p - q` are at most `tol` in absolute value -/
def close (p q : Poly) (tol : Rat) : Bool :=
  (p.exps ++ q.exps).all (fun e => ratAbs (p.coeff e - q.coeff e) ≤ tol)

/-- total degree ≤ `n` -/
def degLe (p : Poly) (n : Nat) : Bool := p.all (fun t => t.1 == 0 || t.2.sum ≤ n)

/-- degree ≤ `n` in every single variable -/
def degLeEach (p : Poly) (n : Nat) : Bool := p.all (fun t => t.1 == 0 || t.2.all (· ≤ n))

end Poly

/-! ### reflection checks for one element (lists indexed by the local basis function) -/

/-- scalar element: declared gradient = formal gradient of the declared value -/
def checkGrad (dim : Nat) (vals : List Poly) (grads : List (List Poly)) (tol : Rat) : Bool :=
  vals.length == grads.length &&
  (vals.zip grads).all (fun vg => vg.2.length == dim &&
    (List.range dim).all (fun i => Poly.close (vg.1.pderiv i) (vg.2.getD i []) tol))

/-- vector element: declared divergence = Σ_i ∂_i φ_i -/
def checkDiv (dim : Nat) (vals : List (List Poly)) (divs : List Poly) (tol : Rat) : Bool :=
  vals.length == divs.length &&
  (vals.zip divs).all (fun vd => vd.1.length == dim &&
    Poly.close (Poly.sum ((List.range dim).map (fun i => (vd.1.getD i []).pderiv i))) vd.2 tol)

/-- 2-D vector element: declared scalar curl = ∂_x φ_y − ∂_y φ_x -/
def checkCurl2 (vals : List (List Poly)) (curls : List Poly) (tol : Rat) : Bool :=
  vals.length == curls.length &&
  (vals.zip curls).all (fun vc => vc.1.length == 2 &&
    Poly.close (Poly.sub ((vc.1.getD 1 []).pderiv 0) ((vc.1.getD 0 []).pderiv 1)) vc.2 tol)

/-- 3-D vector element: declared curl = ∇ × φ -/
def checkCurl3 (vals : List (List Poly)) (curls : List (List Poly)) (tol : Rat) : Bool :=
  vals.length == curls.length &&
  (vals.zip curls).all (fun vc => vc.1.length == 3 && vc.2.length == 3 &&
    let f := fun i => vc.1.getD i []
    Poly.close (Poly.sub ((f 2).pderiv 1) ((f 1).pderiv 2)) (vc.2.getD 0 []) tol &&
    Poly.close (Poly.sub ((f 0).pderiv 2) ((f 2).pderiv 0)) (vc.2.getD 1 []) tol &&
    Poly.close (Poly.sub ((f 1).pderiv 0) ((f 0).pderiv 1)) (vc.2.getD 2 []) tol)

/-- every listed function has total degree ≤ `n` (`Element.maxdeg`) -/
def checkDeg (vals : List Poly) (n : Nat) : Bool := vals.all (fun v => Poly.degLe v n)

/-- nodal duality: `φ_i(x_j) = δ_ij` for the listed (index, location) pairs; `nodes` lists
    `(j, x_j)` for the functions that have a DOF location -/
def checkDual (vals : List Poly) (nodes : List (Nat × List Rat)) (tol : Rat) : Bool :=
  nodes.all (fun jn => nodes.all (fun im =>
    Poly.ratAbs ((vals.getD im.1 []).eval jn.2 - (if im.1 == jn.1 then 1 else 0)) ≤ tol))

/-- partition of unity of the listed functions -/
def checkPou (dim : Nat) (vals : List Poly) (idx : List Nat) (tol : Rat) : Bool :=
  Poly.close (Poly.sum (idx.map (fun i => vals.getD i []))) (Poly.const dim 1) tol

/-- functional duality of lowest-order H(div)/H(curl) elements: the moment of `φ_i` against
    direction `d_j` at the entity centre `c_j`, times `scale_j`, is `diag · δ_ij` with one nonzero
    constant `diag` for the whole element (midpoint rule, exact for fields whose components have
    degree ≤ 1 in each variable — checked with `degLeEach`) -/
def checkMoments (vals : List (List Poly)) (fun_ : List (List Rat × List Rat × Rat)) (diag tol : Rat) : Bool :=
  diag != 0 &&
  vals.all (fun v => v.all (fun c => Poly.degLeEach c 1)) &&
  (List.range fun_.length).all (fun j => (List.range vals.length).all (fun i =>
    let fj := fun_.getD j ([], [], 0)
    let v := vals.getD i []
    let dot := ((List.range fj.2.1.length).map (fun a => (v.getD a []).eval fj.1 * fj.2.1.getD a 0)).sum
    Poly.ratAbs (dot * fj.2.2 - (if i == j then diag else 0)) ≤ tol))

/-! ### power basis of the globally defined elements (`ElementGlobal._pbasis_create`) -/

/-- the coefficient loop `for l in arange(dx, 0, -1): cx *= i - dx + l` -/
def pbasisCoeff (i dx : Nat) : Int :=
  (List.range dx).foldl (fun c l => c * ((i : Int) - (dx : Int) + ((dx - l : Nat) : Int))) 1

/-- the exponent `max(i - dx, 0)` -/
def pbasisExp (i dx : Nat) : Nat := i - dx

/-- `dx`-fold derivative of the monomial `x^i` as (coefficient, exponent), by iterating
    `c x^k ↦ c k x^(k-1)` -/
def iterDeriv : Nat → Int × Nat → Int × Nat
  | 0, ck => ck
  | n + 1, ck => let r := iterDeriv n ck; (r.1 * (r.2 : Int), r.2 - 1)

end Skv
