/-
E-poly: sparse multivariate polynomials over `Rat` as term lists, the formal partial derivative
and the reflection checks used for the shape functions traced from `Element.lbasis`.

A term is `(coefficient, exponent vector)`; all exponent vectors of one polynomial have the
length `dim` (the generator pads them).  Polynomials are NOT kept normalised: the same exponent
vector may occur several times, `coeff` sums the occurrences.
-/
namespace Skv

abbrev Mono := List Nat
abbrev Poly := List (Rat × Mono)

namespace Poly

/-- coefficient of the monomial `e` -/
def coeff (p : Poly) (e : Mono) : Rat := ((p.filter (fun t => t.2 == e)).map (·.1)).sum

/-- formal partial derivative with respect to variable `i` -/
def pderiv (p : Poly) (i : Nat) : Poly :=
  p.filterMap (fun t =>
    let k : Nat := t.2.getD i 0
    if k == 0 then none else some (t.1 * (k : Rat), t.2.set i (k - 1)))

def add (p q : Poly) : Poly := p ++ q
def neg (p : Poly) : Poly := p.map (fun t => (-t.1, t.2))
def sub (p q : Poly) : Poly := add p (neg q)
def smul (c : Rat) (p : Poly) : Poly := p.map (fun t => (c * t.1, t.2))
def sum (ps : List Poly) : Poly := ps.flatten
/-- product (term by term; exponent vectors are added componentwise) -/
def mul (p q : Poly) : Poly :=
  p.flatMap (fun s => q.map (fun t => (s.1 * t.1, List.zipWith (· + ·) s.2 t.2)))
def const (dim : Nat) (c : Rat) : Poly := [(c, List.replicate dim 0)]

def monoEval : List Rat → Mono → Rat
  | x :: xs, e :: es => x ^ e * monoEval xs es
  | _, _ => 1

/-- value at a point -/
def eval (p : Poly) (x : List Rat) : Rat := (p.map (fun t => t.1 * monoEval x t.2)).sum

/-- the exponent vectors occurring in `p` (with repetitions) -/
def exps (p : Poly) : List Mono := p.map (·.2)

def ratAbs (q : Rat) : Rat := if q < 0 then -q else q

/-- all coefficients of `p - q` are at most `tol` in absolute value -/
def close (p q : Poly) (tol : Rat) : Bool :=
  (p.exps ++ q.exps).all (fun e => ratAbs (p.coeff e - q.coeff e) ≤ tol)

/-- total degree ≤ `n` -/
def degLe (p : Poly) (n : Nat) : Bool := p.all (fun t => t.1 == 0 || t.2.sum ≤ n)

/-- degree ≤ `n` in every single variable -/
def degLeEach (p : Poly) (n : Nat) : Bool := p.all (fun t => t.1 == 0 || t.2.all (· ≤ n))

end Poly

/-! ### reflection checks for one element (lists indexed by the local basis function) -/

/-- scalar element: declared gradient = formal gradient of the declared value -/
def checkGrad (dim : Nat) (vals : List Poly) (grads : List (List Poly)) (tol : Rat) : Bool :=
  vals.length == grads.length &&
  (vals.zip grads).all (fun vg => vg.2.length == dim &&
    (List.range dim).all (fun i => Poly.close (vg.1.pderiv i) (vg.2.getD i []) tol))

/-- vector element: declared divergence = Σ_i ∂_i φ_i -/
def checkDiv (dim : Nat) (vals : List (List Poly)) (divs : List Poly) (tol : Rat) : Bool :=
  vals.length == divs.length &&
  (vals.zip divs).all (fun vd => vd.1.length == dim &&
    Poly.close (Poly.sum ((List.range dim).map (fun i => (vd.1.getD i []).pderiv i))) vd.2 tol)

/-- 2-D vector element: declared scalar curl = ∂_x φ_y − ∂_y φ_x -/
def checkCurl2 (vals : List (List Poly)) (curls : List Poly) (tol : Rat) : Bool :=
  vals.length == curls.length &&
  (vals.zip curls).all (fun vc => vc.1.length == 2 &&
    Poly.close (Poly.sub ((vc.1.getD 1 []).pderiv 0) ((vc.1.getD 0 []).pderiv 1)) vc.2 tol)

/-- 3-D vector element: declared curl = ∇ × φ -/
def checkCurl3 (vals : List (List Poly)) (curls : List (List Poly)) (tol : Rat) : Bool :=
  vals.length == curls.length &&
  (vals.zip curls).all (fun vc => vc.1.length == 3 && vc.2.length == 3 &&
    let f := fun i => vc.1.getD i []
    Poly.close (Poly.sub ((f 2).pderiv 1) ((f 1).pderiv 2)) (vc.2.getD 0 []) tol &&
    Poly.close (Poly.sub ((f 0).pderiv 2) ((f 2).pderiv 0)) (vc.2.getD 1 []) tol &&
    Poly.close (Poly.sub ((f 1).pderiv 0) ((f 0).pderiv 1)) (vc.2.getD 2 []) tol)

/-- every listed function has total degree ≤ `n` (`Element.maxdeg`) -/
def checkDeg (vals : List Poly) (n : Nat) : Bool := vals.all (fun v => Poly.degLe v n)

/-- nodal duality: `φ_i(x_j) = δ_ij` for the listed (index, location) pairs; `nodes` lists
    `(j, x_j)` for the functions that have a DOF location -/
def checkDual (vals : List Poly) (nodes : List (Nat × List Rat)) (tol : Rat) : Bool :=
  nodes.all (fun jn => nodes.all (fun im =>
    Poly.ratAbs ((vals.getD im.1 []).eval jn.2 - (if im.1 == jn.1 then 1 else 0)) ≤ tol))

/-- partition of unity of the listed functions -/
def checkPou (dim : Nat) (vals : List Poly) (idx : List Nat) (tol : Rat) : Bool :=
  Poly.close (Poly.sum (idx.map (fun i => vals.getD i []))) (Poly.const dim 1) tol

/-- functional duality of lowest-order H(div)/H(curl) elements: the moment of `φ_i` against
    direction `d_j` at the entity centre `c_j`, times `scale_j`, is `diag · δ_ij` with one nonzero
    constant `diag` for the whole element (midpoint rule, exact for fields whose components have
    degree ≤ 1 in each variable — checked with `degLeEach`) -/
def checkMoments (vals : List (List Poly)) (fun_ : List (List Rat × List Rat × Rat)) (diag tol : Rat) : Bool :=
  diag != 0 &&
  vals.all (fun v => v.all (fun c => Poly.degLeEach c 1)) &&
  (List.range fun_.length).all (fun j => (List.range vals.length).all (fun i =>
    let fj := fun_.getD j ([], [], 0)
    let v := vals.getD i []
    let dot := ((List.range fj.2.1.length).map (fun a => (v.getD a []).eval fj.1 * fj.2.1.getD a 0)).sum
    Poly.ratAbs (dot * fj.2.2 - (if i == j then diag else 0)) ≤ tol))

/-! ### restriction to a facet: composition with an affine parametrisation -/

namespace Poly

/-- add a term to a polynomial that has at most one term per exponent vector, keeping that shape -/
def insertTerm (t : Rat × Mono) : Poly → Poly
  | [] => [t]
  | u :: us => if u.2 == t.2 then (u.1 + t.1, u.2) :: us else u :: insertTerm t us

/-- merge the terms with equal exponent vectors -/
def norm (p : Poly) : Poly := p.foldl (fun acc t => insertTerm t acc) []

/-- normalised product -/
def mulN (p q : Poly) : Poly := norm (mul p q)

/-- `p ^ n` by repeated (normalised) multiplication; `const m 1` = the constant 1 in `m` variables -/
def pow (m : Nat) (p : Poly) : Nat → Poly
  | 0 => const m 1
  | n + 1 => mulN p (pow m p n)

/-- the affine function `a + Σ_k d_k s_k` of the `m` facet parameters as a polynomial:
    `a` = constant, `d` = coefficients of the parameters -/
def affineFn (m : Nat) (a : Rat) (d : List Rat) : Poly :=
  (a, List.replicate m 0) ::
    (List.range m).map (fun k => (d.getD k 0, (List.range m).map (fun l => if l == k then 1 else 0)))

/-- one monomial `Π_i (g_i)^{e_i}` after substitution of the polynomials `g_i` for the variables -/
def substMono (m : Nat) (g : List Poly) : List Nat → Poly
  | [] => const m 1
  | e :: es => mulN (pow m (g.getD 0 []) e) (substMono m (g.drop 1) es)

/-- `p ∘ γ` for `γ_i(s) = origin_i + Σ_k dirs_k[i] · s_k` (`m = dirs.length` facet parameters),
    with merged terms -/
def substAffine (p : Poly) (origin : List Rat) (dirs : List (List Rat)) : Poly :=
  let m := dirs.length
  let g : List Poly := (List.range origin.length).map (fun i =>
    affineFn m (origin.getD i 0) (dirs.map (fun d => d.getD i 0)))
  norm (Poly.sum (p.map (fun t => smul t.1 (substMono m g t.2))))

end Poly

/-- **trace table** of an element: for every local facet `f` (parametrised by `fmaps[f] = (origin,
    directions)`) and every local basis function `i`, `keys[f][i]` is `none` when the function is not
    attached to the closure of the facet — then its restriction to the facet must vanish — or
    `some k`, the position of the function within the facet (kind of sub-entity, local DOF, position of
    the sub-entity in the facet's vertex list) — then its restriction, as a polynomial in the facet
    parameters, must be the SAME for every `(f, i)` carrying the same `k` -/
def checkTraceTable (vals : List Poly) (fmaps : List (List Rat × List (List Rat)))
    (keys : List (List (Option Nat))) (tol : Rat) : Bool :=
  let tr : Nat → Nat → Poly := fun f i =>
    let fm := fmaps.getD f ([], [])
    (vals.getD i []).substAffine fm.1 fm.2
  let idx : List (Nat × Nat) :=
    (List.range fmaps.length).flatMap (fun f => (List.range vals.length).map (fun i => (f, i)))
  keys.length == fmaps.length && keys.all (fun r => r.length == vals.length) &&
  idx.all (fun fi =>
    match (keys.getD fi.1 []).getD fi.2 none with
    | none => Poly.close (tr fi.1 fi.2) [] tol
    | some k =>
      -- compare with the first pair carrying the same key
      match idx.find? (fun gj => (keys.getD gj.1 []).getD gj.2 none == some k) with
      | some gj => Poly.close (tr fi.1 fi.2) (tr gj.1 gj.2) tol
      | none => false)

/-- structure of the key table: on every facet each key occurs once, and all facets carry the same
    set of keys (so the attached functions of two facets correspond one to one through their keys) -/
def checkKeys (keys : List (List (Option Nat))) : Bool :=
  let somes := keys.map (fun r => r.filterMap id)
  somes.all (fun r => decide r.Nodup) &&
  somes.all (fun r => r.all (fun k => (somes.getD 0 []).contains k)
                      && (somes.getD 0 []).all (fun k => r.contains k))

/-- reversal symmetry for elements on cells whose shared facets may be traversed in opposite
    directions (quadrilaterals): `pairs` lists `(k, k')` such that the trace with key `k` read
    backwards (`s ↦ 1 − s`) is the trace with key `k'` -/
def checkTraceReversal (vals : List Poly) (fmaps : List (List Rat × List (List Rat)))
    (keys : List (List (Option Nat))) (pairs : List (Nat × Nat)) (tol : Rat) : Bool :=
  let tr : Nat → Nat → Poly := fun f i =>
    let fm := fmaps.getD f ([], [])
    (vals.getD i []).substAffine fm.1 fm.2
  let idx : List (Nat × Nat) :=
    (List.range fmaps.length).flatMap (fun f => (List.range vals.length).map (fun i => (f, i)))
  let first : Nat → Option Poly := fun k =>
    (idx.find? (fun gj => (keys.getD gj.1 []).getD gj.2 none == some k)).map (fun gj => tr gj.1 gj.2)
  pairs.all (fun kk =>
    match first kk.1, first kk.2 with
    | some p, some q => Poly.close (p.substAffine [1] [[-1]]) q tol
    | _, _ => false)

/-! ### power basis of the globally defined elements (`ElementGlobal._pbasis_create`) -/

/-- the coefficient loop `for l in arange(dx, 0, -1): cx *= i - dx + l` -/
def pbasisCoeff (i dx : Nat) : Int :=
  (List.range dx).foldl (fun c l => c * ((i : Int) - (dx : Int) + ((dx - l : Nat) : Int))) 1

/-- the exponent `max(i - dx, 0)` -/
def pbasisExp (i dx : Nat) : Nat := i - dx

/-- `dx`-fold derivative of the monomial `x^i` as (coefficient, exponent), by iterating
    `c x^k ↦ c k x^(k-1)` -/
def iterDeriv : Nat → Int × Nat → Int × Nat
  | 0, ck => ck
  | n + 1, ck => let r := iterDeriv n ck; (r.1 * (r.2 : Int), r.2 - 1)

end Skv
