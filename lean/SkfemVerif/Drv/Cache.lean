import SkfemVerif.Drv.Base
import SkfemVerif.Model.Cache
/-
Driver ops of property C15: `cache.key`, `cache.trace`, `cache.closure`.
-/
open Lean Skv Skv.Cache
namespace Drv

def getNpArr? (j : Json) : Option NpArr := do
  let kind ← (field? j "kind") >>= getNat?
  let width ← (field? j "width") >>= getNat?
  let shape ← (field? j "shape") >>= getNatList?
  let vals ← (field? j "vals") >>= getNatList?
  pure ⟨kind, width, shape, vals⟩

def getOptNpArr? (j : Json) : Option (Option NpArr) :=
  match j with
  | Json.null => some none
  | _ => (getNpArr? j).map some

def getArg? (j : Json) : Option Arg := do
  let obj ← (field? j "obj") >>= getNat?
  let ints ← (field? j "ints") >>= getIntList?
  let arrs ← match (field? j "arrs") with
    | some (Json.arr a) => a.toList.mapM getOptNpArr?
    | _ => none
  pure ⟨obj, ints, arrs⟩

def getGuard? (j : Json) : Option Guard :=
  match j with
  | Json.str "unit" => some .unit
  | Json.str "identity" => some .identity
  | Json.str "npoints" => some .npoints
  | Json.str "shapeValues" => some .shapeValues
  | Json.str "bytes" => some .bytes
  | Json.str "shapeDtypeBytes" => some .shapeDtypeBytes
  | _ => none

def getPolicy? (j : Json) : Option Policy :=
  match j with
  | Json.str "all" => some .all
  | Json.str "last" => some .last
  | _ => none

def allGuards : List (String × Guard) :=
  [("unit", .unit), ("identity", .identity), ("npoints", .npoints), ("shapeValues", .shapeValues),
   ("bytes", .bytes), ("shapeDtypeBytes", .shapeDtypeBytes)]

/-- cache.key : serialisation of two arrays and equality of their keys under every guard kind -/
def opCacheKey (j : Json) : Option Json := do
  let a ← (field? j "a") >>= getArg?
  let b ← (field? j "b") >>= getArg?
  let bytesOf (x : Arg) : Json := Json.arr (x.arrs.map (fun o => match o with
    | none => Json.null
    | some y => natList y.tobytes)).toArray
  pure <| Json.mkObj ([("bytes_a", bytesOf a), ("bytes_b", bytesOf b),
    ("valid", Json.bool (decide (a.Valid ∧ b.Valid)))] ++
    allGuards.map (fun (n, g) => (n, Json.bool (decide (keyOf g a = keyOf g b)))))

/-- cache.trace : for each call of the history the index of the call whose computed value is returned -/
def opCacheTrace (j : Json) : Option Json := do
  let g ← (field? j "guard") >>= getGuard?
  let p ← (field? j "policy") >>= getPolicy?
  let calls ← match (field? j "calls") with
    | some (Json.arr a) => a.toList.mapM getArg?
    | _ => none
  pure <| natList (servedFrom g p calls)

def getDict? (j : Json) : Option Dict :=
  match j with
  | Json.arr a => a.toList.mapM (fun e => match e with
    | Json.arr kv => match kv.toList with
      | [Json.str k, v] => (getInt? v).map (fun i => (k, i))
      | _ => none
    | _ => none)
  | _ => none

def dictJson (d : Dict) : Json :=
  Json.arr (d.map (fun (k, v) => Json.arr #[Json.str k, Json.num (JsonNumber.fromInt v)])).toArray

/-- cache.closure : keyword dictionaries handed to the backend by a history of solves -/
def opCacheClosure (j : Json) : Option Json := do
  let kind ← match field? j "kind" with
    | some (Json.str "capturedUpdate") => some ClosureKind.capturedUpdate
    | some (Json.str "localMerge") => some ClosureKind.localMerge
    | _ => none
  let needsM ← (field? j "needsM") >>= getBool?
  let cap ← (field? j "cap") >>= getDict?
  let calls ← match (field? j "calls") with
    | some (Json.arr a) => a.toList.mapM (fun c => do
        let A ← (field? c "A") >>= getNat?
        let kw ← (field? c "kw") >>= getDict?
        pure (⟨A, kw⟩ : SolveCall))
    | _ => none
  let r := closureRun kind needsM cap calls
  pure <| Json.mkObj [("cap", dictJson r.1), ("out", Json.arr (r.2.map dictJson).toArray),
    ("fresh", Json.arr ((calls.map (closureFresh kind needsM cap)).map dictJson).toArray)]

def cacheOps : List (String × (Json → Option Json)) :=
  [("cache.key", opCacheKey), ("cache.trace", opCacheTrace), ("cache.closure", opCacheClosure)]

end Drv
