import SkfemVerif.Drv.Base
import SkfemVerif.Model.Conformity
open Lean Skv
namespace Drv

/-- conf.orient : per-cell signs. kind = "hcurl" (pairs [ta, tb]), "hdiv" (pairs [f2t0, k]),
    "quadp" (triples [ta, tb, ind]) -/
def opConfOrient (j : Json) : Option Json := do
  let kind ← match field? j "kind" with | some (Json.str s) => some s | _ => none
  let rows ← (field? j "rows") >>= getNatMat?
  let out ← rows.mapM (fun r => match kind, r with
    | "hcurl", [a, b] => some (hcurlOri a b)
    | "hdiv", [f, k] => some (hdivOri f k)
    | "quadp", [a, b, ind] => some (quadpFactor a b ind)
    | _, _ => none)
  pure (intList out)

def conformityOps : List (String × (Json → Option Json)) := [("conf.orient", opConfOrient)]

end Drv
