import SkfemVerif.Drv.Base
import SkfemVerif.Model.Quadrature
open Lean Skv
namespace Drv

def ruleJson (r : IRule) : Json :=
  Json.mkObj [("nodes", Json.arr (r.pts.map (fun p => ratList (p.1.map (fun m => mkRat m (2 ^ r.S))))).toArray),
              ("weights", ratList (r.pts.map (fun p => mkRat p.2 (2 ^ r.SW))))]

def getRule? (j : Json) : Option IRule := do
  let S ← (field? j "S") >>= getNat?
  let SW ← (field? j "SW") >>= getNat?
  let pts ← match (field? j "pts") >>= (fun a => a.getArr?.toOption) with
    | some a => a.toList.mapM (fun p => do
        let c ← (field? p "c") >>= getIntList?
        let w ← (field? p "w") >>= getInt?
        pure (c, w))
    | none => none
  pure { S := S, SW := SW, pts := pts }

/-- quad.tensor : the tensor constructions applied to rules given as scaled integers -/
def opQuadTensor (j : Json) : Option Json := do
  let kind ← match field? j "kind" with | some (Json.str s) => some s | _ => none
  let line ← (field? j "line") >>= getRule?
  match kind with
  | "quad" => pure (ruleJson (tensor2 line))
  | "hex" => pure (ruleJson (tensor3 line))
  | "wedge" => do
    let tri ← (field? j "tri") >>= getRule?
    pure (ruleJson (tensorPrism tri line))
  | _ => none

/-- quad.lookup : clamping + dictionary lookup; tables are represented by their key lists -/
def opQuadLookup (j : Json) : Option Json := do
  let kind ← match field? j "kind" with | some (Json.str s) => some s | _ => none
  let keys ← (field? j "keys") >>= getNatList?
  let n ← (field? j "n") >>= getInt?
  let dummy : IRule := { S := 0, SW := 0, pts := [] }
  let table : List (Nat × IRule) := keys.map (fun k => (k, { dummy with S := k }))
  let r := match kind with
    | "tri" => lookupTri table n
    | "tet" => lookupTet table n
    | _ => lookupLine table n
  pure (match r with
    | some r => Json.mkObj [("key", Json.num (JsonNumber.fromNat r.S))]
    | none => Json.mkObj [("none", Json.bool true),
        ("line_points", Json.num (JsonNumber.fromNat (lineNumPoints n)))])

/-- quad.check : run the reflection checkers on a rule (used to localise a failing monomial) -/
def opQuadCheck (j : Json) : Option Json := do
  let r ← (field? j "rule") >>= getRule?
  let d ← (field? j "d") >>= getNat?
  let n ← (field? j "n") >>= getNat?
  let tol ← (field? j "tol") >>= getNat?
  let box ← (field? j "box") >>= getBool?
  let bad := if box then (boxExponents d n).filter (fun e => !okMono r e (exactBox e) tol)
             else (simplexExponents d n).filter (fun e => !okMono r e (exactSimplex e) tol)
  pure (Json.mkObj [("failing", natMat bad),
    ("inside", Json.bool (if box then insideBox r else insideSimplex r))])

def quadOps : List (String × (Json → Option Json)) :=
  [("quad.tensor", opQuadTensor), ("quad.lookup", opQuadLookup), ("quad.check", opQuadCheck)]

end Drv
