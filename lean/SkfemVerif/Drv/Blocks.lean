import SkfemVerif.Drv.Base
import SkfemVerif.Model.Blocks
/-
Driver ops of the C19 model (vector / composite / block structures).
-/
open Lean Skv Skv.Blocks
namespace Drv

def blkTopo? (j : Json) : Option Topo := do
  let dim ← (field? j "dim") >>= getNat?
  let nverts ← (field? j "nverts") >>= getNat?
  let nedges ← (field? j "nedges") >>= getNat?
  let nfacets ← (field? j "nfacets") >>= getNat?
  let nt ← (field? j "nt") >>= getNat?
  let t ← (field? j "t") >>= getNatMat?
  let t2e ← (field? j "t2e") >>= getNatMat?
  let t2f ← (field? j "t2f") >>= getNatMat?
  pure { dim := dim, nverts := nverts, nedges := nedges, nfacets := nfacets, nt := nt, t := t,
         t2e := t2e, t2f := t2f }

def counts4? (l : List Nat) : Option DofCounts :=
  match l with
  | [a, b, c, d] => some { nodal := a, edge := b, facet := c, interior := d }
  | _ => none

def countsList? (j : Json) (k : String) : Option (List DofCounts) := do
  let m ← (field? j k) >>= getNatMat?
  m.mapM counts4?

def ref? (j : Json) : Option RefCounts := do
  let l ← (field? j "ref") >>= getNatList?
  match l with
  | [a, b, c] => pure { nnodes := a, nedges := b, nfacets := c }
  | _ => none

def natPairs (l : List (Nat × Nat)) : Json := Json.arr (l.map (fun p => natList [p.1, p.2])).toArray

/-- blocks.split_composite: split_indices and the wrapper's per-cell table -/
def opSplitComposite (j : Json) : Option Json := do
  let tp ← blkTopo? j
  let cs ← countsList? j "counts"
  pure <| Json.mkObj [
    ("split", natMat ((List.range cs.length).map (splitIndicesComposite cs tp))),
    ("wrapper_counts", natList [(sumCounts cs).nodal, (sumCounts cs).edge, (sumCounts cs).facet,
      (sumCounts cs).interior]),
    ("element_dofs", natMat (elementDofs (sumCounts cs) tp)),
    ("N", Json.num (JsonNumber.fromNat (dofsTotal (sumCounts cs) tp)))]

def opSplitVector (j : Json) : Option Json := do
  let tp ← blkTopo? j
  let l ← (field? j "counts") >>= getNatList?
  let c ← counts4? l
  let dim ← (field? j "ncomp") >>= getNat?
  pure <| Json.mkObj [
    ("split", natMat ((List.range dim).map (splitIndicesVector dim c tp))),
    ("wrapper_counts", natList [(vecCounts dim c).nodal, (vecCounts dim c).edge, (vecCounts dim c).facet,
      (vecCounts dim c).interior]),
    ("element_dofs", natMat (elementDofs (vecCounts dim c) tp)),
    ("N", Json.num (JsonNumber.fromNat (dofsTotal (vecCounts dim c) tp)))]

def opDeduceBfun (j : Json) : Option Json := do
  let cs ← countsList? j "counts"
  let r ← ref? j
  let n := (bfunNs cs r).length
  pure <| Json.mkObj [("n", Json.num (JsonNumber.fromNat n)),
    ("nbfun", natList (cs.map (fun c => nbfun c r))),
    ("dec", natPairs ((List.range n).map (deduceBfun cs r)))]

def opVecDecode (j : Json) : Option Json := do
  let dim ← (field? j "ncomp") >>= getNat?
  let n ← (field? j "n") >>= getNat?
  pure <| natPairs ((List.range n).map (vecDecode dim))

def opStackDecode (j : Json) : Option Json := do
  let nbs ← (field? j "nbs") >>= getNatList?
  let ns ← (field? j "Ns") >>= getNatList?
  pure <| Json.mkObj [("dec", natPairs ((List.range nbs.sum).map (stackDecode nbs))),
    ("offsets", natList ((List.range ns.length).map (stackOffset ns)))]

def int3 (a : List (List (List Int))) : Json :=
  Json.arr (a.map (fun m => Json.arr (m.map intList).toArray)).toArray

/-- blocks.tolocal: the index maps on integer data -/
def opTolocal (j : Json) : Option Json := do
  let nu ← (field? j "Nu") >>= getNat?
  let nv ← (field? j "Nv") >>= getNat?
  let nt ← (field? j "nt") >>= getNat?
  let data ← (field? j "data") >>= getIntList?
  let loc ← (field? j "local") >>= getIntList?   -- a local array (nt, Nv, Nu) flattened in C order
  let L : Nat → Nat → Nat → Int := fun k i jj => loc.getD ((k * nv + i) * nu + jj) 0
  pure <| Json.mkObj [("tolocal", int3 (tolocalArray nu nv nt data)),
    ("tolocal_old", int3 (tolocalOldArray nu nv nt data)),
    ("fromlocal", intList (fromlocal nu nv nt L)),
    ("tolocal_lin", Json.arr ((List.range nt).map (fun k => intList ((List.range nv).map (fun i =>
      tolocalLin nt data k i)))).toArray),
    ("fromlocal_lin", intList (fromlocalLin nv nt (fun k i => loc.getD (k * nv + i) 0)))]

/-- coo.dot: z = A x (optionally z[D] = x[D]) and the dense matrix, exact rationals -/
def opCooDot (j : Json) : Option Json := do
  let rows ← (field? j "rows") >>= getNatList?
  let cols ← (field? j "cols") >>= getNatList?
  let data ← (field? j "data") >>= getRatList?
  let x ← (field? j "x") >>= getRatList?
  let n ← (field? j "n") >>= getNat?
  let nc ← (field? j "nc") >>= getNat?
  let d ← (field? j "D") >>= getNatList?
  let rows2 ← (field? j "rows2") >>= getNatList?
  let cols2 ← (field? j "cols2") >>= getNatList?
  let data2 ← (field? j "data2") >>= getRatList?
  let a : Coo Rat := ⟨rows, cols, data, (n, nc)⟩
  let b : Coo Rat := ⟨rows2, cols2, data2, (n, nc)⟩
  let T := a.triplets
  let xa := x.toArray
  let xf : Nat → Rat := fun i => xa.getD i 0
  let S := (a.add b).triplets
  pure <| Json.mkObj [("dot", ratList ((List.range n).map (cooDot T xf))),
    ("dotD", ratList ((List.range n).map (cooDotD T xf d))),
    ("dense", ratMat ((List.range n).map (fun r => (List.range nc).map (fun c => denseEntry T r c)))),
    ("sum_dense", ratMat ((List.range n).map (fun r => (List.range nc).map (fun c => denseEntry S r c)))),
    ("sum_len", Json.num (JsonNumber.fromNat S.length))]

def opBmatBlocks (j : Json) : Option Json := do
  let w ← (field? j "widths") >>= getNatList?
  pure <| Json.mkObj [("blocks", natList (bmatBlocks false w)), ("blocks_old", natList (bmatBlocks true w))]

def blocksOps : List (String × (Json → Option Json)) :=
  [("blocks.split_composite", opSplitComposite), ("blocks.split_vector", opSplitVector),
   ("blocks.deduce_bfun", opDeduceBfun), ("blocks.vec_decode", opVecDecode),
   ("blocks.stack_decode", opStackDecode), ("blocks.tolocal", opTolocal), ("coo.dot", opCooDot),
   ("blocks.bmat_blocks", opBmatBlocks)]

end Drv
