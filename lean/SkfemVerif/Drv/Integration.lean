import SkfemVerif.Drv.Base
import SkfemVerif.Model.Integration
open Lean Skv
namespace Drv

def opC02Dx (j : Json) : Option Json := do
  let dets ← (field? j "dets") >>= getRatList?
  let W ← (field? j "W") >>= getRatList?
  pure (ratMat (cellDx dets W))

def integrationOps : List (String × (Json → Option Json)) := [("c02.dx", opC02Dx)]

end Drv
