import SkfemVerif.Drv.Base
import SkfemVerif.Model.BC
open Lean Skv
namespace Drv

def matFn (A : List (List Rat)) : Nat → Nat → Rat :=
  let arr := (A.map (·.toArray)).toArray
  fun i j => (arr.getD i #[]).getD j 0

def vecFn (v : List Rat) : Nat → Rat :=
  let arr := v.toArray
  fun i => arr.getD i 0

def opBcInit (j : Json) : Option Json := do
  let n ← (field? j "n") >>= getNat?
  let I ← optNatList? j "I"
  let D ← optNatList? j "D"
  match initBC n I D with
  | none => pure (Json.mkObj [("raises", Json.bool true)])
  | some (I', D') => pure (Json.mkObj [("I", natList I'), ("D", natList D')])

def opBcEnforceIdx (j : Json) : Option Json := do
  let indptr ← (field? j "indptr") >>= getNatList?
  let D ← (field? j "D") >>= getNatList?
  pure (Json.mkObj [("idx", natList (rowZeroIdx indptr D)), ("ranges", natList (rowRanges indptr D))])

def opBcCondense (j : Json) : Option Json := do
  let A ← (field? j "A") >>= getRatMat?
  let b ← (field? j "b") >>= getRatList?
  let x ← (field? j "x") >>= getRatList?
  let I ← (field? j "I") >>= getNatList?
  let D ← (field? j "D") >>= getNatList?
  pure (Json.mkObj [("AII", ratMat (condenseMat (matFn A) I)),
    ("bI", ratList (condenseRhs (matFn A) (vecFn b) (vecFn x) I D))])

def opBcEnforce (j : Json) : Option Json := do
  let n ← (field? j "n") >>= getNat?
  let A ← (field? j "A") >>= getRatMat?
  let b ← (field? j "b") >>= getRatList?
  let x ← (field? j "x") >>= getRatList?
  let D ← (field? j "D") >>= getNatList?
  let diag ← (field? j "diag") >>= getRat?
  let A' := enforceMat (matFn A) D diag
  let b' := enforceRhs (vecFn b) (vecFn x) D
  pure (Json.mkObj [("A", ratMat ((List.range n).map (fun i => (List.range n).map (fun k => A' i k)))),
    ("b", ratList ((List.range n).map b'))])

def opBcPenalize (j : Json) : Option Json := do
  let n ← (field? j "n") >>= getNat?
  let A ← (field? j "A") >>= getRatMat?
  let b ← (field? j "b") >>= getRatList?
  let x ← (field? j "x") >>= getRatList?
  let D ← (field? j "D") >>= getNatList?
  let epsInv ← (field? j "epsInv") >>= getRat?
  let A' := penalizeMat (matFn A) D epsInv
  let b' := penalizeRhs (vecFn b) (vecFn x) D epsInv
  pure (Json.mkObj [("A", ratMat ((List.range n).map (fun i => (List.range n).map (fun k => A' i k)))),
    ("b", ratList ((List.range n).map b'))])

def opBcExpand (j : Json) : Option Json := do
  let n ← (field? j "n") >>= getNat?
  let x ← (field? j "x") >>= getRatList?
  let I ← (field? j "I") >>= getNatList?
  let sol ← (field? j "sol") >>= getRatList?
  let y := expandSol (vecFn x) I sol
  pure (ratList ((List.range n).map y))

def opBcMpc (j : Json) : Option Json := do
  let n ← (field? j "n") >>= getNat?
  let A ← (field? j "A") >>= getRatMat?
  let b ← (field? j "b") >>= getRatList?
  let U ← (field? j "U") >>= getNatList?
  let M ← (field? j "M") >>= getNatList?
  let S ← (field? j "S") >>= getNatList?
  let T ← (field? j "T") >>= getRatMat?
  let g ← (field? j "g") >>= getRatList?
  let w ← (field? j "w") >>= getRatList?
  let m := U.length + M.length
  let B := (List.range m).map (fun p => (List.range m).map (fun q => mpcMat (matFn A) U M S (matFn T) p q))
  let y := (List.range m).map (fun p => mpcRhs (matFn A) (vecFn b) U M S (vecFn g) p)
  let z := (List.range n).map (fun i => mpcExpand U M S (matFn T) (vecFn g) (vecFn w) i)
  pure (Json.mkObj [("B", ratMat B), ("y", ratList y), ("z", ratList z)])

def bcOps : List (String × (Json → Option Json)) :=
  [("bc.init", opBcInit), ("bc.enforce.idx", opBcEnforceIdx), ("bc.condense", opBcCondense),
   ("bc.enforce", opBcEnforce), ("bc.penalize", opBcPenalize), ("bc.expand", opBcExpand), ("bc.mpc", opBcMpc)]

end Drv
