import SkfemVerif.Drv.Base
import SkfemVerif.Model.MeshIO
open Lean Skv Skv.MeshIO
namespace Drv

def ioGetF2t? (j : Json) : Option (List Int × List Int) := do
  let a ← (field? j "f2t0") >>= getIntList?
  let b ← (field? j "f2t1") >>= getIntList?
  pure (a, b)

def ioBoolJson (b : Bool) : Json := Json.bool b

/-- `_encode_cell_data` of one boundary -/
def opIoEncode (j : Json) : Option Json := do
  let t2f ← (field? j "t2f") >>= getNatMat?
  let nt ← (field? j "nt") >>= getNat?
  let f2t ← ioGetF2t? j
  let fs ← (field? j "fs") >>= getNatList?
  let ori ← (field? j "ori") >>= getNatList?
  pure (natList (encodeBoundary t2f nt f2t fs ori))

/-- `_decode_cell_data` of one boundary: repaired and pinned decoder -/
def opIoDecode (j : Json) : Option Json := do
  let t2f ← (field? j "t2f") >>= getNatMat?
  let f2t ← ioGetF2t? j
  let data ← (field? j "data") >>= getNatList?
  let d := decodeBoundary t2f f2t data
  let o := decodeBoundaryOld t2f f2t data
  pure (Json.mkObj [("facets", natList d.1), ("ori", natList d.2), ("oriented", ioBoolJson (isOriented d.2)),
    ("old_facets", natList o.1), ("old_ori", natList o.2), ("old_oriented", ioBoolJson (isOriented o.2))])

def opIoSub (j : Json) : Option Json := do
  let nt ← (field? j "nt") >>= getNat?
  let s ← (field? j "s") >>= getNatList?
  pure (Json.mkObj [("enc", natList (encodeSub nt s)), ("dec", natList (decodeSub (encodeSub nt s)))])

def opIoSubDec (j : Json) : Option Json := do
  let data ← (field? j "data") >>= getNatList?
  pure (natList (decodeSub data))

def opIoHexMap (_ : Json) : Option Json :=
  pure (Json.mkObj [("hex", natList hexMapping), ("inv", natList invHexMapping)])

/-- `t[HEX_MAPPING[:n]]` (export) or `t[INV_HEX_MAPPING[:n]]` (import) -/
def opIoHexRows (j : Json) : Option Json := do
  let t ← (field? j "t") >>= getNatMat?
  let n ← (field? j "n") >>= getNat?
  let inv ← (field? j "inverse") >>= getBool?
  pure (natMat (takeRows t ((if inv then invHexMapping else hexMapping).take n)))

/-- `__post_init__` on point labels `0..N-1`; label `N` stands for a zero column -/
def opIoPostInit (j : Json) : Option Json := do
  let m ← (field? j "M") >>= getNat?
  let nt ← (field? j "nt") >>= getNat?
  let np ← (field? j "N") >>= getNat?
  let tFull ← (field? j "t") >>= getNatMat?
  let edofs ← (field? j "edofs") >>= getNatMat?
  let (t, perm) := postInit np m nt (List.range np) tFull (fun _ => edofs)
  pure (Json.mkObj [("t", natMat t), ("perm", natList perm)])

def ioStrList (l : List Key) : Json := Json.arr (l.map (fun k => Json.str (String.ofList k))).toArray

def ioGetBnd? (j : Json) : Option (List (Key × Bool)) :=
  match j.getArr? with
  | .ok a => a.toList.mapM (fun x => match x.getArr? with
      | .ok #[Json.str s, Json.bool b] => some (s.toList, b)
      | _ => none)
  | _ => none

/-- key directory of `save_npz` and what `load_npz` recognises in it -/
def opIoNpz (j : Json) : Option Json := do
  let bnd ← (field? j "bnd") >>= ioGetBnd?
  let sub ← (field? j "sub") >>= getStrList?
  let keys := npzKeys bnd (sub.map String.toList)
  let (lb, ls) := npzLoad keys
  pure (Json.mkObj [("keys", ioStrList keys),
    ("bnd", Json.arr (lb.map (fun b => Json.arr #[Json.str (String.ofList b.1), Json.bool b.2])).toArray),
    ("sub", ioStrList ls)])

def meshioOps : List (String × (Json → Option Json)) :=
  [("io.encode", opIoEncode), ("io.decode", opIoDecode), ("io.sub", opIoSub),
   ("io.subdec", opIoSubDec), ("io.hexmap", opIoHexMap), ("io.hexrows", opIoHexRows),
   ("io.postinit", opIoPostInit), ("io.npz", opIoNpz)]

end Drv
