import Lean.Data.Json
import SkfemVerif.Model.Np
/-
Line-protocol driver: one JSON object per input line, one JSON value per output line.
Imports only the (Mathlib-free) models, so it can be linked as an executable.
-/
open Lean Skv

namespace Drv

def err (msg : String) : Json := Json.mkObj [("error", Json.str msg)]

def getNat? (j : Json) : Option Nat :=
  match j.getInt? with
  | .ok i => if i ≥ 0 then some i.toNat else none
  | _ => none

def getInt? (j : Json) : Option Int :=
  match j.getInt? with
  | .ok i => some i
  | _ => none

def getNatList? (j : Json) : Option (List Nat) :=
  match j.getArr? with
  | .ok a => a.toList.mapM getNat?
  | _ => none

def getIntList? (j : Json) : Option (List Int) :=
  match j.getArr? with
  | .ok a => a.toList.mapM getInt?
  | _ => none

def getNatMat? (j : Json) : Option (List (List Nat)) :=
  match j.getArr? with
  | .ok a => a.toList.mapM getNatList?
  | _ => none

def field? (j : Json) (k : String) : Option Json :=
  match j.getObjVal? k with
  | .ok v => some v
  | _ => none

def natList (l : List Nat) : Json := Json.arr (l.map (fun n => Json.num (JsonNumber.fromNat n))).toArray
def intList (l : List Int) : Json := Json.arr (l.map (fun n => Json.num (JsonNumber.fromInt n))).toArray
def natMat (m : List (List Nat)) : Json := Json.arr (m.map natList).toArray


def getStrList? (j : Json) : Option (List String) :=
  match j.getArr? with
  | .ok a => a.toList.mapM (fun x => match x with | Json.str s => some s | _ => none)
  | _ => none

def getBool? (j : Json) : Option Bool := match j with | Json.bool b => some b | _ => none

/-- rationals travel as "n/d" strings (or plain integers) -/
def getRat? (j : Json) : Option Rat :=
  match j with
  | Json.str s =>
    match s.splitOn "/" with
    | [n] => n.toInt?.map (fun i => (i : Rat))
    | [n, d] => do
      let ni ← n.toInt?
      let di ← d.toNat?
      if di == 0 then none else pure (mkRat ni di)
    | _ => none
  | _ => (getInt? j).map (fun i => (i : Rat))

def getRatList? (j : Json) : Option (List Rat) :=
  match j.getArr? with
  | .ok a => a.toList.mapM getRat?
  | _ => none

def getRatMat? (j : Json) : Option (List (List Rat)) :=
  match j.getArr? with
  | .ok a => a.toList.mapM getRatList?
  | _ => none

def ratJson (q : Rat) : Json := Json.str s!"{q.num}/{q.den}"
def ratList (l : List Rat) : Json := Json.arr (l.map ratJson).toArray
def ratMat (m : List (List Rat)) : Json := Json.arr (m.map ratList).toArray

def optNatList? (j : Json) (k : String) : Option (Option (List Nat)) :=
  match field? j k with
  | none => some none
  | some Json.null => some none
  | some v => (getNatList? v).map some

end Drv
