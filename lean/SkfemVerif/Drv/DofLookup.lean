import SkfemVerif.Drv.Base
import SkfemVerif.Model.DofLookup
/-
Driver ops for C07 (DOF lookups): `dofs.lookup`, `dofs.normalize`, `dofs.complement`, `dofs.or`,
`dofs.names_of`, `elem.names`.
-/
open Lean Skv
namespace Drv

def lkTopo? (j : Json) : Option Topo := do
  let dim ← (field? j "dim") >>= getNat?
  let nverts ← (field? j "nverts") >>= getNat?
  let nedges ← (field? j "nedges") >>= getNat?
  let nfacets ← (field? j "nfacets") >>= getNat?
  let nt ← (field? j "nt") >>= getNat?
  let t ← (field? j "t") >>= getNatMat?
  let t2e ← (field? j "t2e") >>= getNatMat?
  let t2f ← (field? j "t2f") >>= getNatMat?
  pure { dim := dim, nverts := nverts, nedges := nedges, nfacets := nfacets, nt := nt,
         t := t, t2e := t2e, t2f := t2f }

def lkCounts? (j : Json) : Option DofCounts := do
  let l ← getNatList? j
  match l with
  | [a, b, c, d] => pure { nodal := a, edge := b, facet := c, interior := d }
  | _ => none

def strList (l : List String) : Json := Json.arr (l.map Json.str).toArray

def byNameJson (d : List (String × List Nat)) : Json :=
  Json.arr (d.map (fun p => Json.arr #[Json.str p.1, natList p.2])).toArray

def viewJson (c : DofCounts) (tp : Topo) (dn : List String) (v : View) : Json :=
  Json.mkObj [("nodal_ix", natList v.nodalIx), ("facet_ix", natList v.facetIx),
    ("edge_ix", natList v.edgeIx), ("interior_ix", natList v.interiorIx),
    ("nodal_rows", natList v.nodalRows), ("facet_rows", natList v.facetRows),
    ("edge_rows", natList v.edgeRows), ("interior_rows", natList v.interiorRows),
    ("flat", natList (v.flatten c tp)),
    ("nodal", byNameJson (v.nodal c tp dn)), ("facet", byNameJson (v.facet c tp dn)),
    ("edge", byNameJson (v.edge c tp dn)), ("interior", byNameJson (v.interior c tp dn))]

def getView? (j : Json) : Option View := do
  let a ← (field? j "nodal_ix") >>= getNatList?
  let b ← (field? j "facet_ix") >>= getNatList?
  let c ← (field? j "edge_ix") >>= getNatList?
  let d ← (field? j "interior_ix") >>= getNatList?
  let e ← (field? j "nodal_rows") >>= getNatList?
  let f ← (field? j "facet_rows") >>= getNatList?
  let g ← (field? j "edge_rows") >>= getNatList?
  let h ← (field? j "interior_rows") >>= getNatList?
  pure (View.mk a b c d e f g h)

/-- one step of a chain `[{"keep": names} | {"drop": names}, …]` -/
def applyStep (c : DofCounts) (tp : Topo) (dn : List String) (v : View) (st : Json) : Option View :=
  match field? st "keep" with
  | some k => (getStrList? k).map (fun names => v.keep c tp dn names)
  | none =>
    match field? st "drop" with
    | some k => (getStrList? k).map (fun names => v.drop c tp dn names)
    | none => none

/-- `dofs.lookup`: `get_dofs(facets|elements|nodes = ix, skip = …)` followed by a chain of
    `keep` / `drop`; returns every intermediate view (fields, flattened array, by-name dicts) -/
def opDofsLookup (j : Json) : Option Json := do
  let tp ← lkTopo? j
  let c ← (field? j "counts") >>= lkCounts?
  let facets ← (field? j "facets") >>= getNatMat?
  let f2e ← (field? j "f2e") >>= getNatMat?
  let we ← (field? j "with_edges") >>= getBool?
  let dn ← (field? j "dofnames") >>= getStrList?
  let skip ← (field? j "skip") >>= getStrList?
  let ix ← (field? j "ix") >>= getNatList?
  let kind ← match field? j "kind" with
    | some (Json.str s) => some s
    | _ => none
  let r := nameRows c tp dn skip true
  let v0 ← match kind with
    | "facets" => some (facetView c facets f2e we ix r)
    | "elements" => some (elementView c tp ix r)
    | "nodes" => some (vertexView ix r)
    | _ => none
  let steps ← match field? j "steps" with
    | some (Json.arr a) => some a.toList
    | none => some []
    | _ => none
  let rec go (v : View) (acc : List Json) : List Json → Option (List Json)
    | [] => some acc.reverse
    | st :: rest => do
      let v' ← applyStep c tp dn v st
      go v' (viewJson c tp dn v' :: acc) rest
  let views ← go v0 [viewJson c tp dn v0] steps
  pure (Json.arr views.toArray)

def getTags? (j : Json) : Option (List (String × List Nat)) :=
  match j.getArr? with
  | .ok a => a.toList.mapM (fun p =>
      match p with
      | Json.arr #[Json.str s, l] => (getNatList? l).map (fun l' => (s, l'))
      | _ => none)
  | _ => none

def getBoolList? (j : Json) : Option (List Bool) :=
  match j.getArr? with
  | .ok a => a.toList.mapM getBool?
  | _ => none

/-- selector JSON: {"idx":[…]} | {"int":i} | {"pred":[bool…]} | {"tag":"s"} | {"coll":[…]} |
    {"none":true} | {"all":true}; `fuel` bounds the nesting depth -/
def parseSel : Nat → Json → Option Sel
  | 0, _ => none
  | fuel + 1, j =>
    match field? j "idx" with
    | some v => (getNatList? v).map Sel.idx
    | none =>
    match field? j "int" with
    | some v => (getNat? v).map Sel.int
    | none =>
    match field? j "pred" with
    | some v => (getBoolList? v).map Sel.pred
    | none =>
    match field? j "tag" with
    | some (Json.str s) => some (Sel.tag s)
    | some _ => none
    | none =>
    match field? j "coll" with
    | some (Json.arr a) => (a.toList.mapM (parseSel fuel)).map Sel.coll
    | some _ => none
    | none =>
    match field? j "none" with
    | some _ => some Sel.none
    | none =>
    match field? j "all" with
    | some _ => some Sel.all
    | none => none

/-- `dofs.normalize`: `Mesh.normalize_facets / normalize_elements / normalize_nodes` -/
def opDofsNormalize (j : Json) : Option Json := do
  let kind ← match field? j "kind" with
    | some (Json.str "facets") => some SelKind.facets
    | some (Json.str "elements") => some SelKind.elements
    | some (Json.str "nodes") => some SelKind.nodes
    | _ => none
  let tags ← (field? j "tags") >>= getTags?
  let bnd ← (field? j "bnd") >>= getNatList?
  let n ← (field? j "n") >>= getNat?
  let sel ← (field? j "sel") >>= parseSel 16
  match normalize kind tags bnd n sel with
  | some l => pure (Json.mkObj [("raises", Json.bool false), ("ix", natList l)])
  | none => pure (Json.mkObj [("raises", Json.bool true)])

def opDofsComplement (j : Json) : Option Json := do
  let n ← (field? j "N") >>= getNat?
  let ds ← (field? j "D") >>= getNatMat?
  pure (natList (complementDofs n ds))

def opDofsOr (j : Json) : Option Json := do
  let tp ← lkTopo? j
  let c ← (field? j "counts") >>= lkCounts?
  let dn ← (field? j "dofnames") >>= getStrList?
  let a ← (field? j "a") >>= getView?
  let b ← (field? j "b") >>= getView?
  pure (viewJson c tp dn (a.or b))

/-- `dofs.names_of`: `dofName` of every listed DOF number -/
def opDofsNamesOf (j : Json) : Option Json := do
  let tp ← lkTopo? j
  let c ← (field? j "counts") >>= lkCounts?
  let dn ← (field? j "dofnames") >>= getStrList?
  let xs ← (field? j "dofs") >>= getNatList?
  pure (strList (xs.map (dofName c tp dn)))

def getElemNames? (j : Json) : Option ElemNames := do
  let c ← (field? j "counts") >>= lkCounts?
  let names ← (field? j "names") >>= getStrList?
  pure ⟨c, names⟩

/-- `elem.names`: the `dofnames` lists built by the wrapper elements (repaired and pinned) -/
def opElemNames (j : Json) : Option Json := do
  match field? j "wrapper" with
  | some (Json.str "composite") =>
    let comps ← match field? j "comps" with
      | some (Json.arr a) => a.toList.mapM getElemNames?
      | _ => none
    let sc := sumCounts comps
    pure (Json.mkObj [("names", strList (compositeNames comps)),
      ("names_old", strList (compositeNamesOld comps)),
      ("counts", natList [sc.nodal, sc.edge, sc.facet, sc.interior])])
  | some (Json.str "vector") =>
    let dim ← (field? j "dim") >>= getNat?
    let names ← (field? j "names") >>= getStrList?
    pure (Json.mkObj [("names", strList (vectorNames dim names))])
  | some (Json.str "dg") =>
    let e ← (field? j "elem") >>= getElemNames?
    let nn ← (field? j "nnodes") >>= getNat?
    let ne ← (field? j "nedges") >>= getNat?
    let nf ← (field? j "nfacets") >>= getNat?
    pure (Json.mkObj [("names", strList (dgNames nn ne nf e)),
      ("names_old", strList (dgNamesOld nn ne nf e))])
  | _ => none

def dofLookupOps : List (String × (Json → Option Json)) :=
  [("dofs.lookup", opDofsLookup), ("dofs.normalize", opDofsNormalize),
   ("dofs.complement", opDofsComplement), ("dofs.or", opDofsOr),
   ("dofs.names_of", opDofsNamesOf), ("elem.names", opElemNames)]

end Drv
