import SkfemVerif.Drv.Base
import SkfemVerif.Model.Surgery
/-
Driver ops `surgery.*` : the executable C18 models (Model/Surgery.lean) behind the JSON line
protocol.  Points travel as integer tuples (dyadic coordinates scaled by a power of two).
-/
open Lean Skv
namespace Drv

def getIntMat? (j : Json) : Option (List (List Int)) :=
  match j.getArr? with
  | .ok a => a.toList.mapM getIntList?
  | _ => none

def getNatMatList? (j : Json) : Option (List (List (List Nat))) :=
  match j.getArr? with
  | .ok a => a.toList.mapM getNatMat?
  | _ => none

def getIntMatList? (j : Json) : Option (List (List (List Int))) :=
  match j.getArr? with
  | .ok a => a.toList.mapM getIntMat?
  | _ => none

def intMat (m : List (List Int)) : Json := Json.arr (m.map intList).toArray

def optNatListJson : Option (List Nat) → Json
  | none => Json.null
  | some l => natList l

def opReix (j : Json) : Option Json := do
  let cells ← (field? j "cells") >>= getNatMat?
  pure <| Json.mkObj [("cells", natMat (reixCells cells)), ("used", natList (reixUsed cells))]

def opRestrict (j : Json) : Option Json := do
  let cells ← (field? j "cells") >>= getNatMat?
  let ref ← (field? j "ref") >>= getNatMat?
  let elements ← (field? j "elements") >>= getNatList?
  let bnds ← (field? j "boundaries") >>= getNatMat?
  let subs ← (field? j "subdomains") >>= getNatMat?
  let t2f := entityMapping cells ref
  let newCells := restrictCells cells elements
  pure <| Json.mkObj [
    ("cells", natMat newCells),
    ("vertex_map", natList (restrictVertexMap cells elements)),
    ("used_facets", natList (usedFacets t2f elements)),
    ("facets", natMat (entitiesSorted newCells ref)),
    ("boundaries", natMat (bnds.map (restrictBoundary t2f elements))),
    ("subdomains", natMat (subs.map (restrictSub elements)))]

def opRemoveKeep (j : Json) : Option Json := do
  let nt ← (field? j "nt") >>= getNat?
  let elements ← (field? j "elements") >>= getNatList?
  pure <| natList (removeKeep nt elements)

def opDedup (j : Json) : Option Json := do
  let pts ← (field? j "pts") >>= getIntMat?
  let cells ← (field? j "cells") >>= getNatMat?
  pure <| Json.mkObj [("points", intMat (dedupPoints pts)), ("cells", natMat (dedupCells pts cells))]

def opJoin (j : Json) : Option Json := do
  let p1 ← (field? j "p1") >>= getIntMat?
  let p2 ← (field? j "p2") >>= getIntMat?
  let t1 ← (field? j "t1") >>= getNatMat?
  let t2 ← (field? j "t2") >>= getNatMat?
  pure <| Json.mkObj [("points", intMat (dedupPoints (p1 ++ p2))), ("cells", natMat (joinCells p1 p2 t1 t2))]

def opMatmul (j : Json) : Option Json := do
  let ps ← (field? j "ps") >>= getIntMatList?
  let ts ← (field? j "ts") >>= getNatMatList?
  pure <| Json.mkObj [("points", intMat (dedupPoints ps.flatten)),
    ("cells", Json.arr ((matmulCells ps ts).map natMat).toArray),
    ("cells_old", Json.arr ((matmulCellsOld ps ts).map natMat).toArray)]

def templateOf : String → Option (List (List Nat))
  | "quad" => some quadToTri
  | "quad-x" => some quadToTriX
  | "hex" => some hexToTet
  | "wedge" => some wedgeToTet
  | _ => none

def opSplitCells (j : Json) : Option Json := do
  let cells ← (field? j "cells") >>= getNatMat?
  let style ← match field? j "style" with | some (Json.str s) => some s | _ => none
  let templ ← templateOf style
  let nv ← (field? j "nv") >>= getNat?
  let sub ← (field? j "sub") >>= getNatList?
  let src := if style == "quad-x" then withCentre nv cells else cells
  pure <| Json.mkObj [("cells", natMat (splitCells templ src)),
    ("sub", natList (splitSub cells.length templ.length sub))]

def opTriLookup (j : Json) : Option Json := do
  let nf ← (field? j "new_facets") >>= getNatMat?
  let fs ← (field? j "facets") >>= getNatMat?
  pure <| optNatListJson (triFacetLookup nf fs)

def opExtrude (j : Json) : Option Json := do
  let nv ← (field? j "nv") >>= getNat?
  let cells ← (field? j "cells") >>= getNatMat?
  let nl ← (field? j "nlayers") >>= getNat?
  let pts ← (field? j "pts") >>= getIntMat?
  let zs ← (field? j "zs") >>= getIntList?
  pure <| Json.mkObj [("cells", natMat (extrudeCells nv cells nl)), ("points", intMat (extrudePoints pts zs))]

def opAffine (j : Json) : Option Json := do
  let kind ← match field? j "kind" with | some (Json.str s) => some s | _ => none
  let pts ← (field? j "pts") >>= getRatMat?
  let a ← (field? j "a") >>= getRatList?
  let b ← (field? j "b") >>= getRatList?
  match kind with
  | "scaled" => pure <| ratMat (pts.map (scaledPt a))
  | "translated" => pure <| ratMat (pts.map (translatedPt a))
  | "mirrored" => if dotQ a a == 0 then none else pure <| ratMat (pts.map (mirroredPt a b))
  | _ => none

def surgeryOps : List (String × (Json → Option Json)) :=
  [("surgery.reix", opReix), ("surgery.restrict", opRestrict), ("surgery.remove_keep", opRemoveKeep),
   ("surgery.dedup", opDedup), ("surgery.join", opJoin), ("surgery.matmul", opMatmul),
   ("surgery.split", opSplitCells), ("surgery.tri_lookup", opTriLookup),
   ("surgery.extrude", opExtrude), ("surgery.affine", opAffine)]

end Drv
