import SkfemVerif.Drv.Base
import SkfemVerif.Model.Affine
open Lean Skv Skv.Map Skv.Gen.Map
namespace Drv

def mfn (A : List (List Rat)) : Nat → Nat → Rat :=
  let arr := (A.map (·.toArray)).toArray
  fun i j => (arr.getD i #[]).getD j 0

def vfn (v : List Rat) : Nat → Rat :=
  let arr := v.toArray
  fun i => arr.getD i 0

def vecOut (d : Nat) (f : Nat → Rat) : Json := ratList ((List.range d).map f)
def matOut (r c : Nat) (f : Nat → Nat → Rat) : Json :=
  ratMat ((List.range r).map (fun i => (List.range c).map (fun j => f i j)))

/-- map.aff : a simplex cell given by its nodes `v` ((d+1) × d); reference points `X`, global points `x`.
    `sub` selects the formulas of the `tind`-subset branch of `_init_Ab`. -/
def opMapAff (j : Json) : Option Json := do
  let d ← (field? j "d") >>= getNat?
  let vl ← (field? j "v") >>= getRatMat?
  let Xs ← (field? j "X") >>= getRatMat?
  let xs ← (field? j "x") >>= getRatMat?
  let sub ← (field? j "sub") >>= getBool?
  let v := mfn vl
  let A : Nat → Nat → Rat := if sub then affASub v else affA v
  let b : Nat → Rat := if sub then affbSub v else affb v
  let inv := affInv d A
  pure (Json.mkObj [
    ("A", matOut d d A), ("b", vecOut d b), ("det", ratJson (affDet d A)), ("inv", matOut d d inv),
    ("F", Json.arr (Xs.map (fun X => vecOut d (affF d A b (vfn X)))).toArray),
    ("invF", Json.arr (xs.map (fun x => vecOut d (affInvF d inv b (vfn x)))).toArray),
    ("normals", Json.arr ((List.range (d + 1)).map (fun i =>
      let n := rawNormal affNormalTransposed d inv (fun jj => tabEntry (affNref d) i jj)
      Json.mkObj [("raw", vecOut d n), ("lenSq", ratJson (lenSq d n))])).toArray)])

/-- map.affbnd : a simplex facet given by its nodes `w` (d × d); facet reference points `S` -/
def opMapAffBnd (j : Json) : Option Json := do
  let d ← (field? j "d") >>= getNat?
  let wl ← (field? j "w") >>= getRatMat?
  let Ss ← (field? j "S") >>= getRatMat?
  let w := mfn wl
  let B : Nat → Nat → Rat := affB w
  let c : Nat → Rat := affc w
  pure (Json.mkObj [
    ("B", matOut d (d - 1) B), ("c", vecOut d c), ("surfSq", ratJson (affSurfSq d B)),
    ("G", Json.arr (Ss.map (fun s => vecOut d (affG d B c (vfn s)))).toArray)])

/-- map.iso : an isoparametric cell: shape-function family, nodes `v` (n × d), reference points `X`,
    reference cell name for the normals table -/
def opMapIso (j : Json) : Option Json := do
  let d ← (field? j "d") >>= getNat?
  let name ← match field? j "elem" with | some (Json.str s) => some s | _ => none
  let fam : Family Rat ← family? name
  let vl ← (field? j "v") >>= getRatMat?
  let Xs ← (field? j "X") >>= getRatMat?
  let tab ← match field? j "ref" with | some (Json.str s) => refNormals? s | _ => none
  let v := mfn vl
  pure (Json.arr (Xs.map (fun Xl =>
    let X := vfn Xl
    let J := isoJ fam.n fam.dphi v X
    Json.mkObj [
      ("F", vecOut d (isoF fam.n fam.phi v X)), ("J", matOut d d J), ("det", ratJson (isoDet d J)),
      ("inv", matOut d d (isoInv d J)),
      ("normals", Json.arr ((List.range tab.length).map (fun i =>
        let n := isoRawNormal d tab J i
        Json.mkObj [("raw", vecOut d n), ("lenSq", ratJson (lenSq d n))])).toArray)])).toArray)

/-- map.isobnd : an isoparametric facet: boundary family, nodes `w` (n × d), facet reference points `S` -/
def opMapIsoBnd (j : Json) : Option Json := do
  let d ← (field? j "d") >>= getNat?
  let name ← match field? j "elem" with | some (Json.str s) => some s | _ => none
  let fam : Family Rat ← family? name
  let wl ← (field? j "w") >>= getRatMat?
  let Ss ← (field? j "S") >>= getRatMat?
  let w := mfn wl
  pure (Json.arr (Ss.map (fun sl =>
    let s := vfn sl
    let BJ := isoJ fam.n fam.dphi w s
    Json.mkObj [
      ("G", vecOut d (isoF fam.n fam.phi w s)), ("BJ", matOut d (d - 1) BJ),
      ("surfSq", ratJson (isoSurfSq d BJ))])).toArray)

/-- map.outshape : does the output allocation of `Fmap/_J/bndmap/bndJ` broadcast with the basis values? -/
def opMapOutShape (j : Json) : Option Json := do
  let shapeX ← (field? j "shapeX") >>= getNatList?
  let rows ← (field? j "rows") >>= getNat?
  let phiShape := shapeX.drop 1
  pure (Json.arr (isoPointAxes.map (fun k =>
    match outCols k shapeX with
    | some c => Json.mkObj [("cols", Json.num (JsonNumber.fromNat c)),
                            ("ok", Json.bool (broadcastsInto rows c phiShape))]
    | none => Json.mkObj [("cols", Json.null), ("ok", Json.bool false)])).toArray)

/-- map.hashkey : do two integer arrays (item size, values) get the same cache key? -/
def opMapHashKey (j : Json) : Option Json := do
  let w1 ← (field? j "w1") >>= getNat?
  let a1 ← (field? j "a1") >>= getNatList?
  let w2 ← (field? j "w2") >>= getNat?
  let a2 ← (field? j "a2") >>= getNatList?
  let x := intArr w1 a1
  let y := intArr w2 a2
  pure (Json.mkObj [("same_key", Json.bool (arrKey hashKeyFields x == arrKey hashKeyFields y)),
                    ("same_array", Json.bool (x == y))])

def affineOps : List (String × (Json → Option Json)) :=
  [("map.aff", opMapAff), ("map.affbnd", opMapAffBnd), ("map.iso", opMapIso), ("map.isobnd", opMapIsoBnd),
   ("map.outshape", opMapOutShape), ("map.hashkey", opMapHashKey)]

end Drv
