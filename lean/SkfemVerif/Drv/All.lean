import SkfemVerif.Drv.Base
import SkfemVerif.Drv.BC
import SkfemVerif.Drv.Quad
import SkfemVerif.Drv.Asm
import SkfemVerif.Drv.Poly
import SkfemVerif.Drv.Integration
import SkfemVerif.Drv.MeshIO
import SkfemVerif.Drv.Conformity
import SkfemVerif.Drv.Surgery
import SkfemVerif.Drv.DofLookup
import SkfemVerif.Drv.RefineUniformDrv
import SkfemVerif.Drv.Autodiff
import SkfemVerif.Drv.Affine
import SkfemVerif.Drv.Cache
import SkfemVerif.Drv.Blocks
import SkfemVerif.Drv.Refine
import SkfemVerif.Drv.Finder
/-
Registry of driver ops contributed by the per-area files: add an import and `++ xxxOps`.
-/
open Lean
namespace Drv

def allOps : List (String × (Json → Option Json)) :=
  bcOps ++ quadOps ++ asmOps ++ polyOps ++ integrationOps ++ meshioOps ++ conformityOps ++ surgeryOps ++ dofLookupOps ++ refineUniformOps ++ autodiffOps ++ affineOps ++ cacheOps ++ blocksOps ++ refineOps ++ finderOps

end Drv
