import SkfemVerif.Drv.Base
import SkfemVerif.Model.Poly
open Lean Skv
namespace Drv

def getPoly? (j : Json) : Option Poly :=
  match j.getArr? with
  | .ok a => a.toList.mapM (fun t => match t.getArr? with
      | .ok #[c, e] => do
        let c ← getRat? c
        let e ← getNatList? e
        pure (c, e)
      | _ => none)
  | _ => none

def opPolyEval (j : Json) : Option Json := do
  let p ← (field? j "poly") >>= getPoly?
  let x ← (field? j "x") >>= getRatList?
  pure (ratJson (p.eval x))

def opPolyPderiv (j : Json) : Option Json := do
  let p ← (field? j "poly") >>= getPoly?
  let i ← (field? j "i") >>= getNat?
  let x ← (field? j "x") >>= getRatList?
  pure (ratJson ((p.pderiv i).eval x))

def opPbasis (j : Json) : Option Json := do
  let i ← (field? j "i") >>= getNat?
  let dx ← (field? j "dx") >>= getNat?
  pure (Json.mkObj [("coef", Json.num (JsonNumber.fromInt (pbasisCoeff i dx))),
                    ("exp", Json.num (JsonNumber.fromNat (pbasisExp i dx)))])

def polyOps : List (String × (Json → Option Json)) :=
  [("poly.eval", opPolyEval), ("poly.pderiv", opPolyPderiv), ("poly.pbasis", opPbasis)]

end Drv
