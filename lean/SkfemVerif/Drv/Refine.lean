import SkfemVerif.Drv.Base
import SkfemVerif.Model.RefineAdaptive
/-
Driver ops of the adaptive-refinement model (C13):
  refine.tri     whole `MeshTri1._adaptive` from (p, t, marked, subdomains)
  refine.line    `MeshLine1._adaptive`
  refine.tet.step  longest-edge sort + one bisection of a single tetrahedron
  refine.check   the certificate checker `checkClauses`
-/
open Lean Skv Skv.RA
namespace Drv

def triOfList? : List Nat → Option Tri
  | [a, b, c] => some (a, b, c)
  | _ => none

def pairOfList? {α : Type} : List α → Option (α × α)
  | [a, b] => some (a, b)
  | _ => none

def triJson (c : Tri) : Json := natList [c.1, c.2.1, c.2.2]
def boolList (l : List Bool) : Json := Json.arr (l.map Json.bool).toArray

def clsName : Cls → String
  | .rest => "rest" | .red => "red" | .blue1 => "blue1" | .blue2 => "blue2" | .green => "green"
  | .bad => "bad"

def opRefineTri (j : Json) : Option Json := do
  let p ← (field? j "p") >>= getRatMat? >>= (·.mapM pairOfList?)
  let t ← (field? j "t") >>= getNatMat? >>= (·.mapM triOfList?)
  let marked ← (field? j "marked") >>= getNatList?
  let subs ← (field? j "subdomains") >>= getNatMat?
  let ts := sortMesh p t
  let (ents, mapping) := buildEntities (ts.map (fun c => [c.1, c.2.1, c.2.2])) [[0, 1], [1, 2], [0, 2]] true
  let facets ← ents.mapM pairOfList?
  let row := fun (i : Nat) => mapping.getD i []
  let t2f : List Tri := (List.range ts.length).map (fun k =>
    ((row 0).getD k 0, (row 1).getD k 0, (row 2).getD k 0))
  let (x, pts) := triAdaptive p ts t2f facets marked
  pure <| Json.mkObj [
    ("sorted", Json.arr (ts.map triJson).toArray),
    ("marks", boolList x.marks),
    ("cls", Json.arr (x.cls.map (fun c => Json.str (clsName c))).toArray),
    ("cells", Json.arr (x.newCells.map triJson).toArray),
    ("points", ratMat (pts.map (fun q => [q.1, q.2]))),
    ("children", natMat ((List.range ts.length).map x.childIdxs)),
    ("subdomains", natMat (subs.map x.subdomain))]

def opRefineLine (j : Json) : Option Json := do
  let p ← (field? j "p") >>= getRatList?
  let t ← (field? j "t") >>= getNatMat? >>= (·.mapM pairOfList?)
  let marked ← (field? j "marked") >>= getNatList?
  let subs ← (field? j "subdomains") >>= getNatMat?
  let mid0 := listMax (t.flatMap (fun c => [c.1, c.2])) + 1
  let cells := lineCells mid0 t marked
  pure <| Json.mkObj [
    ("cells", natMat (cells.map (fun c => [c.1, c.2]))),
    ("points", ratList (linePoints p t marked)),
    ("children", natMat ((List.range t.length).map (lineChildIdxs t.length marked))),
    ("parents", natList ((List.range cells.length).map (lineParent t.length marked))),
    ("subdomains", natMat (subs.map (lineSubdomain t.length marked))),
    ("subdomains_old", natMat (subs.map (lineSubdomainOld t.length marked)))]

def sq3 (a b : List Rat) : Rat :=
  ((List.zip a b).map (fun q => (q.1 - q.2) * (q.1 - q.2))).sum

def opRefineTetStep (j : Json) : Option Json := do
  let p ← (field? j "p") >>= getRatMat?
  let c ← (field? j "cell") >>= getNatList?
  let m ← (field? j "m") >>= getNat?
  match c with
  | [a, b, cc, d] =>
    let P := fun i => p.getD i []
    let l := fun x y => sq3 (P x) (P y)
    let s := sortTet (l a b) (l b cc) (l a cc) (l a d) (l b d) (l cc d) (a, b, cc, d)
    let (c1, c2) := bisect s m
    let tl := fun (q : Tet) => natList [q.1, q.2.1, q.2.2.1, q.2.2.2]
    pure <| Json.mkObj [("sorted", tl s), ("child1", tl c1), ("child2", tl c2)]
  | _ => none

partial def getTree? (j : Json) : Option BTree :=
  match field? j "c" with
  | some c => (getNat? c).map BTree.leaf
  | none => do
    let i ← (field? j "i") >>= getNat?
    let jj ← (field? j "j") >>= getNat?
    let m ← (field? j "m") >>= getNat?
    let l ← (field? j "l") >>= getTree?
    let r ← (field? j "r") >>= getTree?
    pure (BTree.node i jj m l r)

def getSMesh? (j : Json) : Option SMesh := do
  let p ← (field? j "p") >>= getRatMat?
  let t ← (field? j "t") >>= getNatMat?
  pure { p := p, t := t }

def opRefineCheck (j : Json) : Option Json := do
  let dim ← (field? j "dim") >>= getNat?
  let old ← (field? j "old") >>= getSMesh?
  let new ← (field? j "new") >>= getSMesh?
  let forest ← match (field? j "forest") >>= (fun a => a.getArr?.toOption) with
    | some a => a.toList.mapM getTree?
    | none => none
  let marked ← (field? j "marked") >>= getNatList?
  let cl := checkClauses dim old new forest marked
  pure <| Json.mkObj [("clauses", boolList cl), ("ok", Json.bool (cl.all id)),
    ("nleaves", Json.num (JsonNumber.fromNat (forest.flatMap BTree.leaves).length)),
    ("nedges", Json.num (JsonNumber.fromNat (forestEdges old.t forest).length))]

def refineOps : List (String × (Json → Option Json)) :=
  [("refine.tri", opRefineTri), ("refine.line", opRefineLine),
   ("refine.tet.step", opRefineTetStep), ("refine.check", opRefineCheck)]

end Drv
