import SkfemVerif.Drv.Base
import SkfemVerif.Model.RefineUniform
open Lean Skv Skv.Refine
namespace Drv
namespace RefineDrv

def getKind? (j : Json) : Option Kind :=
  match field? j "kind" with
  | some (Json.str "line") => some .line
  | some (Json.str "tri") => some .tri
  | some (Json.str "quad") => some .quad
  | some (Json.str "tet") => some .tet
  | some (Json.str "hex") => some .hex
  | _ => none

def optNatMat? (j : Json) (k : String) : Option (Option (List (List Nat))) :=
  match field? j k with
  | none => some none
  | some Json.null => some none
  | some v => (getNatMat? v).map some

def optMatJson : Option (List (List Nat)) → Json
  | none => Json.null
  | some m => natMat m

def getMeshData? (j : Json) : Option MeshData := do
  let p ← (field? j "p") >>= getRatMat?
  let cells ← (field? j "cells") >>= getNatMat?
  let sortT ← (field? j "sort_t") >>= getBool?
  let bnd ← optNatMat? j "bnd"
  let sub ← optNatMat? j "sub"
  pure { p := p, cells := cells, sortT := sortT, bnd := bnd, sub := sub }

def meshJson (m : MeshData) : Json :=
  Json.mkObj [("p", ratMat m.p), ("cells", natMat m.cells), ("bnd", optMatJson m.bnd),
              ("sub", optMatJson m.sub)]

/-- `refine.uniform`: `times` passes of the loop of `Mesh.refined`; `second`: second-order class;
    `old`: the pinned (defective) variants -/
def opRefineUniform (j : Json) : Option Json := do
  let kd ← getKind? j
  let m ← getMeshData? j
  let times ← (field? j "times") >>= getNat?
  let second ← (field? j "second") >>= getBool?
  let old ← (field? j "old") >>= getBool?
  let step : MeshData → MeshData :=
    if second then (if old then refinedOnceWith (uniformSecondOld kd) else refinedOnceWith (uniformSecond kd))
    else if old && kd == .line then refinedOnceWith uniformLineOld
    else refinedOnce kd
  let r := (List.range times).foldl (fun a _ => step a) m
  pure (meshJson r)

def opRefineParents (j : Json) : Option Json := do
  let kd ← getKind? j
  let m ← getMeshData? j
  pure (natList (parentsOf kd m))

def boolList (l : List Bool) : Json := Json.arr (l.map Json.bool).toArray

/-- the diagonal masks `c1, c2, c3` of `MeshTet1._uniform` -/
def opRefineTetMasks (j : Json) : Option Json := do
  let m ← getMeshData? j
  let (c1, c2, c3) := tetMasksOf m
  pure (Json.arr #[boolList c1, boolList c2, boolList c3])

def srcJson : Src → Json
  | .v i => Json.arr #[Json.str "v", Json.num (JsonNumber.fromNat i)]
  | .e i => Json.arr #[Json.str "e", Json.num (JsonNumber.fromNat i)]
  | .f i => Json.arr #[Json.str "f", Json.num (JsonNumber.fromNat i)]
  | .c => Json.arr #[Json.str "c", Json.num (JsonNumber.fromNat 0)]

def tmplJson (t : Template) : Json := Json.arr (t.map (fun w => Json.arr (w.map srcJson).toArray)).toArray

/-- the reference tables and templates the theorems are about (compared with the live
    `refdom` tables and with the words read off the real `_uniform` on the reference cell) -/
def opRefineTables (_ : Json) : Option Json :=
  pure (Json.mkObj [
    ("lineFacets", natMat lineFacets), ("triFacets", natMat triFacets), ("quadFacets", natMat quadFacets),
    ("tetFacets", natMat tetFacets), ("tetEdges", natMat tetEdges), ("hexFacets", natMat hexFacets),
    ("hexEdges", natMat hexEdges), ("quadRefP", ratMat quadRefP), ("hexRefP", ratMat hexRefP),
    ("lineT", tmplJson lineT), ("triT", tmplJson triT), ("quadT", tmplJson quadT),
    ("tetCornerT", tmplJson tetCornerT), ("tetMidT0", tmplJson (tetMidT 0)),
    ("tetMidT1", tmplJson (tetMidT 1)), ("tetMidT2", tmplJson (tetMidT 2)), ("hexT", tmplJson hexT)])

end RefineDrv
open RefineDrv

def refineUniformOps : List (String × (Json → Option Json)) :=
  [("refine.uniform", opRefineUniform), ("refine.parents", opRefineParents),
   ("refine.tables", opRefineTables), ("refine.tetmasks", opRefineTetMasks)]

end Drv
