import SkfemVerif.Drv.Base
import SkfemVerif.Model.Autodiff
import SkfemVerif.Gen.HelperFormulas
/-
Driver ops of C20:
  helper.eval  : a GENERATED helper term (Gen/HelperFormulas.lean) on rational arguments
  helper.names : the names in the generated table
  helper.olddet: the hand-written record of the old JAX 3×3 determinant (F3)
  nl.assemble  : the model of `NonlinearForm._assemble` for a polynomial integrand
-/
open Lean Skv
namespace Drv

def opHelperEval (j : Json) : Option Json := do
  let name ← match field? j "name" with | some (Json.str s) => some s | _ => none
  let args ← (field? j "args") >>= getRatMat?
  match Skv.Gen.Helpers.helperTable.find? (fun p => p.1 == name) with
  | some (_, f) => pure (ratList (f args))
  | none => pure (Json.mkObj [("unknown", Json.str name)])

def opHelperNames (_ : Json) : Option Json :=
  pure (Json.arr (Skv.Gen.Helpers.helperTable.map (fun p => Json.str p.1)).toArray)

def opHelperOldDet (j : Json) : Option Json := do
  let a ← (field? j "A") >>= getRatList?
  pure (ratJson (jaxDet3Old (tens2 3 3 a)))

def getArr? (j : Json) : Option (Array Json) :=
  match j.getArr? with
  | .ok a => some a
  | _ => none

def getRatArr? (j : Json) : Option (Array Rat) := do
  let a ← getArr? j
  a.mapM getRat?

def getNLTerm? (j : Json) : Option (NLTerm Rat) := do
  let coef ← (field? j "coef") >>= getRat?
  let ucs ← (field? j "ucs") >>= getNatList?
  let vc ← (field? j "vc") >>= getNat?
  let wc ← (field? j "wc") >>= getNat?
  pure { coef := coef, ucs := ucs, vc := vc, wc := wc }

/-- nl.assemble: basis[j][k][q] = list of sample components, w[k][q] likewise, dx[k][q],
    dofs[j][k], x[dof], terms -/
def opNlAssemble (j : Json) : Option Json := do
  let nb ← (field? j "Nb") >>= getNat?
  let nt ← (field? j "nt") >>= getNat?
  let nq ← (field? j "nq") >>= getNat?
  let dofs ← (field? j "dofs") >>= getNatMat?
  let basisJ ← (field? j "basis") >>= getArr?
  let basis ← basisJ.mapM (fun bj => do
    let a ← getArr? bj
    a.mapM (fun bk => do
      let c ← getArr? bk
      c.mapM getRatArr?))
  let wJ ← (field? j "w") >>= getArr?
  let w ← wJ.mapM (fun wk => do
    let c ← getArr? wk
    c.mapM getRatArr?)
  let dxJ ← (field? j "dx") >>= getArr?
  let dx ← dxJ.mapM getRatArr?
  let x ← (field? j "x") >>= getRatArr?
  let termsJ ← (field? j "terms") >>= getArr?
  let terms ← termsJ.toList.mapM getNLTerm?
  let dofsA := dofs.toArray.map (fun r => r.toArray)
  let dofsF : Nat → Nat → Nat := fun a k => (dofsA.getD a #[]).getD k 0
  let bF : BasisData Rat := fun a k q c => ((((basis.getD a #[]).getD k #[]).getD q #[]).getD c 0)
  let wF : Nat → Nat → Sample Rat := fun k q c => (((w.getD k #[]).getD q #[]).getD c 0)
  let dxF : Nat → Nat → Rat := fun k q => ((dx.getD k #[]).getD q 0)
  let xF : Nat → Rat := fun r => x.getD r 0
  let T := nlJacTriplets nb nt nq (evalNLDeriv terms) bF wF dxF dofsF xF
  let P := nlResPairs nb nt nq (evalNL terms) bF wF dxF dofsF xF
  pure <| Json.mkObj [("rows", natList (T.map (fun t => t.1))), ("cols", natList (T.map (fun t => t.2.1))),
    ("data", ratList (T.map (fun t => t.2.2))), ("rows1", natList (P.map (fun t => t.1))),
    ("data1", ratList (P.map (fun t => t.2)))]

def autodiffOps : List (String × (Json → Option Json)) :=
  [("helper.eval", opHelperEval), ("helper.names", opHelperNames), ("helper.olddet", opHelperOldDet),
   ("nl.assemble", opNlAssemble)]

end Drv
