import SkfemVerif.Drv.Base
import SkfemVerif.Model.Assembly
import SkfemVerif.Model.Finder
/-
Driver ops of C14: `finder.decide`, `finder.bary`, `finder.line`, `finder.split`,
`probes.assemble`.
-/
open Lean Skv Skv.Find
namespace Drv
namespace FinderDrv

def getBoolList? (j : Json) : Option (List Bool) :=
  match j.getArr? with
  | .ok a => a.toList.mapM getBool?
  | _ => none

def getBoolMat? (j : Json) : Option (List (List Bool)) :=
  match j.getArr? with
  | .ok a => a.toList.mapM getBoolList?
  | _ => none

def raisesJson : Json := Json.mkObj [("raises", Json.bool true)]

def cellsJson (r : Option (List Nat)) : Json :=
  match r with
  | none => raisesJson
  | some l => Json.mkObj [("cells", natList l)]

/-- finder.decide: `inside[k][p]` for every cell `k < nb*nt` and point `p` (second pass),
    `inside1[c][p]` for the candidates `cand[c]` (first pass);
    `nb = 1` for the simplex meshes, else the result is taken `% nt` -/
def opFinderDecide (j : Json) : Option Json := do
  let nt ← (field? j "nt") >>= getNat?
  let nb ← (field? j "nb") >>= getNat?
  let npts ← (field? j "npts") >>= getNat?
  let cand ← (field? j "cand") >>= getNatList?
  let ins ← (field? j "inside") >>= getBoolMat?
  let ins1 ← (field? j "inside1") >>= getBoolMat?
  let arr := (ins.map (·.toArray)).toArray
  let arr1 := (ins1.map (·.toArray)).toArray
  let inside2 : Nat → Nat → Bool := fun k p => (arr.getD k #[]).getD p false
  let inside1 : Nat → Nat → Bool := fun k p => (arr1.getD (cand.idxOf k) #[]).getD p false
  let pts := List.range npts
  if nb == 1 then
    pure (cellsJson (finder2 inside1 inside2 nt cand pts))
  else
    pure (cellsJson (finderSplit2 inside1 inside2 nb nt cand pts))

def getP2? (l : List Rat) : Option P2 :=
  match l with
  | [a, b] => some (a, b)
  | _ => none

def getP3? (l : List Rat) : Option P3 :=
  match l with
  | [a, b, c] => some ⟨a, b, c⟩
  | _ => none

/-- finder.bary: reference coordinates and inside flag of one point in one simplex -/
def opFinderBary (j : Json) : Option Json := do
  let verts ← (field? j "verts") >>= getRatMat?
  let x ← (field? j "x") >>= getRatList?
  let eps ← (field? j "eps") >>= getRat?
  match verts, x with
  | [[a], [b]], [x0] =>
    pure (Json.mkObj [("X", ratList [invF1 a b x0]), ("inside", Json.bool (insideLine eps a b x0))])
  | [v0, v1, v2], [_, _] => do
    let p0 ← getP2? v0
    let p1 ← getP2? v1
    let p2 ← getP2? v2
    let q ← getP2? x
    if det2 p0 p1 p2 == 0 then pure (err "singular") else
    let X := invF2 p0 p1 p2 q
    pure (Json.mkObj [("X", ratList [X.1, X.2]), ("inside", Json.bool (insideTri eps p0 p1 p2 q))])
  | [v0, v1, v2, v3], [_, _, _] => do
    let p0 ← getP3? v0
    let p1 ← getP3? v1
    let p2 ← getP3? v2
    let p3 ← getP3? v3
    let q ← getP3? x
    if det3 p0 p1 p2 p3 == 0 then pure (err "singular") else
    let X := invF3 p0 p1 p2 p3 q
    pure (Json.mkObj [("X", ratList [X.1, X.2.1, X.2.2]),
      ("inside", Json.bool (insideTet eps p0 p1 p2 p3 q))])
  | _, _ => none

def getPairs? (j : Json) : Option (List (Nat × Nat)) := do
  let m ← getNatMat? j
  m.mapM (fun r => match r with | [a, b] => some (a, b) | _ => none)

/-- finder.line: the 1-D finder (repaired, or the pinned one with `"old": true`) -/
def opFinderLine (j : Json) : Option Json := do
  let p ← (field? j "p") >>= getRatList?
  let t ← (field? j "t") >>= getPairs?
  let xs ← (field? j "x") >>= getRatList?
  let old := match field? j "old" with | some (Json.bool b) => b | _ => false
  let arr := p.toArray
  let pf : Nat → Rat := fun i => arr.getD i 0
  if old then pure (cellsJson (lineFinderOld pf p.length t xs))
  else pure (cellsJson (lineFinder pf p.length t xs))

/-- finder.split: connectivity of `to_meshtri()` / `to_meshtet()`; `t[k]` = vertices of cell k -/
def opFinderSplit (j : Json) : Option Json := do
  let kind ← match field? j "kind" with | some (Json.str s) => some s | _ => none
  let t ← (field? j "t") >>= getNatMat?
  let arr := (t.map (·.toArray)).toArray
  let tf : Nat → Nat → Nat := fun k i => (arr.getD k #[]).getD i 0
  let tmpl ← match kind with
    | "quad" => some quadToTri
    | "hex" => some hexToTet
    | "wedge" => some wedgeToTet
    | _ => none
  pure (natMat (splitCells tmpl t.length tf))

/-- probes.assemble: triplets of the model and the dense matrix (nonzero entries) -/
def opProbesAssemble (j : Json) : Option Json := do
  let nbfun ← (field? j "Nbfun") >>= getNat?
  let comp ← (field? j "comp") >>= getNat?
  let cells ← (field? j "cells") >>= getNatList?
  let dofsM ← (field? j "dofs") >>= getNatMat?
  let phis ← (field? j "phis") >>= getRatList?
  let ncols ← (field? j "N") >>= getNat?
  let darr := (dofsM.map (·.toArray)).toArray
  let dofs : Nat → Nat → Nat := fun k c => (darr.getD k #[]).getD c 0
  let parr := phis.toArray
  let npts := cells.length
  let phi : Nat → Nat → Nat → Rat := fun k c p => parr.getD (k * (comp * npts) + c * npts + p) 0
  let T := probeTriplets nbfun comp cells dofs phi
  let nrows := comp * npts
  let dense := (List.range nrows).flatMap (fun r => (List.range ncols).filterMap (fun c =>
    let v := denseEntry T r c
    if v == 0 then none else
      some (Json.arr #[Json.num (JsonNumber.fromNat r), Json.num (JsonNumber.fromNat c), ratJson v])))
  pure (Json.mkObj [("ntriplets", Json.num (JsonNumber.fromNat T.length)),
    ("rows", natList (T.map (·.1))), ("cols", natList (T.map (·.2.1))),
    ("dense", Json.arr dense.toArray)])

end FinderDrv

open FinderDrv in
def finderOps : List (String × (Json → Option Json)) :=
  [("finder.decide", opFinderDecide), ("finder.bary", opFinderBary), ("finder.line", opFinderLine),
   ("finder.split", opFinderSplit), ("probes.assemble", opProbesAssemble)]

end Drv
