import SkfemVerif.Drv.Base
import SkfemVerif.Model.Assembly
open Lean Skv
namespace Drv

/-- 4-level nested rational array [j][c][k][q] -/
def getRat4? (j : Json) : Option (Array (Array (Array (Array Rat)))) :=
  match j.getArr? with
  | .ok a => a.mapM (fun b => match b.getArr? with
      | .ok b => b.mapM (fun c => match c.getArr? with
          | .ok c => c.mapM (fun d => match d.getArr? with
              | .ok d => d.mapM getRat?
              | _ => none)
          | _ => none)
      | _ => none)
  | _ => none

def getRat3? (j : Json) : Option (Array (Array (Array Rat))) :=
  match j.getArr? with
  | .ok a => a.mapM (fun c => match c.getArr? with
      | .ok c => c.mapM (fun d => match d.getArr? with
          | .ok d => d.mapM getRat?
          | _ => none)
      | _ => none)
  | _ => none

def getRat2? (j : Json) : Option (Array (Array Rat)) :=
  match j.getArr? with
  | .ok c => c.mapM (fun d => match d.getArr? with
      | .ok d => d.mapM getRat?
      | _ => none)
  | _ => none

def getNat2? (j : Json) : Option (Array (Array Nat)) :=
  match j.getArr? with
  | .ok c => c.mapM (fun d => match d.getArr? with
      | .ok d => d.mapM getNat?
      | _ => none)
  | _ => none

def basisFn (b : Array (Array (Array (Array Rat)))) : BasisData Rat :=
  fun j k q c => (((b.getD j #[]).getD c #[]).getD k #[]).getD q 0

def wFn (w : Array (Array (Array Rat))) : Nat → Nat → Sample Rat :=
  fun k q c => ((w.getD c #[]).getD k #[]).getD q 0

def dxFn (dx : Array (Array Rat)) : Nat → Nat → Rat := fun k q => (dx.getD k #[]).getD q 0

def dofFn (d : Array (Array Nat)) : Nat → Nat → Nat := fun j k => (d.getD j #[]).getD k 0

def getTerms? (j : Json) : Option (List (Term Rat)) :=
  match j.getArr? with
  | .ok a => a.toList.mapM (fun t => match t.getArr? with
      | .ok #[c, uc, vc, wc] => do
        let c ← getRat? c
        let uc ← getNat? uc
        let vc ← getNat? vc
        let wc ← getNat? wc
        pure { coef := c, uc := uc, vc := vc, wc := wc }
      | _ => none)
  | _ => none

def opAsmBilinear (j : Json) : Option Json := do
  let nu ← (field? j "Nu") >>= getNat?
  let nv ← (field? j "Nv") >>= getNat?
  let nt ← (field? j "nt") >>= getNat?
  let nq ← (field? j "nq") >>= getNat?
  let ub ← (field? j "ub") >>= getRat4?
  let vb ← (field? j "vb") >>= getRat4?
  let w ← (field? j "w") >>= getRat3?
  let dx ← (field? j "dx") >>= getRat2?
  let ud ← (field? j "udofs") >>= getNat2?
  let vd ← (field? j "vdofs") >>= getNat2?
  let ts ← (field? j "terms") >>= getTerms?
  let T := bilinearTriplets nu nv nt nq (evalForm ts) (basisFn ub) (basisFn vb) (wFn w) (dxFn dx)
    (dofFn ud) (dofFn vd)
  pure (Json.mkObj [("rows", natList (T.map (·.1))), ("cols", natList (T.map (·.2.1))),
    ("data", ratList (T.map (·.2.2)))])

def opAsmLinear (j : Json) : Option Json := do
  let nv ← (field? j "Nv") >>= getNat?
  let nt ← (field? j "nt") >>= getNat?
  let nq ← (field? j "nq") >>= getNat?
  let vb ← (field? j "vb") >>= getRat4?
  let w ← (field? j "w") >>= getRat3?
  let dx ← (field? j "dx") >>= getRat2?
  let vd ← (field? j "vdofs") >>= getNat2?
  let ts ← (field? j "terms") >>= getTerms?
  let T := linearPairs nv nt nq (evalLinForm ts) (basisFn vb) (wFn w) (dxFn dx) (dofFn vd)
  pure (Json.mkObj [("rows", natList (T.map (·.1))), ("data", ratList (T.map (·.2)))])

/-- functional: integrand = Σ coef * w[uc] * w[vc] * w[wc] (all three indices into w) -/
def opAsmFunctional (j : Json) : Option Json := do
  let nt ← (field? j "nt") >>= getNat?
  let nq ← (field? j "nq") >>= getNat?
  let w ← (field? j "w") >>= getRat3?
  let dx ← (field? j "dx") >>= getRat2?
  let ts ← (field? j "terms") >>= getTerms?
  let f : Sample Rat → Rat := fun s => evalForm ts s s s
  pure (ratJson (functionalValue nt nq f (wFn w) (dxFn dx)))

/-- interpolation of a coefficient vector: returns [c][k][q] -/
def opAsmInterp (j : Json) : Option Json := do
  let nb ← (field? j "Nbfun") >>= getNat?
  let nt ← (field? j "nt") >>= getNat?
  let nq ← (field? j "nq") >>= getNat?
  let nc ← (field? j "ncomp") >>= getNat?
  let b ← (field? j "basis") >>= getRat4?
  let x ← (field? j "x") >>= getRatList?
  let d ← (field? j "dofs") >>= getNat2?
  let xa := x.toArray
  let xf : Nat → Rat := fun i => xa.getD i 0
  pure (Json.arr ((List.range nc).map (fun c => ratMat ((List.range nt).map (fun k =>
    (List.range nq).map (fun q => interp nb xf (dofFn d) (basisFn b) k q c))))).toArray)

def asmOps : List (String × (Json → Option Json)) :=
  [("asm.bilinear", opAsmBilinear), ("asm.linear", opAsmLinear), ("asm.functional", opAsmFunctional),
   ("asm.interp", opAsmInterp)]

end Drv
