import SkfemVerif.Model.DofLookup
import SkfemVerif.Lemmas.DofLookup
/-
C07  DOF lookup returns exactly the DOFs that control the selected entities.

Model: Model/Dofs.lean (tables, `selectDofs`, `View.flatten`, `rowsByName`, `expandFacets`) and
Model/DofLookup.lean (`facetView / elementView / vertexView` = `Dofs.get_facet_dofs / …`,
`View.keep / drop / all / or`, `byName`, `complementDofs`, `normalize` = `Mesh.normalize_*`,
`compositeNames / vectorNames / dgNames` = the `dofnames` of the wrapper elements).
Tie: correspondence ops `dofs.lookup`, `dofs.normalize`, `dofs.complement`, `dofs.or`,
`dofs.names_of`, `elem.names`, `topo.expand_facets` (exact integer arrays / string lists against
`basis.get_dofs(...)`, `mesh.normalize_*`, `basis.complement_dofs`, `Element.dofnames`).

Every theorem is for arbitrary DOF counts, arbitrary connectivity tables and arbitrary index
lists (unsorted, with repetitions).
-/
namespace Skv.C07
open Skv

/-! ### well-formedness of a view -/

/-- the row selections point into the tables -/
def RowsOk (c : DofCounts) (tp : Topo) (v : View) : Prop :=
  (∀ a ∈ v.nodalRows, a < nRowsNodal c tp) ∧ (∀ a ∈ v.facetRows, a < nRowsFacet c tp)
  ∧ (∀ a ∈ v.edgeRows, a < nRowsEdge c tp) ∧ (∀ a ∈ v.interiorRows, a < nRowsInterior c tp)

/-- the entity selections point into the tables -/
def IxOk (tp : Topo) (v : View) : Prop :=
  (∀ e ∈ v.nodalIx, e < tp.nverts) ∧ (∀ e ∈ v.facetIx, e < tp.nfacets)
  ∧ (∀ e ∈ v.edgeIx, e < tp.nedges) ∧ (∀ e ∈ v.interiorIx, e < tp.nt)

/-- the same for a bare quadruple of row lists -/
def RowsOk' (c : DofCounts) (tp : Topo) (r : Rows) : Prop :=
  (∀ a ∈ r.nodal, a < nRowsNodal c tp) ∧ (∀ a ∈ r.facet, a < nRowsFacet c tp)
  ∧ (∀ a ∈ r.edge, a < nRowsEdge c tp) ∧ (∀ a ∈ r.interior, a < nRowsInterior c tp)

/-- the rows produced by `_dofnames_to_rows` always point into the tables -/
theorem nameRows_ok (c : DofCounts) (tp : Topo) (dofnames names : List String) (skip : Bool) :
    RowsOk' c tp (nameRows c tp dofnames names skip) := by
  refine ⟨?_, ?_, ?_, ?_⟩ <;> intro a ha <;> exact (mem_rowsByName.mp ha).1

theorem select_kind {table : List (List Nat)} {count n off : Nat} {rows ix : List Nat}
    (hT : table = dofTable count n off ∨ table = [])
    (hrows : ∀ r ∈ rows, r < table.length) (hix : ∀ e ∈ ix, e < n) (x : Nat) :
    x ∈ selectDofs table rows ix ↔ ∃ r ∈ rows, ∃ e ∈ ix, dofNumber count off r e = x := by
  rcases hT with h | h
  · subst h
    rw [length_dofTable] at hrows
    exact mem_selectDofs_table hrows hix
  · subst h
    have hnil : rows = [] := by
      cases rows with
      | nil => rfl
      | cons r rs => exact absurd (hrows r (by simp)) (by simp)
    subst hnil
    simp [selectDofs]

/-- **general form**: the flattened view consists of exactly the table entries
    `dofNumber count offset row entity` of the selected rows and entities of the four blocks -/
theorem C07_view_dofs (c : DofCounts) (tp : Topo) (v : View) (hr : RowsOk c tp v) (hi : IxOk tp v)
    (x : Nat) :
    x ∈ v.flatten c tp ↔
      (∃ a ∈ v.nodalRows, ∃ e ∈ v.nodalIx, dofNumber c.nodal 0 a e = x)
      ∨ (∃ d ∈ v.facetRows, ∃ e ∈ v.facetIx, dofNumber c.facet (offFacet c tp) d e = x)
      ∨ (∃ b ∈ v.edgeRows, ∃ e ∈ v.edgeIx, dofNumber c.edge (offEdge c tp) b e = x)
      ∨ (∃ g ∈ v.interiorRows, ∃ e ∈ v.interiorIx, dofNumber c.interior (offInterior c tp) g e = x) := by
  obtain ⟨hr1, hr2, hr3, hr4⟩ := hr
  obtain ⟨hi1, hi2, hi3, hi4⟩ := hi
  rw [mem_flatten_view]
  have h1 := select_kind (table := nodalDofs c tp) (count := c.nodal) (n := tp.nverts) (off := 0)
    (Or.inl rfl) hr1 hi1 x
  have h2 := select_kind (table := facetDofs c tp) (count := c.facet) (n := tp.nfacets)
    (off := offFacet c tp) (by unfold facetDofs; split <;> simp) hr2 hi2 x
  have h3 := select_kind (table := edgeDofs c tp) (count := c.edge) (n := tp.nedges)
    (off := offEdge c tp) (by unfold edgeDofs; split <;> simp) hr3 hi3 x
  have h4 := select_kind (table := interiorDofs c tp) (count := c.interior) (n := tp.nt)
    (off := offInterior c tp) (Or.inl rfl) hr4 hi4 x
  rw [h1, h2, h3, h4]

/-- the result is strictly ascending, hence sorted and duplicate free -/
theorem C07_flatten_sorted (c : DofCounts) (tp : Topo) (v : View) :
    (v.flatten c tp).Pairwise (· < ·) ∧ (v.flatten c tp).Nodup := by
  exact ⟨pairwise_unique _, nodup_unique _⟩

/-- every returned number is a DOF number: below the total `N` -/
theorem C07_result_in_range (c : DofCounts) (tp : Topo) (v : View) (hr : RowsOk c tp v)
    (hi : IxOk tp v) (x : Nat) (hx : x ∈ v.flatten c tp) : x < dofsTotal c tp := by
  obtain ⟨hr1, hr2, hr3, hr4⟩ := hr
  obtain ⟨hi1, hi2, hi3, hi4⟩ := hi
  have e1 : offEdge c tp = c.nodal * tp.nverts := rfl
  have l1 : offEdge c tp ≤ offFacet c tp := by unfold offFacet; omega
  have l2 : offFacet c tp ≤ offInterior c tp := by unfold offInterior; omega
  have e4 : dofsTotal c tp = offInterior c tp + c.interior * tp.nt := rfl
  rcases (C07_view_dofs c tp v ⟨hr1, hr2, hr3, hr4⟩ ⟨hi1, hi2, hi3, hi4⟩ x).mp hx with
    ⟨a, ha, e, he, rfl⟩ | ⟨a, ha, e, he, rfl⟩ | ⟨a, ha, e, he, rfl⟩ | ⟨a, ha, e, he, rfl⟩
  · have := dofNumber_lt c.nodal tp.nverts 0 a e (by have := hr1 a ha; rwa [nRowsNodal_eq] at this)
      (hi1 e he)
    omega
  · have h1 := hr2 a ha
    rw [nRowsFacet_eq] at h1
    have hfac : useFacets c = true := by simp only [useFacets, decide_eq_true_eq]; omega
    have e3 : offInterior c tp = offFacet c tp + c.facet * tp.nfacets := by
      simp only [offInterior, hfac, if_true]
    have := dofNumber_lt c.facet tp.nfacets (offFacet c tp) a e h1 (hi2 e he)
    omega
  · have h1 := hr3 a ha
    rw [nRowsEdge_eq] at h1
    by_cases hue : useEdges c tp = true
    · simp only [hue, if_true] at h1
      have e2 : offFacet c tp = offEdge c tp + c.edge * tp.nedges := by
        simp only [offFacet, hue, if_true]
      have := dofNumber_lt c.edge tp.nedges (offEdge c tp) a e h1 (hi3 e he)
      omega
    · simp [hue] at h1
  · have := dofNumber_lt c.interior tp.nt (offInterior c tp) a e
      (by have := hr4 a ha; rwa [nRowsInterior_eq] at this) (hi4 e he)
    omega

/-! ### the three queries -/

/-- **facet query** (`get_facet_dofs`): the result consists of exactly
    * the vertex DOFs (kept rows) of the vertices `facets[j][f]` of the selected facets `f`,
    * in 3-D the edge DOFs of their edges `f2e[j][f]`,
    * the facet DOFs of the facets themselves,
    and nothing else.  `ix` is arbitrary (unsorted, repetitions). -/
theorem C07_facet_dofs (c : DofCounts) (tp : Topo) (facets f2e : List (List Nat)) (we : Bool)
    (ix : List Nat) (r : Rows) (hr : RowsOk' c tp r)
    (hix : ∀ f ∈ ix, f < tp.nfacets)
    (hfv : ∀ row ∈ facets, ∀ f < tp.nfacets, row.getD f 0 < tp.nverts)
    (hfe : ∀ row ∈ f2e, ∀ f < tp.nfacets, row.getD f 0 < tp.nedges) (x : Nat) :
    x ∈ (facetView c facets f2e we ix r).flatten c tp ↔
      (∃ a ∈ r.nodal, ∃ f ∈ ix, ∃ row ∈ facets, dofNumber c.nodal 0 a (row.getD f 0) = x)
      ∨ (we = true ∧ ∃ b ∈ r.edge, ∃ f ∈ ix, ∃ row ∈ f2e,
            dofNumber c.edge (offEdge c tp) b (row.getD f 0) = x)
      ∨ (∃ d ∈ r.facet, ∃ f ∈ ix, dofNumber c.facet (offFacet c tp) d f = x) := by
  obtain ⟨hr1, hr2, hr3, hr4⟩ := hr
  have hrok : RowsOk c tp (facetView c facets f2e we ix r) := ⟨hr1, hr2, hr3, hr4⟩
  have hiok : IxOk tp (facetView c facets f2e we ix r) := by
    refine ⟨?_, ?_, ?_, ?_⟩
    · intro e he
      simp only [facetView] at he
      split at he
      · simp at he
      · rw [expandFacets_fst, mem_gatherUnique] at he
        obtain ⟨row, hrow, f, hf, rfl⟩ := he
        exact hfv row hrow f (hix f hf)
    · intro e he
      simp only [facetView] at he
      split at he
      · simp at he
      · exact hix e he
    · intro e he
      simp only [facetView] at he
      split at he
      · simp at he
      · rw [expandFacets_snd] at he
        split at he
        · rw [mem_gatherUnique] at he
          obtain ⟨row, hrow, f, hf, rfl⟩ := he
          exact hfe row hrow f (hix f hf)
        · simp at he
    · intro e he
      simp [facetView] at he
  rw [C07_view_dofs c tp _ hrok hiok x]
  have hN : ∀ a ∈ r.nodal, c.nodal ≠ 0 := by
    intro a ha h0
    have := hr1 a ha
    rw [nRowsNodal_eq, h0] at this
    omega
  have hF : ∀ a ∈ r.facet, c.facet ≠ 0 := by
    intro a ha h0
    have := hr2 a ha
    rw [nRowsFacet_eq, h0] at this
    omega
  have hE : ∀ a ∈ r.edge, c.edge ≠ 0 := by
    intro a ha h0
    have := hr3 a ha
    rw [nRowsEdge_eq, h0] at this
    split at this <;> omega
  constructor
  · rintro (⟨a, ha, e, he, rfl⟩ | ⟨a, ha, e, he, rfl⟩ | ⟨a, ha, e, he, rfl⟩ | ⟨a, ha, e, he, _⟩)
    · left
      simp only [facetView] at ha he
      rw [if_neg (hN a ha), expandFacets_fst, mem_gatherUnique] at he
      obtain ⟨row, hrow, f, hf, rfl⟩ := he
      exact ⟨a, ha, f, hf, row, hrow, rfl⟩
    · right; right
      simp only [facetView] at ha he
      rw [if_neg (hF a ha)] at he
      exact ⟨a, ha, e, he, rfl⟩
    · right; left
      simp only [facetView] at ha he
      rw [if_neg (hE a ha), expandFacets_snd] at he
      split at he
      · rename_i hwe
        rw [mem_gatherUnique] at he
        obtain ⟨row, hrow, f, hf, rfl⟩ := he
        exact ⟨hwe, a, ha, f, hf, row, hrow, rfl⟩
      · simp at he
    · simp [facetView] at he
  · rintro (⟨a, ha, f, hf, row, hrow, rfl⟩ | ⟨hwe, a, ha, f, hf, row, hrow, rfl⟩ | ⟨a, ha, f, hf, rfl⟩)
    · left
      refine ⟨a, ha, row.getD f 0, ?_, rfl⟩
      simp only [facetView]
      rw [if_neg (hN a ha), expandFacets_fst, mem_gatherUnique]
      exact ⟨row, hrow, f, hf, rfl⟩
    · right; right; left
      refine ⟨a, ha, row.getD f 0, ?_, rfl⟩
      simp only [facetView]
      rw [if_neg (hE a ha), expandFacets_snd, if_pos hwe, mem_gatherUnique]
      exact ⟨row, hrow, f, hf, rfl⟩
    · right; left
      refine ⟨a, ha, f, ?_, rfl⟩
      simp only [facetView]
      rw [if_neg (hF a ha)]
      exact hf

/-- **cell query** (`get_element_dofs`): exactly the vertex / edge / facet DOFs of the vertices,
    edges and facets of the selected cells and the cells' interior DOFs -/
theorem C07_element_dofs (c : DofCounts) (tp : Topo) (ix : List Nat) (r : Rows)
    (hr : RowsOk' c tp r) (hix : ∀ k ∈ ix, k < tp.nt)
    (ht : ∀ row ∈ tp.t, ∀ k < tp.nt, row.getD k 0 < tp.nverts)
    (hf : ∀ row ∈ tp.t2f, ∀ k < tp.nt, row.getD k 0 < tp.nfacets)
    (he : ∀ row ∈ tp.t2e, ∀ k < tp.nt, row.getD k 0 < tp.nedges) (x : Nat) :
    x ∈ (elementView c tp ix r).flatten c tp ↔
      (∃ a ∈ r.nodal, ∃ k ∈ ix, ∃ row ∈ tp.t, dofNumber c.nodal 0 a (row.getD k 0) = x)
      ∨ (∃ d ∈ r.facet, ∃ k ∈ ix, ∃ row ∈ tp.t2f,
            dofNumber c.facet (offFacet c tp) d (row.getD k 0) = x)
      ∨ (∃ b ∈ r.edge, ∃ k ∈ ix, ∃ row ∈ tp.t2e,
            dofNumber c.edge (offEdge c tp) b (row.getD k 0) = x)
      ∨ (∃ g ∈ r.interior, ∃ k ∈ ix, dofNumber c.interior (offInterior c tp) g k = x) := by
  obtain ⟨hr1, hr2, hr3, hr4⟩ := hr
  have hrok : RowsOk c tp (elementView c tp ix r) := ⟨hr1, hr2, hr3, hr4⟩
  have hiok : IxOk tp (elementView c tp ix r) := by
    refine ⟨?_, ?_, ?_, ?_⟩
    · intro e hm
      simp only [elementView] at hm
      split at hm
      · simp at hm
      · rw [mem_gatherUnique] at hm
        obtain ⟨row, hrow, k, hk, rfl⟩ := hm
        exact ht row hrow k (hix k hk)
    · intro e hm
      simp only [elementView] at hm
      split at hm
      · simp at hm
      · rw [mem_gatherUnique] at hm
        obtain ⟨row, hrow, k, hk, rfl⟩ := hm
        exact hf row hrow k (hix k hk)
    · intro e hm
      simp only [elementView] at hm
      split at hm
      · simp at hm
      · rw [mem_gatherUnique] at hm
        obtain ⟨row, hrow, k, hk, rfl⟩ := hm
        exact he row hrow k (hix k hk)
    · intro e hm
      exact hix e hm
  rw [C07_view_dofs c tp _ hrok hiok x]
  have hN : ∀ a ∈ r.nodal, c.nodal ≠ 0 := by
    intro a ha h0
    have := hr1 a ha
    rw [nRowsNodal_eq, h0] at this
    omega
  have hF : ∀ a ∈ r.facet, c.facet ≠ 0 := by
    intro a ha h0
    have := hr2 a ha
    rw [nRowsFacet_eq, h0] at this
    omega
  have hE : ∀ a ∈ r.edge, c.edge ≠ 0 := by
    intro a ha h0
    have := hr3 a ha
    rw [nRowsEdge_eq, h0] at this
    split at this <;> omega
  constructor
  · rintro (⟨a, ha, e, hm, rfl⟩ | ⟨a, ha, e, hm, rfl⟩ | ⟨a, ha, e, hm, rfl⟩ | ⟨a, ha, e, hm, rfl⟩)
    · left
      simp only [elementView] at ha hm
      rw [if_neg (hN a ha), mem_gatherUnique] at hm
      obtain ⟨row, hrow, k, hk, rfl⟩ := hm
      exact ⟨a, ha, k, hk, row, hrow, rfl⟩
    · right; left
      simp only [elementView] at ha hm
      rw [if_neg (hF a ha), mem_gatherUnique] at hm
      obtain ⟨row, hrow, k, hk, rfl⟩ := hm
      exact ⟨a, ha, k, hk, row, hrow, rfl⟩
    · right; right; left
      simp only [elementView] at ha hm
      rw [if_neg (hE a ha), mem_gatherUnique] at hm
      obtain ⟨row, hrow, k, hk, rfl⟩ := hm
      exact ⟨a, ha, k, hk, row, hrow, rfl⟩
    · right; right; right
      exact ⟨a, ha, e, hm, rfl⟩
  · rintro (⟨a, ha, k, hk, row, hrow, rfl⟩ | ⟨a, ha, k, hk, row, hrow, rfl⟩
      | ⟨a, ha, k, hk, row, hrow, rfl⟩ | ⟨a, ha, k, hk, rfl⟩)
    · left
      refine ⟨a, ha, row.getD k 0, ?_, rfl⟩
      simp only [elementView]
      rw [if_neg (hN a ha), mem_gatherUnique]
      exact ⟨row, hrow, k, hk, rfl⟩
    · right; left
      refine ⟨a, ha, row.getD k 0, ?_, rfl⟩
      simp only [elementView]
      rw [if_neg (hF a ha), mem_gatherUnique]
      exact ⟨row, hrow, k, hk, rfl⟩
    · right; right; left
      refine ⟨a, ha, row.getD k 0, ?_, rfl⟩
      simp only [elementView]
      rw [if_neg (hE a ha), mem_gatherUnique]
      exact ⟨row, hrow, k, hk, rfl⟩
    · right; right; right
      exact ⟨a, ha, k, hk, rfl⟩

/-- **vertex query** (`get_vertex_dofs`): exactly the (kept) vertex DOFs of the selected vertices -/
theorem C07_vertex_dofs (c : DofCounts) (tp : Topo) (ix : List Nat) (r : Rows)
    (hr : RowsOk' c tp r) (hix : ∀ v ∈ ix, v < tp.nverts) (x : Nat) :
    x ∈ (vertexView ix r).flatten c tp ↔ ∃ a ∈ r.nodal, ∃ v ∈ ix, dofNumber c.nodal 0 a v = x := by
  obtain ⟨hr1, hr2, hr3, hr4⟩ := hr
  have hrok : RowsOk c tp (vertexView ix r) := ⟨hr1, hr2, hr3, hr4⟩
  have hiok : IxOk tp (vertexView ix r) := by
    refine ⟨hix, ?_, ?_, ?_⟩ <;> intro e hm <;> simp [vertexView] at hm
  rw [C07_view_dofs c tp _ hrok hiok x]
  simp [vertexView]


/-! ### the result depends on the selected SET only; selector normalisation -/

/-- two index arrays naming the same set of facets (any order, any repetitions) give the same
    array of DOFs -/
theorem C07_facet_query_set_only (c : DofCounts) (tp : Topo) (facets f2e : List (List Nat))
    (we : Bool) (ix ix' : List Nat) (r : Rows) (h : ∀ f, f ∈ ix ↔ f ∈ ix') :
    (facetView c facets f2e we ix r).flatten c tp = (facetView c facets f2e we ix' r).flatten c tp := by
  apply flatten_congr
  · exact ⟨rfl, rfl, rfl, rfl⟩
  · intro x
    simp only [facetView, expandFacets_fst, gatherUnique_congr h]
  · intro x
    simp only [facetView]
    split
    · rfl
    · exact h x
  · intro x
    simp only [facetView, expandFacets_snd, gatherUnique_congr h]
  · intro x; rfl

theorem C07_element_query_set_only (c : DofCounts) (tp : Topo) (ix ix' : List Nat) (r : Rows)
    (h : ∀ k, k ∈ ix ↔ k ∈ ix') :
    (elementView c tp ix r).flatten c tp = (elementView c tp ix' r).flatten c tp := by
  apply flatten_congr
  · exact ⟨rfl, rfl, rfl, rfl⟩
  · intro x; simp only [elementView, gatherUnique_congr h]
  · intro x; simp only [elementView, gatherUnique_congr h]
  · intro x; simp only [elementView, gatherUnique_congr h]
  · intro x; exact h x

theorem C07_vertex_query_set_only (c : DofCounts) (tp : Topo) (ix ix' : List Nat) (r : Rows)
    (h : ∀ k, k ∈ ix ↔ k ∈ ix') :
    (vertexView ix r).flatten c tp = (vertexView ix' r).flatten c tp := by
  apply flatten_congr
  · exact ⟨rfl, rfl, rfl, rfl⟩
  · intro x; exact h x
  · intro x; rfl
  · intro x; rfl
  · intro x; rfl

mutual
/-- the set a selector denotes (specification of `normalize_facets / _elements / _nodes`) -/
def den (tags : List (String × List Nat)) (bnd : List Nat) (n : Nat) : Sel → Nat → Prop
  | .idx l, x => x ∈ l
  | .int i, x => x = i
  | .pred tt, x => x < tt.length ∧ tt.getD x false = true
  | .tag s, x => ∃ l, lookupTag tags s = some l ∧ x ∈ l
  | .coll ss, x => denAny tags bnd n ss x
  | .none, x => x ∈ bnd
  | .all, x => x < n
/-- union of the members -/
def denAny (tags : List (String × List Nat)) (bnd : List Nat) (n : Nat) : List Sel → Nat → Prop
  | [], _ => False
  | s :: ss, x => den tags bnd n s x ∨ denAny tags bnd n ss x
end

mutual
/-- **normalisation is correct**: whenever the selector is accepted, the index array contains
    exactly the indices the selector denotes — index array: its entries; `int`: that index;
    callable: the indices whose midpoint satisfies it; string: the tagged set; list/tuple/set: the
    union of the members; `None`: the boundary facets; `True`: all cells -/
theorem C07_normalize_sound (k : SelKind) (tags : List (String × List Nat)) (bnd : List Nat)
    (n : Nat) : ∀ (s : Sel) (l : List Nat), normalize k tags bnd n s = some l →
      ∀ x, x ∈ l ↔ den tags bnd n s x
  | .idx l0, l, h, x => by
    simp only [normalize, Option.some.injEq] at h
    subst h
    simp [den]
  | .int i, l, h, x => by
    simp only [normalize] at h
    split at h
    · simp at h
    · simp only [Option.some.injEq] at h
      subst h
      simp [den]
  | .pred tt, l, h, x => by
    simp only [normalize, Option.some.injEq] at h
    subst h
    simp [den, mem_nonzero]
  | .tag s, l, h, x => by
    simp only [normalize] at h
    split at h
    · simp at h
    · simp [den, h]
  | .coll ss, l, h, x => by
    cases ss with
    | nil => simp [normalize] at h
    | cons s0 ss0 =>
      simp only [normalize] at h
      cases hall : normalizeAll k tags bnd n (s0 :: ss0) with
      | none => simp [hall] at h
      | some l' =>
        simp only [hall, Option.map_some, Option.some.injEq] at h
        subst h
        rw [mem_unique]
        simp only [den]
        exact C07_normalizeAll_sound k tags bnd n (s0 :: ss0) l' hall x
  | .none, l, h, x => by
    simp only [normalize] at h
    split at h
    · simp only [Option.some.injEq] at h
      subst h
      simp [den]
    · simp at h
  | .all, l, h, x => by
    simp only [normalize] at h
    split at h
    · simp only [Option.some.injEq] at h
      subst h
      simp [den]
    · simp at h
theorem C07_normalizeAll_sound (k : SelKind) (tags : List (String × List Nat)) (bnd : List Nat)
    (n : Nat) : ∀ (ss : List Sel) (l : List Nat), normalizeAll k tags bnd n ss = some l →
      ∀ x, x ∈ l ↔ denAny tags bnd n ss x
  | [], l, h, x => by
    simp only [normalizeAll, Option.some.injEq] at h
    subst h
    simp [denAny]
  | s :: ss, l, h, x => by
    simp only [normalizeAll] at h
    cases hs : normalize k tags bnd n s with
    | none => simp [hs] at h
    | some a =>
      cases hss : normalizeAll k tags bnd n ss with
      | none => simp [hs, hss] at h
      | some b =>
        simp only [hs, hss, Option.some.injEq] at h
        subst h
        simp only [List.mem_append, denAny]
        rw [C07_normalize_sound k tags bnd n s a hs x, C07_normalizeAll_sound k tags bnd n ss b hss x]
end

/-- a collection is normalised to a strictly ascending (sorted, duplicate free) array -/
theorem C07_normalize_coll_sorted (k : SelKind) (tags : List (String × List Nat)) (bnd : List Nat)
    (n : Nat) (ss : List Sel) (l : List Nat) (h : normalize k tags bnd n (.coll ss) = some l) :
    l.Pairwise (· < ·) := by
  cases ss with
  | nil => simp [normalize] at h
  | cons s0 ss0 =>
    simp only [normalize] at h
    cases hall : normalizeAll k tags bnd n (s0 :: ss0) with
    | none => simp [hall] at h
    | some l' =>
      simp only [hall, Option.map_some, Option.some.injEq] at h
      subst h
      exact pairwise_unique _

/-- **all equivalent ways of naming a subset agree**: two accepted selectors (index array, truth
    table of a predicate, tag name, nested collections of these, `None`, …) that denote the same
    set of facets return the same DOF array -/
theorem C07_selectors_agree (c : DofCounts) (tp : Topo) (facets f2e : List (List Nat)) (we : Bool)
    (r : Rows) (tags : List (String × List Nat)) (bnd : List Nat) (n : Nat) (s s' : Sel)
    (l l' : List Nat) (h : normalize .facets tags bnd n s = some l)
    (h' : normalize .facets tags bnd n s' = some l')
    (hden : ∀ x, den tags bnd n s x ↔ den tags bnd n s' x) :
    (facetView c facets f2e we l r).flatten c tp = (facetView c facets f2e we l' r).flatten c tp := by
  apply C07_facet_query_set_only
  intro f
  rw [C07_normalize_sound .facets tags bnd n s l h f, C07_normalize_sound .facets tags bnd n s' l' h' f]
  exact hden f

/-- the same for cell selectors and vertex selectors -/
theorem C07_selectors_agree_elements (c : DofCounts) (tp : Topo) (r : Rows)
    (tags : List (String × List Nat)) (bnd : List Nat) (n : Nat) (s s' : Sel)
    (l l' : List Nat) (h : normalize .elements tags bnd n s = some l)
    (h' : normalize .elements tags bnd n s' = some l')
    (hden : ∀ x, den tags bnd n s x ↔ den tags bnd n s' x) :
    (elementView c tp l r).flatten c tp = (elementView c tp l' r).flatten c tp := by
  apply C07_element_query_set_only
  intro f
  rw [C07_normalize_sound .elements tags bnd n s l h f,
    C07_normalize_sound .elements tags bnd n s' l' h' f]
  exact hden f

theorem C07_selectors_agree_nodes (c : DofCounts) (tp : Topo) (r : Rows)
    (tags : List (String × List Nat)) (bnd : List Nat) (n : Nat) (s s' : Sel)
    (l l' : List Nat) (h : normalize .nodes tags bnd n s = some l)
    (h' : normalize .nodes tags bnd n s' = some l')
    (hden : ∀ x, den tags bnd n s x ↔ den tags bnd n s' x) :
    (vertexView l r).flatten c tp = (vertexView l' r).flatten c tp := by
  apply C07_vertex_query_set_only
  intro f
  rw [C07_normalize_sound .nodes tags bnd n s l h f, C07_normalize_sound .nodes tags bnd n s' l' h' f]
  exact hden f

/-- **argument-free query**: `None` is normalised to `boundary_facets()`, i.e. to the facets
    whose second neighbour is missing (`f2t[1] == -1`; by C11 these are the facets with exactly
    one adjacent cell) -/
theorem C07_default_is_boundary (tags : List (String × List Nat)) (n : Nat) (f2t1 : List Int) :
    normalize .facets tags (boundaryFacets f2t1) n .none = some (boundaryFacets f2t1)
    ∧ ∀ f, f ∈ boundaryFacets f2t1 ↔ f < f2t1.length ∧ f2t1.getD f 0 = -1 := by
  refine ⟨by simp [normalize], ?_⟩
  intro f
  simp [boundaryFacets]

/-! ### complement and union -/

/-- **complement query**: `complement_dofs(D₁, …)` is the ascending enumeration of the set
    complement of `D₁ ∪ …` in `0 … N-1` -/
theorem C07_complement (n : Nat) (ds : List (List Nat)) :
    (∀ x, x ∈ complementDofs n ds ↔ x < n ∧ ∀ d ∈ ds, x ∉ d)
    ∧ (complementDofs n ds).Pairwise (· < ·) := by
  refine ⟨?_, pairwise_filter_range _ _⟩
  intro x
  simp only [complementDofs, mem_complementRange_dof, List.mem_flatten, not_exists, not_and]

/-- the complement and the (range-restricted) given DOFs partition `0 … N-1` -/
theorem C07_complement_partition (n : Nat) (ds : List (List Nat)) (x : Nat) (hx : x < n) :
    (x ∈ complementDofs n ds ∧ ¬ ∃ d ∈ ds, x ∈ d) ∨ (x ∉ complementDofs n ds ∧ ∃ d ∈ ds, x ∈ d) := by
  have h := (C07_complement n ds).1 x
  by_cases hd : ∃ d ∈ ds, x ∈ d
  · right
    refine ⟨?_, hd⟩
    intro hc
    obtain ⟨d, hd1, hd2⟩ := hd
    exact (h.mp hc).2 d hd1 hd2
  · left
    refine ⟨h.mpr ⟨hx, ?_⟩, hd⟩
    intro d hd1 hd2
    exact hd ⟨d, hd1, hd2⟩

/-- **union** (`a | b`): with equal row selections, the DOFs of the union view are the DOFs of
    either operand -/
theorem C07_or (c : DofCounts) (tp : Topo) (a b : View)
    (hrows : a.nodalRows = b.nodalRows ∧ a.facetRows = b.facetRows ∧ a.edgeRows = b.edgeRows
      ∧ a.interiorRows = b.interiorRows) (x : Nat) :
    x ∈ (a.or b).flatten c tp ↔ x ∈ a.flatten c tp ∨ x ∈ b.flatten c tp := by
  obtain ⟨h1, h2, h3, h4⟩ := hrows
  simp only [mem_flatten_view, View.or, mem_selectDofs, mem_unique, List.mem_append, ← h1, ← h2,
    ← h3, ← h4]
  constructor
  · rintro (⟨r, hr, e, he, rfl⟩ | ⟨r, hr, e, he, rfl⟩ | ⟨r, hr, e, he, rfl⟩ | ⟨r, hr, e, he, rfl⟩)
    · rcases he with he | he
      · exact Or.inl (Or.inl ⟨r, hr, e, he, rfl⟩)
      · exact Or.inr (Or.inl ⟨r, hr, e, he, rfl⟩)
    · rcases he with he | he
      · exact Or.inl (Or.inr (Or.inl ⟨r, hr, e, he, rfl⟩))
      · exact Or.inr (Or.inr (Or.inl ⟨r, hr, e, he, rfl⟩))
    · rcases he with he | he
      · exact Or.inl (Or.inr (Or.inr (Or.inl ⟨r, hr, e, he, rfl⟩)))
      · exact Or.inr (Or.inr (Or.inr (Or.inl ⟨r, hr, e, he, rfl⟩)))
    · rcases he with he | he
      · exact Or.inl (Or.inr (Or.inr (Or.inr ⟨r, hr, e, he, rfl⟩)))
      · exact Or.inr (Or.inr (Or.inr (Or.inr ⟨r, hr, e, he, rfl⟩)))
  · rintro ((⟨r, hr, e, he, rfl⟩ | ⟨r, hr, e, he, rfl⟩ | ⟨r, hr, e, he, rfl⟩ | ⟨r, hr, e, he, rfl⟩)
      | (⟨r, hr, e, he, rfl⟩ | ⟨r, hr, e, he, rfl⟩ | ⟨r, hr, e, he, rfl⟩ | ⟨r, hr, e, he, rfl⟩))
    · exact Or.inl ⟨r, hr, e, Or.inl he, rfl⟩
    · exact Or.inr (Or.inl ⟨r, hr, e, Or.inl he, rfl⟩)
    · exact Or.inr (Or.inr (Or.inl ⟨r, hr, e, Or.inl he, rfl⟩))
    · exact Or.inr (Or.inr (Or.inr ⟨r, hr, e, Or.inl he, rfl⟩))
    · exact Or.inl ⟨r, hr, e, Or.inr he, rfl⟩
    · exact Or.inr (Or.inl ⟨r, hr, e, Or.inr he, rfl⟩)
    · exact Or.inr (Or.inr (Or.inl ⟨r, hr, e, Or.inr he, rfl⟩))
    · exact Or.inr (Or.inr (Or.inr ⟨r, hr, e, Or.inr he, rfl⟩))


/-! ### names -/

/-- **the name of a DOF number is well defined**: `dofName` (decode block and row from the number)
    returns, for every entry of the four tables, the name `_dofnames_to_rows` reads for its row:
    nodal rows at offset 0 of the element's list, facet rows at offset `n_nodal`, edge rows at
    `n_nodal + n_facet`, interior rows at `n_nodal + n_facet + n_edge` -/
theorem C07_dofName_spec (c : DofCounts) (tp : Topo) (dn : List String) :
    (∀ a e, a < c.nodal → e < tp.nverts →
      dofName c tp dn (dofNumber c.nodal 0 a e) = rowName dn 0 a)
    ∧ (∀ d f, d < c.facet → f < tp.nfacets →
      dofName c tp dn (dofNumber c.facet (offFacet c tp) d f) = rowName dn (nRowsNodal c tp) d)
    ∧ (∀ b e, useEdges c tp = true → b < c.edge → e < tp.nedges →
      dofName c tp dn (dofNumber c.edge (offEdge c tp) b e)
        = rowName dn (nRowsNodal c tp + nRowsFacet c tp) b)
    ∧ (∀ g k, g < c.interior →
      dofName c tp dn (dofNumber c.interior (offInterior c tp) g k)
        = rowName dn (nRowsNodal c tp + nRowsFacet c tp + nRowsEdge c tp) g) := by
  have e1 : offEdge c tp = c.nodal * tp.nverts := rfl
  have l1 : offEdge c tp ≤ offFacet c tp := by unfold offFacet; omega
  have l2 : offFacet c tp ≤ offInterior c tp := by unfold offInterior; omega
  refine ⟨?_, ?_, ?_, ?_⟩
  · intro a e ha he
    have hlt := dofNumber_lt c.nodal tp.nverts 0 a e ha he
    unfold dofName
    rw [if_pos (by omega)]
    congr 1
    unfold dofNumber
    rw [Nat.zero_add, Nat.add_mul_mod_self_left, Nat.mod_eq_of_lt ha]
  · intro d f hd hf
    have hfac : useFacets c = true := by simp only [useFacets, decide_eq_true_eq]; omega
    have e3 : offInterior c tp = offFacet c tp + c.facet * tp.nfacets := by
      simp only [offInterior, hfac, if_true]
    have hlt := dofNumber_lt c.facet tp.nfacets (offFacet c tp) d f hd hf
    have hge := dofNumber_ge c.facet (offFacet c tp) d f
    unfold dofName
    rw [if_neg (by omega), if_neg (by omega), if_pos (by omega)]
    congr 1
    unfold dofNumber
    have : offFacet c tp + d + c.facet * f - offFacet c tp = d + c.facet * f := by omega
    rw [this, Nat.add_mul_mod_self_left, Nat.mod_eq_of_lt hd]
  · intro b e hue hb he
    have e2 : offFacet c tp = offEdge c tp + c.edge * tp.nedges := by
      simp only [offFacet, hue, if_true]
    have hlt := dofNumber_lt c.edge tp.nedges (offEdge c tp) b e hb he
    have hge := dofNumber_ge c.edge (offEdge c tp) b e
    unfold dofName
    rw [if_neg (by omega), if_pos (by omega)]
    congr 1
    unfold dofNumber
    have : offEdge c tp + b + c.edge * e - offEdge c tp = b + c.edge * e := by omega
    rw [this, Nat.add_mul_mod_self_left, Nat.mod_eq_of_lt hb]
  · intro g k hg
    have hge := dofNumber_ge c.interior (offInterior c tp) g k
    unfold dofName
    rw [if_neg (by omega), if_neg (by omega), if_neg (by omega)]
    congr 1
    unfold dofNumber
    have : offInterior c tp + g + c.interior * k - offInterior c tp = g + c.interior * k := by
      omega
    rw [this, Nat.add_mul_mod_self_left, Nat.mod_eq_of_lt hg]

/-- **name filter, general form**: restricting a view by `_dofnames_to_rows(names, skip)` keeps
    exactly those DOFs of the view whose name is (`skip = false`) resp. is not (`skip = true`) in
    `names` -/
theorem C07_name_filter (c : DofCounts) (tp : Topo) (dn names : List String) (skip : Bool)
    (v : View) (hr : RowsOk c tp v) (hi : IxOk tp v) (x : Nat) :
    x ∈ (v.restrictRows (nameRows c tp dn names skip)).flatten c tp ↔
      x ∈ v.flatten c tp ∧ names.contains (dofName c tp dn x) = !skip := by
  obtain ⟨hr1, hr2, hr3, hr4⟩ := hr
  obtain ⟨hs1, hs2, hs3, hs4⟩ := C07_dofName_spec c tp dn
  have hr' : RowsOk c tp (v.restrictRows (nameRows c tp dn names skip)) := by
    refine ⟨?_, ?_, ?_, ?_⟩ <;> intro a ha
    · exact hr1 a (mem_interRows.mp ha).1
    · exact hr2 a (mem_interRows.mp ha).1
    · exact hr3 a (mem_interRows.mp ha).1
    · exact hr4 a (mem_interRows.mp ha).1
  have hi' : IxOk tp (v.restrictRows (nameRows c tp dn names skip)) := hi
  rw [C07_view_dofs c tp _ hr' hi' x, C07_view_dofs c tp v ⟨hr1, hr2, hr3, hr4⟩ hi x]
  obtain ⟨hi1, hi2, hi3, hi4⟩ := hi
  have hedge : ∀ b ∈ v.edgeRows, useEdges c tp = true ∧ b < c.edge := by
    intro b hb
    have := hr3 b hb
    rw [nRowsEdge_eq] at this
    by_cases hue : useEdges c tp = true
    · simp only [hue, if_true] at this
      exact ⟨hue, this⟩
    · simp [hue] at this
  constructor
  · rintro (⟨a, ha, e, he, rfl⟩ | ⟨a, ha, e, he, rfl⟩ | ⟨a, ha, e, he, rfl⟩ | ⟨a, ha, e, he, rfl⟩)
    · obtain ⟨ha1, ha2⟩ := mem_interRows.mp ha
      have h := (mem_rowsByName.mp ha2).2
      have hlt : a < c.nodal := by have := hr1 a ha1; rwa [nRowsNodal_eq] at this
      refine ⟨Or.inl ⟨a, ha1, e, he, rfl⟩, ?_⟩
      rw [hs1 a e hlt (hi1 e he)]
      exact h
    · obtain ⟨ha1, ha2⟩ := mem_interRows.mp ha
      have h := (mem_rowsByName.mp ha2).2
      have hlt : a < c.facet := by have := hr2 a ha1; rwa [nRowsFacet_eq] at this
      refine ⟨Or.inr (Or.inl ⟨a, ha1, e, he, rfl⟩), ?_⟩
      rw [hs2 a e hlt (hi2 e he)]
      exact h
    · obtain ⟨ha1, ha2⟩ := mem_interRows.mp ha
      have h := (mem_rowsByName.mp ha2).2
      obtain ⟨hue, hlt⟩ := hedge a ha1
      refine ⟨Or.inr (Or.inr (Or.inl ⟨a, ha1, e, he, rfl⟩)), ?_⟩
      rw [hs3 a e hue hlt (hi3 e he)]
      exact h
    · obtain ⟨ha1, ha2⟩ := mem_interRows.mp ha
      have h := (mem_rowsByName.mp ha2).2
      have hlt : a < c.interior := by have := hr4 a ha1; rwa [nRowsInterior_eq] at this
      refine ⟨Or.inr (Or.inr (Or.inr ⟨a, ha1, e, he, rfl⟩)), ?_⟩
      rw [hs4 a e hlt]
      exact h
  · rintro ⟨(⟨a, ha, e, he, rfl⟩ | ⟨a, ha, e, he, rfl⟩ | ⟨a, ha, e, he, rfl⟩ | ⟨a, ha, e, he, rfl⟩), hn⟩
    · have hlt : a < c.nodal := by have := hr1 a ha; rwa [nRowsNodal_eq] at this
      rw [hs1 a e hlt (hi1 e he)] at hn
      exact Or.inl ⟨a, mem_interRows.mpr ⟨ha, mem_rowsByName.mpr ⟨hr1 a ha, hn⟩⟩, e, he, rfl⟩
    · have hlt : a < c.facet := by have := hr2 a ha; rwa [nRowsFacet_eq] at this
      rw [hs2 a e hlt (hi2 e he)] at hn
      exact Or.inr (Or.inl ⟨a, mem_interRows.mpr ⟨ha, mem_rowsByName.mpr ⟨hr2 a ha, hn⟩⟩, e, he, rfl⟩)
    · obtain ⟨hue, hlt⟩ := hedge a ha
      rw [hs3 a e hue hlt (hi3 e he)] at hn
      exact Or.inr (Or.inr (Or.inl
        ⟨a, mem_interRows.mpr ⟨ha, mem_rowsByName.mpr ⟨hr3 a ha, hn⟩⟩, e, he, rfl⟩))
    · have hlt : a < c.interior := by have := hr4 a ha; rwa [nRowsInterior_eq] at this
      rw [hs4 a e hlt] at hn
      exact Or.inr (Or.inr (Or.inr
        ⟨a, mem_interRows.mpr ⟨ha, mem_rowsByName.mpr ⟨hr4 a ha, hn⟩⟩, e, he, rfl⟩))

/-- `keep(names)` / `all(names)`: exactly the DOFs of the view whose name is in `names` -/
theorem C07_keep (c : DofCounts) (tp : Topo) (dn names : List String) (v : View)
    (hr : RowsOk c tp v) (hi : IxOk tp v) (x : Nat) :
    (x ∈ (v.keep c tp dn names).flatten c tp ↔
      x ∈ v.flatten c tp ∧ names.contains (dofName c tp dn x) = true)
    ∧ (x ∈ v.all c tp dn names ↔
      x ∈ v.flatten c tp ∧ names.contains (dofName c tp dn x) = true) := by
  have := C07_name_filter c tp dn names false v hr hi x
  exact ⟨this, this⟩

/-- `drop(names)`: exactly the DOFs of the view whose name is not in `names` -/
theorem C07_drop (c : DofCounts) (tp : Topo) (dn names : List String) (v : View)
    (hr : RowsOk c tp v) (hi : IxOk tp v) (x : Nat) :
    x ∈ (v.drop c tp dn names).flatten c tp ↔
      x ∈ v.flatten c tp ∧ names.contains (dofName c tp dn x) = false :=
  C07_name_filter c tp dn names true v hr hi x

theorem interRows_all (dn names : List String) (skip : Bool) (n off : Nat) :
    interRows (rowsByName dn [] true n off) (rowsByName dn names skip n off)
      = rowsByName dn names skip n off := by
  apply sorted_ext_nat _ _ (pairwise_interRows _ (pairwise_rowsByName _ _ _ _ _))
    (pairwise_rowsByName _ _ _ _ _)
  intro x
  rw [mem_interRows, mem_rowsByName, mem_rowsByName]
  simp

/-- the `skip` argument of `get_dofs` is `drop` applied to the unrestricted query (facet, cell and
    vertex queries) -/
theorem C07_skip_argument (c : DofCounts) (tp : Topo) (dn names : List String)
    (facets f2e : List (List Nat)) (we : Bool) (ix : List Nat) :
    facetView c facets f2e we ix (nameRows c tp dn names true)
        = (facetView c facets f2e we ix (nameRows c tp dn [] true)).drop c tp dn names
    ∧ elementView c tp ix (nameRows c tp dn names true)
        = (elementView c tp ix (nameRows c tp dn [] true)).drop c tp dn names
    ∧ vertexView ix (nameRows c tp dn names true)
        = (vertexView ix (nameRows c tp dn [] true)).drop c tp dn names := by
  refine ⟨?_, ?_, ?_⟩ <;>
    simp [facetView, elementView, vertexView, View.drop, View.restrictRows, nameRows, interRows_all]

/-- without `skip` every row is selected -/
theorem C07_no_skip_all_rows (c : DofCounts) (tp : Topo) (dn : List String) :
    nameRows c tp dn [] true
      = ⟨List.range (nRowsNodal c tp), List.range (nRowsFacet c tp), List.range (nRowsEdge c tp),
         List.range (nRowsInterior c tp)⟩ := by
  simp [nameRows, rowsByName]

/-- by-name dictionaries (`.nodal`, `.facet`, `.edge`, `.interior`): the value stored under a key
    consists of exactly the selected table entries of the rows carrying that name; every selected
    row's name is a key; no key twice -/
theorem C07_by_name (table : List (List Nat)) (rows ix : List Nat) (dn : List String) (off : Nat) :
    (∀ nm l, (nm, l) ∈ byName table rows ix dn off →
      ∀ x, x ∈ l ↔ ∃ r ∈ rows, rowName dn off r = nm ∧ ∃ e ∈ ix, (table.getD r []).getD e 0 = x)
    ∧ (∀ r ∈ rows, ∃ l, (rowName dn off r, l) ∈ byName table rows ix dn off)
    ∧ ((byName table rows ix dn off).map (·.1)).Nodup := by
  refine ⟨?_, ?_, ?_⟩
  · intro nm l h x
    simp only [byName, List.mem_map] at h
    obtain ⟨nm', _, h⟩ := h
    cases h
    rw [mem_selectDofs]
    simp only [List.mem_filter, beq_iff_eq]
    constructor
    · rintro ⟨r, ⟨hr, hn⟩, e, he, hx⟩; exact ⟨r, hr, hn, e, he, hx⟩
    · rintro ⟨r, hr, hn, e, he, hx⟩; exact ⟨r, ⟨hr, hn⟩, e, he, hx⟩
  · intro r hr
    refine ⟨selectDofs table (rows.filter (fun r' => rowName dn off r' == rowName dn off r)) ix, ?_⟩
    simp only [byName, List.mem_map]
    exact ⟨rowName dn off r, by rw [mem_firstOccs, List.mem_map]; exact ⟨r, hr, rfl⟩, rfl⟩
  · simp only [byName, List.map_map]
    have : ((fun x : String × List Nat => x.1) ∘ fun nm =>
        (nm, selectDofs table (rows.filter (fun r => rowName dn off r == nm)) ix)) = id := by
      funext nm; rfl
    rw [this, List.map_id]
    exact nodup_firstOccs _


/-! ### name lists of the wrapper elements (finding F12) -/

/-- the element's name list has one name per table row -/
def WF (e : ElemNames) : Prop :=
  e.names.length = e.counts.nodal + e.counts.facet + e.counts.edge + e.counts.interior

theorem wf_lengths (e : ElemNames) (h : WF e) :
    e.nodalNames.length = e.counts.nodal ∧ e.facetNames.length = e.counts.facet
    ∧ e.edgeNames.length = e.counts.edge ∧ e.interiorNames.length = e.counts.interior
    ∧ e.restNames.length = e.counts.interior := by
  unfold WF at h
  simp only [ElemNames.nodalNames, ElemNames.facetNames, ElemNames.edgeNames,
    ElemNames.interiorNames, ElemNames.restNames, List.length_take, List.length_drop]
  omega

theorem composite_block (cs : List ElemNames) (sel : ElemNames → List String)
    (cnt offc : ElemNames → Nat)
    (hlen : ∀ e ∈ cs, (sel e).length = cnt e)
    (hget : ∀ e ∈ cs, ∀ j < cnt e, (sel e).getD j "" = rowName e.names (offc e) j)
    (A C : List String) (hnames : compositeNames cs = A ++ kindNames sel cs ++ C)
    (i j : Nat) (hi : i < cs.length) (hj : j < cnt cs[i]) :
    rowName (compositeNames cs) A.length (((cs.take i).map cnt).sum + j)
      = suffixName i (rowName cs[i].names (offc cs[i]) j) := by
  have hmem : cs[i] ∈ cs := List.getElem_mem hi
  have hj' : j < (sel cs[i]).length := by rw [hlen _ hmem]; exact hj
  have hpre : ((cs.take i).map (fun e => (sel e).length)).sum = ((cs.take i).map cnt).sum :=
    sum_map_congr_dof _ _ _ (fun e he => hlen e (List.mem_of_mem_take he))
  have htot : (kindNames sel cs).length = (cs.map cnt).sum := by
    unfold kindNames
    rw [length_kindNamesFrom]
    exact sum_map_congr_dof _ _ _ hlen
  have hlt : ((cs.take i).map cnt).sum + j < (kindNames sel cs).length := by
    rw [htot]; exact sum_take_add_lt cnt cs i j hi hj
  unfold rowName
  rw [hnames, getD_append_block A _ C _ hlt]
  have := kindNamesFrom_getD sel 0 cs i j hi hj'
  rw [hpre, Nat.zero_add] at this
  unfold kindNames
  rw [this, hget _ hmem j hj]
  rfl

/-- **names of a composite element** (repaired `ElementComposite.__init__`).  The rows of each
    kind of the composite are the rows of its components, component after component (this is the
    order of the DOF tables and of `_deduce_bfun`).  For every kind, the name that
    `_dofnames_to_rows` / `DofsView.facet` / `.edge` read for the row of component `i` (0-based),
    local row `j`, is the name they read for row `j` of that kind of the component itself, with
    `^(i+1)` appended.  (On the pinned tree this failed for facet and edge rows, see
    `C07_name_filter_old_counterexample`.) -/
theorem C07_composite_names (cs : List ElemNames) (hwf : ∀ e ∈ cs, WF e) (i j : Nat)
    (hi : i < cs.length) :
    (j < cs[i].counts.nodal →
      rowName (compositeNames cs) 0 (((cs.take i).map (·.counts.nodal)).sum + j)
        = suffixName i (rowName cs[i].names 0 j))
    ∧ (j < cs[i].counts.facet →
      rowName (compositeNames cs) (sumCounts cs).nodal (((cs.take i).map (·.counts.facet)).sum + j)
        = suffixName i (rowName cs[i].names cs[i].counts.nodal j))
    ∧ (j < cs[i].counts.edge →
      rowName (compositeNames cs) ((sumCounts cs).nodal + (sumCounts cs).facet)
          (((cs.take i).map (·.counts.edge)).sum + j)
        = suffixName i (rowName cs[i].names (cs[i].counts.nodal + cs[i].counts.facet) j))
    ∧ (j < cs[i].counts.interior →
      rowName (compositeNames cs)
          ((sumCounts cs).nodal + (sumCounts cs).facet + (sumCounts cs).edge)
          (((cs.take i).map (·.counts.interior)).sum + j)
        = suffixName i (rowName cs[i].names
            (cs[i].counts.nodal + cs[i].counts.facet + cs[i].counts.edge) j)) := by
  have lenN : (kindNames ElemNames.nodalNames cs).length = (sumCounts cs).nodal := by
    unfold kindNames; rw [length_kindNamesFrom]
    exact sum_map_congr_dof _ _ _ (fun e he => (wf_lengths e (hwf e he)).1)
  have lenF : (kindNames ElemNames.facetNames cs).length = (sumCounts cs).facet := by
    unfold kindNames; rw [length_kindNamesFrom]
    exact sum_map_congr_dof _ _ _ (fun e he => (wf_lengths e (hwf e he)).2.1)
  have lenE : (kindNames ElemNames.edgeNames cs).length = (sumCounts cs).edge := by
    unfold kindNames; rw [length_kindNamesFrom]
    exact sum_map_congr_dof _ _ _ (fun e he => (wf_lengths e (hwf e he)).2.2.1)
  refine ⟨?_, ?_, ?_, ?_⟩
  · intro hj
    have := composite_block cs ElemNames.nodalNames (·.counts.nodal) (fun _ => 0)
      (fun e he => (wf_lengths e (hwf e he)).1)
      (fun e _ j hj => by
        unfold ElemNames.nodalNames rowName
        simp [List.getD_eq_getElem?_getD, hj])
      [] (kindNames ElemNames.facetNames cs ++ kindNames ElemNames.edgeNames cs
        ++ kindNames ElemNames.interiorNames cs)
      (by simp [compositeNames, List.append_assoc]) i j hi hj
    simpa using this
  · intro hj
    have := composite_block cs ElemNames.facetNames (·.counts.facet) (·.counts.nodal)
      (fun e he => (wf_lengths e (hwf e he)).2.1)
      (fun e _ j hj => by
        unfold ElemNames.facetNames rowName
        exact getD_take_drop _ _ _ _ hj)
      (kindNames ElemNames.nodalNames cs)
      (kindNames ElemNames.edgeNames cs ++ kindNames ElemNames.interiorNames cs)
      (by simp [compositeNames, List.append_assoc]) i j hi hj
    rw [lenN] at this
    exact this
  · intro hj
    have := composite_block cs ElemNames.edgeNames (·.counts.edge)
      (fun e => e.counts.nodal + e.counts.facet)
      (fun e he => (wf_lengths e (hwf e he)).2.2.1)
      (fun e _ j hj => by
        unfold ElemNames.edgeNames rowName
        exact getD_take_drop _ _ _ _ hj)
      (kindNames ElemNames.nodalNames cs ++ kindNames ElemNames.facetNames cs)
      (kindNames ElemNames.interiorNames cs)
      (by simp [compositeNames, List.append_assoc]) i j hi hj
    rw [List.length_append, lenN, lenF] at this
    exact this
  · intro hj
    have := composite_block cs ElemNames.interiorNames (·.counts.interior)
      (fun e => e.counts.nodal + e.counts.facet + e.counts.edge)
      (fun e he => (wf_lengths e (hwf e he)).2.2.2.1)
      (fun e _ j hj => by
        unfold ElemNames.interiorNames rowName
        exact getD_take_drop _ _ _ _ hj)
      (kindNames ElemNames.nodalNames cs ++ kindNames ElemNames.facetNames cs
        ++ kindNames ElemNames.edgeNames cs)
      []
      (by simp [compositeNames, List.append_assoc]) i j hi hj
    rw [List.length_append, List.length_append, lenN, lenF, lenE] at this
    exact this

/-- the composite's list has again one name per table row (so composites nest) -/
theorem C07_composite_wf (cs : List ElemNames) (hwf : ∀ e ∈ cs, WF e) : WF (compositeElem cs) := by
  unfold WF compositeElem compositeNames kindNames
  simp only [List.length_append, length_kindNamesFrom]
  rw [sum_map_congr_dof _ _ cs (fun e he => (wf_lengths e (hwf e he)).1),
    sum_map_congr_dof _ _ cs (fun e he => (wf_lengths e (hwf e he)).2.1),
    sum_map_congr_dof _ _ cs (fun e he => (wf_lengths e (hwf e he)).2.2.1),
    sum_map_congr_dof _ _ cs (fun e he => (wf_lengths e (hwf e he)).2.2.2.1)]
  rfl

/-- **names of `ElementVector`**: every count is multiplied by `dim`, hence every offset too; row
    `a * dim + j` of a kind is component `j` of row `a` of the wrapped element and is called
    `name^(j+1)` — for whichever reading order, since the order of the wrapped list is kept -/
theorem C07_vector_names (dim : Nat) (names : List String) (off a j : Nat)
    (ha : a + off < names.length) (hj : j < dim) :
    rowName (vectorNames dim names) (off * dim) (a * dim + j)
      = suffixName j (rowName names off a) := by
  unfold rowName
  have : a * dim + j + off * dim = (a + off) * dim + j := by rw [Nat.add_mul]; omega
  rw [this, vectorNames_getD dim names (a + off) j ha hj]

/-- **names of `ElementDG`** (repaired): the cut element has interior rows only, one per local
    basis function of the wrapped element, in the order of the per-cell layout (C04: vertices,
    edges, facets, interior; local DOF `a` of the `itr`-th entity at `itr * count + a`); each row
    carries the name `_dofnames_to_rows` reads for the corresponding row of the wrapped element -/
theorem C07_dg_names (nn ne nf : Nat) (e : ElemNames) (hwf : WF e) :
    (∀ lv a, lv < nn → a < e.counts.nodal →
      rowName (dgNames nn ne nf e) 0 (lv * e.counts.nodal + a) = rowName e.names 0 a)
    ∧ (∀ le b, le < ne → b < e.counts.edge →
      rowName (dgNames nn ne nf e) 0 (nn * e.counts.nodal + (le * e.counts.edge + b))
        = rowName e.names (e.counts.nodal + e.counts.facet) b)
    ∧ (∀ lf d, lf < nf → d < e.counts.facet →
      rowName (dgNames nn ne nf e) 0
          (nn * e.counts.nodal + ne * e.counts.edge + (lf * e.counts.facet + d))
        = rowName e.names e.counts.nodal d)
    ∧ (∀ g, g < e.counts.interior →
      rowName (dgNames nn ne nf e) 0
          (nn * e.counts.nodal + ne * e.counts.edge + nf * e.counts.facet + g)
        = rowName e.names (e.counts.nodal + e.counts.facet + e.counts.edge) g) := by
  obtain ⟨lN, lF, lE, _, lR⟩ := wf_lengths e hwf
  have LN := length_replicateNames nn e.nodalNames
  have LE := length_replicateNames ne e.edgeNames
  have LF := length_replicateNames nf e.facetNames
  rw [lN] at LN; rw [lE] at LE; rw [lF] at LF
  refine ⟨?_, ?_, ?_, ?_⟩
  · intro lv a hlv ha
    have hlt : lv * e.counts.nodal + a < (replicateNames nn e.nodalNames).length := by
      rw [LN]
      have : (lv + 1) * e.counts.nodal ≤ nn * e.counts.nodal := Nat.mul_le_mul_right _ hlv
      rw [Nat.add_mul] at this; omega
    have h := getD_append_block [] (replicateNames nn e.nodalNames)
      (replicateNames ne e.edgeNames ++ replicateNames nf e.facetNames ++ e.restNames) _ hlt
    have h2 := replicateNames_getD nn e.nodalNames lv a hlv (by rw [lN]; exact ha)
    rw [lN] at h2
    simp only [List.nil_append, List.length_nil, Nat.add_zero] at h
    unfold rowName dgNames cellLayoutNames
    rw [Nat.add_zero, Nat.add_zero]
    simp only [List.append_assoc] at h ⊢
    rw [h, h2]
    unfold ElemNames.nodalNames
    simp [List.getD_eq_getElem?_getD, ha]
  · intro le b hle hb
    have hlt : le * e.counts.edge + b < (replicateNames ne e.edgeNames).length := by
      rw [LE]
      have : (le + 1) * e.counts.edge ≤ ne * e.counts.edge := Nat.mul_le_mul_right _ hle
      rw [Nat.add_mul] at this; omega
    have h := getD_append_block (replicateNames nn e.nodalNames) (replicateNames ne e.edgeNames)
      (replicateNames nf e.facetNames ++ e.restNames) _ hlt
    have h2 := replicateNames_getD ne e.edgeNames le b hle (by rw [lE]; exact hb)
    rw [lE] at h2
    rw [LN] at h
    unfold rowName dgNames cellLayoutNames
    rw [Nat.add_zero]
    have e1 : nn * e.counts.nodal + (le * e.counts.edge + b)
        = le * e.counts.edge + b + nn * e.counts.nodal := by omega
    rw [e1]
    simp only [List.append_assoc] at h ⊢
    rw [h, h2]
    unfold ElemNames.edgeNames
    exact getD_take_drop _ _ _ _ hb
  · intro lf d hlf hd
    have hlt : lf * e.counts.facet + d < (replicateNames nf e.facetNames).length := by
      rw [LF]
      have : (lf + 1) * e.counts.facet ≤ nf * e.counts.facet := Nat.mul_le_mul_right _ hlf
      rw [Nat.add_mul] at this; omega
    have h := getD_append_block (replicateNames nn e.nodalNames ++ replicateNames ne e.edgeNames)
      (replicateNames nf e.facetNames) e.restNames _ hlt
    have h2 := replicateNames_getD nf e.facetNames lf d hlf (by rw [lF]; exact hd)
    rw [lF] at h2
    rw [List.length_append, LN, LE] at h
    unfold rowName dgNames cellLayoutNames
    rw [Nat.add_zero]
    have e1 : nn * e.counts.nodal + ne * e.counts.edge + (lf * e.counts.facet + d)
        = lf * e.counts.facet + d + (nn * e.counts.nodal + ne * e.counts.edge) := by omega
    rw [e1, h, h2]
    unfold ElemNames.facetNames
    exact getD_take_drop _ _ _ _ hd
  · intro g hg
    have hlt : g < e.restNames.length := by rw [lR]; exact hg
    have h := getD_append_block (replicateNames nn e.nodalNames ++ replicateNames ne e.edgeNames
      ++ replicateNames nf e.facetNames) e.restNames [] g hlt
    rw [List.length_append, List.length_append, LN, LE, LF, List.append_nil] at h
    unfold rowName dgNames cellLayoutNames
    rw [Nat.add_zero]
    have e1 : nn * e.counts.nodal + ne * e.counts.edge + nf * e.counts.facet + g
        = g + (nn * e.counts.nodal + ne * e.counts.edge + nf * e.counts.facet) := by omega
    rw [e1, h]
    unfold ElemNames.restNames
    simp [List.getD_eq_getElem?_getD, List.getElem?_drop, Nat.add_comm]

/-! #### the pinned tree (finding F12) -/

/-- `ElementTetP2`: one vertex DOF, one edge DOF -/
def tetP2 : ElemNames := ⟨⟨1, 1, 0, 0⟩, ["u", "u"]⟩
/-- `ElementTetRT1`: one facet DOF -/
def tetRT1 : ElemNames := ⟨⟨0, 0, 1, 0⟩, ["u^n"]⟩
/-- one tetrahedron: 4 vertices, 6 edges, 4 facets -/
def oneTet : Topo :=
  { dim := 3, nverts := 4, nedges := 6, nfacets := 4, nt := 1,
    t := [[0], [1], [2], [3]], t2e := [[0], [3], [1], [2], [4], [5]], t2f := [[0], [1], [2], [3]] }

/-- **F12 on the pinned tree**: for `ElementTetP2() * ElementTetRT1()` the old
    `ElementComposite.__init__` lists the names as nodal, EDGE, FACET (`['u^1', 'u^1', 'u^n^2']`)
    while `_dofnames_to_rows` reads nodal, FACET, EDGE.  On a tetrahedron (numbers 0–3 vertex
    DOFs, 4–9 edge DOFs, 10–13 facet DOFs) the boundary query `.all('u^n^2')` then returns the six
    EDGE DOFs of the P2 component; the repaired list makes it return the four facet DOFs of the
    Raviart–Thomas component. -/
theorem C07_name_filter_old_counterexample :
    compositeNamesOld [tetP2, tetRT1] = ["u^1", "u^1", "u^n^2"]
    ∧ compositeNames [tetP2, tetRT1] = ["u^1", "u^n^2", "u^1"]
    ∧ (let c : DofCounts := ⟨1, 1, 1, 0⟩
       let v := facetView c [[0, 0, 0, 1], [1, 1, 2, 2], [2, 3, 3, 3]]
         [[0, 0, 1, 3], [3, 4, 5, 5], [1, 2, 2, 4]] true [0, 1, 2, 3]
         (nameRows c oneTet (compositeNamesOld [tetP2, tetRT1]) [] true)
       v.all c oneTet (compositeNamesOld [tetP2, tetRT1]) ["u^n^2"] = [4, 5, 6, 7, 8, 9])
    ∧ (let c : DofCounts := ⟨1, 1, 1, 0⟩
       let v := facetView c [[0, 0, 0, 1], [1, 1, 2, 2], [2, 3, 3, 3]]
         [[0, 0, 1, 3], [3, 4, 5, 5], [1, 2, 2, 4]] true [0, 1, 2, 3]
         (nameRows c oneTet (compositeNames [tetP2, tetRT1]) [] true)
       v.all c oneTet (compositeNames [tetP2, tetRT1]) ["u^n^2"] = [10, 11, 12, 13]) := by
  decide +kernel

/-- the old `ElementDG` list (facet names before edge names) misnames the local basis functions of
    a wrapped element with different edge and facet names: for the (repaired) composite above the
    cell has 4 vertex, 6 edge, 4 facet functions; old: functions 8, 9 (edges) are called `u^n^2` -/
theorem C07_dg_names_old_counterexample :
    dgNamesOld 4 6 4 (compositeElem [tetP2, tetRT1])
      = ["u^1", "u^1", "u^1", "u^1", "u^n^2", "u^n^2", "u^n^2", "u^n^2",
         "u^1", "u^1", "u^1", "u^1", "u^1", "u^1"]
    ∧ dgNames 4 6 4 (compositeElem [tetP2, tetRT1])
      = ["u^1", "u^1", "u^1", "u^1", "u^1", "u^1", "u^1", "u^1", "u^1", "u^1",
         "u^n^2", "u^n^2", "u^n^2", "u^n^2"] := by
  decide +kernel


/-! ### per-cell view: which local basis functions of a cell have their DOF in the result -/

theorem edge_rows (c : DofCounts) (tp : Topo) (r : Rows) (hr : RowsOk' c tp r) :
    ∀ b ∈ r.edge, useEdges c tp = true ∧ b < c.edge := by
  intro b hb
  have := hr.2.2.1 b hb
  rw [nRowsEdge_eq] at this
  by_cases hue : useEdges c tp = true
  · simp only [hue, if_true] at this
    exact ⟨hue, this⟩
  · simp [hue] at this

/-- **closure, cell by cell** (facet query).  Take any cell `k`.  The global DOF of its local
    vertex function `(lv, a)` (row `lv * nodal + a` of the vertex block of `element_dofs`, C04) is
    returned iff row `a` is kept and the vertex `t[lv][k]` is a vertex of a selected facet; the DOF
    of its local edge function `(le, b)` iff the edge `t2e[le][k]` is an edge of a selected facet;
    the DOF of its local facet function `(lf, d)` iff the facet `t2f[lf][k]` is selected. -/
theorem C07_cell_closure (c : DofCounts) (tp : Topo) (facets f2e : List (List Nat)) (we : Bool)
    (ix : List Nat) (r : Rows) (hr : RowsOk' c tp r)
    (hix : ∀ f ∈ ix, f < tp.nfacets)
    (hfv : ∀ row ∈ facets, ∀ f < tp.nfacets, row.getD f 0 < tp.nverts)
    (hfe : ∀ row ∈ f2e, ∀ f < tp.nfacets, row.getD f 0 < tp.nedges) (k : Nat) :
    (∀ lv a, lv < tp.t.length → k < (tp.t.getD lv []).length → a < c.nodal →
      (tp.t.getD lv []).getD k 0 < tp.nverts →
      (((gatherRows c.nodal 0 tp.t).getD (lv * c.nodal + a) []).getD k 0
          ∈ (facetView c facets f2e we ix r).flatten c tp
        ↔ a ∈ r.nodal ∧ ∃ f ∈ ix, ∃ row ∈ facets, row.getD f 0 = (tp.t.getD lv []).getD k 0))
    ∧ (∀ le b, le < tp.t2e.length → k < (tp.t2e.getD le []).length → b < c.edge →
      useEdges c tp = true → (tp.t2e.getD le []).getD k 0 < tp.nedges →
      (((gatherRows c.edge (offEdge c tp) tp.t2e).getD (le * c.edge + b) []).getD k 0
          ∈ (facetView c facets f2e we ix r).flatten c tp
        ↔ b ∈ r.edge ∧ we = true
            ∧ ∃ f ∈ ix, ∃ row ∈ f2e, row.getD f 0 = (tp.t2e.getD le []).getD k 0))
    ∧ (∀ lf d, lf < tp.t2f.length → k < (tp.t2f.getD lf []).length → d < c.facet →
      (tp.t2f.getD lf []).getD k 0 < tp.nfacets →
      (((gatherRows c.facet (offFacet c tp) tp.t2f).getD (lf * c.facet + d) []).getD k 0
          ∈ (facetView c facets f2e we ix r).flatten c tp
        ↔ d ∈ r.facet ∧ (tp.t2f.getD lf []).getD k 0 ∈ ix)) := by
  have hchar := C07_facet_dofs c tp facets f2e we ix r hr hix hfv hfe
  have hedge := edge_rows c tp r hr
  obtain ⟨hr1, hr2, hr3, _⟩ := hr
  have e1 : offEdge c tp = c.nodal * tp.nverts := rfl
  have l1 : offEdge c tp ≤ offFacet c tp := by unfold offFacet; omega
  refine ⟨?_, ?_, ?_⟩
  · intro lv a hlv hk ha hv
    rw [gatherRows_getD c.nodal 0 tp.t lv a k hlv ha hk, hchar]
    have hlt := dofNumber_lt c.nodal tp.nverts 0 a _ ha hv
    constructor
    · rintro (⟨a', ha', f, hf, row, hrow, h⟩ | ⟨_, b, hb, f, hf, row, hrow, h⟩ | ⟨d, hd, f, hf, h⟩)
      · have hlt' : a' < c.nodal := by have := hr1 a' ha'; rwa [nRowsNodal_eq] at this
        obtain ⟨rfl, hv'⟩ := dofNumber_inj c.nodal 0 _ _ _ _ hlt' ha h
        exact ⟨ha', f, hf, row, hrow, hv'⟩
      · have := dofNumber_ge c.edge (offEdge c tp) b (row.getD f 0)
        omega
      · have := dofNumber_ge c.facet (offFacet c tp) d f
        omega
    · rintro ⟨ha', f, hf, row, hrow, h⟩
      exact Or.inl ⟨a, ha', f, hf, row, hrow, by rw [h]⟩
  · intro le b hle hk hb hue he
    rw [gatherRows_getD c.edge (offEdge c tp) tp.t2e le b k hle hb hk, hchar]
    have e2 : offFacet c tp = offEdge c tp + c.edge * tp.nedges := by
      simp only [offFacet, hue, if_true]
    have hlt := dofNumber_lt c.edge tp.nedges (offEdge c tp) b _ hb he
    have hge := dofNumber_ge c.edge (offEdge c tp) b ((tp.t2e.getD le []).getD k 0)
    constructor
    · rintro (⟨a', ha', f, hf, row, hrow, h⟩ | ⟨hwe, b', hb', f, hf, row, hrow, h⟩ | ⟨d, hd, f, hf, h⟩)
      · have hlt' : a' < c.nodal := by have := hr1 a' ha'; rwa [nRowsNodal_eq] at this
        have := dofNumber_lt c.nodal tp.nverts 0 a' _ hlt' (hfv row hrow f (hix f hf))
        omega
      · obtain ⟨rfl, hv'⟩ := dofNumber_inj c.edge (offEdge c tp) _ _ _ _ (hedge b' hb').2 hb h
        exact ⟨hb', hwe, f, hf, row, hrow, hv'⟩
      · have := dofNumber_ge c.facet (offFacet c tp) d f
        omega
    · rintro ⟨hb', hwe, f, hf, row, hrow, h⟩
      exact Or.inr (Or.inl ⟨hwe, b, hb', f, hf, row, hrow, by rw [h]⟩)
  · intro lf d hlf hk hd hfb
    rw [gatherRows_getD c.facet (offFacet c tp) tp.t2f lf d k hlf hd hk, hchar]
    have hge := dofNumber_ge c.facet (offFacet c tp) d ((tp.t2f.getD lf []).getD k 0)
    constructor
    · rintro (⟨a', ha', f, hf, row, hrow, h⟩ | ⟨hwe, b', hb', f, hf, row, hrow, h⟩ | ⟨d', hd', f, hf, h⟩)
      · have hlt' : a' < c.nodal := by have := hr1 a' ha'; rwa [nRowsNodal_eq] at this
        have := dofNumber_lt c.nodal tp.nverts 0 a' _ hlt' (hfv row hrow f (hix f hf))
        omega
      · obtain ⟨hue, hlt'⟩ := hedge b' hb'
        have e2 : offFacet c tp = offEdge c tp + c.edge * tp.nedges := by
          simp only [offFacet, hue, if_true]
        have := dofNumber_lt c.edge tp.nedges (offEdge c tp) b' _ hlt' (hfe row hrow f (hix f hf))
        omega
      · have hlt' : d' < c.facet := by have := hr2 d' hd'; rwa [nRowsFacet_eq] at this
        obtain ⟨rfl, hv'⟩ := dofNumber_inj c.facet (offFacet c tp) _ _ _ _ hlt' hd h
        exact ⟨hd', by rw [← hv']; exact hf⟩
    · rintro ⟨hd', hf⟩
      exact Or.inr (Or.inr ⟨d, hd', _, hf, rfl⟩)

theorem sum_map_zero {l : List Nat} {f : Nat → Int} (h : ∀ x ∈ l, f x = 0) :
    (l.map f).sum = 0 := by
  induction l with
  | nil => rfl
  | cons a as ih =>
    simp only [List.map_cons, List.sum_cons]
    rw [h a (by simp), ih (fun x hx => h x (by simp [hx]))]
    rfl

/-- **the trace is controlled by the returned DOFs** (given the locality of the element).
    Fix a cell `k` and a coefficient vector `X` that vanishes on the returned set (no row
    skipped).  Let `trN lv a`, `trE le b`, `trF lf d`, `trI g` be the traces (value / normal /
    tangential component at any point of a selected facet) of the local basis functions of `k`,
    and assume what C03 states about the element: a local function has a non-zero trace there
    only if its entity (vertex, edge, facet of the cell) belongs to the closure of a selected
    facet, and interior functions have none.  Then the trace of `u_h = Σ X_d φ_d` vanishes: the
    sum over ALL local functions of the cell (blocks of `element_dofs` as in C04) is zero. -/
theorem C07_trace_controlled (c : DofCounts) (tp : Topo) (facets f2e : List (List Nat)) (we : Bool)
    (ix : List Nat) (r : Rows) (hr : RowsOk' c tp r)
    (hrN : ∀ a < c.nodal, a ∈ r.nodal) (hrE : ∀ b < c.edge, b ∈ r.edge)
    (hrF : ∀ d < c.facet, d ∈ r.facet)
    (hix : ∀ f ∈ ix, f < tp.nfacets)
    (hfv : ∀ row ∈ facets, ∀ f < tp.nfacets, row.getD f 0 < tp.nverts)
    (hfe : ∀ row ∈ f2e, ∀ f < tp.nfacets, row.getD f 0 < tp.nedges)
    (k : Nat)
    (ht : ∀ row ∈ tp.t, k < row.length ∧ row.getD k 0 < tp.nverts)
    (hte : ∀ row ∈ tp.t2e, k < row.length ∧ row.getD k 0 < tp.nedges)
    (htf : ∀ row ∈ tp.t2f, k < row.length ∧ row.getD k 0 < tp.nfacets)
    (X : Nat → Int)
    (hX : ∀ d ∈ (facetView c facets f2e we ix r).flatten c tp, X d = 0)
    (trN trE trF : Nat → Nat → Int) (trI : Nat → Int)
    (hN : ∀ lv a, trN lv a ≠ 0 →
      ∃ f ∈ ix, ∃ row ∈ facets, row.getD f 0 = (tp.t.getD lv []).getD k 0)
    (hE : ∀ le b, trE le b ≠ 0 →
      we = true ∧ ∃ f ∈ ix, ∃ row ∈ f2e, row.getD f 0 = (tp.t2e.getD le []).getD k 0)
    (hF : ∀ lf d, trF lf d ≠ 0 → (tp.t2f.getD lf []).getD k 0 ∈ ix)
    (hI : ∀ g, trI g = 0) :
    ((List.range tp.t.length).map (fun lv => ((List.range c.nodal).map (fun a =>
        X (((gatherRows c.nodal 0 tp.t).getD (lv * c.nodal + a) []).getD k 0) * trN lv a)).sum)).sum
    + ((List.range tp.t2e.length).map (fun le => ((List.range c.edge).map (fun b =>
        X (((gatherRows c.edge (offEdge c tp) tp.t2e).getD (le * c.edge + b) []).getD k 0)
          * trE le b)).sum)).sum
    + ((List.range tp.t2f.length).map (fun lf => ((List.range c.facet).map (fun d =>
        X (((gatherRows c.facet (offFacet c tp) tp.t2f).getD (lf * c.facet + d) []).getD k 0)
          * trF lf d)).sum)).sum
    + ((List.range c.interior).map (fun g =>
        X (((interiorDofs c tp).getD g []).getD k 0) * trI g)).sum = 0 := by
  obtain ⟨hcN, hcE, hcF⟩ := C07_cell_closure c tp facets f2e we ix r hr hix hfv hfe k
  have hedge := edge_rows c tp r hr
  have getD_mem : ∀ (tb : List (List Nat)) (i : Nat), i < tb.length → tb.getD i [] ∈ tb := by
    intro tb i hi
    rw [List.getD_eq_getElem?_getD, List.getElem?_eq_getElem hi]
    exact List.getElem_mem hi
  have s1 : ((List.range tp.t.length).map (fun lv => ((List.range c.nodal).map (fun a =>
      X (((gatherRows c.nodal 0 tp.t).getD (lv * c.nodal + a) []).getD k 0) * trN lv a)).sum)).sum
      = 0 := by
    apply sum_map_zero
    intro lv hlv
    apply sum_map_zero
    intro a ha
    rw [List.mem_range] at hlv ha
    by_cases h0 : trN lv a = 0
    · rw [h0, Int.mul_zero]
    · obtain ⟨hk, hv⟩ := ht _ (getD_mem tp.t lv hlv)
      rw [hX _ ((hcN lv a hlv hk ha hv).mpr ⟨hrN a ha, hN lv a h0⟩), Int.zero_mul]
  have s2 : ((List.range tp.t2e.length).map (fun le => ((List.range c.edge).map (fun b =>
      X (((gatherRows c.edge (offEdge c tp) tp.t2e).getD (le * c.edge + b) []).getD k 0)
        * trE le b)).sum)).sum = 0 := by
    apply sum_map_zero
    intro le hle
    apply sum_map_zero
    intro b hb
    rw [List.mem_range] at hle hb
    by_cases h0 : trE le b = 0
    · rw [h0, Int.mul_zero]
    · obtain ⟨hk, hv⟩ := hte _ (getD_mem tp.t2e le hle)
      obtain ⟨hwe, hcl⟩ := hE le b h0
      rw [hX _ ((hcE le b hle hk hb (hedge b (hrE b hb)).1 hv).mpr ⟨hrE b hb, hwe, hcl⟩),
        Int.zero_mul]
  have s3 : ((List.range tp.t2f.length).map (fun lf => ((List.range c.facet).map (fun d =>
      X (((gatherRows c.facet (offFacet c tp) tp.t2f).getD (lf * c.facet + d) []).getD k 0)
        * trF lf d)).sum)).sum = 0 := by
    apply sum_map_zero
    intro lf hlf
    apply sum_map_zero
    intro d hd
    rw [List.mem_range] at hlf hd
    by_cases h0 : trF lf d = 0
    · rw [h0, Int.mul_zero]
    · obtain ⟨hk, hv⟩ := htf _ (getD_mem tp.t2f lf hlf)
      rw [hX _ ((hcF lf d hlf hk hd hv).mpr ⟨hrF d hd, hF lf d h0⟩), Int.zero_mul]
  have s4 : ((List.range c.interior).map (fun g =>
      X (((interiorDofs c tp).getD g []).getD k 0) * trI g)).sum = 0 := by
    apply sum_map_zero
    intro g _
    rw [hI g, Int.mul_zero]
  rw [s1, s2, s3, s4]
  rfl


/-! ### cell query = columns of the per-cell table -/

theorem mem_gatherRows {count off : Nat} {conn : List (List Nat)} {R : List Nat} :
    R ∈ gatherRows count off conn ↔
      ∃ row ∈ conn, ∃ a, a < count ∧ R = row.map (fun e => dofNumber count off a e) := by
  simp only [gatherRows, List.mem_flatMap, List.mem_map, List.mem_range]
  constructor
  · rintro ⟨row, hrow, a, ha, rfl⟩; exact ⟨row, hrow, a, ha, rfl⟩
  · rintro ⟨row, hrow, a, ha, rfl⟩; exact ⟨row, hrow, a, ha, rfl⟩

theorem getD_map_lt (row : List Nat) (g : Nat → Nat) (k : Nat) (hk : k < row.length) :
    (row.map g).getD k 0 = g (row.getD k 0) := by
  simp [List.getD_eq_getElem?_getD, hk]

/-- **everything on the selected cells**: without `skip`, the cell query returns exactly the
    entries of the columns `ix` of `element_dofs` (the per-cell table of C04) -/
theorem C07_element_dofs_columns (c : DofCounts) (tp : Topo) (dn : List String) (ix : List Nat)
    (hix : ∀ k ∈ ix, k < tp.nt)
    (ht : ∀ row ∈ tp.t, row.length = tp.nt ∧ ∀ k < tp.nt, row.getD k 0 < tp.nverts)
    (hf : ∀ row ∈ tp.t2f, row.length = tp.nt ∧ ∀ k < tp.nt, row.getD k 0 < tp.nfacets)
    (he : ∀ row ∈ tp.t2e, row.length = tp.nt ∧ ∀ k < tp.nt, row.getD k 0 < tp.nedges)
    (hdim : c.facet > 0 → tp.dim ≥ 2) (x : Nat) :
    x ∈ (elementView c tp ix (nameRows c tp dn [] true)).flatten c tp ↔
      ∃ k ∈ ix, ∃ row ∈ elementDofs c tp, row.getD k 0 = x := by
  rw [C07_element_dofs c tp ix _ (nameRows_ok c tp dn [] true) hix (fun row h => (ht row h).2)
    (fun row h => (hf row h).2) (fun row h => (he row h).2) x]
  have memN : ∀ a, a ∈ (nameRows c tp dn [] true).nodal ↔ a < c.nodal := by
    intro a; simp [nameRows, mem_rowsByName, nRowsNodal_eq]
  have memF : ∀ a, a ∈ (nameRows c tp dn [] true).facet ↔ a < c.facet := by
    intro a; simp [nameRows, mem_rowsByName, nRowsFacet_eq]
  have memE : ∀ a, a ∈ (nameRows c tp dn [] true).edge ↔ a < nRowsEdge c tp := by
    intro a; simp [nameRows, mem_rowsByName]
  have memI : ∀ a, a ∈ (nameRows c tp dn [] true).interior ↔ a < c.interior := by
    intro a; simp [nameRows, mem_rowsByName, nRowsInterior_eq]
  constructor
  · rintro (⟨a, ha, k, hk, row, hrow, rfl⟩ | ⟨a, ha, k, hk, row, hrow, rfl⟩
      | ⟨a, ha, k, hk, row, hrow, rfl⟩ | ⟨a, ha, k, hk, rfl⟩)
    · refine ⟨k, hk, row.map (fun e => dofNumber c.nodal 0 a e), ?_, ?_⟩
      · simp only [elementDofs, List.mem_append]
        exact Or.inl (Or.inl (Or.inl (mem_gatherRows.mpr ⟨row, hrow, a, (memN a).mp ha, rfl⟩)))
      · exact getD_map_lt row _ k (by rw [(ht row hrow).1]; exact hix k hk)
    · have hlt := (memF a).mp ha
      have hfac : useFacets c = true := by simp only [useFacets, decide_eq_true_eq]; omega
      have hd := hdim (by omega)
      refine ⟨k, hk, row.map (fun e => dofNumber c.facet (offFacet c tp) a e), ?_, ?_⟩
      · simp only [elementDofs, List.mem_append]
        refine Or.inl (Or.inr ?_)
        have hcond : (decide (tp.dim ≥ 2) && useFacets c) = true := by simp [hfac, hd]
        simp only [hcond, if_true]
        exact mem_gatherRows.mpr ⟨row, hrow, a, hlt, rfl⟩
      · exact getD_map_lt row _ k (by rw [(hf row hrow).1]; exact hix k hk)
    · have hlt := (memE a).mp ha
      rw [nRowsEdge_eq] at hlt
      have hue : useEdges c tp = true := by
        by_cases h : useEdges c tp = true
        · exact h
        · simp [h] at hlt
      simp only [hue, if_true] at hlt
      refine ⟨k, hk, row.map (fun e => dofNumber c.edge (offEdge c tp) a e), ?_, ?_⟩
      · simp only [elementDofs, List.mem_append]
        refine Or.inl (Or.inl (Or.inr ?_))
        simp only [hue, if_true]
        exact mem_gatherRows.mpr ⟨row, hrow, a, hlt, rfl⟩
      · exact getD_map_lt row _ k (by rw [(he row hrow).1]; exact hix k hk)
    · have hlt := (memI a).mp ha
      refine ⟨k, hk, (interiorDofs c tp).getD a [], ?_, ?_⟩
      · simp only [elementDofs, List.mem_append]
        refine Or.inr ?_
        have hl : a < (interiorDofs c tp).length := by
          simp [interiorDofs, length_dofTable, hlt]
        rw [List.getD_eq_getElem?_getD, List.getElem?_eq_getElem hl]
        exact List.getElem_mem hl
      · exact dofTable_getD c.interior tp.nt (offInterior c tp) a k hlt (hix k hk)
  · rintro ⟨k, hk, R, hR, rfl⟩
    simp only [elementDofs, List.mem_append] at hR
    rcases hR with ((hR | hR) | hR) | hR
    · obtain ⟨row, hrow, a, ha, rfl⟩ := mem_gatherRows.mp hR
      left
      exact ⟨a, (memN a).mpr ha, k, hk, row, hrow,
        (getD_map_lt row _ k (by rw [(ht row hrow).1]; exact hix k hk)).symm⟩
    · by_cases hue : useEdges c tp = true
      · simp only [hue, if_true] at hR
        obtain ⟨row, hrow, a, ha, rfl⟩ := mem_gatherRows.mp hR
        right; right; left
        refine ⟨a, (memE a).mpr (by rw [nRowsEdge_eq]; simp [hue, ha]), k, hk, row, hrow,
          (getD_map_lt row _ k (by rw [(he row hrow).1]; exact hix k hk)).symm⟩
      · simp [hue] at hR
    · by_cases hcond : (decide (tp.dim ≥ 2) && useFacets c) = true
      · simp only [hcond, if_true] at hR
        obtain ⟨row, hrow, a, ha, rfl⟩ := mem_gatherRows.mp hR
        right; left
        exact ⟨a, (memF a).mpr ha, k, hk, row, hrow,
          (getD_map_lt row _ k (by rw [(hf row hrow).1]; exact hix k hk)).symm⟩
      · simp [hcond] at hR
    · right; right; right
      simp only [interiorDofs, dofTable, List.mem_map, List.mem_range] at hR
      obtain ⟨a, ha, rfl⟩ := hR
      refine ⟨a, (memI a).mpr ha, k, hk, ?_⟩
      simp [List.getD_eq_getElem?_getD, hix k hk]

/-! ### non-vacuity: the hypotheses are satisfiable, the model computes what skfem computes -/

/-- P2 on two triangles sharing an edge (4 vertices, 5 facets; `MeshTri().facets`) -/
def twoTri : Topo :=
  { dim := 2, nverts := 4, nedges := 0, nfacets := 5, nt := 2,
    t := [[0, 1], [1, 2], [2, 3]], t2e := [], t2f := [[0, 2], [2, 4], [1, 3]] }

/-- facets of `twoTri` (rows: first and second vertex) -/
def twoTriFacets : List (List Nat) := [[0, 0, 1, 1, 2], [1, 2, 2, 3, 3]]

example : RowsOk' ⟨1, 0, 1, 0⟩ twoTri (nameRows ⟨1, 0, 1, 0⟩ twoTri ["u", "u"] [] true) :=
  nameRows_ok _ _ _ _ _

-- the hypotheses of `C07_facet_dofs` / `C07_cell_closure` hold for this mesh
example : (∀ f ∈ [4, 0, 0], f < twoTri.nfacets)
    ∧ (∀ row ∈ twoTriFacets, ∀ f < twoTri.nfacets, row.getD f 0 < twoTri.nverts)
    ∧ (∀ row ∈ ([] : List (List Nat)), ∀ f < twoTri.nfacets, row.getD f 0 < twoTri.nedges) := by
  decide

-- facet query with an unsorted index array with a repetition: vertex DOFs 0,1,2,3 of the
-- vertices of facets 0 = (0,1) and 4 = (2,3), facet DOFs 4+0, 4+4
example : (facetView ⟨1, 0, 1, 0⟩ twoTriFacets [] false [4, 0, 0]
    (nameRows ⟨1, 0, 1, 0⟩ twoTri ["u", "u"] [] true)).flatten ⟨1, 0, 1, 0⟩ twoTri
    = [0, 1, 2, 3, 4, 8] := by decide

-- cell query, vertex query, complement, selectors
example : (elementView ⟨1, 0, 1, 0⟩ twoTri [1]
    (nameRows ⟨1, 0, 1, 0⟩ twoTri ["u", "u"] [] true)).flatten ⟨1, 0, 1, 0⟩ twoTri
    = [1, 2, 3, 6, 7, 8] := by decide
example : (vertexView [3, 1]
    (nameRows ⟨1, 0, 1, 0⟩ twoTri ["u", "u"] [] true)).flatten ⟨1, 0, 1, 0⟩ twoTri = [1, 3] := by
  decide
example : complementDofs 9 [[0, 1, 2, 3], [4, 8, 8]] = [5, 6, 7] := by decide
example : normalize .facets [("left", [1, 0])] [0, 1, 3, 4] 5
    (.coll [.tag "left", .pred [false, false, false, false, true], .int 0])
    = some [0, 1, 4] := by decide +kernel
example : normalize .facets [] [0, 1, 3, 4] 5 .none = some [0, 1, 3, 4] := by decide
example : normalize .facets [] [] 5 (.tag "nope") = none := by decide
-- `WF` holds for the elements of the counterexample; the composite nests
example : WF tetP2 ∧ WF tetRT1 ∧ WF (compositeElem [tetP2, tetRT1]) := by
  unfold WF; decide
-- Morley-type names: keep 'u_n' selects the facet DOFs only
example : (facetView ⟨1, 0, 1, 0⟩ twoTriFacets [] false [0]
    (nameRows ⟨1, 0, 1, 0⟩ twoTri ["u", "u_n"] [] true)).all ⟨1, 0, 1, 0⟩ twoTri ["u", "u_n"] ["u_n"]
    = [4] := by decide +kernel


-- `C07_trace_controlled` is not vacuous: P2 on `twoTri`, selected facet 0 = (0, 1), cell 0 =
-- vertices (0, 1, 2) with facets (0, 2, 1); returned DOFs [0, 1, 4]; `X` is 1 on every other
-- DOF; the local functions of vertices 0, 1 and of local facet 0 have trace 1, the others 0
example :
    let c : DofCounts := ⟨1, 0, 1, 0⟩
    let X : Nat → Int := fun d => if d ∈ [0, 1, 4] then 0 else 1
    let trN : Nat → Nat → Int := fun lv _ => if lv < 2 then 1 else 0
    let trF : Nat → Nat → Int := fun lf _ => if lf = 0 then 1 else 0
    ((List.range twoTri.t.length).map (fun lv => ((List.range c.nodal).map (fun a =>
        X (((gatherRows c.nodal 0 twoTri.t).getD (lv * c.nodal + a) []).getD 0 0) * trN lv a)).sum)).sum
    + ((List.range twoTri.t2e.length).map (fun le => ((List.range c.edge).map (fun b =>
        X (((gatherRows c.edge (offEdge c twoTri) twoTri.t2e).getD (le * c.edge + b) []).getD 0 0)
          * (0 : Int))).sum)).sum
    + ((List.range twoTri.t2f.length).map (fun lf => ((List.range c.facet).map (fun d =>
        X (((gatherRows c.facet (offFacet c twoTri) twoTri.t2f).getD (lf * c.facet + d) []).getD 0 0)
          * trF lf d)).sum)).sum
    + ((List.range c.interior).map (fun g =>
        X (((interiorDofs c twoTri).getD g []).getD 0 0) * (0 : Int))).sum = 0 := by
  intro c X trN trF
  refine C07_trace_controlled c twoTri twoTriFacets [] false [0]
    (nameRows c twoTri ["u", "u"] [] true) (nameRows_ok _ _ _ _ _)
    (by decide) (by decide) (by decide) (by decide) (by decide) (by decide) 0
    (by decide) (by decide) (by decide) X ?_ trN (fun _ _ => 0) trF (fun _ => 0) ?_ ?_ ?_ ?_
  · decide
  · intro lv a h
    have hlv : lv < 2 := by
      by_cases h2 : lv < 2
      · exact h2
      · simp [trN, h2] at h
    refine ⟨0, by simp, ?_⟩
    rcases (by omega : lv = 0 ∨ lv = 1) with rfl | rfl
    · exact ⟨[0, 0, 1, 1, 2], by simp [twoTriFacets], by decide⟩
    · exact ⟨[1, 2, 2, 3, 3], by simp [twoTriFacets], by decide⟩
  · intro le b h
    exact absurd rfl h
  · intro lf d h
    have : lf = 0 := by
      by_cases h0 : lf = 0
      · exact h0
      · simp [trF, h0] at h
    subst this
    decide
  · intro g
    rfl

end Skv.C07
