import SkfemVerif.Model.Assembly
import SkfemVerif.Lemmas.Topology
import SkfemVerif.Lemmas.Assembly
import Mathlib.Algebra.BigOperators.Group.Finset.Basic
import Mathlib.Algebra.BigOperators.Pi
import Mathlib.Algebra.BigOperators.Ring.Finset
import Mathlib.Algebra.Module.Pi
import Mathlib.Tactic.Ring
/-
C01  Assembled matrix, vector and scalar represent the weak form.

Model: Model/Assembly.lean (`bilinearTriplets`, `linearPairs`, `functionalValue`, `interp`,
`actionBil`, `denseEntry`, the integrand grammar `Term`/`evalForm`).
Tie: correspondence ops `asm.bilinear`, `asm.linear`, `asm.functional`, `basis.interpolate`
run the model on the implementation's own `element_dofs`, `basis`, `dx` (exact rationals of the
doubles) and compare with the raw output of `_assemble`.

`K` is any commutative ring (ℝ, ℂ, ℚ alike).  `f` is any integrand that is additive and
homogeneous in each of its first two arguments (hypotheses `hf…`), which is what "linear in
each argument function" means.  `nt, nq, Nu, Nv`, the DOF tables, the basis data, the
parameters `w`, the weights `dx` and the coefficient vectors `u v` are arbitrary.
-/
namespace Skv.C01
open Skv

variable {K : Type} [CommRing K]

/-- additivity + homogeneity of an integrand in its trial and test argument -/
structure IsBilinear (f : Sample K → Sample K → Sample K → K) : Prop where
  add_left : ∀ a a' b w, f (a + a') b w = f a b w + f a' b w
  smul_left : ∀ (c : K) a b w, f (c • a) b w = c * f a b w
  zero_left : ∀ b w, f 0 b w = 0
  add_right : ∀ a b b' w, f a (b + b') w = f a b w + f a b' w
  smul_right : ∀ (c : K) a b w, f a (c • b) w = c * f a b w
  zero_right : ∀ a w, f a 0 w = 0

structure IsLinear (f : Sample K → Sample K → K) : Prop where
  add : ∀ b b' w, f (b + b') w = f b w + f b' w
  smul : ∀ (c : K) b w, f (c • b) w = c * f b w
  zero : ∀ w, f 0 w = 0

/-- position bookkeeping of `bilinear_form.py`: the triplet for local pair `(j, i)` and cell `k`
    sits at flat position `nt * (Nv * j + i) + k`; its row is the TEST dof, its column the TRIAL
    dof, its value the kernel of `(u_j, v_i)` on cell `k`. -/
theorem C01_rows_test_cols_trial (Nu Nv nt nq : Nat) (f : Sample K → Sample K → Sample K → K)
    (ub vb : BasisData K) (w : Nat → Nat → Sample K) (dx : Nat → Nat → K)
    (udofs vdofs : Nat → Nat → Nat) (j i k : Nat) (hj : j < Nu) (hi : i < Nv) (hk : k < nt) :
    (bilinearTriplets Nu Nv nt nq f ub vb w dx udofs vdofs)[flatSlot Nv nt i j k]?
      = some (vdofs i k, udofs j k, kernelBil nq f ub vb w dx j i k) := by
  unfold bilinearTriplets flatSlot
  have hin : ∀ j' < Nu, ((List.range Nv).flatMap (fun i => (List.range nt).map (fun k =>
      (vdofs i k, udofs j' k, kernelBil nq f ub vb w dx j' i k)))).length = Nv * nt := by
    intro j' _
    exact length_flatMap_range Nv nt _ (fun i _ => by simp)
  have e : nt * (Nv * j + i) + k = j * (Nv * nt) + (i * nt + k) := by ring
  have hik : i * nt + k < Nv * nt := by
    have h1 : (i + 1) * nt ≤ Nv * nt := Nat.mul_le_mul_right nt hi
    rw [Nat.add_mul] at h1
    omega
  rw [e, getElem?_flatMap_range Nu (Nv * nt) _ hin j (i * nt + k) hj hik,
    getElem?_flatMap_range Nv nt _ (fun i _ => by simp) i k hi hk]
  simp [hk]

theorem C01_triplet_count (Nu Nv nt nq : Nat) (f : Sample K → Sample K → Sample K → K)
    (ub vb : BasisData K) (w : Nat → Nat → Sample K) (dx : Nat → Nat → K)
    (udofs vdofs : Nat → Nat → Nat) :
    (bilinearTriplets Nu Nv nt nq f ub vb w dx udofs vdofs).length = Nu * Nv * nt := by
  unfold bilinearTriplets
  rw [length_flatMap_range Nu (Nv * nt) _ (fun j _ =>
    length_flatMap_range Nv nt _ (fun i _ => by simp)), Nat.mul_assoc]

/-- interpolation is what the sample-wise linear combination says -/
theorem C01_interp_eq_sum (N : Nat) (x : Nat → K) (dofs : Nat → Nat → Nat) (b : BasisData K)
    (k q : Nat) :
    interp N x dofs b k q = ∑ j ∈ Finset.range N, x (dofs j k) • b j k q := by
  funext c
  unfold interp
  rw [sum_map_range, Finset.sum_apply]
  simp [Pi.smul_apply, smul_eq_mul]

/-- **v^T A u = a(u_h, v_h)** with the basis' quadrature -/
theorem C01_bilinear_represents (Nu Nv nt nq : Nat) (f : Sample K → Sample K → Sample K → K)
    (hf : IsBilinear f)
    (ub vb : BasisData K) (w : Nat → Nat → Sample K) (dx : Nat → Nat → K)
    (udofs vdofs : Nat → Nat → Nat) (u v : Nat → K) :
    actionBil (bilinearTriplets Nu Nv nt nq f ub vb w dx udofs vdofs) u v
      = ∑ k ∈ Finset.range nt, ∑ q ∈ Finset.range nq,
          f (interp Nu u udofs ub k q) (interp Nv v vdofs vb k q) (w k q) * dx k q := by
  have key : ∀ k q, f (interp Nu u udofs ub k q) (interp Nv v vdofs vb k q) (w k q)
      = ∑ j ∈ Finset.range Nu, ∑ i ∈ Finset.range Nv,
          u (udofs j k) * (v (vdofs i k) * f (ub j k q) (vb i k q) (w k q)) := by
    intro k q
    rw [C01_interp_eq_sum, C01_interp_eq_sum]
    have h1 := map_sum_smul_of_linear
      (fun a => f a (∑ i ∈ Finset.range Nv, v (vdofs i k) • vb i k q) (w k q))
      (fun a a' => hf.add_left a a' _ _) (fun c a => hf.smul_left c a _ _) (hf.zero_left _ _)
      Nu (fun j => u (udofs j k)) (fun j => ub j k q)
    refine h1.trans (Finset.sum_congr rfl (fun j _ => ?_))
    have h2 : f (ub j k q) (∑ i ∈ Finset.range Nv, v (vdofs i k) • vb i k q) (w k q)
        = ∑ i ∈ Finset.range Nv, v (vdofs i k) * f (ub j k q) (vb i k q) (w k q) :=
      map_sum_smul_of_linear (fun b => f (ub j k q) b (w k q))
        (fun b b' => hf.add_right _ b b' _) (fun c b => hf.smul_right c _ b _)
        (hf.zero_right _ _) Nv (fun i => v (vdofs i k)) (fun i => vb i k q)
    show u (udofs j k) * f (ub j k q) (∑ i ∈ Finset.range Nv, v (vdofs i k) • vb i k q) (w k q)
      = _
    rw [h2, Finset.mul_sum]
  rw [actionBil_bilinearTriplets]
  simp only [kernelBil_eq_sum, key]
  exact bilinear_sum_reorder Nu Nv nt nq (fun j i k q => f (ub j k q) (vb i k q) (w k q))
    (fun j k => u (udofs j k)) (fun i k => v (vdofs i k)) dx

/-- **b^T v = l(v_h)** -/
theorem C01_linear_represents (Nv nt nq : Nat) (f : Sample K → Sample K → K) (hf : IsLinear f)
    (vb : BasisData K) (w : Nat → Nat → Sample K) (dx : Nat → Nat → K)
    (vdofs : Nat → Nat → Nat) (v : Nat → K) :
    actionLin (linearPairs Nv nt nq f vb w dx vdofs) v
      = ∑ k ∈ Finset.range nt, ∑ q ∈ Finset.range nq,
          f (interp Nv v vdofs vb k q) (w k q) * dx k q := by
  have key : ∀ k q, f (interp Nv v vdofs vb k q) (w k q)
      = ∑ i ∈ Finset.range Nv, v (vdofs i k) * f (vb i k q) (w k q) := by
    intro k q
    rw [C01_interp_eq_sum]
    exact map_sum_smul_of_linear (fun b => f b (w k q))
      (fun b b' => hf.add b b' _) (fun c b => hf.smul c b _) (hf.zero _)
      Nv (fun i => v (vdofs i k)) (fun i => vb i k q)
  rw [actionLin_linearPairs]
  simp only [kernelLin_eq_sum, key]
  exact linear_sum_reorder Nv nt nq (fun i k q => f (vb i k q) (w k q))
    (fun i k => v (vdofs i k)) dx

/-- **s = J**: the functional is the quadrature sum of the integrand -/
theorem C01_functional_eq (nt nq : Nat) (f : Sample K → K) (w : Nat → Nat → Sample K)
    (dx : Nat → Nat → K) :
    functionalValue nt nq f w dx
      = ∑ k ∈ Finset.range nt, ∑ q ∈ Finset.range nq, f (w k q) * dx k q := by
  unfold functionalValue
  rw [sum_map_range]
  exact Finset.sum_congr rfl (fun k _ => sum_map_range nq _)

/-- packing of the interpolated trial field, test field and the parameters into ONE parameter
    sample, the way a `Functional` receives them through `w` -/
def pack3 (a b w : Sample K) : Sample K :=
  fun c => if c % 3 = 0 then a (c / 3) else if c % 3 = 1 then b (c / 3) else w (c / 3)

def unpack (r : Nat) (s : Sample K) : Sample K := fun c => s (3 * c + r)

omit [CommRing K] in
theorem unpack_zero_pack3 (a b w : Sample K) : unpack 0 (pack3 a b w) = a := by
  funext c
  have h1 : (3 * c + 0) % 3 = 0 := by omega
  have h2 : (3 * c + 0) / 3 = c := by omega
  simp only [unpack, pack3, h1, h2, if_true]

omit [CommRing K] in
theorem unpack_one_pack3 (a b w : Sample K) : unpack 1 (pack3 a b w) = b := by
  funext c
  have h1 : (3 * c + 1) % 3 = 1 := by omega
  have h2 : (3 * c + 1) / 3 = c := by omega
  simp [unpack, pack3, h1, h2]

omit [CommRing K] in
theorem unpack_two_pack3 (a b w : Sample K) : unpack 2 (pack3 a b w) = w := by
  funext c
  have h1 : (3 * c + 2) % 3 = 2 := by omega
  have h2 : (3 * c + 2) / 3 = c := by omega
  simp [unpack, pack3, h1, h2]

/-- **the three form types are mutually consistent**: `vᵀ A u` equals the *functional* whose
    integrand is the same `f` applied to the interpolated coefficient vectors (handed over as
    extra parameters). -/
theorem C01_three_forms_consistent (Nu Nv nt nq : Nat) (f : Sample K → Sample K → Sample K → K)
    (hf : IsBilinear f)
    (ub vb : BasisData K) (w : Nat → Nat → Sample K) (dx : Nat → Nat → K)
    (udofs vdofs : Nat → Nat → Nat) (u v : Nat → K) :
    actionBil (bilinearTriplets Nu Nv nt nq f ub vb w dx udofs vdofs) u v
      = functionalValue nt nq
          (fun s => f (unpack 0 s) (unpack 1 s) (unpack 2 s))
          (fun k q => pack3 (interp Nu u udofs ub k q) (interp Nv v vdofs vb k q) (w k q)) dx := by
  rw [C01_bilinear_represents Nu Nv nt nq f hf, C01_functional_eq]
  simp only [unpack_zero_pack3, unpack_one_pack3, unpack_two_pack3]

/-- the same for linear forms: `bᵀ v` equals the functional of `l` on the interpolated `v` -/
theorem C01_linear_functional_consistent (Nv nt nq : Nat) (f : Sample K → Sample K → K)
    (hf : IsLinear f)
    (vb : BasisData K) (w : Nat → Nat → Sample K) (dx : Nat → Nat → K)
    (vdofs : Nat → Nat → Nat) (v : Nat → K) :
    actionLin (linearPairs Nv nt nq f vb w dx vdofs) v
      = functionalValue nt nq
          (fun s => f (unpack 1 s) (unpack 2 s))
          (fun k q => pack3 0 (interp Nv v vdofs vb k q) (w k q)) dx := by
  rw [C01_linear_represents Nv nt nq f hf, C01_functional_eq]
  simp only [unpack_one_pack3, unpack_two_pack3]

/-- the dense matrix has the sum of the matching triplets in each entry, and `vᵀ A u` computed
    from the dense entries (rows `< Nr`, columns `< Nc`) equals the triplet sum, provided all
    triplet indices are in range (shape `(N_test, N_trial)`) -/
theorem C01_coo_dense (T : List (Nat × Nat × K)) (Nr Nc : Nat)
    (hT : ∀ t ∈ T, t.1 < Nr ∧ t.2.1 < Nc) (u v : Nat → K) :
    actionBil T u v
      = ∑ r ∈ Finset.range Nr, ∑ c ∈ Finset.range Nc, v r * denseEntry T r c * u c := by
  exact actionBil_eq_dense T Nr Nc hT u v

/-- triplets with value zero do not change any dense entry (`eliminate_zeros` is harmless) -/
theorem C01_drop_zeros (T : List (Nat × Nat × K)) [DecidableEq K] (r c : Nat) :
    denseEntry (T.filter (fun t => t.2.2 ≠ 0)) r c = denseEntry T r c := by
  exact denseEntry_filter_ne_zero T r c

/-- a matrix entry can be nonzero only if the two DOFs occur together in an integrated cell -/
theorem C01_sparsity (Nu Nv nt nq : Nat) (f : Sample K → Sample K → Sample K → K)
    (ub vb : BasisData K) (w : Nat → Nat → Sample K) (dx : Nat → Nat → K)
    (udofs vdofs : Nat → Nat → Nat) (r c : Nat)
    (h : denseEntry (bilinearTriplets Nu Nv nt nq f ub vb w dx udofs vdofs) r c ≠ 0) :
    ∃ k < nt, (∃ i < Nv, vdofs i k = r) ∧ (∃ j < Nu, udofs j k = c) := by
  obtain ⟨t, ht, hr, hc⟩ := exists_mem_of_denseEntry_ne_zero _ r c h
  unfold bilinearTriplets at ht
  simp only [List.mem_flatMap, List.mem_map, List.mem_range] at ht
  obtain ⟨j, hj, i, hi, k, hk, rfl⟩ := ht
  exact ⟨k, hk, ⟨i, hi, hr⟩, ⟨j, hj, hc⟩⟩

/-- the grammar integrands are bilinear (so the theorems above apply to every form the
    correspondence generates) -/
theorem C01_grammar_bilinear (ts : List (Term K)) : IsBilinear (evalForm ts) := by
  induction ts with
  | nil => constructor <;> intros <;> simp [evalForm]
  | cons t ts ih =>
    have hc : ∀ a b w, evalForm (t :: ts) a b w
        = t.coef * a t.uc * b t.vc * w t.wc + evalForm ts a b w := by
      intros; simp [evalForm, Term.eval]
    constructor
    · intro a a' b w
      rw [hc, hc, hc, ih.add_left, Pi.add_apply]; ring
    · intro c a b w
      rw [hc, hc, ih.smul_left, Pi.smul_apply, smul_eq_mul]; ring
    · intro b w
      rw [hc, ih.zero_left, Pi.zero_apply]; ring
    · intro a b b' w
      rw [hc, hc, hc, ih.add_right, Pi.add_apply]; ring
    · intro c a b w
      rw [hc, hc, ih.smul_right, Pi.smul_apply, smul_eq_mul]; ring
    · intro a w
      rw [hc, ih.zero_right, Pi.zero_apply]; ring

theorem C01_grammar_linear (ts : List (Term K)) : IsLinear (evalLinForm ts) := by
  induction ts with
  | nil => constructor <;> intros <;> simp [evalLinForm]
  | cons t ts ih =>
    have hc : ∀ b w, evalLinForm (t :: ts) b w
        = t.coef * b t.vc * w t.wc + evalLinForm ts b w := by
      intros; simp [evalLinForm]
    constructor
    · intro b b' w
      rw [hc, hc, hc, ih.add, Pi.add_apply]; ring
    · intro c b w
      rw [hc, hc, ih.smul, Pi.smul_apply, smul_eq_mul]; ring
    · intro w
      rw [hc, ih.zero, Pi.zero_apply]; ring

/-! ### sums over lists of bases, emission order -/

/-- **`asm` over a list of bases sums the contributions**: concatenating the triplet lists of the
    parts (what `COOData.__add__` / `asm(form, [bases])` do) adds the matrices entry by entry … -/
theorem C01_dense_append (T1 T2 : List (Nat × Nat × K)) (r c : Nat) :
    denseEntry (T1 ++ T2) r c = denseEntry T1 r c + denseEntry T2 r c := by
  simp [denseEntry, List.filter_append, List.map_append, List.sum_append]

theorem C01_denseVec_append (T1 T2 : List (Nat × K)) (r : Nat) :
    denseVecEntry (T1 ++ T2) r = denseVecEntry T1 r + denseVecEntry T2 r := by
  simp [denseVecEntry, List.filter_append, List.map_append, List.sum_append]

/-- … and the bilinear / linear actions -/
theorem C01_action_append (T1 T2 : List (Nat × Nat × K)) (u v : Nat → K) :
    actionBil (T1 ++ T2) u v = actionBil T1 u v + actionBil T2 u v := by
  simp [actionBil, List.map_append, List.sum_append]

theorem C01_actionLin_append (T1 T2 : List (Nat × K)) (v : Nat → K) :
    actionLin (T1 ++ T2) v = actionLin T1 v + actionLin T2 v := by
  simp [actionLin, List.map_append, List.sum_append]

/-- the order in which triplets are emitted (cell order, pair order, thread schedule) is
    irrelevant for every entry of the assembled matrix -/
theorem C01_dense_perm (T1 T2 : List (Nat × Nat × K)) (h : T1.Perm T2) (r c : Nat) :
    denseEntry T1 r c = denseEntry T2 r c := by
  unfold denseEntry
  exact ((h.filter _).map _).sum_eq

/-- a whole list of parts: the dense entry of the joined triplets is the sum over the parts -/
theorem C01_dense_flatten (Ts : List (List (Nat × Nat × K))) (r c : Nat) :
    denseEntry Ts.flatten r c = (Ts.map (fun T => denseEntry T r c)).sum := by
  induction Ts with
  | nil => simp [denseEntry]
  | cons T Ts ih => rw [List.flatten_cons, C01_dense_append, ih]; simp

end Skv.C01
