import SkfemVerif.Model.Assembly
import SkfemVerif.Lemmas.Np
import SkfemVerif.Lemmas.Threads
import Mathlib.Data.List.Nodup
/-
C16  Threaded assembly equals serial assembly under every schedule.

Model: `pairList`, `threadChunks` (= `np.array_split(indices, nthreads)`), `Interleaving`
(every interleaving of the workers' kernel invocations), `runSchedule` (Model/Assembly.lean).
Tie: correspondence op `np.array_split` / `threads.chunks` (exact) and observation of the
(owner thread, order) of kernel invocations from inside the integrand.
-/
namespace Skv.C16
open Skv

/-- `np.array_split` returns exactly `n` chunks (also when `n` exceeds the number of items) -/
theorem C16_split_length {β : Type} (l : List β) (n : Nat) : (arraySplit l n).length = n := by
  exact length_arraySplit l n

/-- the chunks, concatenated, are the original list: nothing lost, nothing duplicated, order kept -/
theorem C16_split_join {β : Type} (l : List β) (n : Nat) (hn : 0 < n) :
    (arraySplit l n).flatten = l := by
  exact flatten_arraySplit l n hn

/-- every local index pair occurs exactly once in the work list -/
theorem C16_pairList_nodup (Nu Nv : Nat) : (pairList Nu Nv).Nodup := by
  exact nodup_pairList Nu Nv

theorem C16_mem_pairList (Nu Nv i j : Nat) : (i, j) ∈ pairList Nu Nv ↔ i < Nv ∧ j < Nu := by
  exact mem_pairList Nu Nv i j

/-- an interleaving executes exactly the items of the worker sequences (as a permutation) -/
theorem C16_interleaving_perm {α : Type} (ws : List (List α)) (s : List α)
    (h : Interleaving ws s) : s.Perm ws.flatten := by
  exact interleaving_perm h

/-- **each pair computed exactly once** under every schedule -/
theorem C16_each_pair_once (Nu Nv n : Nat) (hn : 0 < n) (s : List (Nat × Nat))
    (h : Interleaving (threadChunks Nu Nv n) s) :
    s.Nodup ∧ ∀ p, p ∈ s ↔ p ∈ pairList Nu Nv := by
  have hp : s.Perm (pairList Nu Nv) := by
    have := interleaving_perm h
    rwa [threadChunks, flatten_arraySplit _ _ hn] at this
  exact ⟨hp.nodup_iff.mpr (nodup_pairList Nu Nv), fun p => hp.mem_iff⟩

/-- the serial loop is one particular schedule -/
theorem C16_serial_is_schedule (Nu Nv : Nat) :
    Interleaving [pairList Nu Nv] (pairList Nu Nv) := by
  exact interleaving_singleton _

/-- **threaded = serial**: for every number of workers `n > 0` (also `n > Nu * Nv`), every
    interleaving `s` of the workers and every kernel (a function of the slot only: purity of the
    integrand is the hypothesis), the final output array equals the serial one, slot by slot. -/
theorem C16_threaded_eq_serial {V : Type} (Nu Nv n : Nat) (hn : 0 < n) (kernel : Nat × Nat → V)
    (init : Nat × Nat → V) (s : List (Nat × Nat))
    (h : Interleaving (threadChunks Nu Nv n) s) :
    runSchedule kernel s init = runSchedule kernel (pairList Nu Nv) init := by
  have hp : s.Perm (pairList Nu Nv) := by
    have := interleaving_perm h
    rwa [threadChunks, flatten_arraySplit _ _ hn] at this
  funext p
  rw [runSchedule_apply, runSchedule_apply]
  have : p ∈ s ↔ p ∈ pairList Nu Nv := hp.mem_iff
  by_cases hm : p ∈ s
  · rw [if_pos hm, if_pos (this.mp hm)]
  · rw [if_neg hm, if_neg (fun h' => hm (this.mpr h'))]

/-- the final array holds `kernel (i, j)` in every slot of the local matrix and is untouched
    elsewhere -/
theorem C16_final_value {V : Type} (Nu Nv : Nat) (kernel : Nat × Nat → V) (init : Nat × Nat → V)
    (p : Nat × Nat) :
    runSchedule kernel (pairList Nu Nv) init p = if p ∈ pairList Nu Nv then kernel p else init p := by
  exact runSchedule_apply kernel _ init p

/-- the flat slot map `(i, j, k) ↦ nt * (Nv * j + i) + k` is injective on the index box
    (rectangular local matrices included): distinct invocations write disjoint memory -/
theorem C16_flatSlot_injective (Nv nt i j k i' j' k' : Nat)
    (hi : i < Nv) (hi' : i' < Nv) (hk : k < nt) (hk' : k' < nt)
    (h : flatSlot Nv nt i j k = flatSlot Nv nt i' j' k') : i = i' ∧ j = j' ∧ k = k' := by
  unfold flatSlot at h
  obtain ⟨h1, h2⟩ := mul_add_inj nt _ k _ k' hk hk' h
  obtain ⟨h3, h4⟩ := mul_add_inj Nv j i j' i' hi hi' h1
  exact ⟨h4, h3, h2⟩

/-- **workers write disjoint parts**: the chunks handed to the workers are pairwise disjoint and
    each is free of repetitions, for every thread count -/
theorem C16_chunks_disjoint (Nu Nv n : Nat) (hn : 0 < n) :
    (threadChunks Nu Nv n).Pairwise List.Disjoint ∧ ∀ c ∈ threadChunks Nu Nv n, c.Nodup := by
  have h : (threadChunks Nu Nv n).flatten.Nodup := by
    rw [threadChunks, flatten_arraySplit _ _ hn]; exact nodup_pairList Nu Nv
  rw [List.nodup_flatten] at h
  exact ⟨h.2, h.1⟩

/-- the work list has `Nu * Nv` items -/
theorem C16_length_pairList (Nu Nv : Nat) : (pairList Nu Nv).length = Nu * Nv := by
  unfold pairList
  induction Nu with
  | zero => simp
  | succ k ih => rw [List.range_succ, List.flatMap_append, List.length_append, ih]; simp [Nat.succ_mul]

/-- `np.array_split` sizes differ by at most one (`len / n` or `len / n + 1`) -/
theorem C16_sizes_balanced (len n : Nat) :
    ∀ s ∈ arraySplitSizes len n, s = len / n ∨ s = len / n + 1 := by
  intro s hs
  simp only [arraySplitSizes, List.mem_map, List.mem_range] at hs
  obtain ⟨i, _, rfl⟩ := hs
  split <;> simp

/-- the chunks have exactly the `np.array_split` sizes -/
theorem C16_chunk_lengths {β : Type} (l : List β) (n : Nat) (hn : 0 < n) :
    (arraySplit l n).map List.length = arraySplitSizes l.length n := by
  unfold arraySplit
  exact map_length_splitBySizes _ _ (by rw [sum_arraySplitSizes _ _ hn]; exact Nat.le_refl _)

/-- **more threads than local index pairs**: every worker gets at most one pair (the surplus
    workers get none) -/
theorem C16_more_threads_than_pairs (Nu Nv n : Nat) (hn : Nu * Nv < n) :
    ∀ c ∈ threadChunks Nu Nv n, c.length ≤ 1 := by
  intro c hc
  have hn0 : 0 < n := by omega
  have hl := C16_chunk_lengths (pairList Nu Nv) n hn0
  have : c.length ∈ (threadChunks Nu Nv n).map List.length := List.mem_map_of_mem hc
  rw [threadChunks, hl, C16_length_pairList] at this
  rcases C16_sizes_balanced _ _ _ this with h | h <;> rw [h, Nat.div_eq_of_lt hn] <;> omega

/-- the workers together perform exactly `Nu * Nv` kernel invocations -/
theorem C16_total_work (Nu Nv n : Nat) (hn : 0 < n) :
    ((threadChunks Nu Nv n).map List.length).sum = Nu * Nv := by
  rw [threadChunks, C16_chunk_lengths _ _ hn, sum_arraySplitSizes _ _ hn, C16_length_pairList]

/-- every write lands inside the flattened output block of `Nu * Nv * nt` entries -/
theorem C16_flatSlot_bound (Nu Nv nt i j k : Nat) (hi : i < Nv) (hj : j < Nu) (hk : k < nt) :
    flatSlot Nv nt i j k < Nu * Nv * nt := by
  unfold flatSlot
  have h1 : Nv * j + i + 1 ≤ Nv * Nu := by
    have : Nv * (j + 1) ≤ Nv * Nu := Nat.mul_le_mul_left Nv hj
    rw [Nat.mul_add, Nat.mul_one] at this
    omega
  have h2 : nt * (Nv * j + i + 1) ≤ nt * (Nv * Nu) := Nat.mul_le_mul_left nt h1
  have h3 : nt * (Nv * j + i + 1) = nt * (Nv * j + i) + nt := by rw [Nat.mul_add, Nat.mul_one]
  have h4 : Nu * Nv * nt = nt * (Nv * Nu) := by rw [Nat.mul_comm Nu Nv, Nat.mul_comm]
  omega

/-- the same for ANY way of dealing the pairs to the workers (contiguous chunks, round-robin, …):
    as long as the workers' lists together are a rearrangement of the pair list, every interleaving
    reproduces the serial result — the split strategy is free, the partition property is not -/
theorem C16_any_partition_eq_serial {V : Type} (Nu Nv : Nat) (ws : List (List (Nat × Nat)))
    (hws : ws.flatten.Perm (pairList Nu Nv)) (kernel : Nat × Nat → V)
    (init : Nat × Nat → V) (s : List (Nat × Nat)) (h : Interleaving ws s) :
    runSchedule kernel s init = runSchedule kernel (pairList Nu Nv) init := by
  have hp : s.Perm (pairList Nu Nv) := (interleaving_perm h).trans hws
  funext p
  rw [runSchedule_apply, runSchedule_apply]
  have : p ∈ s ↔ p ∈ pairList Nu Nv := hp.mem_iff
  by_cases hm : p ∈ s
  · rw [if_pos hm, if_pos (this.mp hm)]
  · rw [if_neg hm, if_neg (fun h' => hm (this.mpr h'))]

/-- conversely a split that loses a pair (as a worker cap computed from the wrong size does) leaves
    that slot at its initial value under every schedule -/
theorem C16_lost_pair_not_computed {V : Type} (ws : List (List (Nat × Nat))) (kernel : Nat × Nat → V)
    (init : Nat × Nat → V) (s : List (Nat × Nat)) (h : Interleaving ws s) (p : Nat × Nat)
    (hp : p ∉ ws.flatten) : runSchedule kernel s init p = init p := by
  rw [runSchedule_apply]
  have : p ∉ s := fun hm => hp ((interleaving_perm h).mem_iff.mp hm)
  rw [if_neg this]

/-- non-vacuity: 2×3 local matrix, 4 workers -/
example : threadChunks 2 3 4 = [[(0,0),(1,0)], [(2,0),(0,1)], [(1,1)], [(2,1)]] := by decide
example : threadChunks 1 1 3 = [[(0,0)], [], []] := by decide

end Skv.C16
