import SkfemVerif.Model.Integration
import SkfemVerif.Model.Poly
import SkfemVerif.Props.C01
import SkfemVerif.Props.C08
import SkfemVerif.Gen.ShapeFacts
import SkfemVerif.Lemmas.Integration
import Mathlib.Algebra.MvPolynomial.Degrees
import Mathlib.Algebra.MvPolynomial.Monad
import Mathlib.Tactic.Ring
import Mathlib.Tactic.Linarith
import Mathlib.Tactic.NormNum
/-
C02  Integration is exact for polynomial data on cells and facets.

Composition of: C08 (the reference rules are exact for ALL polynomials of the advertised degree),
C01 (what assembly computes from `basis` and `dx`), C09 (shape polynomials, degrees) and the
bookkeeping `dx = |det| · W` of Model/Integration.lean (tied by the correspondence op `c02.dx`).
"The exact integral over a cell" is, as in the statement of the property, the pull-back
`|det A| · ∫_ref (p ∘ F)`; the monomial integrals over the reference cells are those of C08.
-/
namespace Skv.C02
open Skv Skv.C08

/-! ### the integration weights -/

theorem C02_cellDx_entry (absdet W : List ℚ) (k q : Nat) (hk : k < absdet.length) (hq : q < W.length) :
    ((cellDx absdet W).getD k []).getD q 0 = absdet.getD k 0 * W.getD q 0 := by
  exact cellDx_getD absdet W k q hk hq

/-! ### orientation / numbering / motion independence of `|det|` -/

/-- swapping two vertices of a triangle flips the sign of the determinant (the three transpositions
    generate all vertex orders), hence `|det|` does not depend on the local vertex order -/
theorem C02_det2_swap (a b c : ℚ × ℚ) :
    det2 b a c = - det2 a b c ∧ det2 a c b = - det2 a b c ∧ det2 c b a = - det2 a b c := by
  refine ⟨?_, ?_, ?_⟩ <;> (unfold det2; ring)

theorem C02_abs_det2_perm (a b c : ℚ × ℚ) :
    |det2 b a c| = |det2 a b c| ∧ |det2 a c b| = |det2 a b c| ∧ |det2 c b a| = |det2 a b c|
      ∧ |det2 b c a| = |det2 a b c| ∧ |det2 c a b| = |det2 a b c| := by
  obtain ⟨h1, h2, h3⟩ := C02_det2_swap a b c
  have h4 : det2 b c a = det2 a b c := by unfold det2; ring
  have h5 : det2 c a b = det2 a b c := by unfold det2; ring
  rw [h1, h2, h3, h4, h5, abs_neg]
  exact ⟨rfl, rfl, rfl, rfl, rfl⟩

theorem C02_det3_swap (a b c d : ℚ × ℚ × ℚ) :
    det3 b a c d = - det3 a b c d ∧ det3 a c b d = - det3 a b c d ∧ det3 a b d c = - det3 a b c d := by
  refine ⟨?_, ?_, ?_⟩ <;> (simp only [det3]; ring)

/-- translation invariance -/
theorem C02_det2_translate (a b c s : ℚ × ℚ) :
    det2 (a.1 + s.1, a.2 + s.2) (b.1 + s.1, b.2 + s.2) (c.1 + s.1, c.2 + s.2) = det2 a b c := by
  unfold det2; ring

/-- a reflection of one coordinate or the exchange of the two coordinates flips the sign only:
    mirrored meshes have the same `|det|` -/
theorem C02_det2_reflect (a b c : ℚ × ℚ) :
    det2 (-a.1, a.2) (-b.1, b.2) (-c.1, c.2) = - det2 a b c
    ∧ det2 (a.2, a.1) (b.2, b.1) (c.2, c.1) = - det2 a b c := by
  refine ⟨?_, ?_⟩ <;> (unfold det2; ring)

theorem C02_det3_translate (a b c d s : ℚ × ℚ × ℚ) :
    det3 (a.1 + s.1, a.2.1 + s.2.1, a.2.2 + s.2.2) (b.1 + s.1, b.2.1 + s.2.1, b.2.2 + s.2.2)
         (c.1 + s.1, c.2.1 + s.2.1, c.2.2 + s.2.2) (d.1 + s.1, d.2.1 + s.2.1, d.2.2 + s.2.2)
      = det3 a b c d := by
  simp only [det3]; ring

/-- **every affine motion**: under `x ↦ L x + s` with `L = [[l00, l01], [l10, l11]]` the determinant
    is multiplied by `det L`; rotations, reflections, shears with `|det L| = 1` keep `|det|`, a
    scaling by `λ` multiplies it by `λ²` -/
theorem C02_det2_linear (a b c s : ℚ × ℚ) (l00 l01 l10 l11 : ℚ) :
    det2 (l00 * a.1 + l01 * a.2 + s.1, l10 * a.1 + l11 * a.2 + s.2)
         (l00 * b.1 + l01 * b.2 + s.1, l10 * b.1 + l11 * b.2 + s.2)
         (l00 * c.1 + l01 * c.2 + s.1, l10 * c.1 + l11 * c.2 + s.2)
      = (l00 * l11 - l01 * l10) * det2 a b c := by
  unfold det2; ring

/-- an orthogonal matrix (`LᵀL = I`: any rotation or reflection, rational entries) has
    `|det L| = 1` -/
theorem C02_orthogonal2_det (l00 l01 l10 l11 : ℚ)
    (h0 : l00 * l00 + l10 * l10 = 1) (h1 : l01 * l01 + l11 * l11 = 1)
    (h2 : l00 * l01 + l10 * l11 = 0) : |l00 * l11 - l01 * l10| = 1 := by
  have hsq : (l00 * l11 - l01 * l10) ^ 2 = 1 := by
    have : (l00 * l11 - l01 * l10) ^ 2
        = (l00 * l00 + l10 * l10) * (l01 * l01 + l11 * l11) - (l00 * l01 + l10 * l11) ^ 2 := by ring
    rw [this, h0, h1, h2]; ring
  have : |l00 * l11 - l01 * l10| ^ 2 = 1 := by rw [sq_abs]; exact hsq
  have hnn : 0 ≤ |l00 * l11 - l01 * l10| := abs_nonneg _
  nlinarith [this, hnn]

/-- **rigid motion invariance of `|det|`** for every rational rotation/reflection and translation -/
theorem C02_abs_det2_rigid (a b c s : ℚ × ℚ) (l00 l01 l10 l11 : ℚ)
    (h0 : l00 * l00 + l10 * l10 = 1) (h1 : l01 * l01 + l11 * l11 = 1)
    (h2 : l00 * l01 + l10 * l11 = 0) :
    |det2 (l00 * a.1 + l01 * a.2 + s.1, l10 * a.1 + l11 * a.2 + s.2)
          (l00 * b.1 + l01 * b.2 + s.1, l10 * b.1 + l11 * b.2 + s.2)
          (l00 * c.1 + l01 * c.2 + s.1, l10 * c.1 + l11 * c.2 + s.2)| = |det2 a b c| := by
  rw [C02_det2_linear, abs_mul, C02_orthogonal2_det l00 l01 l10 l11 h0 h1 h2, one_mul]

/-- three dimensions: under `x ↦ L x + s` the determinant is multiplied by `det L` -/
theorem C02_det3_linear (a b c d s : ℚ × ℚ × ℚ) (l00 l01 l02 l10 l11 l12 l20 l21 l22 : ℚ) :
    let T := fun (p : ℚ × ℚ × ℚ) =>
      (l00 * p.1 + l01 * p.2.1 + l02 * p.2.2 + s.1, l10 * p.1 + l11 * p.2.1 + l12 * p.2.2 + s.2.1,
       l20 * p.1 + l21 * p.2.1 + l22 * p.2.2 + s.2.2)
    det3 (T a) (T b) (T c) (T d)
      = (l00 * (l11 * l22 - l12 * l21) - l01 * (l10 * l22 - l12 * l20) + l02 * (l10 * l21 - l11 * l20))
          * det3 a b c d := by
  simp only [det3]; ring

/-- non-vacuity: the 3-4-5 rotation is a rational rigid motion -/
example : |det2 ((3/5 : ℚ) * 1 + (-4/5) * 0 + 2, (4/5) * 1 + (3/5) * 0 + 7)
                ((3/5 : ℚ) * 0 + (-4/5) * 1 + 2, (4/5) * 0 + (3/5) * 1 + 7)
                ((3/5 : ℚ) * 0 + (-4/5) * 0 + 2, (4/5) * 0 + (3/5) * 0 + 7)| = |det2 (1, 0) (0, 1) (0, 0)| := by
  have := C02_abs_det2_rigid (1, 0) (0, 1) (0, 0) (2, 7) (3/5) (-4/5) (4/5) (3/5)
    (by norm_num) (by norm_num) (by norm_num)
  simpa using this

/-! ### sums over cells: subsets, order, refinement-style partitions -/

section Sums
variable {K : Type} [CommRing K]

/-- the discrete integral over a union of cell lists is the sum (subdomains, facet sets) -/
theorem C02_integral_append (c1 c2 : List Nat) (nq : Nat) (g dx : Nat → Nat → K) :
    discreteIntegral (c1 ++ c2) nq g dx = discreteIntegral c1 nq g dx + discreteIntegral c2 nq g dx := by
  unfold discreteIntegral
  rw [List.map_append, List.sum_append]

/-- … and does not depend on the order in which the cells are listed -/
theorem C02_integral_perm (c1 c2 : List Nat) (h : c1.Perm c2) (nq : Nat) (g dx : Nat → Nat → K) :
    discreteIntegral c1 nq g dx = discreteIntegral c2 nq g dx := by
  unfold discreteIntegral
  exact (h.map _).sum_eq

/-- the functional computed by assembly (C01 model) IS the discrete integral over all cells -/
theorem C02_functional_is_integral (nt nq : Nat) (f : Sample K → K) (w : Nat → Nat → Sample K)
    (dx : Nat → Nat → K) :
    functionalValue nt nq f w dx = discreteIntegral (List.range nt) nq (fun k q => f (w k q)) dx := by
  rfl

/-- **mass matrix of a partition-of-unity basis sums to the measure**: if the values of the basis
    functions (component 0) sum to one at every quadrature point of every cell, the sum of ALL
    entries of the assembled mass matrix (= 1ᵀ M 1) equals `Σ_k Σ_q dx` -/
theorem C02_mass_sums_to_measure (Nb nt nq : Nat) (b : BasisData K) (w : Nat → Nat → Sample K)
    (dx : Nat → Nat → K) (dofs : Nat → Nat → Nat)
    (hpou : ∀ k < nt, ∀ q < nq, ∑ j ∈ Finset.range Nb, b j k q 0 = 1) :
    actionBil (bilinearTriplets Nb Nb nt nq (fun u v _ => u 0 * v 0) b b w dx dofs dofs)
        (fun _ => 1) (fun _ => 1)
      = ∑ k ∈ Finset.range nt, ∑ q ∈ Finset.range nq, dx k q := by
  have hf : C01.IsBilinear (fun (u v _w : Sample K) => u 0 * v 0) := by
    constructor
    · intro a a' b w; simp only [Pi.add_apply]; ring
    · intro c a b w; simp only [Pi.smul_apply, smul_eq_mul]; ring
    · intro b w; simp only [Pi.zero_apply]; ring
    · intro a b b' w; simp only [Pi.add_apply]; ring
    · intro c a b w; simp only [Pi.smul_apply, smul_eq_mul]; ring
    · intro a w; simp only [Pi.zero_apply]; ring
  rw [C01.C01_bilinear_represents Nb Nb nt nq _ hf]
  refine Finset.sum_congr rfl (fun k hk => Finset.sum_congr rfl (fun q hq => ?_))
  have h1 : interp Nb (fun _ => (1 : K)) dofs b k q 0 = 1 := by
    unfold interp
    rw [sum_map_range]
    simpa using hpou k (Finset.mem_range.mp hk) q (Finset.mem_range.mp hq)
  simp only [h1, one_mul]

end Sums

/-! ### exactness on an affine cell -/

/-- **affine cell, any orientation**: with `dx = D · w_q` (`D = |det A| ≥ 0`) and a rule accepted for
    total degree `n`, the cell integral of ANY pulled-back polynomial `q = p ∘ F` of degree ≤ `n`
    differs from `D · ∫_ref q` by at most `D · ‖q‖₁ / 2^tol` -/
theorem C02_affine_cell_exact (r : IRule) (d n tol : Nat) (hdim : ∀ p ∈ r.pts, p.1.length = d)
    (h : okAllSimplex r d n tol = true) (q : QPoly) (hq : ∀ t ∈ q, t.2.length = d ∧ t.2.sum ≤ n)
    (D : ℚ) (hD : 0 ≤ D) :
    |D * applyFun r (evalPoly q) - D * exactPolySimplex q| ≤ D * (l1 q / 2 ^ tol) := by
  exact scaled_abs_le hD (C08_lift_simplex r d n tol hdim h q hq)

/-- the same for tensor-product cells (degree ≤ `n` per direction) -/
theorem C02_box_cell_exact (r : IRule) (d n tol : Nat) (hdim : ∀ p ∈ r.pts, p.1.length = d)
    (h : okAllBox r d n tol = true) (q : QPoly) (hq : ∀ t ∈ q, t.2.length = d ∧ ∀ a ∈ t.2, a ≤ n)
    (D : ℚ) (hD : 0 ≤ D) :
    |D * applyFun r (evalPoly q) - D * exactPolyBox q| ≤ D * (l1 q / 2 ^ tol) := by
  exact scaled_abs_le hD (C08_lift_box r d n tol hdim h q hq)

/-- the constant function: every tabulated triangle rule of every order gives the measure
    `D / 2` of the cell within `D / 2^40` -/
theorem C02_tri_measure (n : Int) (r : IRule) (h : lookupTri Gen.triTable n = some r) (D : ℚ) (hD : 0 ≤ D) :
    |D * ((r.pts.map (fun p => (p.2 : ℚ) / 2 ^ r.SW)).sum) - D / 2| ≤ D / 2 ^ Gen.quadTol := by
  have hw := (C08_tri_all_orders n r h).2.2.1
  have h1 := weightsOk_sound r 1 2 Gen.quadTol (by decide) hw
  have h2 := scaled_abs_le hD h1
  have e1 : D * (((1 : Nat) : ℚ) / ((2 : Nat) : ℚ)) = D / 2 := by push_cast; ring
  have e2 : D * (1 / 2 ^ Gen.quadTol) = D / 2 ^ Gen.quadTol := by ring
  rwa [e1, e2] at h2

/-! ### pull-back preserves the degree (so "degree ≤ order on the cell" means the same on the reference cell) -/

/-- substituting polynomials of total degree ≤ 1 (an affine map) for the variables does not raise the
    total degree -/
theorem C02_affine_degree {d e : Nat} (p : MvPolynomial (Fin d) ℚ) (g : Fin d → MvPolynomial (Fin e) ℚ)
    (hg : ∀ i, (g i).totalDegree ≤ 1) :
    (MvPolynomial.bind₁ g p).totalDegree ≤ p.totalDegree := by
  exact totalDegree_bind₁_le_of_affine p g hg

/-! ### default integration order `2 · maxdeg` -/

/-- the product of polynomials of total degree ≤ `n` and ≤ `m` has total degree ≤ `n + m`
    (term-list model; exponent vectors of equal length) -/
theorem C02_degLe_mul (p q : Poly) (n m d : Nat) (hp : Poly.degLe p n = true) (hq : Poly.degLe q m = true)
    (hpd : ∀ t ∈ p, t.2.length = d) (hqd : ∀ t ∈ q, t.2.length = d) :
    Poly.degLe (Poly.mul p q) (n + m) = true := by
  -- the length hypotheses are not needed: `zipWith` truncates, so the degree can only drop
  have _ := hpd; have _ := hqd
  exact degLe_mul p q n m hp hq

/-- **default order suffices for mass matrices**: for every traced element with declared `maxdeg`,
    every product `φ_i φ_j` has total degree ≤ `2 · maxdeg` = the default integration order -/
theorem C02_default_order (E : List Poly × Nat) (hE : E ∈ Gen.Shapes.degElements) (d : Nat)
    (hd : ∀ v ∈ E.1, ∀ t ∈ v, t.2.length = d)
    (i j : Nat) (hi : i < E.1.length) (hj : j < E.1.length) :
    Poly.degLe (Poly.mul (E.1.getD i []) (E.1.getD j [])) (2 * E.2) = true := by
  have _ := hd  -- not needed, see `C02_degLe_mul`
  have hc := Gen.Shapes.degElements_ok E hE
  rw [Nat.two_mul]
  exact degLe_mul _ _ _ _ (checkDeg_getD E.1 E.2 hc i hi) (checkDeg_getD E.1 E.2 hc j hj)

/-- non-vacuity -/
example : det2 (0, 0) (1, 0) (0, 1) = 1 := by decide +kernel
example : det3 (0, 0, 0) (1, 0, 0) (0, 1, 0) (0, 0, 1) = 1 := by decide +kernel
example : cellDx [2, 3] [(1 : Rat) / 2, 1 / 2] = [[1, 1], [3 / 2, 3 / 2]] := by decide +kernel

end Skv.C02
