import SkfemVerif.Lemmas.RefineUniform
import SkfemVerif.Lemmas.RefineGeometry
import SkfemVerif.Lemmas.RefineConform
import SkfemVerif.Lemmas.RefineBoundary
/-
C12  Uniform refinement preserves domain, conformity and named regions.

Model: `Skv.Refine.uniform`, `refinedOnce`, `refined` (Model/RefineUniform.lean) = `Mesh.refined(k)`
and the `_uniform` methods of `MeshLine1`, `MeshTri1`, `MeshQuad1`, `MeshTet1`, `MeshHex1`
(and, through `uniformSecond`, of the second-order classes), with the connectivity tables
`t2f`/`t2e` computed by the C11 model `buildEntities`.  Tie: correspondence ops `refine.uniform`
(`p`, `t`, subdomain and boundary index arrays compared exactly with `m.refined(k)`),
`refine.parents` (against the geometric parents found by the search oracle), `refine.tables`
(reference tables against the live `refdom`).

Unless stated otherwise every theorem holds for EVERY mesh (`MeshData`: any point list, any cell
list, any tags), every cell type and every number of passes; the geometric theorems hold for
arbitrary rational vertex coordinates of the parent (they are polynomial identities, not facts
about the reference cell).

What is NOT formalised here (covered by the search only): the final step from
"children inside the parent ∧ measures add up ∧ interior child facets pair up" to "the children
tile the parent" (standard degree argument), and that the refined facet numbering of segments
keeps the old facet indices (`MeshLine1` keeps `_boundaries` unchanged).
-/
namespace Skv.C12
open Skv Skv.Refine

/-! ## counting, old and new vertices -/

/-- one pass multiplies the number of cells by `2^d` (`nchild` = 2, 4, 4, 8, 8); for tetrahedra
    this uses that the three diagonal masks select every cell exactly once -/
theorem C12_count (kd : Kind) (m : MeshData) :
    (refinedOnce kd m).cells.length = kd.nchild * m.cells.length ∧ kd.nchild = 2 ^ kd.dim :=
  ⟨refinedOnce_cells_length kd m, by cases kd <;> rfl⟩

/-- `k` passes: `2^(d k)` times as many cells -/
theorem C12_iterate_count (kd : Kind) (n : Nat) (m : MeshData) :
    (refined kd n m).cells.length = (2 ^ kd.dim) ^ n * m.cells.length := by
  rw [refined_cells_length]
  cases kd <;> rfl

/-- the old vertices keep index and position: `p` is a prefix of the new point array, after any
    number of passes -/
theorem C12_old_vertices (kd : Kind) (n : Nat) (m : MeshData) :
    ∃ new, (refined kd n m).p = m.p ++ new :=
  refined_p_prefix kd n m

/-- one new vertex per cell (line), facet (tri), facet and cell (quad), edge (tet), edge, face and
    cell (hex) -/
theorem C12_new_vertex_count (m : MeshData) :
    (uniform .line m).p.length = m.p.length + m.cells.length ∧
    (uniform .tri m).p.length = m.p.length + (facetTable .tri m).1.length ∧
    (uniform .quad m).p.length = m.p.length + (facetTable .quad m).1.length + m.cells.length ∧
    (uniform .tet m).p.length = m.p.length + (edgeTable .tet m).1.length ∧
    (uniform .hex m).p.length
      = m.p.length + (edgeTable .hex m).1.length + (facetTable .hex m).1.length + m.cells.length := by
  simp [uniform, newPts, length_midpoints, Nat.add_assoc]

/-- **positions**: every vertex `w` of every new cell (a word over the entities of its parent `k`)
    sits at the mean of the vertices of the parent's entity it is named after — parent vertices
    where they were, `sz + t2f[j][k]` at the midpoint of local facet `j` of cell `k`,
    `sz + t2e[j][k]` at the midpoint of local edge `j`, … — for every mesh whose cell `k` names
    existing vertices -/
theorem C12_new_vertices (kd : Kind) (m : MeshData) (k : Nat) (hk : k < m.cells.length)
    (hv : ∀ v ∈ m.cells.getD k [], v < m.p.length)
    (hlen : (m.cells.getD k []).length = kd.nverts) (w : Src) (hw : w.ok kd = true) :
    (uniform kd m).p.getD ((envOf kd m).num k w) [] = wordPt kd (gather m.p (m.cells.getD k [])) w :=
  uniform_word_pos kd m k hk hv hlen w hw

/-- every word used by a template is covered by `C12_new_vertices` -/
theorem C12_template_words_ok :
    (∀ w ∈ lineT, ∀ x ∈ w, x.ok .line = true) ∧ (∀ w ∈ triT, ∀ x ∈ w, x.ok .tri = true) ∧
    (∀ w ∈ quadT, ∀ x ∈ w, x.ok .quad = true) ∧ (∀ w ∈ hexT, ∀ x ∈ w, x.ok .hex = true) ∧
    (∀ T ∈ tmpls .tet, ∀ w ∈ T, ∀ x ∈ w, x.ok .tet = true) := by
  decide

/-- the new connectivity is the layout realised through the numbering, and the new cell `j` is
    child number `j / nt` of cell `j % nt` for triangles, quadrilaterals and hexahedra
    (`np.hstack` of blocks), child `j % 2` of cell `j / 2` for segments -/
theorem C12_child_layout (m : MeshData) (j : Nat) :
    (j < 4 * m.cells.length → (parentsOf .tri m).getD j 0 = j % m.cells.length) ∧
    (j < 4 * m.cells.length → (parentsOf .quad m).getD j 0 = j % m.cells.length) ∧
    (j < 8 * m.cells.length → (parentsOf .hex m).getD j 0 = j % m.cells.length) ∧
    (j < 2 * m.cells.length → (parentsOf .line m).getD j 0 = j / 2) ∧
    (j < 4 * m.cells.length → (parentsOf .tet m).getD j 0 = j % m.cells.length) := by
  refine ⟨fun h => ?_, fun h => ?_, fun h => ?_, fun h => ?_, fun h => ?_⟩
  · exact parentsOf_block_getD _ triT j (by simpa [triT] using h)
  · exact parentsOf_block_getD _ quadT j (by simpa [quadT] using h)
  · exact parentsOf_block_getD _ hexT j (by simpa [hexT] using h)
  · exact parentsOf_line_getD _ j h
  · simp only [parentsOf, layoutOf, tetMasksOf]; exact tetParents_corner j h

/-- the parent of every new cell is a cell of the old mesh -/
theorem C12_parent_exists (kd : Kind) (m : MeshData) (j : Nat) (hj : j < (refinedOnce kd m).cells.length) :
    (parentsOf kd m).getD j 0 < m.cells.length :=
  parentsOf_lt kd m j (by rw [← refinedOnce_cells_length]; exact hj)

/-- the masks `c1, c2, c3` of `MeshTet1._uniform` select exactly one inner diagonal for every
    triple of lengths (in any linear order: transitivity excludes the two patterns of
    comparisons for which no mask, hence only four children, would result) -/
theorem C12_tet_choice_total (d1 d2 d3 : Rat) :
    ((tetMasks d1 d2 d3).1 = true ∧ (tetMasks d1 d2 d3).2.1 = false ∧ (tetMasks d1 d2 d3).2.2 = false) ∨
    ((tetMasks d1 d2 d3).1 = false ∧ (tetMasks d1 d2 d3).2.1 = true ∧ (tetMasks d1 d2 d3).2.2 = false) ∨
    ((tetMasks d1 d2 d3).1 = false ∧ (tetMasks d1 d2 d3).2.1 = false ∧ (tetMasks d1 d2 d3).2.2 = true) :=
  tetMasks_one d1 d2 d3

/-! ## exact geometry of the templates (arbitrary parent coordinates) -/

/-- segments: both children have half the signed length -/
theorem C12_line_template (a b : Rat) :
    lineT.map (fun w => simplexMeasure .line (childPts .line [[a], [b]] w))
      = [simplexMeasure .line [[a], [b]] / 2, simplexMeasure .line [[a], [b]] / 2] :=
  line_template a b

/-- triangles: the four children have signed area `+1/4, -1/4, +1/4, +1/4` of the parent's -/
theorem C12_tri_template (x0 y0 x1 y1 x2 y2 : Rat) :
    triT.map (fun w => simplexMeasure .tri (childPts .tri [[x0, y0], [x1, y1], [x2, y2]] w))
      = [1, -1, 1, 1].map (fun s => s * simplexMeasure .tri [[x0, y0], [x1, y1], [x2, y2]] / 4) :=
  tri_template x0 y0 x1 y1 x2 y2

/-- tetrahedra: each corner child and each inner child, for all three choices of the inner
    diagonal, has signed volume `± 1/8` of the parent's (signs `tetSigns`) -/
theorem C12_tet_template (x0 y0 z0 x1 y1 z1 x2 y2 z2 x3 y3 z3 : Rat) :
    [tetCornerT, tetMidT 0, tetMidT 1, tetMidT 2].map (fun T => T.map (fun w =>
        simplexMeasure .tet (childPts .tet [[x0, y0, z0], [x1, y1, z1], [x2, y2, z2], [x3, y3, z3]] w)))
      = tetSigns.map (fun r => r.map (fun s =>
          s * simplexMeasure .tet [[x0, y0, z0], [x1, y1, z1], [x2, y2, z2], [x3, y3, z3]] / 8)) :=
  tet_template x0 y0 z0 x1 y1 z1 x2 y2 z2 x3 y3 z3

/-- **measures add up** (simplices): the absolute measures of the children sum to the parent's;
    by the template theorems no child is degenerate unless the parent is -/
theorem C12_simplex_measures_add :
    (∀ a b : Rat, (lineT.map (fun w => |simplexMeasure .line (childPts .line [[a], [b]] w)|)).sum
      = |simplexMeasure .line [[a], [b]]|) ∧
    (∀ x0 y0 x1 y1 x2 y2 : Rat,
      (triT.map (fun w => |simplexMeasure .tri (childPts .tri [[x0, y0], [x1, y1], [x2, y2]] w)|)).sum
        = |simplexMeasure .tri [[x0, y0], [x1, y1], [x2, y2]]|) ∧
    (∀ (x0 y0 z0 x1 y1 z1 x2 y2 z2 x3 y3 z3 : Rat) (ch : Nat),
      ((tetCornerT ++ tetMidT ch).map (fun w => |simplexMeasure .tet
          (childPts .tet [[x0, y0, z0], [x1, y1, z1], [x2, y2, z2], [x3, y3, z3]] w)|)).sum
        = |simplexMeasure .tet [[x0, y0, z0], [x1, y1, z1], [x2, y2, z2], [x3, y3, z3]]|) :=
  ⟨line_measures_add, tri_measures_add, tet_measures_add⟩

/-- quadrilaterals: the bilinear map of child `i` is the parent's bilinear map restricted to the
    quarter `(ξ + r_i) / 2` of the reference square (`r_i` = reference coordinates of vertex `i`):
    the four children are the images of the four quarters, with the parent's orientation and
    `det J_child(ξ) = det J_parent((ξ + r_i)/2) / 4` -/
theorem C12_quad_restrict (x0 y0 x1 y1 x2 y2 x3 y3 ξ η : Rat) (c : Nat) (hc : c < 2) :
    quadT.map (fun w => multilin quadRefP (childPts .quad [[x0, y0], [x1, y1], [x2, y2], [x3, y3]] w) c [ξ, η])
      = quadRefP.map (fun r => multilin quadRefP [[x0, y0], [x1, y1], [x2, y2], [x3, y3]] c (subBox r [ξ, η])) :=
  quad_restrict x0 y0 x1 y1 x2 y2 x3 y3 ξ η c hc

/-- hexahedra: the trilinear map of child `i` is the parent's trilinear map restricted to the
    octant `(ξ + r_i) / 2` of the reference cube — also for non-planar faces.  Hence the eight
    children are the images of the eight octants: they tile the parent, lie inside it, are not
    inverted relative to it, and `det J_child(ξ) = det J_parent((ξ + r_i)/2) / 8`. -/
theorem C12_hex_restrict
    (x0 y0 z0 x1 y1 z1 x2 y2 z2 x3 y3 z3 x4 y4 z4 x5 y5 z5 x6 y6 z6 x7 y7 z7 ξ η ζ : Rat)
    (c : Nat) (hc : c < 3) :
    hexT.map (fun w => multilin hexRefP (childPts .hex [[x0, y0, z0], [x1, y1, z1], [x2, y2, z2], [x3, y3, z3],
        [x4, y4, z4], [x5, y5, z5], [x6, y6, z6], [x7, y7, z7]] w) c [ξ, η, ζ])
      = hexRefP.map (fun r => multilin hexRefP [[x0, y0, z0], [x1, y1, z1], [x2, y2, z2], [x3, y3, z3],
        [x4, y4, z4], [x5, y5, z5], [x6, y6, z6], [x7, y7, z7]] c (subBox r [ξ, η, ζ])) :=
  hex_restrict x0 y0 z0 x1 y1 z1 x2 y2 z2 x3 y3 z3 x4 y4 z4 x5 y5 z5 x6 y6 z6 x7 y7 z7 ξ η ζ c hc

/-- quadrilaterals: every corner cross product of every child is a combination with positive
    coefficients of the parent's corner cross products `T0..T3`; hence the children of a strictly
    convex quadrilateral are strictly convex and keep its orientation (no inverted, no degenerate
    child), in either orientation -/
theorem C12_quad_children_convex (x0 y0 x1 y1 x2 y2 x3 y3 : Rat)
    (hpos : ∀ t ∈ quadCorners [[x0, y0], [x1, y1], [x2, y2], [x3, y3]], 0 < t) :
    ∀ w ∈ quadT, ∀ t ∈ quadCorners (childPts .quad [[x0, y0], [x1, y1], [x2, y2], [x3, y3]] w), 0 < t := by
  obtain ⟨T0, T1, T2, T3, hT⟩ : ∃ T0 T1 T2 T3,
      quadCorners [[x0, y0], [x1, y1], [x2, y2], [x3, y3]] = [T0, T1, T2, T3] := ⟨_, _, _, _, rfl⟩
  have h := quad_corner_template x0 y0 x1 y1 x2 y2 x3 y3 T0 T1 T2 T3 hT
  rw [hT] at hpos
  have p0 := hpos T0 (by simp); have p1 := hpos T1 (by simp)
  have p2 := hpos T2 (by simp); have p3 := hpos T3 (by simp)
  intro w hw t ht
  have hmem : quadCorners (childPts .quad [[x0, y0], [x1, y1], [x2, y2], [x3, y3]] w) ∈
      quadT.map (fun w => quadCorners (childPts .quad [[x0, y0], [x1, y1], [x2, y2], [x3, y3]] w)) :=
    List.mem_map.mpr ⟨w, hw, rfl⟩
  rw [h] at hmem
  simp only [List.mem_cons, List.not_mem_nil, or_false] at hmem
  rcases hmem with e | e | e | e <;> rw [e] at ht <;>
    simp only [List.mem_cons, List.not_mem_nil, or_false] at ht <;>
    rcases ht with rfl | rfl | rfl | rfl <;> linarith

/-- quadrilaterals: the (signed, shoelace) areas of the children add up to the parent's -/
theorem C12_quad_area_add (x0 y0 x1 y1 x2 y2 x3 y3 : Rat) :
    (quadT.map (fun w => quadArea2 (childPts .quad [[x0, y0], [x1, y1], [x2, y2], [x3, y3]] w))).sum
      = quadArea2 [[x0, y0], [x1, y1], [x2, y2], [x3, y3]] :=
  quad_area_add x0 y0 x1 y1 x2 y2 x3 y3

/-- **children inside the parent**: every vertex of every child lies in every closed half-space
    that contains the parent's vertices, i.e. in their convex hull — which is the parent itself for
    segments, triangles, tetrahedra and convex quadrilaterals (for hexahedra see
    `C12_hex_restrict`).  All cell types, all three tetrahedral splittings. -/
theorem C12_child_inside :
    (∀ a b α γ : Rat, (∀ P ∈ [[a], [b]], 0 ≤ aff [α] γ P) →
      ∀ w ∈ lineT, ∀ Q ∈ childPts .line [[a], [b]] w, 0 ≤ aff [α] γ Q) ∧
    (∀ x0 y0 x1 y1 x2 y2 α β γ : Rat, (∀ P ∈ [[x0, y0], [x1, y1], [x2, y2]], 0 ≤ aff [α, β] γ P) →
      ∀ w ∈ triT, ∀ Q ∈ childPts .tri [[x0, y0], [x1, y1], [x2, y2]] w, 0 ≤ aff [α, β] γ Q) ∧
    (∀ x0 y0 x1 y1 x2 y2 x3 y3 α β γ : Rat,
      (∀ P ∈ [[x0, y0], [x1, y1], [x2, y2], [x3, y3]], 0 ≤ aff [α, β] γ P) →
      ∀ w ∈ quadT, ∀ Q ∈ childPts .quad [[x0, y0], [x1, y1], [x2, y2], [x3, y3]] w, 0 ≤ aff [α, β] γ Q) ∧
    (∀ x0 y0 z0 x1 y1 z1 x2 y2 z2 x3 y3 z3 α β γ δ : Rat,
      (∀ P ∈ [[x0, y0, z0], [x1, y1, z1], [x2, y2, z2], [x3, y3, z3]], 0 ≤ aff [α, β, γ] δ P) →
      ∀ T ∈ [tetCornerT, tetMidT 0, tetMidT 1, tetMidT 2], ∀ w ∈ T,
        ∀ Q ∈ childPts .tet [[x0, y0, z0], [x1, y1, z1], [x2, y2, z2], [x3, y3, z3]] w,
          0 ≤ aff [α, β, γ] δ Q) ∧
    (∀ x0 y0 z0 x1 y1 z1 x2 y2 z2 x3 y3 z3 x4 y4 z4 x5 y5 z5 x6 y6 z6 x7 y7 z7 α β γ δ : Rat,
      (∀ P ∈ [[x0, y0, z0], [x1, y1, z1], [x2, y2, z2], [x3, y3, z3],
        [x4, y4, z4], [x5, y5, z5], [x6, y6, z6], [x7, y7, z7]], 0 ≤ aff [α, β, γ] δ P) →
      ∀ w ∈ hexT, ∀ Q ∈ childPts .hex [[x0, y0, z0], [x1, y1, z1], [x2, y2, z2], [x3, y3, z3],
        [x4, y4, z4], [x5, y5, z5], [x6, y6, z6], [x7, y7, z7]] w, 0 ≤ aff [α, β, γ] δ Q) :=
  ⟨halfspace_line, halfspace_tri, halfspace_quad, halfspace_tet, halfspace_hex⟩

/-! ## conformity -/

/-- **no hanging nodes**: for every mesh and any two of its cells `k`, `k'` whose facets `s`, `s'`
    coincide along an admissible local correspondence `π` (every bijection of the facet's vertices
    for points, segments and triangles; the rotations and reflections for the quadrilateral faces
    of hexahedra) the refined facets (sorted global vertex tuples) lying on that facet are the
    same from both sides — whatever inner diagonals two tetrahedra choose.  The midpoint numbers
    are functions of the entity only (C11 sharing property), the split of a facet is a function
    of the facet only (decided on the templates for all pairs of slots and all correspondences). -/
theorem C12_conforming (kd : Kind) (m : MeshData) (k k' : Nat) (hk : k < m.cells.length)
    (hk' : k' < m.cells.length) (s s' : Nat) (hs : s < kd.facets.length) (hs' : s' < kd.facets.length)
    (π : List (Nat × Nat)) (hπ : π ∈ admissible kd s s') (T T' : Template) (hT : T ∈ tmpls kd)
    (hT' : T' ∈ tmpls kd)
    (hmatch : ∀ i ∈ kd.facets.getD s [],
      (m.cells.getD k []).getD i 0 = (m.cells.getD k' []).getD (applyPi π i) 0) :
    (refinedFacetsOn kd (envOf kd m) T k s).Perm (refinedFacetsOn kd (envOf kd m) T' k' s') :=
  conforming kd m k k' hk hk' s s' hs hs' π hπ T T' hT hT' hmatch

/-- the hypothesis of `C12_conforming` is what "the two cells share the facet" means: for
    segments, triangles, quadrilaterals and tetrahedra, two slots that name the same facet (same
    sorted vertex tuple, i.e. the same facet number by C11) match along an admissible
    correspondence.  (For hexahedra the correspondence must in addition be dihedral — two valid
    neighbours traverse the common face in the same cyclic order up to rotation/reflection; this
    stays a hypothesis on the input mesh.) -/
theorem C12_shared_facet_admissible (kd : Kind) (hkd : kd ≠ .hex) (c c' : List Nat) (s s' : Nat)
    (hs : s < kd.facets.length) (hs' : s' < kd.facets.length)
    (hshare : sortCol (slotCol c (kd.facets.getD s [])) = sortCol (slotCol c' (kd.facets.getD s' []))) :
    ∃ π ∈ admissible kd s s', ∀ a ∈ kd.facets.getD s [], c.getD a 0 = c'.getD (applyPi π a) 0 := by
  cases kd with
  | line =>
    have h1 : s < 2 := by simpa [Kind.facets, lineFacets] using hs
    have h2 : s' < 2 := by simpa [Kind.facets, lineFacets] using hs'
    exact shared_facet_admissible_line c c' s s' h1 h2 hshare
  | tri =>
    have h1 : s < 3 := by simpa [Kind.facets, triFacets] using hs
    have h2 : s' < 3 := by simpa [Kind.facets, triFacets] using hs'
    exact shared_facet_admissible_tri c c' s s' h1 h2 hshare
  | quad =>
    have h1 : s < 4 := by simpa [Kind.facets, quadFacets] using hs
    have h2 : s' < 4 := by simpa [Kind.facets, quadFacets] using hs'
    exact shared_facet_admissible_quad c c' s s' h1 h2 hshare
  | tet =>
    have h1 : s < 4 := by simpa [Kind.facets, tetFacets] using hs
    have h2 : s' < 4 := by simpa [Kind.facets, tetFacets] using hs'
    exact shared_facet_admissible_tet c c' s s' h1 h2 hshare
  | hex => exact absurd rfl hkd

/-- **no hanging nodes, segments / triangles / quadrilaterals / tetrahedra**: any two cells of any
    mesh that name the same facet refine it identically -/
theorem C12_conforming_shared (kd : Kind) (hkd : kd ≠ .hex) (m : MeshData) (k k' : Nat)
    (hk : k < m.cells.length) (hk' : k' < m.cells.length) (s s' : Nat) (hs : s < kd.facets.length)
    (hs' : s' < kd.facets.length) (T T' : Template) (hT : T ∈ tmpls kd) (hT' : T' ∈ tmpls kd)
    (hshare : sortCol (slotCol (m.cells.getD k []) (kd.facets.getD s []))
      = sortCol (slotCol (m.cells.getD k' []) (kd.facets.getD s' []))) :
    (refinedFacetsOn kd (envOf kd m) T k s).Perm (refinedFacetsOn kd (envOf kd m) T' k' s') := by
  obtain ⟨π, hπ, hmatch⟩ := C12_shared_facet_admissible kd hkd _ _ s s' hs hs' hshare
  exact conforming kd m k k' hk hk' s s' hs hs' π hπ T T' hT hT' hmatch

/-- inside one parent: every refined facet that lies on none of the parent's facets is shared by
    exactly two of its children, the refined facets on the parent's facets are pairwise
    different, and every child facet is of one of the two kinds (all templates, all three
    tetrahedral splittings) -/
theorem C12_interior_facets_paired (kd : Kind) : (tmpls kd).all (interiorPaired kd) = true :=
  interior_paired kd

/-- two new vertices of the same kind carry the same number iff they are midpoints of the same
    entity (same sorted vertex tuple): no duplicate vertex is created for a shared edge / facet and
    different entities get different vertices -/
theorem C12_midpoint_shared_iff (kd : Kind) (m : MeshData) (j k j' k' : Nat) (hk : k < m.cells.length)
    (hk' : k' < m.cells.length) :
    (j < kd.edges.length → j' < kd.edges.length →
      ((envOf kd m).num k (.e j) = (envOf kd m).num k' (.e j') ↔
        sortCol (slotCol (m.cells.getD k []) (kd.edges.getD j []))
          = sortCol (slotCol (m.cells.getD k' []) (kd.edges.getD j' [])))) ∧
    (kd ≠ .tet → j < kd.facets.length → j' < kd.facets.length →
      ((envOf kd m).num k (.f j) = (envOf kd m).num k' (.f j') ↔
        sortCol (slotCol (m.cells.getD k []) (kd.facets.getD j []))
          = sortCol (slotCol (m.cells.getD k' []) (kd.facets.getD j' [])))) := by
  have hE := envOf_ok kd m
  have hc := envOf_cells kd m
  constructor
  · intro hj hj'
    have := C11.C11_same_entity_iff m.cells kd.edges j k j' k' hj hk hj' hk'
    simp only [Env.num, hE.t2e, hc, Nat.add_left_cancel_iff]
    rw [getD_cells _ _ hk, getD_cells _ _ hk', getD_cells _ _ hj, getD_cells _ _ hj']
    exact this
  · intro hne hj hj'
    have := C11.C11_same_entity_iff m.cells kd.facets j k j' k' hj hk hj' hk'
    simp only [Env.num, hE.t2f hne, hc, Nat.add_left_cancel_iff]
    rw [getD_cells _ _ hk, getD_cells _ _ hk', getD_cells _ _ hj, getD_cells _ _ hj']
    exact this

/-! ## named subdomains -/

/-- **one pass**: for every cell type the result carries subdomains again (`MeshLine1` and
    `MeshTet1` map them themselves, the others through the generic code of `Mesh.refined`), each
    index array stays inside the new cell range, and it names exactly the new cells whose parent
    it named before — so it covers the same point set (children tile the parent) -/
theorem C12_subdomain_children (kd : Kind) (m : MeshData) (s : List (List Nat)) (hs : m.sub = some s)
    (hok : TagsOk m.cells.length s) :
    ∃ s', (refinedOnce kd m).sub = some s' ∧ s'.length = s.length ∧
      TagsOk (refinedOnce kd m).cells.length s' ∧
      ∀ a, a < s.length → ∀ j, j < (refinedOnce kd m).cells.length →
        (j ∈ s'.getD a [] ↔ (parentsOf kd m).getD j 0 ∈ s.getD a []) :=
  refinedOnce_sub kd m s hs hok

/-- **`k` passes**: a new cell is named iff its ancestor in the original mesh was -/
theorem C12_iterate_subdomains (kd : Kind) (n : Nat) (m : MeshData) (s : List (List Nat))
    (hs : m.sub = some s) (hok : TagsOk m.cells.length s) :
    ∃ s', (refined kd n m).sub = some s' ∧ s'.length = s.length ∧
      ∀ a, a < s.length → ∀ j, j < (refined kd n m).cells.length →
        (j ∈ s'.getD a [] ↔ (ancestors kd n m).getD j 0 ∈ s.getD a []) :=
  refined_sub kd n m s hs hok

/-- the ancestor is a cell of the original mesh -/
theorem C12_ancestor_exists (kd : Kind) (n : Nat) (m : MeshData) (j : Nat)
    (hj : j < (refined kd n m).cells.length) : (ancestors kd n m).getD j 0 < m.cells.length :=
  ancestors_lt kd n m j hj

/-- finding F5 (pinned tree): `MeshLine1._uniform` left the subdomains to the generic code, which
    assumes the block layout `k, k + nt`; on three segments the subdomain `{1}` became `{1, 4}`,
    i.e. one child of segment 0 and one of segment 2, although the children of segment 1 are
    `2, 3` — the repaired code returns `{2, 3}` -/
theorem C12_line_old_counterexample :
    let m : MeshData := { p := [[0], [1], [2], [4]], cells := [[0, 1], [1, 2], [2, 3]], sub := some [[1]] }
    (refinedOnceWith uniformLineOld m).sub = some [[1, 4]] ∧
    (parentsOf .line m).getD 1 0 = 0 ∧ (parentsOf .line m).getD 4 0 = 2 ∧
    (refinedOnce .line m).sub = some [[2, 3]] := by
  decide

/-- new finding (pinned tree): `MeshTet2._uniform` goes through `MeshTet1.from_mesh(self)`, which
    forgets the subdomains, so the generic code re-creates them as `k + i nt`, `i < 8`; for two
    tetrahedra that choose different inner diagonals the inner children are grouped by diagonal
    and the subdomain `{0}` also names inner children of cell 1 (new cells 8, 10, 12, 14 are
    children of cell 1).  The repaired `MeshTet2._uniform` lets `MeshTet1` propagate them. -/
theorem C12_tet2_old_counterexample :
    let m : MeshData := { p := [[0, 0, 0], [1, 0, 0], [0, 1, 0], [0, 0, 1], [-1, 1, 2]],
                          cells := [[0, 1, 2, 3], [1, 2, 3, 4]], sub := some [[0]] }
    (refinedOnceWith (uniformSecondOld .tet) m).sub = some [[0, 2, 4, 6, 8, 10, 12, 14]] ∧
    (parentsOf .tet m) = [0, 1, 0, 1, 0, 1, 0, 1, 1, 0, 1, 0, 1, 0, 1, 0] ∧
    (refinedOnceWith (uniformSecond .tet) m).sub = some [[0, 2, 4, 6, 9, 11, 13, 15]] := by
  decide +kernel

/-! ## named boundaries -/

/-- `np.sort(new_facets[:, ixs].flatten())`: the propagated array names exactly the entries of
    the two rows of `new_facets` at the named facets -/
theorem C12_boundary_sub_mem (nf : List Nat × List Nat) (ixs : List Nat) (j : Nat) :
    j ∈ boundarySub nf ixs ↔ ∃ f ∈ ixs, j = nf.1.getD f 0 ∨ j = nf.2.getD f 0 :=
  mem_boundarySub

/-- **triangles**: for every old facet `f` (named by slot `s` of cell `k`) the two rows of
    `new_facets` name refined facets with the vertex sets `{a, sz + f}` and `{b, sz + f}`, where
    `{a, b}` are the vertices of `f` and `sz + f` is its midpoint (`C12_new_vertices`): the two
    halves of `f`.  Both rows are written by the same (last) writer, so the halves belong
    together also when the two neighbours disagree on the local order.  `TriRaw` (children 0–2
    stored as in the template) holds without re-sorting and with `sort_t=True`, see below. -/
theorem C12_boundary_children_tri (m : MeshData) (hraw : TriRaw m) (s k : Nat) (hs : s < 3)
    (hk : k < m.cells.length) :
    ∃ a b,
      (facetTable .tri m).1.getD (((facetTable .tri m).2.getD s []).getD k 0) [] = sortCol [a, b] ∧
      (buildEntities (newCells .tri m) triFacets true).1.getD
        ((triNewFacets m.cells.length (facetTable .tri m).1.length (facetTable .tri m).2
          (buildEntities (newCells .tri m) triFacets true).2).1.getD
            (((facetTable .tri m).2.getD s []).getD k 0) 0) []
        = sortCol [a, m.p.length + ((facetTable .tri m).2.getD s []).getD k 0] ∧
      (buildEntities (newCells .tri m) triFacets true).1.getD
        ((triNewFacets m.cells.length (facetTable .tri m).1.length (facetTable .tri m).2
          (buildEntities (newCells .tri m) triFacets true).2).2.getD
            (((facetTable .tri m).2.getD s []).getD k 0) 0) []
        = sortCol [b, m.p.length + ((facetTable .tri m).2.getD s []).getD k 0] :=
  tri_new_facets m hraw s k hs hk

/-- `sort_t=False`: the children are stored as the template says -/
theorem C12_tri_raw_unsorted (m : MeshData) (hsort : m.sortT = false) : TriRaw m :=
  triRaw_unsorted m hsort

/-- `sort_t=True` (default of `MeshTri1`): in an ascending cell `(a, b, c)` the facets are
    numbered `t2f[0] < t2f[2] < t2f[1]` because the facet numbering is lexicographic (C11) -/
theorem C12_lex_facet_order (m : MeshData) (hasc : TriAscending m) (k : Nat) (hk : k < m.cells.length) :
    ((buildEntities m.cells triFacets true).2.getD 0 []).getD k 0
      < ((buildEntities m.cells triFacets true).2.getD 2 []).getD k 0 ∧
    ((buildEntities m.cells triFacets true).2.getD 2 []).getD k 0
      < ((buildEntities m.cells triFacets true).2.getD 1 []).getD k 0 :=
  lex_facet_order m hasc k hk

/-- … hence the children `(corner, m, m')` read by the code are ascending already and the
    `__post_init__` sort of the refined mesh leaves them alone — the assumption the slot
    arithmetic of `MeshTri1._uniform` silently makes -/
theorem C12_tri_raw_sorted (m : MeshData) (hsort : m.sortT = true) (hasc : TriAscending m) : TriRaw m :=
  triRaw_sorted m hsort hasc

/-- **quadrilaterals**: the same statement for `MeshQuad1._uniform` -/
theorem C12_boundary_children_quad (m : MeshData) (hsort : m.sortT = false) (s k : Nat) (hs : s < 4)
    (hk : k < m.cells.length) :
    ∃ a b,
      (facetTable .quad m).1.getD (((facetTable .quad m).2.getD s []).getD k 0) [] = sortCol [a, b] ∧
      (buildEntities (newCells .quad m) quadFacets true).1.getD
        ((quadNewFacets m.cells.length (facetTable .quad m).1.length (facetTable .quad m).2
          (buildEntities (newCells .quad m) quadFacets true).2).1.getD
            (((facetTable .quad m).2.getD s []).getD k 0) 0) []
        = sortCol [a, m.p.length + ((facetTable .quad m).2.getD s []).getD k 0] ∧
      (buildEntities (newCells .quad m) quadFacets true).1.getD
        ((quadNewFacets m.cells.length (facetTable .quad m).1.length (facetTable .quad m).2
          (buildEntities (newCells .quad m) quadFacets true).2).2.getD
            (((facetTable .quad m).2.getD s []).getD k 0) 0) []
        = sortCol [b, m.p.length + ((facetTable .quad m).2.getD s []).getD k 0] :=
  quad_new_facets m hsort s k hs hk

/-- where the propagation of boundaries is unsupported the result carries `None` (tetrahedra,
    hexahedra, all second-order classes) — never stale indices; segments keep the dictionary
    (facets are vertices and old vertices keep their numbers); triangles and quadrilaterals keep
    the names -/
theorem C12_dropped_tags (n : Nat) (m : MeshData) :
    (refined .tet (n + 1) m).bnd = none ∧ (refined .hex (n + 1) m).bnd = none ∧
    (∀ kd, (refinedOnceWith (uniformSecond kd) m).bnd = none) ∧
    (refinedOnce .line m).bnd = m.bnd ∧
    ((refinedOnce .tri m).bnd.isSome = m.bnd.isSome) ∧ ((refinedOnce .quad m).bnd.isSome = m.bnd.isSome) := by
  have hstep : ∀ kd, (kd = .tet ∨ kd = .hex) → ∀ n m, (refined kd (n + 1) m).bnd = none := by
    intro kd hkd n
    induction n with
    | zero =>
      intro m
      simp only [refined, refinedOnce, refinedOnceWith_bnd, uniform]
      rcases hkd with rfl | rfl <;> rfl
    | succ n ih => intro m; exact ih (refinedOnce kd m)
  refine ⟨hstep .tet (Or.inl rfl) n m, hstep .hex (Or.inr rfl) n m, ?_, ?_, ?_, ?_⟩
  · intro kd; simp only [refinedOnceWith_bnd, uniformSecond]
  · simp only [refinedOnce, refinedOnceWith_bnd, uniform, bndOf]
  · simp only [refinedOnce, refinedOnceWith_bnd, uniform, bndOf]; cases m.bnd <;> rfl
  · simp only [refinedOnce, refinedOnceWith_bnd, uniform, bndOf]; cases m.bnd <;> rfl

/-! ## non-vacuity -/

-- the hypotheses of `C12_subdomain_children` / `C12_iterate_subdomains` are satisfiable and the
-- conclusions are the expected arrays (two triangles, two passes)
example :
    let m : MeshData := { p := [[0, 0], [1, 0], [0, 1], [1, 1]], cells := [[0, 1, 2], [1, 2, 3]],
                          sortT := true, sub := some [[1]], bnd := some [[0, 4]] }
    (refined .tri 1 m).sub = some [[1, 3, 5, 7]] ∧ (refined .tri 1 m).bnd = some [[0, 2, 7, 9]] ∧
    (refined .tri 1 m).cells.length = 8 ∧ (refined .tri 2 m).cells.length = 32 ∧
    (ancestors .tri 2 m).getD 9 0 = 1 := by
  decide +kernel

example : TagsOk 2 [[1]] := by
  intro ixs h k hk
  simp only [List.mem_singleton] at h
  subst h
  simp only [List.mem_singleton] at hk
  omega

-- `TriAscending` holds for the two-triangle mesh; `admissible` is non-empty and `hmatch` of
-- `C12_conforming` holds for the common edge (slot 1 of cell 0 = slot 0 of cell 1, same direction)
example : TriAscending { p := [[0, 0], [1, 0], [0, 1], [1, 1]], cells := [[0, 1, 2], [1, 2, 3]] } := by
  intro k hk
  have : k = 0 ∨ k = 1 := by simp at hk; omega
  rcases this with rfl | rfl
  · exact ⟨0, 1, 2, rfl, by omega, by omega, by simp⟩
  · exact ⟨1, 2, 3, rfl, by omega, by omega, by simp⟩

example : [(1, 0), (2, 1)] ∈ admissible .tri 1 0 ∧
    ∀ i ∈ triFacets.getD 1 [], ([0, 1, 2] : List Nat).getD i 0 = ([1, 2, 3] : List Nat).getD (applyPi [(1, 0), (2, 1)] i) 0 := by
  decide

end Skv.C12
