import SkfemVerif.Model.Helpers
import SkfemVerif.Model.Autodiff
import SkfemVerif.Gen.HelperFormulas
import SkfemVerif.Lemmas.Helpers
import SkfemVerif.Lemmas.Autodiff
import SkfemVerif.Props.C01
/-
C20  Autodiff gives the true Jacobian; integrand helpers equal their definitions.

PART 1 (helpers).  `Gen/HelperFormulas.lean` is REGENERATED on every run from the live source of
`skfem/helpers.py` (terms `np_*`) and `skfem/autodiff/helpers.py` (terms `jax_*`) by the
restricted-AST translator `harness/skv/gens/helpers.py`; each term is the helper's formula at one
trailing position (the helpers act pointwise over the trailing axes) for leading size 2 or 3.
The theorems below state that every generated term IS the Mathlib definition (`Matrix.det`,
inverse, `crossProduct`, `trace`, transpose, `mulVec`, matrix product, `dotProduct`, explicit
double / triple contractions, `vecMulVec`, `diagonal`, `½(G + Gᵀ)`, trace of the gradient,
`∇× = Σ_j e_j × ∂_j`) over an arbitrary commutative ring / field, and that the NumPy and the JAX
variant agree.  A changed sign or index in the source changes the generated term and breaks the
`ring` proof.  NOT covered by the proof: NumPy/JAX broadcasting over the trailing axes and
`einsum`'s ellipsis semantics (trusted, exercised by the search on shapes `(d,d)`, `(d,d,n)`,
`(d,d,nt,nq)`), floating point; `skfem.autodiff.helpers` offers no `inv`, `cross`, `curl`.

PART 2 (assembly).  Model `Model/Autodiff.lean` of `NonlinearForm._assemble`.  JAX enters through
the pair `(f, df)`: value and linear map returned by `jax.linearize`.  That `df` is the true
directional derivative (`IsJvpAt`) is an explicit HYPOTHESIS (the JAX contract, trusted and
validated by the finite-difference search); under it the assembled matrix is the derivative of
the residual with respect to the coefficient vector, for EVERY differentiable integrand, all
meshes / DOF tables / bases / weights / linearisation points (`𝕜` = ℝ or ℂ).  For the polynomial
integrand grammar the contract is PROVED (formal Leibniz derivative), so that statement is
unconditional there.  Smooth non-polynomial integrands (exp, sin, sqrt …): the theorem applies
under the contract; that JAX meets the contract for them is search only
(`C20_smooth_partial` in DESIGN.md is this remark, there is no weaker theorem to state).
-/
set_option linter.unusedTactic false
set_option linter.unreachableTactic false
set_option linter.unusedSimpArgs false
set_option linter.unusedSectionVars false
set_option linter.unnecessarySeqFocus false

namespace Skv.C20
open Skv Skv.Gen.Helpers Matrix

/-! ## Part 1: the helper terms lifted from the source -/

section Helpers
variable {R : Type} [CommRing R] {F : Type} [Field F]

/-- `det` (both variants, sizes 2 and 3) is the determinant -/
theorem C20_det :
    (∀ A : Matrix (Fin 2) (Fin 2) R, np_det2 A = A.det ∧ jax_det2 A = A.det) ∧
    (∀ A : Matrix (Fin 3) (Fin 3) R, np_det3 A = A.det ∧ jax_det3 A = A.det) := by
  refine ⟨fun A => ⟨?_, ?_⟩, fun A => ⟨?_, ?_⟩⟩
  · rw [det_fin_two]; unfold np_det2; ring
  · rw [det_fin_two]; unfold jax_det2; ring
  · rw [det_fin_three]; unfold np_det3; ring
  · rw [det_fin_three]; unfold jax_det3; ring

/-- `inv` (NumPy variant, 2×2): for `det A ≠ 0` the generated matrix is a left and a right inverse,
    hence Mathlib's `A⁻¹`.  (`inv` calls `det`; the generated term calls the generated `np_det2`.) -/
theorem C20_inv2 (A : Matrix (Fin 2) (Fin 2) F) (h : A.det ≠ 0) :
    of (np_inv2 A) * A = 1 ∧ A * of (np_inv2 A) = 1 ∧ of (np_inv2 A) = A⁻¹ := by
  have hl : of (np_inv2 A) * A = 1 := by
    ext i j
    fin_cases i <;> fin_cases j <;>
      simp [np_inv2, (C20_det.1 A).1, vec2_eq, Matrix.mul_apply, Fin.sum_univ_two] <;>
      field_simp <;> rw [det_fin_two] <;> ring
  have hr : A * of (np_inv2 A) = 1 := mul_eq_one_comm.mp hl
  exact ⟨hl, hr, (inv_eq_left_inv hl).symm⟩

/-- `inv` (NumPy variant, 3×3): left inverse, right inverse, `= A⁻¹` under `det A ≠ 0` -/
theorem C20_inv3 (A : Matrix (Fin 3) (Fin 3) F) (h : A.det ≠ 0) :
    of (np_inv3 A) * A = 1 ∧ A * of (np_inv3 A) = 1 ∧ of (np_inv3 A) = A⁻¹ := by
  have hl : of (np_inv3 A) * A = 1 := by
    ext i j
    fin_cases i <;> fin_cases j <;>
      simp [np_inv3, (C20_det.2 A).1, vec3_eq, Matrix.mul_apply, Fin.sum_univ_three] <;>
      field_simp <;> rw [det_fin_three] <;> ring
  have hr : A * of (np_inv3 A) = 1 := mul_eq_one_comm.mp hl
  exact ⟨hl, hr, (inv_eq_left_inv hl).symm⟩

/-- `cross`: Mathlib's `crossProduct` in 3-D; in 2-D the determinant of the matrix with rows `a, b` -/
theorem C20_cross :
    (∀ a b : Fin 3 → R, np_cross3 a b = crossProduct a b) ∧
    (∀ a b : Fin 2 → R, np_cross2 a b = (of ![a, b]).det) := by
  refine ⟨fun a b => ?_, fun a b => ?_⟩
  · funext i; fin_cases i <;> simp [np_cross3, vec3_eq, cross_apply] <;> ring
  · rw [det_fin_two]; simp [np_cross2] <;> ring

/-- `trace` is `Matrix.trace` -/
theorem C20_trace :
    (∀ T : Matrix (Fin 2) (Fin 2) R, np_trace2 T = T.trace ∧ jax_trace2 T = T.trace) ∧
    (∀ T : Matrix (Fin 3) (Fin 3) R, np_trace3 T = T.trace ∧ jax_trace3 T = T.trace) := by
  refine ⟨fun T => ⟨?_, ?_⟩, fun T => ⟨?_, ?_⟩⟩
  · rw [trace_fin_two]; unfold np_trace2; ring
  · rw [trace_fin_two]; unfold jax_trace2; ring
  · rw [trace_fin_three]; unfold np_trace3; ring
  · rw [trace_fin_three]; unfold jax_trace3; ring

/-- `transpose` is `Matrix.transpose` -/
theorem C20_transpose :
    (∀ T : Matrix (Fin 2) (Fin 2) R, of (np_transpose2 T) = Tᵀ ∧ of (jax_transpose2 T) = Tᵀ) ∧
    (∀ T : Matrix (Fin 3) (Fin 3) R, of (np_transpose3 T) = Tᵀ ∧ of (jax_transpose3 T) = Tᵀ) := by
  refine ⟨fun T => ⟨?_, ?_⟩, fun T => ⟨?_, ?_⟩⟩ <;> ext i j <;> fin_cases i <;> fin_cases j <;>
    simp [np_transpose2, jax_transpose2, np_transpose3, jax_transpose3, vec2_eq, vec3_eq] <;> ring

/-- `eye(w, n)` is the diagonal matrix `w·I` -/
theorem C20_eye (w : R) :
    (of (np_eye2 w) = diagonal (fun _ => w) ∧ of (jax_eye2 w) = diagonal (fun _ => w)) ∧
    (of (np_eye3 w) = diagonal (fun _ => w) ∧ of (jax_eye3 w) = diagonal (fun _ => w)) := by
  refine ⟨⟨?_, ?_⟩, ⟨?_, ?_⟩⟩ <;> ext i j <;> fin_cases i <;> fin_cases j <;>
    simp [np_eye2, jax_eye2, np_eye3, jax_eye3, vec2_eq, vec3_eq] <;> ring

/-- `sym_grad` is `½ (G + Gᵀ)` of the gradient -/
theorem C20_sym_grad :
    (∀ G : Matrix (Fin 2) (Fin 2) F, of (np_sym_grad2 G) = (1 / 2 : F) • (G + Gᵀ) ∧
      of (jax_sym_grad2 G) = (1 / 2 : F) • (G + Gᵀ)) ∧
    (∀ G : Matrix (Fin 3) (Fin 3) F, of (np_sym_grad3 G) = (1 / 2 : F) • (G + Gᵀ) ∧
      of (jax_sym_grad3 G) = (1 / 2 : F) • (G + Gᵀ)) := by
  refine ⟨fun G => ⟨?_, ?_⟩, fun G => ⟨?_, ?_⟩⟩ <;> ext i j <;> fin_cases i <;> fin_cases j <;>
    simp [np_sym_grad2, jax_sym_grad2, np_sym_grad3, jax_sym_grad3, vec2_eq, vec3_eq] <;> ring

/-- `div` of a field given through its gradient is the trace of the gradient (1-D: the derivative) -/
theorem C20_div :
    (∀ G : Matrix (Fin 2) (Fin 2) R, np_div2 G = G.trace ∧ jax_div2 G = G.trace) ∧
    (∀ G : Matrix (Fin 3) (Fin 3) R, np_div3 G = G.trace ∧ jax_div3 G = G.trace) ∧
    (∀ g : Fin 1 → R, np_div1 g = g 0 ∧ jax_div1 g = g 0) := by
  refine ⟨fun G => ⟨?_, ?_⟩, fun G => ⟨?_, ?_⟩, fun g => ⟨rfl, rfl⟩⟩
  · rw [trace_fin_two]; unfold np_div2; ring
  · rw [trace_fin_two]; unfold jax_div2; ring
  · rw [trace_fin_three]; unfold np_div3; ring
  · rw [trace_fin_three]; unfold jax_div3; ring

/-- `curl` (NumPy variant): `∇× = Σ_j e_j × ∂_j` for a 3-D vector field; for a plane vector field the
    third component of the curl of its embedding; for a plane scalar `φ` the first two components of
    `∇×(0, 0, φ)` -/
theorem C20_curl :
    (∀ G : Matrix (Fin 3) (Fin 3) R, np_curl3 G = curl3 G) ∧
    (∀ G : Matrix (Fin 2) (Fin 2) R, np_curl2v G = curl3 (embedPlane G) 2) ∧
    (∀ g : Fin 2 → R, np_curl2s g = ![curl3 (embedScalar g) 0, curl3 (embedScalar g) 1]) := by
  refine ⟨fun G => ?_, fun G => ?_, fun g => ?_⟩
  · rw [curl3_apply]; funext i; fin_cases i <;> simp [np_curl3, vec3_eq] <;> ring
  · rw [curl3_apply]; simp [np_curl2v, embedPlane] <;> ring
  · rw [curl3_apply]; funext i; fin_cases i <;> simp [np_curl2s, vec2_eq, embedScalar] <;> ring

/-- `dot` is `dotProduct` -/
theorem C20_dot :
    (∀ u v : Fin 2 → R, np_dot2 u v = u ⬝ᵥ v ∧ jax_dot2 u v = u ⬝ᵥ v) ∧
    (∀ u v : Fin 3 → R, np_dot3 u v = u ⬝ᵥ v ∧ jax_dot3 u v = u ⬝ᵥ v) := by
  refine ⟨fun u v => ⟨?_, ?_⟩, fun u v => ⟨?_, ?_⟩⟩
  · simp only [np_dot2, dotProduct, Fin.sum_univ_two] <;> ring
  · simp only [jax_dot2, dotProduct, Fin.sum_univ_two] <;> ring
  · simp only [np_dot3, dotProduct, Fin.sum_univ_three] <;> ring
  · simp only [jax_dot3, dotProduct, Fin.sum_univ_three] <;> ring

/-- `ddot` is the double contraction `Σ_ij u_ij v_ij` -/
theorem C20_ddot :
    (∀ u v : Matrix (Fin 2) (Fin 2) R, np_ddot2 u v = ∑ i, ∑ j, u i j * v i j ∧
      jax_ddot2 u v = ∑ i, ∑ j, u i j * v i j) ∧
    (∀ u v : Matrix (Fin 3) (Fin 3) R, np_ddot3 u v = ∑ i, ∑ j, u i j * v i j ∧
      jax_ddot3 u v = ∑ i, ∑ j, u i j * v i j) := by
  refine ⟨fun u v => ⟨?_, ?_⟩, fun u v => ⟨?_, ?_⟩⟩
  · simp only [np_ddot2, Fin.sum_univ_two] <;> ring
  · simp only [jax_ddot2, Fin.sum_univ_two] <;> ring
  · simp only [np_ddot3, Fin.sum_univ_three] <;> ring
  · simp only [jax_ddot3, Fin.sum_univ_three] <;> ring

/-- `dddot` is the triple contraction `Σ_ijk u_ijk v_ijk` -/
theorem C20_dddot :
    (∀ u v : Fin 2 → Fin 2 → Fin 2 → R, np_dddot2 u v = ∑ i, ∑ j, ∑ k, u i j k * v i j k ∧
      jax_dddot2 u v = ∑ i, ∑ j, ∑ k, u i j k * v i j k) ∧
    (∀ u v : Fin 3 → Fin 3 → Fin 3 → R, np_dddot3 u v = ∑ i, ∑ j, ∑ k, u i j k * v i j k ∧
      jax_dddot3 u v = ∑ i, ∑ j, ∑ k, u i j k * v i j k) := by
  refine ⟨fun u v => ⟨?_, ?_⟩, fun u v => ⟨?_, ?_⟩⟩
  · simp only [np_dddot2, Fin.sum_univ_two] <;> ring
  · simp only [jax_dddot2, Fin.sum_univ_two] <;> ring
  · simp only [np_dddot3, Fin.sum_univ_three] <;> ring
  · simp only [jax_dddot3, Fin.sum_univ_three] <;> ring

/-- `prod` is the outer product (`vecMulVec`), with three arguments `(u ⊗ v ⊗ w)_ijk = u_i v_j w_k` -/
theorem C20_prod :
    (∀ u v : Fin 2 → R, of (np_prod2 u v) = vecMulVec u v ∧ of (jax_prod2 u v) = vecMulVec u v) ∧
    (∀ u v : Fin 3 → R, of (np_prod3 u v) = vecMulVec u v ∧ of (jax_prod3 u v) = vecMulVec u v) ∧
    (∀ (u v w : Fin 2 → R) (i j k : Fin 2), np_tprod2 u v w i j k = u i * v j * w k ∧
      jax_tprod2 u v w i j k = u i * v j * w k) ∧
    (∀ (u v w : Fin 3 → R) (i j k : Fin 3), np_tprod3 u v w i j k = u i * v j * w k ∧
      jax_tprod3 u v w i j k = u i * v j * w k) := by
  refine ⟨fun u v => ⟨?_, ?_⟩, fun u v => ⟨?_, ?_⟩, fun u v w i j k => ⟨?_, ?_⟩,
    fun u v w i j k => ⟨?_, ?_⟩⟩
  · ext i j; fin_cases i <;> fin_cases j <;> simp [np_prod2, vec2_eq, vecMulVec_apply] <;> ring
  · ext i j; fin_cases i <;> fin_cases j <;> simp [jax_prod2, vec2_eq, vecMulVec_apply] <;> ring
  · ext i j; fin_cases i <;> fin_cases j <;> simp [np_prod3, vec3_eq, vecMulVec_apply] <;> ring
  · ext i j; fin_cases i <;> fin_cases j <;> simp [jax_prod3, vec3_eq, vecMulVec_apply] <;> ring
  · fin_cases i <;> fin_cases j <;> fin_cases k <;> simp [np_tprod2, vec2_eq] <;> ring
  · fin_cases i <;> fin_cases j <;> fin_cases k <;> simp [jax_tprod2, vec2_eq] <;> ring
  · fin_cases i <;> fin_cases j <;> fin_cases k <;> simp [np_tprod3, vec3_eq] <;> ring
  · fin_cases i <;> fin_cases j <;> fin_cases k <;> simp [jax_tprod3, vec3_eq] <;> ring

/-- `mul` is the matrix-vector product `mulVec` and (matrix second argument) the matrix product;
    the NumPy variant reaches the latter through einsum's ellipsis broadcasting -/
theorem C20_mul :
    (∀ (A : Matrix (Fin 2) (Fin 2) R) (x : Fin 2 → R), np_mul2 A x = A *ᵥ x ∧ jax_mul2 A x = A *ᵥ x) ∧
    (∀ (A : Matrix (Fin 3) (Fin 3) R) (x : Fin 3 → R), np_mul3 A x = A *ᵥ x ∧ jax_mul3 A x = A *ᵥ x) ∧
    (∀ A B : Matrix (Fin 2) (Fin 2) R, of (np_mulm2 A B) = A * B ∧ of (jax_mulm2 A B) = A * B) ∧
    (∀ A B : Matrix (Fin 3) (Fin 3) R, of (np_mulm3 A B) = A * B ∧ of (jax_mulm3 A B) = A * B) := by
  refine ⟨fun A x => ⟨?_, ?_⟩, fun A x => ⟨?_, ?_⟩, fun A B => ⟨?_, ?_⟩, fun A B => ⟨?_, ?_⟩⟩
  · funext i; fin_cases i <;> simp [np_mul2, vec2_eq, mulVec, dotProduct, Fin.sum_univ_two] <;> ring
  · funext i; fin_cases i <;> simp [jax_mul2, vec2_eq, mulVec, dotProduct, Fin.sum_univ_two] <;> ring
  · funext i; fin_cases i <;> simp [np_mul3, vec3_eq, mulVec, dotProduct, Fin.sum_univ_three] <;> ring
  · funext i; fin_cases i <;> simp [jax_mul3, vec3_eq, mulVec, dotProduct, Fin.sum_univ_three] <;> ring
  · ext i j; fin_cases i <;> fin_cases j <;> simp [np_mulm2, vec2_eq, mul_apply, Fin.sum_univ_two] <;> ring
  · ext i j; fin_cases i <;> fin_cases j <;> simp [jax_mulm2, vec2_eq, mul_apply, Fin.sum_univ_two] <;> ring
  · ext i j; fin_cases i <;> fin_cases j <;>
      simp [np_mulm3, vec3_eq, mul_apply, Fin.sum_univ_three] <;> ring
  · ext i j; fin_cases i <;> fin_cases j <;>
      simp [jax_mulm3, vec3_eq, mul_apply, Fin.sum_univ_three] <;> ring


/-- **NumPy variant = JAX variant** for every helper both modules offer (sizes 2 and 3) -/
theorem C20_variants_agree :
    (∀ A : Matrix (Fin 2) (Fin 2) R, np_det2 A = jax_det2 A ∧ np_trace2 A = jax_trace2 A ∧
      np_div2 A = jax_div2 A ∧ np_transpose2 A = jax_transpose2 A) ∧
    (∀ A : Matrix (Fin 3) (Fin 3) R, np_det3 A = jax_det3 A ∧ np_trace3 A = jax_trace3 A ∧
      np_div3 A = jax_div3 A ∧ np_transpose3 A = jax_transpose3 A) ∧
    (∀ w : R, np_eye2 w = jax_eye2 w ∧ np_eye3 w = jax_eye3 w) ∧
    (∀ G : Matrix (Fin 2) (Fin 2) F, np_sym_grad2 G = jax_sym_grad2 G) ∧
    (∀ G : Matrix (Fin 3) (Fin 3) F, np_sym_grad3 G = jax_sym_grad3 G) ∧
    (∀ u v : Fin 2 → R, np_dot2 u v = jax_dot2 u v ∧ np_prod2 u v = jax_prod2 u v) ∧
    (∀ u v : Fin 3 → R, np_dot3 u v = jax_dot3 u v ∧ np_prod3 u v = jax_prod3 u v) ∧
    (∀ u v : Matrix (Fin 2) (Fin 2) R, np_ddot2 u v = jax_ddot2 u v ∧ np_mulm2 u v = jax_mulm2 u v) ∧
    (∀ u v : Matrix (Fin 3) (Fin 3) R, np_ddot3 u v = jax_ddot3 u v ∧ np_mulm3 u v = jax_mulm3 u v) ∧
    (∀ u v : Fin 2 → Fin 2 → Fin 2 → R, np_dddot2 u v = jax_dddot2 u v) ∧
    (∀ u v : Fin 3 → Fin 3 → Fin 3 → R, np_dddot3 u v = jax_dddot3 u v) ∧
    (∀ u v w : Fin 2 → R, np_tprod2 u v w = jax_tprod2 u v w) ∧
    (∀ u v w : Fin 3 → R, np_tprod3 u v w = jax_tprod3 u v w) ∧
    (∀ (A : Matrix (Fin 2) (Fin 2) R) (x : Fin 2 → R), np_mul2 A x = jax_mul2 A x) ∧
    (∀ (A : Matrix (Fin 3) (Fin 3) R) (x : Fin 3 → R), np_mul3 A x = jax_mul3 A x) := by
  refine ⟨fun A => ⟨?_, ?_, ?_, ?_⟩, fun A => ⟨?_, ?_, ?_, ?_⟩, fun w => ⟨?_, ?_⟩, fun G => ?_,
    fun G => ?_, fun u v => ⟨?_, ?_⟩, fun u v => ⟨?_, ?_⟩, fun u v => ⟨?_, ?_⟩, fun u v => ⟨?_, ?_⟩,
    fun u v => ?_, fun u v => ?_, fun u v w => ?_, fun u v w => ?_, fun A x => ?_, fun A x => ?_⟩
  · exact ((C20_det.1 A).1).trans ((C20_det.1 A).2).symm
  · exact ((C20_trace.1 A).1).trans ((C20_trace.1 A).2).symm
  · exact ((C20_div.1 A).1).trans ((C20_div.1 A).2).symm
  · exact of.injective (((C20_transpose.1 A).1).trans ((C20_transpose.1 A).2).symm)
  · exact ((C20_det.2 A).1).trans ((C20_det.2 A).2).symm
  · exact ((C20_trace.2 A).1).trans ((C20_trace.2 A).2).symm
  · exact ((C20_div.2.1 A).1).trans ((C20_div.2.1 A).2).symm
  · exact of.injective (((C20_transpose.2 A).1).trans ((C20_transpose.2 A).2).symm)
  · exact of.injective (((C20_eye w).1.1).trans ((C20_eye w).1.2).symm)
  · exact of.injective (((C20_eye w).2.1).trans ((C20_eye w).2.2).symm)
  · exact of.injective (((C20_sym_grad.1 G).1).trans ((C20_sym_grad.1 G).2).symm)
  · exact of.injective (((C20_sym_grad.2 G).1).trans ((C20_sym_grad.2 G).2).symm)
  · exact ((C20_dot.1 u v).1).trans ((C20_dot.1 u v).2).symm
  · exact of.injective (((C20_prod.1 u v).1).trans ((C20_prod.1 u v).2).symm)
  · exact ((C20_dot.2 u v).1).trans ((C20_dot.2 u v).2).symm
  · exact of.injective (((C20_prod.2.1 u v).1).trans ((C20_prod.2.1 u v).2).symm)
  · exact ((C20_ddot.1 u v).1).trans ((C20_ddot.1 u v).2).symm
  · exact of.injective (((C20_mul.2.2.1 u v).1).trans ((C20_mul.2.2.1 u v).2).symm)
  · exact ((C20_ddot.2 u v).1).trans ((C20_ddot.2 u v).2).symm
  · exact of.injective (((C20_mul.2.2.2 u v).1).trans ((C20_mul.2.2.2 u v).2).symm)
  · exact ((C20_dddot.1 u v).1).trans ((C20_dddot.1 u v).2).symm
  · exact ((C20_dddot.2 u v).1).trans ((C20_dddot.2 u v).2).symm
  · funext i j k
    exact ((C20_prod.2.2.1 u v w i j k).1).trans ((C20_prod.2.2.1 u v w i j k).2).symm
  · funext i j k
    exact ((C20_prod.2.2.2 u v w i j k).1).trans ((C20_prod.2.2.2 u v w i j k).2).symm
  · exact ((C20_mul.1 A x).1).trans ((C20_mul.1 A x).2).symm
  · exact ((C20_mul.2.1 A x).1).trans ((C20_mul.2.1 A x).2).symm

/-- the hypothesis `det ≠ 0` of `C20_inv2/3` is satisfiable -/
example : (1 : Matrix (Fin 3) (Fin 3) ℚ).det ≠ 0 := by simp

end Helpers

/-! ### F3: the old JAX 3×3 determinant -/

/-- F3: on the pinned tree the JAX 3×3 determinant was wrong; witness `A = [[1,1,0],[0,1,1],[1,0,1]]`
    (`det A = 2`, the old term gives `0`).  The same matrix is replayed on the live code by the search. -/
theorem C20_jaxdet_old_counterexample :
    jaxDet3Old (!![1, 1, 0; 0, 1, 1; 1, 0, 1] : Matrix (Fin 3) (Fin 3) ℤ)
      ≠ (!![1, 1, 0; 0, 1, 1; 1, 0, 1] : Matrix (Fin 3) (Fin 3) ℤ).det := by
  rw [Matrix.det_fin_three]
  simp [jaxDet3Old]

/-- F3, for every matrix: the old term is off by `2·A₀₁A₁₂A₂₀` -/
theorem C20_jaxdet_old_defect {R : Type} [CommRing R] (A : Matrix (Fin 3) (Fin 3) R) :
    jaxDet3Old A = A.det - 2 * (A 0 1 * A 1 2 * A 2 0) := by
  rw [Matrix.det_fin_three]; unfold jaxDet3Old; ring


/-! ## Part 2: `NonlinearForm._assemble` -/

section Bookkeeping
variable {K : Type} [CommRing K]

/-- **COO layout** of `NonlinearForm._assemble`: flat position `nt * (Nb * j + i) + k` of
    `rows / cols / data.flatten('C')` holds row = TEST dof, column = TRIAL dof and the value
    `data[j, i, k] = Σ_q DF_i(x_h)[φ_j] dx`; flat position `nt * i + k` of the right-hand side
    holds the TEST dof and `−Σ_q y_i dx` (the residual sign). -/
theorem C20_jacobian_bookkeeping (Nb nt nq : Nat)
    (f : Sample K → Sample K → Sample K → K) (df : Sample K → Sample K → Sample K → Sample K → K)
    (b : BasisData K) (w : Nat → Nat → Sample K) (dx : Nat → Nat → K)
    (dofs : Nat → Nat → Nat) (x : Nat → K) (j i k : Nat) (hj : j < Nb) (hi : i < Nb) (hk : k < nt) :
    (nlJacTriplets Nb nt nq df b w dx dofs x)[flatSlot Nb nt i j k]?
        = some (dofs i k, dofs j k, ∑ q ∈ Finset.range nq,
            df (interp Nb x dofs b k q) (b j k q) (b i k q) (w k q) * dx k q) ∧
    (nlResPairs Nb nt nq f b w dx dofs x)[nt * i + k]?
        = some (dofs i k, -∑ q ∈ Finset.range nq,
            f (interp Nb x dofs b k q) (b i k q) (w k q) * dx k q) ∧
    (nlJacTriplets Nb nt nq df b w dx dofs x).length = Nb * Nb * nt ∧
    (nlResPairs Nb nt nq f b w dx dofs x).length = Nb * nt := by
  refine ⟨?_, ?_, ?_, ?_⟩
  · unfold nlJacTriplets flatSlot
    have hin : ∀ j' < Nb, ((List.range Nb).flatMap (fun i => (List.range nt).map (fun k =>
        (dofs i k, dofs j' k, ((List.range nq).map (fun q =>
          df (interp Nb x dofs b k q) (b j' k q) (b i k q) (w k q) * dx k q)).sum)))).length
          = Nb * nt := by
      intro j' _
      exact length_flatMap_range Nb nt _ (fun i _ => by simp)
    have e : nt * (Nb * j + i) + k = j * (Nb * nt) + (i * nt + k) := by ring
    have hik : i * nt + k < Nb * nt := by
      have h1 : (i + 1) * nt ≤ Nb * nt := Nat.mul_le_mul_right nt hi
      rw [Nat.add_mul] at h1
      omega
    rw [e, getElem?_flatMap_range Nb (Nb * nt) _ hin j (i * nt + k) hj hik,
      getElem?_flatMap_range Nb nt _ (fun i _ => by simp) i k hi hk]
    simp [hk, sum_map_range]
  · unfold nlResPairs
    have e : nt * i + k = i * nt + k := by ring
    rw [e, getElem?_flatMap_range Nb nt _ (fun i _ => by simp) i k hi hk]
    simp [hk, sum_map_range]
  · unfold nlJacTriplets
    rw [length_flatMap_range Nb (Nb * nt) _ (fun j _ =>
      length_flatMap_range Nb nt _ (fun i _ => by simp)), Nat.mul_assoc]
  · unfold nlResPairs
    exact length_flatMap_range Nb nt _ (fun i _ => by simp)

/-- **agreement with the hand-linearised bilinear form**: the Jacobian triplets ARE the C01
    triplets (`BilinearForm._assemble`) of the integrand `(δu, v, w') ↦ DF(prev; δu, v, w)` where the
    interpolated linearisation point `prev = x_h` travels as an extra parameter field — the way a
    hand-linearised `BilinearForm` receives `w['prev']`.  All theorems of `Props/C01.lean` about
    `bilinearTriplets` therefore apply to the autodiff matrix. -/
theorem C20_jacobian_is_assembly_of_linearisation (Nb nt nq : Nat)
    (df : Sample K → Sample K → Sample K → Sample K → K)
    (b : BasisData K) (w : Nat → Nat → Sample K) (dx : Nat → Nat → K)
    (dofs : Nat → Nat → Nat) (x : Nat → K) :
    nlJacTriplets Nb nt nq df b w dx dofs x
      = bilinearTriplets Nb Nb nt nq
          (fun du v s => df (C01.unpack 0 s) du v (C01.unpack 2 s)) b b
          (fun k q => C01.pack3 (interp Nb x dofs b k q) 0 (w k q)) dx dofs dofs := by
  unfold nlJacTriplets bilinearTriplets kernelBil
  simp only [C01.unpack_zero_pack3, C01.unpack_two_pack3]

/-- **the vector is minus the linear form of the integrand at the linearisation point**:
    the right-hand side pairs are the C01 pairs (`LinearForm._assemble`) of
    `(v, w') ↦ f(prev, v, w)`, negated. -/
theorem C20_residual_is_neg_linear_form (Nb nt nq : Nat)
    (f : Sample K → Sample K → Sample K → K)
    (b : BasisData K) (w : Nat → Nat → Sample K) (dx : Nat → Nat → K)
    (dofs : Nat → Nat → Nat) (x : Nat → K) :
    nlResPairs Nb nt nq f b w dx dofs x
      = (linearPairs Nb nt nq (fun v s => f (C01.unpack 0 s) v (C01.unpack 2 s)) b
          (fun k q => C01.pack3 (interp Nb x dofs b k q) 0 (w k q)) dx dofs).map
            (fun p => (p.1, -p.2)) := by
  unfold nlResPairs linearPairs kernelLin
  simp only [C01.unpack_zero_pack3, C01.unpack_two_pack3, List.map_flatMap, List.map_map]
  rfl

end Bookkeeping

section Derivative
variable {𝕜 : Type} [NontriviallyNormedField 𝕜]

/-- the weak residual as a function of the coefficient vector: component `r` is
    `F_r(x) = Σ_{(i,k) : dofs i k = r} Σ_q f(x_h(k,q), φ_i(k,q), w(k,q)) dx(k,q)` -/
def residual {K : Type} [CommRing K] (Nb nt nq : Nat) (f : Sample K → Sample K → Sample K → K)
    (b : BasisData K) (w : Nat → Nat → Sample K) (dx : Nat → Nat → K)
    (dofs : Nat → Nat → Nat) (x : Nat → K) (r : Nat) : K :=
  ∑ i ∈ Finset.range Nb, ∑ k ∈ Finset.range nt,
    if dofs i k = r then
      ∑ q ∈ Finset.range nq, f (interp Nb x dofs b k q) (b i k q) (w k q) * dx k q
    else 0

/-- **JAX contract** at one sample point `(x, v, w)`: the linear map `DF` returned by
    `jax.linearize(λU. form(U, v, w), x)` is the TRUE directional derivative of the integrand in
    the unknown (`jvp`), and it is linear in the direction. -/
structure IsJvpAt (f : Sample 𝕜 → Sample 𝕜 → Sample 𝕜 → 𝕜)
    (df : Sample 𝕜 → Sample 𝕜 → Sample 𝕜 → Sample 𝕜 → 𝕜) (x v w : Sample 𝕜) : Prop where
  deriv : ∀ h, HasDerivAt (fun t : 𝕜 => f (x + t • h) v w) (df x h v w) 0
  add : ∀ h h', df x (h + h') v w = df x h v w + df x h' v w
  smul : ∀ (c : 𝕜) h, df x (c • h) v w = c * df x h v w

/-- **the assembled vector is minus the residual**: entry `r` of the right-hand side returned by
    `NonlinearForm.assemble` is `−F_r(x)` -/
theorem C20_residual_vector {K : Type} [CommRing K] (Nb nt nq : Nat)
    (f : Sample K → Sample K → Sample K → K)
    (b : BasisData K) (w : Nat → Nat → Sample K) (dx : Nat → Nat → K)
    (dofs : Nat → Nat → Nat) (x : Nat → K) (r : Nat) :
    denseVecEntry (nlResPairs Nb nt nq f b w dx dofs x) r
      = -residual Nb nt nq f b w dx dofs x r := by
  have h : nlResPairs Nb nt nq f b w dx dofs x
      = (linearPairs Nb nt nq (fun v s => f (C01.unpack 0 s) v (C01.unpack 2 s)) b
          (fun k q => C01.pack3 (interp Nb x dofs b k q) 0 (w k q)) dx dofs).map
            (fun p => (p.1, -p.2)) := by
    unfold nlResPairs linearPairs kernelLin
    simp only [C01.unpack_zero_pack3, C01.unpack_two_pack3, List.map_flatMap, List.map_map]
    rfl
  rw [h, denseVecEntry_map_neg, denseVecEntry_linearPairs]
  unfold residual
  simp only [kernelLin_eq_sum, C01.unpack_zero_pack3, C01.unpack_two_pack3]

/-- **the assembled matrix is the derivative of the residual with respect to the coefficient vector**
    (chain rule through the linear interpolation): for every direction `e`, `t ↦ F_r(x + t e)` has at
    `t = 0` the derivative `(J e)_r`, with `J e` computed from the COO triplets as `COOData.dot` does.
    Hypothesis: the JAX contract at the sample points the assembly visits.  Holds for EVERY integrand
    differentiable there, every mesh / DOF table / basis / quadrature / linearisation point. -/
theorem C20_jacobian_is_derivative (Nb nt nq : Nat)
    (f : Sample 𝕜 → Sample 𝕜 → Sample 𝕜 → 𝕜)
    (df : Sample 𝕜 → Sample 𝕜 → Sample 𝕜 → Sample 𝕜 → 𝕜)
    (b : BasisData 𝕜) (w : Nat → Nat → Sample 𝕜) (dx : Nat → Nat → 𝕜)
    (dofs : Nat → Nat → Nat) (x e : Nat → 𝕜)
    (hjax : ∀ i < Nb, ∀ k < nt, ∀ q < nq,
      IsJvpAt f df (interp Nb x dofs b k q) (b i k q) (w k q)) (r : Nat) :
    HasDerivAt (fun t : 𝕜 => residual Nb nt nq f b w dx dofs (x + t • e) r)
      (cooDot (nlJacTriplets Nb nt nq df b w dx dofs x) e r) 0 := by
  have hT : nlJacTriplets Nb nt nq df b w dx dofs x
      = bilinearTriplets Nb Nb nt nq
          (fun du v s => df (C01.unpack 0 s) du v (C01.unpack 2 s)) b b
          (fun k q => C01.pack3 (interp Nb x dofs b k q) 0 (w k q)) dx dofs dofs := by
    unfold nlJacTriplets bilinearTriplets kernelBil
    simp only [C01.unpack_zero_pack3, C01.unpack_two_pack3]
  rw [hT, cooDot_bilinearTriplets]
  simp only [kernelBil_eq_sum, C01.unpack_zero_pack3, C01.unpack_two_pack3]
  rw [jacobian_sum_reorder Nb nt nq dofs r
    (fun j i k q => df (interp Nb x dofs b k q) (b j k q) (b i k q) (w k q)) dx e]
  unfold residual
  refine HasDerivAt.fun_sum (fun i hi => HasDerivAt.fun_sum (fun k hk => ?_))
  by_cases h : dofs i k = r
  · simp only [h, if_true]
    refine HasDerivAt.fun_sum (fun q hq => ?_)
    have hc := hjax i (Finset.mem_range.1 hi) k (Finset.mem_range.1 hk) q (Finset.mem_range.1 hq)
    exact (hasDerivAt_comp_interp Nb x e dofs b k q (fun a => f a (b i k q) (w k q))
      (fun h' => df (interp Nb x dofs b k q) h' (b i k q) (w k q)) hc.deriv hc.add
      hc.smul).mul_const (dx k q)
  · simp only [h, if_false]
    exact hasDerivAt_const _ _

/-- entrywise: `J[r, c] = ∂F_r/∂x_c` (dense entry = sum of the duplicate triplets, as
    `coo_matrix` sums them) -/
theorem C20_jacobian_entry_is_partial_derivative (Nb nt nq : Nat)
    (f : Sample 𝕜 → Sample 𝕜 → Sample 𝕜 → 𝕜)
    (df : Sample 𝕜 → Sample 𝕜 → Sample 𝕜 → Sample 𝕜 → 𝕜)
    (b : BasisData 𝕜) (w : Nat → Nat → Sample 𝕜) (dx : Nat → Nat → 𝕜)
    (dofs : Nat → Nat → Nat) (x : Nat → 𝕜)
    (hjax : ∀ i < Nb, ∀ k < nt, ∀ q < nq,
      IsJvpAt f df (interp Nb x dofs b k q) (b i k q) (w k q)) (r c : Nat) :
    HasDerivAt (fun t : 𝕜 => residual Nb nt nq f b w dx dofs (x + t • Pi.single c 1) r)
      (denseEntry (nlJacTriplets Nb nt nq df b w dx dofs x) r c) 0 := by
  rw [← cooDot_single]
  exact C20_jacobian_is_derivative Nb nt nq f df b w dx dofs x _ hjax r

/-- `J e` from the triplets is the dense matrix-vector product (matrix of shape `N × N`, all DOF
    numbers `< N`) -/
theorem C20_jacobian_matvec {K : Type} [CommRing K] (Nb nt nq N : Nat)
    (df : Sample K → Sample K → Sample K → Sample K → K)
    (b : BasisData K) (w : Nat → Nat → Sample K) (dx : Nat → Nat → K)
    (dofs : Nat → Nat → Nat) (x e : Nat → K)
    (hN : ∀ j < Nb, ∀ k < nt, dofs j k < N) (r : Nat) :
    cooDot (nlJacTriplets Nb nt nq df b w dx dofs x) e r
      = ∑ c ∈ Finset.range N, denseEntry (nlJacTriplets Nb nt nq df b w dx dofs x) r c * e c := by
  refine cooDot_eq_sum_dense _ N (fun t ht => ?_) e r
  unfold nlJacTriplets at ht
  simp only [List.mem_flatMap, List.mem_map, List.mem_range] at ht
  obtain ⟨j, hj, i, _, k, hk, rfl⟩ := ht
  exact hN j hj k hk

/-- the JAX contract is PROVED for the polynomial integrand grammar with its formal (Leibniz)
    derivative -/
theorem C20_grammar_satisfies_contract (ts : List (NLTerm 𝕜)) (x v w : Sample 𝕜) :
    IsJvpAt (evalNL ts) (evalNLDeriv ts) x v w :=
  ⟨fun h => hasDerivAt_evalNL ts x h v w, fun h h' => evalNLDeriv_add ts x h h' v w,
    fun c h => evalNLDeriv_smul ts x h v w c⟩

/-- unconditional for the polynomial grammar: the model the driver runs (`nl.assemble`) produces the
    derivative of the residual -/
theorem C20_polynomial_jacobian (Nb nt nq : Nat) (ts : List (NLTerm 𝕜))
    (b : BasisData 𝕜) (w : Nat → Nat → Sample 𝕜) (dx : Nat → Nat → 𝕜)
    (dofs : Nat → Nat → Nat) (x e : Nat → 𝕜) (r : Nat) :
    HasDerivAt (fun t : 𝕜 => residual Nb nt nq (evalNL ts) b w dx dofs (x + t • e) r)
      (cooDot (nlJacTriplets Nb nt nq (evalNLDeriv ts) b w dx dofs x) e r) 0 :=
  C20_jacobian_is_derivative Nb nt nq _ _ b w dx dofs x e
    (fun _ _ _ _ _ _ => C20_grammar_satisfies_contract ts _ _ _) r

/-- an integrand that is affine in the unknown: `f(u, v, w) = a(u, v, w) + l(v, w)` with `a`
    bilinear has the derivative `a(h, v, w)`, whatever the linearisation point -/
theorem C20_affine_derivative (a : Sample 𝕜 → Sample 𝕜 → Sample 𝕜 → 𝕜) (ha : C01.IsBilinear a)
    (l : Sample 𝕜 → Sample 𝕜 → 𝕜) (x h v w : Sample 𝕜) :
    HasDerivAt (fun t : 𝕜 => a (x + t • h) v w + l v w) (a h v w) 0 := by
  have e : (fun t : 𝕜 => a (x + t • h) v w + l v w)
      = fun t : 𝕜 => (a x v w + l v w) + t * a h v w := by
    funext t
    rw [ha.add_left, ha.smul_left]; ring
  rw [e]
  simpa using ((hasDerivAt_id (0 : 𝕜)).mul_const (a h v w)).const_add (a x v w + l v w)

/-- **integrands linear (affine) in the unknown reduce to ordinary assembly**: under the JAX contract
    the Jacobian triplets are literally the C01 triplets of the bilinear part, at every
    linearisation point -/
theorem C20_linear_reduces (Nb nt nq : Nat)
    (a : Sample 𝕜 → Sample 𝕜 → Sample 𝕜 → 𝕜) (ha : C01.IsBilinear a)
    (l : Sample 𝕜 → Sample 𝕜 → 𝕜)
    (df : Sample 𝕜 → Sample 𝕜 → Sample 𝕜 → Sample 𝕜 → 𝕜)
    (hjax : ∀ x v w, IsJvpAt (fun u v w => a u v w + l v w) df x v w)
    (b : BasisData 𝕜) (w : Nat → Nat → Sample 𝕜) (dx : Nat → Nat → 𝕜)
    (dofs : Nat → Nat → Nat) (x : Nat → 𝕜) :
    nlJacTriplets Nb nt nq df b w dx dofs x = bilinearTriplets Nb Nb nt nq a b b w dx dofs dofs := by
  have hdf : ∀ x h v w, df x h v w = a h v w := fun x h v w =>
    HasDerivAt.unique ((hjax x v w).deriv h) (C20_affine_derivative a ha l x h v w)
  unfold nlJacTriplets bilinearTriplets kernelBil
  simp only [hdf]

/-- … and the vector is `−(A x + b_l)` with `A`, `b_l` the ordinary matrix and vector, so that ONE
    Newton step `x + A⁻¹ rhs` solves the linear problem -/
theorem C20_affine_residual {K : Type} [CommRing K] (Nb nt nq : Nat)
    (a : Sample K → Sample K → Sample K → K) (ha : C01.IsBilinear a)
    (l : Sample K → Sample K → K)
    (b : BasisData K) (w : Nat → Nat → Sample K) (dx : Nat → Nat → K)
    (dofs : Nat → Nat → Nat) (x : Nat → K) (r : Nat) :
    denseVecEntry (nlResPairs Nb nt nq (fun u v w => a u v w + l v w) b w dx dofs x) r
      = -(cooDot (bilinearTriplets Nb Nb nt nq a b b w dx dofs dofs) x r
          + denseVecEntry (linearPairs Nb nt nq l b w dx dofs) r) := by
  rw [C20_residual_vector, cooDot_bilinearTriplets, denseVecEntry_linearPairs]
  simp only [kernelBil_eq_sum, kernelLin_eq_sum]
  rw [jacobian_sum_reorder Nb nt nq dofs r (fun j i k q => a (b j k q) (b i k q) (w k q)) dx x]
  unfold residual
  rw [← Finset.sum_add_distrib]
  congr 1
  refine Finset.sum_congr rfl (fun i _ => ?_)
  rw [← Finset.sum_add_distrib]
  refine Finset.sum_congr rfl (fun k _ => ?_)
  by_cases h : dofs i k = r
  · simp only [h, if_true]
    rw [← Finset.sum_add_distrib]
    refine Finset.sum_congr rfl (fun q _ => ?_)
    have h1 : a (interp Nb x dofs b k q) (b i k q) (w k q)
        = ∑ j ∈ Finset.range Nb, x (dofs j k) * a (b j k q) (b i k q) (w k q) := by
      rw [interp_eq_sum_smul]
      exact map_sum_smul_of_linear (fun u => a u (b i k q) (w k q))
        (fun u u' => ha.add_left u u' _ _) (fun c u => ha.smul_left c u _ _) (ha.zero_left _ _)
        Nb (fun j => x (dofs j k)) (fun j => b j k q)
    rw [h1]; ring
  · simp [h]

/-- the energy `E(x) = Σ_k Σ_q W(x_h, w) dx` of `NonlinearForm(hessian=True)` -/
def energy {K : Type} [CommRing K] (Nb nt nq : Nat) (W : Sample K → Sample K → K)
    (b : BasisData K) (w : Nat → Nat → Sample K) (dx : Nat → Nat → K)
    (dofs : Nat → Nat → Nat) (x : Nat → K) : K :=
  ∑ k ∈ Finset.range nt, ∑ q ∈ Finset.range nq, W (interp Nb x dofs b k q) (w k q) * dx k q

/-- `NonlinearForm(hessian=True)`: the integrand is an energy density `W`, `y = jvp(W)(x)[v_i]`; the
    assembled vector is minus the gradient of the energy (`e · rhs = −dE(x)[e]`).  The matrix is then
    the derivative of that gradient by `C20_jacobian_is_derivative` applied to `f := dW`. -/
theorem C20_hessian_mode_gradient (Nb nt nq : Nat) (W : Sample 𝕜 → Sample 𝕜 → 𝕜)
    (dW : Sample 𝕜 → Sample 𝕜 → Sample 𝕜 → 𝕜)
    (b : BasisData 𝕜) (w : Nat → Nat → Sample 𝕜) (dx : Nat → Nat → 𝕜)
    (dofs : Nat → Nat → Nat) (x e : Nat → 𝕜)
    (hjvp : ∀ k < nt, ∀ q < nq,
      (∀ h, HasDerivAt (fun t : 𝕜 => W (interp Nb x dofs b k q + t • h) (w k q))
        (dW (interp Nb x dofs b k q) h (w k q)) 0) ∧
      (∀ h h', dW (interp Nb x dofs b k q) (h + h') (w k q)
        = dW (interp Nb x dofs b k q) h (w k q) + dW (interp Nb x dofs b k q) h' (w k q)) ∧
      (∀ (c : 𝕜) h, dW (interp Nb x dofs b k q) (c • h) (w k q)
        = c * dW (interp Nb x dofs b k q) h (w k q))) :
    HasDerivAt (fun t : 𝕜 => energy Nb nt nq W b w dx dofs (x + t • e))
      (-actionLin (nlResPairs Nb nt nq dW b w dx dofs x) e) 0 := by
  have h : nlResPairs Nb nt nq dW b w dx dofs x
      = (linearPairs Nb nt nq (fun v s => dW (C01.unpack 0 s) v (C01.unpack 2 s)) b
          (fun k q => C01.pack3 (interp Nb x dofs b k q) 0 (w k q)) dx dofs).map
            (fun p => (p.1, -p.2)) := by
    unfold nlResPairs linearPairs kernelLin
    simp only [C01.unpack_zero_pack3, C01.unpack_two_pack3, List.map_flatMap, List.map_map]
    rfl
  rw [h, actionLin_map_neg, neg_neg, actionLin_linearPairs]
  simp only [kernelLin_eq_sum, C01.unpack_zero_pack3, C01.unpack_two_pack3]
  rw [linear_sum_reorder Nb nt nq (fun i k q => dW (interp Nb x dofs b k q) (b i k q) (w k q))
    (fun i k => e (dofs i k)) dx]
  unfold energy
  refine HasDerivAt.fun_sum (fun k hk => HasDerivAt.fun_sum (fun q hq => ?_))
  obtain ⟨h1, h2, h3⟩ := hjvp k (Finset.mem_range.1 hk) q (Finset.mem_range.1 hq)
  exact (hasDerivAt_comp_interp Nb x e dofs b k q (fun a => W a (w k q))
    (fun h' => dW (interp Nb x dofs b k q) h' (w k q)) h1 h2 h3).mul_const (dx k q)


/-- the hypotheses of `C20_linear_reduces` are satisfiable: for every bilinear `a` the pair
    `(a + l, (x, h) ↦ a h)` meets the JAX contract (so does every C01 grammar integrand) -/
theorem C20_affine_contract (a : Sample 𝕜 → Sample 𝕜 → Sample 𝕜 → 𝕜) (ha : C01.IsBilinear a)
    (l : Sample 𝕜 → Sample 𝕜 → 𝕜) (x v w : Sample 𝕜) :
    IsJvpAt (fun u v w => a u v w + l v w) (fun _ h v w => a h v w) x v w :=
  ⟨fun h => C20_affine_derivative a ha l x h v w, fun h h' => ha.add_left h h' v w,
    fun c h => ha.smul_left c h v w⟩

end Derivative

/-- the hypotheses of `C20_hessian_mode_gradient` are satisfiable (polynomial energies) -/
example {𝕜 : Type} [NontriviallyNormedField 𝕜] (ts : List (NLTerm 𝕜)) (x w : Sample 𝕜) :
    (∀ h, HasDerivAt (fun t : 𝕜 => evalNL ts (x + t • h) (fun _ => 1) w)
      (evalNLDeriv ts x h (fun _ => 1) w) 0) ∧
    (∀ h h', evalNLDeriv ts x (h + h') (fun _ => 1) w
      = evalNLDeriv ts x h (fun _ => 1) w + evalNLDeriv ts x h' (fun _ => 1) w) ∧
    (∀ (c : 𝕜) h, evalNLDeriv ts x (c • h) (fun _ => 1) w = c * evalNLDeriv ts x h (fun _ => 1) w) :=
  ⟨fun h => hasDerivAt_evalNL ts x h _ w, fun h h' => evalNLDeriv_add ts x h h' _ w,
    fun c h => evalNLDeriv_smul ts x h _ w c⟩

/-! ### non-vacuity: a concrete nonlinear case (`f = u² v`, one cell, one point, `x = 3`) -/

example : (nlJacTriplets 1 1 1 (evalNLDeriv [⟨(1 : Rat), [0, 0], 0, 0⟩]) (fun _ _ _ _ => 1)
    (fun _ _ _ => 1) (fun _ _ => 1) (fun _ _ => 0) (fun _ => 3)) = [(0, 0, 6)] := by decide +kernel

example : (nlResPairs 1 1 1 (evalNL [⟨(1 : Rat), [0, 0], 0, 0⟩]) (fun _ _ _ _ => 1)
    (fun _ _ _ => 1) (fun _ _ => 1) (fun _ _ => 0) (fun _ => 3)) = [(0, -9)] := by decide +kernel


end Skv.C20
