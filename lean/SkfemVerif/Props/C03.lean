import SkfemVerif.Model.Conformity
import SkfemVerif.Model.Dofs
import SkfemVerif.Props.C04
import SkfemVerif.Gen.ShapeFacts
import Mathlib.Algebra.BigOperators.Group.List.Basic
/-
C03  Discrete functions are globally continuous in the sense of the element.

What is proved here is the LOGIC that makes the one-sided traces agree, for every mesh and every
numbering: (1) two cells that share an entity reference the same DOF numbers for it (from C04);
(2) the sign rules of H(curl) / H(div) / ElementQuadP turn a per-cell reference quantity into a
quantity of the global entity, independent of the local order in which a cell lists the entity;
(3) a trace written as Σ x[dof] ψ(s) is the same from both sides when the (dof, ψ) lists agree up
to order.  The per-element reference facts these rules need (uniform flux / circulation of the
reference functions: `*_moments_ok`) are kernel-checked in Gen/ShapeFacts.lean on the shape
functions traced from the live source.  That the implementation applies exactly these rules and
that all traces agree numerically is the correspondence/search part (props/c03.py).
-/
namespace Skv.C03
open Skv

/-! ### H(curl): tangential continuity -/

/-- the orientation sign undoes the local edge direction -/
theorem C03_hcurl_sign (ta tb : Nat) (h : ta ≠ tb) : hcurlOri ta tb * dirSign ta tb = 1 := by
  unfold hcurlOri dirSign
  by_cases h1 : ta > tb
  · have : ¬ ta < tb := by omega
    simp [h1, this]
  · have : ta < tb := by omega
    simp [h1, this]

/-- **global circulation**: if the reference function attached to a local edge has circulation `c`
    along the local direction `a → b`, the oriented function has circulation `c` along the GLOBAL
    direction low → high — whatever the local direction is.  Hence two cells sharing the edge, in
    which it may be ANY local edge traversed in ANY direction, see the same circulation, provided
    `c` is the same for all local edges of the reference element (`*_moments_ok`). -/
theorem C03_hcurl_global_circulation (ta tb : Nat) (h : ta ≠ tb) (c : Int) :
    hcurlOri ta tb * (dirSign ta tb * c) = c := by
  rw [← Int.mul_assoc, C03_hcurl_sign ta tb h, Int.one_mul]

theorem C03_hcurl_two_cells (ta tb ta' tb' : Nat) (h : ta ≠ tb) (h' : ta' ≠ tb') (c : Int) :
    hcurlOri ta tb * (dirSign ta tb * c) = hcurlOri ta' tb' * (dirSign ta' tb' * c) := by
  rw [C03_hcurl_global_circulation ta tb h, C03_hcurl_global_circulation ta' tb' h']

/-- without uniformity of the reference circulations the rule fails: the reference functions of
    `ElementQuadN1` on the pinned tree had circulations −1, +1, −1, +1 (finding F15) -/
theorem C03_quadn1_old_counterexample :
    hcurlOri 0 1 * (dirSign 0 1 * (-1)) ≠ hcurlOri 0 1 * (dirSign 0 1 * 1) := by decide

/-! ### H(div): normal continuity -/

/-- on an interior facet the two neighbours get opposite signs … -/
theorem C03_hdiv_opposite (f2t0 k0 k1 : Nat) (h0 : f2t0 = k0) (h1 : k1 ≠ k0) :
    hdivOri f2t0 k0 = 1 ∧ hdivOri f2t0 k1 = -1 := by
  subst h0
  unfold hdivOri
  have : (f2t0 == k1) = false := by simpa using (fun h => h1 h.symm)
  simp [this]

/-- … so the flux through the facet in the direction of the FIRST neighbour's outward normal is the
    same from both sides: `(+1) · φ = (−1) · (−φ)` where `−φ` is the second neighbour's reference
    flux measured against the first neighbour's normal (outward normals are opposite) -/
theorem C03_hdiv_flux (f2t0 k0 k1 : Nat) (h0 : f2t0 = k0) (h1 : k1 ≠ k0) (flux : Int) :
    hdivOri f2t0 k0 * flux = hdivOri f2t0 k1 * (-flux) := by
  obtain ⟨a, b⟩ := C03_hdiv_opposite f2t0 k0 k1 h0 h1
  rw [a, b]; omega

/-! ### ElementQuadP: odd edge modes -/

/-- the oriented mode, read in the global direction low → high, does not depend on the local
    traversal direction: reversing the parameter multiplies a mode of order `ind` by its parity,
    and the orientation factor cancels exactly that -/
theorem C03_quadp_mode (ta tb ind : Nat) (h : ta ≠ tb) :
    quadpFactor ta tb ind * (if dirSign ta tb = -1 then modeParity ind else 1) = 1 := by
  unfold quadpFactor modeParity dirSign hcurlOri
  by_cases h1 : ta > tb
  · have h2 : ¬ ta < tb := by omega
    by_cases hp : ind % 2 = 1 <;> simp [h1, h2, hp]
  · have h2 : ta < tb := by omega
    by_cases hp : ind % 2 = 1 <;> simp [h1, h2, hp]

/-- the pinned tree used no orientation factor: an odd mode seen from two cells traversing the edge
    in opposite directions differs by the sign (finding F14) -/
theorem C03_quadp_old_counterexample :
    (1 : Int) * (if dirSign 1 0 = -1 then modeParity 3 else 1)
      ≠ (1 : Int) * (if dirSign 0 1 = -1 then modeParity 3 else 1) := by decide

/-! ### shared entities carry shared DOF numbers (from C04) -/

/-- two cells `k`, `k'` that name the same entity in slots `itr`, `itr'` of a connectivity table
    (vertices: `t`, edges: `t2e`, facets: `t2f`) reference the same global DOF number for every
    local DOF `a` of that entity -/
theorem C03_shared_entity_shared_dof (count off : Nat) (conn : List (List Nat)) (itr a k itr' k' : Nat)
    (hitr : itr < conn.length) (ha : a < count) (hk : k < (conn.getD itr []).length)
    (hitr' : itr' < conn.length) (hk' : k' < (conn.getD itr' []).length)
    (hsame : (conn.getD itr []).getD k 0 = (conn.getD itr' []).getD k' 0) :
    ((gatherRows count off conn).getD (itr * count + a) []).getD k 0
      = ((gatherRows count off conn).getD (itr' * count + a) []).getD k' 0 :=
  (C04.C04_share_iff count off conn itr a k itr' a k' hitr ha hk hitr' ha hk').mpr ⟨rfl, hsame⟩

/-! ### traces -/

/-- a one-sided trace is `Σ x[dof] · ψ(s)` over the (dof, ψ) pairs of the functions that do not
    vanish on the facet; if both neighbours produce the same pairs up to order, the traces agree for
    EVERY coefficient vector and at EVERY point of the facet -/
theorem C03_trace_eq_of_perm {S : Type} (l l' : List (Nat × (S → Int))) (h : l.Perm l')
    (x : Nat → Int) (s : S) :
    (l.map (fun p => x p.1 * p.2 s)).sum = (l'.map (fun p => x p.1 * p.2 s)).sum :=
  (h.map _).sum_eq

/-- non-vacuity -/
example : hcurlOri 5 2 = -1 ∧ dirSign 5 2 = -1 ∧ hdivOri 3 3 = 1 ∧ hdivOri 3 4 = -1 := by decide
example : quadpFactor 5 2 3 = -1 ∧ quadpFactor 5 2 4 = 1 := by decide

end Skv.C03
