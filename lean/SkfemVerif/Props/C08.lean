import SkfemVerif.Model.Quadrature
import SkfemVerif.Gen.QuadFacts
import SkfemVerif.Lemmas.Quadrature
import Mathlib.Algebra.BigOperators.Group.Finset.Basic
import Mathlib.Algebra.Order.Field.Rat
import Mathlib.Algebra.Order.BigOperators.Group.Finset
import Mathlib.Tactic.Ring
import Mathlib.Tactic.Linarith
/-
C08  Quadrature rules deliver their advertised degree on every reference cell.

Model: Model/Quadrature.lean.  The tables `Gen.triTable`, `Gen.tetTable`, `Gen.lineTable` are
REGENERATED from `skfem/quadrature.py` on every run (exact value of every double) together with
the kernel-checked facts `Gen.tri_n_ok`, `Gen.tet_n_ok`, `Gen.line_k_ok` (`decide +kernel`):
all monomials up to the advertised degree within `2^-40`, weights sum to the measure, nodes in
the closed cell.  This file lifts those finite facts to ALL polynomials and ALL orders.
-/
namespace Skv.C08
open Skv

/-! ### rational semantics of a scaled-integer rule

The definitions `nodeQ`, `monoQ`, `applyFun`, `QPoly`, `evalPoly`, `l1`, `exactQ`,
`exactPolySimplex`, `exactPolyBox` (namespace `Skv.C08`) live in `Lemmas/Quadrature.lean`,
together with the helper lemmas used below. -/

/-- the integer sum computed by the checker IS the rule applied to the monomial -/
theorem C08_applyMono_sound (r : IRule) (e : List Nat)
    (hdim : ∀ p ∈ r.pts, p.1.length = e.length) :
    applyFun r (fun x => monoQ x e) = (r.applyMono e : ℚ) / 2 ^ (r.SW + r.S * e.sum) := by
  exact applyMono_sound r e hdim

/-- soundness of the reflection check for one monomial -/
theorem C08_okMono_sound (r : IRule) (e : List Nat) (ex : Nat × Nat) (tol : Nat)
    (hden : 0 < ex.2) (hdim : ∀ p ∈ r.pts, p.1.length = e.length)
    (h : okMono r e ex tol = true) :
    |applyFun r (fun x => monoQ x e) - exactQ ex| ≤ 1 / 2 ^ tol := by
  exact okMono_sound r e ex tol hden hdim h

theorem C08_mem_simplexExponents (d n : Nat) (e : List Nat) :
    e ∈ simplexExponents d n ↔ e.length = d ∧ e.sum ≤ n := by
  exact mem_simplexExponents d n e

theorem C08_mem_boxExponents (d n : Nat) (e : List Nat) :
    e ∈ boxExponents d n ↔ e.length = d ∧ ∀ a ∈ e, a ≤ n := by
  exact mem_boxExponents n d e

/-- the rule is linear in the integrand -/
theorem C08_applyFun_poly (r : IRule) (p : QPoly) :
    applyFun r (evalPoly p) = (p.map (fun t => t.1 * applyFun r (fun x => monoQ x t.2))).sum := by
  exact applyFun_poly r p

/-- **lift to all polynomials** (simplex): if the checker accepts the rule for degree `n`, then
    for EVERY polynomial of total degree ≤ `n` in `d` variables the rule is exact within
    `2^-tol · ‖p‖₁` -/
theorem C08_lift_simplex (r : IRule) (d n tol : Nat)
    (hdim : ∀ p ∈ r.pts, p.1.length = d)
    (h : okAllSimplex r d n tol = true) (p : QPoly)
    (hp : ∀ t ∈ p, t.2.length = d ∧ t.2.sum ≤ n) :
    |applyFun r (evalPoly p) - exactPolySimplex p| ≤ l1 p / 2 ^ tol := by
  rw [C08_applyFun_poly, div_eq_mul_one_div]
  exact lift_terms (fun e => applyFun r (fun x => monoQ x e)) (fun e => exactQ (exactSimplex e))
    (1 / 2 ^ tol) p (fun t ht => okAllSimplex_mono h hdim t.2 (hp t ht).1 (hp t ht).2)

/-- **lift to all polynomials** (box, degree ≤ `n` in each direction) -/
theorem C08_lift_box (r : IRule) (d n tol : Nat)
    (hdim : ∀ p ∈ r.pts, p.1.length = d)
    (h : okAllBox r d n tol = true) (p : QPoly)
    (hp : ∀ t ∈ p, t.2.length = d ∧ ∀ a ∈ t.2, a ≤ n) :
    |applyFun r (evalPoly p) - exactPolyBox p| ≤ l1 p / 2 ^ tol := by
  rw [C08_applyFun_poly, div_eq_mul_one_div]
  exact lift_terms (fun e => applyFun r (fun x => monoQ x e)) (fun e => exactQ (exactBox e))
    (1 / 2 ^ tol) p (fun t ht => okAllBox_mono h hdim t.2 (hp t ht).1 (hp t ht).2)

/-! ### every order the library offers -/

/-- effective order after the clamping of `get_quadrature_tri` -/
def triOrder (n : Int) : Nat := if n ≤ 1 then 2 else n.toNat
def tetOrder (n : Int) : Nat := if n < 1 then 1 else n.toNat

/-- **triangles, every order**: whatever rule the lookup returns for a requested order `n` is
    accepted by the checker for the (clamped) order, which is at least `n`; its nodes lie in the
    closed triangle and its weights sum to 1/2 -/
theorem C08_tri_all_orders (n : Int) (r : IRule) (h : lookupTri Gen.triTable n = some r) :
    okAllSimplex r 2 (triOrder n) Gen.quadTol = true ∧ insideSimplex r = true
      ∧ weightsOk r (1, 2) Gen.quadTol = true ∧ n ≤ (triOrder n : Int) := by
  have hm := Gen.triTable_ok _ (lookup_some h)
  simp only [Bool.and_eq_true] at hm
  refine ⟨hm.1.1, hm.1.2, hm.2, ?_⟩
  unfold triOrder
  split <;> omega

theorem C08_tet_all_orders (n : Int) (r : IRule) (h : lookupTet Gen.tetTable n = some r) :
    okAllSimplex r 3 (tetOrder n) Gen.quadTol = true ∧ insideSimplex r = true
      ∧ weightsOk r (1, 6) Gen.quadTol = true ∧ n ≤ (tetOrder n : Int) := by
  have hm := Gen.tetTable_ok _ (lookup_some h)
  simp only [Bool.and_eq_true] at hm
  refine ⟨hm.1.1, hm.1.2, hm.2, ?_⟩
  unfold tetOrder
  split <;> omega

/-- the key lists emitted by the generator are the keys of the tables (keys only) -/
theorem triTable_keys : Gen.triTable.map (·.1) = Gen.triKeys := by decide +kernel

theorem tetTable_keys : Gen.tetTable.map (·.1) = Gen.tetKeys := by decide +kernel

/-- orders outside the table raise (`none`) instead of returning a weaker rule: the lookup
    succeeds exactly for the keys of the table -/
theorem C08_tri_error_iff (n : Int) :
    lookupTri Gen.triTable n = none ↔ triOrder n ∉ Gen.triKeys := by
  rw [← triTable_keys]
  exact lookup_none_iff Gen.triTable (triOrder n)

theorem C08_tet_error_iff (n : Int) :
    lookupTet Gen.tetTable n = none ↔ tetOrder n ∉ Gen.tetKeys := by
  rw [← tetTable_keys]
  exact lookup_none_iff Gen.tetTable (tetOrder n)

/-- Gauss–Legendre with `k = lineNumPoints n` points is asked to be exact to degree `2k − 1 ≥ n` -/
theorem C08_line_degree (n : Int) : n ≤ ((2 * lineNumPoints n - 1 : Nat) : Int) := by
  unfold lineNumPoints
  simp only []
  split <;> omega

theorem C08_line_all_tabulated (n : Int) (r : IRule) (h : lookupLine Gen.lineTable n = some r) :
    okAllSimplex r 1 (2 * lineNumPoints n - 1) Gen.quadTol = true ∧ insideBox r = true
      ∧ weightsOk r (1, 1) Gen.quadTol = true := by
  have hm := Gen.lineTable_ok _ (lookup_some h)
  simp only [Bool.and_eq_true] at hm
  exact ⟨hm.1.1, hm.1.2, hm.2⟩

/-! ### tensor-product cells -/

/-- the quadrilateral rule applied to `x^a y^b` factorises into the 1-D sums -/
theorem C08_tensor2_mono (r : IRule) (a b : Nat) (hdim : ∀ p ∈ r.pts, p.1.length = 1) :
    (tensor2 r).applyMono [a, b] = r.applyMono [a] * r.applyMono [b] := by
  exact tensor2_mono r a b hdim

theorem C08_tensor3_mono (r : IRule) (a b c : Nat) (hdim : ∀ p ∈ r.pts, p.1.length = 1) :
    (tensor3 r).applyMono [a, b, c] = r.applyMono [a] * r.applyMono [b] * r.applyMono [c] := by
  exact tensor3_mono r a b c hdim

/-- prism rule applied to `x^a y^b z^c` = triangle sum × line sum -/
theorem C08_tensorPrism_mono (tri line : IRule) (a b c : Nat)
    (htri : ∀ p ∈ tri.pts, p.1.length = 2) (hline : ∀ p ∈ line.pts, p.1.length = 1) :
    (tensorPrism tri line).applyMono [a, b, c] = tri.applyMono [a, b] * line.applyMono [c] := by
  have _ := hline  -- not needed: `powProd` truncates both sides alike
  exact tensorPrism_mono tri line a b c htri

/-- **quadrilateral**: a 1-D rule exact (within `ε = 2^-tol`) up to degree `m` gives a tensor rule
    exact within `3ε` for every monomial of degree ≤ `m` in each direction -/
theorem C08_quad_exact (r : IRule) (m tol : Nat) (hdim : ∀ p ∈ r.pts, p.1.length = 1)
    (h : okAllSimplex r 1 m tol = true) (a b : Nat) (ha : a ≤ m) (hb : b ≤ m) :
    |applyFun (tensor2 r) (fun x => monoQ x [a, b]) - exactQ (exactBox [a, b])| ≤ 3 / 2 ^ tol := by
  have hε := eps_bounds tol
  rw [applyFun_tensor2 r a b hdim, exactQ_box2, div_eq_mul_one_div]
  exact prod2_le hε.1 hε.2 (line_mono h hdim a ha) (line_mono h hdim b hb)
    (abs_le_one_of_bounds (exactQ_box1_bounds a)) (abs_le_one_of_bounds (exactQ_box1_bounds b))

/-- **hexahedron**: within `7ε` -/
theorem C08_hex_exact (r : IRule) (m tol : Nat) (hdim : ∀ p ∈ r.pts, p.1.length = 1)
    (h : okAllSimplex r 1 m tol = true) (a b c : Nat) (ha : a ≤ m) (hb : b ≤ m) (hc : c ≤ m) :
    |applyFun (tensor3 r) (fun x => monoQ x [a, b, c]) - exactQ (exactBox [a, b, c])| ≤ 7 / 2 ^ tol := by
  have hε := eps_bounds tol
  rw [applyFun_tensor3 r a b c hdim, exactQ_box3, div_eq_mul_one_div]
  exact prod3_le hε.1 hε.2 (line_mono h hdim a ha) (line_mono h hdim b hb) (line_mono h hdim c hc)
    (abs_le_one_of_bounds (exactQ_box1_bounds a)) (abs_le_one_of_bounds (exactQ_box1_bounds b))
    (abs_le_one_of_bounds (exactQ_box1_bounds c))

/-- **prism**: total degree ≤ `n` in (x, y) and degree ≤ `m` in z, within `3ε` -/
theorem C08_prism_exact (tri line : IRule) (n m tol : Nat)
    (htri : ∀ p ∈ tri.pts, p.1.length = 2) (hline : ∀ p ∈ line.pts, p.1.length = 1)
    (hS : tri.S = line.S)
    (h1 : okAllSimplex tri 2 n tol = true) (h2 : okAllSimplex line 1 m tol = true)
    (a b c : Nat) (hab : a + b ≤ n) (hc : c ≤ m) :
    |applyFun (tensorPrism tri line) (fun x => monoQ x [a, b, c]) - exactQ (exactPrism [a, b, c])|
      ≤ 3 / 2 ^ tol := by
  have hε := eps_bounds tol
  rw [applyFun_tensorPrism tri line a b c htri hline hS, exactQ_prism, div_eq_mul_one_div]
  exact prod2_le hε.1 hε.2
    (okAllSimplex_mono h1 htri [a, b] rfl (by simpa using hab)) (line_mono h2 hline c hc)
    (abs_le_one_of_bounds (exactQ_simplex2_bounds a b))
    (abs_le_one_of_bounds (exactQ_box1_bounds c))

/-- tensor rules keep their nodes in the closed cell -/
theorem C08_tensor2_inside (r : IRule) (h : insideBox r = true) : insideBox (tensor2 r) = true := by
  exact tensor2_inside r h

theorem C08_tensor3_inside (r : IRule) (h : insideBox r = true) : insideBox (tensor3 r) = true := by
  exact tensor3_inside r h

/-- **prism nodes lie in the closed prism**: every node of the tensor rule is a triangle node
    (non-negative coordinates with sum ≤ 1, scaled by `2^S`) followed by a line node in `[0, 1]` -/
theorem C08_prism_inside (tri line : IRule) (hS : tri.S = line.S)
    (h1 : insideSimplex tri = true) (h2 : insideBox line = true) :
    ∀ p ∈ (tensorPrism tri line).pts, ∃ a b, p.1 = a ++ b
      ∧ (∀ x ∈ a, 0 ≤ x) ∧ a.sum ≤ 2 ^ (tensorPrism tri line).S
      ∧ (∀ x ∈ b, 0 ≤ x ∧ x ≤ 2 ^ (tensorPrism tri line).S) := by
  intro p hp
  simp only [tensorPrism, List.mem_flatMap, List.mem_map] at hp
  obtain ⟨pl, hpl, pt, hpt, rfl⟩ := hp
  simp only [insideSimplex, List.all_eq_true, Bool.and_eq_true, decide_eq_true_eq] at h1
  simp only [insideBox, List.all_eq_true, Bool.and_eq_true, decide_eq_true_eq] at h2
  refine ⟨pt.1, pl.1, rfl, (h1 pt hpt).1, (h1 pt hpt).2, ?_⟩
  intro x hx
  have := h2 pl hpl x hx
  simp only [tensorPrism]
  rw [hS]; exact this

/-- the weights of the prism rule sum to (triangle weight sum) × (line weight sum) -/
theorem C08_prism_weights (tri line : IRule) :
    ((tensorPrism tri line).pts.map (·.2)).sum
      = (tri.pts.map (·.2)).sum * (line.pts.map (·.2)).sum := by
  simp only [tensorPrism]
  induction line.pts with
  | nil => simp
  | cons pl rest ih =>
    simp only [List.flatMap_cons, List.map_append, List.sum_append, List.map_cons, List.sum_cons, ih,
      List.map_map]
    have : (List.map ((fun x => x.2) ∘ fun pt => (pt.1 ++ pl.1, pl.2 * pt.2)) tri.pts).sum
        = pl.2 * (tri.pts.map (·.2)).sum := by
      induction tri.pts with
      | nil => simp
      | cons q qs ih2 => simp only [List.map_cons, List.sum_cons, Function.comp, ih2]; ring
    rw [this]; ring

/-- non-vacuity: the generated tables are non-empty and the lookup finds the rules -/
example : (lookupTri Gen.triTable 5).isSome = true := by decide +kernel
example : (lookupTri Gen.triTable 0) = some Gen.tri_2 := by decide +kernel
example : (lookupTet Gen.tetTable 7).isSome = true := by decide +kernel
example : lookupLine Gen.lineTable 5 = some Gen.line_3 := by decide +kernel

end Skv.C08
