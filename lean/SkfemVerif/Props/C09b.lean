import Mathlib.Algebra.MvPolynomial.PDeriv
import Mathlib.Algebra.MvPolynomial.Monad
import Mathlib.LinearAlgebra.Matrix.NonsingularInverse
import Mathlib.Tactic.Ring
/-
C09 (second part)  Mapped derivatives: the pull-back and Piola formulas used by
`ElementH1.gbasis`, `ElementHdiv.gbasis`, `ElementHcurl.gbasis` deliver the TRUE global
derivatives on every non-degenerate affine cell.

Setting: `R` a commutative ring (ℚ, ℝ), reference polynomials `φ̂ : MvPolynomial (Fin d) R`,
the inverse reference map `invF_i(x) = Σ_j Binv i j · (x_j − c_j)` (affine), `ψ = φ̂ ∘ invF`.
`A` is the Jacobian `DF`, `Binv` its inverse (`Binv * A = 1`, `A * Binv = 1`).
What the code computes: `grad[j] = Σ_i invDF[i, j] · dphi[i]` (einsum 'ijkl,il->jkl'),
`value = DF φ̂ / det` and `div = div̂ φ̂ / det` for H(div), `value = invDFᵀ φ̂`, `curl = curl̂ φ̂ / det`
(2-D) for H(curl).
-/
namespace Skv.C09b
open MvPolynomial

variable {R : Type} [CommRing R] {d : Nat}

/-- the affine substitution `X_i ↦ Σ_j Binv i j • (X_j − c_j)` -/
noncomputable def invMap (Binv : Matrix (Fin d) (Fin d) R) (c : Fin d → R) :
    Fin d → MvPolynomial (Fin d) R :=
  fun i => ∑ j, C (Binv i j) * (X j - C (c j))

/-- pull-back of a reference polynomial to the cell: `ψ = φ̂ ∘ invF` -/
noncomputable def pullback (Binv : Matrix (Fin d) (Fin d) R) (c : Fin d → R)
    (p : MvPolynomial (Fin d) R) : MvPolynomial (Fin d) R :=
  bind₁ (invMap Binv c) p

/-- **chain rule** for polynomial substitution -/
theorem C09_chain_rule {e : Nat} (g : Fin d → MvPolynomial (Fin e) R) (p : MvPolynomial (Fin d) R)
    (j : Fin e) :
    pderiv j (bind₁ g p) = ∑ i, bind₁ g (pderiv i p) * pderiv j (g i) := by
  induction p using MvPolynomial.induction_on with
  | C a => simp
  | add p q hp hq =>
    simp only [map_add, hp, hq, add_mul, Finset.sum_add_distrib]
  | mul_X p n hp =>
    classical
    have h1 : ∀ x : Fin d, bind₁ g ((Pi.single x 1 : Fin d → MvPolynomial (Fin d) R) n)
        = if x = n then 1 else 0 := by
      intro x
      rw [Pi.single_apply]
      by_cases hx : x = n
      · simp [hx]
      · have hx' : ¬ n = x := fun h => hx h.symm
        simp [hx, hx']
    simp only [map_mul, map_add, Derivation.leibniz, bind₁_X_right, smul_eq_mul, hp, pderiv_X, h1,
      Finset.mul_sum, add_mul, Finset.sum_add_distrib, mul_ite, ite_mul, mul_one, mul_zero,
      zero_mul, Finset.sum_ite_eq', Finset.mem_univ, if_true]
    congr 1
    apply Finset.sum_congr rfl
    intro i _
    ring

/-- derivative of the affine inverse map: `∂_j invF_i = Binv i j` -/
theorem C09_pderiv_invMap (Binv : Matrix (Fin d) (Fin d) R) (c : Fin d → R) (i j : Fin d) :
    pderiv j (invMap Binv c i) = C (Binv i j) := by
  classical
  simp only [invMap, map_sum, pderiv_C_mul, map_sub, pderiv_C, sub_zero, pderiv_X]
  rw [Finset.sum_eq_single j]
  · simp
  · intro b _ hb
    simp [hb]
  · intro h
    exact absurd (Finset.mem_univ j) h

/-- **H1 pull-back**: the global gradient of `ψ = φ̂ ∘ invF` is `invDFᵀ ∇̂φ̂` evaluated at the
    pulled-back point: component `j` is `Σ_i invDF[i, j] · (∂_i φ̂) ∘ invF` — exactly the einsum of
    `ElementH1.gbasis` -/
theorem C09_h1_pullback (Binv : Matrix (Fin d) (Fin d) R) (c : Fin d → R)
    (p : MvPolynomial (Fin d) R) (j : Fin d) :
    pderiv j (pullback Binv c p) = ∑ i, C (Binv i j) * pullback Binv c (pderiv i p) := by
  unfold pullback
  rw [C09_chain_rule]
  apply Finset.sum_congr rfl
  intro i _
  rw [C09_pderiv_invMap, mul_comm]

/-- second derivatives: the Hessian transforms with `invDFᵀ · Ĥ · invDF` -/
theorem C09_h1_pullback_hess (Binv : Matrix (Fin d) (Fin d) R) (c : Fin d → R)
    (p : MvPolynomial (Fin d) R) (j k : Fin d) :
    pderiv k (pderiv j (pullback Binv c p))
      = ∑ i, ∑ l, C (Binv i j * Binv l k) * pullback Binv c (pderiv l (pderiv i p)) := by
  rw [C09_h1_pullback, map_sum]
  apply Finset.sum_congr rfl
  intro i _
  rw [pderiv_C_mul, C09_h1_pullback, Finset.mul_sum]
  apply Finset.sum_congr rfl
  intro l _
  rw [C_mul, mul_assoc]

/-- **contravariant Piola map** (H(div)): for `u_j = δ · Σ_k A j k · φ̂_k ∘ invF` (δ = 1/det, any
    constant), `div u = δ · (div̂ φ̂) ∘ invF` -/
theorem C09_piola_div (A Binv : Matrix (Fin d) (Fin d) R) (hinv : Binv * A = 1) (c : Fin d → R)
    (δ : R) (φ : Fin d → MvPolynomial (Fin d) R) :
    ∑ j, pderiv j (C δ * ∑ k, C (A j k) * pullback Binv c (φ k))
      = C δ * pullback Binv c (∑ k, pderiv k (φ k)) := by
  have hpb : ∀ q : Fin d → MvPolynomial (Fin d) R,
      pullback Binv c (∑ k, q k) = ∑ k, pullback Binv c (q k) := by
    intro q
    unfold pullback
    rw [map_sum]
  have hent : ∀ i k : Fin d, ∑ j, Binv i j * A j k = if i = k then 1 else 0 := by
    intro i k
    have := congrFun (congrFun hinv i) k
    rw [Matrix.mul_apply, Matrix.one_apply] at this
    exact this
  simp only [pderiv_C_mul, map_sum, C09_h1_pullback, hpb, Finset.mul_sum]
  rw [Finset.sum_comm]
  apply Finset.sum_congr rfl
  intro k _
  rw [Finset.sum_comm]
  have : ∀ i : Fin d, ∑ j, C δ * (C (A j k) * (C (Binv i j) * pullback Binv c (pderiv i (φ k))))
      = C δ * (C (∑ j, Binv i j * A j k) * pullback Binv c (pderiv i (φ k))) := by
    intro i
    rw [map_sum, Finset.sum_mul, Finset.mul_sum]
    apply Finset.sum_congr rfl
    intro j _
    rw [C_mul]
    ring
  simp only [this, hent]
  rw [Finset.sum_eq_single k]
  · simp
  · intro b _ hb
    simp [hb]
  · intro h
    exact absurd (Finset.mem_univ k) h

/-- **covariant Piola map in 2-D** (H(curl)): for `u_j = Σ_i Binv i j · φ̂_i ∘ invF` the scalar curl is
    `det(Binv) · (curl̂ φ̂) ∘ invF` (= curl̂ φ̂ / det DF) -/
theorem C09_piola_curl2 (Binv : Matrix (Fin 2) (Fin 2) R) (c : Fin 2 → R)
    (φ : Fin 2 → MvPolynomial (Fin 2) R) :
    pderiv 0 (∑ i, C (Binv i 1) * pullback Binv c (φ i))
        - pderiv 1 (∑ i, C (Binv i 0) * pullback Binv c (φ i))
      = C (Binv.det) * pullback Binv c (pderiv 0 (φ 1) - pderiv 1 (φ 0)) := by
  have hsub : ∀ a b : MvPolynomial (Fin 2) R,
      pullback Binv c (a - b) = pullback Binv c a - pullback Binv c b := by
    intro a b
    unfold pullback
    rw [map_sub]
  simp only [map_add, pderiv_C_mul, C09_h1_pullback, Fin.sum_univ_two,
    Matrix.det_fin_two, hsub, C_sub, C_mul]
  ring

/-- the pull-back really is composition with the inverse map: evaluating `ψ` at `x` is evaluating
    `φ̂` at `invF x` -/
theorem C09_pullback_eval (Binv : Matrix (Fin d) (Fin d) R) (c : Fin d → R)
    (p : MvPolynomial (Fin d) R) (x : Fin d → R) :
    eval x (pullback Binv c p) = eval (fun i => ∑ j, Binv i j * (x j - c j)) p := by
  unfold pullback
  have h := aeval_bind₁ x (invMap Binv c) p
  simp only [aeval_eq_eval] at h
  rw [h]
  congr 2
  funext i
  simp [invMap]

end Skv.C09b
