import SkfemVerif.Model.Affine
import SkfemVerif.Lemmas.Affine
import Mathlib.LinearAlgebra.Matrix.Determinant.Basic
import Mathlib.Algebra.Order.Field.Basic
import Mathlib.Tactic.Ring
import Mathlib.Tactic.FieldSimp
import Mathlib.Tactic.Linarith
import Mathlib.Tactic.IntervalCases
import Mathlib.Tactic.LinearCombination
/-
C10  Reference maps, Jacobians, facet maps and normals are mutually consistent.

Model: Model/Affine.lean over the closed-form blocks of `Gen/AffineFormulas.lean`, which
`harness/skv/gens/affine.py` re-extracts from the live source on every run (restricted AST translator:
`_init_Ab`, `_init_invA`, `_init_boundary_mapping`, `normals`, `detDF`, `invDF`, `detDG`, the `lbasis` of the
mapping elements LineP1/TriP1/TetP1/Quad1/Hex1/Wedge1/LineP2/TriP2/TetP2, the tables of `refdom.py`, the output sizing of `Fmap/_J/bndmap/bndJ`, the key of
`hash_args`).  Tie for the hand-written parts (matrix-vector contractions, nodal expansion): correspondence
ops `map.aff`, `map.affbnd`, `map.iso`, `map.isobnd`, `map.outshape`, `map.hashkey`.

`K` is any field (any linearly ordered field where a sign is asserted); cells, points, matrices arbitrary.
Dimension `d ∈ {1, 2, 3}` (the code raises otherwise).
-/
namespace Skv.C10
open Skv.Map Skv.Gen.Map

/-! ## A. `MappingAffine`: A, b, determinant, inverse, F, invF, DF -/

section Field
variable {K : Type} [Field K]

/-- the transcribed determinants are the determinant -/
theorem C10_affine_det (A : Nat → Nat → K) :
    affDet 1 A = Matrix.det (Matrix.of fun (i j : Fin 1) => A i.val j.val)
    ∧ affDet 2 A = Matrix.det (Matrix.of fun (i j : Fin 2) => A i.val j.val)
    ∧ affDet 3 A = Matrix.det (Matrix.of fun (i j : Fin 3) => A i.val j.val) := by
  refine ⟨?_, ?_, ?_⟩
  · simp [affDet, affDet1]
  · rw [Matrix.det_fin_two]; simp [affDet, affDet2]
  · rw [Matrix.det_fin_three]; simp [affDet, affDet3]; ring

/-- the transcribed inverse is a two-sided inverse whenever the determinant does not vanish -/
theorem C10_affine_inv (d : Nat) (hd : d = 1 ∨ d = 2 ∨ d = 3) (A : Nat → Nat → K)
    (h : affDet d A ≠ 0) (i j : Nat) (hi : i < d) (hj : j < d) :
    mulMat d (affInv d A) A i j = (if i = j then 1 else 0)
    ∧ mulMat d A (affInv d A) i j = (if i = j then 1 else 0) :=
  ⟨affInv_mul d hd A h i j hi hj, mul_affInv d hd A h i j hi hj⟩

/-- the branch of `_init_Ab` for a cell subset (`tind` given to the constructor) computes the same
    `A`, `b` as the branch for all cells -/
theorem C10_affine_Ab_subset_branch (v : Nat → Nat → K) :
    affASub v = affA v ∧ affbSub v = affb v := ⟨rfl, rfl⟩

/-- `F` sends the vertices of the reference simplex (table `refdom.p`) to the vertices of the cell -/
theorem C10_affine_F_vertices (v : Nat → Nat → K) :
    (∀ k ≤ 1, ∀ i < 1, cellF 1 v (refVertex refLineP k) i = v k i)
    ∧ (∀ k ≤ 2, ∀ i < 2, cellF 2 v (refVertex refTriP k) i = v k i)
    ∧ (∀ k ≤ 3, ∀ i < 3, cellF 3 v (refVertex refTetP k) i = v k i) := cellF_vertices v

/-- `F ∘ invF = id` -/
theorem C10_affine_F_invF (d : Nat) (hd : d = 1 ∨ d = 2 ∨ d = 3) (A : Nat → Nat → K) (b x : Nat → K)
    (h : affDet d A ≠ 0) (i : Nat) (hi : i < d) :
    affF d A b (affInvF d (affInv d A) b x) i = x i := by
  have key := fun i j hi hj => mul_affInv d hd A h i j hi hj
  rcases hd with rfl | rfl | rfl
  · interval_cases i
    have h00 := key 0 0 (by omega) (by omega)
    simp [mulMat] at h00
    simp only [affF, affInvF, mulVec, sumN_one]
    linear_combination (x 0 - b 0) * h00
  · have h00 := key 0 0 (by omega) (by omega)
    have h01 := key 0 1 (by omega) (by omega)
    have h10 := key 1 0 (by omega) (by omega)
    have h11 := key 1 1 (by omega) (by omega)
    simp [mulMat] at h00 h01 h10 h11
    interval_cases i <;> simp only [affF, affInvF, mulVec, sumN_two]
    · linear_combination (x 0 - b 0) * h00 + (x 1 - b 1) * h01
    · linear_combination (x 0 - b 0) * h10 + (x 1 - b 1) * h11
  · have h00 := key 0 0 (by omega) (by omega)
    have h01 := key 0 1 (by omega) (by omega)
    have h02 := key 0 2 (by omega) (by omega)
    have h10 := key 1 0 (by omega) (by omega)
    have h11 := key 1 1 (by omega) (by omega)
    have h12 := key 1 2 (by omega) (by omega)
    have h20 := key 2 0 (by omega) (by omega)
    have h21 := key 2 1 (by omega) (by omega)
    have h22 := key 2 2 (by omega) (by omega)
    simp [mulMat] at h00 h01 h02 h10 h11 h12 h20 h21 h22
    interval_cases i <;> simp only [affF, affInvF, mulVec, sumN_three]
    · linear_combination (x 0 - b 0) * h00 + (x 1 - b 1) * h01 + (x 2 - b 2) * h02
    · linear_combination (x 0 - b 0) * h10 + (x 1 - b 1) * h11 + (x 2 - b 2) * h12
    · linear_combination (x 0 - b 0) * h20 + (x 1 - b 1) * h21 + (x 2 - b 2) * h22

/-- `invF ∘ F = id` -/
theorem C10_affine_invF_F (d : Nat) (hd : d = 1 ∨ d = 2 ∨ d = 3) (A : Nat → Nat → K) (b X : Nat → K)
    (h : affDet d A ≠ 0) (i : Nat) (hi : i < d) :
    affInvF d (affInv d A) b (affF d A b X) i = X i := by
  have key := fun i j hi hj => affInv_mul d hd A h i j hi hj
  rcases hd with rfl | rfl | rfl
  · interval_cases i
    have h00 := key 0 0 (by omega) (by omega)
    simp [mulMat] at h00
    simp only [affF, affInvF, mulVec, sumN_one]
    linear_combination (X 0) * h00
  · have h00 := key 0 0 (by omega) (by omega)
    have h01 := key 0 1 (by omega) (by omega)
    have h10 := key 1 0 (by omega) (by omega)
    have h11 := key 1 1 (by omega) (by omega)
    simp [mulMat] at h00 h01 h10 h11
    interval_cases i <;> simp only [affF, affInvF, mulVec, sumN_two]
    · linear_combination (X 0) * h00 + (X 1) * h01
    · linear_combination (X 0) * h10 + (X 1) * h11
  · have h00 := key 0 0 (by omega) (by omega)
    have h01 := key 0 1 (by omega) (by omega)
    have h02 := key 0 2 (by omega) (by omega)
    have h10 := key 1 0 (by omega) (by omega)
    have h11 := key 1 1 (by omega) (by omega)
    have h12 := key 1 2 (by omega) (by omega)
    have h20 := key 2 0 (by omega) (by omega)
    have h21 := key 2 1 (by omega) (by omega)
    have h22 := key 2 2 (by omega) (by omega)
    simp [mulMat] at h00 h01 h02 h10 h11 h12 h20 h21 h22
    interval_cases i <;> simp only [affF, affInvF, mulVec, sumN_three]
    · linear_combination (X 0) * h00 + (X 1) * h01 + (X 2) * h02
    · linear_combination (X 0) * h10 + (X 1) * h11 + (X 2) * h12
    · linear_combination (X 0) * h20 + (X 1) * h21 + (X 2) * h22

/-- `DF = A`: the increment of `F` is exactly `A H` (so the matrix returned by `DF` is the derivative
    and `detDF = det A` is its determinant, see `C10_affine_det`) -/
theorem C10_affine_DF (d : Nat) (hd : d = 1 ∨ d = 2 ∨ d = 3) (A : Nat → Nat → K) (b X H : Nat → K)
    (i : Nat) : affF d A b (fun j => X j + H j) i - affF d A b X i = mulVec d A H i := by
  rcases hd with rfl | rfl | rfl <;> simp [affF, mulVec] <;> ring


/-! ## B. `MappingIsoparametric`: determinant, inverse, Jacobian as derivative, P1 = affine -/

/-- `detDF` is the determinant of the matrix of `J` values -/
theorem C10_iso_det (J : Nat → Nat → K) :
    isoDet 1 J = Matrix.det (Matrix.of fun (i j : Fin 1) => J i.val j.val)
    ∧ isoDet 2 J = Matrix.det (Matrix.of fun (i j : Fin 2) => J i.val j.val)
    ∧ isoDet 3 J = Matrix.det (Matrix.of fun (i j : Fin 3) => J i.val j.val) := by
  simp only [isoDet_eq_affDet]
  exact C10_affine_det J

/-- `invDF` (adjugate formulas divided by `detDF`) is a two-sided inverse of `DF` -/
theorem C10_iso_inv (d : Nat) (hd : d = 1 ∨ d = 2 ∨ d = 3) (J : Nat → Nat → K)
    (h : isoDet d J ≠ 0) (i j : Nat) (hi : i < d) (hj : j < d) :
    mulMat d (isoInv d J) J i j = (if i = j then 1 else 0)
    ∧ mulMat d J (isoInv d J) i j = (if i = j then 1 else 0) := by
  rw [isoDet_eq_affDet] at h
  have e := fun a b ha hb => isoInv_eq_affInv d hd J a b ha hb
  obtain ⟨h1, h2⟩ := C10_affine_inv d hd J h i j hi hj
  have g1 : mulMat d (isoInv d J) J i j = mulMat d (affInv d J) J i j := by
    rcases hd with rfl | rfl | rfl
    · simp [mulMat, e i 0 hi]
    · simp [mulMat, e i 0 hi, e i 1 hi]
    · simp [mulMat, e i 0 hi, e i 1 hi, e i 2 hi]
  have g2 : mulMat d J (isoInv d J) i j = mulMat d J (affInv d J) i j := by
    rcases hd with rfl | rfl | rfl
    · simp [mulMat, e 0 j (by omega) hj]
    · simp [mulMat, e 0 j (by omega) hj, e 1 j (by omega) hj]
    · simp [mulMat, e 0 j (by omega) hj, e 1 j (by omega) hj, e 2 j (by omega) hj]
  exact ⟨g1.trans h1, g2.trans h2⟩

/-- with the P1 shape functions (`ElementLineP1/TriP1/TetP1.lbasis`) the isoparametric map IS the affine
    map `b + A X` of `_init_Ab`, and its Jacobian is `A`: on straight simplices both implementations
    deliver the same `F`, `DF` (hence, by `isoDet_eq_affDet` / `isoInv_eq_affInv`, `detDF`, `invDF`) -/
theorem C10_affine_eq_iso (v : Nat → Nat → K) (X : Nat → K) (i : Nat) :
    (isoF lineP1N lineP1Phi v X i = cellF 1 v X i
      ∧ isoJ lineP1N lineP1DPhi v X i 0 = affA v i 0)
    ∧ (isoF triP1N triP1Phi v X i = cellF 2 v X i
      ∧ ∀ j < 2, isoJ triP1N triP1DPhi v X i j = affA v i j)
    ∧ (isoF tetP1N tetP1Phi v X i = cellF 3 v X i
      ∧ ∀ j < 3, isoJ tetP1N tetP1DPhi v X i j = affA v i j) := by
  refine ⟨⟨?_, ?_⟩, ⟨?_, ?_⟩, ⟨?_, ?_⟩⟩
  · simp [isoF, lineP1N, lineP1Phi, cellF, affF, mulVec, affA, affb]; ring
  · simp [isoJ, lineP1N, lineP1DPhi, affA]; ring
  · simp [isoF, triP1N, triP1Phi, cellF, affF, mulVec, affA, affb]; ring
  · intro j hj
    interval_cases j <;> simp [isoJ, triP1N, triP1DPhi, affA] <;> ring
  · simp [isoF, tetP1N, tetP1Phi, cellF, affF, mulVec, affA, affb]; ring
  · intro j hj
    interval_cases j <;> simp [isoJ, tetP1N, tetP1DPhi, affA] <;> ring

/-- same formulas in both classes: `detDF`, `invDF` of the isoparametric mapping are the affine ones -/
theorem C10_iso_formulas_eq_affine (d : Nat) (hd : d = 1 ∨ d = 2 ∨ d = 3) (J : Nat → Nat → K) :
    isoDet d J = affDet d J ∧ ∀ i < d, ∀ j < d, isoInv d J i j = affInv d J i j :=
  ⟨isoDet_eq_affDet d J, fun i hi j hj => isoInv_eq_affInv d hd J i j hi hj⟩

/-- the bilinear map sends the vertices of the reference square (`RefQuad.p`) to the cell vertices -/
theorem C10_iso_F_vertices_quad (v : Nat → Nat → K) (k : Nat) (hk : k < 4) (i : Nat) :
    isoF quad1N quad1Phi v (refVertex refQuadP k) i = v k i := by
  interval_cases k <;>
    simp [isoF, quad1N, quad1Phi, refVertex, tabEntry, ofInt, nat, refQuadP]

/-- the trilinear map sends the vertices of the reference cube (`RefHex.p`) to the cell vertices -/
theorem C10_iso_F_vertices_hex (v : Nat → Nat → K) (k : Nat) (hk : k < 8) (i : Nat) :
    isoF hex1N hex1Phi v (refVertex refHexP k) i = v k i := by
  interval_cases k <;>
    simp [isoF, hex1N, hex1Phi, refVertex, tabEntry, ofInt, nat, refHexP]

/-- **Jacobian = derivative (bilinear quadrilateral).**  First-order Taylor expansion with the exact
    remainder: `F(X+H) − F(X) − J(X) H = H₀H₁ (p₀ − p₁ + p₂ − p₃)`; the remainder is quadratic in `H`,
    so `J` (built from the delivered `dphi`) is the Fréchet derivative of `F` (built from `phi`). -/
theorem C10_iso_jacobian_quad (v : Nat → Nat → K) (X H : Nat → K) (i : Nat) :
    isoF quad1N quad1Phi v (fun j => X j + H j) i - isoF quad1N quad1Phi v X i
      - mulVec 2 (isoJ quad1N quad1DPhi v X) H i
    = H 0 * H 1 * (v 0 i - v 1 i + v 2 i - v 3 i) := by
  simp [isoF, isoJ, mulVec, quad1N, quad1Phi, quad1DPhi]; ring

/-- **Jacobian = derivative (trilinear hexahedron).**  The Taylor remainder lies in the ideal generated by
    the products `H_a H_b`, `a < b` (explicit witnesses: the mixed second derivatives). -/
theorem C10_iso_jacobian_hex (v : Nat → Nat → K) (X H : Nat → K) (i : Nat) :
    ∃ r01 r02 r12 : K,
      isoF hex1N hex1Phi v (fun j => X j + H j) i - isoF hex1N hex1Phi v X i
        - mulVec 3 (isoJ hex1N hex1DPhi v X) H i
      = H 0 * H 1 * r01 + H 0 * H 2 * r02 + H 1 * H 2 * r12 := by
  refine ⟨X 2 * (v 0 i - v 2 i - v 3 i + v 6 i) + (1 - X 2) * (v 1 i - v 4 i - v 5 i + v 7 i)
            + H 2 * (v 0 i - v 1 i - v 2 i - v 3 i + v 4 i + v 5 i + v 6 i - v 7 i),
          X 1 * (v 0 i - v 1 i - v 3 i + v 5 i) + (1 - X 1) * (v 2 i - v 4 i - v 6 i + v 7 i),
          X 0 * (v 0 i - v 1 i - v 2 i + v 4 i) + (1 - X 0) * (v 3 i - v 5 i - v 6 i + v 7 i), ?_⟩
  simp [isoF, isoJ, mulVec, hex1N, hex1Phi, hex1DPhi]; ring

/-- **Jacobian = derivative (quadratic triangle and its quadratic edges, `MeshTri2`).**  The remainder is
    a quadratic form in `H` whose coefficients do not depend on the point. -/
theorem C10_iso_jacobian_triP2 (v : Nat → Nat → K) (i : Nat) :
    ∃ c00 c01 c11 : K, ∀ X H : Nat → K,
      isoF triP2N triP2Phi v (fun j => X j + H j) i - isoF triP2N triP2Phi v X i
        - mulVec 2 (isoJ triP2N triP2DPhi v X) H i
      = c00 * (H 0 * H 0) + c01 * (H 0 * H 1) + c11 * (H 1 * H 1) := by
  refine ⟨2 * v 0 i + 2 * v 1 i - 4 * v 3 i, 4 * v 0 i - 4 * v 3 i + 4 * v 4 i - 4 * v 5 i,
          2 * v 0 i + 2 * v 2 i - 4 * v 5 i, ?_⟩
  intro X H
  simp [isoF, isoJ, mulVec, triP2N, triP2Phi, triP2DPhi, nat]; ring

theorem C10_iso_jacobian_lineP2 (w : Nat → Nat → K) (i : Nat) :
    ∃ c : K, ∀ s h : Nat → K,
      isoF lineP2N lineP2Phi w (fun j => s j + h j) i - isoF lineP2N lineP2Phi w s i
        - mulVec 1 (isoJ lineP2N lineP2DPhi w s) h i
      = c * (h 0 * h 0) := by
  refine ⟨2 * w 0 i + 2 * w 1 i - 4 * w 2 i, ?_⟩
  intro s h
  simp [isoF, isoJ, mulVec, lineP2N, lineP2Phi, lineP2DPhi, nat]; ring

/-- **Jacobian = derivative (quadratic tetrahedron, `MeshTet2`; its faces are `triP2`).** -/
theorem C10_iso_jacobian_tetP2 (v : Nat → Nat → K) (i : Nat) :
    ∃ c00 c11 c22 c01 c02 c12 : K, ∀ X H : Nat → K,
      isoF tetP2N tetP2Phi v (fun j => X j + H j) i - isoF tetP2N tetP2Phi v X i
        - mulVec 3 (isoJ tetP2N tetP2DPhi v X) H i
      = c00 * (H 0 * H 0) + c11 * (H 1 * H 1) + c22 * (H 2 * H 2)
        + c01 * (H 0 * H 1) + c02 * (H 0 * H 2) + c12 * (H 1 * H 2) := by
  refine ⟨2 * v 0 i + 2 * v 1 i - 4 * v 4 i, 2 * v 0 i + 2 * v 2 i - 4 * v 6 i,
          2 * v 0 i + 2 * v 3 i - 4 * v 7 i, 4 * v 0 i - 4 * v 4 i + 4 * v 5 i - 4 * v 6 i,
          4 * v 0 i - 4 * v 4 i - 4 * v 7 i + 4 * v 8 i, 4 * v 0 i - 4 * v 6 i - 4 * v 7 i + 4 * v 9 i, ?_⟩
  intro X H
  simp [isoF, isoJ, mulVec, tetP2N, tetP2Phi, tetP2DPhi, nat, sumN, List.range_succ]; ring

/-- **Jacobian = derivative (prism, `MeshWedge1`)**, and the map sends the reference vertices
    (`RefWedge.p`) to the cell vertices. -/
theorem C10_iso_jacobian_wedge (v : Nat → Nat → K) (X H : Nat → K) (i : Nat) :
    (isoF wedge1N wedge1Phi v (fun j => X j + H j) i - isoF wedge1N wedge1Phi v X i
        - mulVec 3 (isoJ wedge1N wedge1DPhi v X) H i
      = H 0 * H 2 * (v 0 i - v 1 i - v 3 i + v 4 i) + H 1 * H 2 * (v 0 i - v 2 i - v 3 i + v 5 i))
    ∧ ∀ k < 6, isoF wedge1N wedge1Phi v (refVertex refWedgeP k) i = v k i := by
  constructor
  · simp [isoF, isoJ, mulVec, wedge1N, wedge1Phi, wedge1DPhi]; ring
  · intro k hk
    interval_cases k <;>
      simp [isoF, wedge1N, wedge1Phi, refVertex, tabEntry, ofInt, nat, refWedgeP]

/-! ## C. Facet maps -/

/-- **Facet map (triangles).**  If the facet's vertices are the vertices `loc 0, loc 1` of the cell (ANY
    two local numbers: either neighbour, either orientation), then `G(s) = c + B s` is the image under the
    cell map of the point `γ(s)` of the reference facet. -/
theorem C10_facet_param_tri (v : Nat → Nat → K) (loc : Nat → Nat) (h0 : loc 0 ≤ 2) (h1 : loc 1 ≤ 2)
    (s : Nat → K) (i : Nat) (hi : i < 2) :
    facetG 2 (fun k => v (loc k)) s i = cellF 2 v (gammaSimplex refTriP 2 loc s) i := by
  obtain ⟨_, hv, _⟩ := C10_affine_F_vertices v
  have e0 := hv (loc 0) h0 i hi
  have e1 := hv (loc 1) h1 i hi
  simp only [cellF, affF, mulVec, sumN_two] at e0 e1
  simp only [facetG, affG, affB, affc, cellF, affF, mulVec, gammaSimplex, sumN_two, sumN_one,
    Nat.add_one_sub_one, Nat.zero_add]
  linear_combination (s 0 - 1) * e0 - s 0 * e1

/-- **Facet map (tetrahedra)**: any three local numbers `loc 0, loc 1, loc 2`. -/
theorem C10_facet_param_tet (v : Nat → Nat → K) (loc : Nat → Nat) (h0 : loc 0 ≤ 3) (h1 : loc 1 ≤ 3)
    (h2 : loc 2 ≤ 3) (s : Nat → K) (i : Nat) (hi : i < 3) :
    facetG 3 (fun k => v (loc k)) s i = cellF 3 v (gammaSimplex refTetP 3 loc s) i := by
  obtain ⟨_, _, hv⟩ := C10_affine_F_vertices v
  have e0 := hv (loc 0) h0 i hi
  have e1 := hv (loc 1) h1 i hi
  have e2 := hv (loc 2) h2 i hi
  simp only [cellF, affF, mulVec, sumN_three] at e0 e1 e2
  simp only [facetG, affG, affB, affc, cellF, affF, mulVec, gammaSimplex, sumN_three, sumN_two,
    Nat.add_one_sub_one, Nat.zero_add]
  linear_combination (s 0 + s 1 - 1) * e0 - s 0 * e1 - s 1 * e2


/-- **Facet map (quadrilaterals).**  If the facet's two vertices are the end points of a local edge of the
    cell (table `RefQuad.facets`, either orientation, either neighbour), then `G(s) = Σ_k w_k ψ_k(s)`
    (`bndmap` with `ElementLineP1`) is the image under the bilinear cell map of the reference edge point. -/
theorem C10_facet_param_quad (v : Nat → Nat → K) (loc : Nat → Nat)
    (hloc : ∃ f, f < 4 ∧ ([loc 0, loc 1] = refQuadFacets.getD f []
                          ∨ [loc 1, loc 0] = refQuadFacets.getD f []))
    (s : Nat → K) (i : Nat) :
    isoF lineP1N lineP1Phi (fun k => v (loc k)) s i
      = isoF quad1N quad1Phi v (gammaIso refQuadP lineP1N lineP1Phi loc s) i := by
  obtain ⟨f, hf, h⟩ := hloc
  interval_cases f <;> simp [refQuadFacets] at h <;> rcases h with ⟨a, b⟩ | ⟨a, b⟩ <;>
    simp [isoF, gammaIso, lineP1N, lineP1Phi, quad1N, quad1Phi, a, b, refVertex, tabEntry, ofInt,
      nat, refQuadP] <;> ring

/-- **Facet map (curved quadratic triangles, `MeshTri2`).**  The facet's nodes are its two vertices (local
    numbers `loc 0, loc 1` = local edge `f` in either orientation) and the mid-edge node `3 + f`; then
    `G(s)` (`bndmap` with `ElementLineP2`) is the image under the QUADRATIC cell map of the point of the
    straight reference edge: the curved edge is parametrised identically from both neighbours. -/
theorem C10_facet_param_triP2 (v : Nat → Nat → K) (loc : Nat → Nat) (f : Nat) (hf : f < 3)
    (hloc : [loc 0, loc 1] = refTriFacets.getD f [] ∨ [loc 1, loc 0] = refTriFacets.getD f [])
    (s : Nat → K) (i : Nat) :
    isoF lineP2N lineP2Phi (fun k => if k = 2 then v (3 + f) else v (loc k)) s i
      = isoF triP2N triP2Phi v (gammaIso refTriP lineP1N lineP1Phi loc s) i := by
  interval_cases f <;> simp [refTriFacets] at hloc <;> rcases hloc with ⟨a, b⟩ | ⟨a, b⟩ <;>
    simp [isoF, gammaIso, lineP1N, lineP1Phi, lineP2N, lineP2Phi, triP2N, triP2Phi, a, b, refVertex,
      tabEntry, ofInt, nat, refTriP] <;> first | ring1 | (left; ring1)

/-- **Facet map (hexahedra).**  `MeshHex1` stores the vertices of a facet in the cyclic order of the first
    adjacent cell (`sort=False`); seen from either neighbour they are the vertices of a local facet
    (table `RefHex.facets`) in one of the eight cyclic orders.  Then `G(s)` (`bndmap` with `ElementQuad1`)
    is the image under the trilinear cell map of the reference facet point. -/
theorem C10_facet_param_hex (v : Nat → Nat → K) (loc : Nat → Nat)
    (hloc : ∃ f, f < 6 ∧ ∃ σ ∈ squareSyms,
      ∀ k < 4, loc k = (refHexFacets.getD f []).getD (σ.getD k 0) 0)
    (s : Nat → K) (i : Nat) :
    isoF quad1N quad1Phi (fun k => v (loc k)) s i
      = isoF hex1N hex1Phi v (gammaIso refHexP quad1N quad1Phi loc s) i := by
  obtain ⟨f, hf, σ, hσ, h⟩ := hloc
  interval_cases f
  · exact hex_facet_0 v loc σ hσ h s i
  · exact hex_facet_1 v loc σ hσ h s i
  · exact hex_facet_2 v loc σ hσ h s i
  · exact hex_facet_3 v loc σ hσ h s i
  · exact hex_facet_4 v loc σ hσ h s i
  · exact hex_facet_5 v loc σ hσ h s i

/-- **Surface factor.**  The radicand of `detB` / `detDG` is `|b₁|²` in 2-D and `|b₁|²|b₂|² − (b₁·b₂)²`
    `= |b₁ × b₂|²` (Lagrange identity, the Gram determinant of the tangents) in 3-D, for both classes;
    in 1-D the factor is 1.  (The delivered factor is its square root: trusted.) -/
theorem C10_surface_factor (B : Nat → Nat → K) :
    affSurfSq 1 B = 1
    ∧ affSurfSq 2 B = dot 2 (fun i => B i 0) (fun i => B i 0)
    ∧ affSurfSq 3 B = dot 3 (fun i => B i 0) (fun i => B i 0) * dot 3 (fun i => B i 1) (fun i => B i 1)
        - dot 3 (fun i => B i 0) (fun i => B i 1) * dot 3 (fun i => B i 0) (fun i => B i 1)
    ∧ isoSurfSq 2 B = affSurfSq 2 B ∧ isoSurfSq 3 B = affSurfSq 3 B := by
  refine ⟨rfl, ?_, ?_, rfl, rfl⟩
  · simp [affSurfSq, affSurfSq2, dot]
  · simp [affSurfSq, affSurfSq3, dot]; ring

/-- **Facet basis reference points (triangles).**  `FacetBasis` computes the cell reference points of the
    facet quadrature points as `invF_K(G_f(s))`; they are the points `γ(s)` of the reference facet. -/
theorem C10_facetbasis_refpoints_tri (v : Nat → Nat → K) (loc : Nat → Nat) (h0 : loc 0 ≤ 2)
    (h1 : loc 1 ≤ 2) (s : Nat → K) (hdet : affDet 2 (affA v) ≠ 0) (j : Nat) (hj : j < 2) :
    cellInvF 2 v (facetG 2 (fun k => v (loc k)) s) j = gammaSimplex refTriP 2 loc s j := by
  have key := C10_affine_invF_F 2 (by omega) (affA v) (affb v) (gammaSimplex refTriP 2 loc s) hdet j hj
  have e0 := C10_facet_param_tri v loc h0 h1 s 0 (by omega)
  have e1 := C10_facet_param_tri v loc h0 h1 s 1 (by omega)
  simp only [cellInvF, affInvF, mulVec, sumN_two] at key ⊢
  rw [e0, e1]
  exact key

theorem C10_facetbasis_refpoints_tet (v : Nat → Nat → K) (loc : Nat → Nat) (h0 : loc 0 ≤ 3)
    (h1 : loc 1 ≤ 3) (h2 : loc 2 ≤ 3) (s : Nat → K) (hdet : affDet 3 (affA v) ≠ 0) (j : Nat)
    (hj : j < 3) :
    cellInvF 3 v (facetG 3 (fun k => v (loc k)) s) j = gammaSimplex refTetP 3 loc s j := by
  have key := C10_affine_invF_F 3 (by omega) (affA v) (affb v) (gammaSimplex refTetP 3 loc s) hdet j hj
  have e0 := C10_facet_param_tet v loc h0 h1 h2 s 0 (by omega)
  have e1 := C10_facet_param_tet v loc h0 h1 h2 s 1 (by omega)
  have e2 := C10_facet_param_tet v loc h0 h1 h2 s 2 (by omega)
  simp only [cellInvF, affInvF, mulVec, sumN_three] at key ⊢
  rw [e0, e1, e2]
  exact key


/-! ## D. Normals: `n = invDFᵀ n̂_i / |invDFᵀ n̂_i|` -/

/-- the einsum string of both `normals` methods contracts the FIRST index of `invDF` (transpose) -/
theorem C10_normal_contraction : affNormalTransposed = true ∧ isoNormalTransposed = true := ⟨rfl, rfl⟩

/-- `MappingAffine.normals` carries its own copy of the reference normals: it is the `refdom` table -/
theorem C10_affine_reference_normals :
    affNref 1 = refLineNormals ∧ affNref 2 = refTriNormals ∧ affNref 3 = refTetNormals := by decide

/-- **Table fact** (every reference cell of `refdom.py`, by evaluation): the tabulated normal of local
    facet `i` is orthogonal to the facet and `n̂_i · (X̂_c − X̂_a) < 0` for every vertex `a` on and every
    vertex `c` off the facet: it points out of the reference cell. -/
theorem C10_reference_normals_outward : ∀ rc ∈ refCells, refOutward rc := refCells_outward

/-- **Transport**: `(DF⁻ᵀ N) · (DF u) = N · u` for the delivered inverse Jacobians of both classes. -/
theorem C10_normal_transport (d : Nat) (hd : d = 1 ∨ d = 2 ∨ d = 3) (J : Nat → Nat → K) (N u : Nat → K) :
    (affDet d J ≠ 0 → dot d (rawNormal affNormalTransposed d (affInv d J) N) (mulVec d J u) = dot d N u)
    ∧ (isoDet d J ≠ 0 →
        dot d (rawNormal isoNormalTransposed d (isoInv d J) N) (mulVec d J u) = dot d N u) :=
  ⟨fun h => normal_transport_aff d hd J h N u, fun h => normal_transport_iso d hd J h N u⟩

/-- **Orthogonal to the facet** (every cell type, straight or curved, at any point): the raw normal of
    local facet `i` annihilates the image under `DF` of every reference edge vector of the facet, i.e. every
    tangent of the mapped facet. -/
theorem C10_normal_orthogonal (rc : RefCell) (hrc : rc ∈ refCells) (J : Nat → Nat → K)
    (hdet : isoDet rc.d J ≠ 0) (i : Nat) (hi : i < rc.F.length) (a b : Nat)
    (ha : a ∈ rc.F.getD i []) (hb : b ∈ rc.F.getD i []) :
    dot rc.d (isoRawNormal rc.d rc.N J i)
      (mulVec rc.d J (fun j => refVertex rc.P b j - refVertex rc.P a j)) = 0 := by
  have hd := refCells_dim rc hrc
  unfold isoRawNormal
  rw [(C10_normal_transport rc.d hd J _ _).2 hdet, dot_tab_cast rc (by omega)]
  have := ((C10_reference_normals_outward rc hrc) i hi a ha).1 b hb
  rw [this]; simp

section Ordered
variable [LinearOrder K] [IsStrictOrderedRing K]

/-- **Outward, independently of the sign of the determinant** (every cell type, at any point): the raw
    normal of local facet `i` has a negative product with the image under `DF` of every reference vector
    from a vertex of the facet to a vertex off the facet (a direction into the cell). -/
theorem C10_normal_outward (rc : RefCell) (hrc : rc ∈ refCells) (J : Nat → Nat → K)
    (hdet : isoDet rc.d J ≠ 0) (i : Nat) (hi : i < rc.F.length) (a c : Nat)
    (ha : a ∈ rc.F.getD i []) (hc : c < rc.P.length) (hc' : c ∉ rc.F.getD i []) :
    dot rc.d (isoRawNormal rc.d rc.N J i)
      (mulVec rc.d J (fun j => refVertex rc.P c j - refVertex rc.P a j)) < 0 := by
  have hd := refCells_dim rc hrc
  unfold isoRawNormal
  rw [(C10_normal_transport rc.d hd J _ _).2 hdet, dot_tab_cast rc (by omega)]
  have := ((C10_reference_normals_outward rc hrc) i hi a ha).2 c hc hc'
  exact_mod_cast this

/-- the same for an affine simplex in terms of its VERTICES: the raw normal of `MappingAffine.normals`
    for local facet `i` satisfies `n · (x_c − x_a) < 0` (`x_a` on, `x_c` off the facet), whatever the
    orientation (sign of the determinant) of the cell -/
theorem C10_normal_outward_simplex (v : Nat → Nat → K) (i a c : Nat) :
    (affDet 2 (affA v) ≠ 0 → i < 3 → a ∈ refTriFacets.getD i [] → c < 3 → c ∉ refTriFacets.getD i [] →
      dot 2 (affRawNormal 2 v i) (fun j => v c j - v a j) < 0)
    ∧ (affDet 3 (affA v) ≠ 0 → i < 4 → a ∈ refTetFacets.getD i [] → c < 4 → c ∉ refTetFacets.getD i [] →
      dot 3 (affRawNormal 3 v i) (fun j => v c j - v a j) < 0) := by
  constructor
  · intro hdet hi ha hc hc'
    rw [tri_normal_cast v hdet i a c (mem_facet_lt_tri i a hi ha) hc]
    have := ((refCells_outward triCell triCell_mem) i hi a ha).2 c hc hc'
    exact_mod_cast this
  · intro hdet hi ha hc hc'
    rw [tet_normal_cast v hdet i a c (mem_facet_lt_tet i a hi ha) hc]
    have := ((refCells_outward tetCell tetCell_mem) i hi a ha).2 c hc hc'
    exact_mod_cast this

end Ordered

/-- **Unit length (partial: the square root is trusted).**  If `len` is a square root of the squared
    length of the raw normal (what `np.sqrt(np.sum(n ** 2, axis=0))` returns up to rounding) and does not
    vanish, the delivered vector `n * (1 / len)` has squared length 1 and every inner product is the raw one
    divided by `len`: for `len > 0` signs and orthogonality are those of the raw normal. -/
theorem C10_normal_unit_partial (d : Nat) (hd : d = 1 ∨ d = 2 ∨ d = 3) (n w : Nat → K) (len : K)
    (hlen : len * len = lenSq d n) (h0 : len ≠ 0) :
    lenSq d (delivered n len) = 1 ∧ dot d (delivered n len) w = dot d n w / len := by
  rcases hd with rfl | rfl | rfl <;> simp only [lenSq, dot, delivered] at hlen ⊢ <;>
    simp only [sumN_one, sumN_two, sumN_three] at hlen ⊢ <;>
    refine ⟨?_, ?_⟩ <;> field_simp <;> linear_combination (-1 : K) * hlen


/-! ## E. Surface factor × normal against volume: the divergence identity on a simplex -/

/-- **Surface factor of a facet of a simplex** (any order of the facet's vertices):
    `detB² = (det A)² |A⁻ᵀ n̂_i|²`, i.e. `|f| / |f̂| = |det A| · |raw normal|` (Nanson). -/
theorem C10_simplex_surface_vs_normal (v : Nat → Nat → K) (loc : Nat → Nat) (i : Nat) :
    (affDet 2 (affA v) ≠ 0 → i < 3 →
      ([loc 0, loc 1] = refTriFacets.getD i [] ∨ [loc 1, loc 0] = refTriFacets.getD i []) →
      affSurfSq 2 (affB (fun k => v (loc k)))
        = affDet 2 (affA v) * affDet 2 (affA v) * lenSq 2 (affRawNormal 2 v i))
    ∧ (affDet 3 (affA v) ≠ 0 → i < 4 →
      (∃ τ ∈ perms3, ∀ k < 3, loc k = (refTetFacets.getD i []).getD (τ.getD k 0) 0) →
      affSurfSq 3 (affB (fun k => v (loc k)))
        = affDet 3 (affA v) * affDet 3 (affA v) * lenSq 3 (affRawNormal 3 v i)) := by
  constructor
  · intro hdet hi hloc
    exact nanson_tri v hdet i hi loc hloc
  · intro hdet hi ⟨τ, hτ, hloc⟩
    rw [← nanson_tet_canonical v hdet i hi]
    exact surf3_perm _ _ τ hτ (fun k hk => by rw [hloc k hk])

/-- **Divergence identity, raw form** (polynomial identity in the vertex coordinates after clearing the
    determinant): `Σ_i (A⁻ᵀ n̂_i) · x_i = 1` for ANY choice of a vertex `x_i` on every facet `i`. -/
theorem C10_cell_divergence (v : Nat → Nat → K) (a : Nat → Nat) :
    (affDet 2 (affA v) ≠ 0 → (∀ i < 3, a i ∈ refTriFacets.getD i []) →
      sumN 3 (fun i => dot 2 (affRawNormal 2 v i) (v (a i))) = 1)
    ∧ (affDet 3 (affA v) ≠ 0 → (∀ i < 4, a i ∈ refTetFacets.getD i []) →
      sumN 4 (fun i => dot 3 (affRawNormal 3 v i) (v (a i))) = 1) := by
  constructor
  · intro hdet ha
    rw [sumN_three, ← divergence_tri_canonical v hdet,
      raw_const_tri v hdet 0 (a 0) 0 (by omega) (ha 0 (by omega)) (by simp [refTriFacets]),
      raw_const_tri v hdet 1 (a 1) 1 (by omega) (ha 1 (by omega)) (by simp [refTriFacets]),
      raw_const_tri v hdet 2 (a 2) 0 (by omega) (ha 2 (by omega)) (by simp [refTriFacets])]
  · intro hdet ha
    rw [sumN_four, ← divergence_tet_canonical v hdet,
      raw_const_tet v hdet 0 (a 0) 0 (by omega) (ha 0 (by omega)) (by simp [refTetFacets]),
      raw_const_tet v hdet 1 (a 1) 0 (by omega) (ha 1 (by omega)) (by simp [refTetFacets]),
      raw_const_tet v hdet 2 (a 2) 0 (by omega) (ha 2 (by omega)) (by simp [refTetFacets]),
      raw_const_tet v hdet 3 (a 3) 1 (by omega) (ha 3 (by omega)) (by simp [refTetFacets])]

section Ordered2
variable [LinearOrder K] [IsStrictOrderedRing K]

/-- **Divergence identity on a simplex with the delivered quantities** (square roots given as witnesses):
    with `σ_i = detB` of facet `i` (`σ_i ≥ 0`, `σ_i² =` the radicand), `ℓ_i = |raw normal|`
    (`ℓ_i > 0`, `ℓ_i² = ` its squared length), `n_i = raw_i / ℓ_i` the delivered normal and `x_i` a vertex of
    facet `i`:  `Σ_i |f̂| σ_i (x_i · n_i) = d · |det A| / d!`, i.e. `Σ_f |f| x_f·n_f = d |K|`, whatever the
    sign of `det A` and the order in which the facets list their vertices. -/
theorem C10_cell_divergence_measure (v : Nat → Nat → K) (loc : Nat → Nat → Nat) (a : Nat → Nat)
    (σ ℓ : Nat → K) :
    (affDet 2 (affA v) ≠ 0 →
      (∀ i < 3, a i ∈ refTriFacets.getD i []
        ∧ ([loc i 0, loc i 1] = refTriFacets.getD i [] ∨ [loc i 1, loc i 0] = refTriFacets.getD i [])
        ∧ 0 ≤ σ i ∧ σ i * σ i = affSurfSq 2 (affB (fun k => v (loc i k)))
        ∧ 0 < ℓ i ∧ ℓ i * ℓ i = lenSq 2 (affRawNormal 2 v i)) →
      sumN 3 (fun i => 1 * σ i * dot 2 (delivered (affRawNormal 2 v i) (ℓ i)) (v (a i)))
        = 2 * (|affDet 2 (affA v)| / 2))
    ∧ (affDet 3 (affA v) ≠ 0 →
      (∀ i < 4, a i ∈ refTetFacets.getD i []
        ∧ (∃ τ ∈ perms3, ∀ k < 3, loc i k = (refTetFacets.getD i []).getD (τ.getD k 0) 0)
        ∧ 0 ≤ σ i ∧ σ i * σ i = affSurfSq 3 (affB (fun k => v (loc i k)))
        ∧ 0 < ℓ i ∧ ℓ i * ℓ i = lenSq 3 (affRawNormal 3 v i)) →
      sumN 4 (fun i => 1 / 2 * σ i * dot 3 (delivered (affRawNormal 3 v i) (ℓ i)) (v (a i)))
        = 3 * (|affDet 3 (affA v)| / 6)) := by
  constructor
  · intro hdet h
    have hdiv := (C10_cell_divergence v a).1 hdet (fun i hi => (h i hi).1)
    have term : ∀ i < 3, σ i * dot 2 (delivered (affRawNormal 2 v i) (ℓ i)) (v (a i))
        = |affDet 2 (affA v)| * dot 2 (affRawNormal 2 v i) (v (a i)) := by
      intro i hi
      obtain ⟨_, hloc, hσ0, hσ, hℓ0, hℓ⟩ := h i hi
      rw [(C10_normal_unit_partial 2 (by omega) _ (v (a i)) (ℓ i) hℓ (ne_of_gt hℓ0)).2]
      apply facet_term _ _ _ _ hσ0 hℓ0
      rw [hσ, hℓ]
      exact (C10_simplex_surface_vs_normal v (loc i) i).1 hdet hi hloc
    simp only [sumN_three] at hdiv ⊢
    simp only [one_mul]
    rw [term 0 (by omega), term 1 (by omega), term 2 (by omega)]
    linear_combination |affDet 2 (affA v)| * hdiv
  · intro hdet h
    have hdiv := (C10_cell_divergence v a).2 hdet (fun i hi => (h i hi).1)
    have term : ∀ i < 4, σ i * dot 3 (delivered (affRawNormal 3 v i) (ℓ i)) (v (a i))
        = |affDet 3 (affA v)| * dot 3 (affRawNormal 3 v i) (v (a i)) := by
      intro i hi
      obtain ⟨_, hloc, hσ0, hσ, hℓ0, hℓ⟩ := h i hi
      rw [(C10_normal_unit_partial 3 (by omega) _ (v (a i)) (ℓ i) hℓ (ne_of_gt hℓ0)).2]
      apply facet_term _ _ _ _ hσ0 hℓ0
      rw [hσ, hℓ]
      exact (C10_simplex_surface_vs_normal v (loc i) i).2 hdet hi hloc
    simp only [sumN_four] at hdiv ⊢
    have t0 := term 0 (by omega)
    have t1 := term 1 (by omega)
    have t2 := term 2 (by omega)
    have t3 := term 3 (by omega)
    linear_combination (1 / 2 : K) * t0 + (1 / 2 : K) * t1 + (1 / 2 : K) * t2 + (1 / 2 : K) * t3
      + (|affDet 3 (affA v)| / 2) * hdiv

end Ordered2

end Field

/-! ## F. Point-array layouts (F16) and the key of the Jacobian cache (F11) -/

/-- every output allocation of `Fmap/_J/bndmap/bndJ` in the live source sizes the point axis with
    `X.shape[-1]` -/
theorem C10_iso_point_axis : ∀ k ∈ isoPointAxes, k = -1 := by decide

/-- with `X.shape[-1]` the output `(ncells, npts)` matches the basis values for BOTH point layouts:
    shared `(dim, npts)` (values of shape `(npts)`) and per-cell `(dim, ncells, npts)` -/
theorem C10_out_shape (k : Int) (hk : k = -1) (dim ncells npts : Nat) :
    outCols k [dim, npts] = some npts ∧ broadcastsInto ncells npts [npts] = true
    ∧ outCols k [dim, ncells, npts] = some npts ∧ broadcastsInto ncells npts [ncells, npts] = true := by
  subst hk
  simp [outCols, pyIndex, broadcastsInto]

/-- the pinned tree used `X.shape[1]` when `tind`/`find` is `None`: per-cell points `(2, 4, 3)` on four
    cells allocate `(4, 4)` against basis values `(4, 3)`: not broadcastable (F16) -/
theorem C10_out_shape_old_counterexample :
    outCols 1 [2, 4, 3] = some 4 ∧ broadcastsInto 4 4 [4, 3] = false := by decide

/-- the live `hash_args` hashes shape, dtype and bytes of an array argument -/
theorem C10_cache_key_fields :
    "shape" ∈ hashKeyFields ∧ "dtype" ∈ hashKeyFields ∧ "tobytes" ∈ hashKeyFields := by
  simp [hashKeyFields]

/-- a key over (at least) shape, dtype and bytes separates any two different arrays: a cached Jacobian is
    only returned for the same `(i, j, X, tind)` -/
theorem C10_cache_key_injective (fields : List String)
    (h : "shape" ∈ fields ∧ "dtype" ∈ fields ∧ "tobytes" ∈ fields) (a b : Arr)
    (hk : arrKey fields a = arrKey fields b) : a = b := by
  obtain ⟨h1, h2, h3⟩ := h
  have hall := List.map_inj_left.mp hk
  have e1 := hall "shape" h1
  have e2 := hall "dtype" h2
  have e3 := hall "tobytes" h3
  simp at e1 e2 e3
  cases a; cases b
  simp_all

/-- the pinned tree hashed the bytes only: `tind = int64 [1]` and `tind = int32 [1, 0]` get the same key
    although they are different arrays (F11) -/
theorem C10_cache_key_old_counterexample :
    arrKey ["tobytes"] (intArr 8 [1]) = arrKey ["tobytes"] (intArr 4 [1, 0])
    ∧ intArr 8 [1] ≠ intArr 4 [1, 0] := by
  constructor
  · simp [arrKey, intArr, leBytes, List.range_succ]
  · intro h
    have := congrArg Arr.shape h
    simp [intArr] at this


/-! ## Non-vacuity: the hypotheses of the theorems above are satisfiable -/

/-- the 3-4-5 triangle (0,0), (4,0), (0,3) -/
def exTri : Nat → Nat → ℚ
  | 1, 0 => 4
  | 2, 1 => 3
  | _, _ => 0

/-- the tetrahedron (0,0,0), (3,0,0), (0,2,0), (0,0,1): every face has a rational area -/
def exTet : Nat → Nat → ℚ
  | 1, 0 => 3
  | 2, 1 => 2
  | 3, 2 => 1
  | _, _ => 0

example : affDet 1 (affA exTri) ≠ 0 ∧ affDet 2 (affA exTri) ≠ 0 ∧ affDet 3 (affA exTet) ≠ 0
    ∧ isoDet 2 (affA exTri) ≠ 0 ∧ isoDet 3 (affA exTet) ≠ 0 := by
  norm_num [affDet, affDet1, affDet2, affDet3, isoDet, isoDet2, isoDet3, affA, exTri, exTet]

-- the hypotheses of `C10_cell_divergence_measure` hold for the 3-4-5 triangle
-- (surface factors 4, 5, 3; lengths of the raw normals 1/3, 5/12, 1/4) …
example : ∀ i < 3,
    (fun i => [0, 1, 0].getD i 0) i ∈ refTriFacets.getD i []
    ∧ ([(fun i k => (refTriFacets.getD i []).getD k 0) i 0,
        (fun i k => (refTriFacets.getD i []).getD k 0) i 1] = refTriFacets.getD i [] ∨ False)
    ∧ 0 ≤ (fun i => ([4, 5, 3] : List ℚ).getD i 0) i
    ∧ (fun i => ([4, 5, 3] : List ℚ).getD i 0) i * (fun i => ([4, 5, 3] : List ℚ).getD i 0) i
        = affSurfSq 2 (affB (fun k => exTri ((fun i k => (refTriFacets.getD i []).getD k 0) i k)))
    ∧ 0 < (fun i => ([1/3, 5/12, 1/4] : List ℚ).getD i 0) i
    ∧ (fun i => ([1/3, 5/12, 1/4] : List ℚ).getD i 0) i
        * (fun i => ([1/3, 5/12, 1/4] : List ℚ).getD i 0) i
        = lenSq 2 (affRawNormal 2 exTri i) := by
  intro i hi
  interval_cases i <;>
    norm_num [refTriFacets, affSurfSq, affSurfSq2, affB, exTri, lenSq, dot, affRawNormal, rawNormal,
      affNormalTransposed, affInv, affInv2, affDet2, affA, affNref, affNref2, tabEntry, ofInt, nat]

-- … and for the tetrahedron (surface factors 6, 3, 2, 7; lengths 1, 1/2, 1/3, 7/6)
example : ∀ i < 4,
    (fun i => [0, 0, 0, 1].getD i 0) i ∈ refTetFacets.getD i []
    ∧ (∃ τ ∈ perms3, ∀ k < 3, (fun i k => (refTetFacets.getD i []).getD k 0) i k
          = (refTetFacets.getD i []).getD (τ.getD k 0) 0)
    ∧ 0 ≤ (fun i => ([6, 3, 2, 7] : List ℚ).getD i 0) i
    ∧ (fun i => ([6, 3, 2, 7] : List ℚ).getD i 0) i * (fun i => ([6, 3, 2, 7] : List ℚ).getD i 0) i
        = affSurfSq 3 (affB (fun k => exTet ((fun i k => (refTetFacets.getD i []).getD k 0) i k)))
    ∧ 0 < (fun i => ([1, 1/2, 1/3, 7/6] : List ℚ).getD i 0) i
    ∧ (fun i => ([1, 1/2, 1/3, 7/6] : List ℚ).getD i 0) i
        * (fun i => ([1, 1/2, 1/3, 7/6] : List ℚ).getD i 0) i
        = lenSq 3 (affRawNormal 3 exTet i) := by
  intro i hi
  interval_cases i <;> refine ⟨by simp [refTetFacets], ⟨[0, 1, 2], by simp [perms3], by decide⟩, ?_⟩ <;>
    norm_num [refTetFacets, affSurfSq, affSurfSq3, affB, exTet, lenSq, dot, affRawNormal, rawNormal,
      affNormalTransposed, affInv, affInv3, affDet3, affA, affNref, affNref3, tabEntry, ofInt, nat]

-- a facet of a hexahedron seen from the second neighbour in another cyclic order; an edge of a quadrilateral
-- listed against its local direction
example : ∃ f, f < 6 ∧ ∃ σ ∈ squareSyms,
    ∀ k < 4, (fun k => [4, 7, 6, 2].getD k 0) k = (refHexFacets.getD f []).getD (σ.getD k 0) 0 :=
  ⟨3, by omega, [1, 2, 3, 0], by simp [squareSyms], by decide⟩

example : ∃ f, f < 4 ∧
    ([(fun k => [3, 2].getD k 0) 0, (fun k => [3, 2].getD k 0) 1] = refQuadFacets.getD f []
    ∨ [(fun k => [3, 2].getD k 0) 1, (fun k => [3, 2].getD k 0) 0] = refQuadFacets.getD f []) :=
  ⟨2, by omega, Or.inr (by decide)⟩

-- facet / on / off vertex data for the outwardness theorems (hexahedron, facet 3, vertices 2 on, 0 off)
example : (⟨3, refHexP, refHexFacets, refHexNormals⟩ : RefCell) ∈ refCells ∧ 3 < refHexFacets.length
    ∧ 2 ∈ refHexFacets.getD 3 [] ∧ 0 < refHexP.length ∧ 0 ∉ refHexFacets.getD 3 [] := by
  simp [refCells, refHexFacets, refHexP]

-- a square root of the squared length exists for the raw normal (3/5, 4/5) · 5
example : (5 : ℚ) * 5 = lenSq 2 (fun j => ([3, 4] : List ℚ).getD j 0) ∧ (5 : ℚ) ≠ 0 := by
  norm_num [lenSq, dot]

end Skv.C10
