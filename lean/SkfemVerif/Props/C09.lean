import SkfemVerif.Model.Poly
import SkfemVerif.Gen.ShapeFacts
import SkfemVerif.Lemmas.Poly
import Mathlib.Algebra.Polynomial.Derivative
import Mathlib.Data.Nat.Factorial.Basic
import Mathlib.Algebra.MvPolynomial.PDeriv
import Mathlib.Algebra.MvPolynomial.Eval
import Mathlib.Algebra.Order.Field.Rat
import Mathlib.Algebra.Order.BigOperators.Group.Finset
import Mathlib.LinearAlgebra.Matrix.NonsingularInverse
import Mathlib.Tactic.Ring
import Mathlib.Tactic.Linarith
/-
C09  Shape functions: derivatives are true derivatives; duality; partition of unity.

Model: Model/Poly.lean (term-list polynomials over ℚ, formal `pderiv`, reflection checks).
`Gen/Shapes.lean` is REGENERATED on every run by running the real `Element.lbasis` of every
traceable exported element on exact symbolic polynomials; `Gen/ShapeFacts.lean` holds the
kernel-checked facts (`decide +kernel`): declared gradient/divergence/curl = formal derivative of
the declared value (coefficient-wise within 2^-40), nodal duality, partition of unity, moment
duality, plus the aggregated `h1Elements_ok`, `hdivElements_ok`, `hcurl2Elements_ok`,
`hcurl3Elements_ok`.  This file supplies the MEANING of those checks:
the formal derivative of the model IS Mathlib's `MvPolynomial.pderiv` (so "true derivative"),
coefficient-wise closeness bounds the pointwise difference on the reference cell, and the power
basis / Vandermonde construction of the globally defined elements delivers derivatives and
duality for all degrees.
-/
namespace Skv.C09
open Skv

/- `toMv d p` (interpretation of a term-list polynomial as a Mathlib `MvPolynomial (Fin d) ℚ`) and
   `WF d p` (all exponent vectors have length `d`) are defined in `Lemmas/Poly.lean`:

     noncomputable def toMv (d : Nat) (p : Poly) : MvPolynomial (Fin d) ℚ :=
       (p.map (fun t => MvPolynomial.monomial
         (Finsupp.equivFunOnFinite.symm (fun i : Fin d => t.2.getD i.val 0)) t.1)).sum
     def WF (d : Nat) (p : Poly) : Prop := ∀ t ∈ p, t.2.length = d -/

/-- evaluation of the model = evaluation of the Mathlib polynomial -/
theorem C09_eval_toMv (d : Nat) (p : Poly) (hp : WF d p) (x : Fin d → ℚ) :
    MvPolynomial.eval x (toMv d p) = p.eval ((List.finRange d).map x) := by
  -- `hp` is not needed: `getD` pads short exponent vectors with 0 where `monoEval`/`set` truncate
  have _h := hp; clear _h hp
  induction p with
  | nil => rw [toMv_nil, map_zero, eval_nil]
  | cons t p ih => rw [toMv_cons, map_add, eval_monomial_toMv, ih, eval_cons]

/-- **the formal derivative of the model is the true (Mathlib) partial derivative** -/
theorem C09_pderiv_sound (d : Nat) (p : Poly) (hp : WF d p) (i : Fin d) :
    toMv d (p.pderiv i.val) = MvPolynomial.pderiv i (toMv d p) := by
  -- `hp` is not needed: `getD` pads short exponent vectors with 0 where `monoEval`/`set` truncate
  have _h := hp; clear _h hp
  induction p with
  | nil => rw [pderiv_nil, toMv_nil, map_zero]
  | cons t p ih => rw [pderiv_cons, toMv_append, pderiv_monomial_toMv, ih, toMv_cons, map_add]

theorem C09_pderiv_wf (d : Nat) (p : Poly) (hp : WF d p) (i : Nat) : WF d (p.pderiv i) := by
  intro t ht
  unfold Poly.pderiv at ht
  rw [List.mem_filterMap] at ht
  obtain ⟨s, hs, hst⟩ := ht
  by_cases hk : (s.2.getD i 0 == 0) = true
  · simp only [hk, if_true] at hst
    exact absurd hst (by simp)
  · simp only [hk] at hst
    have : t = (s.1 * ((s.2.getD i 0 : Nat) : ℚ), s.2.set i (s.2.getD i 0 - 1)) := by
      simpa using hst.symm
    rw [this]
    simpa using hp s hs

/-- `coeff` is additive over the term list and `eval` is the coefficient-weighted sum: two
    polynomials with equal coefficients everywhere evaluate equally -/
theorem C09_eval_congr_coeff (p q : Poly) (h : ∀ e, p.coeff e = q.coeff e) (x : List ℚ) :
    p.eval x = q.eval x := by
  have hp : ∀ t ∈ p, t.2 ∈ (p.exps ++ q.exps).toFinset := fun t ht =>
    List.mem_toFinset.mpr (List.mem_append_left _ (mem_exps_of_mem ht))
  have hq : ∀ t ∈ q, t.2 ∈ (p.exps ++ q.exps).toFinset := fun t ht =>
    List.mem_toFinset.mpr (List.mem_append_right _ (mem_exps_of_mem ht))
  rw [eval_eq_sum p x _ hp, eval_eq_sum q x _ hq]
  exact Finset.sum_congr rfl (fun e _ => by rw [h e])

/-- **meaning of `close`**: coefficient-wise closeness bounds the pointwise difference at every
    point of the unit box (all reference cells lie in it) by `tol` times the number of terms -/
theorem C09_close_sound (p q : Poly) (tol : ℚ) (h : Poly.close p q tol = true)
    (x : List ℚ) (hx : ∀ a ∈ x, 0 ≤ a ∧ a ≤ 1) :
    |p.eval x - q.eval x| ≤ tol * ((p.length + q.length : Nat) : ℚ) :=
  close_sound p q tol h x hx

/-- **every traced H1 element**: for every local basis function `j` and direction `a`, the declared
    gradient component differs from the formal derivative of the declared value by at most
    `2^-40 · (#terms)` at every point of the reference cell -/
theorem C09_h1_gradients (E : Nat × List Poly × List (List Poly)) (hE : E ∈ Gen.Shapes.h1Elements)
    (j : Nat) (hj : j < E.2.1.length) (a : Nat) (ha : a < E.1)
    (x : List ℚ) (hx : ∀ c ∈ x, 0 ≤ c ∧ c ≤ 1) :
    |((E.2.1.getD j []).pderiv a).eval x - ((E.2.2.getD j []).getD a []).eval x|
      ≤ Gen.Shapes.shapeTol *
        (((((E.2.1.getD j []).pderiv a).length + ((E.2.2.getD j []).getD a []).length : Nat)) : ℚ) :=
  C09_close_sound _ _ _
    (checkGrad_sound E.1 E.2.1 E.2.2 _ (Gen.Shapes.h1Elements_ok E hE) j hj a ha) x hx

/-- the same for the divergence of every traced H(div) element -/
theorem C09_hdiv_divergences (E : Nat × List (List Poly) × List Poly) (hE : E ∈ Gen.Shapes.hdivElements)
    (j : Nat) (hj : j < E.2.1.length) (x : List ℚ) (hx : ∀ c ∈ x, 0 ≤ c ∧ c ≤ 1) :
    |(Poly.sum ((List.range E.1).map (fun i => ((E.2.1.getD j []).getD i []).pderiv i))).eval x
        - (E.2.2.getD j []).eval x|
      ≤ Gen.Shapes.shapeTol *
        ((((Poly.sum ((List.range E.1).map (fun i => ((E.2.1.getD j []).getD i []).pderiv i))).length
            + (E.2.2.getD j []).length : Nat)) : ℚ) :=
  C09_close_sound _ _ _
    (checkDiv_sound E.1 E.2.1 E.2.2 _ (Gen.Shapes.hdivElements_ok E hE) j hj) x hx

/-- nodal duality check, unfolded: `φ_i(x_j) = δ_ij` within `tol` -/
theorem C09_dual_sound (vals : List Poly) (nodes : List (Nat × List ℚ)) (tol : ℚ)
    (h : checkDual vals nodes tol = true) (i j : Nat) (xi xj : List ℚ)
    (hi : (i, xi) ∈ nodes) (hj : (j, xj) ∈ nodes) :
    |(vals.getD i []).eval xj - (if i = j then 1 else 0)| ≤ tol := by
  unfold checkDual at h
  rw [List.all_eq_true] at h
  have h1 := h (j, xj) hj
  rw [List.all_eq_true] at h1
  have h2 := h1 (i, xi) hi
  rw [decide_eq_true_eq, ratAbs_eq_abs] at h2
  by_cases hij : i = j
  · simpa [hij] using h2
  · simpa [hij] using h2

/-- partition of unity check, unfolded: the listed functions sum to one at every point of the
    unit box, within `tol · (#terms + 1)` -/
theorem C09_pou_sound (dim : Nat) (vals : List Poly) (idx : List Nat) (tol : ℚ)
    (h : checkPou dim vals idx tol = true) (x : List ℚ) (hx : ∀ c ∈ x, 0 ≤ c ∧ c ≤ 1) :
    |(Poly.sum (idx.map (fun i => vals.getD i []))).eval x - 1|
      ≤ tol * (((Poly.sum (idx.map (fun i => vals.getD i []))).length + 1 : Nat) : ℚ) := by
  have := C09_close_sound _ _ tol h x hx
  rwa [eval_const_one] at this

/-! ### globally defined elements: power basis and Vandermonde duality -/

/-- **`_pbasis_create` for ALL `i`, `dx`**: the coefficient loop and exponent rule deliver the
    `dx`-th derivative of `x^i` (iterating `c x^k ↦ c k x^(k-1)`), including `i < dx` (zero) -/
theorem C09_global_monomials (i dx : Nat) :
    (pbasisCoeff i dx, pbasisExp i dx) = iterDeriv dx (1, i) := by
  rw [iterDeriv_one_eq, pbasisCoeff_eq_descFactorial, pbasisExp]

/-- closed form: descending factorial -/
theorem C09_global_monomials_closed (i dx : Nat) (h : dx ≤ i) :
    pbasisCoeff i dx * (Nat.factorial (i - dx) : Int) = (Nat.factorial i : Int) := by
  rw [pbasisCoeff_eq_descFactorial, mul_comm]
  exact_mod_cast Nat.factorial_mul_descFactorial h

theorem C09_global_monomials_zero (i dx : Nat) (h : i < dx) : pbasisCoeff i dx = 0 := by
  rw [pbasisCoeff_eq_descFactorial, Nat.descFactorial_eq_zero_iff_lt.mpr h]
  rfl

/-- one step of `iterDeriv` is the derivative of a monomial in Mathlib's sense -/
theorem C09_iterDeriv_step (c : Int) (k : Nat) :
    Polynomial.derivative (Polynomial.C (c : ℚ) * Polynomial.X ^ k)
      = Polynomial.C (((iterDeriv 1 (c, k)).1 : Int) : ℚ) * Polynomial.X ^ (iterDeriv 1 (c, k)).2 := by
  rw [Polynomial.derivative_C_mul_X_pow]
  simp only [iterDeriv]
  push_cast
  rfl

/-- **Vandermonde duality**: if `V` is the inverse of the matrix of the defining functionals on the
    power basis, `M j k = L j (m k)`, then the delivered basis `φ i = Σ_k V k i • m k` satisfies
    `L j (φ i) = δ_ji` — for ANY linear functionals (point values, derivatives, normal derivatives,
    edge means …) on any vector space of functions: Morley, Argyris, Hermite, BFS, HexC1 alike -/
theorem C09_vandermonde_dual {n : Nat} {W : Type} [AddCommGroup W] [Module ℚ W]
    (m : Fin n → W) (L : Fin n → W →ₗ[ℚ] ℚ) (V : Matrix (Fin n) (Fin n) ℚ)
    (hV : (Matrix.of (fun j k => L j (m k))) * V = 1) (i j : Fin n) :
    L j (∑ k, V k i • m k) = if j = i then 1 else 0 := by
  have h := congrFun (congrFun hV j) i
  rw [Matrix.mul_apply, Matrix.one_apply] at h
  rw [map_sum, ← h]
  refine Finset.sum_congr rfl (fun k _ => ?_)
  rw [map_smul, smul_eq_mul, Matrix.of_apply, mul_comm]

/-- the delivered derivative fields of a globally defined element are the derivatives of its
    delivered value: the same coefficients `V k i` multiply the power basis functions and their
    derivatives (linearity of differentiation) -/
theorem C09_global_derivative {n : Nat} (m : Fin n → Polynomial ℚ) (V : Matrix (Fin n) (Fin n) ℚ)
    (i : Fin n) :
    Polynomial.derivative (∑ k, Polynomial.C (V k i) * m k)
      = ∑ k, Polynomial.C (V k i) * Polynomial.derivative (m k) := by
  rw [Polynomial.derivative_sum]
  exact Finset.sum_congr rfl (fun k _ => Polynomial.derivative_C_mul _ _)

/-- non-vacuity -/
example : Gen.Shapes.h1Elements ≠ [] := by decide
example : Poly.pderiv [((3 : Rat), [2, 1])] 0 = [((6 : Rat), [1, 1])] := by decide +kernel
example : (pbasisCoeff 5 2, pbasisExp 5 2) = (20, 3) := by decide
example : pbasisCoeff 1 3 = 0 := by decide

end Skv.C09
