import SkfemVerif.Model.Cache
import SkfemVerif.Lemmas.Cache
import SkfemVerif.Gen.CacheKeys
/-
C15  No hidden state: history-independent results, operands never mutated.

Model (Model/Cache.lean): the generic memo machine `step/run/outputs` (store = association list,
hit returns the STORED value, eviction policy `keep`), NumPy arrays with their little-endian byte
serialisation, the cache sites of the library described by (guard, view, policy), and the closure
machine of the solver factories.

Tie: `Gen/CacheKeys.lean` is regenerated on every run from the guard expressions of the live source
(harness/skv/gens/cache.py); correspondence ops `cache.key` (implementation's key equality vs the
model's), `cache.trace` (which earlier call serves each call of a history, observed by object identity
on `MappingIsoparametric.J`, `ElementLinePp/QuadP.lbasis`, `ElementGlobal.gbasis`, the lazy attributes) and
`cache.closure` (keyword dictionary handed to the backend, observed by a spy backend).

What is NOT proved here: that the 18 kLoC contain no other hidden state, and real aliasing of arrays
(runtime; explored by the pool-vs-fresh history search and the operand checksums).
-/
namespace Skv.C15
open Skv Skv.Cache

/-! ### the memo machine -/

/-- **Main theorem.**  For a pure `f`, a key function `κ` and an eviction policy that only drops
    entries and never drops the newest one, every output of every finite call history (over the
    admissible arguments `P`) equals `f arg`  IFF  `κ` separates `f` on the admissible arguments. -/
theorem C15_memo_transparent {A K V : Type} [DecidableEq K] (f : A → V) (κ : A → K)
    (keep : Store K V → Store K V) (P : A → Prop)
    (hsub : ∀ s e, e ∈ keep s → e ∈ s) (hnew : ∀ e : K × V, keep [e] = [e]) :
    (∀ h : List A, (∀ a ∈ h, P a) → outputs f κ keep h = h.map f) ↔
      (∀ a b, P a → P b → κ a = κ b → f a = f b) := by
  constructor
  · intro H a b ha hb hκ
    have h1 := H [a, b] (by
      intro x hx
      rcases List.mem_cons.mp hx with h | h
      · exact h ▸ ha
      · rcases List.mem_cons.mp h with h | h
        · exact h ▸ hb
        · simp at h)
    rw [outputs_pair_collision f κ keep hnew a b hκ] at h1
    simp at h1
    exact h1
  · intro sep h hP
    exact (run_sound f κ keep P hsub sep h [] (consistent_nil f κ P) hP).1

/-- the same from ANY warm state reached by an earlier history: later outputs are still `f arg` -/
theorem C15_memo_transparent_warm {A K V : Type} [DecidableEq K] (f : A → V) (κ : A → K)
    (keep : Store K V → Store K V) (P : A → Prop)
    (hsub : ∀ s e, e ∈ keep s → e ∈ s)
    (sep : ∀ a b, P a → P b → κ a = κ b → f a = f b)
    (h1 h2 : List A) (hP1 : ∀ a ∈ h1, P a) (hP2 : ∀ a ∈ h2, P a) :
    (run f κ keep (run f κ keep [] h1).1 h2).2 = h2.map f := by
  have w := (run_sound f κ keep P hsub sep h1 [] (consistent_nil f κ P) hP1).2
  exact (run_sound f κ keep P hsub sep h2 _ w hP2).1

/-- both eviction policies of the library (dictionary / single slot) satisfy the two side conditions -/
theorem C15_policies_admissible {K V : Type} (p : Policy) :
    (∀ (s : Store K V) e, e ∈ p.keep s → e ∈ s) ∧ (∀ e : K × V, p.keep [e] = [e]) :=
  ⟨fun s e h => Policy.keep_sub p s e h, fun e => Policy.keep_new p e⟩

/-- a violated separation gives a concrete failing two-call history -/
theorem C15_collision_gives_stale {A K V : Type} [DecidableEq K] (f : A → V) (κ : A → K) (p : Policy)
    (a b : A) (hκ : κ a = κ b) (hf : f a ≠ f b) :
    outputs f κ p.keep [a, b] ≠ [a, b].map f := by
  rw [outputs_pair_collision f κ p.keep (Policy.keep_new p) a b hκ]
  simp
  exact hf

/-! ### bytes: `hash_args` -/

/-- `ndarray.tobytes()` has `itemsize * size` bytes -/
theorem C15_tobytes_length (a : NpArr) : a.tobytes.length = a.width * a.vals.length := by
  unfold NpArr.tobytes
  induction a.vals with
  | nil => simp
  | cons v r ih => simp [length_leBytes, ih, Nat.mul_succ, Nat.add_comm]

/-- F11 witness: `int64 [1]` and `int32 [1, 0]` are different arrays with equal byte strings -/
theorem C15_hashargs_bytes_collision :
    wInt64.tobytes = wInt32.tobytes ∧ wInt64 ≠ wInt32 ∧ wInt64.Valid ∧ wInt32.Valid := by decide

/-- the collision is not an accident of that pair: EVERY valid array of 8-byte items that fit in 4 bytes
    has the bytes of the array of 4-byte items in which a zero item follows each item -/
theorem C15_bytes_collision_family (k : Nat) (sh : List Nat) (vs : List Nat)
    (hv : ∀ v ∈ vs, v < 256 ^ 4) :
    (NpArr.mk k 8 sh vs).tobytes =
      (NpArr.mk k 4 [2 * vs.length] (vs.flatMap fun v => [v, 0])).tobytes := by
  unfold NpArr.tobytes
  induction vs with
  | nil => rfl
  | cons v r ih =>
    have hv0 : v < 256 ^ 4 := hv v List.mem_cons_self
    have hr := ih (fun x hx => hv x (List.mem_cons_of_mem _ hx))
    simp only [List.map_cons, List.flatten_cons, List.flatMap_cons, List.cons_append, List.nil_append] at hr ⊢
    rw [hr]
    have : leBytes 8 v = leBytes 4 v ++ leBytes 4 0 := by
      have h4 : v / 256 / 256 / 256 / 256 = 0 := by omega
      simp [leBytes, h4]
    rw [this]
    simp

/-- repaired key: (shape, dtype, bytes) determines the array — for ALL valid arrays -/
theorem C15_hashargs_key_injective (a b : NpArr) (ha : a.Valid) (hb : b.Valid)
    (h : (a.shape, a.kind, a.width, a.tobytes) = (b.shape, b.kind, b.width, b.tobytes)) : a = b :=
  arrKey_inj ha hb h

/-! ### the decision table guard × view -/

/-- **soundness of the table**: whenever `determines g v`, equal keys force equal views
    (for all valid arguments) -/
theorem C15_determines_sound (g : Guard) (v : ViewKind) (hd : determines g v = true)
    (a b : Arg) (ha : a.Valid) (hb : b.Valid) (hk : keyOf g a = keyOf g b) :
    viewOf v a = viewOf v b := by
  have full : g = .shapeDtypeBytes → a = b := by
    intro hg
    subst hg
    simp only [keyOf, GKey.mk.injEq] at hk
    obtain ⟨h1, h2⟩ := hk
    obtain ⟨ho, hi⟩ := ofNat_cons_inj h1
    have harr : a.arrs.map id = b.arrs.map id :=
      map_transfer (fun x : Option NpArr => x.map (fun z => (z.shape, z.kind, z.width, z.tobytes))) id
        optValid (fun x y hx hy h => optArr_transfer x y hx hy h) a.arrs b.arrs ha hb h2
    simp only [List.map_id] at harr
    obtain ⟨ao, ai, aa⟩ := a
    obtain ⟨bo, bi, ba⟩ := b
    simp only at ho hi harr
    rw [ho, hi, harr]
  cases v with
  | selfOnly => rfl
  | objArg =>
    cases g with
    | identity =>
      simp only [keyOf, GKey.mk.injEq] at hk
      simp only [viewOf, hk.1]
    | bytes =>
      simp only [keyOf, GKey.mk.injEq] at hk
      obtain ⟨ho, _⟩ := ofNat_cons_inj hk.1
      simp only [viewOf, ho]
    | shapeDtypeBytes => rw [full rfl]
    | unit => simp [determines] at hd
    | npoints => simp [determines] at hd
    | shapeValues => simp [determines] at hd
  | arrays =>
    cases g with
    | shapeValues =>
      simp only [keyOf, GKey.mk.injEq] at hk
      simp only [viewOf, hk.2]
    | shapeDtypeBytes => rw [full rfl]
    | unit => simp [determines] at hd
    | identity => simp [determines] at hd
    | npoints => simp [determines] at hd
    | bytes => simp [determines] at hd
  | allArgs =>
    cases g with
    | shapeDtypeBytes => rw [full rfl]
    | unit => simp [determines] at hd
    | identity => simp [determines] at hd
    | npoints => simp [determines] at hd
    | shapeValues => simp [determines] at hd
    | bytes => simp [determines] at hd

/-- **completeness of the table**: whenever NOT `determines g v`, there are valid arguments with
    equal keys and different views (the witnesses are the ones the check replays on the implementation:
    two meshes, two point sets of equal size, `int64 [1]` / `int32 [1, 0]`, `int64 [1]` / `uint64 [1]`) -/
theorem C15_determines_complete (g : Guard) (v : ViewKind) (hd : determines g v = false) :
    ∃ a b : Arg, a.Valid ∧ b.Valid ∧ keyOf g a = keyOf g b ∧ viewOf v a ≠ viewOf v b := by
  have objW : ∀ g', (g' = .unit ∨ g' = .npoints ∨ g' = .shapeValues) →
      ∃ a b : Arg, a.Valid ∧ b.Valid ∧ keyOf g' a = keyOf g' b ∧ viewOf .objArg a ≠ viewOf .objArg b := by
    intro g' hg
    refine ⟨⟨1, [], []⟩, ⟨2, [], []⟩, by decide, by decide, ?_, by decide⟩
    rcases hg with h | h | h <;> subst h <;> decide
  have ptsW : ∀ g' v', (g' = .unit ∨ g' = .identity ∨ g' = .npoints) → (v' = .arrays ∨ v' = .allArgs) →
      ∃ a b : Arg, a.Valid ∧ b.Valid ∧ keyOf g' a = keyOf g' b ∧ viewOf v' a ≠ viewOf v' b := by
    intro g' v' hg hv
    refine ⟨⟨0, [], [some wPtsA]⟩, ⟨0, [], [some wPtsB]⟩, by decide, by decide, ?_, ?_⟩
    · rcases hg with h | h | h <;> subst h <;> decide
    · rcases hv with h | h <;> subst h <;> decide
  cases g <;> cases v <;> simp [determines] at hd
  · exact objW _ (Or.inl rfl)
  · exact ptsW _ _ (Or.inl rfl) (Or.inl rfl)
  · exact ptsW _ _ (Or.inl rfl) (Or.inr rfl)
  · exact ptsW _ _ (Or.inr (Or.inl rfl)) (Or.inl rfl)
  · exact ptsW _ _ (Or.inr (Or.inl rfl)) (Or.inr rfl)
  · exact objW _ (Or.inr (Or.inl rfl))
  · exact ptsW _ _ (Or.inr (Or.inr rfl)) (Or.inl rfl)
  · exact ptsW _ _ (Or.inr (Or.inr rfl)) (Or.inr rfl)
  · exact objW _ (Or.inr (Or.inr rfl))
  · exact ⟨⟨0, [], [some wInt64]⟩, ⟨0, [], [some wUInt64]⟩, by decide, by decide, by decide, by decide⟩
  · exact ⟨⟨0, [], [some wInt64]⟩, ⟨0, [], [some wInt32]⟩, by decide, by decide, by decide, by decide⟩
  · exact ⟨⟨0, [], [some wInt64]⟩, ⟨0, [], [some wInt32]⟩, by decide, by decide, by decide, by decide⟩

/-- **Site theorem (both directions).**  A cache site with guard `g` and eviction policy `p` is transparent
    for EVERY pure cached computation `f` that reads only the view `v` of its arguments — every output of every
    finite history of valid calls equals `f arg` —  IFF  the decision table says `determines g v`. -/
theorem C15_site_transparent_iff (g : Guard) (v : ViewKind) (p : Policy) :
    (∀ (V : Type) (f : Arg → V), (∀ a b, viewOf v a = viewOf v b → f a = f b) →
        ∀ h : List Arg, (∀ a ∈ h, a.Valid) → siteOutputs g p f h = h.map f)
      ↔ determines g v = true := by
  constructor
  · intro H
    cases hd : determines g v with
    | true => rfl
    | false =>
      exfalso
      obtain ⟨a, b, ha, hb, hk, hv⟩ := C15_determines_complete g v hd
      have h1 := H GKey (viewOf v) (fun _ _ h => h) [a, b] (by
        intro x hx
        rcases List.mem_cons.mp hx with h | h
        · exact h ▸ ha
        · rcases List.mem_cons.mp h with h | h
          · exact h ▸ hb
          · simp at h)
      exact C15_collision_gives_stale (viewOf v) (keyOf g) p a b hk hv h1
  · intro hd V f hf h hP
    have adm := @C15_policies_admissible GKey V p
    exact (C15_memo_transparent f (keyOf g) p.keep Arg.Valid adm.1 adm.2).mpr
      (fun a b ha hb hk => hf a b (C15_determines_sound g v hd a b ha hb hk)) h hP

/-! ### the generated table of the live source -/

/-- every cache site found in the live source is in the sound part of the table
    (breaks when a guard is weakened: the generated file changes) -/
theorem C15_generated_sites_sound : ∀ s ∈ Gen.cacheSites, s.sound = true := by decide

/-- … hence every cache site of the library is transparent, for every cached computation reading
    only its view, over all finite histories of valid calls -/
theorem C15_all_sites_transparent (s : Site) (hs : s ∈ Gen.cacheSites)
    (V : Type) (f : Arg → V) (hf : ∀ a b, viewOf s.view a = viewOf s.view b → f a = f b)
    (h : List Arg) (hP : ∀ a ∈ h, a.Valid) :
    siteOutputs s.guard s.policy f h = h.map f :=
  (C15_site_transparent_iff s.guard s.view s.policy).mpr (C15_generated_sites_sound s hs) V f hf h hP

/-- an anchor function of the property either keeps no state at all any more, or has a cache site
    with the expected view whose guard is in the sound part of the table -/
def anchorOk (fn : String) (v : ViewKind) : Bool :=
  Gen.statelessFns.contains fn || Gen.cacheSites.any (fun s => s.fn == fn && s.view == v && s.sound)

/-- the cache sites the property names were found by the translator (it did not silently lose them) -/
theorem C15_anchor_sites_present :
    anchorOk "ElementLinePp.lbasis" .arrays = true ∧ anchorOk "ElementQuadP.lbasis" .arrays = true ∧
    anchorOk "ElementGlobal.gbasis" .objArg = true ∧ anchorOk "MappingIsoparametric.J" .allArgs = true ∧
    anchorOk "Mesh.facets" .selfOnly = true ∧ anchorOk "Mesh._mapping" .selfOnly = true := by decide

/-- frame conditions of the unit-key sites, as found by the AST scan of the live source: no method
    rebinds an attribute read by a set-once cache outside a constructor, nothing stores in place into
    `.p/.t/.doflocs`, and no lazily attached attribute is a dataclass field (so `dataclasses.replace`
    returns an object with a cold cache) -/
theorem C15_frame_scan_clean : Gen.frameWrites = [] ∧ Gen.lazyFieldsCarried = [] := by decide

/-- `dataclasses.replace`: whatever the operand had cached (even stale entries), every history of cached
    calls on the returned object gives `f (new fields) arg` when the key separates `f` — the operand's
    lazily attached attributes do not leak into the new object -/
theorem C15_replace_fresh {F A K V : Type} [DecidableEq K] (f : F → A → V) (κ : A → K) (p : Policy)
    (o : Obj F K V) (g : F → F)
    (sep : ∀ a b, κ a = κ b → f (g o.fields) a = f (g o.fields) b) (h : List A) :
    (o.replace g).calls f κ p.keep h = h.map (f (g o.fields)) := by
  have adm := @C15_policies_admissible K V p
  exact (C15_memo_transparent (f (g o.fields)) κ p.keep (fun _ => True) adm.1 adm.2).mpr
    (fun a b _ _ hk => sep a b hk) h (fun _ _ => trivial)

/-- … whereas a copy that carried the lazily attached attributes along returns the OLD object's value:
    a set-once attribute (`facets` of a mesh with cells `1`) survives the change of the field to `2` -/
theorem C15_copy_keeping_cache_counterexample :
    let o : Obj Nat Unit Nat := ⟨1, [((), 1)]⟩
    (o.copyKeepingCache (fun _ => 2)).calls (fun t (_ : Unit) => t) (fun _ => ()) Policy.all.keep [()] = [1] ∧
    (o.replace (fun _ => 2)).calls (fun t (_ : Unit) => t) (fun _ => ()) Policy.all.keep [()] = [2] := by
  decide

/-! ### the pinned tree: negative instances (each replayed on the implementation by the check) -/

/-- F8: `ElementLinePp.lbasis` keyed on the number of points: second point set served from the first -/
theorem C15_linepp_npoints_old_counterexample :
    determines .npoints .arrays = false ∧
    servedFrom .npoints .last [⟨0, [], [some wPtsA]⟩, ⟨0, [], [some wPtsB]⟩] = [0, 0] ∧
    servedFrom .shapeValues .last [⟨0, [], [some wPtsA]⟩, ⟨0, [], [some wPtsB]⟩] = [0, 1] := by decide

/-- F9: `ElementGlobal.V` filled once although it reads the mesh argument -/
theorem C15_global_V_old_counterexample :
    determines .unit .objArg = false ∧
    servedFrom .unit .all [⟨1, [], []⟩, ⟨2, [], []⟩] = [0, 0] ∧
    servedFrom .identity .last [⟨1, [], []⟩, ⟨2, [], []⟩, ⟨1, [], []⟩] = [0, 1, 2] := by decide

/-- F11: `hash_args` over bytes only: `J(i, j, X, int32 [1, 0])` served from `J(i, j, X, int64 [1])` -/
theorem C15_hashargs_old_counterexample :
    determines .bytes .allArgs = false ∧
    servedFrom .bytes .all [⟨0, [0, 1], [some wPtsA, some wInt64]⟩, ⟨0, [0, 1], [some wPtsA, some wInt32]⟩]
      = [0, 0] ∧
    servedFrom .shapeDtypeBytes .all
      [⟨0, [0, 1], [some wPtsA, some wInt64]⟩, ⟨0, [0, 1], [some wPtsA, some wInt32]⟩] = [0, 1] := by decide

/-! ### solver factories -/

/-- **repaired closures are history independent**: after ANY history of solves the captured
    dictionary is unchanged and every solve handed the backend exactly what a freshly made closure
    would have handed it -/
theorem C15_closure_repaired_history_independent (needsM : Bool) (cap : Dict) (h : List SolveCall) :
    closureRun .localMerge needsM cap h = (cap, h.map (closureFresh .localMerge needsM cap)) := by
  induction h with
  | nil => rfl
  | cons c h ih => simp [closureRun, closureStep, closureFresh, ih]

/-- the preconditioner the repaired Krylov closure supplies is the one of the CURRENT matrix -/
theorem C15_closure_repaired_pc_current (cap : Dict) (c : SolveCall)
    (h : ((cap.merge c.kw).get? "M") = none) :
    (closureFresh .localMerge true cap c).get? "M" = some (pcOf c.A) := by
  have set_get : ∀ (d : Dict) k v, (d.set k v).get? k = some v := by
    intro d k v
    induction d with
    | nil => simp [Dict.set, Dict.get?]
    | cons e r ih =>
      obtain ⟨k', v'⟩ := e
      by_cases hk : k' = k <;> simp [Dict.set, Dict.get?, hk, ih]
  simp [closureFresh, closureStep, effective, h, set_get]

/-- F10: old closures: a 2-call history whose second solve differs from a fresh closure's — the
    preconditioner of matrix 3 is handed to the solve with matrix 5 (Krylov), and a solve-time `k=3`
    sticks to the next eigenvalue solve -/
theorem C15_closure_old_counterexample :
    (closureRun .capturedUpdate true [] [⟨3, []⟩, ⟨5, []⟩]).2
        = [[("M", pcOf 3)], [("M", pcOf 3)]] ∧
    [(⟨3, []⟩ : SolveCall), ⟨5, []⟩].map (closureFresh .capturedUpdate true [])
        = [[("M", pcOf 3)], [("M", pcOf 5)]] ∧
    (closureRun .capturedUpdate false [("k", 5)] [⟨1, [("k", 3)]⟩, ⟨1, []⟩]).2 = [[("k", 3)], [("k", 3)]] ∧
    (closureRun .localMerge false [("k", 5)] [⟨1, [("k", 3)]⟩, ⟨1, []⟩]).2 = [[("k", 3)], [("k", 5)]] := by
  decide

/-- every solver factory of the live source merges into a local dictionary -/
theorem C15_generated_closures_sound : ∀ s ∈ Gen.closureSites, s.sound = true := by decide

theorem C15_all_closures_history_independent (s : ClosureSite) (hs : s ∈ Gen.closureSites)
    (cap : Dict) (h : List SolveCall) :
    closureRun s.kind s.needsM cap h = (cap, h.map (closureFresh s.kind s.needsM cap)) := by
  have hk : s.kind = .localMerge := by
    have := C15_generated_closures_sound s hs
    simp only [ClosureSite.sound, beq_iff_eq] at this
    exact this
  rw [hk]
  exact C15_closure_repaired_history_independent s.needsM cap h

/-! ### non-vacuity -/

example : ∃ a : Arg, a.Valid ∧ a.arrs ≠ [] := ⟨⟨0, [0, 1], [some wPtsA, some wInt64, none]⟩, by decide, by decide⟩
example : Gen.cacheSites.length ≥ 20 := by decide
example : Gen.closureSites.length ≥ 5 := by decide
example : siteOutputs .shapeDtypeBytes .all (fun a => a.ints)
    [⟨0, [0, 1], [some wInt64]⟩, ⟨0, [1, 1], [some wInt32]⟩, ⟨0, [0, 1], [some wInt64]⟩]
    = [[0, 1], [1, 1], [0, 1]] := by decide

end Skv.C15
